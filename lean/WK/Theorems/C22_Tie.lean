import WK.Theorems.C22
import WK.Proofs.C22_Reencode
import WK.Gen.C22
/-
  C22 — T tie for the protocol constants.  `WK.Gen.C22` is regenerated from
  /repo's current source on every check run (extract/c22.go); this theorem is
  re-proved against it, so a changed frame-type number, version constant, limit,
  setting bit or field width in the Go source breaks the proof (and the D tie
  then looks for the failing frame).  Kept in its own file so that C23, which
  reuses the codec theorems, does not depend on a generated file.
-/
namespace WK.C22

/-- the per-field widths the model's `sizeX` functions hard-code -/
def modelByteSizes : List (String × Nat) :=
  [("SettingByteSize", 1), ("StringFixLenByteSize", 2), ("ClientSeqByteSize", 4), ("ChannelTypeByteSize", 1),
   ("VersionByteSize", 1), ("DeviceFlagByteSize", 1), ("ClientTimestampByteSize", 8), ("TimeDiffByteSize", 8),
   ("ReasonCodeByteSize", 1), ("MessageIDByteSize", 8), ("MessageSeqLegacyByteSize", 4),
   ("MessageSeqU64ByteSize", 8), ("TimestampByteSize", 4), ("BigTimestampByteSize", 8), ("ActionByteSize", 1),
   ("StreamIdByteSize", 8), ("StreamFlagByteSize", 1), ("ExpireByteSize", 4), ("NodeIdByteSize", 8)]

/-- the frame-type numbers of the model's constructors (`Frame.typeNo`, `decodeBody`) -/
def modelFrameTypes : List (String × Nat) :=
  [("UNKNOWN", 0),
   ("CONNECT", (Frame.connect {} ⟨0, 0, [], [], [], 0, []⟩).typeNo),
   ("CONNACK", (Frame.connack {} ⟨0, 0, 0, [], [], 0⟩).typeNo),
   ("SEND", (Frame.send {} ⟨0, 0, [], [], [], 0, 0, [], [], []⟩).typeNo),
   ("SENDACK", (Frame.sendack {} ⟨0, 0, 0, 0, []⟩).typeNo),
   ("RECV", (Frame.recv {} ⟨0, [], [], [], 0, 0, [], 0, [], 0, 0, 0, 0, [], []⟩).typeNo),
   ("RECVACK", (Frame.recvack {} ⟨0, 0⟩).typeNo),
   ("PING", (Frame.ping {}).typeNo),
   ("PONG", (Frame.pong {}).typeNo),
   ("DISCONNECT", (Frame.disconnect {} ⟨0, []⟩).typeNo),
   ("SUB", (Frame.sub {} ⟨0, [], [], 0, 0, []⟩).typeNo),
   ("SUBACK", (Frame.suback {} ⟨[], [], 0, 0, 0⟩).typeNo),
   ("EVENT", (Frame.event {} ⟨[], [], 0, []⟩).typeNo)]

/-- The constants in the Go source are the constants of the model. -/
theorem c22_constants_tie :
    WK.Gen.C22.latestVersion = latestVersion ∧
    WK.Gen.C22.legacyMessageSeqVersion = legacyMessageSeqVersion ∧
    WK.Gen.C22.settingTopic = settingTopic ∧
    WK.Gen.C22.settingStream = settingStream ∧
    WK.Gen.C22.maxRemainingLength = maxRemainingLength ∧
    WK.Gen.C22.payloadMaxSize = payloadMaxSize ∧
    WK.Gen.C22.frameTypes = modelFrameTypes ∧
    WK.Gen.C22.byteSizes = modelByteSizes := by decide

/-- MaxRemaingLength is inside the range the varint decoder handles (4 bytes, 2^28-1),
    and a string/payload limit is what an int16 length prefix can carry. -/
theorem c22_limits_consistent :
    WK.Gen.C22.maxRemainingLength < 268435456 ∧ WK.Gen.C22.payloadMaxSize = maxInt16 := by decide

open WK.Gen.C22

/-- close an encoder-layout goal after unfolding (instances of the same guard may differ) -/
macro "enc_close" : tactic => `(tactic| (first | done | rfl | congr))

/-- close a size-layout goal after unfolding: split the guards, then arithmetic -/
macro "size_close" : tactic => `(tactic| (
  try (repeat' split)
  all_goals (first | omega | (simp [*]; try omega))))

/-! ## field order: the model's encoder and size function of every frame type are the
    interpretation of the write / size-term list extracted from the current Go source, and
    the Go decoder reads the same fields, in the same order, under the same guards. -/

theorem c22_field_order_connect (p : Connect) :
    encConnect p = interpEnc ⟨0, false, p.val⟩ enc_connect ∧
    sizeConnect p = interpSize ⟨0, false, p.val⟩ size_connect ∧
    dec_connect = enc_connect := by
  refine ⟨?_, ?_, by decide⟩
  · simp [encConnect, interpEnc, enc_connect, evalGuard, evalAtom, writeItem, Connect.val, Val.nat, Val.byt, wIf, and_assoc]
    enc_close
  · simp [sizeConnect, interpSize, size_connect, evalGuard, evalAtom, sizeItem, Connect.val, Val.nat, Val.byt, and_assoc]
    size_close

theorem c22_field_order_connack (v : Nat) (h : Flags) (p : Connack) :
    encConnack v h p = interpEnc ⟨v, h.hsv, p.val⟩ enc_connack ∧
    sizeConnack v h p = interpSize ⟨v, h.hsv, p.val⟩ size_connack ∧
    dec_connack = enc_connack := by
  refine ⟨?_, ?_, by decide⟩
  · simp [encConnack, interpEnc, enc_connack, evalGuard, evalAtom, writeItem, Connack.val, Val.nat, Val.byt, wIf, and_assoc]
    enc_close
  · simp [sizeConnack, interpSize, size_connack, evalGuard, evalAtom, sizeItem, Connack.val, Val.nat, Val.byt, and_assoc]
    size_close

theorem c22_field_order_send (v : Nat) (p : Send) :
    encSend v p = interpEnc ⟨v, false, p.val⟩ enc_send ∧
    sizeSend v p = interpSize ⟨v, false, p.val⟩ size_send ∧
    dec_send = enc_send := by
  refine ⟨?_, ?_, by decide⟩
  · simp [encSend, interpEnc, enc_send, evalGuard, evalAtom, writeItem, Send.val, Val.nat, Val.byt, wIf, streamOn, topicOn, and_assoc]
    enc_close
  · simp [sizeSend, interpSize, size_send, evalGuard, evalAtom, sizeItem, Send.val, Val.nat, Val.byt, streamOn, topicOn, and_assoc]
    size_close

theorem c22_field_order_sendack (v : Nat) (p : Sendack) :
    encSendack v p = interpEnc ⟨v, false, p.val⟩ enc_sendack ∧
    sizeSendack v p = interpSize ⟨v, false, p.val⟩ size_sendack ∧
    dec_sendack = [⟨.u64, "MessageID", []⟩, ⟨.u32, "ClientSeq", []⟩, ⟨.bytes, "Body", []⟩, ⟨.bytes, "SendackBody", []⟩] ∧
    dec_sendack_core_first =
      [⟨.seq, "MessageSeq", []⟩, ⟨.u8, "ReasonCode", []⟩, ⟨.str, "ClientMsgNo", [.lenPos]⟩, ⟨.bytes, "END", []⟩] ∧
    dec_sendack_msgno_first =
      [⟨.str, "ClientMsgNo", []⟩, ⟨.seq, "MessageSeq", []⟩, ⟨.u8, "ReasonCode", []⟩, ⟨.bytes, "END", []⟩] := by
  refine ⟨?_, ?_, by decide, by decide, by decide⟩
  · simp [encSendack, interpEnc, enc_sendack, evalGuard, evalAtom, writeItem, Sendack.val, Val.nat, Val.byt, wIf, and_assoc]
    enc_close
  · simp [sizeSendack, interpSize, size_sendack, evalGuard, evalAtom, sizeItem, Sendack.val, Val.nat, Val.byt, and_assoc]
    size_close

theorem c22_field_order_recv (v : Nat) (p : Recv) :
    encRecv v p = interpEnc ⟨v, false, p.val⟩ enc_recv ∧
    sizeRecv v p = interpSize ⟨v, false, p.val⟩ size_recv ∧
    dec_recv = enc_recv := by
  refine ⟨?_, ?_, by decide⟩
  · by_cases hc : (v < 5 ∧ 2 ≤ v ∧ isSet p.setting settingStream = true) <;>
      simp [encRecv, interpEnc, enc_recv, evalGuard, evalAtom, writeItem, Recv.val, Val.nat, Val.byt, wIf, streamOn,
        topicOn, and_assoc, hc] <;> enc_close
  · simp [sizeRecv, interpSize, size_recv, evalGuard, evalAtom, sizeItem, Recv.val, Val.nat, Val.byt, streamOn, topicOn, and_assoc]
    size_close

theorem c22_field_order_recvack (v : Nat) (p : Recvack) :
    encRecvack v p = interpEnc ⟨v, false, p.val⟩ enc_recvack ∧
    sizeRecvack v = interpSize ⟨v, false, p.val⟩ size_recvack ∧
    dec_recvack = enc_recvack := by
  refine ⟨?_, ?_, by decide⟩
  · simp [encRecvack, interpEnc, enc_recvack, evalGuard, evalAtom, writeItem, Recvack.val, Val.nat, Val.byt, wIf, and_assoc]
    enc_close
  · simp [sizeRecvack, interpSize, size_recvack, evalGuard, evalAtom, sizeItem, Recvack.val, Val.nat, Val.byt, and_assoc]
    size_close

theorem c22_field_order_disconnect (p : Disconnect) :
    encDisconnect p = interpEnc ⟨0, false, p.val⟩ enc_disconnect ∧
    sizeDisconnect p = interpSize ⟨0, false, p.val⟩ size_disconnect ∧
    dec_disconnect = enc_disconnect := by
  refine ⟨?_, ?_, by decide⟩
  · simp [encDisconnect, interpEnc, enc_disconnect, evalGuard, evalAtom, writeItem, Disconnect.val, Val.nat, Val.byt, wIf, and_assoc]
    enc_close
  · simp [sizeDisconnect, interpSize, size_disconnect, evalGuard, evalAtom, sizeItem, Disconnect.val, Val.nat, Val.byt, and_assoc]
    size_close

theorem c22_field_order_sub (p : Sub) :
    encSub p = interpEnc ⟨0, false, p.val⟩ enc_sub ∧
    sizeSub p = interpSize ⟨0, false, p.val⟩ size_sub ∧
    dec_sub = enc_sub := by
  refine ⟨?_, ?_, by decide⟩
  · simp [encSub, interpEnc, enc_sub, evalGuard, evalAtom, writeItem, Sub.val, Val.nat, Val.byt, wIf, and_assoc]
    enc_close
  · simp [sizeSub, interpSize, size_sub, evalGuard, evalAtom, sizeItem, Sub.val, Val.nat, Val.byt, and_assoc]
    size_close

theorem c22_field_order_suback (p : Suback) :
    encSuback p = interpEnc ⟨0, false, p.val⟩ enc_suback ∧
    sizeSuback p = interpSize ⟨0, false, p.val⟩ size_suback ∧
    dec_suback = enc_suback := by
  refine ⟨?_, ?_, by decide⟩
  · simp [encSuback, interpEnc, enc_suback, evalGuard, evalAtom, writeItem, Suback.val, Val.nat, Val.byt, wIf, and_assoc]
    enc_close
  · simp [sizeSuback, interpSize, size_suback, evalGuard, evalAtom, sizeItem, Suback.val, Val.nat, Val.byt, and_assoc]
    size_close

theorem c22_field_order_event (p : Event) :
    encEvent p = interpEnc ⟨0, false, p.val⟩ enc_event ∧
    sizeEvent p = interpSize ⟨0, false, p.val⟩ size_event ∧
    dec_event = enc_event := by
  refine ⟨?_, ?_, by decide⟩
  · simp [encEvent, interpEnc, enc_event, evalGuard, evalAtom, writeItem, Event.val, Val.nat, Val.byt, wIf, and_assoc]
    enc_close
  · simp [sizeEvent, interpSize, size_event, evalGuard, evalAtom, sizeItem, Event.val, Val.nat, Val.byt, and_assoc]
    size_close

/-- the loop shape of decodeLength / encodeVariable2 in the source is the one the model runs -/
theorem c22_varint_shape :
    decodeLengthBound = 27 ∧ decodeLengthStep = 7 ∧ varintBase = 128 ∧
    (∀ data, decLen data = decLenF ((decodeLengthBound + decodeLengthStep - 1) / decodeLengthStep) 0 0 0 data) ∧
    messageSeqGuardUniform = true := by
  refine ⟨rfl, rfl, rfl, fun _ => rfl, rfl⟩


/-- non-vacuity: the extracted lists are the real ones (10 SEND writes, 5 guarded RECV writes,
    the legacy stream fields under `version < 5 ∧ version ≥ 2 ∧ stream`) -/
example : enc_send.length = 10 ∧ (enc_recv.filter (fun it => it.guard ≠ [])).length = 5 ∧
    enc_recv.contains ⟨.u64, "StreamId", [.vLt 5, .vGe 2, .stream]⟩ ∧
    size_recv.contains ⟨.u32, "Expire", [.vGe 3]⟩ := by decide

example : interpEnc ⟨4, false, (Send.mk 10 7 [1] [2] [3] 2 9 [] [4, 5] [6, 7, 8]).val⟩ enc_send =
    encSend 4 (Send.mk 10 7 [1] [2] [3] 2 9 [] [4, 5] [6, 7, 8]) := by decide

/-! ## decoder layouts: an interpreter for the extracted read lists -/

/-- values read so far (most recent first), by Go field name -/
abbrev REnv := List (String × Val)

def REnv.get (e : REnv) (k : String) : Val :=
  match e.find? (fun p => p.1 == k) with
  | some p => p.2
  | none => .none

/-- guards of a decoder are evaluated on what has been read so far -/
def evalAtomD (v : Nat) (hsv : Bool) (env : REnv) : Atom → Bool
  | .vLt n => decide (v < n)
  | .vGe n => decide (v ≥ n)
  | .stream => isSet (env.get "Setting").nat settingStream
  | .topic => isSet (env.get "Setting").nat settingTopic
  | .hsv => hsv
  | .nonEmpty f => !(env.get f).byt.isEmpty
  | .lenPos => true

def evalGuardD (v : Nat) (hsv : Bool) (env : REnv) (g : List Atom) : Bool := g.all (evalAtomD v hsv env)

/-- one read -/
def readItem (v : Nat) (k : Kind) (b : Bytes) : Option (Val × Bytes) :=
  match k with
  | .u8 => (getU8 b).bind fun (x, r) => some (.n x, r)
  | .u32 => (getU32 b).bind fun (x, r) => some (.n x, r)
  | .u64 => (getU64 b).bind fun (x, r) => some (.n x, r)
  | .str => (getStr b).bind fun (x, r) => some (.b x, r)
  | .bytes => some (.b b, [])
  | .seq => (getSeq v b).bind fun (x, r) => some (.n x, r)

def defaultVal : Kind → Val
  | .str | .bytes => .b []
  | _ => .n 0

/-- meaning of a decode layout: guarded reads in order; a field whose guard is false keeps
    its zero value and consumes nothing -/
def interpDec (v : Nat) (hsv : Bool) (mk : REnv → Frame) : List Item → REnv → Bytes → Option Frame
  | [], env, _ => some (mk env)
  | it :: its, env, b =>
    if evalGuardD v hsv env it.guard then
      (readItem v it.kind b).bind fun (x, r) => interpDec v hsv mk its ((it.field, x) :: env) r
    else interpDec v hsv mk its ((it.field, defaultVal it.kind) :: env) b

theorem c22_field_order_dec_send (v : Nat) (h : Flags) (b : Bytes) :
    decSend v h b = interpDec v false (fun env =>
      .send h { setting := (env.get "Setting").nat, clientSeq := (env.get "ClientSeq").nat,
                clientMsgNo := (env.get "ClientMsgNo").byt, streamNo := (env.get "StreamNo").byt,
                channelID := (env.get "ChannelID").byt, channelType := (env.get "ChannelType").nat,
                expire := (env.get "Expire").nat, msgKey := (env.get "MsgKey").byt,
                topic := (env.get "Topic").byt, payload := (env.get "Payload").byt }) dec_send [] b := by
  rw [decSend_eq]
  unfold decSend'
  cases h1 : getU8 b with
  | none => simp [dec_send, interpDec, readItem, evalGuardD, h1]
  | some pr =>
    obtain ⟨setting, r⟩ := pr
    by_cases c4 : (v < 5 ∧ 2 ≤ v ∧ isSet setting settingStream = true) <;> by_cases c7 : v ≥ 3 <;>
      by_cases c9 : isSet setting settingTopic = true <;>
      simp [dec_send, interpDec, readItem, evalGuardD, evalAtomD, REnv.get, defaultVal, Val.nat, Val.byt, h1, c4, c7, c9,
        Option.bind_assoc, streamOn, topicOn, and_assoc]

theorem c22_field_order_dec_connect (h : Flags) (b : Bytes) :
    decConnect h b = interpDec 0 false (fun env => .connect h { version := (env.get "Version").nat, deviceFlag := (env.get "DeviceFlag").nat, deviceID := (env.get "DeviceID").byt, uid := (env.get "UID").byt, token := (env.get "Token").byt, clientTimestamp := (env.get "ClientTimestamp").nat, clientKey := (env.get "ClientKey").byt }) dec_connect [] b := by
  simp [decConnect, dec_connect, interpDec, readItem, evalGuardD, evalAtomD, REnv.get, defaultVal, Val.nat, Val.byt, bind, pure, Option.bind_assoc]

set_option maxHeartbeats 2000000 in
theorem c22_field_order_dec_recvack (v : Nat) (h : Flags) (b : Bytes) :
    decRecvack v h b = interpDec v false (fun env => .recvack h { messageID := (env.get "MessageID").nat, messageSeq := (env.get "MessageSeq").nat }) dec_recvack [] b := by
  simp [decRecvack, dec_recvack, interpDec, readItem, evalGuardD, evalAtomD, REnv.get, defaultVal, Val.nat, Val.byt, bind, pure, Option.bind_assoc]

theorem c22_field_order_dec_disconnect (h : Flags) (b : Bytes) :
    decDisconnect h b = interpDec 0 false (fun env => .disconnect h { reasonCode := (env.get "ReasonCode").nat, reason := (env.get "Reason").byt }) dec_disconnect [] b := by
  simp [decDisconnect, dec_disconnect, interpDec, readItem, evalGuardD, evalAtomD, REnv.get, defaultVal, Val.nat, Val.byt, bind, pure, Option.bind_assoc]

theorem c22_field_order_dec_sub (h : Flags) (b : Bytes) :
    decSub h b = interpDec 0 false (fun env => .sub h { setting := (env.get "Setting").nat, subNo := (env.get "SubNo").byt, channelID := (env.get "ChannelID").byt, channelType := (env.get "ChannelType").nat, action := (env.get "Action").nat, param := (env.get "Param").byt }) dec_sub [] b := by
  simp [decSub, dec_sub, interpDec, readItem, evalGuardD, evalAtomD, REnv.get, defaultVal, Val.nat, Val.byt, bind, pure, Option.bind_assoc]

theorem c22_field_order_dec_suback (h : Flags) (b : Bytes) :
    decSuback h b = interpDec 0 false (fun env => .suback h { subNo := (env.get "SubNo").byt, channelID := (env.get "ChannelID").byt, channelType := (env.get "ChannelType").nat, action := (env.get "Action").nat, reasonCode := (env.get "ReasonCode").nat }) dec_suback [] b := by
  simp [decSuback, dec_suback, interpDec, readItem, evalGuardD, evalAtomD, REnv.get, defaultVal, Val.nat, Val.byt, bind, pure, Option.bind_assoc]

theorem c22_field_order_dec_event (h : Flags) (b : Bytes) :
    decEvent h b = interpDec 0 false (fun env => .event h { id := (env.get "Id").byt, type := (env.get "Type").byt, timestamp := (env.get "Timestamp").nat, data := (env.get "Data").byt }) dec_event [] b := by
  simp [decEvent, dec_event, interpDec, readItem, evalGuardD, evalAtomD, REnv.get, defaultVal, Val.nat, Val.byt, bind, pure, Option.bind_assoc]

theorem c22_field_order_dec_connack (v : Nat) (h : Flags) (b : Bytes) :
    decConnack v h b = interpDec v h.hsv (fun env =>
      .connack h { serverVersion := (env.get "ServerVersion").nat, timeDiff := (env.get "TimeDiff").nat,
                   reasonCode := (env.get "ReasonCode").nat, serverKey := (env.get "ServerKey").byt,
                   salt := (env.get "Salt").byt, nodeId := (env.get "NodeId").nat }) dec_connack [] b := by
  rw [decConnack_eq]
  unfold decConnack'
  by_cases c1 : h.hsv = true <;> by_cases c6 : v ≥ 4 <;>
    simp [dec_connack, interpDec, readItem, evalGuardD, evalAtomD, REnv.get, defaultVal, Val.nat, Val.byt, c1, c6,
      Option.bind_assoc]

set_option maxHeartbeats 2000000 in
theorem c22_field_order_dec_recv (v : Nat) (h : Flags) (b : Bytes) :
    decRecv v h b = interpDec v false (fun env =>
      .recv h { setting := (env.get "Setting").nat, msgKey := (env.get "MsgKey").byt, fromUID := (env.get "FromUID").byt,
                channelID := (env.get "ChannelID").byt, channelType := (env.get "ChannelType").nat,
                expire := (env.get "Expire").nat, clientMsgNo := (env.get "ClientMsgNo").byt,
                streamFlag := (env.get "StreamFlag").nat, streamNo := (env.get "StreamNo").byt,
                streamId := (env.get "StreamId").nat, messageID := (env.get "MessageID").nat,
                messageSeq := (env.get "MessageSeq").nat, timestamp := (env.get "Timestamp").nat,
                topic := (env.get "Topic").byt, payload := (env.get "Payload").byt }) dec_recv [] b := by
  rw [decRecv_eq]
  unfold decRecv'
  cases h1 : getU8 b with
  | none => simp [dec_recv, interpDec, readItem, evalGuardD, h1]
  | some pr =>
    obtain ⟨setting, r⟩ := pr
    by_cases c4 : (v < 5 ∧ 2 ≤ v ∧ isSet setting settingStream = true) <;> by_cases c7 : v ≥ 3 <;>
      by_cases c9 : isSet setting settingTopic = true <;>
      simp [dec_recv, interpDec, readItem, evalGuardD, evalAtomD, REnv.get, defaultVal, Val.nat, Val.byt, h1, c4, c7, c9,
        Option.bind_assoc, streamOn, topicOn, and_assoc, streamBlock]


/-- non-vacuity: the extracted RECVACK read list, interpreted at version 6, decodes a body -/
example : interpDec 6 false (fun env => .recvack {} ⟨(env.get "MessageID").nat, (env.get "MessageSeq").nat⟩) dec_recvack [] [0,0,0,0,0,0,0,9, 0,0,0,0,0,0,0,7] =
    some (.recvack {} { messageID := 9, messageSeq := 7 }) := by decide

end WK.C22

import WK.Proofs.C16_Scan
/-
  C16 — Per-user conversation cursors are monotonic.

  All statements are about `WK.C16.step` / `batchStep` / `page` — the very
  definitions `Driver/C16.lean` executes against the real meta store.
-/
namespace WK.C16

/-! ## lifting a per-row fact to histories of the keyed table -/

/-- `C` holds (at the row's current value) for every applied sub-op that addresses `k` -/
def okOps (C : Option Row → Op → Prop) (k : Key) : St → List Op → Prop
  | _, [] => True
  | st, o :: r => (o.isCmd = false → o.key = k → C (get k st.rows) o) ∧ okOps C k (applyOp st o).1 r

def okCmd (C : Option Row → Op → Prop) (k : Key) (st : St) : Cmd → Prop
  | .one o => o.isCmd = false → o.key = k → C (get k st.rows) o
  | .batch os => okOps C k st os

def okHist (C : Option Row → Op → Prop) (k : Key) : St → List Cmd → Prop
  | _, [] => True
  | st, c :: r => okCmd C k st c ∧ okHist C k (exec st c) r

instance okOps.dec (C : Option Row → Op → Prop) [∀ p o, Decidable (C p o)] (k : Key) :
    ∀ (st : St) (os : List Op), Decidable (okOps C k st os)
  | _, [] => isTrue trivial
  | st, o :: r =>
    have := okOps.dec C k (applyOp st o).1 r
    (inferInstance : Decidable ((o.isCmd = false → o.key = k → C (get k st.rows) o) ∧ okOps C k (applyOp st o).1 r))

instance okCmd.dec (C : Option Row → Op → Prop) [∀ p o, Decidable (C p o)] (k : Key) (st : St) :
    ∀ c : Cmd, Decidable (okCmd C k st c)
  | .one o => (inferInstance : Decidable (o.isCmd = false → o.key = k → C (get k st.rows) o))
  | .batch os => okOps.dec C k st os

instance okHist.dec (C : Option Row → Op → Prop) [∀ p o, Decidable (C p o)] (k : Key) :
    ∀ (st : St) (h : List Cmd), Decidable (okHist C k st h)
  | _, [] => isTrue trivial
  | st, c :: r =>
    have := okHist.dec C k (exec st c) r
    (inferInstance : Decidable (okCmd C k st c ∧ okHist C k (exec st c) r))

section lift
variable {P : Option Row → Prop} {R : Option Row → Option Row → Prop} {C : Option Row → Op → Prop}
variable (hrefl : ∀ x, R x x) (htrans : ∀ x y z, R x y → R y z → R x z)
variable (hstep : ∀ prev op nw, P prev → C prev op → rowStep prev op = some nw → P nw ∧ R prev nw)
include hrefl hstep

theorem applyOp_lift (st : St) (o : Op) (k : Key) (hp : P (get k st.rows))
    (hc : o.isCmd = false → o.key = k → C (get k st.rows) o) :
    P (get k (applyOp st o).1.rows) ∧ R (get k st.rows) (get k (applyOp st o).1.rows) := by
  rw [applyOp_rows]
  unfold rowAfter
  by_cases hcond : o.isCmd = false ∧ o.key = k
  · rw [if_pos hcond]
    cases hr : rowStep (get k st.rows) o with
    | none => exact ⟨hp, hrefl _⟩
    | some nw => exact hstep _ _ _ hp (hc hcond.1 hcond.2) hr
  · rw [if_neg hcond]
    exact ⟨hp, hrefl _⟩

include htrans

theorem applyAll_lift (os : List Op) (st : St) (k : Key) (hp : P (get k st.rows)) (hc : okOps C k st os) :
    P (get k (applyAll st os).1.rows) ∧ R (get k st.rows) (get k (applyAll st os).1.rows) := by
  induction os generalizing st with
  | nil => exact ⟨hp, hrefl _⟩
  | cons o r ih =>
    obtain ⟨hc1, hc2⟩ := hc
    have h1 := applyOp_lift hrefl hstep st o k hp hc1
    unfold applyAll
    cases ha : applyOp st o with
    | mk st' e =>
      rw [ha] at h1 hc2
      cases e with
      | ok =>
        have h2 := ih st' h1.1 hc2
        exact ⟨h2.1, htrans _ _ _ h1.2 h2.2⟩
      | notfound => exact ⟨hp, hrefl _⟩
      | invalid => exact ⟨hp, hrefl _⟩

theorem exec_lift (st : St) (c : Cmd) (k : Key) (hp : P (get k st.rows)) (hc : okCmd C k st c) :
    P (get k (exec st c).rows) ∧ R (get k st.rows) (get k (exec st c).rows) := by
  cases c with
  | one o =>
    show P (get k (step st o).1.rows) ∧ R (get k st.rows) (get k (step st o).1.rows)
    unfold step
    split
    · exact applyOp_lift hrefl hstep st o k hp hc
    · exact ⟨hp, hrefl _⟩
  | batch os =>
    show P (get k (batchStep st os).1.rows) ∧ R (get k st.rows) (get k (batchStep st os).1.rows)
    unfold batchStep
    split
    · have h := applyAll_lift hrefl htrans hstep os st k hp hc
      cases ha : applyAll st os with
      | mk st' e =>
        rw [ha] at h
        cases e <;> first | exact h | exact ⟨hp, hrefl _⟩
    · exact ⟨hp, hrefl _⟩

theorem run_lift (h : List Cmd) (st : St) (k : Key) (hp : P (get k st.rows)) (hc : okHist C k st h) :
    P (get k (run st h).rows) ∧ R (get k st.rows) (get k (run st h).rows) := by
  induction h generalizing st with
  | nil => exact ⟨hp, hrefl _⟩
  | cons c r ih =>
    obtain ⟨hc1, hc2⟩ := hc
    have h1 := exec_lift hrefl htrans hstep st c k hp hc1
    have h2 := ih (exec st c) h1.1 hc2
    exact ⟨h2.1, htrans _ _ _ h1.2 h2.2⟩

end lift

/-- "the row survives and its cursors did not go down" -/
def keeps (x y : Option Row) : Prop := ∀ a, x = some a → ∃ b, y = some b ∧ a.read ≤ b.read ∧ a.del ≤ b.del

theorem keeps_refl (x : Option Row) : keeps x x := fun a h => ⟨a, h, Nat.le_refl _, Nat.le_refl _⟩

theorem keeps_trans (x y z : Option Row) (h1 : keeps x y) (h2 : keeps y z) : keeps x z := by
  intro a ha
  obtain ⟨b, hb, hab⟩ := h1 a ha
  obtain ⟨c, hc, hbc⟩ := h2 b hb
  exact ⟨c, hc, Nat.le_trans hab.1 hbc.1, Nat.le_trans hab.2 hbc.2⟩

/-! ## 1. monotone within an incarnation, for all operation sequences -/

/-- **c16_mono_incarnation.**  Take any state, any key `k` whose row exists, and any
    history of Shard operations and Batches (any order, replays, any arguments, other keys
    interleaved).  If no applied operation on `k` is an incarnation boundary at the moment it
    is applied (tombstone→live upsert with a strictly newer source version; ensure with a
    strictly newer generation over a non-zero one; delete), then the row still exists and its
    `ReadSeq` and `DeletedToSeq` are not below their initial values. -/
theorem c16_mono_incarnation (h : List Cmd) (st : St) (k : Key) (a : Row)
    (hg : get k st.rows = some a) (hok : okHist (fun prev o => o.boundary prev = false) k st h) :
    ∃ b, get k (run st h).rows = some b ∧ a.read ≤ b.read ∧ a.del ≤ b.del := by
  have := (run_lift (P := fun _ => True) (R := keeps) keeps_refl keeps_trans
    (by
      intro prev op nw _ hc hs
      refine ⟨trivial, ?_⟩
      intro x hx
      subst hx
      obtain ⟨b, hb⟩ := rowStep_some x op hc
      rw [hb] at hs
      cases hs
      exact ⟨b, rfl, rowStep_le x op b hb hc⟩)
    h st k trivial hok).2
  exact this a hg

/-- non-vacuity: a history with upserts (stale, equal, newer version), a tombstone, read
    advances, a hide, a batch and a replay satisfies the hypothesis, and the row moves. -/
example :
    let k : Key := ⟨3, 300, 400, 2⟩
    let st := run {} [.one (.up k ⟨4, 3, 3, 0, false, 0, 1, 10⟩)]
    let h : List Cmd := [.one (.rd k 10 11), .one (.hd k 7 12), .one (.up k ⟨1, 0, 0, 0, true, 13, 2, 13⟩),
      .batch [.rd k 50 14, .up k ⟨9, 8, 8, 0, false, 0, 2, 15⟩], .one (.up k ⟨1, 0, 0, 0, false, 0, 1, 16⟩),
      .one (.rd k 10 11)]
    okHist (fun prev o => o.boundary prev = false) k st h ∧
      get k (run st h).rows = some ⟨4, 10, 7, 0, false, 0, 2, 15⟩ := by
  decide

/-! CMD table: same lifting, specialised -/

def okOpsC (k : Key) : St → List Op → Prop
  | _, [] => True
  | st, o :: r => (o.isCmd = true → o.key = k → o.cboundary (get k st.cmd) = false) ∧ okOpsC k (applyOp st o).1 r

def okCmdC (k : Key) (st : St) : Cmd → Prop
  | .one o => o.isCmd = true → o.key = k → o.cboundary (get k st.cmd) = false
  | .batch os => okOpsC k st os

def okHistC (k : Key) : St → List Cmd → Prop
  | _, [] => True
  | st, c :: r => okCmdC k st c ∧ okHistC k (exec st c) r

instance okOpsC.dec (k : Key) : ∀ (st : St) (os : List Op), Decidable (okOpsC k st os)
  | _, [] => isTrue trivial
  | st, o :: r =>
    have := okOpsC.dec k (applyOp st o).1 r
    (inferInstance : Decidable ((o.isCmd = true → o.key = k → o.cboundary (get k st.cmd) = false) ∧ okOpsC k (applyOp st o).1 r))

instance okCmdC.dec (k : Key) (st : St) : ∀ c : Cmd, Decidable (okCmdC k st c)
  | .one o => (inferInstance : Decidable (o.isCmd = true → o.key = k → o.cboundary (get k st.cmd) = false))
  | .batch os => okOpsC.dec k st os

instance okHistC.dec (k : Key) : ∀ (st : St) (h : List Cmd), Decidable (okHistC k st h)
  | _, [] => isTrue trivial
  | st, c :: r =>
    have := okHistC.dec k (exec st c) r
    (inferInstance : Decidable (okCmdC k st c ∧ okHistC k (exec st c) r))

def keepsC (x y : Option CRow) : Prop := ∀ a, x = some a → ∃ b, y = some b ∧ a.ack ≤ b.ack

theorem applyOp_keepsC (st : St) (o : Op) (k : Key)
    (hc : o.isCmd = true → o.key = k → o.cboundary (get k st.cmd) = false) :
    keepsC (get k st.cmd) (get k (applyOp st o).1.cmd) := by
  rw [applyOp_cmd]
  unfold crowAfter
  by_cases hcond : o.isCmd = true ∧ o.key = k
  · rw [if_pos hcond]
    intro a ha
    rw [ha] at hc ⊢
    obtain ⟨b, hb⟩ := crowStep_some a o
    rw [hb]
    exact ⟨b, rfl, crowStep_le a o b hb (hc hcond.1 hcond.2)⟩
  · rw [if_neg hcond]
    exact fun a ha => ⟨a, ha, Nat.le_refl _⟩

theorem keepsC_trans {x y z : Option CRow} (h1 : keepsC x y) (h2 : keepsC y z) : keepsC x z := by
  intro a ha
  obtain ⟨b, hb, hab⟩ := h1 a ha
  obtain ⟨c, hc, hbc⟩ := h2 b hb
  exact ⟨c, hc, Nat.le_trans hab hbc⟩

theorem keepsC_refl (x : Option CRow) : keepsC x x := fun a ha => ⟨a, ha, Nat.le_refl _⟩

theorem applyAll_keepsC (os : List Op) (st : St) (k : Key) (hc : okOpsC k st os) :
    keepsC (get k st.cmd) (get k (applyAll st os).1.cmd) := by
  induction os generalizing st with
  | nil => exact keepsC_refl _
  | cons o r ih =>
    obtain ⟨hc1, hc2⟩ := hc
    have h1 := applyOp_keepsC st o k hc1
    unfold applyAll
    cases ha : applyOp st o with
    | mk st' e =>
      rw [ha] at h1 hc2
      cases e with
      | ok => exact keepsC_trans h1 (ih st' hc2)
      | notfound => exact keepsC_refl _
      | invalid => exact keepsC_refl _

theorem exec_keepsC (st : St) (c : Cmd) (k : Key) (hc : okCmdC k st c) :
    keepsC (get k st.cmd) (get k (exec st c).cmd) := by
  cases c with
  | one o =>
    show keepsC (get k st.cmd) (get k (step st o).1.cmd)
    unfold step
    split
    · exact applyOp_keepsC st o k hc
    · exact keepsC_refl _
  | batch os =>
    show keepsC (get k st.cmd) (get k (batchStep st os).1.cmd)
    unfold batchStep
    split
    · have h := applyAll_keepsC os st k hc
      cases ha : applyAll st os with
      | mk st' e =>
        rw [ha] at h
        cases e <;> first | exact h | exact keepsC_refl _
    · exact keepsC_refl _

/-- **c16_cmd_ack_mono_incarnation.**  The command-channel `AckSeq` of an existing row is
    non-decreasing along any history in which no applied upsert re-binds the row while it is
    tombstoned. -/
theorem c16_cmd_ack_mono_incarnation (h : List Cmd) (st : St) (k : Key) (a : CRow)
    (hg : get k st.cmd = some a) (hok : okHistC k st h) :
    ∃ b, get k (run st h).cmd = some b ∧ a.ack ≤ b.ack := by
  have : ∀ (h : List Cmd) (st : St), okHistC k st h → keepsC (get k st.cmd) (get k (run st h).cmd) := by
    intro h
    induction h with
    | nil => intro st _; exact keepsC_refl _
    | cons c r ih =>
      intro st hok
      obtain ⟨hc1, hc2⟩ := hok
      exact keepsC_trans (exec_keepsC st c k hc1) (by simpa [run] using ih (exec st c) hc2)
  exact this h st hok a hg

example :
    let k : Key := ⟨3, 300, 400, 2⟩
    let st := run {} [.one (.cup k ⟨5, 0, false, 0, 10⟩)]
    let h : List Cmd := [.one (.cakS k 9 11), .one (.ctbS k 12), .one (.cakS k 20 13),
      .batch [.cup k ⟨1, 30, true, 0, 14⟩, .cakB k 3 15]]
    okHistC k st h ∧ get k (run st h).cmd = some ⟨5, 9, true, 12, 12⟩ := by
  decide

/-! ## 2. stale sources are refused -/

/-- **c16_stale_source_refused.**  An upsert whose source version is older than the stored
    one, and an ensure whose generation is not newer, leave the whole state (row, index, other
    rows) unchanged; an upsert with the stored version changes nothing or only clears the
    tombstone (cursors, join sequence, activation untouched). -/
theorem c16_stale_source_refused (st : St) (k : Key) (a nx : Row) (hg : get k st.rows = some a) :
    (nx.sv < a.sv → (step st (.up k nx)).1 = st) ∧
    (nx.sv ≤ a.sv → (step st (.en k nx)).1 = st) ∧
    (nx.sv = a.sv → get k (step st (.up k nx)).1.rows = some a ∨
        (a.tomb = true ∧ nx.tomb = false ∧ get k (step st (.up k nx)).1.rows = some (untomb a nx))) := by
  refine ⟨?_, ?_, ?_⟩
  · intro h
    unfold step
    split
    · simp [applyOp, Op.isCmd, Op.key, rowStep, hg, resolveUp_stale a nx h]
    · rfl
  · intro h
    unfold step
    split
    · simp [applyOp, Op.isCmd, Op.key, rowStep, hg, resolveEn_stale a nx h]
    · rfl
  · intro h
    unfold step
    split
    · rw [applyOp_rows]
      simp only [rowAfter, Op.isCmd, Op.key, and_self, if_true, rowStep, hg]
      rcases resolveUp_equal a nx h with h1 | ⟨h1, h2, h3⟩
      · left; rw [h1]
      · right; exact ⟨h1, h2, by rw [h3]⟩
    · left; exact hg

example : (step (run {} [.one (.up ⟨3, 300, 400, 2⟩ ⟨4, 9, 8, 5, false, 0, 7, 10⟩)])
    (.up ⟨3, 300, 400, 2⟩ ⟨1, 0, 0, 0, true, 99, 6, 99⟩)).1.rows = [(⟨3, 300, 400, 2⟩, ⟨4, 9, 8, 5, false, 0, 7, 10⟩)] := by
  decide

/-! ## 3. the activation index is consistent with the rows -/

theorem run_inv (h : List Cmd) (st : St) (hi : Inv st) : Inv (run st h) := by
  induction h generalizing st with
  | nil => exact hi
  | cons c r ih =>
    apply ih
    cases c with
    | one o => exact step_inv st o hi
    | batch os => exact batchStep_inv st os hi

/-- **c16_index_consistent.**  In every state reachable from the empty store by any history:
    the activation index is strictly ordered by its key; every existing row has its index
    entry; every index entry belongs to an existing row whose current `ActivatedAt` it
    carries (so a row has exactly one entry: the old entry is removed in the same step that
    writes the row); the list has no duplicates. -/
theorem c16_index_consistent (h : List Cmd) :
    let st := run {} h
    st.idx.Pairwise idxLt ∧ st.idx.Nodup ∧
    (∀ k r, get k st.rows = some r → entry k r ∈ st.idx) ∧
    (∀ e, e ∈ st.idx → ∃ r, get e.key st.rows = some r ∧ entry e.key r = e) := by
  have hi := run_inv h {} inv_init
  refine ⟨hi.sorted, ?_, ?_, ?_⟩
  · exact hi.sorted.imp (fun {a b} hab heq => by subst heq; exact idxLt_irrefl a hab)
  · intro k r hg
    apply (hi.mem _).mpr
    apply (passes_iff _ _).mpr
    rw [entry_key]
    exact ⟨r, hg, rfl⟩
  · intro e he
    exact (passes_iff _ _).mp ((hi.mem e).mp he)

example : (run {} [.one (.up ⟨3, 300, 400, 2⟩ ⟨4, 9, 8, 5, false, 0, 7, 10⟩),
    .one (.acS ⟨3, 300, 400, 2⟩ 20 11), .one (.up ⟨3, 300, 500, 2⟩ ⟨1, 0, 0, 0, false, 0, 1, 1⟩),
    .one (.hd ⟨3, 300, 400, 2⟩ 9 12)]).idx = [⟨3, 300, 0, 400, 2⟩, ⟨3, 300, 0, 500, 2⟩] := by
  decide

/-! ## 4. a directory pass lists each membership exactly once, in order -/

/-- **c16_directory_pass.**  In any reachable state, for any list of positive page sizes, a
    pass that runs to completion (`done`) returns exactly the user's slice of the activation
    index: strictly ordered by (activatedAt desc, channel id, channel type), without
    duplicates, containing the entry of every row of that user and nothing else.  (Live rows
    = the sub-list the caller keeps after dropping tombstones, in the same order.) -/
theorem c16_directory_pass (h : List Cmd) (slot uid : Nat) (limits : List Nat) (out : List IdxE)
    (hpos : ∀ l, l ∈ limits → 0 < l)
    (hrun : runPass (run {} h) slot uid Cur.zero limits = (out, true)) :
    out = base (run {} h) slot uid ∧ out.Pairwise idxLt ∧ out.Nodup ∧
    (∀ k r, get k (run {} h).rows = some r → k.slot = slot → k.uid = uid → entry k r ∈ out) ∧
    (∀ e, e ∈ out → e.slot = slot ∧ e.uid = uid ∧ ∃ r, get e.key (run {} h).rows = some r ∧ entry e.key r = e) := by
  have hi := run_inv h {} inv_init
  have h1 := runPass_from (run {} h) slot uid hi limits Cur.zero out hpos hrun
  have h2 : out = base (run {} h) slot uid := by
    rw [h1]
    apply List.filter_eq_self.mpr
    intro e _
    simp [afterCur]
  have hs := base_sorted (run {} h) slot uid hi
  have hc := c16_index_consistent h
  simp only at hc
  refine ⟨h2, h2 ▸ hs, ?_, ?_, ?_⟩
  · rw [h2]
    exact hs.imp (fun {a b} hab heq => by subst heq; exact idxLt_irrefl a hab)
  · intro k r hg hs' hu'
    rw [h2]
    apply List.mem_filter.mpr
    refine ⟨hc.2.2.1 k r hg, ?_⟩
    simp [owner, entry, hs', hu']
  · intro e he
    rw [h2] at he
    have ho := base_owner _ slot uid e he
    exact ⟨ho.1, ho.2, hc.2.2.2 e (List.mem_filter.mp he).1⟩

/-- the pass terminates: with more pages than rows it always reaches `done` -/
theorem runPass_done (st : St) (slot uid : Nat) (hi : Inv st) (limits : List Nat) :
    ∀ (c : Cur), (∀ l, l ∈ limits → 0 < l) →
      ((base st slot uid).filter (fun e => decide (afterCur c e))).length < limits.length →
      (runPass st slot uid c limits).2 = true := by
  induction limits with
  | nil => intro c _ h; simp at h
  | cons l ls ih =>
    intro c hpos hlen
    have hl : 0 < l := hpos l (by simp)
    unfold runPass page
    rw [cands_eq st slot uid c hi]
    by_cases hlt : l < ((base st slot uid).filter (fun e => decide (afterCur c e))).length
    · simp only [hlt, if_true]
      have hnext := next_page (base st slot uid) slot uid c l (base_sorted st slot uid hi)
        (base_owner st slot uid) (base_chpos st slot uid hi) hl hlt
      have := ih (lastCur c (((base st slot uid).filter (fun e => decide (afterCur c e))).take l))
        (fun x hx => hpos x (by simp [hx])) (by
          rw [hnext, List.length_drop]
          simp only [List.length_cons] at hlen
          omega)
      cases hr : runPass st slot uid
          (lastCur c (((base st slot uid).filter (fun e => decide (afterCur c e))).take l)) ls with
      | mk rest d =>
        rw [hr] at this
        simpa using this
    · simp [hlt]

example :
    let h : List Cmd := [.one (.up ⟨3, 300, 400, 2⟩ ⟨4, 9, 8, 5, false, 0, 7, 10⟩),
      .one (.up ⟨3, 300, 500, 2⟩ ⟨1, 0, 0, 5, false, 0, 1, 1⟩), .one (.up ⟨3, 300, 290, 1⟩ ⟨1, 0, 0, 9, true, 3, 1, 1⟩),
      .one (.up ⟨3, 301, 400, 2⟩ ⟨1, 0, 0, 7, false, 0, 1, 1⟩)]
    runPass (run {} h) 3 300 Cur.zero [1, 1, 2] =
      ([⟨3, 300, 9, 290, 1⟩, ⟨3, 300, 5, 400, 2⟩, ⟨3, 300, 5, 500, 2⟩], true) := by
  decide

/-! ## 5. the full statement is false of the code: the decided counterexample -/

/-- **c16_full_counterexample** (DESIGN §8.3, replayed on the real store by corpus/C16):
    live (v1) → read 10 → hide 7 → tombstone (v2) → live (v3, ReadSeq = 3): the read cursor
    goes 10 → 3 and the delete-to boundary 7 → 0; CMD: ack 9 → unbind → re-bind: ack 9 → 2;
    ensure with a newer generation over a non-zero one: read 10 → 3. -/
theorem c16_full_counterexample :
    (let k : Key := ⟨3, 300, 400, 2⟩
     let s1 := run {} [.one (.up k ⟨1, 0, 0, 0, false, 0, 1, 1⟩), .one (.rd k 10 2), .one (.hd k 7 3),
                       .one (.up k ⟨1, 0, 0, 0, true, 4, 2, 4⟩)]
     let s2 := exec s1 (.one (.up k ⟨3, 3, 0, 0, false, 0, 3, 5⟩))
     (get k s1.rows).map (fun r => (r.read, r.del)) = some (10, 7) ∧
     (get k s2.rows).map (fun r => (r.read, r.del)) = some (3, 0)) ∧
    (let k : Key := ⟨3, 300, 400, 2⟩
     let s1 := run {} [.one (.cup k ⟨1, 0, false, 0, 1⟩), .one (.cakS k 9 2), .one (.ctbS k 3)]
     let s2 := exec s1 (.one (.cup k ⟨5, 2, false, 0, 4⟩))
     (get k s1.cmd).map (·.ack) = some 9 ∧ (get k s2.cmd).map (·.ack) = some 2) ∧
    (let k : Key := ⟨3, 300, 400, 1⟩
     let s1 := run {} [.one (.en k ⟨1, 0, 0, 0, false, 0, 1, 1⟩), .one (.rd k 10 2)]
     let s2 := exec s1 (.one (.en k ⟨4, 3, 3, 0, false, 0, 2, 3⟩))
     (get k s1.rows).map (·.read) = some 10 ∧ (get k s2.rows).map (·.read) = some 3) := by
  decide

/-! ## 6. at command level the full statement holds -/

theorem below_mono {t t' : Nat} {r : Option Row} (h : t ≤ t') (hb : below t r) : below t' r := by
  intro a ha
  have := hb a ha
  omega

/-- per-row step under the callers' row shape: the invariant `cursors ≤ tail` is kept and
    nothing regresses — including at a rejoin and at a newer ensure generation -/
theorem rowStep_shaped (t : Nat) (prev : Option Row) (op : Op) (nw : Option Row)
    (hb : below t prev) (hsh : shaped t op) (hs : rowStep prev op = some nw) :
    below t nw ∧ keeps prev nw := by
  cases prev with
  | none =>
    refine ⟨?_, fun a ha => by cases ha⟩
    cases op <;> simp [rowStep] at hs <;> simp [shaped] at hsh
    case up k nx => subst hs; intro a ha; cases ha; simp [resolveUp]; omega
    case en k nx => subst hs; intro a ha; cases ha; simp [resolveEn]; omega
    all_goals (subst hs; intro a ha; cases ha)
  | some a =>
    have ha := hb a rfl
    cases op <;> simp [rowStep] at hs <;> simp [shaped] at hsh
    case up k nx =>
      subst hs
      have key : (resolveUp (some a) nx).read ≤ t ∧ (resolveUp (some a) nx).del ≤ t ∧
          a.read ≤ (resolveUp (some a) nx).read ∧ a.del ≤ (resolveUp (some a) nx).del := by
        unfold resolveUp
        simp only
        split
        · omega
        · split
          · split
            · omega
            · split <;> simp <;> omega
          · split
            · simp; omega
            · split
              · next hnt _ =>
                have : nx.tomb = false := by simpa using hnt
                have := hsh.2.2 this
                omega
              · simp; omega
      exact ⟨fun b hb' => by cases hb'; omega, fun x hx => by cases hx; exact ⟨_, rfl, key.2.2.1, key.2.2.2⟩⟩
    case en k nx =>
      subst hs
      have key : (resolveEn (some a) nx).read ≤ t ∧ (resolveEn (some a) nx).del ≤ t ∧
          a.read ≤ (resolveEn (some a) nx).read ∧ a.del ≤ (resolveEn (some a) nx).del := by
        unfold resolveEn
        simp only
        split
        · omega
        · split
          · simp only
            refine ⟨?_, ?_, ?_, ?_⟩ <;> split <;> omega
          · simp; omega
      exact ⟨fun b hb' => by cases hb'; omega, fun x hx => by cases hx; exact ⟨_, rfl, key.2.2.1, key.2.2.2⟩⟩
    case rd k v upd =>
      subst hs
      have key : ((if a.tomb = true then a else mutRead v upd a)).read ≤ t ∧
          ((if a.tomb = true then a else mutRead v upd a)).del ≤ t ∧
          a.le (if a.tomb = true then a else mutRead v upd a) := by
        split
        · exact ⟨ha.1, ha.2, Row.le_refl _⟩
        · refine ⟨?_, ?_, mutRead_le _ _ _⟩ <;> (unfold mutRead; split <;> (try simp) <;> omega)
      exact ⟨fun b hb' => by cases hb'; exact ⟨key.1, key.2.1⟩,
             fun x hx => by cases hx; exact ⟨_, rfl, key.2.2.1, key.2.2.2⟩⟩
    case hd k v upd =>
      subst hs
      have key : ((if a.tomb = true then a else mutHide v upd a)).read ≤ t ∧
          ((if a.tomb = true then a else mutHide v upd a)).del ≤ t ∧
          a.le (if a.tomb = true then a else mutHide v upd a) := by
        split
        · exact ⟨ha.1, ha.2, Row.le_refl _⟩
        · refine ⟨?_, ?_, mutHide_le _ _ _⟩
          · unfold mutHide
            by_cases h1 : v > a.del <;> by_cases h2 : a.act = 0 <;> simp [h1, h2] <;> (try split) <;> (try simp) <;> omega
          · unfold mutHide
            by_cases h1 : v > a.del <;> by_cases h2 : a.act = 0 <;> simp [h1, h2] <;> (try split) <;> (try simp) <;> omega
      exact ⟨fun b hb' => by cases hb'; exact ⟨key.1, key.2.1⟩,
             fun x hx => by cases hx; exact ⟨_, rfl, key.2.2.1, key.2.2.2⟩⟩
    case acS k x upd =>
      subst hs
      have key : ((if a.tomb = true then a else mutAct x upd a)).read = a.read ∧
          ((if a.tomb = true then a else mutAct x upd a)).del = a.del := by
        split
        · exact ⟨rfl, rfl⟩
        · unfold mutAct; split <;> simp
      exact ⟨fun b hb' => by cases hb'; omega, fun y hy => by cases hy; exact ⟨_, rfl, by omega, by omega⟩⟩
    case acB k x upd =>
      subst hs
      have key : ((if a.tomb = true then a else mutAct x upd a)).read = a.read ∧
          ((if a.tomb = true then a else mutAct x upd a)).del = a.del := by
        split
        · exact ⟨rfl, rfl⟩
        · unfold mutAct; split <;> simp
      exact ⟨fun b hb' => by cases hb'; omega, fun y hy => by cases hy; exact ⟨_, rfl, by omega, by omega⟩⟩
    all_goals (subst hs; exact ⟨hb, keeps_refl _⟩)

/-- a history whose commands carry the committed tail they were built against -/
def shapedHist (k : Key) : St → Nat → List (Nat × Cmd) → Prop
  | _, _, [] => True
  | st, t0, (t, c) :: r => t0 ≤ t ∧ okCmd (fun _ o => shaped t o) k st c ∧ shapedHist k (exec st c) t r

instance shaped.dec (t : Nat) : ∀ o : Op, Decidable (shaped t o)
  | .up _ nx => (inferInstance : Decidable (nx.read ≤ t ∧ nx.del ≤ t ∧ (nx.tomb = false → nx.read = t ∧ nx.del = t)))
  | .en _ nx => (inferInstance : Decidable (nx.read = t ∧ nx.del = t))
  | .rd _ v _ => (inferInstance : Decidable (v ≤ t))
  | .hd _ v _ => (inferInstance : Decidable (v ≤ t))
  | .dl _ => isFalse (fun h => h)
  | .acS .. | .acB .. | .cup .. | .cakS .. | .cakB .. | .ctbS .. | .ctbB .. => isTrue trivial

instance shapedHist.dec (k : Key) : ∀ (st : St) (t0 : Nat) (h : List (Nat × Cmd)), Decidable (shapedHist k st t0 h)
  | _, _, [] => isTrue trivial
  | st, t0, (t, c) :: r =>
    have := shapedHist.dec k (exec st c) t r
    (inferInstance : Decidable (t0 ≤ t ∧ okCmd (fun _ o => shaped t o) k st c ∧ shapedHist k (exec st c) t r))

/-- **c16_command_level.**  For histories whose rows are built the way the real callers build
    them — every command addressed to `k` is `shaped` for the channel's committed tail at that
    time, the tail never decreases, and the stored cursors start at or below the tail — the
    full statement holds: the row never disappears and `ReadSeq`/`DeletedToSeq` never move
    backwards, across tombstones, rejoins with newer source versions, newer ensure generations,
    batches and replays (a replayed old command is still `shaped` for the later, larger tail
    only if its cursors are ≤ that tail and, for a live join row, equal to it; an old join row
    is therefore a replay only when its source version makes the reducer refuse it — see
    `c16_stale_source_refused`). -/
theorem c16_command_level (h : List (Nat × Cmd)) (st : St) (k : Key) (t0 : Nat)
    (hb : below t0 (get k st.rows)) (hsh : shapedHist k st t0 h) :
    keeps (get k st.rows) (get k (run st (h.map (·.2))).rows) := by
  induction h generalizing st t0 with
  | nil => exact keeps_refl _
  | cons tc r ih =>
    obtain ⟨t, c⟩ := tc
    obtain ⟨h1, h2, h3⟩ := hsh
    have hb' : below t (get k st.rows) := below_mono h1 hb
    have hx := exec_lift (P := below t) (R := keeps) (C := fun _ o => shaped t o) keeps_refl keeps_trans
      (fun prev op nw hp hc hs => rowStep_shaped t prev op nw hp hc hs) st c k hb' h2
    have := ih (exec st c) t hx.1 h3
    exact keeps_trans _ _ _ hx.2 (by simpa [run] using this)

/-- non-vacuity: join at tail 5, read/hide, leave, rejoin at tail 9 with a newer source
    version — the §8.3 shape with constructor-built rows — is a shaped history and the
    cursors end above where they were. -/
example :
    let k : Key := ⟨3, 300, 400, 2⟩
    let h : List (Nat × Cmd) := [(5, .batch [.up k ⟨6, 5, 5, 0, false, 0, 1, 1⟩]), (7, .one (.rd k 7 2)),
      (7, .one (.hd k 7 3)), (8, .batch [.up k ⟨1, 0, 0, 0, true, 4, 2, 4⟩]),
      (9, .batch [.up k ⟨10, 9, 9, 0, false, 0, 3, 5⟩])]
    shapedHist k {} 0 h ∧ get k (run {} (h.map (·.2))).rows = some ⟨10, 9, 9, 0, false, 0, 3, 5⟩ := by
  decide

/-! ## 7. the judge's classes are exactly what the model can produce -/

/-- **c16_judge_classes.**  For every operation applied to any row value, the judge never
    reports a plain regression nor a stale-source application on the model's own transition:
    every regression of the model is inside one of the two narrow known-finding classes. -/
theorem c16_judge_classes (prev : Option Row) (cprev : Option CRow) (op : Op) :
    (∀ nw, rowStep prev op = some nw → judgeRow prev nw op ≠ .regressed ∧ judgeRow prev nw op ≠ .stale) ∧
    (∀ nw, crowStep cprev op = some nw → judgeCRow cprev nw op ≠ .regressed) :=
  ⟨fun nw h => judgeRow_model prev op nw h, fun nw h => judgeCRow_model cprev op nw h⟩

end WK.C16

import WK.Proofs.C24_Lemmas
import WK.Gen.C24
/-
  C24 — the T tie.  `WK.Gen.C24` is regenerated from pkg/protocol/jsonrpc/{types,codec}.go and pkg/protocol/frame on
  every run; these theorems pin the hand model (hdrOf, settingToProto, settingOf, latestVersion, the field tables
  behind toFrame / fromFrame / normIn / normOut, ridIn / ridOut, reDecode's member-presence rules) to those facts.
-/
namespace WK.C24
open WK

/-! ## the T tie: facts regenerated from types.go / codec.go / the frame package (WK.Gen.C24) -/

/-- the mapping table the model's `toFrame` / `fromFrame` implement, row by row:
    (conversion, struct built, field, Go expression that feeds it) -/
def expectedConv : List (String × String × String × String) := [
  ("ConnectParams.ToProto", "frame.ConnectPacket", "Framer", "headerToFramer(p.Header)"),
  ("ConnectParams.ToProto", "frame.ConnectPacket", "Version", "uint8(p.Version)"),
  ("ConnectParams.ToProto", "frame.ConnectPacket", "ClientKey", "p.ClientKey"),
  ("ConnectParams.ToProto", "frame.ConnectPacket", "DeviceID", "p.DeviceID"),
  ("ConnectParams.ToProto", "frame.ConnectPacket", "DeviceFlag", "frame.DeviceFlag(p.DeviceFlag)"),
  ("ConnectParams.ToProto", "frame.ConnectPacket", "ClientTimestamp", "p.ClientTimestamp"),
  ("ConnectParams.ToProto", "frame.ConnectPacket", "UID", "p.UID"),
  ("ConnectParams.ToProto", "frame.ConnectPacket", "Token", "p.Token"),
  ("SendParams.ToProto", "frame.SendPacket", "Framer", "headerToFramer(p.Header)"),
  ("SendParams.ToProto", "frame.SendPacket", "Setting", "p.Setting.ToProto()"),
  ("SendParams.ToProto", "frame.SendPacket", "ClientMsgNo", "p.ClientMsgNo"),
  ("SendParams.ToProto", "frame.SendPacket", "ChannelID", "p.ChannelID"),
  ("SendParams.ToProto", "frame.SendPacket", "ChannelType", "uint8(p.ChannelType)"),
  ("SendParams.ToProto", "frame.SendPacket", "Payload", "p.Payload"),
  ("SendParams.ToProto", "frame.SendPacket", "MsgKey", "p.MsgKey"),
  ("SendParams.ToProto", "frame.SendPacket", "Expire", "p.Expire"),
  ("SendParams.ToProto", "frame.SendPacket", "StreamNo", "p.StreamNo"),
  ("SendParams.ToProto", "frame.SendPacket", "Topic", "p.Topic"),
  ("SendRequest.ToProto", "frame.SendPacket", "Framer", "headerToFramer(r.Params.Header)"),
  ("SendRequest.ToProto", "frame.SendPacket", "Setting", "r.Params.Setting.ToProto()"),
  ("SendRequest.ToProto", "frame.SendPacket", "ClientMsgNo", "r.Params.ClientMsgNo"),
  ("SendRequest.ToProto", "frame.SendPacket", "ChannelID", "r.Params.ChannelID"),
  ("SendRequest.ToProto", "frame.SendPacket", "ChannelType", "uint8(r.Params.ChannelType)"),
  ("SendRequest.ToProto", "frame.SendPacket", "Payload", "r.Params.Payload"),
  ("SendRequest.ToProto", "frame.SendPacket", "MsgKey", "r.Params.MsgKey"),
  ("SendRequest.ToProto", "frame.SendPacket", "Expire", "r.Params.Expire"),
  ("SendRequest.ToProto", "frame.SendPacket", "StreamNo", "r.Params.StreamNo"),
  ("SendRequest.ToProto", "frame.SendPacket", "Topic", "r.Params.Topic"),
  ("RecvAckParams.ToProto", "frame.RecvackPacket", "Framer", "headerToFramer(p.Header)"),
  ("RecvAckParams.ToProto", "frame.RecvackPacket", "MessageID", "strconv.ParseInt(p.MessageID,10,64)"),
  ("RecvAckParams.ToProto", "frame.RecvackPacket", "MessageSeq", "p.MessageSeq"),
  ("DisconnectParams.ToProto", "frame.DisconnectPacket", "ReasonCode", "frame.ReasonCode(p.ReasonCode)"),
  ("DisconnectParams.ToProto", "frame.DisconnectPacket", "Reason", "p.Reason"),
  ("FromProtoConnectAck", "ConnectResult", "Header", "fromProtoHeader(ack.Framer)"),
  ("FromProtoConnectAck", "ConnectResult", "ServerVersion", "int(ack.ServerVersion)"),
  ("FromProtoConnectAck", "ConnectResult", "ServerKey", "ack.ServerKey"),
  ("FromProtoConnectAck", "ConnectResult", "Salt", "ack.Salt"),
  ("FromProtoConnectAck", "ConnectResult", "TimeDiff", "ack.TimeDiff"),
  ("FromProtoConnectAck", "ConnectResult", "ReasonCode", "ReasonCodeEnum(ack.ReasonCode)"),
  ("FromProtoConnectAck", "ConnectResult", "NodeID", "ack.NodeId"),
  ("FromProtoSendAck", "SendResult", "Header", "fromProtoHeader(ack.Framer)"),
  ("FromProtoSendAck", "SendResult", "MessageID", "strconv.FormatInt(ack.MessageID,10)"),
  ("FromProtoSendAck", "SendResult", "MessageSeq", "ack.MessageSeq"),
  ("FromProtoSendAck", "SendResult", "ReasonCode", "ReasonCodeEnum(ack.ReasonCode)"),
  ("FromProtoRecvPacket", "RecvNotificationParams", "Header", "fromProtoHeader(pkt.Framer)"),
  ("FromProtoRecvPacket", "RecvNotificationParams", "Setting", "fromProtoSetting(pkt.Setting)"),
  ("FromProtoRecvPacket", "RecvNotificationParams", "MsgKey", "pkt.MsgKey"),
  ("FromProtoRecvPacket", "RecvNotificationParams", "Expire", "pkt.Expire"),
  ("FromProtoRecvPacket", "RecvNotificationParams", "MessageID", "strconv.FormatInt(pkt.MessageID,10)"),
  ("FromProtoRecvPacket", "RecvNotificationParams", "MessageSeq", "pkt.MessageSeq"),
  ("FromProtoRecvPacket", "RecvNotificationParams", "ClientMsgNo", "pkt.ClientMsgNo"),
  ("FromProtoRecvPacket", "RecvNotificationParams", "StreamNo", "pkt.StreamNo"),
  ("FromProtoRecvPacket", "RecvNotificationParams", "StreamID", "strconv.FormatUint(pkt.StreamId,10)"),
  ("FromProtoRecvPacket", "RecvNotificationParams", "StreamFlag", "StreamFlagEnum(pkt.StreamFlag)"),
  ("FromProtoRecvPacket", "RecvNotificationParams", "Timestamp", "pkt.Timestamp"),
  ("FromProtoRecvPacket", "RecvNotificationParams", "ChannelID", "pkt.ChannelID"),
  ("FromProtoRecvPacket", "RecvNotificationParams", "ChannelType", "int(pkt.ChannelType)"),
  ("FromProtoRecvPacket", "RecvNotificationParams", "Topic", "pkt.Topic"),
  ("FromProtoRecvPacket", "RecvNotificationParams", "FromUID", "pkt.FromUID"),
  ("FromProtoRecvPacket", "RecvNotificationParams", "Payload", "pkt.Payload"),
  ("FromProtoDisconnectPacket", "DisconnectNotificationParams", "ReasonCode", "ReasonCodeEnum(pkt.ReasonCode)"),
  ("FromProtoDisconnectPacket", "DisconnectNotificationParams", "Reason", "pkt.Reason"),
  ("FromProtoEventNotification", "BaseNotification", "Jsonrpc", "\"2.0\""),
  ("FromProtoEventNotification", "BaseNotification", "Method", "MethodEvent"),
  ("FromProtoEventNotification", "EventNotificationParams", "Header", "fromProtoHeader(eventPacket.Framer)"),
  ("FromProtoEventNotification", "EventNotificationParams", "ID", "eventPacket.Id"),
  ("FromProtoEventNotification", "EventNotificationParams", "Type", "eventPacket.Type"),
  ("FromProtoEventNotification", "EventNotificationParams", "Timestamp", "eventPacket.Timestamp"),
  ("FromProtoEventNotification", "EventNotificationParams", "Data", "string(eventPacket.Data)"),
  ("fromProtoHeader", "Header", "NoPersist", "protoHeader.NoPersist"),
  ("fromProtoHeader", "Header", "RedDot", "protoHeader.RedDot"),
  ("fromProtoHeader", "Header", "SyncOnce", "protoHeader.SyncOnce"),
  ("fromProtoHeader", "Header", "Dup", "protoHeader.DUP"),
  ("fromProtoHeader", "Header", "End", "protoHeader.End"),
  ("headerToFramer", "frame.Framer", "NoPersist", "header.NoPersist"),
  ("headerToFramer", "frame.Framer", "RedDot", "header.RedDot"),
  ("headerToFramer", "frame.Framer", "SyncOnce", "header.SyncOnce"),
  ("headerToFramer", "frame.Framer", "DUP", "header.Dup"),
  ("headerToFramer", "frame.Framer", "End", "header.End")]

def flagByName (f : Flags) : String → Option Bool
  | "NoPersist" => some f.noPersist
  | "RedDot" => some f.redDot
  | "SyncOnce" => some f.syncOnce
  | "DUP" => some f.dup
  | "End" => some f.end_
  | _ => none

def settingFlagByName (s : SettingFlags) : String → Bool
  | "Receipt" => s.receipt
  | "Signal" => s.signal
  | "Stream" => s.stream
  | "Topic" => s.topic
  | _ => false

def constVal (c : String) : Nat := (Gen.C24.settingConsts.lookup c).getD 0

def testBit (n : Nat) (flag : String) : Bool :=
  match Gen.C24.settingFromProto.lookup flag with
  | some c => (n &&& constVal c) != 0
  | none => false

/-- Go integer types: (bits, signed); `int` is 64 bits on the platforms the server targets -/
def goInt : String → Option (Nat × Bool)
  | "uint8" => some (8, false) | "uint16" => some (16, false) | "uint32" => some (32, false) | "uint64" => some (64, false)
  | "uint" => some (64, false) | "int8" => some (8, true) | "int16" => some (16, true) | "int32" => some (32, true)
  | "int64" => some (64, true) | "int" => some (64, true) | _ => none

/-- every value of a frame field of type `f` is representable in a JSON struct field of type `j` -/
def fits (f j : String) : Bool :=
  match goInt f, goInt j with
  | some (fb, fs), some (jb, js) => if fs == js then fb ≤ jb else (!fs && js && fb < jb)
  | _, _ => false

/-- **T: the field tables are the ones the model implements** (a dropped, re-sourced or re-converted field changes a row) -/
theorem c24_conv_table : Gen.C24.conv = expectedConv := by decide

/-- **T: the header nil rule** — `fromProtoHeader` omits the header exactly when every flag the model carries is false;
    stated about the model's `hdrOf` and the flags the Go condition really tests. -/
theorem c24_hdr_nil_rule (f : Flags) :
    hdrOf f = none ↔ Gen.C24.hdrNilTests.all (fun n => flagByName f n == some false) = true := by
  rcases f with ⟨a, b, c, d, e⟩
  cases a <;> cases b <;> cases c <;> cases d <;> cases e <;> decide

example : hdrOf { end_ := true } ≠ none := by decide

/-- **T: the Setting bits** — the model's `settingToProto` is the or of the constants the Go code ors in, with the
    values the frame package gives them -/
theorem c24_setting_bits (s : SettingFlags) :
    settingToProto s = (Gen.C24.settingToProto.map (fun fc => if settingFlagByName s fc.1 then constVal fc.2 else 0)).sum := by
  rcases s with ⟨a, b, c, d⟩
  cases a <;> cases b <;> cases c <;> cases d <;> decide

example : settingToProto { topic := true } = 8 := by decide

/-- … and `settingOf` tests exactly the constants `fromProtoSetting` tests -/
theorem c24_setting_from : ∀ n : Fin 256, settingOf n.val =
    if n.val = 0 then none else some { receipt := testBit n.val "Receipt", signal := testBit n.val "Signal",
                                       stream := testBit n.val "Stream", topic := testBit n.val "Topic" } := by
  decide +kernel

example : settingOf 16 = some {} := by decide

/-- **T: no narrowing** — every numeric frame field that is carried fits the JSON struct field it travels in
    (this is what justifies modelling the JSON layer as the identity on numbers) -/
theorem c24_json_holds_every_frame_value : Gen.C24.numericPairs.all (fun r => fits r.2.2.1 r.2.2.2) = true := by decide

example : fits "uint64" "uint32" = false ∧ fits "uint8" "int" = true := by decide

/-- the numeric fields the model treats as carried exactly are all in the table -/
theorem c24_numeric_rows_present :
    [("RecvAckParams.ToProto", "MessageSeq"), ("FromProtoSendAck", "MessageSeq"), ("FromProtoRecvPacket", "MessageSeq"),
     ("FromProtoConnectAck", "NodeID"), ("FromProtoConnectAck", "TimeDiff"), ("FromProtoRecvPacket", "Expire"),
     ("FromProtoRecvPacket", "Timestamp"), ("SendRequest.ToProto", "Expire"), ("FromProtoEventNotification", "Timestamp")].all
      (fun k => Gen.C24.numericPairs.any (fun r => r.1 == k.1 && r.2.1 == k.2)) = true := by decide

/-- **T: request-id carriage and the version default** (what `ridIn` / `ridOut` / `latestVersion` state) -/
theorem c24_id_and_version_facts :
    Gen.C24.toFrameCases.map (fun r => (r.1, r.2.2)) =
      [("ConnectRequest", "p.ID"), ("SendRequest", "p.ID"), ("PingRequest", "p.ID"), ("DisconnectRequest", "p.ID"), ("RecvAckNotification", "\"\"")] ∧
    Gen.C24.fromFrameCases.map (fun r => (r.1, r.2.2.1)) =
      [("frame.CONNACK", "reqId"), ("frame.SENDACK", "reqId"), ("frame.RECV", "-"), ("frame.EVENT", "-"), ("frame.DISCONNECT", "-"), ("frame.PONG", "reqId")] ∧
    Gen.C24.fromFrameCases.lookup "frame.PONG" = some ("PongResponse", "reqId", "json.RawMessage(\"{}\")") ∧
    Gen.C24.versionDefault = [("p.Version==0", "version", "frame.LatestVersion")] ∧
    latestVersion = Gen.C24.latestVersion := by decide

/-- **T: member presence** — the `omitempty` tags `reDecode` relies on (empty id disappears; a nil result disappears) -/
theorem c24_omitempty_facts :
    [("BaseRequest", "ID", "string", "id,omitempty"), ("BaseResponse", "ID", "string", "id,omitempty"),
     ("PongResponse", "Result", "json.RawMessage", "result,omitempty"), ("BaseRequest", "Method", "string", "method"),
     ("RecvAckParams", "MessageSeq", "uint64", "messageSeq"), ("SendResult", "MessageSeq", "uint64", "messageSeq")].all
      (fun r => Gen.C24.jsonFields.contains r) = true := by decide

end WK.C24

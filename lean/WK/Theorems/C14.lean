import WK.Proofs.C14_Reads
import WK.Gen.C14
/-
  C14 — the durable Raft log behaves as a correct Raft storage.

  Quantifier: every Raft-valid operation sequence `ops` (`validRun {} ops`) from
  the empty store — saves (append / overwrite of a conflicting suffix / snapshot
  install = compaction / all three in one call), snapshot replacement, applied
  marks, reopen.  `RaftStore` is the reference storage (memory.go, statement for
  statement); `PStore` is the Pebble store (durable keys + writer cache).  The
  driver executes exactly `stepM`/`stepP`/`validOp`/`reads`.
-/
namespace WK.C14

theorem limitGo_zero (size : Nat) (ne : Bool) (es : List Entry) : limitGo 0 size ne es = es := by
  induction es generalizing size ne with
  | nil => rfl
  | cons e es ih => simp [limitGo, ih]

theorem limitGo_mem (max size : Nat) (ne : Bool) (es : List Entry) :
    ∀ e ∈ limitGo max size ne es, e ∈ es := by
  induction es generalizing size ne with
  | nil => intro e he; simp [limitGo] at he
  | cons x xs ih =>
    intro e he
    simp only [limitGo] at he
    split at he
    · simp at he
    · rcases List.mem_cons.1 he with rfl | he
      · exact List.mem_cons_self ..
      · exact List.mem_cons_of_mem _ (ih _ _ e he)

/-- the full-range dump of the reference store is its log -/
theorem entriesGo_all (m : RaftStore) (h : RInv m) : m.entriesGo 0 maxU64 0 = m.entries := by
  unfold RaftStore.entriesGo limitSize
  rw [limitGo_zero]
  apply List.filter_eq_self.2
  intro e he
  have := consec_ge _ _ h.consec e he
  have hb := h.bound
  simp; omega

/-- **contiguity**: after any Raft-valid history the log is the run
    `snapshotIndex+1, snapshotIndex+2, …, lastIndex`, `FirstIndex` is
    `snapshotIndex+1`, `LastIndex` is `snapshotIndex + length`, and the read-API
    judge `Reads.contiguous` accepts the dump. -/
theorem c14_contiguous (ops : List Op) (hv : validRun {} ops = true) :
    let m := runM {} ops
    consecutiveFrom (m.snapshot.index + 1) m.entries = true ∧
    m.firstIndex = m.snapshot.index + 1 ∧
    m.lastIndex = m.snapshot.index + m.entries.length ∧
    m.reads.contiguous = true := by
  intro m
  have h : RInv m := rinv_run {} rinv_init ops hv
  refine ⟨h.consec, firstIndex_eq m h, lastIndex_eq m h, ?_⟩
  simp only [RaftStore.reads, Reads.contiguous, entriesGo_all m h, firstIndex_eq m h, lastIndex_eq m h,
    Bool.and_eq_true, beq_iff_eq]
  exact ⟨⟨h.consec, by omega⟩, trivial⟩

example : validRun {} [.save (some ⟨1, 1, 0⟩) none [⟨1, 1, .normal [1]⟩, ⟨2, 1, .cc 0 1⟩],
                       .save (some ⟨1, 1, 2⟩) none [], .mark 2,
                       .save none (some ⟨1, 1, ⟨[], []⟩, [9]⟩) [],
                       .save (some ⟨2, 0, 2⟩) none [⟨2, 2, .normal []⟩, ⟨3, 2, .normal [7]⟩]] = true := by decide

/-- **term_defined_iff**: `Term(i)` answers (non-zero) exactly for
    `max 1 (firstIndex-1) ≤ i ≤ lastIndex`; in raft's convention (`term?`) it is
    `ErrCompacted` below, `ErrUnavailable` above, and the Go value otherwise. The
    store never invents a term for an index it does not hold. -/
theorem c14_term_defined_iff (ops : List Op) (hv : validRun {} ops = true) (i : Nat) :
    let m := runM {} ops
    (m.termGo i ≠ 0 ↔ 1 ≤ i ∧ m.firstIndex ≤ i + 1 ∧ i ≤ m.lastIndex) ∧
    (match m.term? i with
     | .ok t => t = m.termGo i
     | .error _ => m.termGo i = 0) := by
  intro m
  have h : RInv m := rinv_run {} rinv_init ops hv
  have hf := firstIndex_eq m h
  have hl := lastIndex_eq m h
  have hfind := find_consec (m.snapshot.index + 1) i m.entries h.consec
  have key : m.termGo i ≠ 0 ↔ 1 ≤ i ∧ m.firstIndex ≤ i + 1 ∧ i ≤ m.lastIndex := by
    rw [hf, hl]
    by_cases hin : m.snapshot.index + 1 ≤ i ∧ i < m.snapshot.index + 1 + m.entries.length
    · obtain ⟨e, he, hm, _⟩ := hfind.1 hin
      have ht := h.terms e hm
      simp only [RaftStore.termGo, he]
      constructor
      · intro _; omega
      · intro _; omega
    · have hn := hfind.2 hin
      simp only [RaftStore.termGo, hn]
      by_cases hs : m.snapshot.index = i
      · simp only [hs, if_true]
        by_cases h0 : m.snapshot.index = 0
        · have := h.snapNone h0
          rw [this] at hs ⊢
          simp [Snap.none] at hs ⊢
          omega
        · have := (h.snapSome h0).1
          constructor
          · intro _; omega
          · intro _; omega
      · simp only [hs, if_false]
        constructor
        · intro h'; exact absurd rfl h'
        · intro h'; omega
  refine ⟨key, ?_⟩
  unfold RaftStore.term?
  by_cases hc : i + 1 < m.firstIndex
  · simp only [hc, if_true]
    by_cases hz : m.termGo i = 0
    · exact hz
    · have := key.1 hz; omega
  · by_cases hu : i > m.lastIndex
    · simp only [hc, hu, if_true, if_false]
      by_cases hz : m.termGo i = 0
      · exact hz
      · have := key.1 hz; omega
    · simp only [hc, hu, if_false]

example : (runM {} [.save none none [⟨1, 3, .normal []⟩]]).termGo 1 = 3 := by decide

/-- **no_entries_below_compaction**: whatever range and size limit is asked,
    every entry returned lies above the snapshot (compaction) index, at or above
    `FirstIndex`, and inside the requested range. -/
theorem c14_no_entries_below_compaction (ops : List Op) (hv : validRun {} ops = true)
    (lo hi max : Nat) :
    let m := runM {} ops
    ∀ e ∈ m.entriesGo lo hi max,
      m.snapshot.index < e.index ∧ m.firstIndex ≤ e.index ∧ lo ≤ e.index ∧ e.index < hi := by
  intro m e he
  have h : RInv m := rinv_run {} rinv_init ops hv
  unfold RaftStore.entriesGo limitSize at he
  have hm := limitGo_mem _ _ _ _ e he
  rw [List.mem_filter] at hm
  have hge := consec_ge _ _ h.consec e hm.1
  rw [firstIndex_eq m h]
  have := hm.2
  simp at this
  omega

example : (runM {} [.save none none [⟨1, 1, .normal []⟩, ⟨2, 1, .normal []⟩], .mark 1,
                    .save none (some ⟨1, 1, ⟨[], []⟩, []⟩) []]).entriesGo 0 10 0 = [⟨2, 1, .normal []⟩] := by decide

/-- **overwrite_suffix**: in any reachable state, a `Save` of entries
    `e :: es` (valid or not) leaves exactly the old entries below `e.index` followed by the new
    ones (a conflicting suffix is replaced, a pure append keeps everything). -/
theorem c14_overwrite_suffix (ops : List Op) (hv : validRun {} ops = true)
    (hs : Option Hard) (e : Entry) (es : List Entry) :
    ((runM {} ops).save hs none (e :: es)).entries =
      (runM {} ops).entries.filter (fun x => decide (x.index < e.index)) ++ (e :: es) := by
  have h : RInv (runM {} ops) := rinv_run {} rinv_init ops hv
  have hn := save_nil_entries (runM {} ops) hs
  have h1 : RInv ((runM {} ops).save hs none []) :=
    ⟨by rw [hn.1, hn.2]; exact h.consec, by rw [hn.1]; exact h.terms,
     by rw [hn.2]; exact h.snapNone, by rw [hn.2]; exact h.snapSome,
     by rw [hn.1, hn.2]; exact h.bound⟩
  rw [save_decomp]
  simp only [setEnts]
  rw [replaceFrom_eq _ h1, hn.1, hn.2, filter_lt_eq_take _ _ _ h.consec]

example : validEnts (runM {} [.save none none [⟨1, 1, .normal []⟩, ⟨2, 1, .normal []⟩]])
    [⟨2, 2, .normal [5]⟩] = true := by decide

theorem validRun_snoc (m : RaftStore) (ops : List Op) (op : Op) :
    validRun m (ops ++ [op]) = (validRun m ops && validOp (runM m ops) op) := by
  induction ops generalizing m with
  | nil => simp [validRun, runM]
  | cons o os ih => simp only [List.cons_append, validRun, ih, runM, List.foldl_cons, Bool.and_assoc]

/-- **cache_refines**: after any Raft-valid history the writer's cached
    `scopeWriteState` — when there is one — is exactly what
    `loadScopeWriteState` would rebuild from Pebble, so dropping it (Close/Open,
    process kill after a completed write) changes no answer of the read API. -/
theorem c14_cache_refines (ops : List Op) (hv : validRun {} ops = true) :
    let p := runP {} ops
    (∀ c, p.cache = some c → loadState p.d = .ok c) ∧
    p.reopen.state = p.state ∧
    p.reopen.reads.2 = p.reads.2 := by
  intro p
  obtain ⟨hr, h⟩ := run_refines {} {} refines_init rinv_init ops hv
  have hr2 := reopen_refines _ _ hr
  obtain ⟨mt, ak, hd, hm, hc⟩ := hr
  have hload := loadState_canon _ h mt ak hm
  refine ⟨?_, ?_, ?_⟩
  · intro c hcc
    rcases hc with hc | hc
    · rw [hc] at hcc; cases hcc
    · rw [hc] at hcc; cases hcc; rw [hd]; exact hload
  · rw [state_canon p _ h mt ak hd hm hc]
    exact state_canon p.reopen _ h mt ak hd hm (Or.inl rfl)
  · rw [reads_eq _ _ hr2 h, reads_eq _ _ ⟨mt, ak, hd, hm, hc⟩ h]

example : (runP {} [.save none none [⟨1, 1, .normal [7]⟩]]).cache.isSome = true := by decide

/-- **pebble = reference**: after any Raft-valid history every answer of the read
    API of the Pebble store (InitialState, FirstIndex, LastIndex, Snapshot,
    Entries, Term over the probe window) equals the reference storage's. -/
theorem c14_pebble_refines_reference (ops : List Op) (hv : validRun {} ops = true) :
    (runP {} ops).reads.2 = (runM {} ops).reads := by
  obtain ⟨hr, h⟩ := run_refines {} {} refines_init rinv_init ops hv
  exact reads_eq _ _ hr h

/-- a Raft-valid operation is never refused, by either store, in any reachable state -/
theorem c14_valid_ops_succeed (ops : List Op) (op : Op) (hv : validRun {} (ops ++ [op]) = true) :
    (∃ p', stepP? (runP {} ops) op = .ok p') ∧ (stepM? (runM {} ops) op).isSome = true := by
  rw [validRun_snoc, Bool.and_eq_true] at hv
  obtain ⟨hr, h⟩ := run_refines {} {} refines_init rinv_init ops hv.1
  obtain ⟨⟨p', hp', _⟩, hm, _⟩ := step_refines _ _ hr h op hv.2
  exact ⟨⟨p', hp'⟩, hm⟩

example : validRun {} ([.save none none [⟨1, 1, .cc 0 1⟩], .save (some ⟨1, 0, 1⟩) none [], .mark 1] ++
    [.repl ⟨1, 1, ⟨[1], []⟩, [3]⟩]) = true := by decide

theorem lookup_filter_keep (l : List (Nat × Bytes)) (p : Nat × Bytes → Bool) (k : Nat)
    (hk : ∀ v, p (k, v) = true) : (l.filter p).lookup k = l.lookup k := by
  induction l with
  | nil => rfl
  | cons x xs ih =>
    obtain ⟨a, v⟩ := x
    by_cases ha : k = a
    · subst ha; simp [List.filter, hk, List.lookup]
    · by_cases hp : p (a, v) = true
      · simp only [List.filter, hp, List.lookup]
        have : (k == a) = false := by simpa using ha
        simp [this, ih]
      · have hp' : p (a, v) = false := by simpa using hp
        simp only [List.filter, hp', List.lookup]
        have : (k == a) = false := by simpa using ha
        simp [this, ih]

theorem lookup_filter_none (l : List (Nat × Bytes)) (p : Nat × Bytes → Bool) (k : Nat)
    (h : l.lookup k = none) : (l.filter p).lookup k = none := by
  induction l with
  | nil => rfl
  | cons x xs ih =>
    obtain ⟨a, v⟩ := x
    simp only [List.lookup] at h
    by_cases ha : (k == a) = true
    · simp [ha] at h
    · have ha' : (k == a) = false := by simpa using ha
      simp only [ha'] at h
      by_cases hp : p (a, v) = true
      · simp [List.filter, hp, List.lookup, ha', ih h]
      · have hp' : p (a, v) = false := by simpa using hp
        simp [List.filter, hp', ih h]

theorem lookup_cons_ne (k a : Nat) (v : Bytes) (l : List (Nat × Bytes)) (h : (k == a) = false) :
    List.lookup k ((a, v) :: l) = List.lookup k l := by simp [List.lookup, h]

theorem lookup_cons_self (k : Nat) (v : Bytes) (l : List (Nat × Bytes)) :
    List.lookup k ((k, v) :: l) = some v := by simp [List.lookup]

/-- the invariant of a Save in flight, stage by stage -/
structure Stage (fs0 fs : SnapFS) (id : Nat) (data : Bytes) (k : Nat) : Prop where
  sound : fs.sound
  man : (k ≤ 2 → fs.manifest = fs0.manifest) ∧ (k = 3 → fs.manifest = some id)
  tmpOk : k = 1 → fs.tmp.lookup id = some data ∧ fs.dirs.lookup id = none
  pre : k = 0 → fs.tmp.lookup id = none ∧ fs.dirs.lookup id = none
  dirOk : 2 ≤ k → fs.dirs.lookup id = some data

theorem gc_stage (fs0 fs : SnapFS) (id : Nat) (data : Bytes) (k : Nat) (h : Stage fs0 fs id data k) :
    Stage fs0 (pstep fs (.gc (some id))) id data k := by
  have hkeepD : ∀ v, (fun (p : Nat × Bytes) => some p.1 == fs.manifest || some p.1 == some id) (id, v) = true := by
    intro v; simp
  have hkeepT : ∀ v, (fun (p : Nat × Bytes) => some p.1 == some id) (id, v) = true := by intro v; simp
  refine ⟨?_, h.man, ?_, ?_, ?_⟩
  · have hs := h.sound
    simp only [SnapFS.sound, pstep] at hs ⊢
    cases hm : fs.manifest with
    | none => simp [hm]
    | some m =>
      rw [hm] at hs
      simp only
      rw [lookup_filter_keep _ _ m (by intro v; simp [hm])]
      exact hs
  · intro hk
    obtain ⟨h1, h2⟩ := h.tmpOk hk
    simp only [pstep]
    exact ⟨by rw [lookup_filter_keep _ _ id hkeepT]; exact h1, lookup_filter_none _ _ _ h2⟩
  · intro hk
    obtain ⟨h1, h2⟩ := h.pre hk
    simp only [pstep]
    exact ⟨lookup_filter_none _ _ _ h1, lookup_filter_none _ _ _ h2⟩
  · intro hk
    simp only [pstep]
    rw [lookup_filter_keep _ _ id hkeepD]; exact h.dirOk hk

theorem plan_stage (fs0 fs : SnapFS) (id : Nat) (data : Bytes) (k : Nat) (hk : k < 3)
    (h : Stage fs0 fs id data k) :
    Stage fs0 (pstep fs ((savePlan id data).getD k (.gc none))) id data (k + 1) := by
  match k, hk with
  | 0, _ =>
    obtain ⟨h1, h2⟩ := h.pre rfl
    refine ⟨?_, ⟨fun _ => h.man.1 (by omega), fun hh => by omega⟩, ?_, fun hh => by omega, fun hh => by omega⟩
    · have := h.sound; simpa [savePlan, pstep, SnapFS.sound] using this
    · intro _; simp [savePlan, pstep, List.lookup, h2]
  | 1, _ =>
    obtain ⟨h1, h2⟩ := h.tmpOk rfl
    refine ⟨?_, ⟨fun _ => ?_, fun hh => by omega⟩, fun hh => by omega, fun hh => by omega, fun _ => ?_⟩
    · have hs := h.sound
      simp only [savePlan, List.getD, List.getElem?_cons_succ, List.getElem?_cons_zero, Option.getD_some, pstep, h1, h2,
        SnapFS.sound] at hs ⊢
      cases hm : fs.manifest with
      | none => simp
      | some m =>
        rw [hm] at hs
        simp only
        by_cases hmi : (m == id) = true
        · have : m = id := by simpa using hmi
          subst this; rw [lookup_cons_self]; rfl
        · have : (m == id) = false := by simpa using hmi
          rw [lookup_cons_ne m id data fs.dirs this]; exact hs
    · simp only [savePlan, List.getD, List.getElem?_cons_succ, List.getElem?_cons_zero, Option.getD_some, pstep, h1, h2]
      exact h.man.1 (by omega)
    · simp [savePlan, pstep, h1, h2, List.lookup]
  | 2, _ =>
    have hd := h.dirOk (by omega)
    refine ⟨?_, ⟨fun hh => by omega, fun _ => ?_⟩, fun hh => by omega, fun hh => by omega, fun _ => ?_⟩
    · simp [savePlan, pstep, SnapFS.sound, hd]
    · simp [savePlan, pstep]
    · simpa [savePlan, pstep] using hd

theorem runPlan_stage (fs0 fs : SnapFS) (id : Nat) (data : Bytes) (k n : Nat) (gcs : List Bool)
    (hkn : k + n ≤ 3) (h : Stage fs0 fs id data k) :
    Stage fs0 (runPlan fs id (((savePlan id data).drop k).take n) gcs) id data (k + n) := by
  induction n generalizing k fs gcs with
  | zero => simpa [runPlan] using h
  | succ n ih =>
    have hk : k < 3 := by omega
    have hdrop : ((savePlan id data).drop k).take (n + 1) =
        (savePlan id data).getD k (.gc none) :: (((savePlan id data).drop (k + 1)).take n) := by
      match k, hk with
      | 0, _ => rfl
      | 1, _ => rfl
      | 2, _ => rfl
    rw [hdrop]
    have hk1 : k + (n + 1) = (k + 1) + n := by omega
    rw [hk1]
    cases gcs with
    | nil =>
      simp only [runPlan]
      exact ih (pstep fs _) (k + 1) [] (by omega) (plan_stage fs0 fs id data k hk h)
    | cons g gs =>
      simp only [runPlan]
      cases g with
      | true =>
        simp only [if_true]
        exact ih _ (k + 1) gs (by omega) (plan_stage fs0 _ id data k hk (gc_stage fs0 fs id data k h))
      | false =>
        simp only [Bool.false_eq_true, if_false]
        exact ih _ (k + 1) gs (by omega) (plan_stage fs0 fs id data k hk h)

/-- **snapshot_publish_commit_atomic**: kill the process after any number `n ≤ 3` of the
    three effects of a snapshot-carrying Save (write staging dir, publish by no-overwrite
    rename, commit the manifest), with GC passes of the running process anywhere in
    between, and let the restarted process run a GC pass with nothing protected: the
    durable manifest is the OLD one or the NEW one, and in either case the directory it
    names exists (never a dangling manifest); if it is the new one, the directory holds the
    new payload. -/
theorem c14_snapshot_publish_commit_atomic (fs : SnapFS) (hs : fs.sound) (id : Nat) (data : Bytes)
    (hfreshT : fs.tmp.lookup id = none) (hfreshD : fs.dirs.lookup id = none)
    (n : Nat) (hn : n ≤ 3) (gcs : List Bool) (restartGC : Bool) :
    (afterCrash (runPlan fs id ((savePlan id data).take n) gcs) restartGC).sound ∧
    ((afterCrash (runPlan fs id ((savePlan id data).take n) gcs) restartGC).manifest = fs.manifest ∨
     (afterCrash (runPlan fs id ((savePlan id data).take n) gcs) restartGC).manifest = some id) ∧
    ((afterCrash (runPlan fs id ((savePlan id data).take n) gcs) restartGC).manifest = some id →
     (afterCrash (runPlan fs id ((savePlan id data).take n) gcs) restartGC).manifest ≠ fs.manifest →
     (afterCrash (runPlan fs id ((savePlan id data).take n) gcs) restartGC).dirs.lookup id = some data) := by
  have h0 : Stage fs fs id data 0 :=
    ⟨hs, ⟨fun _ => rfl, fun h => by omega⟩, fun h => by omega, fun _ => ⟨hfreshT, hfreshD⟩, fun h => by omega⟩
  have hst := runPlan_stage fs fs id data 0 n gcs (by omega) h0
  simp only [List.drop_zero, Nat.zero_add] at hst
  generalize runPlan fs id ((savePlan id data).take n) gcs = fs1 at hst ⊢
  have hman : fs1.manifest = fs.manifest ∨ fs1.manifest = some id := by
    by_cases h3 : n = 3
    · right; exact hst.man.2 h3
    · left; exact hst.man.1 (by omega)
  have hdir : fs1.manifest = some id → fs1.manifest ≠ fs.manifest → fs1.dirs.lookup id = some data := by
    intro h1 h2
    by_cases h3 : n = 3
    · exact hst.dirOk (by omega)
    · exact absurd (hst.man.1 (by omega)) h2
  cases restartGC with
  | false => exact ⟨hst.sound, hman, hdir⟩
  | true =>
    have hm2 : (afterCrash fs1 true).manifest = fs1.manifest := rfl
    have hd2 : (afterCrash fs1 true).dirs =
        fs1.dirs.filter (fun p => some p.1 == fs1.manifest || some p.1 == none) := rfl
    refine ⟨?_, by rw [hm2]; exact hman, ?_⟩
    · have hs1 := hst.sound
      unfold SnapFS.sound at hs1 ⊢
      rw [hm2, hd2]
      cases hm : fs1.manifest with
      | none => trivial
      | some m =>
        rw [hm] at hs1
        simp only
        rw [lookup_filter_keep _ _ m (by intro v; simp)]
        exact hs1
    · intro h1 h2
      rw [hm2] at h1 h2
      rw [hd2, lookup_filter_keep _ _ id (by intro v; simp [h1])]
      exact hdir h1 h2

example : (runPlan { dirs := [(1, [9])], manifest := some 1 } 2 ((savePlan 2 [7]).take 2) [true, true]).manifest = some 1 := by decide
example : ({ dirs := [(1, [9])], manifest := some 1 } : SnapFS).sound := by simp [SnapFS.sound, List.lookup]


def before14 (a b : String) (l : List String) : Bool :=
  match l.findIdx? (· == a), l.findIdx? (· == b) with
  | some i, some j => i < j
  | _, _ => false

/-- **publish_before_commit** (T): in the source as it is now, a snapshot-carrying Save
    writes and syncs the staging directory, publishes it by a no-overwrite rename and a
    directory fsync, and only then submits the Pebble batch that names it; GC is started
    after that — the order `savePlan` models. -/
theorem c14_publish_before_commit :
    before14 "prepareAndWriteSnapshot" "publishSnapshotAndCommit" Gen.C14.save = true ∧
    before14 "publishSnapshotAndCommit" "startSnapshotGC" Gen.C14.save = true ∧
    before14 "publishFinal" "submitWrite" Gen.C14.publishSnapshotAndCommit = true ∧
    Gen.C14.prepareAndWriteSnapshot = ["prepare", "write"] ∧
    Gen.C14.snapshotWrite = ["MkdirAll", "Mkdir", "snapshotFsyncDir", "snapshotWriteFile", "snapshotFsyncDir"] ∧
    Gen.C14.publishFinal = ["renameNoOverwrite", "snapshotFsyncDir"] := by
  refine ⟨by decide, by decide, by decide, rfl, rfl, rfl⟩



theorem validRun_take (m : RaftStore) (ops : List Op) (k : Nat) (h : validRun m ops = true) :
    validRun m (ops.take k) = true := by
  induction ops generalizing m k with
  | nil => simp [validRun]
  | cons op ops ih =>
    cases k with
    | zero => simp [validRun]
    | succ k =>
      simp only [validRun, Bool.and_eq_true] at h
      simp only [List.take_succ_cons, validRun, Bool.and_eq_true]
      exact ⟨h.1, ih (stepM m op) k h.2⟩

/-- **every_prefix_refines**: along any Raft-valid history, after EVERY operation (not only at
    the end) the whole read API of the Pebble store equals the reference storage's — the
    statement behind the per-step dump comparison of the differential run. -/
theorem c14_every_prefix_refines (ops : List Op) (hv : validRun {} ops = true) (k : Nat) :
    (runP {} (ops.take k)).reads.2 = (runM {} (ops.take k)).reads :=
  c14_pebble_refines_reference (ops.take k) (validRun_take {} ops k hv)

/-- drop the writer cache (Close/Open, or a process kill after the last completed write)
    in front of every operation whose flag is set, and optionally at the end -/
def withReopens : List Op → List Bool → List Op
  | [], g :: _ => if g then [.reopen] else []
  | [], [] => []
  | op :: ops, [] => op :: withReopens ops []
  | op :: ops, g :: gs => if g then .reopen :: op :: withReopens ops gs else op :: withReopens ops gs

theorem stepM_reopen (m : RaftStore) : stepM m .reopen = m := rfl

theorem withReopens_M (m : RaftStore) (ops : List Op) (gs : List Bool) :
    runM m (withReopens ops gs) = runM m ops ∧ validRun m (withReopens ops gs) = validRun m ops := by
  induction ops generalizing m gs with
  | nil =>
    cases gs with
    | nil => exact ⟨rfl, rfl⟩
    | cons g gs => cases g <;> simp [withReopens, runM, validRun, validOp, stepM_reopen]
  | cons op ops ih =>
    cases gs with
    | nil =>
      have := ih (stepM m op) []
      simp only [withReopens, runM, List.foldl_cons, validRun] at this ⊢
      exact ⟨this.1, by rw [this.2]⟩
    | cons g gs =>
      have := ih (stepM m op) gs
      cases g with
      | true =>
        simp only [withReopens, if_true, runM, List.foldl_cons, validRun, validOp, stepM_reopen, Bool.true_and] at this ⊢
        exact ⟨this.1, by rw [this.2]⟩
      | false =>
        simp only [withReopens, Bool.false_eq_true, if_false, runM, List.foldl_cons, validRun] at this ⊢
        exact ⟨this.1, by rw [this.2]⟩

/-- **reopen_anywhere_invisible**: take any Raft-valid history and close/reopen the store (or
    kill the process) between ANY of its operations, any number of them: every answer of the
    read API at the end is the same as without any reopen, and equals the reference's — the
    op-sequence lift of `c14_cache_refines` over all interleavings of saves and restarts. -/
theorem c14_reopen_anywhere_invisible (ops : List Op) (hv : validRun {} ops = true) (gs : List Bool) :
    (runP {} (withReopens ops gs)).reads.2 = (runP {} ops).reads.2 ∧
    (runP {} (withReopens ops gs)).reads.2 = (runM {} ops).reads := by
  have hM := withReopens_M {} ops gs
  have hv' : validRun {} (withReopens ops gs) = true := by rw [hM.2]; exact hv
  have h1 := c14_pebble_refines_reference (withReopens ops gs) hv'
  have h2 := c14_pebble_refines_reference ops hv
  rw [hM.1] at h1
  exact ⟨by rw [h1, h2], h1⟩

example : withReopens [.mark 1, .cmark 2] [true, false, true] = [.reopen, .mark 1, .cmark 2, .reopen] := rfl


example : validRun {} (withReopens [.save none none [⟨1, 1, .normal [7]⟩], .mark 1] [true, true, true]) = true := by decide

end WK.C14

import WK.Proofs.C14_Reads
/-
  C14 — the durable Raft log behaves as a correct Raft storage.

  Quantifier: every Raft-valid operation sequence `ops` (`validRun {} ops`) from
  the empty store — saves (append / overwrite of a conflicting suffix / snapshot
  install = compaction / all three in one call), snapshot replacement, applied
  marks, reopen.  `RaftStore` is the reference storage (memory.go, statement for
  statement); `PStore` is the Pebble store (durable keys + writer cache).  The
  driver executes exactly `stepM`/`stepP`/`validOp`/`reads`.
-/
namespace WK.C14

theorem limitGo_zero (size : Nat) (ne : Bool) (es : List Entry) : limitGo 0 size ne es = es := by
  induction es generalizing size ne with
  | nil => rfl
  | cons e es ih => simp [limitGo, ih]

theorem limitGo_mem (max size : Nat) (ne : Bool) (es : List Entry) :
    ∀ e ∈ limitGo max size ne es, e ∈ es := by
  induction es generalizing size ne with
  | nil => intro e he; simp [limitGo] at he
  | cons x xs ih =>
    intro e he
    simp only [limitGo] at he
    split at he
    · simp at he
    · rcases List.mem_cons.1 he with rfl | he
      · exact List.mem_cons_self ..
      · exact List.mem_cons_of_mem _ (ih _ _ e he)

/-- the full-range dump of the reference store is its log -/
theorem entriesGo_all (m : RaftStore) (h : RInv m) : m.entriesGo 0 maxU64 0 = m.entries := by
  unfold RaftStore.entriesGo limitSize
  rw [limitGo_zero]
  apply List.filter_eq_self.2
  intro e he
  have := consec_ge _ _ h.consec e he
  have hb := h.bound
  simp; omega

/-- **contiguity**: after any Raft-valid history the log is the run
    `snapshotIndex+1, snapshotIndex+2, …, lastIndex`, `FirstIndex` is
    `snapshotIndex+1`, `LastIndex` is `snapshotIndex + length`, and the read-API
    judge `Reads.contiguous` accepts the dump. -/
theorem c14_contiguous (ops : List Op) (hv : validRun {} ops = true) :
    let m := runM {} ops
    consecutiveFrom (m.snapshot.index + 1) m.entries = true ∧
    m.firstIndex = m.snapshot.index + 1 ∧
    m.lastIndex = m.snapshot.index + m.entries.length ∧
    m.reads.contiguous = true := by
  intro m
  have h : RInv m := rinv_run {} rinv_init ops hv
  refine ⟨h.consec, firstIndex_eq m h, lastIndex_eq m h, ?_⟩
  simp only [RaftStore.reads, Reads.contiguous, entriesGo_all m h, firstIndex_eq m h, lastIndex_eq m h,
    Bool.and_eq_true, beq_iff_eq]
  exact ⟨⟨h.consec, by omega⟩, trivial⟩

example : validRun {} [.save (some ⟨1, 1, 0⟩) none [⟨1, 1, .normal [1]⟩, ⟨2, 1, .cc 0 1⟩],
                       .save (some ⟨1, 1, 2⟩) none [], .mark 2,
                       .save none (some ⟨1, 1, ⟨[], []⟩, [9]⟩) [],
                       .save (some ⟨2, 0, 2⟩) none [⟨2, 2, .normal []⟩, ⟨3, 2, .normal [7]⟩]] = true := by decide

/-- **term_defined_iff**: `Term(i)` answers (non-zero) exactly for
    `max 1 (firstIndex-1) ≤ i ≤ lastIndex`; in raft's convention (`term?`) it is
    `ErrCompacted` below, `ErrUnavailable` above, and the Go value otherwise. The
    store never invents a term for an index it does not hold. -/
theorem c14_term_defined_iff (ops : List Op) (hv : validRun {} ops = true) (i : Nat) :
    let m := runM {} ops
    (m.termGo i ≠ 0 ↔ 1 ≤ i ∧ m.firstIndex ≤ i + 1 ∧ i ≤ m.lastIndex) ∧
    (match m.term? i with
     | .ok t => t = m.termGo i
     | .error _ => m.termGo i = 0) := by
  intro m
  have h : RInv m := rinv_run {} rinv_init ops hv
  have hf := firstIndex_eq m h
  have hl := lastIndex_eq m h
  have hfind := find_consec (m.snapshot.index + 1) i m.entries h.consec
  have key : m.termGo i ≠ 0 ↔ 1 ≤ i ∧ m.firstIndex ≤ i + 1 ∧ i ≤ m.lastIndex := by
    rw [hf, hl]
    by_cases hin : m.snapshot.index + 1 ≤ i ∧ i < m.snapshot.index + 1 + m.entries.length
    · obtain ⟨e, he, hm, _⟩ := hfind.1 hin
      have ht := h.terms e hm
      simp only [RaftStore.termGo, he]
      constructor
      · intro _; omega
      · intro _; omega
    · have hn := hfind.2 hin
      simp only [RaftStore.termGo, hn]
      by_cases hs : m.snapshot.index = i
      · simp only [hs, if_true]
        by_cases h0 : m.snapshot.index = 0
        · have := h.snapNone h0
          rw [this] at hs ⊢
          simp [Snap.none] at hs ⊢
          omega
        · have := (h.snapSome h0).1
          constructor
          · intro _; omega
          · intro _; omega
      · simp only [hs, if_false]
        constructor
        · intro h'; exact absurd rfl h'
        · intro h'; omega
  refine ⟨key, ?_⟩
  unfold RaftStore.term?
  by_cases hc : i + 1 < m.firstIndex
  · simp only [hc, if_true]
    by_cases hz : m.termGo i = 0
    · exact hz
    · have := key.1 hz; omega
  · by_cases hu : i > m.lastIndex
    · simp only [hc, hu, if_true, if_false]
      by_cases hz : m.termGo i = 0
      · exact hz
      · have := key.1 hz; omega
    · simp only [hc, hu, if_false]

example : (runM {} [.save none none [⟨1, 3, .normal []⟩]]).termGo 1 = 3 := by decide

/-- **no_entries_below_compaction**: whatever range and size limit is asked,
    every entry returned lies above the snapshot (compaction) index, at or above
    `FirstIndex`, and inside the requested range. -/
theorem c14_no_entries_below_compaction (ops : List Op) (hv : validRun {} ops = true)
    (lo hi max : Nat) :
    let m := runM {} ops
    ∀ e ∈ m.entriesGo lo hi max,
      m.snapshot.index < e.index ∧ m.firstIndex ≤ e.index ∧ lo ≤ e.index ∧ e.index < hi := by
  intro m e he
  have h : RInv m := rinv_run {} rinv_init ops hv
  unfold RaftStore.entriesGo limitSize at he
  have hm := limitGo_mem _ _ _ _ e he
  rw [List.mem_filter] at hm
  have hge := consec_ge _ _ h.consec e hm.1
  rw [firstIndex_eq m h]
  have := hm.2
  simp at this
  omega

example : (runM {} [.save none none [⟨1, 1, .normal []⟩, ⟨2, 1, .normal []⟩], .mark 1,
                    .save none (some ⟨1, 1, ⟨[], []⟩, []⟩) []]).entriesGo 0 10 0 = [⟨2, 1, .normal []⟩] := by decide

/-- **overwrite_suffix**: in any reachable state, a `Save` of entries
    `e :: es` (valid or not) leaves exactly the old entries below `e.index` followed by the new
    ones (a conflicting suffix is replaced, a pure append keeps everything). -/
theorem c14_overwrite_suffix (ops : List Op) (hv : validRun {} ops = true)
    (hs : Option Hard) (e : Entry) (es : List Entry) :
    ((runM {} ops).save hs none (e :: es)).entries =
      (runM {} ops).entries.filter (fun x => decide (x.index < e.index)) ++ (e :: es) := by
  have h : RInv (runM {} ops) := rinv_run {} rinv_init ops hv
  have hn := save_nil_entries (runM {} ops) hs
  have h1 : RInv ((runM {} ops).save hs none []) :=
    ⟨by rw [hn.1, hn.2]; exact h.consec, by rw [hn.1]; exact h.terms,
     by rw [hn.2]; exact h.snapNone, by rw [hn.2]; exact h.snapSome,
     by rw [hn.1, hn.2]; exact h.bound⟩
  rw [save_decomp]
  simp only [setEnts]
  rw [replaceFrom_eq _ h1, hn.1, hn.2, filter_lt_eq_take _ _ _ h.consec]

example : validEnts (runM {} [.save none none [⟨1, 1, .normal []⟩, ⟨2, 1, .normal []⟩]])
    [⟨2, 2, .normal [5]⟩] = true := by decide

theorem validRun_snoc (m : RaftStore) (ops : List Op) (op : Op) :
    validRun m (ops ++ [op]) = (validRun m ops && validOp (runM m ops) op) := by
  induction ops generalizing m with
  | nil => simp [validRun, runM]
  | cons o os ih => simp only [List.cons_append, validRun, ih, runM, List.foldl_cons, Bool.and_assoc]

/-- **cache_refines**: after any Raft-valid history the writer's cached
    `scopeWriteState` — when there is one — is exactly what
    `loadScopeWriteState` would rebuild from Pebble, so dropping it (Close/Open,
    process kill after a completed write) changes no answer of the read API. -/
theorem c14_cache_refines (ops : List Op) (hv : validRun {} ops = true) :
    let p := runP {} ops
    (∀ c, p.cache = some c → loadState p.d = .ok c) ∧
    p.reopen.state = p.state ∧
    p.reopen.reads.2 = p.reads.2 := by
  intro p
  obtain ⟨hr, h⟩ := run_refines {} {} refines_init rinv_init ops hv
  have hr2 := reopen_refines _ _ hr
  obtain ⟨mt, ak, hd, hm, hc⟩ := hr
  have hload := loadState_canon _ h mt ak hm
  refine ⟨?_, ?_, ?_⟩
  · intro c hcc
    rcases hc with hc | hc
    · rw [hc] at hcc; cases hcc
    · rw [hc] at hcc; cases hcc; rw [hd]; exact hload
  · rw [state_canon p _ h mt ak hd hm hc]
    exact state_canon p.reopen _ h mt ak hd hm (Or.inl rfl)
  · rw [reads_eq _ _ hr2 h, reads_eq _ _ ⟨mt, ak, hd, hm, hc⟩ h]

example : (runP {} [.save none none [⟨1, 1, .normal [7]⟩]]).cache.isSome = true := by decide

/-- **pebble = reference**: after any Raft-valid history every answer of the read
    API of the Pebble store (InitialState, FirstIndex, LastIndex, Snapshot,
    Entries, Term over the probe window) equals the reference storage's. -/
theorem c14_pebble_refines_reference (ops : List Op) (hv : validRun {} ops = true) :
    (runP {} ops).reads.2 = (runM {} ops).reads := by
  obtain ⟨hr, h⟩ := run_refines {} {} refines_init rinv_init ops hv
  exact reads_eq _ _ hr h

/-- a Raft-valid operation is never refused, by either store, in any reachable state -/
theorem c14_valid_ops_succeed (ops : List Op) (op : Op) (hv : validRun {} (ops ++ [op]) = true) :
    (∃ p', stepP? (runP {} ops) op = .ok p') ∧ (stepM? (runM {} ops) op).isSome = true := by
  rw [validRun_snoc, Bool.and_eq_true] at hv
  obtain ⟨hr, h⟩ := run_refines {} {} refines_init rinv_init ops hv.1
  obtain ⟨⟨p', hp', _⟩, hm, _⟩ := step_refines _ _ hr h op hv.2
  exact ⟨⟨p', hp'⟩, hm⟩

example : validRun {} ([.save none none [⟨1, 1, .cc 0 1⟩], .save (some ⟨1, 0, 1⟩) none [], .mark 1] ++
    [.repl ⟨1, 1, ⟨[1], []⟩, [3]⟩]) = true := by decide

end WK.C14

import WK.Gen.C33
import WK.Proofs.C33_Inv
import WK.Proofs.C33_Sort
/-
  C33 — Presence routing is fenced by slot authority.

  All theorems are about `WK.C33.step` / `WK.C33.run`, the definitions the
  driver executes against the real `presence.Directory`.
-/
namespace WK.C33

/-! ### directory-level plumbing -/

def DirInv (d : Dir) : Prop := ∀ p ∈ d.slots, SlotInv p.2

theorem validate_some {d : Dir} {t : Target} {s : Slot} (h : d.validate t = some s) :
    aget t.hs d.slots = some s ∧ sameAuth s.target t = true := by
  unfold Dir.validate at h
  split at h
  · cases h
  · split at h
    · cases h
    · split at h
      · rename_i h1 h2; cases h; exact ⟨h1, h2⟩
      · cases h

theorem accepts_eq_validate (d : Dir) (t : Target) : accepts d t = (d.validate t).isSome := by
  unfold accepts Dir.validate
  by_cases h1 : d.localNode ≠ 0 ∧ t.leader ≠ d.localNode
  · simp [h1]
  · simp only [h1, if_false]
    cases aget t.hs d.slots with
    | none => rfl
    | some s => simp only; cases sameAuth s.target t <;> simp

theorem validate_none_of_not_accepts {d : Dir} {t : Target} (h : accepts d t = false) : d.validate t = none := by
  rw [accepts_eq_validate] at h
  simpa using h

theorem dirInv_setSlot {d : Dir} {hs : Nat} {s : Slot} (hd : DirInv d) (hs' : SlotInv s) :
    DirInv (d.setSlot hs s) := by
  intro p hp
  unfold Dir.setSlot at hp
  simp only at hp
  rcases mem_aset.mp hp with rfl | ⟨hp, _⟩
  · exact hs'
  · exact hd p hp

theorem slotInv_of_aget {d : Dir} {hs : Nat} {s : Slot} (hd : DirInv d) (h : aget hs d.slots = some s) : SlotInv s :=
  hd (hs, s) (aget_mem h)

theorem slotInv_new (t : Target) : SlotInv ({ target := t } : Slot) := by
  refine ⟨⟨by simp, ?_, ?_, by simp [BSorted]⟩, ?_⟩
  · intro k t'; simp
  · intro t' k; simp
  · intro k t' h; simp at h

theorem expireSlots_fst (nz : Bool) (now ttl : Int) (l : List (Nat × Slot)) :
    (expireSlots nz now ttl l).1 = l.map (fun p => (p.1, (p.2.expire nz now ttl).1)) := by
  induction l with
  | nil => rfl
  | cons p l ih => obtain ⟨hs, s⟩ := p; simp [expireSlots, ih]

theorem expireSlots_expired (nz : Bool) (now ttl : Int) (l : List (Nat × Slot)) :
    (expireSlots nz now ttl l).2.expired = (l.map (fun p => (p.2.expire nz now ttl).2.expired)).sum := by
  induction l with
  | nil => rfl
  | cons p l ih => obtain ⟨hs, s⟩ := p; simp [expireSlots, ih]

theorem aget_map_snd {ν μ : Type} (f : ν → μ) (hs : Nat) (l : List (Nat × ν)) :
    aget hs (l.map (fun p => (p.1, f p.2))) = (aget hs l).map f := by
  induction l with
  | nil => rfl
  | cons p l ih =>
    obtain ⟨a, b⟩ := p
    simp only [List.map_cons, aget_cons]
    split <;> simp [ih]

/-- Every operation preserves the directory invariant (index = schedule of the
    active routes, tombstone fence) on every slot. -/
theorem dirInv_step {d : Dir} (hd : DirInv d) (op : Op) : DirInv (step d op).1 := by
  cases op with
  | become t =>
    simp only [step, Dir.become]
    split
    · rename_i cur hc
      split
      · split
        · exact dirInv_setSlot hd ⟨(slotInv_of_aget hd hc).idx, (slotInv_of_aget hd hc).tomb⟩
        · exact hd
      · exact dirInv_setSlot hd (slotInv_new t)
    · exact dirInv_setSlot hd (slotInv_new t)
  | lose hs =>
    simp only [step]
    intro p hp
    exact hd p (mem_adel.mp hp).1
  | reg t r =>
    simp only [step]
    split
    · exact hd
    · rename_i s hv
      have hs := slotInv_of_aget hd (validate_some hv).1
      have := slotInv_register r hs
      split <;> (rename_i heq; rw [heq] at this; exact dirInv_setSlot hd this)
  | commit t tok =>
    simp only [step]
    split
    · exact hd
    · rename_i s hv
      have hs := slotInv_of_aget hd (validate_some hv).1
      have := slotInv_commit tok hs
      split <;> (rename_i heq; rw [heq] at this; exact dirInv_setSlot hd this)
  | abort t tok =>
    simp only [step]
    split
    · exact hd
    · rename_i s hv
      have hs := slotInv_of_aget hd (validate_some hv).1
      have := slotInv_abort tok hs
      split <;> (rename_i heq; rw [heq] at this; exact dirInv_setSlot hd this)
  | unreg t k q =>
    simp only [step]
    split
    · exact hd
    · rename_i s hv
      exact dirInv_setSlot hd (slotInv_unregister k q (slotInv_of_aget hd (validate_some hv).1))
  | touch t rs =>
    simp only [step]
    split
    · exact hd
    · rename_i s hv
      have := (touches_inv rs s (slotInv_of_aget hd (validate_some hv).1)).1
      exact dirInv_setSlot (d := d) hd this
  | expire nz now ttl =>
    simp only [step]
    intro p hp
    simp only [expireSlots_fst] at hp
    obtain ⟨q, hq, rfl⟩ := List.mem_map.mp hp
    exact (slotInv_expire nz now ttl (hd q hq)).1
  | ep t u => simp only [step]; split <;> exact hd
  | eps t us => simp only [step]; split <;> exact hd
  | ept gs => exact hd
  | snap => exact hd

theorem dirInv_init (l : Nat) : DirInv ({ localNode := l } : Dir) := by
  intro p hp; simp at hp

theorem dirInv_run {d : Dir} (hd : DirInv d) (ops : List Op) : DirInv (run d ops) := by
  induction ops generalizing d with
  | nil => exact hd
  | cons op ops ih => exact ih (dirInv_step hd op)

/-- The invariant holds in every state reachable from a fresh directory. -/
theorem c33_reachable_inv (l : Nat) (ops : List Op) : DirInv (run { localNode := l } ops) :=
  dirInv_run (dirInv_init l) ops

/-! ### 1. operations carrying a stale target are rejected without changing state -/

/-- ∀ state, ∀ op fenced by target `t`: if `t` is not the installed authority of its
    hash slot (no slot, any of slot id / leader / term / config epoch differs, or the
    leader is not this node), the op returns ErrNotLeader and the state is unchanged. -/
theorem c33_stale_target_noop (d : Dir) (op : Op) (t : Target)
    (ht : op.target = some t) (hst : accepts d t = false) :
    step d op = (d, .err .notLeader) := by
  have hv := validate_none_of_not_accepts hst
  cases op <;> simp only [Op.target] at ht <;> (try cases ht) <;> simp [step, hv] <;> cases ht

/-- group lookups: a stale group is rejected, siblings are unaffected, state never changes -/
theorem c33_stale_group_rejected (d : Dir) (gs : List (Target × List Str)) :
    (step d (.ept gs)).1 = d ∧
    ∀ g ∈ gs, accepts d g.1 = false → d.lookupGroup g = .error .notLeader := by
  refine ⟨rfl, ?_⟩
  intro g _ h
  simp [Dir.lookupGroup, validate_none_of_not_accepts h]

/-- lifted to histories: a run consisting only of stale-target operations is a no-op -/
theorem c33_stale_ops_noop (d : Dir) (ops : List Op)
    (h : ∀ op ∈ ops, ∃ t, op.target = some t ∧ accepts d t = false) : run d ops = d := by
  induction ops with
  | nil => rfl
  | cons op ops ih =>
    obtain ⟨t, ht, hs⟩ := h op (by simp)
    unfold run
    rw [List.foldl_cons, c33_stale_target_noop d op t ht hs]
    exact ih (fun o ho => h o (List.mem_cons_of_mem _ ho))

/-- lookups and snapshots never change state -/
theorem c33_lookup_pure (d : Dir) (op : Op)
    (h : (∃ t u, op = .ep t u) ∨ (∃ t us, op = .eps t us) ∨ (∃ gs, op = .ept gs) ∨ op = .snap) :
    (step d op).1 = d := by
  rcases h with ⟨t, u, rfl⟩ | ⟨t, us, rfl⟩ | ⟨gs, rfl⟩ | rfl
  · simp only [step]; split <;> rfl
  · simp only [step]; split <;> rfl
  · rfl
  · rfl

example : accepts (run {} [.become ⟨0, 1, 1, 1, 1, 0, 0⟩]) ⟨0, 1, 1, 2, 1, 0, 0⟩ = false := by decide
example : accepts (run {} [.become ⟨0, 1, 1, 1, 1, 0, 0⟩]) ⟨0, 1, 1, 1, 1, 7, 9⟩ = true := by decide

/-! ### 2. tombstones: an unregistered identity does not come back at or below its sequence -/

def keepsAll (hs : Nat) : Dir → List Op → Prop
  | _, [] => True
  | d, op :: ops => keepsSlot d hs op = true ∧ keepsAll hs (step d op).1 ops

/-- the fence: the slot exists and carries a tombstone ≥ q for k -/
def FenceAt (d : Dir) (hs : Nat) (k : Key) (q : Nat) : Prop :=
  ∃ s t, aget hs d.slots = some s ∧ aget k s.tomb = some t ∧ q ≤ t

theorem aget_setSlot (d : Dir) (hs hs' : Nat) (s : Slot) :
    aget hs (d.setSlot hs' s).slots = if hs = hs' then some s else aget hs d.slots := by
  simp [Dir.setSlot, aget_aset]

/-- within one incarnation the slot of `hs` survives every step and its tombstones only grow -/
theorem step_slot_mono {d : Dir} {hs : Nat} {s : Slot} (hd : DirInv d) (op : Op)
    (hk : keepsSlot d hs op = true) (hs0 : aget hs d.slots = some s) :
    ∃ s', aget hs (step d op).1.slots = some s' ∧ TombMono s s' := by
  have same : ∃ s', aget hs d.slots = some s' ∧ TombMono s s' := ⟨s, hs0, TombMono.refl s⟩
  have upd : ∀ (t : Target) (s0 s1 : Slot), d.validate t = some s0 → (s0.tomb = s1.tomb ∨ TombMono s0 s1) →
      ∃ s', aget hs (d.setSlot t.hs s1).slots = some s' ∧ TombMono s s' := by
    intro t s0 s1 hv hm
    rw [aget_setSlot]
    by_cases he : hs = t.hs
    · simp only [he, if_true]
      have : s0 = s := by
        have := (validate_some hv).1
        rw [← he, hs0] at this; cases this; rfl
      subst this
      rcases hm with hm | hm
      · exact ⟨s1, rfl, TombMono.of_eq hm.symm⟩
      · exact ⟨s1, rfl, hm⟩
    · simp only [he, if_false]; exact same
  cases op with
  | become t =>
    simp only [keepsSlot, Bool.or_eq_true, bne_iff_ne, ne_eq] at hk
    simp only [step, Dir.become]
    by_cases he : t.hs = hs
    · rcases hk with hk | hk
      · exact absurd he hk
      · rw [hs0] at hk
        simp only at hk
        rw [he, hs0]
        simp only [hk, if_true]
        split
        · rw [aget_setSlot]; simp only [if_true]
          exact ⟨_, rfl, TombMono.of_eq rfl⟩
        · exact same
    · have hne : hs ≠ t.hs := fun e => he e.symm
      split
      · split
        · split
          · rw [aget_setSlot]; simp only [hne, if_false]; exact same
          · exact same
        · rw [aget_setSlot]; simp only [hne, if_false]; exact same
      · rw [aget_setSlot]; simp only [hne, if_false]; exact same
  | lose h =>
    simp only [keepsSlot, bne_iff_ne, ne_eq] at hk
    simp only [step, aget_adel]
    have : hs ≠ h := fun e => hk e.symm
    simp only [this, if_false]; exact same
  | reg t r =>
    simp only [step]
    split
    · exact same
    · rename_i s0 hv
      have ht := register_tomb s0 r
      split <;> (rename_i heq; rw [heq] at ht; exact upd t s0 _ hv (Or.inl ht.symm))
  | commit t tok =>
    simp only [step]
    split
    · exact same
    · rename_i s0 hv
      have ht := commit_tomb s0 tok
      split <;> (rename_i heq; rw [heq] at ht; exact upd t s0 _ hv (Or.inl ht.symm))
  | abort t tok =>
    simp only [step]
    split
    · exact same
    · rename_i s0 hv
      have ht := abort_tomb s0 tok
      split <;> (rename_i heq; rw [heq] at ht; exact upd t s0 _ hv (Or.inl ht.symm))
  | unreg t k q =>
    simp only [step]
    split
    · exact same
    · rename_i s0 hv
      exact upd t s0 _ hv (Or.inr (unregister_tombMono s0 k q))
  | touch t rs =>
    simp only [step]
    split
    · exact same
    · rename_i s0 hv
      have hinv := slotInv_of_aget hd (validate_some hv).1
      exact upd t s0 _ hv (Or.inl (touches_inv rs s0 hinv).2.symm)
  | expire nz now ttl =>
    simp only [step, expireSlots_fst]
    have hm := aget_map_snd (fun s : Slot => (s.expire nz now ttl).1) hs d.slots
    rw [hm, hs0]
    exact ⟨_, rfl, TombMono.of_eq (slotInv_expire nz now ttl (slotInv_of_aget hd hs0)).2⟩
  | ep t u => simp only [step]; split <;> exact same
  | eps t us => simp only [step]; split <;> exact same
  | ept gs => exact same
  | snap => exact same

theorem fenceAt_run {hs : Nat} {k : Key} {q : Nat} : ∀ (ops : List Op) (d : Dir), DirInv d →
    FenceAt d hs k q → keepsAll hs d ops → FenceAt (run d ops) hs k q := by
  intro ops
  induction ops with
  | nil => intro d _ hf _; exact hf
  | cons op ops ih =>
    intro d hd hf hk
    obtain ⟨hk1, hk2⟩ := hk
    obtain ⟨s, t, h1, h2, h3⟩ := hf
    obtain ⟨s', g1, g2⟩ := step_slot_mono hd op hk1 h1
    obtain ⟨t', g3, g4⟩ := g2 k t h2
    exact ih (step d op).1 (dirInv_step hd op) ⟨s', t', g1, g3, Nat.le_trans h3 g4⟩ hk2

theorem fenced_of_fenceAt {d : Dir} {hs : Nat} {k : Key} {q : Nat} (hd : DirInv d) (hf : FenceAt d hs k q) :
    ∀ s, aget hs d.slots = some s → fenced s k q = true := by
  intro s hs0
  obtain ⟨s', t, h1, h2, h3⟩ := hf
  rw [hs0] at h1; cases h1
  unfold fenced
  rw [List.all_eq_true]
  intro r hr
  by_cases hk : r.key = k
  · have := ((slotInv_of_aget hd hs0).tomb k t h2).1 r hr hk
    simp [hk]; omega
  · simp [hk]

/-- **Tombstones block.**  In any reachable state, after `UnregisterRoute(t, k, q)` is accepted
    (any `q`, including 0), for every continuation `ops` that keeps the authority incarnation of
    the hash slot (no LoseAuthority of it, no BecomeAuthority with another identity), no
    register / commit / touch / anything makes identity `k` active again with OwnerSeq ≤ q. -/
theorem c33_tombstone_blocks (d : Dir) (hd : DirInv d) (t : Target) (k : Key) (q : Nat)
    (hacc : accepts d t = true) (ops : List Op)
    (hkeep : keepsAll t.hs (step d (.unreg t k q)).1 ops) :
    (step d (.unreg t k q)).2 = .ok ∧
    ∀ s, aget t.hs (run (step d (.unreg t k q)).1 ops).slots = some s → fenced s k q = true := by
  rw [accepts_eq_validate] at hacc
  obtain ⟨s0, hv⟩ := Option.isSome_iff_exists.mp hacc
  have hstep : step d (.unreg t k q) = (d.setSlot t.hs (s0.unregister k q), .ok) := by
    simp [step, hv]
  refine ⟨by rw [hstep], ?_⟩
  have hd1 : DirInv (step d (.unreg t k q)).1 := dirInv_step hd _
  have hf : FenceAt (step d (.unreg t k q)).1 t.hs k q := by
    rw [hstep]
    obtain ⟨t', h1, h2⟩ := unregister_sets_tomb s0 k q
    exact ⟨s0.unregister k q, t', by simp [aget_setSlot], h1, h2⟩
  exact fenced_of_fenceAt (dirInv_run hd1 ops) (fenceAt_run ops _ hd1 hf hkeep)

/-- the same, stated from a fresh directory over an arbitrary prefix history -/
theorem c33_tombstone_blocks_run (l : Nat) (pre : List Op) (t : Target) (k : Key) (q : Nat) (ops : List Op)
    (hacc : accepts (run { localNode := l } pre) t = true)
    (hkeep : keepsAll t.hs (step (run { localNode := l } pre) (.unreg t k q)).1 ops) :
    ∀ s, aget t.hs (run { localNode := l } (pre ++ .unreg t k q :: ops)).slots = some s → fenced s k q = true := by
  have := (c33_tombstone_blocks _ (c33_reachable_inv l pre) t k q hacc ops hkeep).2
  simpa [run, List.foldl_append] using this

/-- in every reachable state nothing active or pending sits at or below a tombstone -/
theorem c33_tombstone_invariant (l : Nat) (ops : List Op) :
    ∀ p ∈ (run { localNode := l } ops).slots, TombInv p.2 :=
  fun p hp => (c33_reachable_inv l ops p hp).tomb

section examples
def exT : Target := ⟨0, 1, 1, 1, 1, 0, 0⟩
def exR (seq : Nat) : Route := ⟨[117], 1, 1, seq, 1, [100], 0, 0, [], 100, 0⟩
def exK : Key := ⟨[117], 1, 1, 1⟩

/-- non-vacuity: the fence is real — register at 3, unregister at 3, register again at 3 and
    touch at 2 are refused; a register at 4 is admitted. -/
example : ((run {} [.become exT, .reg exT (exR 3), .unreg exT exK 3, .reg exT (exR 3), .touch exT [exR 2]]).slots.map
    (fun p => p.2.active.length)) = [0] := by decide
example : ((run {} [.become exT, .reg exT (exR 3), .unreg exT exK 3, .reg exT (exR 4)]).slots.map
    (fun p => p.2.active.map (·.seq))) = [[4]] := by decide
/-- sequence 0 (the case repaired in a206b97b6): unregister at 0 now fences a register at 0 -/
example : ((run {} [.become exT, .reg exT (exR 0), .unreg exT exK 0, .reg exT (exR 0)]).slots.map
    (fun p => (p.2.active.length, p.2.tomb))) = [(0, [(exK, 0)])] := by decide
example : keepsAll 0 (run {} [.become exT, .reg exT (exR 3), .unreg exT exK 3]) [.reg exT (exR 3), .touch exT [exR 2]] :=
  ⟨rfl, rfl, trivial⟩
/-- the incarnation side condition is needed: a new authority identity starts without tombstones -/
example : ((run {} [.become exT, .unreg exT exK 3, .lose 0, .become exT, .reg exT (exR 3)]).slots.map
    (fun p => p.2.active.length)) = [1] := by decide
end examples

/-! ### 3. TTL expiry removes exactly the routes idle for longer than the TTL -/

/-- **Expiry is exact.**  In any state satisfying the invariant (hence any reachable state), one
    `ExpireRoutesDetailed(now, ttl)` pass leaves in every slot exactly the routes that are *not*
    (`seen ≠ 0` and `seen·1e9 + ttl < now`), in their previous order; touches nothing else
    (target, pending, owner sequences, tombstones, token counter); keeps the index exact; and
    reports exactly the number of removed routes.  With `ttl ≤ 0` or the zero time nothing changes.
    The bucket heap walk (`expireLoop`) is thereby equal to the filter specification. -/
theorem c33_expire_exact (d : Dir) (hd : DirInv d) (nz : Bool) (now ttl : Int) :
    (∀ hs s, aget hs d.slots = some s →
      ∃ s', aget hs (step d (.expire nz now ttl)).1.slots = some s' ∧
        s'.active = expireSpec nz now ttl s.active ∧ Frame s s' ∧ SlotIdx s') ∧
    (step d (.expire nz now ttl)).1.slots.map (·.1) = d.slots.map (·.1) ∧
    (∃ r, (step d (.expire nz now ttl)).2 = .expired r ∧
      r.expired = (d.slots.map (fun p => p.2.active.length - (expireSpec nz now ttl p.2.active).length)).sum ∧
      (step d (.expire nz now ttl)).1.expiredTotal = d.expiredTotal + r.expired) := by
  refine ⟨?_, ?_, ?_⟩
  · intro hs s hs0
    simp only [step, expireSlots_fst]
    have hm := aget_map_snd (fun s : Slot => (s.expire nz now ttl).1) hs d.slots
    rw [hm, hs0]
    obtain ⟨g1, g2, g3, _⟩ := slot_expire_exact s (slotInv_of_aget hd hs0).idx nz now ttl
    exact ⟨_, rfl, g1, g3, g2⟩
  · simp only [step, expireSlots_fst, List.map_map]
    rfl
  · refine ⟨(expireSlots nz now ttl d.slots).2, rfl, ?_, rfl⟩
    rw [expireSlots_expired]
    congr 1
    apply List.map_congr_left
    intro p hp
    obtain ⟨_, _, _, g4⟩ := slot_expire_exact p.2 (hd p hp).idx nz now ttl
    omega

/-- lifted to all histories from a fresh directory -/
theorem c33_expire_exact_run (l : Nat) (ops : List Op) (nz : Bool) (now ttl : Int) :
    ∀ hs s, aget hs (run { localNode := l } ops).slots = some s →
      ∃ s', aget hs (run { localNode := l } (ops ++ [.expire nz now ttl])).slots = some s' ∧
        s'.active = expireSpec nz now ttl s.active := by
  intro hs s h
  obtain ⟨s', h1, h2, _⟩ := (c33_expire_exact _ (c33_reachable_inv l ops) nz now ttl).1 hs s h
  exact ⟨s', by simpa [run, List.foldl_append] using h1, h2⟩

/-- non-vacuity: routes seen at 100 and 105, ttl 5 s: at now = 105 s + 1 ns only the first is
    older than the ttl (100+5 < 105.000000001), the second is not; at exactly 105 s none is. -/
example : ((run {} [.become exT, .reg exT (exR 1), .reg exT ⟨[118], 1, 1, 1, 2, [101], 1, 0, [], 100, 105⟩,
      .expire false 105000000001 5000000000]).slots.map (fun p => p.2.active.map (·.uid))) = [[[118]]] := by decide
example : ((run {} [.become exT, .reg exT (exR 1), .expire false 105000000000 5000000000]).slots.map
    (fun p => p.2.active.length)) = [1] := by decide

/-! ### 4. lookups return each user's routes in a deterministic order -/

/-- **Lookup order.**  For a slot satisfying the invariant, `EndpointsByUID(uid)` returns exactly
    the active routes of `uid` (a permutation of the filter, each once), strictly ascending in
    `lessIdentityKey`; and it is the only such arrangement, so the result does not depend on the
    order in which Go's map iteration enumerates the routes. -/
theorem c33_lookup_sorted (s : Slot) (h : SlotIdx s) (uid : Str) :
    RSorted (s.endpoints uid) ∧
    (s.endpoints uid).Perm (s.active.filter (fun r => r.uid = uid)) ∧
    (∀ l : List Route, l.Perm (s.active.filter (fun r => r.uid = uid)) → sortRoutes l = s.endpoints uid) := by
  have hnd : ((s.active.filter (fun r => r.uid = uid)).map Route.key).Nodup :=
    List.Nodup.sublist (List.Sublist.map _ List.filter_sublist) h.nodup
  refine ⟨sortRoutes_sorted hnd, sortRoutes_perm _, ?_⟩
  intro l hl
  exact sortRoutes_unique hl ((hl.map Route.key).nodup_iff.mpr hnd)

/-- directory level, every reachable state: an accepted `EndpointsByUIDs` answers with the
    per-uid sorted route lists concatenated in the caller's uid order, and changes nothing -/
theorem c33_lookup_sorted_run (l : Nat) (ops : List Op) (t : Target) (uids : List Str)
    (hacc : accepts (run { localNode := l } ops) t = true) :
    ∃ s, aget t.hs (run { localNode := l } ops).slots = some s ∧ SlotIdx s ∧
      step (run { localNode := l } ops) (.eps t uids) =
        (run { localNode := l } ops, .routes (uids.flatMap s.endpoints)) ∧
      ∀ uid ∈ uids, RSorted (s.endpoints uid) := by
  rw [accepts_eq_validate] at hacc
  obtain ⟨s, hv⟩ := Option.isSome_iff_exists.mp hacc
  have hs := (validate_some hv).1
  have hinv := slotInv_of_aget (c33_reachable_inv l ops) hs
  exact ⟨s, hs, hinv.idx, by simp [step, hv], fun uid _ => (c33_lookup_sorted s hinv.idx uid).1⟩

/-- non-vacuity: three sessions of one user registered out of order come back by session id -/
example : (match (step (run {} [.become exT,
      .reg exT ⟨[117], 2, 1, 1, 3, [100], 0, 0, [], 100, 0⟩,
      .reg exT ⟨[117], 1, 1, 1, 1, [101], 1, 0, [], 100, 0⟩,
      .reg exT ⟨[117], 1, 1, 1, 2, [102], 2, 0, [], 100, 0⟩]) (.ep exT [117])).2 with
    | .routes rs => rs.map (·.sess)
    | _ => []) = [1, 2, 3] := by decide

/-! ### 5. T tie: the owner-sequence / tombstone guards as written in directory.go

  `WK.Gen.C33` is regenerated from the Go source on every run (extract/c33.go): the comparison
  operator and the use of the map-presence flag of every guard at the three admission sites
  (registerLocked, commitRouteLocked, touchLocked) and of the four statements of UnregisterRoute.
  The theorems below say that the guards so spelled are, for all inputs, the ones the model
  executes — so an edited operator (`<=` → `<`), a dropped `ok &&` or `!ok ||` breaks a proof. -/

section source
open WK.Gen.C33

/-- meaning of a source comparison operator on owner sequences (uint64 as Nat) -/
def cmpEval : Cmp → Nat → Nat → Bool
  | .lt, a, b => decide (a < b)
  | .le, a, b => decide (a ≤ b)
  | .gt, a, b => decide (a > b)
  | .ge, a, b => decide (a ≥ b)
  | .eq, a, b => decide (a = b)
  | .ne, a, b => decide (a ≠ b)

/-- meaning of `ok && c` / `!ok || c` / `c` -/
def okGuard : OkUse → Bool → Bool → Bool
  | .and, present, c => present && c
  | .ornot, present, c => !present || c
  | .none, _, c => c

/-- the staleness test of one call site exactly as the source spells it:
    `tombstone, ok := s.tombstoneSeq[key]` (0 when absent), then the two `if`s -/
def staleSrc (tombOk : OkUse) (tombCmp seqCmp : Cmp) (s : Slot) (k : Key) (seq : Nat) : Bool :=
  okGuard tombOk (aget k s.tomb).isSome (cmpEval tombCmp seq ((aget k s.tomb).getD 0)) ||
  cmpEval seqCmp seq (getSeq k s.ownerSeq)

/-- the tombstone store of `UnregisterRoute` as the source spells it -/
def tombAfterSrc (m : List (Key × Nat)) (k : Key) (seq : Nat) : List (Key × Nat) :=
  if okGuard unregStoreOk (aget k m).isSome (cmpEval unregStoreCmp seq ((aget k m).getD 0)) then aset k seq m else m

theorem c33_src_stale_guards (s : Slot) (k : Key) (seq : Nat) :
    staleSrc registerTombOk registerTombCmp registerSeqCmp s k seq = s.staleFor k seq ∧
    staleSrc commitTombOk commitTombCmp commitSeqCmp s k seq = s.staleFor k seq ∧
    staleSrc touchTombOk touchTombCmp touchSeqCmp s k seq = s.staleFor k seq := by
  unfold staleSrc Slot.staleFor
  cases aget k s.tomb <;>
    simp [registerTombOk, registerTombCmp, registerSeqCmp, commitTombOk, commitTombCmp, commitSeqCmp,
      touchTombOk, touchTombCmp, touchSeqCmp, cmpEval, okGuard]

theorem c33_src_unregister (s : Slot) (k : Key) (seq : Nat) :
    tombAfterSrc s.tomb k seq = tombAfter s.tomb k seq ∧
    (s.unregSeq k seq).ownerSeq = (if cmpEval unregSeqCmp seq (getSeq k s.ownerSeq) then aset k seq s.ownerSeq else s.ownerSeq) ∧
    s.unregActive k seq = (if okGuard unregActiveOk (findA k s.active).isSome
        (cmpEval unregActiveCmp ((findA k s.active).getD default).seq seq) then s.removeActive k else s) ∧
    (s.unregPending k seq).pending = s.pending.filter (fun p => !(p.route.key = k && cmpEval unregPendingCmp p.route.seq seq)) := by
  refine ⟨?_, ?_, ?_, ?_⟩
  · unfold tombAfterSrc tombAfter
    cases aget k s.tomb <;> simp [unregStoreOk, unregStoreCmp, cmpEval, okGuard]
  · simp [Slot.unregSeq, unregSeqCmp, cmpEval]
  · unfold Slot.unregActive
    cases findA k s.active <;> simp [unregActiveOk, unregActiveCmp, cmpEval, okGuard]
  · simp [Slot.unregPending, unregPendingCmp, cmpEval]

/-- consequence stated on the source operators: whatever passes the register / commit / touch
    guards of directory.go is strictly above the tombstone, and an unregister at `seq` leaves a
    tombstone ≥ seq — the two facts the fence theorem rests on -/
theorem c33_src_guards_fence (s : Slot) (k : Key) (seq : Nat) :
    (staleSrc registerTombOk registerTombCmp registerSeqCmp s k seq = false → ∀ t, aget k s.tomb = some t → t < seq) ∧
    (staleSrc commitTombOk commitTombCmp commitSeqCmp s k seq = false → ∀ t, aget k s.tomb = some t → t < seq) ∧
    (staleSrc touchTombOk touchTombCmp touchSeqCmp s k seq = false → ∀ t, aget k s.tomb = some t → t < seq) ∧
    (∃ t, aget k (tombAfterSrc s.tomb k seq) = some t ∧ seq ≤ t) := by
  obtain ⟨h1, h2, h3⟩ := c33_src_stale_guards s k seq
  refine ⟨fun h => staleFor_false (h1 ▸ h), fun h => staleFor_false (h2 ▸ h), fun h => staleFor_false (h3 ▸ h), ?_⟩
  rw [(c33_src_unregister s k seq).1]
  obtain ⟨t, g1, g2, _⟩ := tombAfter_get s.tomb k seq
  exact ⟨t, g1, g2⟩

theorem c33_src_registry_rejects_zero_session : registryRejectsZeroSession = true := rfl


/-- non-vacuity: with a tombstone at 3 the source guard refuses 3 and admits 4; without a
    tombstone only the owner-sequence comparison applies; the first unregister stores at 0 too -/
example : staleSrc registerTombOk registerTombCmp registerSeqCmp { target := exT, tomb := [(exK, 3)] } exK 3 = true := by decide
example : staleSrc registerTombOk registerTombCmp registerSeqCmp { target := exT, tomb := [(exK, 3)] } exK 4 = false := by decide
example : staleSrc touchTombOk touchTombCmp touchSeqCmp { target := exT, ownerSeq := [(exK, 5)] } exK 4 = true := by decide
example : tombAfterSrc [] exK 0 = [(exK, 0)] := by decide
example : tombAfterSrc [(exK, 5)] exK 4 = [(exK, 5)] := by decide

end source

/-! ### 6. activity is monotone under touch (the judge's `viol:touch-activity-regressed`) -/

theorem normalize_seen_of_ne {r : Route} (h : r.seen ≠ 0) : (normalize r).seen = r.seen := by
  unfold normalize; simp [h]

theorem normalize_seen_of_zero {r : Route} (h : r.seen = 0) : (normalize r).seen = r.conn := by
  unfold normalize; simp [h]

/-- **A touch never lowers the recorded activity second** of a route that stays active (for
    non-negative connect times): TTL idleness is measured from the latest observed activity. -/
theorem c33_touch_activity_monotone (s : Slot) (h : SlotIdx s) (r e : Route)
    (he : findA r.key s.active = some e) (hconn : 0 ≤ r.conn) :
    ∀ r' ∈ (s.touch r).active, r'.key = r.key → e.seen ≤ r'.seen := by
  obtain ⟨hem, hek⟩ := findA_some he
  have same : ∀ r' ∈ s.active, r'.key = r.key → e.seen ≤ r'.seen := by
    intro r' hr' hk
    have : r' = e := nodup_key_unique h.nodup hr' hem (hk.trans hek.symm)
    subst this; exact Int.le_refl _
  intro r' hr' hk
  unfold Slot.touch at hr'
  split at hr'
  · exact same r' hr' hk
  · simp only at hr'
    split at hr'
    · exact same r' hr' hk
    · simp only [normalize_key, he] at hr'
      have hxk : (if (normalize r).seen < e.seen then (normalize r).withSeen e.seen else normalize r).key = r.key := by
        split <;> simp
      have hxs : e.seen ≤ (normalize (if (normalize r).seen < e.seen then (normalize r).withSeen e.seen else normalize r)).seen := by
        split
        · by_cases h0 : e.seen = 0
          · rw [normalize_seen_of_zero (by simp [Route.withSeen, h0])]
            have : ((normalize r).withSeen e.seen).conn = r.conn := by
              simp only [Route.withSeen]; unfold normalize; split <;> rfl
            rw [this, h0]; exact hconn
          · rw [normalize_seen_of_ne (by simpa [Route.withSeen] using h0)]
            simp [Route.withSeen]
        · rename_i hge
          have hge' : e.seen ≤ (normalize r).seen := by omega
          by_cases h0 : (normalize r).seen = 0
          · rw [normalize_seen_of_zero h0]
            have : (normalize r).conn = r.conn := by unfold normalize; split <;> rfl
            rw [this]; omega
          · rw [normalize_seen_of_ne h0]; exact hge'
      generalize (if (normalize r).seen < e.seen then (normalize r).withSeen e.seen else normalize r) = x at hr' hxk hxs
      rw [upsert_active] at hr'
      rcases List.mem_append.mp hr' with hr' | hr'
      · have := (mem_delA.mp hr').2
        rw [normalize_key, hxk] at this
        exact absurd hk this
      · simp at hr'; subst hr'; exact hxs

/-- non-vacuity: a touch carrying an older activity second (100) keeps the stored one (120) -/
example : ((run {} [.become exT, .reg exT ⟨[117], 1, 1, 1, 1, [100], 0, 0, [], 90, 120⟩,
      .touch exT [⟨[117], 1, 1, 1, 1, [100], 0, 0, [], 90, 100⟩]]).slots.map (fun p => p.2.active.map (·.seen))) = [[120]] := by decide

end WK.C33

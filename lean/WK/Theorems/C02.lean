import WK.Proofs.Repl_Store
import WK.Model.ReplDrv
import WK.Proofs.C03_Ledger
/-
  C02 — replica logs agree on every committed offset.
  Theorems about the stores of the model the C02 driver executes, for ALL operation
  sequences (install with any responder sets, recovery page replacement, commits with any
  per-voter answers incl. exact replays, crash, restart):

    c02_store_inv        every replica's log is one unbroken proposal chain from offset 0,
                         and committed ≤ LEO                       (reachable states)
    c02_chain            … hence every entry's (prevIndex, prevTerm, prevDigest) is its
                         predecessor's (index, term, digest) and index = position
    c02_committed_le_leo / c02_committed_mono
    c02_agree_counterexample   agreement itself is FALSE on the model (as on the code):
                         it inherits the C01 gap (DESIGN §8.1) — decided witness.
  `c02_agree` under FullHolders is NOT proved (see props/C02.json).
-/
namespace WK.C02
open WK WK.Repl

theorem storeInv_empty : StoreInv Store.empty := ⟨ChainP.nil, Nat.le_refl _⟩

def AllInv (s : Sys) : Prop := ∀ v, StoreInv (s.storeOf v)

theorem node?_mkNodes_store (fr : Bool) : ∀ (n k : Nat) (nd : NodeSt), (mkNodes fr n)[k]? = some nd → nd.store = ⟨[], 0, fr⟩ := by
  intro n
  induction n with
  | zero => intro k nd h; simp [mkNodes] at h
  | succ n ih =>
    intro k nd h
    cases k with
    | zero => simp [mkNodes] at h; subst h; rfl
    | succ k => simp [mkNodes] at h; exact ih k nd h

theorem storeInv_empty' (fr : Bool) : StoreInv ⟨[], 0, fr⟩ := ⟨ChainP.nil, Nat.le_refl _⟩

theorem allInv_init (n q cap : Nat) (st : Bool) (fr : Bool := false) : AllInv { Sys.init n q cap fr with started := st } := by
  intro v
  unfold Sys.storeOf Sys.node?
  by_cases hv : v = 0
  · simp [hv]; exact storeInv_empty
  · simp only [hv, if_false]
    cases h : (mkNodes fr n)[v - 1]? with
    | none => simp [Sys.init, h]; exact storeInv_empty
    | some nd => simp [Sys.init, h]; rw [node?_mkNodes_store fr n (v - 1) nd h]; exact storeInv_empty' fr

/-- a non-`cfg` op first marks the history as started and then runs on the same stores -/
theorem step_started (s : Sys) (op : Op) (h : ∀ n q c fr, op ≠ .cfg n q c fr) :
    step s op = step { s with started := true } op := by
  cases op with
  | cfg n q c fr => exact absurd rfl (h n q c fr)
  | crash i => rfl
  | restart i => rfl
  | repair l f nf => rfl
  | install i a ps acks => rfl
  | commit i e c k p acks => rfl

/-- **c02_store_inv** — one step keeps "every replica log is an unbroken proposal chain and
    committed ≤ LEO", for every op, every responder / ack script. -/
theorem c02_store_inv_step (s : Sys) (op : Op) (h : AllInv s) : AllInv (step s op).1 := by
  by_cases hc : ∃ n q c fr, op = .cfg n q c fr
  · obtain ⟨n, q, c, fr, rfl⟩ := hc
    simp only [step]
    split
    · exact h
    · exact allInv_init n q c true fr
  · have hne : ∀ n q c fr, op ≠ .cfg n q c fr := fun n q c fr e => hc ⟨n, q, c, fr, e⟩
    rw [step_started s op hne]
    have h' : AllInv { s with started := true } := h
    intro v
    exact step_stores invRel_rel { s with started := true } op rfl v (h' v)

def runS (s : Sys) (ops : List Op) : Sys := ops.foldl (fun s o => (step s o).1) s

theorem c02_store_inv (ops : List Op) : AllInv (runS Sys.default ops) := by
  suffices h : ∀ s, AllInv s → AllInv (runS s ops) from h _ (allInv_init 3 2 2 false)
  induction ops with
  | nil => intro s h; exact h
  | cons op ops ih => intro s h; exact ih _ (c02_store_inv_step s op h)

/-- **c02_committed_le_leo** — in every reachable state every replica's committed watermark is
    at most its log end. -/
theorem c02_committed_le_leo (ops : List Op) (v : Nat) :
    ((runS Sys.default ops).storeOf v).hw ≤ ((runS Sys.default ops).storeOf v).leo :=
  (c02_store_inv ops v).hw_le

/-- **c02_committed_mono** — no operation (commit with any answers, exact replay, install with
    recovery page replacement — interrupted or not —, crash, restart) moves any replica's
    committed watermark backwards. -/
theorem c02_committed_mono (s : Sys) (op : Op) (h : ∀ n q c fr, op ≠ .cfg n q c fr) (v : Nat) :
    (s.storeOf v).hw ≤ ((step s op).1.storeOf v).hw := by
  rw [step_started s op h]
  exact step_stores hwMono_rel { s with started := true } op rfl v

/-! ### entry-level chain -/

/-- `ECh x es y`: starting after an entry with (index, term, digest) = x, the entries `es` are
    consecutive, each naming its predecessor exactly, and end with (index, term, digest) = y -/
inductive ECh : Nat × Nat × Dig → List Ident → Nat × Nat × Dig → Prop
  | nil (x) : ECh x [] x
  | cons (i t : Nat) (d : Dig) (e : Ident) (es : List Ident) (y) :
      e.index = i + 1 → e.prevIndex = i → e.prevTerm = t → e.prevDigest = d →
      ECh (e.index, e.a.term, e.digest) es y → ECh (i, t, d) (e :: es) y

theorem ECh.append {x y z} {es es' : List Ident} (h1 : ECh x es y) (h2 : ECh y es' z) : ECh x (es ++ es') z := by
  induction h1 with
  | nil => exact h2
  | cons i t d e es y a b c d' _ ih => exact ECh.cons i t d e _ z a b c d' (ih h2)

theorem deriveFrom_ech (a : AuthId) (cmd : Cmd) : ∀ (cs : List Nat) (idx pt pi : Nat) (pd : Dig), idx = pi + 1 → cs ≠ [] →
    ECh (pi, pt, pd) (deriveFrom a cmd idx pt pi pd cs)
      ((lastIdent (deriveFrom a cmd idx pt pi pd cs)).index, a.term, (lastIdent (deriveFrom a cmd idx pt pi pd cs)).digest) ∧
    (lastIdent (deriveFrom a cmd idx pt pi pd cs)).index = pi + cs.length := by
  intro cs
  induction cs with
  | nil => intro _ _ _ _ _ h; exact absurd rfl h
  | cons c cs ih =>
    intro idx pt pi pd hidx _
    cases cs with
    | nil =>
      simp only [deriveFrom, lastIdent, List.length_cons, List.length_nil]
      exact ⟨ECh.cons pi pt pd _ [] _ hidx rfl rfl rfl (ECh.nil _), by omega⟩
    | cons c2 cs2 =>
      have := ih (idx + 1) a.term idx (Dig.mk a idx pt pi cmd pd c) rfl (by simp)
      simp only [deriveFrom, lastIdent] at this ⊢
      refine ⟨ECh.cons pi pt pd _ _ _ hidx rfl rfl rfl this.1, ?_⟩
      have h2 := this.2
      simp only [List.length_cons] at h2 ⊢
      omega

/-- entries of one well-formed proposal chain on from its declared predecessor -/
theorem wf_ech {p : PRec} (h : p.WF) :
    ECh (p.m.base, p.m.prevTerm, p.m.prevDigest) p.entries (p.m.last, p.m.a.term, p.m.digest) ∧
    (p.m.base = 0 → p.m.prevTerm = 0 ∧ p.m.prevDigest = .zero) := by
  obtain ⟨h1, h2, h3⟩ := h
  unfold deriveEntries at h2
  split at h2
  · cases h2
  · rename_i hg
    simp only [not_or, Decidable.not_not] at hg
    have hne : p.contents ≠ [] := by intro e; rw [e] at hg; simp at hg
    have key : ∀ es, es = deriveFrom p.m.a p.m.cmd (p.m.base + 1) p.m.prevTerm p.m.prevIndex p.m.prevDigest p.contents →
        p.entries = es →
        ECh (p.m.base, p.m.prevTerm, p.m.prevDigest) p.entries (p.m.last, p.m.a.term, p.m.digest) := by
      intro es he hpe
      have := deriveFrom_ech p.m.a p.m.cmd p.contents (p.m.base + 1) p.m.prevTerm p.m.prevIndex p.m.prevDigest
        (by rw [hg.2.2.2.2.2.2]) hne
      rw [← he, ← hpe] at this
      rw [h3, this.2, hg.2.2.2.2.2.2, ← hg.2.2.2.2.2.1] at this
      exact this.1
    split at h2
    · split at h2
      · cases h2
      · rename_i hb hz
        simp only [not_or, Decidable.not_not] at hz
        exact ⟨key _ rfl (Option.some.inj h2).symm, fun _ => hz⟩
    · split at h2
      · cases h2
      · rename_i hb _
        exact ⟨key _ rfl (Option.some.inj h2).symm, fun e => absurd e hb⟩

def entriesAsc (l : List PRec) : List Ident := (l.reverse.map (·.entries)).flatten

theorem entriesAsc_cons (p : PRec) (l : List PRec) : entriesAsc (p :: l) = entriesAsc l ++ p.entries := by
  simp [entriesAsc]

def chainEnd : List PRec → Nat × Nat × Dig
  | [] => (0, 0, .zero)
  | p :: _ => (p.m.last, p.m.a.term, p.m.digest)

theorem chain_ech {l : List PRec} (h : ChainP l) : ECh (0, 0, .zero) (entriesAsc l) (chainEnd l) := by
  induction h with
  | nil => exact ECh.nil _
  | one p hwf hb =>
    have := wf_ech hwf
    rw [entriesAsc_cons]
    simp only [entriesAsc, List.reverse_nil, List.map_nil, List.flatten_nil, List.nil_append, chainEnd]
    have hz := this.2 hb
    rw [hb, hz.1, hz.2] at this
    exact this.1
  | cons p q rest hwf hb ht hd _ ih =>
    rw [entriesAsc_cons]
    have := (wf_ech hwf).1
    rw [hb, ht, hd] at this
    exact ECh.append ih this

/-- **c02_chain** — in every reachable state every replica's log, read in offset order, is an
    unbroken predecessor hash chain from the empty log: entry k has index k and names exactly
    the (index, term, digest) of entry k-1. -/
theorem c02_chain (ops : List Op) (v : Nat) :
    ECh (0, 0, .zero) ((runS Sys.default ops).storeOf v).allEntries (chainEnd ((runS Sys.default ops).storeOf v).props) :=
  chain_ech (c02_store_inv ops v).chain

/-- non-vacuity: a reachable state with a 3-entry log on voter 2 (two proposals, the first a
    2-record one), for which c02_chain is not trivially about the empty list -/
example : ((runS Sys.default [.install 1 ⟨⟨1, 1, 1⟩, 2, false⟩ [.all, .all, .all] [.D, .D, .D],
      .commit 1 ⟨1, 1, 1⟩ 1 2 0 [.D, .D, .X], .commit 1 ⟨1, 1, 1⟩ 2 1 0 [.D, .D, .D]]).storeOf 2).allEntries.length = 3 ∧
    ((runS Sys.default [.install 1 ⟨⟨1, 1, 1⟩, 2, false⟩ [.all, .all, .all] [.D, .D, .D],
      .commit 1 ⟨1, 1, 1⟩ 1 2 0 [.D, .D, .X], .commit 1 ⟨1, 1, 1⟩ 2 1 0 [.D, .D, .D]]).storeOf 2).hw = 2 := by decide

/-! ### agreement is false on the model (and on the code): the C01 gap -/

/-- the C02 extension of the §8.1 history: voter 1 has entry e1 committed (committed = 1 was
    carried by an unacknowledged second proposal), goes away; voter 2 installs with responders
    {2,3}, drops e1, and two new commits make e1' committed at offset 1 on voters 2 and 3. -/
def witness : List Op :=
  [.install 1 ⟨⟨1, 1, 1⟩, 2, false⟩ [.all, .all, .all] [.D, .D, .D],
   .commit 1 ⟨1, 1, 1⟩ 1 1 0 [.D, .D, .X],
   .commit 1 ⟨1, 1, 1⟩ 2 1 0 [.D, .X, .X],
   .crash 1,
   .install 2 ⟨⟨1, 2, 1⟩, 2, false⟩ [.none, .all, .all] [.D, .D, .D],
   .commit 2 ⟨1, 2, 1⟩ 3 1 0 [.D, .D, .D],
   .commit 2 ⟨1, 2, 1⟩ 4 1 0 [.D, .D, .D]]

/-- **c02_agree_counterexample** — "any two replicas hold the same entry at every offset ≤ both
    committed watermarks" is false in a reachable state of the model (and of the real code: the
    same history is replayed by corpus/C02/witness.ops). -/
theorem c02_agree_counterexample :
    let s := runS Sys.default witness
    1 ≤ (s.storeOf 1).hw ∧ 1 ≤ (s.storeOf 3).hw ∧ (s.storeOf 1).entryAt 1 ≠ (s.storeOf 3).entryAt 1 ∧
    ((s.storeOf 1).entryAt 1).isSome ∧ ((s.storeOf 3).entryAt 1).isSome := by decide

end WK.C02

/-! ## phase 3 additions -/
namespace WK.C02
open WK WK.Repl

/-- committed proposals persist, and the watermark does not regress -/
def CommittedKept (a b : Store) : Prop := a.hw ≤ b.hw ∧ ∀ p ∈ a.props, p.m.last ≤ a.hw → p ∈ b.props

theorem appendAll_appendOnly (ps : List PRec) : ∀ (s next : Store), appendAll s ps = some next → AppendOnly s next := by
  induction ps with
  | nil => intro s next e; change some s = some next at e; cases e; exact fun p hp => hp
  | cons p ps ih =>
    intro s next e
    simp only [appendAll] at e
    have hc := appendExact_appendOnly s p.m p.contents
    generalize s.appendExact p.m p.contents = r at hc e
    obtain ⟨s', out⟩ := r
    cases out with
    | durable => exact fun q hq => ih s' next e q (hc q hq)
    | already => exact fun q hq => ih s' next e q (hc q hq)
    | notWritten => cases e
    | conflict nf => cases e

theorem replace_committedKept (s : Store) (e : RState) (k : Nat) (ps : List PRec) (c : Nat) (s' : Store)
    (h : s.replace e k ps c = .ok s') : CommittedKept s s' := by
  refine ⟨replace_hw_le s e k ps c s' h, ?_⟩
  unfold Store.replace at h
  split at h
  · cases h
  · split at h
    · cases h
    · split at h
      · cases h
      · split at h
        · cases h
        · rename_i cur hl
          split at h
          · cases h
          · rename_i hg
            split at h
            · cases h
            · dsimp only at h
              split at h
              · cases h
              · rename_i next ha
                cases h
                intro p hp hle
                have hcom := (load_committed hl).1
                simp only [not_or, Nat.not_lt] at hg
                have hk : p ∈ (Store.mk (s.props.filter (fun p => p.m.last ≤ k)) s.hw s.fresh).props := by
                  simp only [List.mem_filter, decide_eq_true_eq]
                  exact ⟨hp, by omega⟩
                exact appendAll_appendOnly ps _ next ha p hk

theorem committedKept_rel : StoreRel CommittedKept :=
  ⟨fun _ => ⟨Nat.le_refl _, fun _ hp _ => hp⟩,
   fun a b c h1 h2 => ⟨Nat.le_trans h1.1 h2.1, fun p hp hle => h2.2 p (h1.2 p hp hle) (by have := h1.1; omega)⟩,
   fun s m cs c => ⟨sync_hw_le s m cs c, fun p hp _ => sync_appendOnly s m cs c p hp⟩,
   replace_committedKept⟩

/-- **c02_committed_prefix_stable** — NO operation, recovery's suffix replacement included, removes
    from a replica a proposal that lies at or below that replica's committed watermark (the store
    fence "refuses cuts below committed", for every responder set and every interleaving). -/
theorem c02_committed_prefix_stable (s : Sys) (op : Op) (h : ∀ n q c fr, op ≠ .cfg n q c fr) (v : Nat) :
    ∀ p ∈ (s.storeOf v).props, p.m.last ≤ (s.storeOf v).hw → p ∈ ((step s op).1.storeOf v).props := by
  rw [step_started s op h]
  exact (step_stores committedKept_rel { s with started := true } op rfl v).2

/-- non-vacuity: in the C02 witness voter 1 keeps its committed entry through every later op -/
example : ((runS Sys.default witness).storeOf 1).hw = 1 ∧ ((runS Sys.default witness).storeOf 1).props.length = 2 := by decide

end WK.C02

import WK.Proofs.C26_Header
/-
  C26 — Node transport frames and RPC responses are correctly correlated.

  Part 1: the header codec.  `WK.Gen.C26.encodeHeader/decodeHeader/kindValid/
  priorityValid/bodyExceedsMax` and the ReadFrame step list are regenerated
  from pkg/transport/wire/{frame,reader}.go and internal/core/types.go on every
  run, so these theorems are re-proved against the code as it is now.
-/
namespace WK.C26
open WK.Gen.C26

/-- the regenerated guards are exactly the documented ranges (kinds 1..5, priorities 1..4) -/
theorem c26_valid_ranges : (∀ k, kindValid k = kindOK k) ∧ (∀ p, priorityValid p = priorityOK p) := by
  constructor <;> intro x <;> rw [Bool.eq_iff_iff] <;>
    simp [kindValid, priorityValid, kindOK, priorityOK, FrameKindData, FrameKindControl, PriorityRaft, PriorityBulk] <;>
    intro _ <;> exact decide_eq_true_iff

/-- `maxBodyBytes` is a Go `int` (64-bit) -/
def GoInt (max : Int) : Prop := -(2 ^ 63) ≤ max ∧ max < 2 ^ 63

theorem bodyExceedsMax_iff (b : Nat) (max : Int) (hb : b < 2 ^ 32) (hm : GoInt max) :
    bodyExceedsMax b max = true ↔ (max < 0 ∨ max < (b : Int)) := by
  unfold bodyExceedsMax GoInt at *
  by_cases h : max < 0
  · simp [h]
  · simp [h]
    omega

/-- **header_roundtrip**: every valid header decodes from its own encoding to itself,
    for every limit that admits its body length. -/
theorem c26_header_roundtrip (h : Header) (max : Int) (hm : GoInt max) (hv : Valid h max) :
    decodeHeader (encodeHeader h) max = .ok h := by
  obtain ⟨hwf, hk, hp, h0, hle⟩ := hv
  obtain ⟨r1, r2, r3, r4, r5, r6, r7, r8, r9⟩ := rd_enc h hwf
  have hb : bodyExceedsMax h.bodyLen max = false := by
    rw [Bool.eq_false_iff]; intro hx
    rw [bodyExceedsMax_iff _ _ hwf.2.2.2.2 hm] at hx
    omega
  obtain ⟨hwk, hwp, _⟩ := hwf
  unfold decodeHeader
  simp [enc_len, r1, r2, r3, r4, r5, r6, r7, r8, r9, c26_valid_ranges.1, c26_valid_ranges.2, hk, hp, hb,
    Nat.mod_eq_of_lt hwk, Nat.mod_eq_of_lt hwp]

/-- the decoder looks at the first `HeaderSize` bytes only -/
theorem decodeHeader_append (a b : Bytes) (max : Int) (ha : a.length = HeaderSize) :
    decodeHeader (a ++ b) max = decodeHeader a max := by
  unfold decodeHeader
  rw [rd_append_left a b headerMagicOffset 2 (by rw [ha]; decide),
      rd_append_left a b headerVersionOffset 1 (by rw [ha]; decide),
      rd_append_left a b headerFlagsOffset 1 (by rw [ha]; decide),
      rd_append_left a b headerReservedOffset 4 (by rw [ha]; decide),
      rd_append_left a b headerKindOffset 1 (by rw [ha]; decide),
      rd_append_left a b headerPriorityOffset 1 (by rw [ha]; decide),
      rd_append_left a b headerServiceIDOffset 2 (by rw [ha]; decide),
      rd_append_left a b headerRequestIDOffset 8 (by rw [ha]; decide),
      rd_append_left a b headerBodyLenOffset 4 (by rw [ha]; decide)]
  have e1 : decide ((a ++ b).length < HeaderSize) = false := by simp [ha]
  have e2 : decide (a.length < HeaderSize) = false := by simp [ha]
  rw [e1, e2]

/-- header_roundtrip on a stream: whatever follows the header does not matter -/
theorem c26_header_roundtrip_stream (h : Header) (rest : Bytes) (max : Int) (hm : GoInt max) (hv : Valid h max) :
    decodeHeader (encodeHeader h ++ rest) max = .ok h := by
  rw [decodeHeader_append _ _ _ (enc_len h), c26_header_roundtrip h max hm hv]

/-- **header_rejects** (soundness of acceptance): if the decoder accepts, then the buffer is
    long enough, magic/version/flags/reserved have their only legal values, the returned
    fields are the ones on the wire, kind and priority are in range and the declared body
    length is within a non-negative limit.  Contrapositive: each single bad field is rejected. -/
theorem c26_header_accepts_only (bs : Bytes) (max : Int) (hm : GoInt max) (h : Header)
    (hd : decodeHeader bs max = .ok h) :
    HeaderSize ≤ bs.length ∧ rd bs headerMagicOffset 2 = Magic ∧ rd bs headerVersionOffset 1 = Version ∧
    rd bs headerFlagsOffset 1 = 0 ∧ rd bs headerReservedOffset 4 = 0 ∧
    h.kind = rd bs headerKindOffset 1 % 2 ^ 8 ∧ h.priority = rd bs headerPriorityOffset 1 % 2 ^ 8 ∧
    h.serviceID = rd bs headerServiceIDOffset 2 ∧ h.requestID = rd bs headerRequestIDOffset 8 ∧
    h.bodyLen = rd bs headerBodyLenOffset 4 ∧
    kindOK h.kind = true ∧ priorityOK h.priority = true ∧ 0 ≤ max ∧ (h.bodyLen : Int) ≤ max := by
  unfold decodeHeader at hd
  simp only [decide_eq_true_eq, Bool.not_eq_true'] at hd
  split at hd; · cases hd
  split at hd; · cases hd
  split at hd; · cases hd
  split at hd; · cases hd
  split at hd; · cases hd
  split at hd; · cases hd
  split at hd; · cases hd
  split at hd; · cases hd
  rename_i hlen hmagic hver hflags hres hkind hprio hbody
  injection hd with hd
  subst hd
  simp only [Bool.not_eq_false, Bool.not_eq_true] at hkind hprio hbody
  have hbl : rd bs headerBodyLenOffset 4 < 2 ^ 32 := rd_lt bs _ 4
  have hb : ¬ (max < 0 ∨ max < (rd bs headerBodyLenOffset 4 : Int)) := fun hx => by
    have := (bodyExceedsMax_iff _ max hbl hm).mpr hx
    rw [hbody] at this; cases this
  rw [c26_valid_ranges.1] at hkind
  rw [c26_valid_ranges.2] at hprio
  refine ⟨by omega, by omega, by omega, by omega, by omega, rfl, rfl, rfl, rfl, rfl, ?_, ?_, by omega, ?_⟩
  · simpa using hkind
  · simpa using hprio
  · show ((rd bs headerBodyLenOffset 4 : Nat) : Int) ≤ max
    omega

/-- **header_rejects**, field by field: a short buffer, a wrong magic, version, flags byte or
    reserved word, a kind outside 1..5, a priority outside 1..4, a negative limit or a declared
    body length above the limit — any one of them makes DecodeHeader return an error. -/
theorem c26_header_rejects (bs : Bytes) (max : Int) (hm : GoInt max)
    (bad : bs.length < HeaderSize ∨ rd bs headerMagicOffset 2 ≠ Magic ∨ rd bs headerVersionOffset 1 ≠ Version ∨
      rd bs headerFlagsOffset 1 ≠ 0 ∨ rd bs headerReservedOffset 4 ≠ 0 ∨
      kindOK (rd bs headerKindOffset 1 % 2 ^ 8) = false ∨ priorityOK (rd bs headerPriorityOffset 1 % 2 ^ 8) = false ∨
      max < 0 ∨ max < (rd bs headerBodyLenOffset 4 : Int)) :
    ∃ e, decodeHeader bs max = .error e := by
  cases hd : decodeHeader bs max with
  | error e => exact ⟨e, rfl⟩
  | ok h =>
    exfalso
    obtain ⟨a1, a2, a3, a4, a5, a6, a7, _, _, a10, a11, a12, a13, a14⟩ := c26_header_accepts_only bs max hm h hd
    rw [a6] at a11; rw [a7] at a12; rw [a10] at a14
    rcases bad with b | b | b | b | b | b | b | b | b
    · omega
    · exact b a2
    · exact b a3
    · exact b a4
    · exact b a5
    · rw [a11] at b; cases b
    · rw [a12] at b; cases b
    · omega
    · omega

/-- which error: the priority guard is the only source of ErrInvalidPriority and the size
    guard the only source of ErrMsgTooLarge (callers branch on these classes). -/
theorem c26_header_error_class (bs : Bytes) (max : Int) (e : Err) (hd : decodeHeader bs max = .error e) :
    (e = .invalidPriority → kindValid (rd bs headerKindOffset 1 % 2 ^ 8) = true ∧
        priorityValid (rd bs headerPriorityOffset 1 % 2 ^ 8) = false) ∧
    (e = .msgTooLarge → bodyExceedsMax (rd bs headerBodyLenOffset 4) max = true) := by
  unfold decodeHeader at hd
  simp only [decide_eq_true_eq, Bool.not_eq_true'] at hd
  split at hd; · cases hd; simp
  split at hd; · cases hd; simp
  split at hd; · cases hd; simp
  split at hd; · cases hd; simp
  split at hd; · cases hd; simp
  split at hd; · cases hd; simp
  split at hd
  · rename_i hk hp
    cases hd
    simp only [Bool.not_eq_false] at hk
    simp [hk, hp]
  split at hd
  · rename_i hb
    cases hd; simp [hb]
  cases hd

/-! ### frame level: reader.go / writer.go -/

/-- extracted fact: in ReadFrame, DecodeHeader's error is checked immediately, nothing is
    acquired before that check, and the body buffer has the validated header's length. -/
theorem c26_alloc_after_validate_src : readFrameAllocAfterValidate = true ∧
    readFrameSteps = ["header-array", "read-header", "DecodeHeader", "check-err", "bodyLenToInt", "check-err",
      "alloc-body", "read-body", "return"] := by decide

/-- **rejected before the body is allocated** (model of ReadFrame): when the header is
    rejected, exactly the header bytes were consumed and no body buffer was requested; and
    whenever a buffer is requested its size is the body length of an accepted header. -/
theorem c26_alloc_after_validate (s : Bytes) (max : Int) :
    (∀ e, (readFrame s max).res = .error (.hdr e) →
        (readFrame s max).alloc = 0 ∧ (readFrame s max).consumed = HeaderSize) ∧
    ((readFrame s max).alloc ≠ 0 →
        ∃ h, decodeHeader (s.take HeaderSize) max = .ok h ∧ (readFrame s max).alloc = h.bodyLen) := by
  unfold readFrame
  split; · simp
  split; · simp
  split
  · simp
  · rename_i h hd
    simp only
    split; · simp
    split; · simp [hd]
    split <;> simp [hd]

/-- **frame roundtrip**: what WriteFrame puts on the wire for a valid header and body is read
    back by ReadFrame as the same header (with BodyLen = len(body)) and the same body, consuming
    exactly the frame and leaving whatever follows unread. -/
theorem c26_frame_roundtrip (h : Header) (body rest : Bytes) (max : Int) (hm : GoInt max)
    (hv : Valid { h with bodyLen := body.length } max) :
    ∃ out, writeFrame h body max = .ok out ∧ out = encodeHeader { h with bodyLen := body.length } ++ body ∧
      (readFrame (out ++ rest) max).res = .ok ({ h with bodyLen := body.length }, body) ∧
      (readFrame (out ++ rest) max).consumed = out.length := by
  have hv' := hv
  obtain ⟨hwf, hk, hp, h0, hle⟩ := hv
  have hbl : body.length < 2 ^ 32 := hwf.2.2.2.2
  have hb : bodyExceedsMax body.length max = false := by
    rw [Bool.eq_false_iff]; intro hx
    rw [bodyExceedsMax_iff _ _ hbl hm] at hx
    simp only at hle
    omega
  simp only at hk hp hle
  refine ⟨_, ?_, rfl, ?_, ?_⟩
  · unfold writeFrame
    have h1 : ¬ ((body.length : Int) > max) := by omega
    have h2 : ¬ (body.length > 4294967295) := by omega
    simp [h1, h2, c26_valid_ranges.1, c26_valid_ranges.2, hk, hp, hb]
  all_goals
    have hl := enc_len { h with bodyLen := body.length }
    have hs : HeaderSize = 24 := rfl
    have htake : (encodeHeader { h with bodyLen := body.length } ++ body ++ rest).take HeaderSize
        = encodeHeader { h with bodyLen := body.length } := by
      rw [List.append_assoc, List.take_append_of_le_length (by omega), List.take_of_length_le (by omega)]
    have hdrop : (encodeHeader { h with bodyLen := body.length } ++ body ++ rest).drop HeaderSize = body ++ rest := by
      rw [List.append_assoc, List.drop_append_of_le_length (by omega), List.drop_of_length_le (by omega)]
      rfl
    unfold readFrame
    rw [htake, hdrop, c26_header_roundtrip _ max hm hv']
    have hne : ¬ ((encodeHeader { h with bodyLen := body.length } ++ body ++ rest).length = 0) := by
      simp [hl, hs]
    have hge : ¬ ((encodeHeader { h with bodyLen := body.length } ++ body ++ rest).length < HeaderSize) := by
      simp [hl, hs]
    simp only [hne, hge, if_false]
    by_cases hz : body.length = 0
    · have : body = [] := List.eq_nil_of_length_eq_zero hz
      subst this
      simp [enc_len]
    · have h3 : ¬ ((body ++ rest).length = 0) := by
        intro hx; rw [List.length_append] at hx; omega
      have h4 : ¬ (body.length + rest.length < body.length) := by omega
      simp [hz, h4, hl]

-- non-vacuity
example : Valid ⟨3, 3, 42, 99, 1234⟩ 4096 := by decide
example : GoInt 4096 := by unfold GoInt; omega
example : decodeHeader (encodeHeader ⟨3, 3, 42, 99, 1234⟩) 4096 = .ok ⟨3, 3, 42, 99, 1234⟩ :=
  c26_header_roundtrip _ _ (by unfold GoInt; omega) (by decide)
example : ∃ e, decodeHeader ((encodeHeader ⟨3, 3, 42, 99, 1234⟩).set 0 0) 4096 = .error e :=
  c26_header_rejects _ _ (by unfold GoInt; omega) (by decide)
example : ∃ e, decodeHeader [0x57, 0x4b, 1, 0, 3, 9, 0, 42, 0, 0, 0, 0, 0, 0, 0, 99, 0, 0, 4, 210, 0, 0, 0, 0] 4096
    = .error e := c26_header_rejects _ _ (by unfold GoInt; omega) (by decide)
example : ∃ e, decodeHeader [0x57, 0x4b, 1, 0, 3, 3, 0, 42, 0, 0, 0, 0, 0, 0, 0, 99, 0, 0, 4, 210, 0, 0, 0, 0] 1233
    = .error e := c26_header_rejects _ _ (by unfold GoInt; omega) (by decide)
example : (readFrame (encodeHeader ⟨3, 3, 0, 0, 4000000000⟩) 1024).alloc = 0 := by decide
example : ∃ out, writeFrame ⟨3, 3, 42, 99, 0⟩ [1, 2, 3] 4096 = .ok out :=
  let ⟨out, h, _⟩ := c26_frame_roundtrip ⟨3, 3, 42, 99, 0⟩ [1, 2, 3] [] 4096 (by unfold GoInt; omega) (by decide)
  ⟨out, h⟩

/-! ### bad declared count: rejected without allocation -/

/-- a header that is fine except that its declared body length does not fit the limit
    (negative limit, or length above it) is refused by DecodeHeader with ErrMsgTooLarge -/
theorem c26_header_rejects_bad_count (h : Header) (max : Int) (hm : GoInt max) (hwf : h.WF)
    (hk : kindOK h.kind = true) (hp : priorityOK h.priority = true) (hbad : max < 0 ∨ max < (h.bodyLen : Int)) :
    decodeHeader (encodeHeader h) max = .error .msgTooLarge := by
  obtain ⟨r1, r2, r3, r4, r5, r6, r7, r8, r9⟩ := rd_enc h hwf
  have hb : bodyExceedsMax h.bodyLen max = true := (bodyExceedsMax_iff _ _ hwf.2.2.2.2 hm).mpr hbad
  obtain ⟨hwk, hwp, _⟩ := hwf
  unfold decodeHeader
  simp [enc_len, r1, r2, r3, r4, r5, r6, r7, r8, r9, c26_valid_ranges.1, c26_valid_ranges.2, hk, hp, hb,
    Nat.mod_eq_of_lt hwk, Nat.mod_eq_of_lt hwp]

/-- **frame: an oversize / negative-limit count is rejected without allocation**: ReadFrame on a
    stream that starts with such a header returns ErrMsgTooLarge having consumed exactly the 24
    header bytes and requested no body buffer — however large the declared length is. -/
theorem c26_frame_rejects_bad_count (h : Header) (rest : Bytes) (max : Int) (hm : GoInt max) (hwf : h.WF)
    (hk : kindOK h.kind = true) (hp : priorityOK h.priority = true) (hbad : max < 0 ∨ max < (h.bodyLen : Int)) :
    (readFrame (encodeHeader h ++ rest) max).res = .error (.hdr .msgTooLarge) ∧
    (readFrame (encodeHeader h ++ rest) max).consumed = HeaderSize ∧
    (readFrame (encodeHeader h ++ rest) max).alloc = 0 := by
  have hl := enc_len h
  have hs : HeaderSize = 24 := rfl
  have htake : (encodeHeader h ++ rest).take HeaderSize = encodeHeader h := by
    rw [List.take_append_of_le_length (by omega), List.take_of_length_le (by omega)]
  have hne : ¬ ((encodeHeader h ++ rest).length = 0) := by simp [hl, hs]
  have hge : ¬ ((encodeHeader h ++ rest).length < HeaderSize) := by simp [hl, hs]
  unfold readFrame
  simp only [hne, hge, if_false, htake, c26_header_rejects_bad_count h max hm hwf hk hp hbad]
  simp

example : (readFrame (encodeHeader ⟨3, 3, 0, 0, 4000000000⟩ ++ [1, 2]) 1024).alloc = 0 :=
  (c26_frame_rejects_bad_count ⟨3, 3, 0, 0, 4000000000⟩ [1, 2] 1024 (by unfold GoInt; omega) (by decide) (by decide) (by decide)
    (by right; decide)).2.2
example : (readFrame (encodeHeader ⟨3, 3, 0, 0, 0⟩) (-1)).res = .error (.hdr .msgTooLarge) :=
  by simpa using (c26_frame_rejects_bad_count ⟨3, 3, 0, 0, 0⟩ [] (-1) (by unfold GoInt; omega) (by decide) (by decide) (by decide)
    (by left; decide)).1

/-! ### accepted ⇒ canonical -/

theorem ofNat_add_mul256 (a x : Nat) : UInt8.ofNat (a * 256 + x) = UInt8.ofNat x := by
  apply UInt8.toNat_inj.mp; simp

/-- byte `j` of the big-endian rendering of what was read at `off` is the byte at `off + j` -/
theorem beByte_rd (bs : Bytes) : ∀ (w off j : Nat), j < w → beByte w (rd bs off w) j = byteAt bs (off + j) := by
  intro w
  induction w with
  | zero => intro off j h; omega
  | succ w ih =>
    intro off j hj
    simp only [rd, beByte, Nat.add_sub_cancel]
    have hlt := rd_lt bs (off + 1) w
    cases j with
    | zero =>
      simp only [Nat.sub_zero, Nat.add_zero]
      have : ((byteAt bs off).toNat * 256 ^ w + rd bs (off + 1) w) / 256 ^ w = (byteAt bs off).toNat := by
        rw [Nat.add_comm, Nat.add_mul_div_right _ _ (Nat.pow_pos (by omega)), Nat.div_eq_of_lt hlt]; omega
      rw [this]
      apply UInt8.toNat_inj.mp; simp
    | succ j =>
      have hjw : j < w := by omega
      have hsplit : 256 ^ w = 256 ^ (j + 1) * 256 ^ (w - (j + 1)) := by
        rw [← Nat.pow_add]; congr 1; omega
      have hdiv : ((byteAt bs off).toNat * 256 ^ w + rd bs (off + 1) w) / 256 ^ (w - (j + 1))
          = (byteAt bs off).toNat * 256 ^ (j + 1) + rd bs (off + 1) w / 256 ^ (w - (j + 1)) := by
        rw [hsplit, ← Nat.mul_assoc, Nat.add_comm, Nat.add_mul_div_right _ _ (Nat.pow_pos (by omega)), Nat.add_comm]
      rw [hdiv]
      have h256 : (byteAt bs off).toNat * 256 ^ (j + 1) = ((byteAt bs off).toNat * 256 ^ j) * 256 := by
        rw [Nat.pow_succ, Nat.mul_assoc]
      rw [h256, ofNat_add_mul256]
      have := ih (off + 1) j hjw
      simp only [beByte] at this
      have e : w - 1 - j = w - (j + 1) := by omega
      rw [e] at this
      rw [this]
      congr 1; omega

theorem bytes_ext (a b : Bytes) (hl : a.length = b.length) (h : ∀ i, i < a.length → byteAt a i = byteAt b i) : a = b := by
  apply List.ext_getElem hl
  intro i h1 h2
  have := h i h1
  simpa [byteAt, List.getD_eq_getElem?_getD, List.getElem?_eq_getElem h1, List.getElem?_eq_getElem h2] using this

/-- **header: accepted ⇒ canonical** — the 24 bytes DecodeHeader accepts are exactly
    EncodeHeader of the header it returns: no other byte string decodes to that header, and every
    accepted field value is what the sender's encoder would have written. -/
theorem c26_header_canonical (bs : Bytes) (max : Int) (hm : GoInt max) (h : Header)
    (hd : decodeHeader bs max = .ok h) : bs.take HeaderSize = encodeHeader h := by
  obtain ⟨a1, fm, fv, ff, fz, a6, a7, a8, a9, a10, _, _, _, _⟩ := c26_header_accepts_only bs max hm h hd
  have hs : HeaderSize = 24 := rfl
  simp only [headerMagicOffset, headerVersionOffset, headerFlagsOffset, headerReservedOffset, headerKindOffset,
    headerPriorityOffset, headerServiceIDOffset, headerRequestIDOffset, headerBodyLenOffset] at fm fv ff fz a6 a7 a8 a9 a10
  have hk1 : rd bs 4 1 < 256 := rd_lt bs 4 1
  have hp1 : rd bs 5 1 < 256 := rd_lt bs 5 1
  have fk : rd bs 4 1 = h.kind % 2 ^ 8 := by rw [a6]; omega
  have fp : rd bs 5 1 = h.priority % 2 ^ 8 := by rw [a7]; omega
  have fs : rd bs 6 2 = h.serviceID := a8.symm
  have fr : rd bs 8 8 = h.requestID := a9.symm
  have fb : rd bs 16 4 = h.bodyLen := a10.symm
  symm
  apply bytes_ext
  · rw [enc_len, List.length_take]; omega
  intro i hi
  rw [enc_len, hs] at hi
  rw [byteAt_take bs HeaderSize i (by omega)]
  have hcases : i = 0 ∨ i = 1 ∨ i = 2 ∨ i = 3 ∨ i = 4 ∨ i = 5 ∨ i = 6 ∨ i = 7 ∨ i = 8 ∨ i = 9 ∨ i = 10 ∨ i = 11 ∨ i = 12 ∨ i = 13 ∨ i = 14 ∨ i = 15 ∨ i = 16 ∨ i = 17 ∨ i = 18 ∨ i = 19 ∨ i = 20 ∨ i = 21 ∨ i = 22 ∨ i = 23 := by omega
  rcases hcases with rfl | rfl | rfl | rfl | rfl | rfl | rfl | rfl | rfl | rfl | rfl | rfl | rfl | rfl | rfl | rfl | rfl | rfl | rfl | rfl | rfl | rfl | rfl | rfl
  · have e := beByte_rd bs 2 0 0 (by omega)
    simp only [Nat.reduceAdd] at e
    rw [← e, fm]
    simp [encodeHeader, applyWrites, encodeWrites, byteAt_wr, length_wr, HeaderSize, headerMagicOffset, headerVersionOffset, headerFlagsOffset, headerKindOffset, headerPriorityOffset, headerServiceIDOffset, headerRequestIDOffset, headerBodyLenOffset, headerReservedOffset]
  · have e := beByte_rd bs 2 0 1 (by omega)
    simp only [Nat.reduceAdd] at e
    rw [← e, fm]
    simp [encodeHeader, applyWrites, encodeWrites, byteAt_wr, length_wr, HeaderSize, headerMagicOffset, headerVersionOffset, headerFlagsOffset, headerKindOffset, headerPriorityOffset, headerServiceIDOffset, headerRequestIDOffset, headerBodyLenOffset, headerReservedOffset]
  · have e := beByte_rd bs 1 2 0 (by omega)
    simp only [Nat.reduceAdd] at e
    rw [← e, fv]
    simp [encodeHeader, applyWrites, encodeWrites, byteAt_wr, length_wr, HeaderSize, headerMagicOffset, headerVersionOffset, headerFlagsOffset, headerKindOffset, headerPriorityOffset, headerServiceIDOffset, headerRequestIDOffset, headerBodyLenOffset, headerReservedOffset]
  · have e := beByte_rd bs 1 3 0 (by omega)
    simp only [Nat.reduceAdd] at e
    rw [← e, ff]
    simp [encodeHeader, applyWrites, encodeWrites, byteAt_wr, length_wr, HeaderSize, headerMagicOffset, headerVersionOffset, headerFlagsOffset, headerKindOffset, headerPriorityOffset, headerServiceIDOffset, headerRequestIDOffset, headerBodyLenOffset, headerReservedOffset]
  · have e := beByte_rd bs 1 4 0 (by omega)
    simp only [Nat.reduceAdd] at e
    rw [← e, fk]
    simp [encodeHeader, applyWrites, encodeWrites, byteAt_wr, length_wr, HeaderSize, headerMagicOffset, headerVersionOffset, headerFlagsOffset, headerKindOffset, headerPriorityOffset, headerServiceIDOffset, headerRequestIDOffset, headerBodyLenOffset, headerReservedOffset]
  · have e := beByte_rd bs 1 5 0 (by omega)
    simp only [Nat.reduceAdd] at e
    rw [← e, fp]
    simp [encodeHeader, applyWrites, encodeWrites, byteAt_wr, length_wr, HeaderSize, headerMagicOffset, headerVersionOffset, headerFlagsOffset, headerKindOffset, headerPriorityOffset, headerServiceIDOffset, headerRequestIDOffset, headerBodyLenOffset, headerReservedOffset]
  · have e := beByte_rd bs 2 6 0 (by omega)
    simp only [Nat.reduceAdd] at e
    rw [← e, fs]
    simp [encodeHeader, applyWrites, encodeWrites, byteAt_wr, length_wr, HeaderSize, headerMagicOffset, headerVersionOffset, headerFlagsOffset, headerKindOffset, headerPriorityOffset, headerServiceIDOffset, headerRequestIDOffset, headerBodyLenOffset, headerReservedOffset]
  · have e := beByte_rd bs 2 6 1 (by omega)
    simp only [Nat.reduceAdd] at e
    rw [← e, fs]
    simp [encodeHeader, applyWrites, encodeWrites, byteAt_wr, length_wr, HeaderSize, headerMagicOffset, headerVersionOffset, headerFlagsOffset, headerKindOffset, headerPriorityOffset, headerServiceIDOffset, headerRequestIDOffset, headerBodyLenOffset, headerReservedOffset]
  · have e := beByte_rd bs 8 8 0 (by omega)
    simp only [Nat.reduceAdd] at e
    rw [← e, fr]
    simp [encodeHeader, applyWrites, encodeWrites, byteAt_wr, length_wr, HeaderSize, headerMagicOffset, headerVersionOffset, headerFlagsOffset, headerKindOffset, headerPriorityOffset, headerServiceIDOffset, headerRequestIDOffset, headerBodyLenOffset, headerReservedOffset]
  · have e := beByte_rd bs 8 8 1 (by omega)
    simp only [Nat.reduceAdd] at e
    rw [← e, fr]
    simp [encodeHeader, applyWrites, encodeWrites, byteAt_wr, length_wr, HeaderSize, headerMagicOffset, headerVersionOffset, headerFlagsOffset, headerKindOffset, headerPriorityOffset, headerServiceIDOffset, headerRequestIDOffset, headerBodyLenOffset, headerReservedOffset]
  · have e := beByte_rd bs 8 8 2 (by omega)
    simp only [Nat.reduceAdd] at e
    rw [← e, fr]
    simp [encodeHeader, applyWrites, encodeWrites, byteAt_wr, length_wr, HeaderSize, headerMagicOffset, headerVersionOffset, headerFlagsOffset, headerKindOffset, headerPriorityOffset, headerServiceIDOffset, headerRequestIDOffset, headerBodyLenOffset, headerReservedOffset]
  · have e := beByte_rd bs 8 8 3 (by omega)
    simp only [Nat.reduceAdd] at e
    rw [← e, fr]
    simp [encodeHeader, applyWrites, encodeWrites, byteAt_wr, length_wr, HeaderSize, headerMagicOffset, headerVersionOffset, headerFlagsOffset, headerKindOffset, headerPriorityOffset, headerServiceIDOffset, headerRequestIDOffset, headerBodyLenOffset, headerReservedOffset]
  · have e := beByte_rd bs 8 8 4 (by omega)
    simp only [Nat.reduceAdd] at e
    rw [← e, fr]
    simp [encodeHeader, applyWrites, encodeWrites, byteAt_wr, length_wr, HeaderSize, headerMagicOffset, headerVersionOffset, headerFlagsOffset, headerKindOffset, headerPriorityOffset, headerServiceIDOffset, headerRequestIDOffset, headerBodyLenOffset, headerReservedOffset]
  · have e := beByte_rd bs 8 8 5 (by omega)
    simp only [Nat.reduceAdd] at e
    rw [← e, fr]
    simp [encodeHeader, applyWrites, encodeWrites, byteAt_wr, length_wr, HeaderSize, headerMagicOffset, headerVersionOffset, headerFlagsOffset, headerKindOffset, headerPriorityOffset, headerServiceIDOffset, headerRequestIDOffset, headerBodyLenOffset, headerReservedOffset]
  · have e := beByte_rd bs 8 8 6 (by omega)
    simp only [Nat.reduceAdd] at e
    rw [← e, fr]
    simp [encodeHeader, applyWrites, encodeWrites, byteAt_wr, length_wr, HeaderSize, headerMagicOffset, headerVersionOffset, headerFlagsOffset, headerKindOffset, headerPriorityOffset, headerServiceIDOffset, headerRequestIDOffset, headerBodyLenOffset, headerReservedOffset]
  · have e := beByte_rd bs 8 8 7 (by omega)
    simp only [Nat.reduceAdd] at e
    rw [← e, fr]
    simp [encodeHeader, applyWrites, encodeWrites, byteAt_wr, length_wr, HeaderSize, headerMagicOffset, headerVersionOffset, headerFlagsOffset, headerKindOffset, headerPriorityOffset, headerServiceIDOffset, headerRequestIDOffset, headerBodyLenOffset, headerReservedOffset]
  · have e := beByte_rd bs 4 16 0 (by omega)
    simp only [Nat.reduceAdd] at e
    rw [← e, fb]
    simp [encodeHeader, applyWrites, encodeWrites, byteAt_wr, length_wr, HeaderSize, headerMagicOffset, headerVersionOffset, headerFlagsOffset, headerKindOffset, headerPriorityOffset, headerServiceIDOffset, headerRequestIDOffset, headerBodyLenOffset, headerReservedOffset]
  · have e := beByte_rd bs 4 16 1 (by omega)
    simp only [Nat.reduceAdd] at e
    rw [← e, fb]
    simp [encodeHeader, applyWrites, encodeWrites, byteAt_wr, length_wr, HeaderSize, headerMagicOffset, headerVersionOffset, headerFlagsOffset, headerKindOffset, headerPriorityOffset, headerServiceIDOffset, headerRequestIDOffset, headerBodyLenOffset, headerReservedOffset]
  · have e := beByte_rd bs 4 16 2 (by omega)
    simp only [Nat.reduceAdd] at e
    rw [← e, fb]
    simp [encodeHeader, applyWrites, encodeWrites, byteAt_wr, length_wr, HeaderSize, headerMagicOffset, headerVersionOffset, headerFlagsOffset, headerKindOffset, headerPriorityOffset, headerServiceIDOffset, headerRequestIDOffset, headerBodyLenOffset, headerReservedOffset]
  · have e := beByte_rd bs 4 16 3 (by omega)
    simp only [Nat.reduceAdd] at e
    rw [← e, fb]
    simp [encodeHeader, applyWrites, encodeWrites, byteAt_wr, length_wr, HeaderSize, headerMagicOffset, headerVersionOffset, headerFlagsOffset, headerKindOffset, headerPriorityOffset, headerServiceIDOffset, headerRequestIDOffset, headerBodyLenOffset, headerReservedOffset]
  · have e := beByte_rd bs 4 20 0 (by omega)
    simp only [Nat.reduceAdd] at e
    rw [← e, fz]
    simp [encodeHeader, applyWrites, encodeWrites, byteAt_wr, length_wr, HeaderSize, headerMagicOffset, headerVersionOffset, headerFlagsOffset, headerKindOffset, headerPriorityOffset, headerServiceIDOffset, headerRequestIDOffset, headerBodyLenOffset, headerReservedOffset]
  · have e := beByte_rd bs 4 20 1 (by omega)
    simp only [Nat.reduceAdd] at e
    rw [← e, fz]
    simp [encodeHeader, applyWrites, encodeWrites, byteAt_wr, length_wr, HeaderSize, headerMagicOffset, headerVersionOffset, headerFlagsOffset, headerKindOffset, headerPriorityOffset, headerServiceIDOffset, headerRequestIDOffset, headerBodyLenOffset, headerReservedOffset]
  · have e := beByte_rd bs 4 20 2 (by omega)
    simp only [Nat.reduceAdd] at e
    rw [← e, fz]
    simp [encodeHeader, applyWrites, encodeWrites, byteAt_wr, length_wr, HeaderSize, headerMagicOffset, headerVersionOffset, headerFlagsOffset, headerKindOffset, headerPriorityOffset, headerServiceIDOffset, headerRequestIDOffset, headerBodyLenOffset, headerReservedOffset]
  · have e := beByte_rd bs 4 20 3 (by omega)
    simp only [Nat.reduceAdd] at e
    rw [← e, fz]
    simp [encodeHeader, applyWrites, encodeWrites, byteAt_wr, length_wr, HeaderSize, headerMagicOffset, headerVersionOffset, headerFlagsOffset, headerKindOffset, headerPriorityOffset, headerServiceIDOffset, headerRequestIDOffset, headerBodyLenOffset, headerReservedOffset]

example : (encodeHeader ⟨3, 3, 42, 99, 1234⟩ ++ [7, 7]).take HeaderSize = encodeHeader ⟨3, 3, 42, 99, 1234⟩ :=
  c26_header_canonical _ 4096 (by unfold GoInt; omega) _
    (c26_header_roundtrip_stream ⟨3, 3, 42, 99, 1234⟩ [7, 7] 4096 (by unfold GoInt; omega) (by decide))

/-- the judge's predicate is exactly what the decoder guarantees: anything DecodeHeader accepts is
    `acceptable` (a valid header, long enough, and byte-for-byte its own canonical encoding) -/
theorem c26_decode_acceptable (bs : Bytes) (max : Int) (hm : GoInt max) (h : Header)
    (hd : decodeHeader bs max = .ok h) : acceptable bs h max = true := by
  obtain ⟨a1, _, _, _, _, a6, a7, a8, a9, a10, a11, a12, a13, a14⟩ := c26_header_accepts_only bs max hm h hd
  have hwf : h.WF := by
    refine ⟨?_, ?_, ?_, ?_, ?_⟩
    · rw [a6]; exact Nat.mod_lt _ (by omega)
    · rw [a7]; exact Nat.mod_lt _ (by omega)
    · rw [a8]; exact rd_lt bs _ 2
    · rw [a9]; exact rd_lt bs _ 8
    · rw [a10]; exact rd_lt bs _ 4
  have hv : Valid h max := ⟨hwf, a11, a12, a13, a14⟩
  have hc := c26_header_canonical bs max hm h hd
  simp [acceptable, hv, a1, hc]

example : acceptable (encodeHeader ⟨3, 3, 42, 99, 1234⟩ ++ [7, 7]) ⟨3, 3, 42, 99, 1234⟩ 4096 = true :=
  c26_decode_acceptable _ 4096 (by unfold GoInt; omega) _
    (c26_header_roundtrip_stream ⟨3, 3, 42, 99, 1234⟩ [7, 7] 4096 (by unfold GoInt; omega) (by decide))

end WK.C26

import WK.Proofs.C13_Batch
import WK.Proofs.C13_TLV
/-
  C13 — slot state machine: deterministic and batch-transparent.

  `applyBatch` is the model of `stateMachine.ApplyBatch`; the per-command
  handler `one : κ → hashSlot → Cmd → Outcome κ` is a PARAMETER (any function —
  the ~60 concrete handlers are exercised by the differential harness, where
  `one` is read off the real FSM's one-at-a-time run).  `seqRun` is the
  reference meaning of a log: one command at a time.
-/
namespace WK.C13

variable {κ : Type} (cfg : Cfg) (d : Bytes → Except Err Nat) (one : One κ)

/-- **partition_transparent**: if no command of `b₁ ++ b₂` is refused, applying
    it as ONE batch, or as `b₁` then `b₂` (hence, by induction, under any
    partition), or one at a time, gives the same state (KV and applied index) and
    the same concatenated results. -/
theorem c13_partition_transparent (st : St κ) (b₁ b₂ : List Cmd)
    (hpos : ∀ c ∈ b₁ ++ b₂, c.index > 0)
    (hok : (seqRun cfg d one st (b₁ ++ b₂)).2.2 = none) :
    let o₁ := applyBatch cfg d one st b₁
    let o₂ := applyBatch cfg d one o₁.1 b₂
    let o := applyBatch cfg d one st (b₁ ++ b₂)
    o₁.2.2 = none ∧ o₂.2.2 = none ∧ o.2.2 = none ∧
    o.1 = o₂.1 ∧ o.2.1 = o₁.2.1 ++ o₂.2.1 ∧ o = seqRun cfg d one st (b₁ ++ b₂) := by
  intro o₁ o₂ o
  have happ := seqRun_append cfg d one st b₁ b₂
  have h1 : (seqRun cfg d one st b₁).2.2 = none := by
    cases h : (seqRun cfg d one st b₁).2.2 with
    | none => rfl
    | some e => rw [happ, h] at hok; cases hok
  rw [h1] at happ
  simp only at happ
  have h2 : (seqRun cfg d one (seqRun cfg d one st b₁).1 b₂).2.2 = none := by
    rw [happ] at hok; exact hok
  have e1 : o₁ = seqRun cfg d one st b₁ :=
    applyBatch_eq_seq cfg d one st b₁ (fun c hc => hpos c (List.mem_append_left _ hc)) h1
  have e2 : o₂ = seqRun cfg d one (seqRun cfg d one st b₁).1 b₂ := by
    show applyBatch cfg d one o₁.1 b₂ = _
    rw [e1]
    exact applyBatch_eq_seq cfg d one _ b₂ (fun c hc => hpos c (List.mem_append_right _ hc)) h2
  have e : o = seqRun cfg d one st (b₁ ++ b₂) := applyBatch_eq_seq cfg d one st _ hpos hok
  refine ⟨by rw [e1]; exact h1, by rw [e2]; exact h2, by rw [e]; exact hok, ?_, ?_, e⟩
  · rw [e, e2, happ]
  · rw [e, e1, e2, happ]

/-- a toy handler used by the non-vacuity examples: the KV is a list of payloads -/
def demoOne : One (List Bytes) := fun kv _ c =>
  match c.data with
  | [1, 19] => .done kv "ok"
  | [1, 1, x] => if kv.contains [x] then .commitStale else .done ([x] :: kv) "ok"
  | _ => .error .corrupt

def demoCfg : Cfg := { slot := 1, owned := [1, 2, 3] }
def demoD : Bytes → Except Err Nat := fun _ => .error .corrupt

example : (seqRun demoCfg demoD demoOne ⟨[], 0⟩
    ([⟨1, 1, 1, [1, 1, 7]⟩, ⟨1, 2, 2, [1, 19]⟩] ++ [⟨1, 1, 3, [1, 1, 7]⟩, ⟨1, 3, 4, [1, 1, 8]⟩])).2.2 = none := by decide

/-- a batch containing a refused command writes nothing at all -/
theorem c13_refused_batch_no_effect (st : St κ) (cs : List Cmd) (e : Err)
    (h : stage cfg d one st.kv cs = .error e) :
    applyBatch cfg d one st cs = (st, [], some e) := applyBatch_refused cfg d one st cs e h

/-- **unowned_refused**: a command for a hash slot the slot does not own (and that
    is not an ApplyDelta / source-side migration maintenance command) makes the
    batch it is in fail with an error, and NOTHING of that batch is written. -/
theorem c13_unowned_refused (st : St κ) (cs : List Cmd) (c : Cmd) (hc : c ∈ cs)
    (hu : unowned cfg c = true) :
    ∃ e, applyBatch cfg d one st cs = (st, [], some e) := by
  have hres : resolveHashSlot cfg d c = .error .invalid := by
    simp only [unowned, Bool.and_eq_true, Bool.not_eq_true'] at hu
    obtain ⟨⟨h1, h2⟩, h3⟩ := hu
    simp only [resolveHashSlot, h1, h2, h3, Bool.false_eq_true, if_false]
  obtain ⟨e, he⟩ := stage_front_error cfg d one st.kv cs c hc (Or.inr ⟨_, hres⟩)
  exact ⟨e, applyBatch_refused cfg d one st cs e he⟩

example : unowned demoCfg ⟨1, 4, 9, [1, 19]⟩ = true := by decide

/-- **snapshot_any_prefix**: snapshot after any prefix `l₁`, restore into a fresh
    store, run the rest — same state and results as running `l₁ ++ l₂` straight.
    `enc`/`dec` is the meta snapshot codec, a parameter with the contract
    `dec (enc kv) = some kv` (exercised by the harness on the real export/import). -/
theorem c13_snapshot_any_prefix (enc : κ → Bytes) (dec : Bytes → Option κ)
    (hcodec : ∀ kv, dec (enc kv) = some kv)
    (st fresh : St κ) (hfresh : fresh.applied = 0) (l₁ l₂ : List Cmd)
    (hok : (seqRun cfg d one st l₁).2.2 = none) :
    ∃ st', restore dec fresh (snapshot enc (seqRun cfg d one st l₁).1) = some st' ∧
      st' = (seqRun cfg d one st l₁).1 ∧
      (seqRun cfg d one st' l₂).1 = (seqRun cfg d one st (l₁ ++ l₂)).1 ∧
      (seqRun cfg d one st (l₁ ++ l₂)).2.1 = (seqRun cfg d one st l₁).2.1 ++ (seqRun cfg d one st' l₂).2.1 := by
  have happ := seqRun_append cfg d one st l₁ l₂
  rw [hok] at happ
  simp only at happ
  cases hs : (seqRun cfg d one st l₁).1 with
  | mk kv ap =>
    refine ⟨⟨kv, ap⟩, ?_, rfl, ?_, ?_⟩
    · by_cases h0 : ap = 0
      · subst h0; simp [restore, snapshot, hcodec, hfresh]
      · simp [restore, snapshot, hcodec, h0]
    · rw [happ, hs]
    · rw [happ, hs]

example : ∀ kv : List Bytes, (fun b => some (b.map (fun x => [x]))) ((fun (k : List Bytes) => k.flatten) kv) = some (kv.flatten.map (fun x => [x])) := by
  intro kv; rfl

/-! ### restart replay -/

theorem stepOne_applied (st st' : St κ) (c : Cmd) (r : Result) (h : stepOne cfg d one st c = .ok (st', r))
    (hpos : c.index > 0) : (st'.applied = c.index) ∨ (st' = st ∧ r = staleResult) := by
  simp only [stepOne] at h
  split at h
  · cases h
  · cases hres : resolveHashSlot cfg d c with
    | error e => rw [hres] at h; cases h
    | ok hs =>
      rw [hres] at h
      simp only at h
      cases hone : one st.kv hs c with
      | error e => rw [hone] at h; cases h
      | done kv r' =>
        rw [hone] at h
        simp only [Except.ok.injEq, Prod.mk.injEq] at h
        left; rw [← h.1]; try simp only [hpos, if_true]
      | commitStale =>
        rw [hone] at h
        simp only [Except.ok.injEq, Prod.mk.injEq] at h
        right; exact ⟨h.1.symm, h.2.symm⟩

/-- replaying commands that were commit-stale (no-ops) in the state they left is a no-op again -/
theorem seqRun_noops (st : St κ) (cs : List Cmd)
    (h : ∀ c ∈ cs, stepOne cfg d one st c = .ok (st, staleResult)) :
    (seqRun cfg d one st cs).1 = st ∧ (seqRun cfg d one st cs).2.2 = none := by
  induction cs with
  | nil => exact ⟨rfl, rfl⟩
  | cons c cs ih =>
    rw [seqRun_cons_ok cfg d one st st c cs _ (h c (List.mem_cons_self ..))]
    exact ih (fun x hx => h x (List.mem_cons_of_mem _ hx))

/-- invariant of a sequential run over a log with increasing indices: every command
    already processed is at or below the applied index, or is a no-op in the current state -/
theorem seqRun_seen (st : St κ) (seen l : List Cmd)
    (hsorted : (seen ++ l).Pairwise (fun a b => a.index < b.index))
    (hpos : ∀ c ∈ l, c.index > 0)
    (hinv : ∀ c ∈ seen, c.index ≤ st.applied ∨ stepOne cfg d one st c = .ok (st, staleResult))
    (hok : (seqRun cfg d one st l).2.2 = none) :
    ∀ c ∈ seen ++ l, c.index ≤ (seqRun cfg d one st l).1.applied ∨
      stepOne cfg d one (seqRun cfg d one st l).1 c = .ok ((seqRun cfg d one st l).1, staleResult) := by
  induction l generalizing st seen with
  | nil => simpa [seqRun] using hinv
  | cons x xs ih =>
    cases hstep : stepOne cfg d one st x with
    | error e => rw [seqRun_cons_err cfg d one st x xs e hstep] at hok; cases hok
    | ok p =>
      obtain ⟨st', r⟩ := p
      rw [seqRun_cons_ok cfg d one st st' x xs r hstep] at hok ⊢
      simp only at hok ⊢
      have hs' : (seen ++ [x] ++ xs).Pairwise (fun a b => a.index < b.index) := by simpa using hsorted
      have := ih st' (seen ++ [x]) hs' (fun c hc => hpos c (List.mem_cons_of_mem _ hc)) ?_ hok
      · intro c hc
        exact this c (by simpa using hc)
      · intro c hc
        rcases stepOne_applied cfg d one st st' x r hstep (hpos x (List.mem_cons_self ..)) with ha | ⟨he, hr⟩
        · left
          rcases List.mem_append.1 hc with hc | hc
          · have : c.index < x.index := by
              have := List.pairwise_append.1 hsorted
              exact this.2.2 c hc x (List.mem_cons_self ..)
            omega
          · simp at hc; subst hc; omega
        · subst he
          rcases List.mem_append.1 hc with hc | hc
          · exact hinv c hc
          · simp at hc; subst hc; right; rw [hstep, hr]

/-- **replay_idempotent**: after a restart the driver replays the log above the
    durable applied index.  Having applied `l₁`, replaying the whole log
    `l₁ ++ l₂` that way (any commands at or below the applied index are dropped,
    trailing commit-stale ones are re-run and are no-ops again) reaches exactly the
    state of the uninterrupted run. -/
theorem c13_replay_idempotent (st : St κ) (l₁ l₂ : List Cmd)
    (hsorted : (l₁ ++ l₂).Pairwise (fun a b => a.index < b.index))
    (hpos : ∀ c ∈ l₁ ++ l₂, c.index > st.applied)
    (hok : (seqRun cfg d one st (l₁ ++ l₂)).2.2 = none) :
    let s₁ := (seqRun cfg d one st l₁).1
    (seqRun cfg d one s₁ (replayTail s₁.applied (l₁ ++ l₂))).1 = (seqRun cfg d one st (l₁ ++ l₂)).1 ∧
    (seqRun cfg d one s₁ (replayTail s₁.applied (l₁ ++ l₂))).2.2 = none := by
  intro s₁
  have happ := seqRun_append cfg d one st l₁ l₂
  have h1 : (seqRun cfg d one st l₁).2.2 = none := by
    cases h : (seqRun cfg d one st l₁).2.2 with
    | none => rfl
    | some e => rw [happ, h] at hok; cases hok
  rw [h1] at happ
  simp only at happ
  have h2 : (seqRun cfg d one s₁ l₂).2.2 = none := by rw [happ] at hok; exact hok
  have hs1 : l₁.Pairwise (fun a b => a.index < b.index) := (List.pairwise_append.1 hsorted).1
  have hseen := seqRun_seen cfg d one st [] l₁ (by simpa using hs1)
    (fun c hc => by have := hpos c (List.mem_append_left _ hc); omega) (by intro c hc; cases hc) h1
  simp only [List.nil_append] at hseen
  -- the applied index after l₁ is below every index of l₂
  have happlied : ∀ c ∈ l₂, c.index > s₁.applied := by
    -- s₁.applied is st.applied or the index of a command of l₁
    have key : ∀ (st : St κ) (l : List Cmd), (seqRun cfg d one st l).2.2 = none →
        (∀ c ∈ l, c.index > 0) →
        (seqRun cfg d one st l).1.applied = st.applied ∨ ∃ c ∈ l, (seqRun cfg d one st l).1.applied = c.index := by
      intro st l
      induction l generalizing st with
      | nil => intro _ _; left; rfl
      | cons x xs ih =>
        intro hk hp
        cases hstep : stepOne cfg d one st x with
        | error e => rw [seqRun_cons_err cfg d one st x xs e hstep] at hk; cases hk
        | ok p =>
          obtain ⟨st', r⟩ := p
          rw [seqRun_cons_ok cfg d one st st' x xs r hstep] at hk ⊢
          simp only at hk ⊢
          rcases ih st' hk (fun c hc => hp c (List.mem_cons_of_mem _ hc)) with h | ⟨c, hc, h⟩
          · rcases stepOne_applied cfg d one st st' x r hstep (hp x (List.mem_cons_self ..)) with ha | ⟨he, _⟩
            · right; exact ⟨x, List.mem_cons_self .., by rw [h, ha]⟩
            · left; rw [h, he]
          · right; exact ⟨c, List.mem_cons_of_mem _ hc, h⟩
    intro c hc
    rcases key st l₁ h1 (fun c hc => by have := hpos c (List.mem_append_left _ hc); omega) with h | ⟨x, hx, h⟩
    · show c.index > (seqRun cfg d one st l₁).1.applied
      rw [h]; exact hpos c (List.mem_append_right _ hc)
    · show c.index > (seqRun cfg d one st l₁).1.applied
      rw [h]; exact (List.pairwise_append.1 hsorted).2.2 x hx c hc
  have hfil2 : l₂.filter (fun c => decide (c.index > s₁.applied)) = l₂ :=
    List.filter_eq_self.2 (fun c hc => by simpa using happlied c hc)
  have hnoop : ∀ c ∈ l₁.filter (fun c => decide (c.index > s₁.applied)),
      stepOne cfg d one s₁ c = .ok (s₁, staleResult) := by
    intro c hc
    rw [List.mem_filter] at hc
    rcases hseen c hc.1 with h | h
    · have := hc.2
      simp only [decide_eq_true_eq] at this
      change c.index > (seqRun cfg d one st l₁).1.applied at this
      omega
    · exact h
  have hno := seqRun_noops cfg d one s₁ _ hnoop
  unfold replayTail
  rw [List.filter_append, hfil2, seqRun_append, hno.2]
  simp only [hno.1]
  exact ⟨by rw [happ], h2⟩

example : replayTail 2 [⟨1, 1, 1, []⟩, ⟨1, 1, 2, []⟩, ⟨1, 1, 3, []⟩] = [⟨1, 1, 3, []⟩] := by decide

/-! ### TLV skeleton -/

/-- **tlv_total**: the decoder loop is total (structural recursion on the fuel =
    input length), and whatever it accepts is exactly a sequence of
    `[tag][len32][value]` fields whose lengths add up to the input: it never
    reads past the input and leaves nothing unread. -/
theorem c13_tlv_total (data : Bytes) :
    (∃ e, walkTLV data = .error e) ∨
    (∃ fs, walkTLV data = .ok fs ∧
      ∃ gs : List (UInt8 × UInt8 × UInt8 × UInt8 × UInt8 × Bytes),
        fs = gs.map (fun g => (g.1.toNat, g.2.2.2.2.2)) ∧
        data = gs.flatMap (fun g => g.1 :: g.2.1 :: g.2.2.1 :: g.2.2.2.1 :: g.2.2.2.2.1 :: g.2.2.2.2.2) ∧
        ∀ g ∈ gs, g.2.2.2.2.2.length = be32 g.2.1 g.2.2.1 g.2.2.2.1 g.2.2.2.2.1) := by
  cases h : walkTLV data with
  | error e => exact Or.inl ⟨e, rfl⟩
  | ok fs => exact Or.inr ⟨fs, rfl, walk_sound data.length data fs h⟩

example : walkTLV [] = .ok [] := rfl

/-- **tlv_roundtrip**: the loop inverts `appendBytesTLVField` for every field list
    with 1-byte tags and 32-bit lengths (all field kinds are byte strings on the wire). -/
theorem c13_tlv_roundtrip (fs : List (Nat × Bytes))
    (ht : ∀ f ∈ fs, f.1 < 256 ∧ f.2.length < 4294967296) :
    walkTLV (encodeTLV fs) = .ok fs :=
  walk_encode fs _ ht (encodeTLV_length fs)

example : ∀ f ∈ [((1 : Nat), ([117, 49] : Bytes)), (200, [])], f.1 < 256 ∧ f.2.length < 4294967296 := by decide

/-- the regenerated command-type table is usable by the judge: no duplicates, every
    TLV-exempt type is a known type, every type fits the one-byte header field -/
theorem c13_type_table_sane :
    knownTypes.Nodup ∧ (∀ t ∈ Gen.C13.nonTLVTypes, t ∈ knownTypes) ∧ (∀ t ∈ knownTypes, t < 256) ∧
    knownTypes ≠ [] := by
  decide

/-- what the envelope check does NOT cover (kept visible: this is where the unchanged
    code violates "unowned hash slots are refused" — KNOWN FINDING
    `viol:unowned-write:delta-cmd59-unfiltered`): an ApplyDelta command is accepted for
    whatever hash slot its payload names, owned or not; which keys the wrapped command
    then touches is entirely up to its handler (`one`).  Command 59
    (CreateChannelRuntimeMeta batch) has no per-hash-slot filter, so a forwarded delta
    for hash slot h also writes the batch's items of other hash slots. -/
theorem c13_delta_bypasses_ownership_check (cfg : Cfg) (d : Bytes → Except Err Nat) (c : Cmd) (hs : Nat)
    (hd : isApplyDelta c.data = true) (hok : d c.data = .ok hs) (heq : hs = c.hashSlot) :
    resolveHashSlot cfg d c = .ok hs ∧ unowned cfg c = false := by
  subst heq
  simp [resolveHashSlot, unowned, hd, hok]

example : resolveHashSlot demoCfg (fun _ => .ok 4) ⟨1, 4, 1, [1, 20]⟩ = .ok 4 := rfl

/-! ### where the unchanged code is NOT batch-transparent (kept visible) -/

/-- the batch's view of "is hash slot `hs` fenced" as `isHashSlotFenced` computes it:
    the batch's pending migration states first, else the COMMITTED database -/
def fenceView (pending : List (Nat × Bool)) (db : Nat → Bool) (hs : Nat) : Bool :=
  match pending.lookup hs with
  | some f => f
  | none => db hs

/-- `applyMigrationOutboxCleanup`: the deletion is staged in the write batch, and the
    pending entry is ERASED (`delete(pendingStates, hashSlot)`) instead of recorded -/
def cleanupPending (pending : List (Nat × Bool)) (hs : Nat) : List (Nat × Bool) :=
  pending.filter (fun p => p.1 ≠ hs)

/-- KNOWN FINDING `viol:batch-not-transparent:stale-fence-after-outbox-cleanup`: after a
    cleanup that removes the migration state of a fenced hash slot, a later command of
    the SAME batch still sees the slot fenced (committed state), while one at a time
    (after the commit) it is not fenced — the overlay is not read-your-writes for
    deletions, so the grouping of the log into batches decides whether that command is
    applied.  Witness: corpus/C13/stale-fence-after-outbox-cleanup.ops. -/
theorem c13_stale_fence_witness :
    ∃ (db : Nat → Bool) (hs : Nat),
      fenceView (cleanupPending [] hs) db hs = true ∧          -- in the batch: still fenced
      fenceView [] (fun h => if h = hs then false else db h) hs = false := by  -- after the commit: not fenced
  exact ⟨fun _ => true, 3, by decide, by decide⟩



/-- **stale_fence (finding as a theorem about the model)**: with the view the code uses, a
    batch `[cleanup hs, normal hs]` on a fenced hash slot answers the second command
    `fenced`, while one at a time it is not fenced. -/
theorem c13_stale_fence_in_model :
    ∃ (db : Nat → Mig) (cs : List FCmd),
      (runBatchF viewCode db cs).1 ≠ (seqF viewCode db cs).1 ∧ cleanupThenSameSlot cs = true := by
  refine ⟨fun hs => if hs = 3 then some true else none, [⟨.cleanup, 3⟩, ⟨.normal, 3⟩], ?_, by decide⟩
  decide

theorem runBatchF_eq (view : (Nat → Mig) → FBatch → Nat → Mig) (db : Nat → Mig) (cs : List FCmd) :
    runBatchF view db cs = ((foldF view db {} [] cs).2, commitF db (foldF view db {} [] cs).1) := rfl

theorem foldF_cons (view : (Nat → Mig) → FBatch → Nat → Mig) (db : Nat → Mig) (b : FBatch) (fl : List Bool)
    (c : FCmd) (cs : List FCmd) :
    foldF view db b fl (c :: cs) = foldF view db (fstepB view db b c).1 (fl ++ [(fstepB view db b c).2]) cs := rfl

theorem foldF_flags (view : (Nat → Mig) → FBatch → Nat → Mig) (db : Nat → Mig) (b : FBatch) (fl : List Bool)
    (cs : List FCmd) :
    (foldF view db b fl cs).2 = fl ++ (foldF view db b [] cs).2 ∧ (foldF view db b fl cs).1 = (foldF view db b [] cs).1 := by
  induction cs generalizing b fl with
  | nil => simp [foldF]
  | cons c cs ih =>
    rw [foldF_cons, foldF_cons]
    have h1 := ih (fstepB view db b c).1 (fl ++ [(fstepB view db b c).2])
    have h2 := ih (fstepB view db b c).1 ([] ++ [(fstepB view db b c).2])
    rw [h1.1, h1.2, h2.1, h2.2]
    simp

/-- a step only looks at the view of its own hash slot -/
theorem fstepB_congr (v1 v2 : (Nat → Mig) → FBatch → Nat → Mig) (db : Nat → Mig) (b : FBatch) (c : FCmd)
    (h : v1 db b c.hs = v2 db b c.hs) : fstepB v1 db b c = fstepB v2 db b c := by
  unfold fstepB
  cases c.kind <;> simp only [h]

theorem view_after_step (db : Nat → Mig) (b : FBatch) (c : FCmd) (hs : Nat)
    (hv : viewCode db b c.hs = viewTrue db b c.hs)
    (hkeep : viewCode db b hs = viewTrue db b hs)
    (hok : ¬ (c.kind = .cleanup ∧ hs = c.hs)) :
    viewCode db (fstepB viewTrue db b c).1 hs = viewTrue db (fstepB viewTrue db b c).1 hs := by
  unfold fstepB
  cases hk : c.kind with
  | normal => simpa using hkeep
  | fence =>
    simp only
    cases hvt : viewTrue db b c.hs with
    | none =>
      by_cases hh : hs = c.hs
      · simp [viewCode, viewTrue, upd, hh]
      · simpa [viewCode, viewTrue, upd, hh] using hkeep
    | some f =>
      cases f with
      | true => simpa using hkeep
      | false =>
        by_cases hh : hs = c.hs
        · simp [viewCode, viewTrue, upd, hh]
        · simpa [viewCode, viewTrue, upd, hh] using hkeep
  | ack =>
    simp only
    cases hvt : viewTrue db b c.hs with
    | none => simpa using hkeep
    | some f =>
      by_cases hh : hs = c.hs
      · simp [viewCode, viewTrue, upd, hh]
      · simpa [viewCode, viewTrue, upd, hh] using hkeep
  | cleanup =>
    simp only
    cases hvt : viewTrue db b c.hs with
    | none => simpa using hkeep
    | some f =>
      have hh : hs ≠ c.hs := fun e => hok ⟨hk, e⟩
      simpa [viewCode, viewTrue, upd, hh] using hkeep

/-- under the exception-free hypothesis the code's view and the read-your-writes view drive
    the batch loop identically -/
theorem foldF_code_eq_true (db : Nat → Mig) (b : FBatch) (fl : List Bool) (cs : List FCmd)
    (hinv : ∀ hs, (∃ d ∈ cs, d.hs = hs) → viewCode db b hs = viewTrue db b hs)
    (hex : cleanupThenSameSlot cs = false) :
    foldF viewCode db b fl cs = foldF viewTrue db b fl cs := by
  induction cs generalizing b fl with
  | nil => rfl
  | cons c cs ih =>
    rw [foldF_cons, foldF_cons]
    have hc := hinv c.hs ⟨c, List.mem_cons_self .., rfl⟩
    rw [fstepB_congr viewCode viewTrue db b c hc]
    simp only [cleanupThenSameSlot, Bool.or_eq_false_iff, Bool.and_eq_false_iff] at hex
    apply ih
    · intro hs ⟨d, hd, hdh⟩
      apply view_after_step db b c hs hc (hinv hs ⟨d, List.mem_cons_of_mem _ hd, hdh⟩)
      rintro ⟨hk, hh⟩
      rcases hex.1 with h1 | h1
      · simp [hk] at h1
      · have : (cs.any fun d => d.hs == c.hs) = true := by
          simp only [List.any_eq_true, beq_iff_eq]
          exact ⟨d, hd, by rw [hdh, hh]⟩
        rw [this] at h1; cases h1
    · exact hex.2

/-- the read-your-writes loop from a batch state = the same loop from its committed image -/
theorem fstepB_true_commit (db : Nat → Mig) (b : FBatch) (c : FCmd) :
    (fstepB viewTrue db b c).2 = (fstepB viewTrue (commitF db b) {} c).2 ∧
    commitF db (fstepB viewTrue db b c).1 = commitF (commitF db b) (fstepB viewTrue (commitF db b) {} c).1 := by
  have hv : viewTrue (commitF db b) {} c.hs = viewTrue db b c.hs := by simp [viewTrue, commitF]
  unfold fstepB
  rw [hv]
  cases c.kind with
  | normal => exact ⟨rfl, by funext hs; simp [commitF, viewTrue]⟩
  | fence =>
    cases hvt : viewTrue db b c.hs with
    | none => exact ⟨rfl, by funext hs; by_cases hh : hs = c.hs <;> simp [commitF, viewTrue, upd, hh]⟩
    | some f =>
      cases f with
      | true => exact ⟨rfl, by funext hs; simp [commitF, viewTrue]⟩
      | false => exact ⟨rfl, by funext hs; by_cases hh : hs = c.hs <;> simp [commitF, viewTrue, upd, hh]⟩
  | ack =>
    cases hvt : viewTrue db b c.hs with
    | none => exact ⟨rfl, by funext hs; simp [commitF, viewTrue]⟩
    | some f => exact ⟨rfl, by funext hs; by_cases hh : hs = c.hs <;> simp [commitF, viewTrue, upd, hh]⟩
  | cleanup =>
    cases hvt : viewTrue db b c.hs with
    | none => exact ⟨rfl, by funext hs; simp [commitF, viewTrue]⟩
    | some f => exact ⟨rfl, by funext hs; by_cases hh : hs = c.hs <;> simp [commitF, viewTrue, upd, hh]⟩

theorem commitF_empty (db : Nat → Mig) : commitF db {} = db := by
  funext hs; simp [commitF, viewTrue]

/-- with a read-your-writes view a batch IS the one-at-a-time run (flags and committed rows) -/
theorem true_view_transparent (db : Nat → Mig) (b : FBatch) (cs : List FCmd) :
    (foldF viewTrue db b [] cs).2 = (seqF viewTrue (commitF db b) cs).1 ∧
    commitF db (foldF viewTrue db b [] cs).1 = (seqF viewTrue (commitF db b) cs).2 := by
  induction cs generalizing b with
  | nil => exact ⟨rfl, rfl⟩
  | cons c cs ih =>
    rw [foldF_cons]
    have hf := foldF_flags viewTrue db (fstepB viewTrue db b c).1 ([] ++ [(fstepB viewTrue db b c).2]) cs
    have hstep := fstepB_true_commit db b c
    have ih' := ih (fstepB viewTrue db b c).1
    simp only [seqF, runBatchF_eq, foldF_cons]
    have hnil : foldF viewTrue (commitF db b) (fstepB viewTrue (commitF db b) {} c).1
        ([] ++ [(fstepB viewTrue (commitF db b) {} c).2]) [] =
        ((fstepB viewTrue (commitF db b) {} c).1, [(fstepB viewTrue (commitF db b) {} c).2]) := rfl
    rw [hnil]
    simp only
    rw [hf.1, hf.2, ih'.1, ih'.2, hstep.1, ← hstep.2]
    exact ⟨by simp, rfl⟩

theorem seqF_code_eq_true (db : Nat → Mig) (cs : List FCmd) : seqF viewCode db cs = seqF viewTrue db cs := by
  induction cs generalizing db with
  | nil => rfl
  | cons c cs ih =>
    have h1 : runBatchF viewCode db [c] = runBatchF viewTrue db [c] := by
      rw [runBatchF_eq, runBatchF_eq, foldF_code_eq_true db {} [] [c]
        (fun hs _ => by simp [viewCode, viewTrue]) (by simp [cleanupThenSameSlot])]
    simp only [seqF, h1, ih]

/-- **fence overlay transparent under the explicit exception**: a batch in which no
    CleanupMigrationOutbox is followed by another command of the same hash slot answers
    every command (fenced or not) and commits the migration rows exactly as the
    one-at-a-time run does — with the view the code uses. -/
theorem c13_fence_overlay_transparent (db : Nat → Mig) (cs : List FCmd)
    (hex : cleanupThenSameSlot cs = false) :
    runBatchF viewCode db cs = seqF viewCode db cs := by
  rw [seqF_code_eq_true, runBatchF_eq,
    foldF_code_eq_true db {} [] cs (fun hs _ => by simp [viewCode, viewTrue]) hex]
  have := true_view_transparent db {} cs
  rw [commitF_empty] at this
  exact Prod.ext this.1 this.2

example : cleanupThenSameSlot [⟨.fence, 3⟩, ⟨.normal, 3⟩, ⟨.cleanup, 3⟩, ⟨.normal, 2⟩] = false := by decide

/-- with a read-your-writes overlay (record the deletion instead of erasing the pending
    entry) there is no exception at all: the repair candidate -/
theorem c13_fence_overlay_repaired (db : Nat → Mig) (cs : List FCmd) :
    runBatchF viewTrue db cs = seqF viewTrue db cs := by
  rw [runBatchF_eq]
  have := true_view_transparent db {} cs
  rw [commitF_empty] at this
  exact Prod.ext this.1 this.2

section Refused
variable {κ : Type} (cfg : Cfg) (d : Bytes → Except Err Nat) (one : One κ)

theorem seqSkip_eq_seqRun (st : St κ) (cs : List Cmd) (h : (seqRun cfg d one st cs).2.2 = none) :
    seqSkip cfg d one st cs = (seqRun cfg d one st cs).1 := by
  induction cs generalizing st with
  | nil => rfl
  | cons c cs ih =>
    cases hs : stepOne cfg d one st c with
    | error e => rw [seqRun_cons_err cfg d one st c cs e hs] at h; cases h
    | ok p =>
      obtain ⟨st', r⟩ := p
      rw [seqRun_cons_ok cfg d one st st' c cs r hs] at h ⊢
      simp only [seqSkip, hs]
      exact ih st' h

/-- **partition transparency with refused commands**: a batch is either applied exactly like
    the one-at-a-time run (no command refused), or refused as a whole with NOTHING written
    and then, resumed one at a time, reaches exactly the state of the one-at-a-time run that
    skips the refused commands.  Either way the state does not depend on the batching.
    (The only exception is the fence overlay, `c13_stale_fence_in_model`.) -/
theorem c13_refused_batch_resume (st : St κ) (cs : List Cmd) (hpos : ∀ c ∈ cs, c.index > st.applied) :
    runBatchResume cfg d one st cs = seqSkip cfg d one st cs := by
  have hpos0 : ∀ c ∈ cs, c.index > 0 := fun c hc => by have := hpos c hc; omega
  unfold runBatchResume
  cases hst : stage cfg d one st.kv cs with
  | error e =>
    rw [applyBatch_refused cfg d one st cs e hst]
    simp only
    have : replayTail st.applied cs = cs := by
      unfold replayTail
      exact List.filter_eq_self.2 (fun c hc => by simpa using hpos c hc)
    rw [this]
  | ok p =>
    obtain ⟨kv, rs, flag⟩ := p
    have hok := ((stage_seq cfg d one st cs).2 kv rs flag hst).1
    rw [applyBatch_eq_seq cfg d one st cs hpos0 hok]
    have : seqRun cfg d one st cs = ((seqRun cfg d one st cs).1, (seqRun cfg d one st cs).2.1, none) := by
      rw [← hok]
    rw [this]
    simp only
    exact (seqSkip_eq_seqRun cfg d one st cs hok).symm

end Refused

example : (runBatchResume demoCfg demoD demoOne ⟨[], 0⟩
    [⟨1, 1, 1, [1, 1, 7]⟩, ⟨1, 4, 2, [1, 19]⟩, ⟨1, 1, 3, [1, 1, 8]⟩]).kv = [[8], [7]] := by decide





/-! ### which hash slots a multi-hash-slot command writes (the ownership filter)
    validateCommandHashSlots on the direct path; on the ApplyDelta path
    `hashSlotFilteredCommand.applyForHashSlot` — implemented by the batch commands 47, 63,
    64, 65, NOT by command 59 (CreateChannelRuntimeMeta batch) -/

/-- a command carrying items, each bound to its own hash slot -/
structure MCmd where
  typ : Nat
  items : List (Nat × Nat)     -- (hash slot, row key)
deriving Repr, DecidableEq

/-- the multi-hash-slot command types with a per-hash-slot filter (`applyForHashSlot`) -/
def hasSlotFilter (typ : Nat) : Bool := typ == 47 || typ == 63 || typ == 64 || typ == 65

/-- the direct path: `validateCommandHashSlots` refuses the command (`none`, nothing written)
    unless every item's hash slot is owned -/
def directWrites (owned : List Nat) (c : MCmd) : Option (List (Nat × Nat)) :=
  if c.items.all (fun it => owned.contains it.1) then some c.items else none

/-- the ApplyDelta path for hash slot `hs`: `applyDeltaCmd.apply` — filtered commands apply
    only the items of `hs`, every other command is applied whole -/
def deltaWrites (hs : Nat) (c : MCmd) : List (Nat × Nat) :=
  if hasSlotFilter c.typ then c.items.filter (fun it => it.1 == hs) else c.items

/-- **delta_cmd59_writes_foreign_slot** (the finding as a theorem about the model): a delta
    for an owned hash slot wrapping a command-59 batch also writes the batch's items of a
    hash slot that is neither the delta's nor owned by the slot. -/
theorem c13_delta_cmd59_writes_foreign_slot :
    ∃ (owned : List Nat) (hs : Nat) (c : MCmd),
      c.typ = 59 ∧ owned.contains hs = true ∧ directWrites owned c = none ∧
      ∃ w ∈ deltaWrites hs c, w.1 ≠ hs ∧ owned.contains w.1 = false := by
  refine ⟨[1, 2, 3], 3, ⟨59, [(3, 10), (5, 11)]⟩, rfl, by decide, by decide, (5, 11), by decide, by decide, by decide⟩

/-- **unowned_refused_except_cmd59**: on the direct path a multi-hash-slot command writes
    only owned hash slots or is refused with nothing written; on the delta path a command of
    a type with the per-hash-slot filter writes only the delta's own hash slot — the one
    exception is a type without the filter (command 59), see above. -/
theorem c13_unowned_refused_except_cmd59 (owned : List Nat) (hs : Nat) (c : MCmd) :
    (∀ ws, directWrites owned c = some ws → ∀ w ∈ ws, owned.contains w.1 = true) ∧
    (directWrites owned c = none → ∃ it ∈ c.items, owned.contains it.1 = false) ∧
    (hasSlotFilter c.typ = true → ∀ w ∈ deltaWrites hs c, w.1 = hs) ∧
    (c.typ = 59 → deltaWrites hs c = c.items) := by
  refine ⟨?_, ?_, ?_, ?_⟩
  · intro ws h w hw
    unfold directWrites at h
    split at h
    · rename_i hall
      cases h
      exact List.all_eq_true.1 hall w hw
    · cases h
  · intro h
    unfold directWrites at h
    split at h
    · cases h
    · rename_i hall
      have hany : (c.items.any fun it => !owned.contains it.1) = true := by
        cases ha : (c.items.any fun it => !owned.contains it.1) with
        | true => rfl
        | false =>
          exfalso; apply hall
          rw [List.all_eq_true]
          intro x hx
          have := List.any_eq_false.1 ha x hx
          simpa using this
      obtain ⟨it, hit, hc⟩ := List.any_eq_true.1 hany
      exact ⟨it, hit, by simpa using hc⟩
  · intro hf w hw
    unfold deltaWrites at hw
    rw [hf] at hw
    simp only [if_true, List.mem_filter, beq_iff_eq] at hw
    exact hw.2
  · intro h59
    unfold deltaWrites hasSlotFilter
    simp [h59]

example : deltaWrites 3 ⟨47, [(3, 10), (5, 11)]⟩ = [(3, 10)] := by decide
example : directWrites [1, 2, 3] ⟨59, [(3, 10), (2, 11)]⟩ = some [(3, 10), (2, 11)] := by decide




section Plan
variable {κ : Type} (cfg : Cfg) (d : Bytes → Except Err Nat) (one : One κ)

/-- a whole plan: the log cut into consecutive batches, each applied with `runBatchResume` -/
def runPartition (st : St κ) (batches : List (List Cmd)) : St κ :=
  batches.foldl (fun s b => runBatchResume cfg d one s b) st

theorem seqSkip_append (st : St κ) (a b : List Cmd) :
    seqSkip cfg d one st (a ++ b) = seqSkip cfg d one (seqSkip cfg d one st a) b := by
  induction a generalizing st with
  | nil => rfl
  | cons c cs ih =>
    simp only [List.cons_append, seqSkip]
    cases stepOne cfg d one st c with
    | error e => exact ih st
    | ok p => exact ih p.1

/-- the applied index after a skipping run is the old one or the index of one of its commands -/
theorem seqSkip_applied (st : St κ) (cs : List Cmd) (hpos : ∀ c ∈ cs, c.index > 0) :
    (seqSkip cfg d one st cs).applied = st.applied ∨ ∃ c ∈ cs, (seqSkip cfg d one st cs).applied = c.index := by
  induction cs generalizing st with
  | nil => left; rfl
  | cons x xs ih =>
    have hx := hpos x (List.mem_cons_self ..)
    have hxs : ∀ c ∈ xs, c.index > 0 := fun c hc => hpos c (List.mem_cons_of_mem _ hc)
    simp only [seqSkip]
    cases hs : stepOne cfg d one st x with
    | error e =>
      simp only
      rcases ih st hxs with h | ⟨c, hc, h⟩
      · left; exact h
      · right; exact ⟨c, List.mem_cons_of_mem _ hc, h⟩
    | ok p =>
      obtain ⟨st', r⟩ := p
      simp only
      rcases ih st' hxs with h | ⟨c, hc, h⟩
      · rcases stepOne_applied cfg d one st st' x r hs hx with ha | ⟨he, _⟩
        · right; exact ⟨x, List.mem_cons_self .., by rw [h, ha]⟩
        · left; rw [h, he]
      · right; exact ⟨c, List.mem_cons_of_mem _ hc, h⟩

/-- **partition transparency for whole logs, refused commands included**: cut a log with
    increasing indices into consecutive batches in ANY way; applying the batches one after the
    other (a refused batch writes nothing and is resumed one command at a time above the applied
    index) reaches exactly the state of the one-at-a-time run that skips the refused commands —
    the statement the differential plans (`run 9,3,8,…`) test, for every plan. -/
theorem c13_any_partition_transparent (st : St κ) (batches : List (List Cmd))
    (hsorted : batches.flatten.Pairwise (fun a b => a.index < b.index))
    (hpos : ∀ c ∈ batches.flatten, c.index > st.applied) :
    runPartition cfg d one st batches = seqSkip cfg d one st batches.flatten := by
  induction batches generalizing st with
  | nil => rfl
  | cons b bs ih =>
    simp only [runPartition, List.foldl_cons, List.flatten_cons] at hsorted hpos ⊢
    have hb : ∀ c ∈ b, c.index > st.applied := fun c hc => hpos c (List.mem_append_left _ hc)
    rw [c13_refused_batch_resume cfg d one st b hb, seqSkip_append]
    have hs := List.pairwise_append.1 hsorted
    apply ih (seqSkip cfg d one st b) hs.2.1
    intro c hc
    rcases seqSkip_applied cfg d one st b (fun x hx => by have := hb x hx; omega) with h | ⟨x, hx, h⟩
    · rw [h]; exact hpos c (List.mem_append_right _ hc)
    · rw [h]; exact hs.2.2 x hx c hc

end Plan

example : (runPartition demoCfg demoD demoOne ⟨[], 0⟩
    [[⟨1, 1, 1, [1, 1, 7]⟩, ⟨1, 4, 2, [1, 19]⟩], [⟨1, 1, 3, [1, 1, 8]⟩]]).kv = [[8], [7]] := by decide


end WK.C13

import WK.Model.C07
import WK.Spec.C07
import WK.Proofs.C07_Inv8
import WK.Proofs.C07_Ref5
import WK.Proofs.C07_Ref7
import WK.Proofs.C07_Ref8
import WK.Proofs.C07_Ref9
import WK.Proofs.C07_Ref10
import WK.Proofs.C07_Phys
/-
  C07 — theorems about the executable store model (`WK.C07.step`, the function the
  driver runs against the real store).

  Proved here (all operations / all inputs):
    * c07_multi_channel_frame   an operation on one channel leaves every other channel's state untouched
    * c07_walk_rows             an accepted append stores exactly `mkRow (leo+1+i) recs[i]`, in order
    * c07_append_rows           ... and the channel's row list grows by exactly those rows (contiguous seqs, identical fields)
    * c07_fields_identical      reading a stored row back returns the appended fields byte for byte
    * c07_reopen_durable / c07_close_identity   reopen forgets only the LEO cache; closing a lease changes nothing
    * c07_loadLEO_idem          the cached LEO is stable
  NOT proved (checked differentially against the real store and the reference log only):
    index agreement after deletes, LEO coherence (`leoC = recoverLEO`) and the full
    model ⇒ reference-log refinement.  See props/C07.json `level_note`.
-/
namespace WK.C07

/-! ### frame -/

theorem chan_setChan_ne (st : Store) (c c' : Nat) (ch : Chan) (h : c' ≠ c) : (st.setChan c ch).chan c' = st.chan c' := by
  unfold Store.setChan Store.chan
  simp only [List.getD_eq_getElem?_getD]
  rw [List.getElem?_set_ne (Ne.symm h)]

theorem chan_gidx (st : Store) (g : List (Nat × (Nat × Nat))) (c : Nat) : ({ st with gidx := g } : Store).chan c = st.chan c := rfl

theorem stageRow_frame (c c' : Nat) (st : Store) (row : Row) (h : c' ≠ c) : (stageRow c st row).chan c' = st.chan c' := by
  unfold stageRow
  dsimp only
  rw [chan_gidx, chan_setChan_ne _ _ _ _ h]

theorem deleteRow_frame (c c' : Nat) (st : Store) (row : Row) (h : c' ≠ c) : (deleteRow c st row).chan c' = st.chan c' := by
  unfold deleteRow
  dsimp only
  split
  · rw [chan_gidx, chan_setChan_ne _ _ _ _ h]
  · rw [chan_setChan_ne _ _ _ _ h]

theorem foldl_frame (f : Store → Row → Store) (c' : Nat) (hf : ∀ st r, (f st r).chan c' = st.chan c')
    (rows : List Row) (st : Store) : (rows.foldl f st).chan c' = st.chan c' := by
  induction rows generalizing st with
  | nil => rfl
  | cons a t ih => simp only [List.foldl_cons]; rw [ih, hf]

theorem setLeoC_frame (st : Store) (c c' l : Nat) (h : c' ≠ c) : (setLeoC st c l).chan c' = st.chan c' := by
  unfold setLeoC; exact chan_setChan_ne _ _ _ _ h

theorem prepare_frame (st : Store) (c c' mode base : Nat) (recs : List Rec) (h : c' ≠ c) :
    (prepare st c mode base recs).1.chan c' = st.chan c' := by
  unfold prepare
  split
  · rfl
  · dsimp only
    split
    · exact chan_setChan_ne _ _ _ _ h
    · split <;> exact chan_setChan_ne _ _ _ _ h

theorem doAppend_frame (st : Store) (c c' mode base : Nat) (recs : List Rec) (h : c' ≠ c) :
    (doAppend st c mode base recs).1.chan c' = st.chan c' := by
  unfold doAppend
  have hp := prepare_frame st c c' mode base recs h
  rcases hpr : prepare st c mode base recs with ⟨st1, res⟩
  rw [hpr] at hp
  cases res with
  | error e => exact hp
  | ok v =>
    obtain ⟨rows, leo⟩ := v
    dsimp only
    by_cases he : rows.isEmpty = true
    · rw [if_pos he]; exact hp
    · rw [if_neg he]
      dsimp only
      rw [setLeoC_frame _ _ _ _ h, foldl_frame _ c' (fun s r => stageRow_frame _ c' s r h)]
      exact hp

theorem doFetch_frame (st : Store) (c c' base : Nat) (ck : Option Ckpt) (recs : List Rec) (h : c' ≠ c) :
    (doFetch st c base ck recs).1.chan c' = st.chan c' := by
  unfold doFetch
  have hp := prepare_frame st c c' 2 base recs h
  rcases hpr : prepare st c 2 base recs with ⟨st1, res⟩
  rw [hpr] at hp
  have e1 := fun (s : Store) (ch : Chan) => chan_setChan_ne s c c' ch h
  have e2 := fun (s : Store) (l : Nat) => setLeoC_frame s c c' l h
  have e3 := fun (rows : List Row) (s : Store) => foldl_frame (stageRow c) c' (fun s r => stageRow_frame c c' s r h) rows s
  cases res with
  | error e => exact hp
  | ok v =>
    obtain ⟨rows, leo⟩ := v
    dsimp only at hp ⊢
    cases ck <;> dsimp only <;> repeat' split
    all_goals (first | exact hp | (simp only [e1, e2, e3]; exact hp))

theorem doTrunc_frame (st : Store) (c c' f : Nat) (h : c' ≠ c) : (doTrunc st c f).1.chan c' = st.chan c' := by
  unfold doTrunc
  generalize (if f = 0 then 1 else f) = f'
  dsimp only
  by_cases hl : f' > (loadLEO (st.chan c)).1
  · rw [if_pos hl]; exact chan_setChan_ne _ _ _ _ h
  · rw [if_neg hl]
    cases readForward (loadLEO (st.chan c)).2.rows f' 0 0 0 with
    | error e => exact chan_setChan_ne _ _ _ _ h
    | ok victims =>
      dsimp only
      rw [setLeoC_frame _ _ _ _ h, foldl_frame _ c' (fun s r => deleteRow_frame _ c' s r h)]
      exact chan_setChan_ne _ _ _ _ h

theorem doTrim_frame (st : Store) (c c' t mm mb : Nat) (h : c' ≠ c) : (doTrim st c t mm mb).1.chan c' = st.chan c' := by
  unfold doTrim
  have e1 := fun (s : Store) (ch : Chan) => chan_setChan_ne s c c' ch h
  have e2 := fun (s : Store) (l : Nat) => setLeoC_frame s c c' l h
  have e3 := fun (rows : List Row) (s : Store) => foldl_frame (deleteRow c) c' (fun s r => deleteRow_frame c c' s r h) rows s
  by_cases h0 : t = 0
  · rw [if_pos h0]
  · rw [if_neg h0]
    dsimp only
    cases readForward (loadLEO (st.chan c)).2.rows _ t _ mb with
    | error e => exact chan_setChan_ne _ _ _ _ h
    | ok rows =>
      dsimp only
      repeat' split
      all_goals (first | exact e1 _ _ | simp only [e1, e2, e3])

theorem doRRead_frame (st : Store) (c c' f l b : Nat) (h : c' ≠ c) : (doRRead st c f l b).1.chan c' = st.chan c' := by
  unfold doRRead
  dsimp only
  by_cases hf : f = 0
  · simp only [hf, if_true]; split <;> exact chan_setChan_ne _ _ _ _ h
  · simp only [hf, if_false]; split <;> rfl

/-- **c07_multi_channel_frame**: an operation addressed to channel `c` does not
    change the state (rows, indexes, retention, checkpoint, cached LEO) of any
    other channel `c'` sharing the engine. -/
theorem c07_multi_channel_frame (st : Store) (op : Op) (c c' : Nat) (hc : op.chanOf = some c) (h : c' ≠ c) :
    (step st op).1.chan c' = st.chan c' := by
  cases op <;> simp only [Op.chanOf, Option.some.injEq, reduceCtorEq] at hc <;> subst hc
  case app mode base recs => exact doAppend_frame _ _ _ _ _ _ h
  case fetch base ck recs => exact doFetch_frame _ _ _ _ _ _ h
  case trunc f => exact doTrunc_frame _ _ _ _ h
  case trim t mm mb => exact doTrim_frame _ _ _ _ _ _ h
  case ckpt k => show (doCkpt st _ k).1.chan c' = _; unfold doCkpt; split <;> first | rfl | exact chan_setChan_ne _ _ _ _ h
  case ckptm k v l => show (doCkptm st _ k v l).1.chan c' = _; unfold doCkptm; split <;> first | rfl | exact chan_setChan_ne _ _ _ _ h
  case close => rfl
  case leo => exact chan_setChan_ne _ _ _ _ h
  case lret => rfl
  case lckpt => rfl
  case read f l b => show (doRead st _ f l b).1.chan c' = _; unfold doRead; dsimp only; split <;> rfl
  case rread f l b => exact doRRead_frame _ _ _ _ _ _ h
  case get => rfl
  case byid => rfl
  case lastvis => rfl
  case bycmn => rfl
  case idem => rfl
  case lss => rfl

example : (step Store.init (.app 1 0 0 [⟨5, [1], [2], [3], 4⟩])).1.chan 0 = Store.init.chan 0 :=
  c07_multi_channel_frame _ _ 1 0 rfl (by decide)

/-! ### an accepted append stores exactly the records, at contiguous sequences -/

/-- the rows an append of `recs` at `seq, seq+1, …` stores -/
def rowsOf (seq : Nat) : List Rec → List Row
  | [] => []
  | r :: rest => mkRow seq r :: rowsOf (seq + 1) rest

/-- **c07_walk_rows**: whatever the mode and whatever is stored, if validation
    accepts a batch then the staged rows are exactly `mkRow (seq+i) recs[i]` in
    order — contiguous sequences, every field of the record. -/
theorem c07_walk_rows (st : Store) (c mode seq : Nat) (recs : List Rec) (seen : Seen) (acc rows : List Row)
    (h : walkRows st c mode seq recs seen acc = .ok rows) : rows = acc.reverse ++ rowsOf seq recs := by
  induction recs generalizing seq seen acc with
  | nil => simp only [walkRows, Except.ok.injEq] at h; simp [rowsOf, ← h]
  | cons r rest ih =>
    unfold walkRows at h
    dsimp only at h
    split at h
    · cases h
    · have := ih _ _ _ h
      rw [this]; simp [rowsOf]

theorem setChan_chan_self (st : Store) (c : Nat) (ch : Chan) (hc : c < st.chans.length) : (st.setChan c ch).chan c = ch := by
  unfold Store.setChan Store.chan
  simp [List.getD_eq_getElem?_getD, hc]

theorem setChan_length (st : Store) (c : Nat) (ch : Chan) : (st.setChan c ch).chans.length = st.chans.length := by
  unfold Store.setChan; simp

theorem stageRow_rows (c : Nat) (st : Store) (row : Row) (hc : c < st.chans.length) :
    ((stageRow c st row).chan c).rows = (st.chan c).rows ++ [row] ∧ (stageRow c st row).chans.length = st.chans.length := by
  unfold stageRow
  dsimp only
  constructor
  · rw [chan_gidx, setChan_chan_self _ _ _ hc]
    split <;> split <;> split <;> rfl
  · exact setChan_length _ _ _

theorem foldl_stageRow_rows (c : Nat) (rows : List Row) (st : Store) (hc : c < st.chans.length) :
    ((rows.foldl (stageRow c) st).chan c).rows = (st.chan c).rows ++ rows ∧
    (rows.foldl (stageRow c) st).chans.length = st.chans.length := by
  induction rows generalizing st with
  | nil => simp
  | cons a t ih =>
    simp only [List.foldl_cons]
    obtain ⟨h1, h2⟩ := stageRow_rows c st a hc
    obtain ⟨h3, h4⟩ := ih (stageRow c st a) (by omega)
    rw [h3, h1, h4, h2]; simp

theorem loadLEO_rows (ch : Chan) : (loadLEO ch).2.rows = ch.rows := by
  unfold loadLEO; cases ch.leoC <;> rfl

/-- **c07_append_rows**: an accepted append (`ok base last n`, `n > 0`) extends the
    channel's row list by exactly `mkRow (base+i) recs[i]`, `base = LEO+1`,
    `last = LEO+n`: contiguous with the old log end, nothing else changes in the rows. -/
theorem c07_append_rows (st : Store) (c mode base : Nat) (recs : List Rec) (b l n : Nat)
    (hc : c < st.chans.length) (h : (doAppend st c mode base recs).2 = .app b l n) (hn : n > 0) :
    ((doAppend st c mode base recs).1.chan c).rows = (st.chan c).rows ++ rowsOf b recs ∧
    b = (loadLEO (st.chan c)).1 + 1 ∧ l = (loadLEO (st.chan c)).1 + recs.length ∧ n = recs.length := by
  unfold doAppend at h ⊢
  unfold prepare at h ⊢
  by_cases hm : mode > 2
  · rw [if_pos hm] at h; simp at h
  rw [if_neg hm] at h ⊢
  dsimp only at h ⊢
  by_cases hb : base ≠ 0 ∧ base ≠ (loadLEO (st.chan c)).1 + 1
  · rw [if_pos hb] at h; simp at h
  rw [if_neg hb] at h ⊢
  cases hw : walkRows (st.setChan c (loadLEO (st.chan c)).2) c mode ((loadLEO (st.chan c)).1 + 1) recs {} [] with
  | error e => rw [hw] at h; dsimp only at h; cases h
  | ok rows =>
    rw [hw] at h
    dsimp only at h ⊢
    have hrows := c07_walk_rows _ _ _ _ _ _ _ _ hw
    simp only [List.reverse_nil, List.nil_append] at hrows
    have hlen : ∀ s (rs : List Rec), (rowsOf s rs).length = rs.length := by
      intro s rs; induction rs generalizing s with
      | nil => rfl
      | cons a t ih => simp [rowsOf, ih]
    by_cases he : rows.isEmpty = true
    · rw [if_pos he] at h
      simp only [Out.app.injEq] at h
      omega
    · rw [if_neg he] at h ⊢
      simp only [Out.app.injEq] at h
      obtain ⟨hb', hl', hn'⟩ := h
      dsimp only
      have hc' : c < (st.setChan c (loadLEO (st.chan c)).2).chans.length := by rw [setChan_length]; exact hc
      obtain ⟨hr, hlen'⟩ := foldl_stageRow_rows c rows (st.setChan c (loadLEO (st.chan c)).2) hc'
      refine ⟨?_, hb'.symm, ?_, ?_⟩
      · unfold setLeoC
        rw [setChan_chan_self _ _ _ (by rw [hlen']; exact hc')]
        dsimp only
        rw [hr, setChan_chan_self _ _ _ hc, loadLEO_rows, hrows, ← hb']
      · rw [← hl', hrows, hlen]
      · rw [← hn', hrows, hlen]

example : ((doAppend Store.init 2 0 0 [⟨5, [1], [2], [3], 4⟩, ⟨6, [], [], [], 9⟩]).1.chan 2).rows
    = [mkRow 1 ⟨5, [1], [2], [3], 4⟩, mkRow 2 ⟨6, [], [], [], 9⟩] := by decide +kernel

/-- **c07_fields_identical**: a row stored by an append reads back (`GetBySeq`)
    with every field identical to the appended record — also with an empty payload. -/
theorem c07_fields_identical (rows : List Row) (s : Nat) (r : Rec) (hs : s ≠ 0) (hid : r.id ≠ 0)
    (hfresh : ∀ x ∈ rows, x.seq ≠ s) : getRow (rows ++ [mkRow s r]) s = .ok (some (mkRow s r)) := by
  unfold getRow
  rw [if_neg hs]
  have hf : (rows ++ [mkRow s r]).find? (fun x => x.seq = s) = some (mkRow s r) := by
    rw [List.find?_append]
    have : rows.find? (fun x => x.seq = s) = none := by
      rw [List.find?_eq_none]; intro x hx; simpa using hfresh x hx
    rw [this]; simp [mkRow]
  rw [hf]
  have : rowCheck (mkRow s r) = .ok () := by
    unfold rowCheck; simp [mkRow, hid]
  simp [this]

example : getRow ([] ++ [mkRow 1 ⟨7, [1], [], [], 3⟩]) 1 = .ok (some (mkRow 1 ⟨7, [1], [], [], 3⟩)) :=
  c07_fields_identical [] 1 _ (by decide) (by decide) (by intro x hx; cases hx)

/-! ### close / reopen -/

/-- **c07_close_identity**: closing a lease changes nothing (the registry keeps the entry's append state warm) -/
theorem c07_close_identity (st : Store) (c : Nat) : (step st (.close c)).1 = st := rfl

/-- **c07_reopen_durable**: a whole-DB reopen forgets exactly the cached LEO of every
    channel; rows, indexes, retention state and checkpoint are unchanged -/
theorem c07_reopen_durable (st : Store) (c : Nat) :
    ((step st .reopen).1.chan c).rows = (st.chan c).rows ∧ ((step st .reopen).1.chan c).iidx = (st.chan c).iidx ∧
    ((step st .reopen).1.chan c).cidx = (st.chan c).cidx ∧ ((step st .reopen).1.chan c).sidx = (st.chan c).sidx ∧
    ((step st .reopen).1.chan c).ret = (st.chan c).ret ∧ ((step st .reopen).1.chan c).ck = (st.chan c).ck ∧
    ((step st .reopen).1.chan c).leoC = none ∧ (step st .reopen).1.gidx = st.gidx := by
  unfold step doReopen Store.chan
  simp only [List.getD_eq_getElem?_getD, List.getElem?_map]
  cases st.chans[c]? <;> simp

/-- **c07_loadLEO_idem**: once loaded, the cached LEO is what every later load returns -/
theorem c07_loadLEO_idem (ch : Chan) : loadLEO (loadLEO ch).2 = ((loadLEO ch).1, (loadLEO ch).2) := by
  unfold loadLEO
  cases h : ch.leoC <;> simp [h]


/-! ### the store invariant over whole histories (phase 3) -/

/-- **c07_inv_init**: the empty store satisfies the invariant -/
theorem c07_inv_init : Inv Store.init := inv_init

/-- **c07_inv_step**: every operation of `step` preserves `Inv` under its caller
    contract `Safe` (fresh ids outside strict mode, leader-validated keys in trusted
    mode, and — the known finding made explicit — a raw `TruncateFrom` must not cut
    below the durable RetainedMaxSeq). -/
theorem c07_inv_step (st : Store) (op : Op) (hi : Inv st) (hs : Safe st op) : Inv (step st op).1 := inv_step st op hi hs

/-- **c07_inv_run**: for ALL operation sequences that respect the contracts, starting
    from the empty store, the invariant holds at the end (hence after every prefix). -/
theorem c07_inv_run (ops : List Op) (hs : SafeRun Store.init ops) : Inv (run Store.init ops) :=
  inv_run Store.init ops inv_init hs

-- non-vacuity: a strict append, a trim, an append, a reopen
example : SafeRun Store.init [.app 0 0 0 [⟨5, [1], [2], [3], 4⟩], .trim 0 1 0 0, .reopen] :=
  ⟨⟨by decide, fun h => absurd rfl h, fun h => by cases h⟩, (by show 0 < numChan; decide), trivial, trivial⟩

/-- **c07_contiguous**: in every reachable store, each channel's rows have pairwise
    different sequences, none above the log end, and there is NO HOLE between the
    logical retention floor and the log end; the cached LEO is the recovered LEO
    (so lease close/reopen and whole-DB reopen cannot change it). -/
theorem c07_contiguous (st : Store) (hi : Inv st) (c : Nat) :
    (∀ r ∈ (st.chan c).rows, r.seq ≤ recoverLEO (st.chan c)) ∧
    (∀ s, floorOf (st.chan c) < s → s ≤ recoverLEO (st.chan c) → ∃ r ∈ (st.chan c).rows, r.seq = s) ∧
    (st.chan c).rows.Pairwise (fun a b => a.seq ≠ b.seq) ∧
    (∀ l, (st.chan c).leoC = some l → l = recoverLEO (st.chan c)) :=
  ⟨fun r hr => le_recoverLEO _ r hr, (hi.chan c).noHoles, (hi.chan c).nodup, (hi.chan c).cache⟩

/-- **c07_leo_reopen**: a whole-DB reopen does not change the LEO a channel reports -/
theorem c07_leo_reopen (st : Store) (hi : Inv st) (c : Nat) :
    (loadLEO ((step st .reopen).1.chan c)).1 = (loadLEO (st.chan c)).1 := by
  show (loadLEO ((doReopen st).chan c)).1 = _
  rw [loadLEO_val _ (hi.chan c), loadLEO_val _ ((doReopen_inv st hi).chan c), reopen_chan]
  rfl

/-- **c07_index_agree**: in every reachable store every index entry points to a live
    row with the same key fields, and every live row has its entries (all four indexes). -/
theorem c07_index_agree (st : Store) (hi : Inv st) (c : Nat) :
    GAgree st ∧ IAgree (st.chan c) ∧ SAgree (st.chan c) ∧ CAgree (st.chan c) :=
  ⟨hi.gidx, (hi.chan c).iidx, (hi.chan c).sidx, (hi.chan c).cidx⟩

/-- a lookup by message id never returns a removed or a different row (the code's own stale check) … -/
theorem c07_byid_sound (st : Store) (c id : Nat) (r : Row) (h : doByid st c id = .msg r) :
    r ∈ (st.chan c).rows ∧ r.id = id := by
  unfold doByid at h
  by_cases h0 : id = 0
  · rw [if_pos h0] at h; cases h
  rw [if_neg h0] at h
  cases hl : alookup id st.gidx with
  | none => rw [hl] at h; cases h
  | some v =>
    obtain ⟨c', s⟩ := v
    rw [hl] at h
    dsimp only at h
    by_cases hc : c' ≠ c
    · rw [if_pos hc] at h; cases h
    rw [if_neg hc] at h
    cases hg : getRow (st.chan c).rows s with
    | error e => rw [hg] at h; cases h
    | ok o =>
      rw [hg] at h
      cases o with
      | none => cases h
      | some x =>
        dsimp only at h
        by_cases hid : x.id ≠ id
        · rw [if_pos hid] at h; cases h
        rw [if_neg hid] at h
        simp only [Out.msg.injEq] at h
        subst h
        refine ⟨?_, by simpa using hid⟩
        unfold getRow at hg
        by_cases hs0 : s = 0
        · rw [if_pos hs0] at hg; cases hg
        rw [if_neg hs0] at hg
        cases hf : (st.chan c).rows.find? (fun r => r.seq = s) with
        | none => rw [hf] at hg; cases hg
        | some y =>
          rw [hf] at hg
          dsimp only at hg
          cases hck : rowCheck y with
          | error e => rw [hck] at hg; cases hg
          | ok u =>
            rw [hck] at hg
            simp only [Except.ok.injEq, Option.some.injEq] at hg
            subst hg
            exact List.mem_of_find?_eq_some hf

/-- … and, under the invariant, it finds every live row of the channel (no stale or missing entry). -/
theorem c07_byid_complete (st : Store) (hi : Inv st) (c : Nat) (r : Row) (hr : r ∈ (st.chan c).rows)
    (hchk : rowCheck r = .ok ()) : doByid st c r.id = .msg r := by
  have hnz := (hi.chan c).nz r hr
  have hl := (hi.gidx r.id c r.seq).mpr ⟨r, hr, rfl, rfl⟩
  unfold doByid
  rw [if_neg hnz.1, hl]
  dsimp only
  rw [if_neg (fun h => h rfl)]
  have hf : (st.chan c).rows.find? (fun x => x.seq = r.seq) = some r := by
    cases hfind : (st.chan c).rows.find? (fun x => x.seq = r.seq) with
    | none =>
      have := List.find?_eq_none.mp hfind r hr
      simp at this
    | some x =>
      have hx := List.mem_of_find?_eq_some hfind
      have hs := List.find?_some hfind
      simp only [decide_eq_true_eq] at hs
      rw [(hi.chan c).uniq x hx r hr hs]
  unfold getRow
  rw [if_neg hnz.2, hf]
  simp [hchk]

example : doByid (step Store.init (.app 1 0 0 [⟨5, [1], [2], [3], 4⟩])).1 1 5 = .msg (mkRow 1 ⟨5, [1], [2], [3], 4⟩) := by
  decide +kernel

/-- the known finding as a theorem: a raw `TruncateFrom` below the RetainedMaxSeq left by
    a prefix trim (contract `SafeTrunc` violated) breaks LEO coherence — the cached LEO
    is 4, a reopened database recovers 6. -/
theorem c07_truncate_below_retained_counterexample :
    let ops : List Op := [.app 0 0 0 ((List.range 6).map (fun i => ⟨i + 1, [], [], [7], 1⟩)), .trim 0 2 0 0, .trunc 0 5]
    ((run Store.init ops).chan 0).leoC = some 4 ∧ recoverLEO ((run Store.init ops).chan 0) = 6 ∧
    ¬ SafeTrunc (run Store.init (ops.take 2)) 0 5 := by
  refine ⟨by decide +kernel, by decide +kernel, ?_⟩
  intro h
  have := h.2 (by decide +kernel)
  revert this
  decide +kernel

/-! ### refinement by the reference sequential log (phase 4; covered constructors only) -/

/-- the constructors whose refinement is proved: appends in all three modes, lease close, whole-DB
    reopen, LEO / retention / checkpoint loads, forward and reverse reads, GetBySeq, GetLastVisibleMessage.
    NOT covered (differential only): follower apply (`fetch`), `trunc`, `trim`, `ckpt`, `ckptm`, `byid`,
    `bycmn`, `idem`, `lss`. -/
def Covered : Op → Prop
  | .app .. | .close _ | .reopen | .leo _ | .lret _ | .lckpt _ | .read .. | .rread .. | .get .. | .lastvis .. => True
  | _ => False

/-- **c07_refines_append**: `ChannelLog.Append` in strict, server-allocated-id and trusted mode (and an
    invalid mode) refines the reference log's append — same accept/reject decision with the same error,
    same assigned sequences, same resulting rows / log end / retention / checkpoint — in every reachable
    store (`Inv`, per-row hash check `Chk`) under the caller contract `SafeBatch`. -/
theorem c07_refines_append (st : Store) (c mode base : Nat) (recs : List Rec) (hi : Inv st) (hk : Chk st)
    (hs : SafeBatch st c mode recs) : Refines st (.app c mode base recs) := refines_append st c mode base recs hi hk hs

example : Refines Store.init (.app 0 0 0 [⟨5, [1], [2], [3], 4⟩]) :=
  c07_refines_append _ _ _ _ _ inv_init (by intro c r hr; rw [init_chan] at hr; cases hr)
    ⟨by decide, fun h => absurd rfl h, fun h => by cases h⟩

theorem c07_refines_close (st : Store) (c : Nat) (hk : Chk st) : Refines st (.close c) := refines_close st c hk
theorem c07_refines_reopen (st : Store) (hk : Chk st) : Refines st .reopen := refines_reopen st hk
theorem c07_refines_leo (st : Store) (c : Nat) (hi : Inv st) (hk : Chk st) (hc : c < numChan) : Refines st (.leo c) := refines_leo st c hi hk hc
theorem c07_refines_lret (st : Store) (c : Nat) (hk : Chk st) : Refines st (.lret c) := refines_lret st c hk
theorem c07_refines_lckpt (st : Store) (c : Nat) (hk : Chk st) : Refines st (.lckpt c) := refines_lckpt st c hk
theorem c07_refines_read (st : Store) (c f l b : Nat) (hk : Chk st) : Refines st (.read c f l b) := refines_read st c f l b hk
theorem c07_refines_rread (st : Store) (c f l b : Nat) (hi : Inv st) (hk : Chk st) (hc : c < numChan) :
    Refines st (.rread c f l b) := refines_rread st c f l b hi hk hc
theorem c07_refines_get (st : Store) (c s : Nat) (hk : Chk st) : Refines st (.get c s) := refines_get st c s hk
theorem c07_refines_lastvis (st : Store) (c a : Nat) (hi : Inv st) (hk : Chk st) : Refines st (.lastvis c a) := refines_lastvis st c a hi hk

/-- **c07_refines_step_partial**: one step of a covered constructor — the abstraction of the model's next
    store is the reference log's next state, the outputs are equal, and the hash invariant is kept.
    Missing for the unconditional `c07_refines_step`: the constructors listed at `Covered`. -/
theorem c07_refines_step_partial (st : Store) (op : Op) (hi : Inv st) (hk : Chk st) (hs : Safe st op) (hc : Covered op) :
    Refines st op := by
  cases op with
  | app c mode base recs => exact refines_append st c mode base recs hi hk hs
  | close c => exact refines_close st c hk
  | reopen => exact refines_reopen st hk
  | leo c => exact refines_leo st c hi hk hs
  | lret c => exact refines_lret st c hk
  | lckpt c => exact refines_lckpt st c hk
  | read c f l b => exact refines_read st c f l b hk
  | rread c f l b => exact refines_rread st c f l b hi hk hs
  | get c s => exact refines_get st c s hk
  | lastvis c a => exact refines_lastvis st c a hi hk
  | fetch _ _ _ _ => exact absurd hc (by simp [Covered])
  | trunc _ _ => exact absurd hc (by simp [Covered])
  | trim _ _ _ _ => exact absurd hc (by simp [Covered])
  | ckpt _ _ => exact absurd hc (by simp [Covered])
  | ckptm _ _ _ _ => exact absurd hc (by simp [Covered])
  | byid _ _ => exact absurd hc (by simp [Covered])
  | bycmn _ _ _ _ => exact absurd hc (by simp [Covered])
  | idem _ _ _ => exact absurd hc (by simp [Covered])
  | lss _ _ _ => exact absurd hc (by simp [Covered])

/-- the reference log run over an operation list -/
def specRun (s : SStore) (ops : List Op) : SStore := ops.foldl (fun s o => (specStep s o).1) s

/-- **c07_refines_run_partial**: for every list of covered operations respecting the contracts, running the
    model and abstracting equals running the reference log on the abstraction, and at every step the outputs agree. -/
theorem c07_refines_run_partial (ops : List Op) (st : Store) (hi : Inv st) (hk : Chk st) (hs : SafeRun st ops)
    (hc : ∀ op ∈ ops, Covered op) :
    abs (run st ops) = specRun (abs st) ops ∧ Inv (run st ops) ∧ Chk (run st ops) ∧
    ∀ (pre : List Op) (op : Op) (post : List Op), ops = pre ++ op :: post →
      (step (run st pre) op).2 = (specStep (specRun (abs st) pre) op).2 := by
  induction ops generalizing st with
  | nil => exact ⟨rfl, hi, hk, fun pre op post h => by cases pre <;> cases h⟩
  | cons o rest ih =>
    have R := c07_refines_step_partial st o hi hk hs.1 (hc o List.mem_cons_self)
    have I1 := inv_step st o hi hs.1
    obtain ⟨a, b, c, d⟩ := ih (step st o).1 I1 R.2.2 hs.2 (fun op h => hc op (List.mem_cons_of_mem _ h))
    refine ⟨?_, b, c, ?_⟩
    · show abs (run (step st o).1 rest) = specRun (specStep (abs st) o).1 rest
      rw [a, R.1]
    · intro pre op post h
      cases pre with
      | nil =>
        simp only [List.nil_append, List.cons.injEq] at h
        obtain ⟨e, _⟩ := h
        subst e
        exact R.2.1
      | cons p pre' =>
        simp only [List.cons_append, List.cons.injEq] at h
        obtain ⟨e, h'⟩ := h
        subst e
        have := d pre' op post h'
        show (step (run (step st o).1 pre') op).2 = (specStep (specRun (specStep (abs st) o).1 pre') op).2
        rw [← R.1]; exact this

example : Covered (.app 0 0 0 []) ∧ Covered .reopen ∧ ¬ Covered (.trunc 0 1) := ⟨trivial, trivial, fun h => h⟩

/-! ### refinement, final round: follower apply and checkpoint stores -/

/-- **c07_refines_fetch**: `ChannelLog.ApplyFetch` (trusted records, optional checkpoint written in the same
    batch, checkpoint gate included) refines the reference log's follower apply. -/
theorem c07_refines_fetch (st : Store) (c base : Nat) (ck : Option Ckpt) (recs : List Rec) (hi : Inv st) (hk : Chk st)
    (hs : SafeBatch st c 2 recs) : Refines st (.fetch c base ck recs) := refines_fetch st c base ck recs hi hk hs

example : Refines Store.init (.fetch 1 1 (some ⟨0, 0, 1⟩) [⟨5, [1], [2], [3], 4⟩]) :=
  c07_refines_fetch _ _ _ _ _ inv_init (by intro c r hr; rw [init_chan] at hr; cases hr)
    ⟨by decide, fun _ rc hrc => by simp at hrc; subst hrc; rfl, fun _ rc hrc _ _ => by simp at hrc; subst hrc; rfl⟩

/-- **c07_refines_ckpt / c07_refines_ckptm**: `StoreCheckpoint` and `StoreCheckpointMonotonic` refine the reference log. -/
theorem c07_refines_ckpt (st : Store) (c : Nat) (k : Ckpt) (hi : Inv st) (hk : Chk st) (hc : c < numChan) :
    Refines st (.ckpt c k) := refines_ckpt st c k hi hk hc
theorem c07_refines_ckptm (st : Store) (c : Nat) (k : Ckpt) (v l : Nat) (hi : Inv st) (hk : Chk st) (hc : c < numChan) :
    Refines st (.ckptm c k v l) := refines_ckptm st c k v l hi hk hc

example : Refines Store.init (.ckpt 0 ⟨1, 0, 0⟩) ∧ Refines Store.init (.ckptm 0 ⟨1, 0, 0⟩ 0 0) :=
  ⟨c07_refines_ckpt _ _ _ inv_init (by intro c r hr; rw [init_chan] at hr; cases hr) (by decide),
   c07_refines_ckptm _ _ _ _ _ inv_init (by intro c r hr; rw [init_chan] at hr; cases hr) (by decide)⟩

/-- **c07_refines_trunc**: `TruncateFrom` refines the reference log's suffix truncation under the contract
    `SafeTrunc` (not below the durable RetainedMaxSeq — outside it the refinement is FALSE, see
    `c07_truncate_below_retained_counterexample`). -/
theorem c07_refines_trunc (st : Store) (c f : Nat) (hi : Inv st) (hk : Chk st) (hs : SafeTrunc st c f) :
    Refines st (.trunc c f) := refines_trunc st c f hi hk hs

example : Refines Store.init (.trunc 2 3) := by
  refine c07_refines_trunc _ _ _ inv_init (by intro c r hr; rw [init_chan] at hr; cases hr) ⟨by decide, ?_⟩
  intro h
  have : recoverLEO (Store.init.chan 2) = 0 := by rw [init_chan]; rfl
  rw [this] at h
  simp at h

/-- **c07_refines_byid / c07_refines_idem**: `GetByMessageID` and `LookupIdempotency` (index lookups) return exactly what
    the reference log derives from its rows — never a removed or different row, never a stale-index error. -/
theorem c07_refines_byid (st : Store) (c id : Nat) (hi : Inv st) (hk : Chk st) : Refines st (.byid c id) := refines_byid st c id hi hk
theorem c07_refines_idem (st : Store) (c : Nat) (frm cmn : B) (hi : Inv st) (hk : Chk st) : Refines st (.idem c frm cmn) :=
  refines_idem st c frm cmn hi hk

example : Refines Store.init (.byid 0 7) ∧ Refines Store.init (.idem 0 [1] [2]) :=
  ⟨c07_refines_byid _ _ _ inv_init (by intro c r hr; rw [init_chan] at hr; cases hr),
   c07_refines_idem _ _ _ _ inv_init (by intro c r hr; rw [init_chan] at hr; cases hr)⟩

/-- the constructors covered after the final round: everything except `trim`, `bycmn` and `lss` -/
def Covered2 : Op → Prop
  | .trim .. | .bycmn .. | .lss .. => False
  | _ => True

/-- **c07_refines_step_partial2**: one step of any constructor except `trim`, `bycmn`, `lss` refines the reference log
    (state abstraction, equal outputs, hash invariant kept) in every reachable store under `Safe`.
    Missing for the unconditional `c07_refines_step`: those three constructors (for `trim` the invariant lacks
    `physical ≤ logical`, needed to show the model's `validateRetentionState` never fires; `bycmn` and `lss`
    need list-level index agreement). -/
theorem c07_refines_step_partial2 (st : Store) (op : Op) (hi : Inv st) (hk : Chk st) (hs : Safe st op) (hc : Covered2 op) :
    Refines st op := by
  cases op with
  | app c mode base recs => exact refines_append st c mode base recs hi hk hs
  | fetch c base ck recs => exact refines_fetch st c base ck recs hi hk hs
  | trunc c f => exact refines_trunc st c f hi hk hs
  | ckpt c k => exact refines_ckpt st c k hi hk hs
  | ckptm c k v l => exact refines_ckptm st c k v l hi hk hs
  | close c => exact refines_close st c hk
  | reopen => exact refines_reopen st hk
  | leo c => exact refines_leo st c hi hk hs
  | lret c => exact refines_lret st c hk
  | lckpt c => exact refines_lckpt st c hk
  | read c f l b => exact refines_read st c f l b hk
  | rread c f l b => exact refines_rread st c f l b hi hk hs
  | get c s => exact refines_get st c s hk
  | byid c id => exact refines_byid st c id hi hk
  | lastvis c a => exact refines_lastvis st c a hi hk
  | idem c f m => exact refines_idem st c f m hi hk
  | trim _ _ _ _ => exact absurd hc (by simp [Covered2])
  | bycmn _ _ _ _ => exact absurd hc (by simp [Covered2])
  | lss _ _ _ => exact absurd hc (by simp [Covered2])

/-- **c07_refines_run_partial2**: for every operation list without `trim`/`bycmn`/`lss` that respects the contracts —
    appends in all modes, follower applies, truncations, checkpoint stores, closes, reopens, reads and lookups —
    abstracting the model run equals running the reference log, the invariants hold at the end, and the outputs agree at every position. -/
theorem c07_refines_run_partial2 (ops : List Op) (st : Store) (hi : Inv st) (hk : Chk st) (hs : SafeRun st ops)
    (hc : ∀ op ∈ ops, Covered2 op) :
    abs (run st ops) = specRun (abs st) ops ∧ Inv (run st ops) ∧ Chk (run st ops) ∧
    ∀ (pre : List Op) (op : Op) (post : List Op), ops = pre ++ op :: post →
      (step (run st pre) op).2 = (specStep (specRun (abs st) pre) op).2 := by
  induction ops generalizing st with
  | nil => exact ⟨rfl, hi, hk, fun pre op post h => by cases pre <;> cases h⟩
  | cons o rest ih =>
    have R := c07_refines_step_partial2 st o hi hk hs.1 (hc o List.mem_cons_self)
    have I1 := inv_step st o hi hs.1
    obtain ⟨a, b, c, d⟩ := ih (step st o).1 I1 R.2.2 hs.2 (fun op h => hc op (List.mem_cons_of_mem _ h))
    refine ⟨?_, b, c, ?_⟩
    · show abs (run (step st o).1 rest) = specRun (specStep (abs st) o).1 rest
      rw [a, R.1]
    · intro pre op post h
      cases pre with
      | nil =>
        simp only [List.nil_append, List.cons.injEq] at h
        obtain ⟨e, _⟩ := h
        subst e
        exact R.2.1
      | cons p pre' =>
        simp only [List.cons_append, List.cons.injEq] at h
        obtain ⟨e, h'⟩ := h
        subst e
        have := d pre' op post h'
        show (step (run (step st o).1 pre') op).2 = (specStep (specRun (specStep (abs st) o).1 pre') op).2
        rw [← R.1]; exact this

example : Covered2 (.fetch 0 1 none []) ∧ Covered2 (.trunc 0 1) ∧ Covered2 (.idem 0 [1] [2]) ∧ ¬ Covered2 (.trim 0 1 0 0) :=
  ⟨trivial, trivial, trivial, fun h => h⟩

/-- **c07_refines_trim_partial**: `TrimPrefixThrough(Limit)` (bounded or not, also beyond LEO) refines the reference log's
    prefix trim — same deleted rows, same retention triple, same log end, same result — given that the stored retention
    state satisfies `physical ≤ logical` (`PhysLeLoc`, what `validateRetentionState` enforces before every write; this
    is the missing hypothesis: it is not yet part of `Inv`). -/
theorem c07_refines_trim_partial (st : Store) (c t mm mb : Nat) (hi : Inv st) (hk : Chk st) (hcn : c < numChan)
    (hpl : PhysLeLoc (st.chan c)) : Refines st (.trim c t mm mb) := refines_trim st c t mm mb hi hk hcn hpl

example : Refines Store.init (.trim 1 3 2 0) :=
  c07_refines_trim_partial _ _ _ _ _ inv_init (by intro c r hr; rw [init_chan] at hr; cases hr) (by decide)
    (by rw [init_chan]; exact Nat.le_refl _)

/-! ### refinement, round 6: `trim` folded into the run theorem (`physical ≤ logical` derived, not assumed) -/

/-- the constructors covered after round 6: everything except `bycmn` and `lss` -/
def Covered3 : Op → Prop
  | .bycmn .. | .lss .. => False
  | _ => True

/-- **c07_refines_step_partial3**: one step of any constructor except `bycmn`/`lss` — now including
    `TrimPrefixThrough(Limit)` — refines the reference log, and the extra invariant `PhysAll` (every channel's
    stored retention state has physical ≤ logical, what `validateRetentionState` checks) is preserved, so the
    hypothesis `PhysLeLoc` of `c07_refines_trim_partial` is available again at the next step. -/
theorem c07_refines_step_partial3 (st : Store) (op : Op) (hi : Inv st) (hk : Chk st) (hs : Safe st op) (hc : Covered3 op)
    (hp : PhysAll st) : Refines st op ∧ PhysAll (step st op).1 := by
  have R : Refines st op := by
    cases op with
    | trim c t mm mb => exact refines_trim st c t mm mb hi hk hs (hp c)
    | bycmn _ _ _ _ => exact absurd hc (by simp [Covered3])
    | lss _ _ _ => exact absurd hc (by simp [Covered3])
    | _ => exact c07_refines_step_partial2 st _ hi hk hs trivial
  refine ⟨R, ?_⟩
  rw [← sphys_abs, R.1]
  exact specStep_sphys _ _ ((sphys_abs st).mpr hp)

/-- **c07_physle_init**: the empty store satisfies `PhysAll`. -/
theorem c07_physle_init : PhysAll Store.init := physAll_init

/-- **c07_refines_run_partial3**: for every operation list without `bycmn`/`lss` that respects the contracts — appends
    in all modes, follower applies, truncations, PREFIX TRIMS (bounded or not), checkpoint stores, closes, reopens,
    reads and lookups — abstracting the model run equals running the reference log, `Inv`, `Chk` and `PhysAll` hold
    at the end, and the outputs agree at every position. -/
theorem c07_refines_run_partial3 (ops : List Op) (st : Store) (hi : Inv st) (hk : Chk st) (hp : PhysAll st)
    (hs : SafeRun st ops) (hc : ∀ op ∈ ops, Covered3 op) :
    abs (run st ops) = specRun (abs st) ops ∧ Inv (run st ops) ∧ Chk (run st ops) ∧ PhysAll (run st ops) ∧
    ∀ (pre : List Op) (op : Op) (post : List Op), ops = pre ++ op :: post →
      (step (run st pre) op).2 = (specStep (specRun (abs st) pre) op).2 := by
  induction ops generalizing st with
  | nil => exact ⟨rfl, hi, hk, hp, fun pre op post h => by cases pre <;> cases h⟩
  | cons o rest ih =>
    obtain ⟨R, P1⟩ := c07_refines_step_partial3 st o hi hk hs.1 (hc o List.mem_cons_self) hp
    have I1 := inv_step st o hi hs.1
    obtain ⟨a, b, c, p, d⟩ := ih (step st o).1 I1 R.2.2 P1 hs.2 (fun op h => hc op (List.mem_cons_of_mem _ h))
    refine ⟨?_, b, c, p, ?_⟩
    · show abs (run (step st o).1 rest) = specRun (specStep (abs st) o).1 rest
      rw [a, R.1]
    · intro pre op post h
      cases pre with
      | nil =>
        simp only [List.nil_append, List.cons.injEq] at h
        obtain ⟨e, _⟩ := h
        subst e
        exact R.2.1
      | cons p pre' =>
        simp only [List.cons_append, List.cons.injEq] at h
        obtain ⟨e, h'⟩ := h
        subst e
        have := d pre' op post h'
        show (step (run (step st o).1 pre') op).2 = (specStep (specRun (specStep (abs st) o).1 pre') op).2
        rw [← R.1]; exact this

/-- **c07_refines_run_init**: from the EMPTY store no invariant has to be assumed: every contract-respecting history
    without `bycmn`/`lss` is answered position by position exactly as the reference sequential log answers it. -/
theorem c07_refines_run_init (ops : List Op) (hs : SafeRun Store.init ops) (hc : ∀ op ∈ ops, Covered3 op) :
    abs (run Store.init ops) = specRun (abs Store.init) ops ∧
    ∀ (pre : List Op) (op : Op) (post : List Op), ops = pre ++ op :: post →
      (step (run Store.init pre) op).2 = (specStep (specRun (abs Store.init) pre) op).2 := by
  obtain ⟨a, _, _, _, d⟩ := c07_refines_run_partial3 ops Store.init inv_init
    (by intro c r hr; rw [init_chan] at hr; cases hr) physAll_init hs hc
  exact ⟨a, d⟩

/-- non-vacuity: a history with an append, a bounded trim and a second trim meets every hypothesis -/
example : SafeRun Store.init [.app 0 0 0 [⟨5, [1], [2], [3], 4⟩], .trim 0 1 1 0, .trim 0 3 0 0] ∧
    (∀ op ∈ [Op.app 0 0 0 [⟨5, [1], [2], [3], 4⟩], .trim 0 1 1 0, .trim 0 3 0 0], Covered3 op) := by
  refine ⟨⟨⟨by decide, fun h => absurd rfl h, fun h => by cases h⟩, (by show 0 < numChan; decide), (by show 0 < numChan; decide), trivial⟩, ?_⟩
  intro op h
  simp only [List.mem_cons, List.not_mem_nil, or_false] at h
  rcases h with e | e | e <;> subst e <;> trivial

example : Covered3 (.trim 0 1 0 0) ∧ ¬ Covered3 (.lss 0 [1] 1) := ⟨trivial, fun h => h⟩

end WK.C07

import WK.Model.C38
/-
  C38 — backup archives are self-verifying.  Class PA: the digest `H` and the
  strict-canonical JSON codecs are parameters (`Codec`, `Codec.Canonical`).

    * `c38_publish_verifies`: a repository in which every object of an archive reads back as
      written (marker = (H manifest, |manifest|), manifest lists Slot i at position i with the
      digest of its manifest, every chunk present with the recorded size and digest) verifies;
    * `c38_detects_chunk` / `_slot_manifest` / `_manifest`: a repository that differs from a
      verifying one in ONE referenced object and still verifies exhibits a collision of `H`
      (same digest, for chunks also the same size) — otherwise verification fails;
      `c38_detects_marker`: any other marker fails outright; `c38_detects_order`: a verifying
      manifest lists Hash Slot i at position i, so any reordering fails; `c38_detects_corrupt_flag`,
      `c38_detects_missing`;
    * `c38_manifest_canonical`: a decoder with the re-marshal check accepts at most one byte string
      per manifest, namely the encoder's.
  D: every mutation class on real archives in the in-repo filesystem repository; manifest decoders on
  non-canonical / unknown-field / duplicate-key / oversize JSON.
-/
namespace WK.C38

theorem slotsOk_get (c : Codec) (r : Repo) : ∀ (l : List SlotRef) (k : Nat), slotsOk c r k l = true →
    ∀ j (h : j < l.length), slotOk c r (k + j) l[j] = true
  | [], _, _, j, h => absurd h (Nat.not_lt_zero _)
  | ref :: rest, k, hs, j, h => by
    unfold slotsOk at hs
    simp only [Bool.and_eq_true] at hs
    cases j with
    | zero => simpa using hs.1
    | succ j =>
      have := slotsOk_get c r rest (k + 1) hs.2 j (by simpa using h)
      simpa [Nat.add_assoc, Nat.add_comm 1 j] using this

theorem slotsOk_of (c : Codec) (r : Repo) : ∀ (l : List SlotRef) (k : Nat),
    (∀ j (h : j < l.length), slotOk c r (k + j) l[j] = true) → slotsOk c r k l = true
  | [], _, _ => rfl
  | ref :: rest, k, h => by
    unfold slotsOk
    simp only [Bool.and_eq_true]
    refine ⟨by have := h 0 (by simp); simpa using this, slotsOk_of c r rest (k + 1) ?_⟩
    intro j hj
    have := h (j + 1) (by simpa using hj)
    simpa [Nat.add_assoc, Nat.add_comm 1 j] using this

/-- what `verify = true` means, unfolded -/
theorem verify_iff (c : Codec) (n id : Nat) (r : Repo) :
    verify c n id r = true ↔
      r.corruptFlag = false ∧ ∃ mb mk m, r.manifest = some mb ∧ r.marker = some mk ∧ mk.size = mb.length ∧
        mk.dig = c.H mb ∧ c.decM mb = some m ∧ m.id = id ∧ m.slots.length = n ∧ slotsOk c r 0 m.slots = true := by
  unfold verify
  cases hm : r.manifest <;> cases hk : r.marker <;> simp
  rename_i mb mk
  cases hd : c.decM mb <;> simp
  intro _
  constructor
  · rintro ⟨⟨h2, h3⟩, ⟨h4, h5⟩, h6⟩; exact ⟨h2, h3, h4, h5, h6⟩
  · rintro ⟨h2, h3, h4, h5, h6⟩; exact ⟨⟨h2, h3⟩, ⟨h4, h5⟩, h6⟩

/-- PUBLISH ⇒ VERIFIES -/
theorem c38_publish_verifies (c : Codec) (hc : c.Canonical) (n id : Nat) (m : Manifest) (sms : Nat → SlotMan) (r : Repo)
    (hflag : r.corruptFlag = false)
    (hman : r.manifest = some (c.encM m))
    (hmk : r.marker = some ⟨c.H (c.encM m), (c.encM m).length⟩)
    (hid : m.id = id) (hlen : m.slots.length = n)
    (hslots : ∀ i (h : i < m.slots.length),
      m.slots[i].slot = i ∧ r.obj m.slots[i].key = some (c.encS (sms i)) ∧ m.slots[i].dig = c.H (c.encS (sms i)) ∧
      (sms i).slot = i ∧ ∀ ch ∈ (sms i).chunks, ∃ b, r.obj ch.key = some b ∧ b.length = ch.size ∧ c.H b = ch.dig) :
    verify c n id r = true := by
  rw [verify_iff]
  refine ⟨hflag, c.encM m, _, m, hman, hmk, rfl, rfl, hc.decM_enc m, hid, hlen, ?_⟩
  apply slotsOk_of
  intro j hj
  obtain ⟨h1, h2, h3, h4, h5⟩ := hslots j hj
  unfold slotOk
  simp only [Nat.zero_add, h1, beq_self_eq_true, Bool.true_and, h2, h3, hc.decS_enc, h4, Bool.and_eq_true,
    List.all_eq_true, true_and]
  intro ch hch
  obtain ⟨b, hb1, hb2, hb3⟩ := h5 ch hch
  unfold chunkOk
  simp [hb1, hb2, hb3]

/-- non-vacuity: a one-slot archive with one chunk, identity codecs, H = sum -/
def exCodec : Codec :=
  { H := fun b => b.foldl (· + ·) 0,
    encS := fun sm => sm.slot :: (sm.chunks.map (fun c => [c.key, c.dig, c.size])).flatten,
    decS := fun b => if b = [0, 7, 5, 2] then some ⟨0, [⟨7, 5, 2⟩]⟩ else none,
    encM := fun m => m.id :: (m.slots.map (fun s => [s.slot, s.key, s.dig])).flatten,
    decM := fun b => if b = [1, 0, 3, 14] then some ⟨1, [⟨0, 3, 14⟩]⟩ else none }

def exRepo : Repo :=
  { obj := fun k => if k = 7 then some [2, 3] else if k = 3 then some [0, 7, 5, 2] else none,
    manifest := some [1, 0, 3, 14], marker := some ⟨18, 4⟩, corruptFlag := false }

example : verify exCodec 1 1 exRepo = true := by decide
example : verify exCodec 1 1 { exRepo with obj := fun k => if k = 7 then some [3, 3] else exRepo.obj k } = false := by decide
example : verify exCodec 1 1 { exRepo with marker := some ⟨18, 5⟩ } = false := by decide

/-- facts about one referenced Slot of a verifying repository -/
theorem verify_slot (c : Codec) (n id : Nat) (r : Repo) (h : verify c n id r = true) :
    ∃ mb mk m, r.manifest = some mb ∧ r.marker = some mk ∧ mk.size = mb.length ∧ mk.dig = c.H mb ∧ c.decM mb = some m ∧
      ∀ j (hj : j < m.slots.length), m.slots[j].slot = j ∧
        ∃ sb sm, r.obj m.slots[j].key = some sb ∧ c.H sb = m.slots[j].dig ∧ c.decS sb = some sm ∧ sm.slot = j ∧
          ∀ ch ∈ sm.chunks, ∃ b, r.obj ch.key = some b ∧ b.length = ch.size ∧ c.H b = ch.dig := by
  obtain ⟨_, mb, mk, m, h1, h2, h3, h4, h5, _, _, h8⟩ := (verify_iff c n id r).1 h
  refine ⟨mb, mk, m, h1, h2, h3, h4, h5, ?_⟩
  intro j hj
  have hs := slotsOk_get c r m.slots 0 h8 j hj
  unfold slotOk at hs
  simp only [Nat.zero_add, Bool.and_eq_true, beq_iff_eq] at hs
  obtain ⟨hslot, hrest⟩ := hs
  cases hobj : r.obj m.slots[j].key with
  | none => simp [hobj] at hrest
  | some sb =>
    simp only [hobj, Bool.and_eq_true, beq_iff_eq] at hrest
    obtain ⟨hd, hdec⟩ := hrest
    cases hsm : c.decS sb with
    | none => simp [hsm] at hdec
    | some sm =>
      simp only [hsm, Bool.and_eq_true, beq_iff_eq, List.all_eq_true] at hdec
      refine ⟨hslot, sb, sm, rfl, hd, hsm, hdec.1, ?_⟩
      intro ch hch
      have := hdec.2 ch hch
      unfold chunkOk at this
      cases hb : r.obj ch.key with
      | none => simp [hb] at this
      | some b =>
        simp only [hb, Bool.and_eq_true, beq_iff_eq] at this
        exact ⟨b, rfl, this.1, this.2⟩

/-- DETECTS (chunk): two verifying repositories that agree on everything except the object under a
    chunk key referenced by Slot `j` hold, under that key, bytes of the same size and the same digest
    — i.e. a changed chunk either fails verification or is a collision of `H`. -/
theorem c38_detects_chunk (c : Codec) (n id : Nat) (r r' : Repo) (key : Nat)
    (hman : r'.manifest = r.manifest) (hobj : ∀ k, k ≠ key → r'.obj k = r.obj k)
    (hv : verify c n id r = true) (hv' : verify c n id r' = true)
    (href : ∃ mb m j, ∃ (hj : j < m.slots.length), r.manifest = some mb ∧ c.decM mb = some m ∧ m.slots[j].key ≠ key ∧
      ∃ sb sm ch, r.obj m.slots[j].key = some sb ∧ c.decS sb = some sm ∧ ch ∈ sm.chunks ∧ ch.key = key) :
    ∃ b b', r.obj key = some b ∧ r'.obj key = some b' ∧ b'.length = b.length ∧ c.H b' = c.H b := by
  obtain ⟨mb, m, j, hj, hm, hdm, hne, sb, sm, ch, hsb, hds, hch, hck⟩ := href
  obtain ⟨mb1, _, m1, h1, _, _, _, h5, h6⟩ := verify_slot c n id r hv
  obtain ⟨mb2, _, m2, g1, _, _, _, g5, g6⟩ := verify_slot c n id r' hv'
  rw [hm] at h1; cases h1
  rw [hman, hm] at g1; cases g1
  rw [hdm] at h5 g5; cases h5; cases g5
  obtain ⟨_, sb1, sm1, a1, _, a3, _, a5⟩ := h6 j hj
  obtain ⟨_, sb2, sm2, b1, _, b3, _, b5⟩ := g6 j hj
  rw [hsb] at a1; cases a1
  rw [hobj _ hne, hsb] at b1; cases b1
  rw [hds] at a3 b3; cases a3; cases b3
  obtain ⟨b, x1, x2, x3⟩ := a5 ch hch
  obtain ⟨b', y1, y2, y3⟩ := b5 ch hch
  rw [hck] at x1 y1
  exact ⟨b, b', x1, y1, by omega, by omega⟩

/-- DETECTS (empty-stream chunk) — explicit corollary: the binding of a stored chunk object does not depend
    on what it decompresses to; the object the exporter writes for an EMPTY stream (logical_bytes = 0) is bound
    by stored size and stored digest exactly like any other, so a same-length change of it fails verification
    or is a collision of `H`. -/
theorem c38_detects_empty_chunk (c : Codec) (n id : Nat) (r r' : Repo) (key : Nat)
    (hman : r'.manifest = r.manifest) (hobj : ∀ k, k ≠ key → r'.obj k = r.obj k)
    (hv : verify c n id r = true) (hv' : verify c n id r' = true)
    (href : ∃ mb m j, ∃ (hj : j < m.slots.length), r.manifest = some mb ∧ c.decM mb = some m ∧ m.slots[j].key ≠ key ∧
      ∃ sb sm ch, r.obj m.slots[j].key = some sb ∧ c.decS sb = some sm ∧ ch ∈ sm.chunks ∧ ch.key = key) :
    ∃ b b', r.obj key = some b ∧ r'.obj key = some b' ∧ b'.length = b.length ∧ c.H b' = c.H b :=
  c38_detects_chunk c n id r r' key hman hobj hv hv' href

/-- non-vacuity: the one-chunk archive of `exRepo` with its chunk read as an empty-stream frame `[2, 3]`;
       a same-length replacement `[2, 4]` is rejected -/
example : verify exCodec 1 1 { exRepo with obj := fun k => if k = 7 then some [2, 4] else exRepo.obj k } = false := by decide

/-- DETECTS (Slot manifest): a changed Slot-manifest object verifies only on a collision of `H` -/
theorem c38_detects_slot_manifest (c : Codec) (n id : Nat) (r r' : Repo)
    (hman : r'.manifest = r.manifest) (hv : verify c n id r = true) (hv' : verify c n id r' = true)
    (mb : Bytes) (m : Manifest) (j : Nat) (hj : j < m.slots.length) (hm : r.manifest = some mb) (hdm : c.decM mb = some m) :
    ∃ sb sb', r.obj m.slots[j].key = some sb ∧ r'.obj m.slots[j].key = some sb' ∧ c.H sb' = c.H sb := by
  obtain ⟨mb1, _, m1, h1, _, _, _, h5, h6⟩ := verify_slot c n id r hv
  obtain ⟨mb2, _, m2, g1, _, _, _, g5, g6⟩ := verify_slot c n id r' hv'
  rw [hm] at h1; cases h1
  rw [hman, hm] at g1; cases g1
  rw [hdm] at h5 g5; cases h5; cases g5
  obtain ⟨_, sb1, _, a1, a2, _⟩ := h6 j hj
  obtain ⟨_, sb2, _, b1, b2, _⟩ := g6 j hj
  exact ⟨sb1, sb2, a1, b1, by rw [a2, b2]⟩

/-- DETECTS (top-level manifest): under the same COMPLETE marker, another manifest body verifies only
    if it has the same size and the same digest -/
theorem c38_detects_manifest (c : Codec) (n id : Nat) (r r' : Repo) (hmk : r'.marker = r.marker)
    (hv : verify c n id r = true) (hv' : verify c n id r' = true) :
    ∃ mb mb', r.manifest = some mb ∧ r'.manifest = some mb' ∧ mb'.length = mb.length ∧ c.H mb' = c.H mb := by
  obtain ⟨mb1, mk1, _, h1, h2, h3, h4, _, _⟩ := verify_slot c n id r hv
  obtain ⟨mb2, mk2, _, g1, g2, g3, g4, _, _⟩ := verify_slot c n id r' hv'
  rw [hmk, h2] at g2; cases g2
  exact ⟨mb1, mb2, h1, g1, by omega, by omega⟩

/-- DETECTS (marker): over the same manifest exactly one marker verifies -/
theorem c38_detects_marker (c : Codec) (n id : Nat) (r r' : Repo) (hman : r'.manifest = r.manifest)
    (hv : verify c n id r = true) (hv' : verify c n id r' = true) : r'.marker = r.marker := by
  obtain ⟨mb1, mk1, _, h1, h2, h3, h4, _, _⟩ := verify_slot c n id r hv
  obtain ⟨mb2, mk2, _, g1, g2, g3, g4, _, _⟩ := verify_slot c n id r' hv'
  rw [hman, h1] at g1; cases g1
  rw [h2, g2]
  cases mk1; cases mk2
  simp_all

/-- DETECTS (order): a verifying manifest lists Hash Slot j at position j -/
theorem c38_detects_order (c : Codec) (n id : Nat) (r : Repo) (hv : verify c n id r = true) :
    ∃ mb m, r.manifest = some mb ∧ c.decM mb = some m ∧ ∀ j (hj : j < m.slots.length), m.slots[j].slot = j := by
  obtain ⟨mb, _, m, h1, _, _, _, h5, h6⟩ := verify_slot c n id r hv
  exact ⟨mb, m, h1, h5, fun j hj => (h6 j hj).1⟩

theorem c38_detects_corrupt_flag (c : Codec) (n id : Nat) (r : Repo) (h : r.corruptFlag = true) :
    verify c n id r = false := by
  unfold verify; simp [h]

/-- DETECTS (missing object): a verifying repository holds every referenced chunk -/
theorem c38_detects_missing (c : Codec) (n id : Nat) (r : Repo) (hv : verify c n id r = true)
    (mb : Bytes) (m : Manifest) (j : Nat) (hj : j < m.slots.length) (hm : r.manifest = some mb) (hdm : c.decM mb = some m)
    (sb : Bytes) (sm : SlotMan) (hsb : r.obj m.slots[j].key = some sb) (hds : c.decS sb = some sm)
    (ch : ChunkRef) (hch : ch ∈ sm.chunks) : (r.obj ch.key).isSome = true := by
  obtain ⟨mb1, _, m1, h1, _, _, _, h5, h6⟩ := verify_slot c n id r hv
  rw [hm] at h1; cases h1
  rw [hdm] at h5; cases h5
  obtain ⟨_, sb1, sm1, a1, _, a3, _, a5⟩ := h6 j hj
  rw [hsb] at a1; cases a1
  rw [hds] at a3; cases a3
  obtain ⟨b, x1, _, _⟩ := a5 ch hch
  simp [x1]

/-- CANONICAL: a strict decoder with the re-marshal check accepts exactly one byte string per manifest -/
theorem c38_manifest_canonical (c : Codec) (hc : c.Canonical) (b1 b2 : Bytes) (m : Manifest)
    (h1 : c.decM b1 = some m) (h2 : c.decM b2 = some m) : b1 = b2 ∧ b1 = c.encM m := by
  have e1 := hc.decM_canon b1 m h1
  have e2 := hc.decM_canon b2 m h2
  exact ⟨by rw [← e1, ← e2], e1.symm⟩

end WK.C38

import WK.Proofs.C27_Uvarint
import WK.Spec.C27
/-
  C27 — Internal cluster codecs round-trip and reject garbage.

  Proved here: the shared primitives (uvarint, length-prefixed bytes with the
  declared 4 MiB bound, slice counts with a declared maximum) and, fully, the two
  smallest codecs (pkg/cluster/propose/codec.go, pkg/cluster/net/codec.go).
  The models are hand-written and tied to the code by D on every run; the four
  other codecs are covered by D only (see props/C27.json).
-/
namespace WK.C27

/-! ## primitives -/

/-- **prim_roundtrip (uvarint)**: every uint64 decodes from its own encoding, whatever follows -/
theorem c27_uvarint_roundtrip (x : Nat) (rest : Bytes) (hx : x < 2 ^ 64) :
    uvarint (putUvarint x ++ rest) = some (x, (putUvarint x).length) := by
  have := uvarintAux_put x 0 0 rest (by omega) (by simpa using hx)
  simpa [uvarint] using this

/-- **truncation_rejected (uvarint)**: every strict prefix of an encoding fails to decode -/
theorem c27_uvarint_truncation (x k : Nat) (hk : k < (putUvarint x).length) :
    uvarint ((putUvarint x).take k) = none :=
  uvarintAux_cont _ (putUvarint_take_cont x k hk) 0 0

/-- **bounded (uvarint)**: a successful read consumes 1..10 bytes, all of them inside the buffer -/
theorem c27_uvarint_bounded (d : Bytes) (v n : Nat) (h : uvarint d = some (v, n)) :
    0 < n ∧ n ≤ d.length ∧ n ≤ 10 := by
  have := uvarintAux_size d 0 0 v n (by omega) h
  omega

/-- **bounded_alloc (count / slice count)**: an accepted count never exceeds the declared maximum -/
theorem c27_count_bounded (d : Bytes) (maximum c n : Nat) (isNil : Bool) :
    (cCount d maximum = some (c, n) → c ≤ maximum) ∧
    (cSliceCount d maximum = some (c, isNil, n) → c ≤ maximum) := by
  constructor
  · intro h
    unfold cCount at h
    split at h
    · split at h
      · cases h
      · rename_i hc; simp only [Option.some.injEq, Prod.mk.injEq] at h; omega
    · cases h
  · intro h
    unfold cSliceCount at h
    split at h
    · cases h
    · split at h
      · simp only [Option.some.injEq, Prod.mk.injEq] at h; omega
      · split at h
        · cases h
        · rename_i hc; simp only [Option.some.injEq, Prod.mk.injEq] at h; omega

/-- **prim_roundtrip (length-prefixed bytes)** up to the declared 4 MiB bound -/
theorem c27_bytes_roundtrip (b rest : Bytes) (hb : b.length ≤ maxExchangeBatchBytes) :
    cBytes (putBytes b ++ rest) = some (b, (putBytes b).length) := by
  have hlt : b.length < 2 ^ 64 := by unfold maxExchangeBatchBytes at hb; omega
  have hu := c27_uvarint_roundtrip b.length (b ++ rest) hlt
  have hmi : ¬ (b.length > maxExchangeBatchBytes ∨ b.length > maxInt) := by
    unfold maxExchangeBatchBytes maxInt at *; omega
  unfold cBytes cCount putBytes
  rw [List.append_assoc, hu]
  simp only [hmi, if_false]
  have hle : ¬ (b.length > (putUvarint b.length ++ (b ++ rest)).length - (putUvarint b.length).length) := by
    simp only [List.length_append]; omega
  rw [if_neg hle, List.drop_left, List.take_left, List.length_append]

/-- **bounded_alloc (length-prefixed bytes)**: the copy is never longer than what is left of the
    input, never longer than the declared bound, and the cursor stays inside the buffer -/
theorem c27_bytes_bounded (d b : Bytes) (off : Nat) (h : cBytes d = some (b, off)) :
    b.length ≤ d.length ∧ b.length ≤ maxExchangeBatchBytes ∧ off ≤ d.length := by
  unfold cBytes at h
  split at h
  · cases h
  · rename_i cnt n hc
    split at h
    · cases h
    · rename_i hle
      simp only [Option.some.injEq, Prod.mk.injEq] at h
      obtain ⟨rfl, rfl⟩ := h
      have hcm := (c27_count_bounded d maxExchangeBatchBytes cnt n false).1 hc
      have hn : n ≤ d.length := by
        unfold cCount at hc
        split at hc
        · rename_i v m hu
          have := c27_uvarint_bounded d v m hu
          split at hc
          · cases hc
          · simp only [Option.some.injEq, Prod.mk.injEq] at hc; omega
        · cases hc
      simp only [List.length_take, List.length_drop]
      omega

/-- **truncation_rejected (length-prefixed bytes)**: every strict prefix of `putBytes b` is rejected -/
theorem c27_bytes_truncation (b : Bytes) (k : Nat) (hb : b.length < 2 ^ 64) (hk : k < (putBytes b).length) :
    cBytes ((putBytes b).take k) = none := by
  unfold putBytes at *
  by_cases hk1 : k < (putUvarint b.length).length
  · have : (putUvarint b.length ++ b).take k = (putUvarint b.length).take k := by
      rw [List.take_append_of_le_length (by omega)]
    unfold cBytes cCount
    rw [this, c27_uvarint_truncation _ _ hk1]
  · have hk2 : (putUvarint b.length).length ≤ k := by omega
    have : (putUvarint b.length ++ b).take k = putUvarint b.length ++ b.take (k - (putUvarint b.length).length) := by
      rw [List.take_append, List.take_of_length_le hk2]
    unfold cBytes cCount
    rw [this, c27_uvarint_roundtrip _ _ hb]
    simp only [List.length_append] at hk
    by_cases hmax : b.length > maxExchangeBatchBytes ∨ b.length > maxInt
    · simp only [hmax, if_true]
    · simp only [hmax, if_false]
      have : b.length > (putUvarint b.length ++ List.take (k - (putUvarint b.length).length) b).length
          - (putUvarint b.length).length := by
        simp only [List.length_append, List.length_take]; omega
      rw [if_pos this]

/-! ## pkg/cluster/propose/codec.go -/

theorem rdBE_be16 (v : Nat) (h : v < 2 ^ 16) : rdBE (be16 v) = v := by
  simp [rdBE, be16]; omega

theorem rdBE_be32 (v : Nat) (h : v < 2 ^ 32) : rdBE (be32 v) = v := by
  simp [rdBE, be32]; omega

/-- **propose payload roundtrip** for every hash slot and command -/
theorem c27_payload_roundtrip (hs : Nat) (cmd : Bytes) (h : hs < 2 ^ 16) :
    decodePayload (encodePayload hs cmd) = some (hs, cmd) := by
  have := rdBE_be16 hs h
  simp [decodePayload, encodePayload, be16] at *
  simpa [be16] using this

/-- **propose payload: rejects garbage, bounded**: anything shorter than the 3-byte envelope or with
    another version byte is rejected; an accepted command is exactly the input minus the envelope -/
theorem c27_payload_rejects_bounded (p : Bytes) :
    ((p.length < 3 ∨ p.headD 0 ≠ 1) → decodePayload p = none) ∧
    (∀ hs cmd, decodePayload p = some (hs, cmd) → cmd.length + 3 = p.length ∧ hs < 2 ^ 16) := by
  constructor
  · intro h; unfold decodePayload; rw [if_pos h]
  · intro hs cmd h
    unfold decodePayload at h
    split at h
    · cases h
    · rename_i hc
      simp only [Option.some.injEq, Prod.mk.injEq] at h
      obtain ⟨rfl, rfl⟩ := h
      have hl : ¬ p.length < 3 := fun x => hc (Or.inl x)
      refine ⟨by simp only [List.length_drop]; omega, ?_⟩
      rcases p with _ | ⟨a, _ | ⟨b, _ | ⟨c, rest⟩⟩⟩
      · simp at hl
      · simp at hl
      · simp at hl
      · simp [rdBE]
        have := b.toNat_lt; have := c.toNat_lt; omega

def Fwd.WF (r : Fwd) : Prop :=
  r.slotID ≠ 0 ∧ r.slotID < 2 ^ 32 ∧ r.hashSlot < 2 ^ 16 ∧ r.payload.length ≠ 0 ∧ r.payload.length < 2 ^ 32

instance (r : Fwd) : Decidable r.WF := by unfold Fwd.WF; exact inferInstance

/-- **forward request roundtrip**: every request the encoder accepts decodes to itself
    (with the class normalised to foreground/background, as the encoder writes it) -/
theorem c27_forward_roundtrip (r : Fwd) (h : r.WF) :
    ∃ enc, encodeForward r = some enc ∧ decodeForward enc = some { r with cls := normClass r.cls } := by
  obtain ⟨h1, h2, h3, h4, h5⟩ := h
  have hne : ¬ (r.slotID = 0 ∨ r.payload.length = 0) := by omega
  refine ⟨_, by rw [encodeForward, if_neg hne], ?_⟩
  have hm : r.payload.length % 2 ^ 32 = r.payload.length := Nat.mod_eq_of_lt h5
  have e1 := rdBE_be32 r.slotID h2
  have e2 := rdBE_be16 r.hashSlot h3
  have e3 := rdBE_be32 r.payload.length h5
  have hc : (UInt8.ofNat (normClass r.cls)).toNat = normClass r.cls := by
    unfold normClass; split <;> simp
  have hn : normClass (normClass r.cls) = normClass r.cls := by unfold normClass; split <;> simp
  have hw : ((if r.want then (1 : UInt8) else 0).toNat % 2 = 1) = (r.want = true) := by
    cases r.want <;> simp
  rw [hm]
  simp only [be32, be16] at e1 e2 e3 ⊢
  simp [decodeForward, e1, e2, e3, hc, hn, hw]

theorem decodeForward_lt11 (d : Bytes) (h : d.length < 11) : decodeForward d = none := by
  unfold decodeForward; rw [if_pos h]

theorem decodeForward_v3_short (d : Bytes) (h0 : d.headD 0 = 3) (hl : d.length < 13) : decodeForward d = none := by
  unfold decodeForward
  split; · rfl
  rw [h0]; simp only [hl, if_true]

theorem decodeForward_v3_len (d : Bytes) (h0 : d.headD 0 = 3) (hlen : rdBE ((d.drop 9).take 4) ≠ d.length - 13) :
    decodeForward d = none := by
  unfold decodeForward
  split; · rfl
  rw [h0]; simp only
  by_cases h13 : d.length < 13
  · rw [if_pos h13]
  · simp [h13, hlen]

/-- **forward request: truncation_rejected** — every strict prefix of an encoding is an error -/
theorem c27_forward_truncation (r : Fwd) (enc : Bytes) (k : Nat) (h : r.WF)
    (he : encodeForward r = some enc) (hk : k < enc.length) : decodeForward (enc.take k) = none := by
  obtain ⟨h1, h2, h3, h4, h5⟩ := h
  have hne : ¬ (r.slotID = 0 ∨ r.payload.length = 0) := by omega
  rw [encodeForward, if_neg hne] at he
  simp only [Option.some.injEq] at he
  subst he
  have hm : r.payload.length % 2 ^ 32 = r.payload.length := Nat.mod_eq_of_lt h5
  rw [hm] at hk ⊢
  have e3 := rdBE_be32 r.payload.length h5
  simp only [be32, be16, List.cons_append, List.nil_append] at e3 hk ⊢
  have hk' := hk
  simp only [List.length_cons] at hk'
  have hlen : ∀ (l : Bytes), k < l.length → (l.take k).length = k := by
    intro l hl; rw [List.length_take]; omega
  by_cases hk11 : k < 11
  · exact decodeForward_lt11 _ (by rw [hlen _ hk]; exact hk11)
  · obtain ⟨j, rfl⟩ : ∃ j, k = j + 11 := ⟨k - 11, by omega⟩
    have h0 : ∀ (t : Bytes), ((3 :: t).take (j + 11)).headD 0 = 3 := by intro t; simp
    by_cases hk13 : j + 11 < 13
    · exact decodeForward_v3_short _ (h0 _) (by rw [hlen _ hk]; exact hk13)
    · obtain ⟨i, rfl⟩ : ∃ i, j = i + 2 := ⟨j - 2, by omega⟩
      refine decodeForward_v3_len _ (h0 _) ?_
      rw [hlen _ hk]
      have : i + 2 + 11 = i + 13 := by omega
      rw [this]
      simp only [List.take_succ_cons, List.drop_succ_cons, List.drop_zero]
      simp only [List.take_succ_cons, List.take_zero, e3]
      omega

/-- **forward request: bounded_alloc** — an accepted frame's payload is what follows its header,
    and the declared length equals it (no allocation beyond the input) -/
theorem c27_forward_bounded (d : Bytes) (r : Fwd) (h : decodeForward d = some r) :
    r.payload.length + 11 ≤ d.length ∧ d.length ≤ r.payload.length + 13 := by
  unfold decodeForward at h
  split at h
  · cases h
  · split at h
    · split at h
      · cases h
      · simp only [Option.some.injEq] at h; subst h; simp only [List.length_drop]; omega
    · split at h
      · cases h
      · split at h
        · cases h
        · simp only [Option.some.injEq] at h; subst h; simp only [List.length_drop]; omega
    · split at h
      · cases h
      · split at h
        · cases h
        · simp only [Option.some.injEq] at h; subst h; simp only [List.length_drop]; omega
    · cases h

/-! ## pkg/cluster/net/codec.go -/

/-- **cluster header roundtrip / rejects / bounded** -/
theorem c27_nethdr (v k : Nat) (p d : Bytes) (hv : v < 256) (hk : k < 256) :
    checkHeader (putHeader [] v k ++ p) v k = some p ∧
    ((d.length < 2 ∨ (d.getD 0 0).toNat ≠ v ∨ (d.getD 1 0).toNat ≠ k) → checkHeader d v k = none) ∧
    (∀ q, checkHeader d v k = some q → q.length + 2 = d.length) := by
  refine ⟨?_, ?_, ?_⟩
  · have a : (UInt8.ofNat v).toNat = v := by simp; omega
    have b : (UInt8.ofNat k).toNat = k := by simp; omega
    simp [checkHeader, putHeader, a, b]
  · intro h
    unfold checkHeader
    rcases h with h | h | h
    · simp [h]
    · split; · rfl
      simp [h]
    · split; · rfl
      split; · rfl
      simp [h]
  · intro q h
    unfold checkHeader at h
    split at h; · cases h
    split at h; · cases h
    split at h; · cases h
    simp only [Option.some.injEq] at h; subst h
    simp only [List.length_drop]; omega

-- non-vacuity
theorem put300 : putUvarint 300 = [0xac, 0x02] := by
  rw [putUvarint_ge 300 (by omega), putUvarint_lt (300 / 128) (by omega)]; decide
example : uvarint (putUvarint 300 ++ [7]) = some (300, 2) := by
  have := c27_uvarint_roundtrip 300 [7] (by omega); rw [put300] at this ⊢; exact this
example : uvarint [0xac] = none := by
  have := c27_uvarint_truncation 300 1 (by rw [put300]; decide); rw [put300] at this; exact this
example : uvarint [0xff, 0xff, 0xff, 0xff, 0xff, 0xff, 0xff, 0xff, 0xff, 0x02] = none := by decide
example : ∃ n, cBytes (putBytes [1, 2, 3] ++ [9]) = some ([1, 2, 3], n) := ⟨_, c27_bytes_roundtrip [1, 2, 3] [9] (by decide)⟩
example : Fwd.WF ⟨7, 300, 1, true, [1, 2]⟩ := by decide
example : decodeForward [3, 1, 1, 0, 0, 0, 7, 1, 44, 0, 0, 0, 2, 1, 2] = some ⟨7, 300, 1, true, [1, 2]⟩ := by decide
example : decodeForward [3, 1, 1, 0, 0, 0, 7, 1, 44, 0, 0, 0, 2, 1] = none := by decide
example : decodePayload (encodePayload 513 [5]) = some (513, [5]) := c27_payload_roundtrip 513 [5] (by omega)
example : checkHeader [3, 9, 1] 3 8 = none := by decide

/-! ### accepted ⇒ canonical (the small codecs) -/

theorem u8_ofNat_toNat (b : UInt8) : UInt8.ofNat b.toNat = b := by
  apply UInt8.toNat_inj.mp; simp

/-- **propose payload: accepted ⇒ canonical** — whatever DecodePayload accepts is exactly the
    encoding of what it returns (no second byte string decodes to the same value) -/
theorem c27_payload_canonical (p : Bytes) (hs : Nat) (cmd : Bytes) (h : decodePayload p = some (hs, cmd)) :
    encodePayload hs cmd = p := by
  unfold decodePayload at h
  split at h
  · cases h
  · rename_i hc
    have hl : ¬ p.length < 3 := fun x => hc (Or.inl x)
    have h1 : ¬ p.headD 0 ≠ 1 := fun x => hc (Or.inr x)
    simp only [Option.some.injEq, Prod.mk.injEq] at h
    obtain ⟨rfl, rfl⟩ := h
    rcases p with _ | ⟨a, _ | ⟨b, _ | ⟨c, rest⟩⟩⟩
    · simp at hl
    · simp at hl
    · simp at hl
    · have ha : a = 1 := by simpa using h1
      subst ha
      have hb := b.toNat_lt
      have hcl := c.toNat_lt
      have e1 : (b.toNat * 256 + c.toNat) / 256 = b.toNat := by omega
      have e2 : UInt8.ofNat (b.toNat * 256 + c.toNat) = c := by
        apply UInt8.toNat_inj.mp; simp
      simp [encodePayload, be16, rdBE, e1, e2]

/-- **cluster header: accepted ⇒ canonical** -/
theorem c27_nethdr_canonical (d p : Bytes) (v k : Nat) (h : checkHeader d v k = some p) :
    putHeader [] v k ++ p = d := by
  unfold checkHeader at h
  split at h; · cases h
  split at h; · cases h
  split at h; · cases h
  rename_i hl hv hk
  simp only [Option.some.injEq] at h; subst h
  rcases d with _ | ⟨a, _ | ⟨b, rest⟩⟩
  · simp at hl
  · simp at hl
  · have ha : a.toNat = v := by simpa using hv
    have hb : b.toNat = k := by simpa using hk
    subst ha; subst hb
    simp [putHeader]

example : encodePayload 513 [5] = [1, 2, 1, 5] := c27_payload_canonical [1, 2, 1, 5] 513 [5] (by decide)
example : putHeader [] 3 9 ++ [1] = [3, 9, 1] := c27_nethdr_canonical [3, 9, 1] [1] 3 9 (by decide)

/-! ### the decoded uvarint fits a uint64 -/

theorem uvarintAux_value (l : Bytes) : ∀ i acc v n, i ≤ 10 → acc < 2 ^ (7 * i) → uvarintAux l i acc = some (v, n) → v < 2 ^ 64 := by
  induction l with
  | nil => intro i acc v n _ _ h; simp [uvarintAux] at h
  | cons b rest ih =>
    intro i acc v n hi hacc h
    simp only [uvarintAux] at h
    split at h
    · cases h
    · rename_i hi10
      have hi9 : i ≤ 9 := by omega
      have hpow : 2 ^ (7 * (i + 1)) = 128 * 2 ^ (7 * i) := by
        have : 7 * (i + 1) = 7 * i + 7 := by omega
        rw [this, Nat.pow_add]; omega
      split at h
      · rename_i hb
        split at h
        · cases h
        · rename_i h9
          simp only [Option.some.injEq, Prod.mk.injEq] at h
          obtain ⟨rfl, _⟩ := h
          by_cases hi9' : i = 9
          · subst hi9'
            have hb1 : b.toNat ≤ 1 := by
              rcases Nat.lt_or_ge 1 b.toNat with hgt | hle
              · exact absurd ⟨rfl, hgt⟩ h9
              · exact hle
            have : b.toNat * 2 ^ (7 * 9) ≤ 1 * 2 ^ (7 * 9) := Nat.mul_le_mul_right _ hb1
            have e : (2 : Nat) ^ 64 = 2 ^ (7 * 9) + 2 ^ (7 * 9) := by decide
            omega
          · have hle : 7 * (i + 1) ≤ 63 := by omega
            have hmono : 2 ^ (7 * (i + 1)) ≤ 2 ^ 63 := Nat.pow_le_pow_right (by omega) hle
            have hbm : b.toNat * 2 ^ (7 * i) ≤ 127 * 2 ^ (7 * i) := Nat.mul_le_mul_right _ (by omega)
            have : (2 : Nat) ^ 63 < 2 ^ 64 := by decide
            omega
      · have hbm : b.toNat % 128 * 2 ^ (7 * i) ≤ 127 * 2 ^ (7 * i) := Nat.mul_le_mul_right _ (by omega)
        exact ih (i + 1) _ v n (by omega) (by rw [hpow]; omega) h

/-- **uvarint: the decoded value is a uint64** (the arithmetic model never exceeds what Go's
    `x | uint64(b)<<s` can hold, so there is no hidden wrap-around in accepted inputs) -/
theorem c27_uvarint_value_lt (d : Bytes) (v n : Nat) (h : uvarint d = some (v, n)) : v < 2 ^ 64 :=
  uvarintAux_value d 0 0 v n (by omega) (by simp) h

example : ∀ v n, uvarint [0xff, 0xff, 0xff, 0xff, 0xff, 0xff, 0xff, 0xff, 0xff, 0x01] = some (v, n) → v < 2 ^ 64 :=
  fun v n h => c27_uvarint_value_lt _ v n h
example : uvarint [0xff, 0xff, 0xff, 0xff, 0xff, 0xff, 0xff, 0xff, 0xff, 0x01] = some (2 ^ 64 - 1, 10) := by decide

end WK.C27

import WK.Proofs.C29_coalesce
import WK.Proofs.C29_writer
import WK.Proofs.C29_drain
import WK.Proofs.C29_active
/-
  C29 — Send results are aligned, ordered and idempotent.

  Pure part (class P; the driver executes these very definitions and compares them,
  op by op, with the real `newIdempotentAppendBatch` / `expandCompletions` /
  `appendBatchErrorCompletionsOrRecoveriesAndRetry`):
    * coalescing never merges different logical sends and every caller is answered by the
      storage append that carries exactly its (FromUID, ClientMsgNo, payload) — for ANY payload
      hash function, i.e. also under hash collisions;
    * expansion is item-aligned and leaves exactly the first caller of a storage append committed
      (post-commit work runs once);
    * recovery: a durable hit is answered with the ORIGINAL record and is never re-appended nor
      committed again; no item becomes a success without a durable hit or a committed retry.
  LTS part (class PR): the per-channel writer activation protocol, any number of submitters,
  completion threads and advance instances, all interleavings:
    * at most one goroutine owns (advances) a writer,
    * no lost wake-up: when nothing is enabled any more the inbox is empty and every enqueued
      batch was taken by an advance.
-/
namespace WK.C29

/-- result i answers item i: every caller's owner is a storage append holding exactly the
    caller's logical send; `h` (the payload hash used as map key) is arbitrary -/
theorem c29_coalesce_aligned (h : Nat → Nat) (items : List Item) :
    (coalesce h items).2.length = items.length ∧
    ∀ (k : Nat) (x : Item), items[k]? = some x →
      ∃ (j : Nat) (y : Nat × Item), (coalesce h items).2[k]? = some j ∧ (coalesce h items).1[j]? = some y ∧ y.2 = x := by
  have h0 : CoInv [] [] [] := ⟨rfl, by intro k x hx; simp at hx⟩
  have := coalesceGo_inv h items 0 [] [] [] h0
  simp only [List.nil_append] at this
  exact this

example : (coalesce id [⟨1, 1, 0⟩, ⟨1, 1, 0⟩, ⟨1, 1, 7⟩, ⟨0, 1, 0⟩]).2 = [0, 0, 1, 2] := by decide
-- a colliding payload hash (constant) never merges different payloads
example : (coalesce (fun _ => 0) [⟨1, 1, 0⟩, ⟨1, 1, 7⟩, ⟨1, 1, 7⟩]).2 = [0, 1, 2] := by decide

/-- expansion is item-aligned: caller k gets its owner's result (sequence owner+1 here), and stays
    committed iff it is the first caller of that owner -/
theorem c29_expand_aligned (owners : List Nat) :
    (expand owners).length = owners.length ∧
    ∀ k, (expand owners)[k]? = (owners[k]?).map fun o => (o + 1, !((owners.take k).contains o)) := by
  refine ⟨expandGo_length owners [], ?_⟩
  intro k
  rw [expand, expandGo_getElem? owners [] k]
  cases owners[k]? <;> simp

example : expand [0, 0, 1, 0] = [(1, true), (1, false), (2, true), (1, false)] := by decide

/-- recovery is item-aligned -/
theorem c29_recover_aligned (af hs : Bool) (mode : RetryMode) (items : List RItem) :
    (recover af hs mode items).1.length = items.length := recover_length af hs mode items

/-- a retried send that is already durable is answered with the original record and is neither
    re-appended nor committed again -/
theorem c29_recover_hit_original (mode : RetryMode) (items : List RItem) (i : Nat) (it : RItem)
    (hi : items[i]? = some it) (hh : it.lk1 = .hit) :
    (recover true true mode items).1[i]? = some (ROut.recovered i) ∧ i ∉ retryIdx items := by
  have hlt : i < items.length := (List.getElem?_eq_some_iff.mp hi).1
  have hany : (items.any fun it => it.lk1 == .hit) = true := by
    rw [List.any_eq_true]
    exact ⟨it, List.mem_of_getElem? hi, by simp [hh]⟩
  constructor
  · have hget : items[i] = it := by
      have := List.getElem?_eq_some_iff.mp hi
      exact this.2
    simp [recover, hany, hlt, hget, hh]
  · simp [retryIdx, hi, hh]

example : (recover true true 0 [⟨.hit, .miss, false⟩, ⟨.miss, .miss, false⟩]).1 = [.recovered 0, .appended 0] := by decide

/-- no new success out of nothing: an item is reported successful only if it was found durable
    (then with the original record) or the single retry append committed it -/
theorem c29_recover_success_sound (af hs : Bool) (mode : RetryMode) (items : List RItem) (i : Nat) (o : ROut)
    (ho : (recover af hs mode items).1[i]? = some o) (hok : o.ok = true) :
    ∃ it, items[i]? = some it ∧
      ((it.lk1 = .hit ∧ o = .recovered i) ∨
       (it.lk1 = .miss ∧ it.expired = false ∧ (o.committed = true ∨ (it.lk2 = .hit ∧ o = .recovered i)))) := by
  unfold recover at ho
  split at ho
  · simp at ho; obtain ⟨_, _, rfl⟩ := ho; simp [ROut.error] at hok
  · split at ho
    · simp at ho; obtain ⟨_, _, rfl⟩ := ho; simp [ROut.error] at hok
    · simp only [List.getElem?_map] at ho
      cases hr : (List.range items.length)[i]? with
      | none => simp [hr] at ho
      | some i' =>
        have hi' : i' = i := by
          have := List.getElem?_eq_some_iff.mp hr
          obtain ⟨hb, he⟩ := this
          simpa using he.symm
        subst hi'
        simp only [hr, Option.map_some] at ho
        cases hit : items[i']? with
        | none => simp [hit] at ho; subst ho; simp [ROut.error] at hok
        | some it =>
          refine ⟨it, rfl, ?_⟩
          simp only [hit] at ho
          cases hl : it.lk1 with
          | hit => simp [hl] at ho; exact Or.inl ⟨rfl, ho.symm⟩
          | err => simp [hl] at ho; subst ho; simp [ROut.error] at hok
          | miss =>
            simp only [hl] at ho
            by_cases hx : it.expired = true
            · simp [hx] at ho; subst ho; simp [ROut.error] at hok
            · have hx' : it.expired = false := by simpa using hx
              simp only [hx', Bool.false_eq_true, if_false, Option.some.injEq] at ho
              refine Or.inr ⟨rfl, hx', ?_⟩
              subst ho
              unfold retryOut at hok ⊢
              split
              · left; rfl
              · cases h2 : it.lk2 <;> simp_all [ROut.error, ROut.recovered]
              · simp_all [ROut.error]
              · split <;> simp_all [ROut.error, ROut.appended]
              · split <;> simp_all [ROut.error, ROut.appended]

/-- `activeAppendItems` as coded hands exactly the live items to the Appender, in order — for every
    pattern of expired / live items -/
theorem c29_active_items (flags : List Bool) : activeItems flags = liveFrom flags 0 := by
  simpa [activeItems] using activeGo_unfiltered' flags 0 []

example : activeItems [true, true, false, true, false] = [2, 4] := by decide

/-- BEFORE the repair (commit adc9a053f): with two leading inactive items the expired item 0 was resurrected —
    `append(nil, items[:0]...)` stays nil, so the `active == nil` branch copied `items[:1]` at the second
    inactive item.  Replayed through the public API by corpus/C29/expired_xxl.ops (old code: sent=0,2). -/
theorem c29_active_items_pre_fix_counterexample (r : List Bool) :
    activeItemsPreFix (true :: true :: r) = 0 :: liveFrom r 2 := by
  rw [activeItemsPreFix_eq]; simp [liveFrom]

/-- ordered completion drain (`c29_seq_increasing`, drain half): whatever the arrival order of append
    completions — duplicates and stale arrivals included — they are handed on in batch-sequence order
    0, 1, 2, … without gaps; with one append in flight per channel and FIFO pending items this is the
    submission order -/
theorem c29_completion_drain_in_order (arrivals : List Nat) :
    (Drain.run Drain.init arrivals).flatten = List.range (Drain.run Drain.init arrivals).flatten.length := by
  have := Drain.run_flatten arrivals Drain.init
  simpa [Drain.init, List.range_eq_range'] using this

example : Drain.run Drain.init [2, 0, 1] = [[], [0], [1, 2]] := by decide

/-- at most one goroutine advances a writer: two advance instances that own it are the same -/
theorem c29_single_advancer {s : Writer} (r : WReach s) (i j : Nat)
    (hi : (s.adv i).owns = true) (hj : (s.adv j).owns = true) : i = j :=
  r.inv.ownUnique i j hi hj

/-- no lost wake-up: when no submitter is between its enqueue and its CAS and every advance
    instance has left, the inbox is empty and every enqueued batch was taken by an advance -/
theorem c29_no_lost_wakeup {s : Writer} (r : WReach s) (hq : WQuiescent s) :
    s.inbox = 0 ∧ s.taken = s.submitted := by
  have h := r.inv
  obtain ⟨hsub, hadv⟩ := hq
  have h0 : s.inbox = 0 := by
    by_cases hp : 0 < s.inbox
    · rcases h.wake hp with hs | ⟨t, ht⟩ | ⟨i, hi⟩
      · obtain ⟨i, hi⟩ := h.schedOwn hs
        rcases hadv i with h' | h' <;> rw [h'] at hi <;> simp [APc.owns] at hi
      · exact absurd ht (hsub t)
      · rcases hadv i with h' | h' <;> rw [h'] at hi <;> cases hi
    · omega
  exact ⟨h0, by have := h.conserve; omega⟩

-- non-vacuity: a run with a submission racing the deactivate window ends quiescent
example : ∃ s, WReach s ∧ WQuiescent s ∧ s.submitted = 2 := by
  have r0 := WReach.init
  have r1 := r0.step (WStep.enq _ 0 rfl)
  have r2 := r1.step (WStep.casWin _ 0 rfl rfl)
  have r3 := r2.step (WStep.start _ 0 rfl)
  have r4 := r3.step (WStep.take _ 0 rfl)
  have r5 := r4.step (WStep.enq _ 1 rfl)            -- arrives while the advance is deactivating
  have r6 := r5.step (WStep.deactivate _ 0 false rfl)
  have r7 := r6.step (WStep.casWin _ 1 rfl rfl)
  have r8 := r7.step (WStep.reactLose _ 0 rfl rfl)
  have r9 := r8.step (WStep.start _ 1 rfl)
  have r10 := r9.step (WStep.take _ 1 rfl)
  have r11 := r10.step (WStep.deactivate _ 1 false rfl)
  have r12 := r11.step (WStep.leave _ 1 rfl)
  refine ⟨_, r12, ⟨fun t => ?_, fun i => ?_⟩, rfl⟩
  · simp only [Writer.init, updS]; grind
  · simp only [Writer.init, updA]; grind

end WK.C29

import WK.Proofs.C25_Lemmas
/-
  C25 — End-to-end payload encryption is correct and tamper-evident.

  All theorems are about the definitions of `WK.Model.C25` the driver executes
  (instantiated there with the recorded AES oracle, concrete base64 and MD5),
  and about `WK.Gen.C25.sendPreimageOrder`, regenerated from crypto.go on every
  run.  AES, base64, MD5 and X25519 enter ONLY through the hypotheses
  `BlockCipherOK`, `B64OK`, `Md5Collision`, `DHLaw` (never as axioms).
-/
namespace WK.C25
open WK WK.Gen.C25

/-- both negotiated values are at least one AES block long -/
def ValidKeys (k : SessionKeys) : Prop := 16 ≤ k.aesKey.length ∧ 16 ≤ k.aesIV.length

theorem aesBlockAndIV_ok (k : SessionKeys) (hk : ValidKeys k) :
    aesBlockAndIV k = .ok (k.aesKey.take 16, k.aesIV.take 16) := by
  unfold aesBlockAndIV blockSize
  rw [if_neg (by unfold ValidKeys at hk; omega)]

theorem aesBlockAndIV_short (k : SessionKeys) (hk : ¬ ValidKeys k) : aesBlockAndIV k = .error .missingKey := by
  unfold aesBlockAndIV blockSize
  rw [if_pos (by unfold ValidKeys at hk; omega)]

/-- a toy instance of the primitives, used only for the non-vacuity examples -/
def toyP : Prims :=
  { E := fun _ b => b, D := fun _ b => b, b64enc := id, b64dec := some, md5 := id,
    dh := fun s p => some (xorB s p), basepoint := List.replicate 32 9 }

theorem toy_cipher : BlockCipherOK toyP := ⟨fun _ _ h => h, fun _ _ _ => rfl⟩
theorem toy_b64 : B64OK toyP := fun _ => rfl
theorem toy_no_collision : ¬ Md5Collision toyP := fun ⟨_, _, hne, h⟩ => hne h
def toyKeys : SessionKeys := { aesKey := List.replicate 16 1, aesIV := List.replicate 16 2 }
theorem toy_keys_valid : ValidKeys toyKeys := by unfold ValidKeys toyKeys; simp

/-! ## 1. decrypt ∘ encrypt = id, for every payload length -/

theorem padBytes_len (p : Bytes) : (padBytes p 16).length % 16 = 0 ∧ (padBytes p 16).length ≠ 0 := by
  have h := paddingSize16 p.length
  unfold padBytes
  rw [List.length_append, List.length_replicate]
  omega

theorem decryptPayload_eq (P : Prims) (k : SessionKeys) (hk : ValidKeys k) (text : Bytes) :
    decryptPayload P k text =
      match P.b64dec text with
      | none => .error .b64
      | some raw =>
        if raw.length = 0 ∨ raw.length % 16 ≠ 0 then .error .missingKey
        else unpadView (cbcDecrypt (P.D (k.aesKey.take 16)) (k.aesIV.take 16) raw) 16 := by
  unfold decryptPayload; rw [aesBlockAndIV_ok k hk]; rfl

/-- **decrypt∘encrypt = id** for every payload (every length: the padding lemma is for all `n`) -/
theorem c25_decrypt_encrypt (P : Prims) (hC : BlockCipherOK P) (hB : B64OK P) (k : SessionKeys) (hk : ValidKeys k)
    (p : Bytes) : ∃ c, encryptPayload P k p = .ok c ∧ decryptPayload P k c = .ok p := by
  have hiv : (k.aesIV.take 16).length = 16 := by rw [List.length_take]; unfold ValidKeys at hk; omega
  have hpl := padBytes_len p
  refine ⟨P.b64enc (cbcEncrypt (P.E (k.aesKey.take 16)) (k.aesIV.take 16) (padBytes p 16)), ?_, ?_⟩
  · unfold encryptPayload; rw [aesBlockAndIV_ok k hk]
  · rw [decryptPayload_eq P k hk, hB]
    simp only
    rw [cbcEncrypt_length _ (hC.elen _) _ _ hiv hpl.1, if_neg (by omega),
      cbcDecrypt_encrypt _ _ (hC.elen _) (hC.de _) _ _ hiv hpl.1]
    exact c25_unpad_pad p

example : ∃ c, encryptPayload toyP toyKeys [1, 2, 3] = .ok c ∧ decryptPayload toyP toyKeys c = .ok [1, 2, 3] :=
  c25_decrypt_encrypt toyP toy_cipher toy_b64 toyKeys toy_keys_valid _

/-- with keys shorter than a block nothing is encrypted or decrypted (fail closed) -/
theorem c25_short_keys_fail (P : Prims) (k : SessionKeys) (hk : ¬ ValidKeys k) (x : Bytes) :
    encryptPayload P k x = .error .missingKey ∧ decryptPayload P k x = .error .missingKey := by
  unfold encryptPayload decryptPayload
  rw [aesBlockAndIV_short k hk]
  exact ⟨rfl, rfl⟩

example : encryptPayload toyP { aesKey := [1], aesIV := [] } [7] = .error .missingKey :=
  (c25_short_keys_fail toyP _ (by unfold ValidKeys; simp) _).1

/-! ## 2. unpad rejects bad padding (the characterisation is `c25_unpad_iff` in the lemma file) -/

/-- unpad accepts `q` with result `p` iff `q` is exactly the PKCS7 padding of `p` -/
theorem c25_unpad_accepts_only_padding (q p : Bytes) : unpadView q 16 = .ok p ↔ q = padBytes p 16 := c25_unpad_iff q p

example : unpadView ([1, 2] ++ List.replicate 14 14) 16 = .ok [1, 2] := by
  rw [c25_unpad_accepts_only_padding]; decide

/-- anything that is not the padding of some string is rejected with ErrMissingSessionKey -/
theorem c25_unpad_rejects (q : Bytes) (h : ∀ p, q ≠ padBytes p 16) : unpadView q 16 = .error .missingKey :=
  c25_unpad_rejects_bad q h

-- a block whose last byte is 0 is not a padding of anything
example : unpadView (List.replicate 16 0) 16 = .error .missingKey := c25_unpad_rejects _ (by
  intro p h
  have := congrArg List.getLast? h
  unfold padBytes at this
  have hk := paddingSize16 p.length
  rw [List.getLast?_append, List.getLast?_replicate, List.getLast?_replicate, if_neg (by omega), if_neg (by omega)] at this
  have h2 : (0 : UInt8) = UInt8.ofNat (pkcs7PaddingSize p.length 16) := by simpa using this
  have h3 := congrArg UInt8.toNat h2
  rw [u8_ofNat_toNat _ (by omega)] at h3
  simp at h3
  omega)

/-! ## 3. CBC is injective -/

/-- CBC encryption under a block permutation is injective on block-aligned data -/
theorem c25_cbc_injective (E D : Bytes → Bytes) (hE : ∀ b, b.length = 16 → (E b).length = 16)
    (hDE : ∀ b, b.length = 16 → D (E b) = b) (iv a b : Bytes) (hiv : iv.length = 16)
    (ha : a.length % 16 = 0) (hb : b.length % 16 = 0) (h : cbcEncrypt E iv a = cbcEncrypt E iv b) : a = b := by
  rw [← cbcDecrypt_encrypt E D hE hDE iv a hiv ha, ← cbcDecrypt_encrypt E D hE hDE iv b hiv hb, h]

example : cbcEncrypt id (List.replicate 16 0) (List.replicate 16 5) ≠ cbcEncrypt id (List.replicate 16 0) (List.replicate 16 6) := by
  intro h
  have := c25_cbc_injective id id (fun _ h => h) (fun _ _ => rfl) _ _ _ (by simp) (by simp) (by simp) h
  exact absurd this (by decide)

theorem padBytes_injective (p q : Bytes) (h : padBytes p 16 = padBytes q 16) : p = q := by
  have h1 := c25_unpad_pad p
  rw [h, c25_unpad_pad q] at h1
  injection h1 with h1
  exact h1.symm

/-- the whole sealing pipeline before the hash, base64(CBC(pad x)), is injective -/
theorem sealed_injective (P : Prims) (hC : BlockCipherOK P) (hB : B64OK P) (key iv x y : Bytes) (hiv : iv.length = 16)
    (h : P.b64enc (cbcEncrypt (P.E key) iv (padBytes x 16)) = P.b64enc (cbcEncrypt (P.E key) iv (padBytes y 16))) : x = y := by
  have h1 : some (cbcEncrypt (P.E key) iv (padBytes x 16)) = some (cbcEncrypt (P.E key) iv (padBytes y 16)) := by
    rw [← hB, ← hB, h]
  injection h1 with h1
  exact padBytes_injective _ _
    (c25_cbc_injective _ _ (hC.elen key) (hC.de key) iv _ _ hiv (padBytes_len x).1 (padBytes_len y).1 h1)

/-- two different payloads never encrypt to the same text -/
theorem c25_encrypt_injective (P : Prims) (hC : BlockCipherOK P) (hB : B64OK P) (k : SessionKeys) (hk : ValidKeys k)
    (x y : Bytes) (h : encryptPayload P k x = encryptPayload P k y) : x = y := by
  obtain ⟨c, hc, hd⟩ := c25_decrypt_encrypt P hC hB k hk x
  obtain ⟨c', hc', hd'⟩ := c25_decrypt_encrypt P hC hB k hk y
  rw [hc, hc'] at h
  injection h with h
  subst h
  rw [hd] at hd'
  injection hd'

example : encryptPayload toyP toyKeys [1] ≠ encryptPayload toyP toyKeys [2] := fun h =>
  absurd (c25_encrypt_injective toyP toy_cipher toy_b64 toyKeys toy_keys_valid _ _ h) (by decide)

/-! ## 4. a single altered field changes the preimage (for the append order read from crypto.go) -/

def covers (order : List (Field × Kind)) (f : Field) : Bool := order.any (fun g => g.1 == f)

theorem covers_mem (order : List (Field × Kind)) (f : Field) (h : covers order f = true) : ∃ k, (f, k) ∈ order := by
  unfold covers at h
  rw [List.any_eq_true] at h
  obtain ⟨⟨g1, g2⟩, hg, he⟩ := h
  simp only [beq_iff_eq] at he
  subst he
  exact ⟨g2, hg⟩

theorem mem_covers (order : List (Field × Kind)) (f : Field) (k : Kind) (h : (f, k) ∈ order) : covers order f = true := by
  unfold covers
  rw [List.any_eq_true]
  exact ⟨(f, k), h, by simp⟩

/-- the msg key is not part of its own preimage (a fact about the regenerated order) -/
theorem msgKey_not_covered : covers sendPreimageOrder .msgKey = false := by decide

theorem sendPreimage_msgKey (p : SendPacket) (x : Bytes) : sendPreimage { p with msgKey := x } = sendPreimage p := by
  unfold sendPreimage preimageOf
  apply congrArg List.flatten
  apply List.map_congr_left
  intro g hg
  obtain ⟨g1, g2⟩ := g
  cases g1 <;> first
    | rfl
    | (have := mem_covers _ _ _ hg; rw [msgKey_not_covered] at this; cases this)

/-- every field the property calls "covered" is appended by SendMsgKeyWithCrypto (a fact about the REGENERATED order:
    dropping an append from the Go function breaks this `decide`) -/
theorem c25_order_covers : coveredFields.all (covers sendPreimageOrder) = true := by decide

/-- **single-field tamper**: if `q` differs from `p` in exactly one covered field, the preimages differ.
    Holds for any permutation of the appends; needs only that the field is appended at all. -/
theorem c25_single_field_tamper (f : Field) (hf : f ∈ coveredFields) (p q : SendPacket) (h : DiffersOnlyIn f p q) :
    sendPreimage p ≠ sendPreimage q := by
  have hc : covers sendPreimageOrder f = true := (List.all_eq_true.mp c25_order_covers) f hf
  exact preimage_ne_of_field_ne sendPreimageOrder p q f h.1 h.2.1 (covers_mem _ _ hc)

/-- the five concrete perturbations of the property's quantifier are instances of `DiffersOnlyIn` -/
theorem differs_payload (p : SendPacket) (x : Bytes) (h : x ≠ p.payload) : DiffersOnlyIn .payload p { p with payload := x } :=
  ⟨fun g hg => by obtain ⟨g1, g2⟩ := g; cases g1 <;> first | rfl | exact absurd rfl hg, fun _ => fun e => h e.symm, rfl⟩
theorem differs_clientMsgNo (p : SendPacket) (x : Bytes) (h : x ≠ p.clientMsgNo) : DiffersOnlyIn .clientMsgNo p { p with clientMsgNo := x } :=
  ⟨fun g hg => by obtain ⟨g1, g2⟩ := g; cases g1 <;> first | rfl | exact absurd rfl hg, fun _ => fun e => h e.symm, rfl⟩
theorem differs_channelID (p : SendPacket) (x : Bytes) (h : x ≠ p.channelID) : DiffersOnlyIn .channelID p { p with channelID := x } :=
  ⟨fun g hg => by obtain ⟨g1, g2⟩ := g; cases g1 <;> first | rfl | exact absurd rfl hg, fun _ => fun e => h e.symm, rfl⟩
theorem differs_clientSeq (p : SendPacket) (n : Nat) (h : n ≠ p.clientSeq) : DiffersOnlyIn .clientSeq p { p with clientSeq := n } :=
  ⟨fun g hg => by obtain ⟨g1, g2⟩ := g; cases g1 <;> first | rfl | exact absurd rfl hg,
   fun _ => fun e => h (decBytes_inj _ _ e).symm, rfl⟩
theorem differs_channelType (p : SendPacket) (n : Nat) (h : n ≠ p.channelType) : DiffersOnlyIn .channelType p { p with channelType := n } :=
  ⟨fun g hg => by obtain ⟨g1, g2⟩ := g; cases g1 <;> first | rfl | exact absurd rfl hg,
   fun _ => fun e => h (decBytes_inj _ _ e).symm, rfl⟩

/-- single-field tamper, spelled out on the struct fields -/
theorem c25_single_field_tamper_fields (p : SendPacket) :
    (∀ x, x ≠ p.payload → sendPreimage p ≠ sendPreimage { p with payload := x }) ∧
    (∀ x, x ≠ p.clientMsgNo → sendPreimage p ≠ sendPreimage { p with clientMsgNo := x }) ∧
    (∀ x, x ≠ p.channelID → sendPreimage p ≠ sendPreimage { p with channelID := x }) ∧
    (∀ n, n ≠ p.clientSeq → sendPreimage p ≠ sendPreimage { p with clientSeq := n }) ∧
    (∀ n, n ≠ p.channelType → sendPreimage p ≠ sendPreimage { p with channelType := n }) :=
  ⟨fun x h => c25_single_field_tamper _ (by decide) _ _ (differs_payload p x h),
   fun x h => c25_single_field_tamper _ (by decide) _ _ (differs_clientMsgNo p x h),
   fun x h => c25_single_field_tamper _ (by decide) _ _ (differs_channelID p x h),
   fun n h => c25_single_field_tamper _ (by decide) _ _ (differs_clientSeq p n h),
   fun n h => c25_single_field_tamper _ (by decide) _ _ (differs_channelType p n h)⟩

example : sendPreimage { clientSeq := 1, channelID := [65] } ≠ sendPreimage { clientSeq := 11, channelID := [65] } :=
  (c25_single_field_tamper_fields { clientSeq := 1, channelID := [65] }).2.2.2.1 11 (by decide)

/-- The preimage is NOT injective jointly (fields are concatenated without separators): moving a byte across the
    ClientMsgNo/ChannelID boundary keeps it.  Outside the property's single-perturbation quantifier; kept visible.
    (The harness' `shift` perturbation exhibits this on the real server, which accepts such a packet.) -/
theorem c25_preimage_not_jointly_injective :
    ∃ p q : SendPacket, p ≠ q ∧ p.msgKey = q.msgKey ∧ p.payload = q.payload ∧ sendPreimage p = sendPreimage q :=
  ⟨{ clientMsgNo := [97, 98], channelID := [99] }, { clientMsgNo := [97], channelID := [98, 99] }, by decide, rfl, rfl,
   by simp [sendPreimage, preimageOf, sendPreimageOrder, fieldEnc]⟩

/-! ## 5. validation detects alterations -/

def unhexNib (c : UInt8) : Nat := if c.toNat < 58 then c.toNat - 48 else c.toNat - 87

theorem unhex_hexNib (n : Nat) (h : n < 16) : unhexNib (hexNib n) = n := by
  unfold hexNib unhexNib
  split
  · have : (UInt8.ofNat (48 + n)).toNat = 48 + n := by simp; omega
    rw [this]; split <;> omega
  · have : (UInt8.ofNat (87 + n)).toNat = 87 + n := by simp; omega
    rw [this]; split <;> omega

theorem hexLower_injective : ∀ a b : Bytes, hexLower a = hexLower b → a = b := by
  intro a
  induction a with
  | nil =>
    intro b h
    cases b with
    | nil => rfl
    | cons y ys => simp [hexLower] at h
  | cons x xs ih =>
    intro b h
    cases b with
    | nil => simp [hexLower] at h
    | cons y ys =>
      simp only [hexLower, List.flatMap_cons, List.cons_append, List.nil_append, List.cons.injEq] at h
      obtain ⟨h1, h2, h3⟩ := h
      have hx1 := unhex_hexNib (x.toNat / 16) (by have := x.toNat_lt; omega)
      have hx2 := unhex_hexNib (x.toNat % 16) (by omega)
      have hy1 := unhex_hexNib (y.toNat / 16) (by have := y.toNat_lt; omega)
      have hy2 := unhex_hexNib (y.toNat % 16) (by omega)
      rw [h1] at hx1; rw [h2] at hx2
      have : x.toNat = y.toNat := by omega
      have hxy : x = y := UInt8.toNat_inj.mp this
      rw [hxy, ih ys h3]

theorem msgKeyOf_ok (P : Prims) (k : SessionKeys) (hk : ValidKeys k) (sign : Bytes) :
    msgKeyOf P k sign = .ok (hexLower (P.md5 (P.b64enc (cbcEncrypt (P.E (k.aesKey.take 16)) (k.aesIV.take 16) (padBytes sign 16))))) := by
  unfold msgKeyOf; rw [aesBlockAndIV_ok k hk]

/-- validation accepts exactly the packets that carry the key computed from their own content -/
theorem validate_ok_iff (P : Prims) (k : SessionKeys) (q : SendPacket) :
    validateSend P k q = .ok () ↔ sendMsgKey P k q = .ok q.msgKey := by
  unfold validateSend
  cases h : sendMsgKey P k q with
  | error e => simp
  | ok expected =>
    simp only
    by_cases he : q.msgKey = expected
    · simp [he]
    · rw [if_pos he]; constructor
      · intro h; cases h
      · intro h; injection h with h; exact absurd h.symm he

/-- every non-accepting outcome of validation with usable keys is ErrMsgKeyMismatch -/
theorem validate_err_mismatch (P : Prims) (k : SessionKeys) (hk : ValidKeys k) (q : SendPacket)
    (h : validateSend P k q ≠ .ok ()) : validateSend P k q = .error .mismatch := by
  unfold validateSend sendMsgKey at *
  rw [msgKeyOf_ok P k hk] at *
  simp only at *
  split
  · rfl
  · rename_i h2; rw [if_neg h2] at h; exact absurd rfl h

/-- **validate accepting an altered packet implies an MD5 collision**: `p` is genuine (carries the key of its own
    content), `q` kept that key but its covered content (preimage) differs, and validation accepts `q`. -/
theorem c25_validate_detects (P : Prims) (hC : BlockCipherOK P) (hB : B64OK P) (k : SessionKeys) (hk : ValidKeys k)
    (p q : SendPacket) (hgen : sendMsgKey P k p = .ok p.msgKey) (hkey : q.msgKey = p.msgKey)
    (hpre : sendPreimage q ≠ sendPreimage p) (hacc : validateSend P k q = .ok ()) : Md5Collision P := by
  have hiv : (k.aesIV.take 16).length = 16 := by rw [List.length_take]; unfold ValidKeys at hk; omega
  rw [validate_ok_iff] at hacc
  unfold sendMsgKey at hgen hacc
  rw [msgKeyOf_ok P k hk] at hgen hacc
  injection hgen with hgen
  injection hacc with hacc
  rw [hkey, ← hgen] at hacc
  refine ⟨_, _, ?_, hexLower_injective _ _ hacc⟩
  intro he
  exact hpre (sealed_injective P hC hB _ _ _ _ hiv he)

/-- flipping the msg key alone is always rejected (no assumption on MD5) -/
theorem c25_msgkey_tamper_rejected (P : Prims) (k : SessionKeys) (hk : ValidKeys k) (p : SendPacket)
    (hgen : sendMsgKey P k p = .ok p.msgKey) (x : Bytes) (hx : x ≠ p.msgKey) :
    decryptSendForSession P (some k) { p with msgKey := x } = .error .mismatch := by
  have hv : validateSend P k { p with msgKey := x } = .error .mismatch := by
    apply validate_err_mismatch P k hk
    rw [Ne, validate_ok_iff]
    have : sendMsgKey P k { p with msgKey := x } = sendMsgKey P k p := by
      unfold sendMsgKey; rw [sendPreimage_msgKey]
    rw [this, hgen]
    intro h; injection h with h; exact hx h.symm
  unfold decryptSendForSession
  simp only [hv]

/-- **a tampered SEND is rejected**: absent an MD5 collision, a packet that differs from a genuine one in exactly one
    covered field (ciphertext, ClientSeq, ClientMsgNo, ChannelID, ChannelType) fails with ErrMsgKeyMismatch in the
    gateway's validate-then-decrypt step, before any decryption is attempted. -/
theorem c25_tamper_rejected (P : Prims) (hC : BlockCipherOK P) (hB : B64OK P) (hM : ¬ Md5Collision P)
    (k : SessionKeys) (hk : ValidKeys k) (p q : SendPacket) (hgen : sendMsgKey P k p = .ok p.msgKey)
    (f : Field) (hf : f ∈ coveredFields) (hd : DiffersOnlyIn f p q) :
    decryptSendForSession P (some k) q = .error .mismatch := by
  have hpre : sendPreimage q ≠ sendPreimage p := fun e => c25_single_field_tamper f hf p q hd e.symm
  have hv : validateSend P k q = .error .mismatch := by
    apply validate_err_mismatch P k hk
    intro hacc
    exact hM (c25_validate_detects P hC hB k hk p q hgen hd.2.2.symm hpre hacc)
  unfold decryptSendForSession
  simp only [hv]

/-- **the genuine packet is accepted and opens to the original payload** (seal by the client, open by the gateway) -/
theorem c25_adapter_roundtrip (P : Prims) (hC : BlockCipherOK P) (hB : B64OK P) (k : SessionKeys) (hk : ValidKeys k)
    (p : SendPacket) : ∃ s, sealSend P k p = .ok s ∧ sendMsgKey P k s = .ok s.msgKey ∧
      decryptSendForSession P (some k) s = .ok { s with payload := p.payload } := by
  obtain ⟨c, hc, hd⟩ := c25_decrypt_encrypt P hC hB k hk p.payload
  have hmk := msgKeyOf_ok P k hk (sendPreimage { p with payload := c })
  obtain ⟨mk, hmk'⟩ : ∃ mk, sendMsgKey P k { p with payload := c } = .ok mk := ⟨_, hmk⟩
  have hsame : sendMsgKey P k { p with payload := c, msgKey := mk } = sendMsgKey P k { p with payload := c } := by
    unfold sendMsgKey
    exact congrArg _ (sendPreimage_msgKey { p with payload := c } mk)
  refine ⟨{ p with payload := c, msgKey := mk }, ?_, ?_, ?_⟩
  · unfold sealSend; rw [hc]; simp only [hmk']
  · rw [hsame, hmk']
  · have hv : validateSend P k { p with payload := c, msgKey := mk } = .ok () := by
      rw [validate_ok_iff, hsame, hmk']
    unfold decryptSendForSession
    simp only [hv, hd]

example : ∃ s, sealSend toyP toyKeys { payload := [104, 105] } = .ok s ∧ sendMsgKey toyP toyKeys s = .ok s.msgKey ∧
    decryptSendForSession toyP (some toyKeys) s = .ok { s with payload := [104, 105] } :=
  c25_adapter_roundtrip toyP toy_cipher toy_b64 toyKeys toy_keys_valid _

/-- with the NoEncrypt bit or on a session without encryption the adapter passes the packet through untouched
    (fields outside the msg key — Setting, Expire, Topic, StreamNo — are not protected; stated, not claimed) -/
theorem c25_adapter_passthrough (P : Prims) (k : Option SessionKeys) (p : SendPacket) :
    adapterOnSend P false k p = .ok p ∧ (noEncrypt p.setting = true → ∀ en, adapterOnSend P en k p = .ok p) := by
  unfold adapterOnSend
  constructor
  · simp
  · intro h en; simp [h]

example : adapterOnSend toyP true none { setting := 16, payload := [1] } = .ok { setting := 16, payload := [1] } :=
  (c25_adapter_passthrough toyP none _).2 (by decide) true

/-! ## 6. both sides derive the same keys -/

/-- **same keys**: given the Diffie–Hellman law for the two private scalars and 32-byte public keys, the keys the
    server derives in NegotiateServerSession are exactly the keys the client derives in DeriveClientSession from the
    server's public key and the salt (IV) it was sent. -/
theorem c25_same_keys (P : Prims) (hB : B64OK P) (a b iv pa : Bytes) (hdh : DHLaw P a b)
    (hpa : P.dh a P.basepoint = some pa) (hpal : pa.length = 32)
    (hlen : ∀ pb, P.dh b P.basepoint = some pb → pb.length = 32)
    (sk : SessionKeys) (serverKey : Bytes) (hs : negotiateServer P (P.b64enc pa) b iv = .ok (sk, serverKey)) :
    deriveClient P a serverKey iv = .ok sk ∧ sk.aesIV = iv := by
  unfold negotiateServer decodePublicKey at hs
  rw [hB pa] at hs
  simp only [hpal, ne_eq, not_true_eq_false, if_false] at hs
  cases hpb : P.dh b P.basepoint with
  | none => rw [hpb] at hs; cases hs
  | some pb =>
    rw [hpb] at hs
    simp only at hs
    cases hsec : P.dh b pa with
    | none => rw [hsec] at hs; cases hs
    | some secret =>
      rw [hsec] at hs
      simp only at hs
      injection hs with hs
      injection hs with hs1 hs2
      subst hs1; subst hs2
      unfold deriveClient decodePublicKey
      rw [hB pb]
      simp only [hlen pb hpb, ne_eq, not_true_eq_false, if_false]
      rw [hdh pa pb hpa hpb, hsec]
      constructor <;> first | rfl | trivial

-- non-vacuity: the toy `dh` (xor with the scalar) satisfies the DH law for these two scalars, and the server succeeds
example : ∃ sk serverKey, negotiateServer toyP (toyP.b64enc (xorB (List.replicate 32 1) toyP.basepoint)) (List.replicate 32 2) [7] = .ok (sk, serverKey)
    ∧ deriveClient toyP (List.replicate 32 1) serverKey [7] = .ok sk := by
  refine ⟨_, _, rfl, ?_⟩
  exact (c25_same_keys toyP toy_b64 (List.replicate 32 1) (List.replicate 32 2) [7] _
    (by intro pa pb h1 h2; injection h1 with h1; injection h2 with h2; subst h1; subst h2; decide)
    rfl (by decide) (by intro pb h; injection h with h; subst h; decide) _ _ rfl).1

/-- an undecodable or wrong-length client key, or a point X25519 rejects, never yields session keys -/
theorem c25_bad_client_key_rejected (P : Prims) (clientKey b iv : Bytes)
    (h : P.b64dec clientKey = none ∨ (∃ d, P.b64dec clientKey = some d ∧ (d.length ≠ 32 ∨ P.dh b d = none))) :
    ∃ e, negotiateServer P clientKey b iv = .error e := by
  unfold negotiateServer decodePublicKey
  rcases h with h | ⟨d, hd, h⟩
  · rw [h]; exact ⟨_, rfl⟩
  · rw [hd]
    rcases h with h | h
    · simp only [h, ne_eq, not_false_eq_true, if_true]; exact ⟨_, rfl⟩
    · by_cases hl : d.length ≠ 32
      · simp only [hl, ne_eq, not_false_eq_true, if_true]; exact ⟨_, rfl⟩
      · simp only [hl, if_false]
        cases P.dh b P.basepoint with
        | none => exact ⟨_, rfl⟩
        | some spub => simp only [h]; exact ⟨_, rfl⟩

example : ∃ e, negotiateServer toyP [1, 2, 3] [] [] = .error e :=
  c25_bad_client_key_rejected toyP _ _ _ (Or.inr ⟨[1, 2, 3], rfl, Or.inl (by decide)⟩)

end WK.C25

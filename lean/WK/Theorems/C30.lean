import WK.Proofs.C30_Step
import WK.Spec.C30
/-
  C30 — Message ids are unique and increasing.

  The theorems are about `Reach`, the LTS of `WK/Model/C30.lean` that executes
  the instruction lists GENERATED from internal/app/app.go (`nextProg`,
  `setFloorProg`), for ANY number of threads, ANY interleaving of single
  instructions and ANY generator stream (each `gen` may deliver any natural
  number).  Ghost fields: `hist` = every value a successful CAS wrote (newest
  first); a thread's `histAtCas` / `acksAtCas` = `hist` / acknowledged floors
  at the moment of ITS successful CAS; `acks` = floors whose SetFloor returned nil.
-/
namespace WK.C30
open WK.Gen.C30

/-- the tie: the compiled loops have the shape the invariant is indexed by, and
    nothing else in app.go writes the floor -/
theorem c30_programs :
    nextProg = [.gen 0, .load 1, .brUnless .le 0 1 4, .jmp 0, .cas 1 0 6, .retReg 0, .jmp 0] ∧
    setFloorProg = [.load 1, .brUnless .le 0 1 3, .retOk, .gen 2, .brUnless .le 2 0 6, .retErr,
                    .load 1, .brUnless .le 2 1 9, .retOk, .cas 1 2 11, .retOk, .jmp 6] ∧
    floorWriters = 2 := ⟨next_prog, setFloor_prog, by decide⟩

/-- every successful CAS (of Next or SetFloor) writes a value strictly above everything written
    before, and the floor is the maximum -/
theorem c30_cas_increasing {s : GState} (h : Reach s) :
    s.hist.Pairwise (· > ·) ∧ ∀ x ∈ s.hist, x ≤ s.floor :=
  ⟨(inv_reach h).sorted, (inv_reach h).histLe⟩

/-- **uniqueness**: two different calls of Next never return the same id -/
theorem c30_unique {s : GState} (h : Reach s) {i j : Nat} {ti tj : Thread} {v w : Nat} (hij : i ≠ j)
    (hi : s.threads i = some ti) (hj : s.threads j = some tj)
    (ki : ti.kind = .next) (kj : tj.kind = .next)
    (ri : ti.ret = some (.id v)) (rj : tj.ret = some (.id w)) : v ≠ w := by
  intro hvw
  subst hvw
  have I := inv_reach h
  have a := ((I.thr i ti hi).nxr ki _ ri)
  have b := ((I.thr j tj hj).nxr kj _ rj)
  simp only [Ret.id.injEq] at a b
  exact I.distinct i j ti tj v hij hi hj (a.1 ▸ a.2) (b.1 ▸ b.2)

/-- **ids are strictly increasing in CAS order**: a returned id is the value its call CASed into the
    floor, it is in the (strictly decreasing, newest-first) CAS history, and it is above every value
    CASed before it — in particular above every id returned before its CAS -/
theorem c30_increasing_in_cas_order {s : GState} (h : Reach s) {i : Nat} {ti : Thread} {v : Nat}
    (hi : s.threads i = some ti) (ki : ti.kind = .next) (ri : ti.ret = some (.id v)) :
    ti.casd = some v ∧ v ∈ s.hist ∧ (∀ w ∈ ti.histAtCas, w < v) ∧ v ≤ s.floor := by
  have I := inv_reach h
  have a := ((I.thr i ti hi).nxr ki _ ri)
  simp only [Ret.id.injEq] at a
  have c : ti.casd = some v := a.1 ▸ a.2
  have d := (I.thr i ti hi).casd v c
  exact ⟨c, d.1, d.2.1, I.histLe v d.1⟩

/-- **floor respected**: (a) an id is above every floor acknowledged before its CAS;
    (b) an acknowledged floor stays at or below the shared floor for ever, so (c) no later CAS —
    hence no later id — can be at or below it. -/
theorem c30_floor_respected {s : GState} (h : Reach s) :
    (∀ i ti v, s.threads i = some ti → ti.kind = .next → ti.ret = some (.id v) → ∀ f ∈ ti.acksAtCas, f < v) ∧
    (∀ k tk, s.threads k = some tk → tk.kind = .setFloor → tk.ret = some .ok → tk.r0 ≤ s.floor) ∧
    (∀ f ∈ s.acks, f ≤ s.floor) := by
  have I := inv_reach h
  refine ⟨?_, ?_, I.acksLe⟩
  · intro i ti v hi ki ri f hf
    have a := ((I.thr i ti hi).nxr ki _ ri)
    simp only [Ret.id.injEq] at a
    exact ((I.thr i ti hi).casd v (a.1 ▸ a.2)).2.2.1 f hf
  · intro k tk hk kk rk
    exact (I.thr k tk hk).sfOk kk rk

/-- the next successful CAS from any reachable state is above the floor, hence above every
    acknowledged floor and every id returned so far (one-step form of "whose CAS happens later") -/
theorem c30_later_cas_above {s s' : GState} (h : Reach s) (hs : Step s s') :
    s.floor ≤ s'.floor ∧
    ∀ v, s'.hist = v :: s.hist → s.floor < v ∧ (∀ f ∈ s.acks, f < v) ∧ (∀ w ∈ s.hist, w < v) := by
  have I := inv_reach h
  cases hs with
  | spawn k kind arg hk => exact ⟨Nat.le_refl _, fun v hv => by simp at hv⟩
  | run k t g fl' t' o hk he =>
    cases o with
    | none =>
      have := exec_floor_same he (by simp)
      subst this
      exact ⟨Nat.le_refl _, fun v hv => by simp [commit] at hv⟩
    | ret r =>
      have := exec_floor_same he (by simp)
      subst this
      exact ⟨Nat.le_refl _, fun v hv => by simp [commit] at hv⟩
    | cas v =>
      obtain ⟨rfl, hlt⟩ := cas_above (I.thr k t hk) he
      refine ⟨Nat.le_of_lt hlt, fun w hw => ?_⟩
      simp only [commit, List.cons.injEq, and_true] at hw
      subst hw
      exact ⟨hlt, fun f hf => Nat.lt_of_le_of_lt (I.acksLe f hf) hlt,
        fun x hx => Nat.lt_of_le_of_lt (I.histLe x hx) hlt⟩

/-! ### real-time order: start and return of calls -/

theorem wr_ghost (t : Thread) (i v : Nat) :
    (t.wr i v).kind = t.kind ∧ (t.wr i v).histAtStart = t.histAtStart ∧ (t.wr i v).acksAtStart = t.acksAtStart ∧
    (t.wr i v).retsAtStart = t.retsAtStart := by
  unfold Thread.wr; split <;> simp

/-- executing an instruction never touches the kind or the start snapshots of a call -/
theorem exec_ghost {prog : List Instr} {F : Nat} {t : Thread} {g fl' : Nat} {t' : Thread} {o : Out}
    (he : exec prog F t g = some (fl', t', o)) :
    t'.kind = t.kind ∧ t'.histAtStart = t.histAtStart ∧ t'.acksAtStart = t.acksAtStart ∧ t'.retsAtStart = t.retsAtStart := by
  unfold exec at he
  split at he
  · cases he
  all_goals first
    | (simp only [Option.some.injEq, Prod.mk.injEq] at he; obtain ⟨_, rfl, _⟩ := he; first | exact wr_ghost _ _ _ | simp)
    | (split at he <;> simp only [Option.some.injEq, Prod.mk.injEq] at he <;> (obtain ⟨_, rfl, _⟩ := he; simp))

/-- a call, once started, stays in the thread table with its kind and start snapshots;
    returned ids and acknowledged floors are never forgotten -/
theorem step_persist {s s' : GState} (hs : Step s s') :
    (∀ j t, s.threads j = some t → ∃ t', s'.threads j = some t' ∧ t'.kind = t.kind ∧
      t'.histAtStart = t.histAtStart ∧ t'.acksAtStart = t.acksAtStart ∧ t'.retsAtStart = t.retsAtStart) ∧
    (∀ v ∈ s.rets, v ∈ s'.rets) ∧ (∀ f ∈ s.acks, f ∈ s'.acks) := by
  cases hs with
  | spawn k kind arg h =>
    refine ⟨fun j t hj => ?_, fun v hv => hv, fun f hf => hf⟩
    have : j ≠ k := fun e => by subst e; rw [h] at hj; cases hj
    exact ⟨t, by simp [upd, this, hj], rfl, rfl, rfl, rfl⟩
  | run k t g fl' t' o h he =>
    have hg := exec_ghost he
    refine ⟨fun j tj hj => ?_, ?_, ?_⟩
    · by_cases hjk : j = k
      · subst hjk
        rw [h] at hj; cases hj
        cases o with
        | none => exact ⟨t', by simp [commit, upd], hg⟩
        | cas v => exact ⟨{ t' with casd := some v, histAtCas := s.hist, acksAtCas := s.acks }, by simp [commit, upd], hg⟩
        | ret r => exact ⟨{ t' with ret := some r }, by simp [commit, upd], hg⟩
      · refine ⟨tj, ?_, rfl, rfl, rfl, rfl⟩
        cases o <;> simp [commit, upd, hjk, hj]
    · intro v hv
      cases o with
      | none => exact hv
      | cas _ => exact hv
      | ret r => cases r <;> simp [commit, hv]
    · intro f hf
      cases o with
      | none => exact hf
      | cas _ => exact hf
      | ret r =>
        simp only [commit]
        split
        · exact List.mem_cons_of_mem _ hf
        · exact hf

inductive Steps : GState → GState → Prop
  | refl (s : GState) : Steps s s
  | tail {a b c : GState} : Steps a b → Step b c → Steps a c

theorem reach_steps {s s' : GState} (h : Reach s) (hs : Steps s s') : Reach s' := by
  induction hs with
  | refl => exact h
  | tail _ st ih => exact Reach.step ih st

theorem steps_persist {s s' : GState} (hs : Steps s s') :
    (∀ j t, s.threads j = some t → ∃ t', s'.threads j = some t' ∧ t'.kind = t.kind ∧
      t'.histAtStart = t.histAtStart ∧ t'.acksAtStart = t.acksAtStart ∧ t'.retsAtStart = t.retsAtStart) ∧
    (∀ v ∈ s.rets, v ∈ s'.rets) ∧ (∀ f ∈ s.acks, f ∈ s'.acks) := by
  induction hs with
  | refl => exact ⟨fun j t hj => ⟨t, hj, rfl, rfl, rfl, rfl⟩, fun _ h => h, fun _ h => h⟩
  | tail _ st ih =>
    obtain ⟨a, b, c⟩ := ih
    obtain ⟨a', b', c'⟩ := step_persist st
    refine ⟨fun j t hj => ?_, fun v hv => b' v (b v hv), fun f hf => c' f (c f hf)⟩
    obtain ⟨t1, h1, e1, e2, e3, e4⟩ := a j t hj
    obtain ⟨t2, h2, f1, f2, f3, f4⟩ := a' j t1 h1
    exact ⟨t2, h2, f1.trans e1, f2.trans e2, f3.trans e3, f4.trans e4⟩

/-- the state right after call `j` of the given kind starts in `s` -/
def startCall (s : GState) (j : Nat) (kind : Kind) (arg : Nat) : GState :=
  { s with threads := upd s.threads j (spawnThread kind arg s) }

/-- **real-time order**: if call A (any thread `i`) has RETURNED id `v` in state `s1`, and call B
    (Next, thread `j`) STARTS in a later state `s2`, then whatever B returns is larger. -/
theorem c30_realtime_increasing {s1 s2 s3 : GState} {i j : Nat} {ti tj : Thread} {v w : Nat}
    (h1 : Reach s1) (hA : s1.threads i = some ti) (rA : ti.ret = some (.id v))
    (h12 : Steps s1 s2) (hfree : s2.threads j = none)
    (h23 : Steps (startCall s2 j .next 0) s3)
    (hB : s3.threads j = some tj) (rB : tj.ret = some (.id w)) : v < w := by
  have I1 := inv_reach h1
  have hv2 : v ∈ s2.rets := (steps_persist h12).2.1 v (I1.retRec i ti v hA rA)
  have h2 : Reach s2 := reach_steps h1 h12
  have h2' : Reach (startCall s2 j .next 0) := Reach.step h2 (Step.spawn s2 j .next 0 hfree)
  have I3 := inv_reach (reach_steps h2' h23)
  obtain ⟨t3, ht3, hk, _, _, hr⟩ := (steps_persist h23).1 j (spawnThread .next 0 s2) (by simp [startCall, upd])
  rw [hB] at ht3; cases ht3
  have hkind : tj.kind = .next := hk
  have hrs : tj.retsAtStart = s2.rets := hr
  have T := I3.thr j tj hB
  have a := T.nxr hkind _ rB
  simp only [Ret.id.injEq] at a
  have c := T.casd w (a.1 ▸ a.2)
  exact c.2.2.2.1 v (T.startRets v (hrs ▸ hv2))

/-- **floor in real time**: if `SetFloor(f)` has RETURNED nil in `s1` and a Next call starts later,
    the id it returns is above `f`. -/
theorem c30_floor_realtime {s1 s2 s3 : GState} {k j : Nat} {tk tj : Thread} {w : Nat}
    (h1 : Reach s1) (hA : s1.threads k = some tk) (kA : tk.kind = .setFloor) (rA : tk.ret = some .ok)
    (h12 : Steps s1 s2) (hfree : s2.threads j = none)
    (h23 : Steps (startCall s2 j .next 0) s3)
    (hB : s3.threads j = some tj) (rB : tj.ret = some (.id w)) : tk.r0 < w := by
  have I1 := inv_reach h1
  have hv2 : tk.r0 ∈ s2.acks := (steps_persist h12).2.2 _ (I1.ackRec k tk hA kA rA)
  have h2 : Reach s2 := reach_steps h1 h12
  have h2' : Reach (startCall s2 j .next 0) := Reach.step h2 (Step.spawn s2 j .next 0 hfree)
  have I3 := inv_reach (reach_steps h2' h23)
  obtain ⟨t3, ht3, hk, _, ha, _⟩ := (steps_persist h23).1 j (spawnThread .next 0 s2) (by simp [startCall, upd])
  rw [hB] at ht3; cases ht3
  have hkind : tj.kind = .next := hk
  have has : tj.acksAtStart = s2.acks := ha
  have T := I3.thr j tj hB
  have a := T.nxr hkind _ rB
  simp only [Ret.id.injEq] at a
  have c := T.casd w (a.1 ▸ a.2)
  exact c.2.2.2.2 _ (has ▸ hv2)

/-- SetFloor never overwrites its parameter register, so `tk.r0` above is the floor that was passed -/
theorem c30_setfloor_arg_const :
    setFloorProg.all (fun i => match i with | .gen 0 | .load 0 => false | _ => true) = true := by decide


/-! ### uint64: the model's naturals are Go's uint64 values as long as inputs are -/

/-- 2^64 -/
def B64 : Nat := 18446744073709551616

def Thread.bounded (t : Thread) : Prop := t.r0 < B64 ∧ t.r1 < B64 ∧ t.r2 < B64

theorem rd_bounded {t : Thread} (h : t.bounded) (i : Nat) : t.rd i < B64 := by
  unfold Thread.rd; split
  · exact h.1
  · exact h.2.1
  · exact h.2.2

theorem wr_bounded {t : Thread} (h : t.bounded) (i : Nat) {v : Nat} (hv : v < B64) : (t.wr i v).bounded := by
  unfold Thread.wr; split
  · exact ⟨hv, h.2.1, h.2.2⟩
  · exact ⟨h.1, hv, h.2.2⟩
  · exact ⟨h.1, h.2.1, hv⟩

/-- the loops do NO arithmetic: an instruction only moves values between the generator, the
    registers and the shared word, so nothing can wrap -/
theorem exec_bounded {prog : List Instr} {F : Nat} {t : Thread} {g fl' : Nat} {t' : Thread} {o : Out}
    (hF : F < B64) (ht : t.bounded) (hg : g < B64) (he : exec prog F t g = some (fl', t', o)) :
    fl' < B64 ∧ t'.bounded ∧ (∀ v, o = .cas v → v < B64) ∧ (∀ v, o = .ret (.id v) → v < B64) := by
  unfold exec at he
  split at he
  · cases he
  · simp only [Option.some.injEq, Prod.mk.injEq] at he; obtain ⟨rfl, rfl, rfl⟩ := he
    exact ⟨hF, wr_bounded ht _ hg, by simp, by simp⟩
  · simp only [Option.some.injEq, Prod.mk.injEq] at he; obtain ⟨rfl, rfl, rfl⟩ := he
    exact ⟨hF, wr_bounded ht _ hF, by simp, by simp⟩
  · split at he <;> simp only [Option.some.injEq, Prod.mk.injEq] at he <;> (obtain ⟨rfl, rfl, rfl⟩ := he) <;>
      exact ⟨hF, ht, by simp, by simp⟩
  · split at he <;> simp only [Option.some.injEq, Prod.mk.injEq] at he <;> (obtain ⟨rfl, rfl, rfl⟩ := he)
    · exact ⟨rd_bounded ht _, ht, fun v hv => by simp only [Out.cas.injEq] at hv; subst hv; exact rd_bounded ht _, by simp⟩
    · exact ⟨hF, ht, by simp, by simp⟩
  · simp only [Option.some.injEq, Prod.mk.injEq] at he; obtain ⟨rfl, rfl, rfl⟩ := he
    exact ⟨hF, ht, by simp, by simp⟩
  · simp only [Option.some.injEq, Prod.mk.injEq] at he; obtain ⟨rfl, rfl, rfl⟩ := he
    exact ⟨hF, ht, by simp, fun v hv => by simp only [Out.ret.injEq, Ret.id.injEq] at hv; subst hv; exact rd_bounded ht _⟩
  · simp only [Option.some.injEq, Prod.mk.injEq] at he; obtain ⟨rfl, rfl, rfl⟩ := he
    exact ⟨hF, ht, by simp, by simp⟩
  · simp only [Option.some.injEq, Prod.mk.injEq] at he; obtain ⟨rfl, rfl, rfl⟩ := he
    exact ⟨hF, ht, by simp, by simp⟩

/-- reachability when every generator value and every SetFloor argument is a uint64 -/
inductive ReachB : GState → Prop
  | init : ReachB init
  | spawn {s : GState} (h : ReachB s) (k : Nat) (kind : Kind) (arg : Nat) (hfree : s.threads k = none)
      (harg : arg < B64) : ReachB (startCall s k kind arg)
  | run {s : GState} (h : ReachB s) (k : Nat) (t : Thread) (g fl' : Nat) (t' : Thread) (o : Out)
      (hk : s.threads k = some t) (he : exec (progOf t.kind) s.floor t g = some (fl', t', o))
      (hg : g < B64) : ReachB (commit s k fl' t' o)

theorem reachB_reach {s : GState} (h : ReachB s) : Reach s := by
  induction h with
  | init => exact Reach.init
  | spawn _ k kind arg hfree _ ih => exact Reach.step ih (Step.spawn _ k kind arg hfree)
  | run _ k t g fl' t' o hk he _ ih => exact Reach.step ih (Step.run _ k t g fl' t' o hk he)

/-- **no wrap-around**: with uint64 inputs, the shared floor, every register, every CASed value and
    every returned id is a uint64 — the `Nat` model and the Go code compute the same values -/
theorem c30_u64_closed {s : GState} (h : ReachB s) :
    s.floor < B64 ∧ (∀ x ∈ s.hist, x < B64) ∧ (∀ v ∈ s.rets, v < B64) ∧
    (∀ k t, s.threads k = some t → t.bounded) := by
  induction h with
  | init =>
    refine ⟨by decide, ?_, ?_, ?_⟩
    · intro x hx; cases hx
    · intro x hx; cases hx
    · intro k t hk; simp [init] at hk
  | spawn _ k kind arg hfree harg ih =>
    obtain ⟨a, b, c, d⟩ := ih
    refine ⟨a, b, c, fun j t hj => ?_⟩
    by_cases hjk : j = k
    · subst hjk
      simp only [startCall, upd_same, Option.some.injEq] at hj
      subst hj
      cases kind
      · exact ⟨by simp [spawnThread, B64], by simp [spawnThread, B64], by simp [spawnThread, B64]⟩
      · exact ⟨by simpa [spawnThread] using harg, by simp [spawnThread, B64], by simp [spawnThread, B64]⟩
    · simp only [startCall] at hj
      rw [upd_other _ _ _ hjk] at hj
      exact d j t hj
  | @run s0 _ k t g fl' t' o hk he hg ih =>
    obtain ⟨a, b, c, d⟩ := ih
    obtain ⟨e1, e2, e3, e4⟩ := exec_bounded a (d k t hk) hg he
    have thr : ∀ (t'' : Thread), t''.bounded → ∀ j tj, upd s0.threads k t'' j = some tj → tj.bounded := by
      intro t'' hb j tj hj
      by_cases hjk : j = k
      · subst hjk; simp only [upd_same, Option.some.injEq] at hj; subst hj; exact hb
      · rw [upd_other _ _ _ hjk] at hj; exact d j tj hj
    cases o with
    | none => exact ⟨e1, b, c, thr t' e2⟩
    | cas v =>
      refine ⟨e1, fun x hx => ?_, c, thr _ e2⟩
      rcases List.mem_cons.mp hx with h | h
      · subst h; exact e3 _ rfl
      · exact b x h
    | ret r =>
      refine ⟨e1, b, fun x hx => ?_, thr _ e2⟩
      cases r with
      | id w =>
        rcases List.mem_cons.mp hx with h | h
        · subst h; exact e4 _ rfl
        · exact c x h
      | ok => exact c x hx
      | err => exact c x hx

/-- **at MaxUint64**: once the floor is 2^64-1 (a generator that delivered uint64(int64(-1)), say),
    no CAS can succeed any more — Next spins and no further id is issued; safety is kept, only
    progress is lost -/
theorem c30_no_id_after_max {s : GState} (h : ReachB s) (hmax : s.floor = B64 - 1)
    {k : Nat} {t : Thread} {g fl' : Nat} {t' : Thread} {o : Out}
    (hk : s.threads k = some t) (he : exec (progOf t.kind) s.floor t g = some (fl', t', o)) (hg : g < B64) :
    (∀ v, o ≠ .cas v) ∧ (commit s k fl' t' o).hist = s.hist ∧ (commit s k fl' t' o).floor = s.floor := by
  have hb := (c30_u64_closed (ReachB.run h k t g fl' t' o hk he hg)).1
  have I := inv_reach (reachB_reach h)
  have hno : ∀ v, o ≠ .cas v := by
    intro v hv
    subst hv
    obtain ⟨rfl, hlt⟩ := cas_above (I.thr k t hk) he
    simp only [commit] at hb
    unfold B64 at hb hmax
    omega
  refine ⟨hno, ?_, ?_⟩
  · cases o with
    | none => rfl
    | ret r => rfl
    | cas v => exact absurd rfl (hno v)
  · have := exec_floor_same he hno
    cases o <;> simp [commit, this]

/-! ### an executable scheduler over the same transitions (non-vacuity, and why `<=` matters) -/

inductive Cmd | spawn (k : Nat) (kind : Kind) (arg : Nat) | run (k : Nat) (g : Nat)

def applyCmdP (progs : Kind → List Instr) (s : GState) : Cmd → GState
  | .spawn k kind arg =>
    match s.threads k with
    | none => { s with threads := upd s.threads k (spawnThread kind arg s) }
    | some _ => s
  | .run k g =>
    match s.threads k with
    | none => s
    | some t =>
      match exec (progs t.kind) s.floor t g with
      | none => s
      | some (fl', t', o) => commit s k fl' t' o

theorem reach_applyCmd {s : GState} (h : Reach s) (c : Cmd) : Reach (applyCmdP progOf s c) := by
  cases c with
  | spawn k kind arg =>
    simp only [applyCmdP]
    split
    · rename_i hn; exact Reach.step h (Step.spawn s k kind arg hn)
    · exact h
  | run k g =>
    simp only [applyCmdP]
    split
    · exact h
    · rename_i t ht
      split
      · exact h
      · rename_i fl' t' o he
        exact Reach.step h (Step.run s k t g fl' t' o ht he)

theorem reach_run {s : GState} (h : Reach s) (cs : List Cmd) : Reach (cs.foldl (applyCmdP progOf) s) := by
  induction cs generalizing s with
  | nil => exact h
  | cons c cs ih => exact ih (reach_applyCmd h c)

def retOf (s : GState) (k : Nat) : Option Ret := (s.threads k).bind (·.ret)

/-- two overlapping Next calls to which a regressed clock delivers the SAME raw id 5 (and then 9),
    a SetFloor 7 in between: thread 0 returns 5, thread 1 is forced past it and past the floor -/
def demo : List Cmd :=
  [.spawn 0 .next 0, .spawn 1 .next 0,
   .run 0 5, .run 1 5, .run 0 0, .run 1 0, .run 0 0, .run 1 0,   -- both: gen 5, load 0, 5 > 0
   .run 0 0, .run 0 0,                                           -- thread 0: CAS 0→5, return 5
   .run 1 0, .run 1 0,                                           -- thread 1: CAS fails, retry
   .run 1 5, .run 1 0, .run 1 0, .run 1 0,                       -- gen 5 again, load 5, 5 ≤ 5: continue
   .spawn 2 .setFloor 7, .run 2 0, .run 2 0, .run 2 8, .run 2 0, .run 2 0, .run 2 0, .run 2 0, .run 2 0,
   .run 1 9, .run 1 0, .run 1 0, .run 1 0, .run 1 0]

def demoState : GState := demo.foldl (applyCmdP progOf) init

theorem demo_reach : Reach demoState := reach_run Reach.init demo

example : retOf demoState 0 = some (.id 5) ∧ retOf demoState 1 = some (.id 9) ∧ retOf demoState 2 = some .ok ∧
    demoState.floor = 9 ∧ demoState.hist = [9, 8, 5] ∧ demoState.acks = [7] := by decide
-- the hypotheses of c30_unique / c30_increasing_in_cas_order / c30_floor_respected are met in `demoState`
example : ∃ ti tj, demoState.threads 0 = some ti ∧ demoState.threads 1 = some tj ∧ ti.kind = .next ∧ tj.kind = .next ∧
    ti.ret = some (.id 5) ∧ tj.ret = some (.id 9) ∧ tj.acksAtCas = [7] ∧ tj.histAtCas = [8, 5] := by
  refine ⟨_, _, rfl, rfl, ?_⟩
  decide
example : demoState.hist.Pairwise (· > ·) := (c30_cas_increasing demo_reach).1


-- c30_realtime_increasing / c30_floor_realtime: in `demo`, thread 0 returned 5 and SetFloor 7 returned nil
-- before a NEW call (thread 3) starts; it is handed raw id 6 first (must skip it) and then 11
def demo2 : List Cmd := [.run 3 6, .run 3 0, .run 3 0, .run 3 0, .run 3 11, .run 3 0, .run 3 0, .run 3 0, .run 3 0]
theorem steps_trans {a b c : GState} (h1 : Steps a b) (h2 : Steps b c) : Steps a c := by
  induction h2 with
  | refl => exact h1
  | tail _ st ih => exact Steps.tail ih st
theorem steps_run {s : GState} (cs : List Cmd) : Steps s (cs.foldl (applyCmdP progOf) s) := by
  induction cs generalizing s with
  | nil => exact Steps.refl s
  | cons c cs ih =>
    have h1 : Steps s (applyCmdP progOf s c) := by
      cases c with
      | spawn k kind arg =>
        simp only [applyCmdP]
        split
        · rename_i hn; exact Steps.tail (Steps.refl s) (Step.spawn s k kind arg hn)
        · exact Steps.refl s
      | run k g =>
        simp only [applyCmdP]
        split
        · exact Steps.refl s
        · rename_i t ht
          split
          · exact Steps.refl s
          · rename_i fl' t' o he
            exact Steps.tail (Steps.refl s) (Step.run s k t g fl' t' o ht he)
    exact steps_trans h1 ih
def demoState3 : GState := demo2.foldl (applyCmdP progOf) (startCall demoState 3 .next 0)
example : retOf demoState3 3 = some (.id 11) := by decide
example : ∃ tj, demoState3.threads 3 = some tj ∧ tj.ret = some (.id 11) ∧ 5 < 11 ∧ 7 < 11 := by
  refine ⟨_, rfl, ?_⟩
  decide
example : (5 : Nat) < 11 :=
  c30_realtime_increasing (s1 := demoState) (s2 := demoState) (s3 := demoState3) (i := 0) (j := 3)
    demo_reach rfl (by decide) (Steps.refl _) (by decide) (steps_run demo2) rfl (by decide)
example : (7 : Nat) < 11 :=
  c30_floor_realtime (s1 := demoState) (s2 := demoState) (s3 := demoState3) (k := 2) (j := 3)
    demo_reach rfl (by decide) (by decide) (Steps.refl _) (by decide) (steps_run demo2) rfl (by decide)
-- c30_u64_closed / c30_no_id_after_max: a uint64 run that reaches the maximum
example : ReachB (startCall init 0 .next 0) := ReachB.spawn ReachB.init 0 .next 0 rfl (by decide)

/-- the same schedule against a `<`-for-`<=` Next (what a one-character mutant compiles to):
    the repeated raw id 5 passes the guard, `CAS(5,5)` succeeds and BOTH calls return 5 -/
def ltProgs : Kind → List Instr
  | .next => [.gen 0, .load 1, .brUnless .lt 0 1 4, .jmp 0, .cas 1 0 6, .retReg 0, .jmp 0]
  | .setFloor => setFloorProg

example :
    let s := ([.spawn 0 .next 0, .spawn 1 .next 0, .run 0 5, .run 0 0, .run 0 0, .run 0 0, .run 0 0,
               .run 1 5, .run 1 0, .run 1 0, .run 1 0, .run 1 0] : List Cmd).foldl (applyCmdP ltProgs) init
    retOf s 0 = some (.id 5) ∧ retOf s 1 = some (.id 5) := by decide

/-! ### judge clauses as model theorems: floor monotone over any run; the sequential acceptors -/

/-- the judge clause `viol:floor-decreased`, lifted to ANY sequence of transitions: the shared floor
    never decreases -/
theorem c30_floor_monotone {s s' : GState} (h : Reach s) (hs : Steps s s') : s.floor ≤ s'.floor := by
  induction hs with
  | refl => exact Nat.le_refl _
  | tail h12 st ih => exact Nat.le_trans ih (c30_later_cas_above (reach_steps h h12) st).1

example : init.floor ≤ demoState.floor := c30_floor_monotone Reach.init (steps_run demo)

/-- the sequential acceptor the driver runs for `next`: the generated Next program, alone on a floor
    `F`, fed the single generator value `id`, returns exactly when `id > F`, returns that id and
    leaves the floor at it; otherwise (`id ≤ F`) it asks the generator again (acceptor: `none`). -/
theorem c30_seq_next (F v : Nat) (s : GState) :
    runSeq nextProg 64 F (spawnThread .next 0 s) [v] =
      if F < v then some (.id v, v) else none := by
  rw [next_prog]
  by_cases h : F < v
  · have h1 : ¬ v ≤ F := by omega
    simp [runSeq, exec, spawnThread, Thread.wr, Thread.rd, evalCmp, h, h1, haltPC]
  · have h1 : v ≤ F := by omega
    simp [runSeq, exec, spawnThread, Thread.wr, Thread.rd, evalCmp, h, h1, haltPC]


/-- the sequential acceptor the driver runs for `floor …`: the generated SetFloor program alone on
    floor `F` with parameter `f` and probe `p`: nil without touching the floor when `f ≤ F`; an error
    (floor untouched) when the probe is not above `f`; otherwise the floor becomes the probe. -/
theorem c30_seq_setFloor (F f p : Nat) (s : GState) :
    runSeq setFloorProg 64 F (spawnThread .setFloor f s) [p] =
      if f ≤ F then some (.ok, F) else if p ≤ f then some (.err, F) else some (.ok, p) := by
  rw [setFloor_prog]
  by_cases h : f ≤ F
  · simp [runSeq, exec, spawnThread, Thread.wr, Thread.rd, evalCmp, h, haltPC]
  · by_cases h2 : p ≤ f
    · simp [runSeq, exec, spawnThread, Thread.wr, Thread.rd, evalCmp, h, h2, haltPC]
    · have h3 : ¬ p ≤ F := by omega
      simp [runSeq, exec, spawnThread, Thread.wr, Thread.rd, evalCmp, h, h2, h3, haltPC]

-- both branches of each acceptor occur
example : runSeq nextProg 64 5 (spawnThread .next 0 init) [9] = some (.id 9, 9) := by rw [c30_seq_next]; rfl
example : runSeq nextProg 64 5 (spawnThread .next 0 init) [5] = none := by rw [c30_seq_next]; rfl
example : runSeq setFloorProg 64 5 (spawnThread .setFloor 7 init) [8] = some (.ok, 8) := by rw [c30_seq_setFloor]; rfl
example : runSeq setFloorProg 64 5 (spawnThread .setFloor 7 init) [7] = some (.err, 5) := by rw [c30_seq_setFloor]; rfl
example : runSeq setFloorProg 64 5 (spawnThread .setFloor 3 init) [0] = some (.ok, 5) := by rw [c30_seq_setFloor]; rfl

end WK.C30

import WK.Proofs.C30_Step
import WK.Spec.C30
/-
  C30 — Message ids are unique and increasing.

  The theorems are about `Reach`, the LTS of `WK/Model/C30.lean` that executes
  the instruction lists GENERATED from internal/app/app.go (`nextProg`,
  `setFloorProg`), for ANY number of threads, ANY interleaving of single
  instructions and ANY generator stream (each `gen` may deliver any natural
  number).  Ghost fields: `hist` = every value a successful CAS wrote (newest
  first); a thread's `histAtCas` / `acksAtCas` = `hist` / acknowledged floors
  at the moment of ITS successful CAS; `acks` = floors whose SetFloor returned nil.
-/
namespace WK.C30
open WK.Gen.C30

/-- the tie: the compiled loops have the shape the invariant is indexed by, and
    nothing else in app.go writes the floor -/
theorem c30_programs :
    nextProg = [.gen 0, .load 1, .brUnless .le 0 1 4, .jmp 0, .cas 1 0 6, .retReg 0, .jmp 0] ∧
    setFloorProg = [.load 1, .brUnless .le 0 1 3, .retOk, .gen 2, .brUnless .le 2 0 6, .retErr,
                    .load 1, .brUnless .le 2 1 9, .retOk, .cas 1 2 11, .retOk, .jmp 6] ∧
    floorWriters = 2 := ⟨next_prog, setFloor_prog, by decide⟩

/-- every successful CAS (of Next or SetFloor) writes a value strictly above everything written
    before, and the floor is the maximum -/
theorem c30_cas_increasing {s : GState} (h : Reach s) :
    s.hist.Pairwise (· > ·) ∧ ∀ x ∈ s.hist, x ≤ s.floor :=
  ⟨(inv_reach h).sorted, (inv_reach h).histLe⟩

/-- **uniqueness**: two different calls of Next never return the same id -/
theorem c30_unique {s : GState} (h : Reach s) {i j : Nat} {ti tj : Thread} {v w : Nat} (hij : i ≠ j)
    (hi : s.threads i = some ti) (hj : s.threads j = some tj)
    (ki : ti.kind = .next) (kj : tj.kind = .next)
    (ri : ti.ret = some (.id v)) (rj : tj.ret = some (.id w)) : v ≠ w := by
  intro hvw
  subst hvw
  have I := inv_reach h
  have a := ((I.thr i ti hi).nxr ki _ ri)
  have b := ((I.thr j tj hj).nxr kj _ rj)
  simp only [Ret.id.injEq] at a b
  exact I.distinct i j ti tj v hij hi hj (a.1 ▸ a.2) (b.1 ▸ b.2)

/-- **ids are strictly increasing in CAS order**: a returned id is the value its call CASed into the
    floor, it is in the (strictly decreasing, newest-first) CAS history, and it is above every value
    CASed before it — in particular above every id returned before its CAS -/
theorem c30_increasing_in_cas_order {s : GState} (h : Reach s) {i : Nat} {ti : Thread} {v : Nat}
    (hi : s.threads i = some ti) (ki : ti.kind = .next) (ri : ti.ret = some (.id v)) :
    ti.casd = some v ∧ v ∈ s.hist ∧ (∀ w ∈ ti.histAtCas, w < v) ∧ v ≤ s.floor := by
  have I := inv_reach h
  have a := ((I.thr i ti hi).nxr ki _ ri)
  simp only [Ret.id.injEq] at a
  have c : ti.casd = some v := a.1 ▸ a.2
  have d := (I.thr i ti hi).casd v c
  exact ⟨c, d.1, d.2.1, I.histLe v d.1⟩

/-- **floor respected**: (a) an id is above every floor acknowledged before its CAS;
    (b) an acknowledged floor stays at or below the shared floor for ever, so (c) no later CAS —
    hence no later id — can be at or below it. -/
theorem c30_floor_respected {s : GState} (h : Reach s) :
    (∀ i ti v, s.threads i = some ti → ti.kind = .next → ti.ret = some (.id v) → ∀ f ∈ ti.acksAtCas, f < v) ∧
    (∀ k tk, s.threads k = some tk → tk.kind = .setFloor → tk.ret = some .ok → tk.r0 ≤ s.floor) ∧
    (∀ f ∈ s.acks, f ≤ s.floor) := by
  have I := inv_reach h
  refine ⟨?_, ?_, I.acksLe⟩
  · intro i ti v hi ki ri f hf
    have a := ((I.thr i ti hi).nxr ki _ ri)
    simp only [Ret.id.injEq] at a
    exact ((I.thr i ti hi).casd v (a.1 ▸ a.2)).2.2 f hf
  · intro k tk hk kk rk
    exact (I.thr k tk hk).sfOk kk rk

/-- the next successful CAS from any reachable state is above the floor, hence above every
    acknowledged floor and every id returned so far (one-step form of "whose CAS happens later") -/
theorem c30_later_cas_above {s s' : GState} (h : Reach s) (hs : Step s s') :
    s.floor ≤ s'.floor ∧
    ∀ v, s'.hist = v :: s.hist → s.floor < v ∧ (∀ f ∈ s.acks, f < v) ∧ (∀ w ∈ s.hist, w < v) := by
  have I := inv_reach h
  cases hs with
  | spawn k kind arg hk => exact ⟨Nat.le_refl _, fun v hv => by simp at hv⟩
  | run k t g fl' t' o hk he =>
    cases o with
    | none =>
      have := exec_floor_same he (by simp)
      subst this
      exact ⟨Nat.le_refl _, fun v hv => by simp [commit] at hv⟩
    | ret r =>
      have := exec_floor_same he (by simp)
      subst this
      exact ⟨Nat.le_refl _, fun v hv => by simp [commit] at hv⟩
    | cas v =>
      obtain ⟨rfl, hlt⟩ := cas_above (I.thr k t hk) he
      refine ⟨Nat.le_of_lt hlt, fun w hw => ?_⟩
      simp only [commit, List.cons.injEq, and_true] at hw
      subst hw
      exact ⟨hlt, fun f hf => Nat.lt_of_le_of_lt (I.acksLe f hf) hlt,
        fun x hx => Nat.lt_of_le_of_lt (I.histLe x hx) hlt⟩

/-! ### an executable scheduler over the same transitions (non-vacuity, and why `<=` matters) -/

inductive Cmd | spawn (k : Nat) (kind : Kind) (arg : Nat) | run (k : Nat) (g : Nat)

def applyCmdP (progs : Kind → List Instr) (s : GState) : Cmd → GState
  | .spawn k kind arg =>
    match s.threads k with
    | none => { s with threads := upd s.threads k (spawnThread kind arg) }
    | some _ => s
  | .run k g =>
    match s.threads k with
    | none => s
    | some t =>
      match exec (progs t.kind) s.floor t g with
      | none => s
      | some (fl', t', o) => commit s k fl' t' o

theorem reach_applyCmd {s : GState} (h : Reach s) (c : Cmd) : Reach (applyCmdP progOf s c) := by
  cases c with
  | spawn k kind arg =>
    simp only [applyCmdP]
    split
    · rename_i hn; exact Reach.step h (Step.spawn s k kind arg hn)
    · exact h
  | run k g =>
    simp only [applyCmdP]
    split
    · exact h
    · rename_i t ht
      split
      · exact h
      · rename_i fl' t' o he
        exact Reach.step h (Step.run s k t g fl' t' o ht he)

theorem reach_run {s : GState} (h : Reach s) (cs : List Cmd) : Reach (cs.foldl (applyCmdP progOf) s) := by
  induction cs generalizing s with
  | nil => exact h
  | cons c cs ih => exact ih (reach_applyCmd h c)

def retOf (s : GState) (k : Nat) : Option Ret := (s.threads k).bind (·.ret)

/-- two overlapping Next calls to which a regressed clock delivers the SAME raw id 5 (and then 9),
    a SetFloor 7 in between: thread 0 returns 5, thread 1 is forced past it and past the floor -/
def demo : List Cmd :=
  [.spawn 0 .next 0, .spawn 1 .next 0,
   .run 0 5, .run 1 5, .run 0 0, .run 1 0, .run 0 0, .run 1 0,   -- both: gen 5, load 0, 5 > 0
   .run 0 0, .run 0 0,                                           -- thread 0: CAS 0→5, return 5
   .run 1 0, .run 1 0,                                           -- thread 1: CAS fails, retry
   .run 1 5, .run 1 0, .run 1 0, .run 1 0,                       -- gen 5 again, load 5, 5 ≤ 5: continue
   .spawn 2 .setFloor 7, .run 2 0, .run 2 0, .run 2 8, .run 2 0, .run 2 0, .run 2 0, .run 2 0, .run 2 0,
   .run 1 9, .run 1 0, .run 1 0, .run 1 0, .run 1 0]

def demoState : GState := demo.foldl (applyCmdP progOf) init

theorem demo_reach : Reach demoState := reach_run Reach.init demo

example : retOf demoState 0 = some (.id 5) ∧ retOf demoState 1 = some (.id 9) ∧ retOf demoState 2 = some .ok ∧
    demoState.floor = 9 ∧ demoState.hist = [9, 8, 5] ∧ demoState.acks = [7] := by decide
-- the hypotheses of c30_unique / c30_increasing_in_cas_order / c30_floor_respected are met in `demoState`
example : ∃ ti tj, demoState.threads 0 = some ti ∧ demoState.threads 1 = some tj ∧ ti.kind = .next ∧ tj.kind = .next ∧
    ti.ret = some (.id 5) ∧ tj.ret = some (.id 9) ∧ tj.acksAtCas = [7] ∧ tj.histAtCas = [8, 5] := by
  refine ⟨_, _, rfl, rfl, ?_⟩
  decide
example : demoState.hist.Pairwise (· > ·) := (c30_cas_increasing demo_reach).1

/-- the same schedule against a `<`-for-`<=` Next (what a one-character mutant compiles to):
    the repeated raw id 5 passes the guard, `CAS(5,5)` succeeds and BOTH calls return 5 -/
def ltProgs : Kind → List Instr
  | .next => [.gen 0, .load 1, .brUnless .lt 0 1 4, .jmp 0, .cas 1 0 6, .retReg 0, .jmp 0]
  | .setFloor => setFloorProg

example :
    let s := ([.spawn 0 .next 0, .spawn 1 .next 0, .run 0 5, .run 0 0, .run 0 0, .run 0 0, .run 0 0,
               .run 1 5, .run 1 0, .run 1 0, .run 1 0, .run 1 0] : List Cmd).foldl (applyCmdP ltProgs) init
    retOf s 0 = some (.id 5) ∧ retOf s 1 = some (.id 5) := by decide

end WK.C30

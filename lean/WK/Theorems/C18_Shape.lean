import WK.Gen.C18
/-
  C18 — facts regenerated from the source on this run, pinned by decidable
  theorems: the batch loop's result fields / save-before-publish order /
  validateChanged shape, and the ROLLBACK discipline of every `apply*` handler of
  mutation_handlers.go.
-/
namespace WK.C18
open WK.Gen.C18

/-- the source still has the shape the model mirrors (regenerated facts) -/
theorem c18_shape : resultShape = true ∧ saveBeforePublish = true ∧ validateChangedShape = true := by decide

/-- **Rollback discipline of the handlers** (fact table over mutation_handlers.go):
    every handler that writes through the candidate `next` takes its snapshot as
    `before := next.Clone()` — a DEEP copy OF THE CANDIDATE, not of the published
    `sm.state` and not a shallow `*next` — before its first write, hands exactly
    `(next, before, cmd)` to validateChanged, and every `return reject(..)` after the
    snapshot is directly preceded by `*next = before` (`applyInit` instead replaces
    the whole candidate and returns Changed). -/
theorem c18_handlers_rollback : handlerFacts.all HandlerFact.ok = true ∧ 15 ≤ handlerFacts.length := by decide

/-- non-vacuity: the two rollback slips the fact table is there for are refused -/
example : HandlerFact.ok { name := "applyReportNodeHealth", snapshot := "sm.state.Clone()", writes := 4, writesBeforeSnapshot := false, validateArgsOk := true, rejectsRestore := true, otherReturns := 0, wholeReplace := false } = false := by decide
example : HandlerFact.ok { name := "applyUpsertSlotAssignmentAndTask", snapshot := "*next", writes := 3, writesBeforeSnapshot := false, validateArgsOk := true, rejectsRestore := true, otherReturns := 0, wholeReplace := false } = false := by decide
example : HandlerFact.ok { name := "applyX", snapshot := "next.Clone()", writes := 2, writesBeforeSnapshot := false, validateArgsOk := true, rejectsRestore := false, otherReturns := 0, wholeReplace := false } = false := by decide

end WK.C18

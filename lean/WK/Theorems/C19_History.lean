import WK.Theorems.C19
/-
  C19 — histories: any sequence of writes, each of which may run to completion,
  be cut by a crash at any call, or FAIL at any call (deferred cleanup, then maybe
  a crash), for every crash choice.
-/
namespace WK.C19
open WK.Gen.C19

/-- failed-save analogue of `crashed_path`: the file system after call `m` failed,
    the deferred cleanup ran and the machine crashed with any choice -/
theorem aborted_path (m : Nat) (hm : m ≤ saveOps.length) (fs : FS) (old : Option Bytes) (t : Name) (new : Bytes)
    (j : Nat) (cut : Ino → Nat) (hst : Stable fs old) (ht : t ≠ pathName) :
    PathHolds (crash ⟨j, cut⟩ (abortAt t new deferredRemove saveOps m fs).1) old ∨
    PathHolds (crash ⟨j, cut⟩ (abortAt t new deferredRemove saveOps m fs).1) (some new) := by
  have ht' : pathName ≠ t := fun h => ht h.symm
  have hp := hst.1
  simp only [saveOps, List.length_cons, List.length_nil] at hm
  unfold abortAt
  apply stable_elim hst
  · intro i b hi hne hib ho
    subst ho
    rcases m with _|_|_|_|_|_|_|_|_|_|_|_|m <;> try omega
    all_goals (rcases j with _|_|_|_|j <;>
      simp [PathHolds, saveOps, deferredRemove, cleanupOps, run, exec, hp, resolve, setInode, crash, FS.view, applyDirOp, ht', hi, hne, hib, crashInode_synced])
  · intro hi ho
    subst ho
    rcases m with _|_|_|_|_|_|_|_|_|_|_|_|m <;> try omega
    all_goals (rcases j with _|_|_|_|j <;>
      simp [PathHolds, saveOps, deferredRemove, cleanupOps, run, exec, hp, resolve, setInode, crash, FS.view, applyDirOp, ht', hi, crashInode_synced])

theorem run_append' (t : Name) (new : Bytes) (a b : List Op) (s : FS × Proc) :
    run t new (a ++ b) s = run t new b (run t new a s) := by
  simp [run, List.foldl_append]

/-- `Stable` is re-established after a FAILED save followed by a crash -/
theorem c19_abort_stable_step (fs : FS) (old : Option Bytes) (t : Name) (new : Bytes) (k : Nat) (c : CrashChoice)
    (hst : Stable fs old) (ht : t ≠ pathName) :
    Stable (crash c (abortAt t new deferredRemove saveOps k fs).1) old ∨
    Stable (crash c (abortAt t new deferredRemove saveOps k fs).1) (some new) := by
  obtain ⟨m, hm, hk, _⟩ := take_cases saveOps k
  obtain ⟨j, cut⟩ := c
  have hinv : InoInv (abortAt t new deferredRemove saveOps k fs).1 := by
    unfold abortAt
    exact run_inoInv t new _ _ (run_inoInv t new _ (fs, {}) (stable_inoInv hst))
  have hb := crash_below ⟨j, cut⟩ _ hinv
  have hcore := aborted_path m hm fs old t new j cut hst ht
  have heq : abortAt t new deferredRemove saveOps k fs = abortAt t new deferredRemove saveOps m fs := by
    unfold abortAt; rw [hk]
  rw [heq] at hb ⊢
  rcases hcore with h | h
  · exact Or.inl ⟨rfl, hb, h⟩
  · exact Or.inr ⟨rfl, hb, h⟩

/-- one write attempt: cut by a crash after `k` calls (`k ≥ length`: completed,
    then a crash), or failing at call `k` (cleanup, then a crash) -/
inductive Write
  | crashed (a : Attempt)
  | failed (a : Attempt)

def Write.att : Write → Attempt
  | .crashed a => a
  | .failed a => a

def writeStep (fs : FS) : Write → FS
  | .crashed a => crashedAt saveOps a.t a.new a.k a.c fs
  | .failed a => crash a.c (abortAt a.t a.new deferredRemove saveOps a.k fs).1

/-- **Any sequence of writes, a crash (or a failure and a crash) at any step of
    each**: the file system is quiescent again and the state file holds the initial
    contents or the bytes of one of the writes. -/
theorem c19_write_history (ws : List Write) : ∀ (fs : FS) (old : Option Bytes), Stable fs old →
    (∀ w ∈ ws, w.att.t ≠ pathName) →
    ∃ v, Stable (ws.foldl writeStep fs) v ∧ (v = old ∨ ∃ w ∈ ws, v = some w.att.new) := by
  induction ws with
  | nil => intro fs old h _; exact ⟨old, h, Or.inl rfl⟩
  | cons w rest ih =>
    intro fs old h hn
    have hrest : ∀ x ∈ rest, x.att.t ≠ pathName := fun x hx => hn x (by simp [hx])
    have hstep : Stable (writeStep fs w) old ∨ Stable (writeStep fs w) (some w.att.new) := by
      cases w with
      | crashed a => exact (c19_stable_step fs old a.t a.new a.k a.c h (hn (Write.crashed a) (by simp))).1
      | failed a => exact c19_abort_stable_step fs old a.t a.new a.k a.c h (hn (Write.failed a) (by simp))
    simp only [List.foldl_cons]
    rcases hstep with h1 | h1
    · obtain ⟨v, hv, hor⟩ := ih _ old h1 hrest
      refine ⟨v, hv, ?_⟩
      rcases hor with e | ⟨x, hx, e⟩
      · exact Or.inl e
      · exact Or.inr ⟨x, by simp [hx], e⟩
    · obtain ⟨v, hv, hor⟩ := ih _ (some w.att.new) h1 hrest
      refine ⟨v, hv, ?_⟩
      rcases hor with e | ⟨x, hx, e⟩
      · exact Or.inr ⟨w, by simp, e⟩
      · exact Or.inr ⟨x, by simp [hx], e⟩

/-- **A completed write is never undone**: if some write of the sequence ran to
    completion, then after ANY later writes — crashed or failed at any step, with any
    crash choices — the state file reads as that write's bytes or the bytes of a
    LATER write; in particular never as anything older. -/
theorem c19_completed_write_survives (pre post : List Write) (a : Attempt) (fs : FS) (old : Option Bytes)
    (h : Stable fs old) (hn : ∀ w ∈ pre ++ [Write.crashed a] ++ post, w.att.t ≠ pathName) (hk : saveOps.length ≤ a.k) :
    ((pre ++ [Write.crashed a] ++ post).foldl writeStep fs).read pathName = some a.new ∨
    ∃ w ∈ post, ((pre ++ [Write.crashed a] ++ post).foldl writeStep fs).read pathName = some w.att.new := by
  obtain ⟨v, hv, _⟩ := c19_write_history pre fs old h (fun w hw => hn w (by simp [hw]))
  have ha : Stable (writeStep (pre.foldl writeStep fs) (Write.crashed a)) (some a.new) :=
    (c19_stable_step _ v a.t a.new a.k a.c hv (hn (Write.crashed a) (by simp))).2 hk
  obtain ⟨v2, hv2, hor⟩ := c19_write_history post _ (some a.new) ha (fun w hw => hn w (by simp [hw]))
  have hread := read_of_pathHolds hv2.1 hv2.2.2
  simp only [List.foldl_append, List.foldl_cons, List.foldl_nil] at hread ⊢
  rcases hor with e | ⟨w, hw, e⟩
  · left; rw [hread, e]
  · right; exact ⟨w, hw, by rw [hread, e]⟩

/-- non-vacuity: write [7] completes; a later write [8,9] fails at its 3rd call
    and the machine crashes; a third write is cut by a crash before its rename:
    the file still reads [7] -/
example : (([.crashed ⟨1, [7], 100, ⟨0, fun _ => 0⟩⟩, .failed ⟨2, [8, 9], 3, ⟨5, fun _ => 1⟩⟩, .crashed ⟨3, [6], 4, ⟨1, fun _ => 0⟩⟩] : List Write).foldl
    writeStep (fs0 (some [5]))).read pathName = some [7] := by decide

end WK.C19

import WK.Spec.C34
import WK.Gen.C34
/-
  C34 — Conversation unread counts and visibility are exact.

  About `WK.C34.conversationOf` (conversationFromMembership), `clearStep`,
  `setStep`, `deleteStep`, `activateStep` — the definitions `Driver/C34.lean`
  runs against internal/usecase/conversation.  Quantifier: ALL membership rows
  and channel heads (arbitrary naturals, incl. cursors above the committed tail,
  join = 0, retention above the tail), ALL command sequences.
-/
namespace WK.C34

theorem maxFloor3 (a b c : Nat) : maxFloor [a, b, c] = max (max a b) c := by
  unfold maxFloor
  simp only [List.foldl_cons, List.foldl_nil]
  repeat' split
  all_goals omega

theorem maxFloor2 (a b : Nat) : maxFloor [a, b] = max a b := by
  unfold maxFloor
  simp only [List.foldl_cons, List.foldl_nil]
  repeat' split
  all_goals omega

theorem joinFloor_eq (j : Nat) : joinFloor j = j - 1 := by
  unfold joinFloor; split <;> omega

/-- the code's visibility floor is max(join−1, deletedTo, retention) -/
theorem c34_floor (r : Row) (h : Head) : visibilityFloor r h = specFloor r h := by
  unfold visibilityFloor specFloor; rw [maxFloor3, joinFloor_eq]

/-- the code's effective read point is the maximum of the join point, delete-to
    boundary, retention boundary, read cursor and the user's own last send -/
theorem c34_effective_read (r : Row) (h : Head) : effectiveRead r h = specEffectiveRead r h := by
  unfold effectiveRead specEffectiveRead
  rw [maxFloor3, c34_floor]; unfold specFloor; rfl

theorem unreadOf_eq (r : Row) (h : Head) : unreadOf r h = specUnread r h := by
  unfold unreadOf specUnread; rw [c34_effective_read]; split <;> omega

theorem conversationOf_some (r : Row) (h : Head) (it : Item) (hc : conversationOf r h = some it) :
    it.unread = unreadOf r h ∧ it.last = shownLast r h ∧ (visibleMessage r h = true ∨ r.act > 0) := by
  unfold conversationOf at hc
  by_cases hcond : (!visibleMessage r h && decide (r.act ≤ 0)) = true
  · simp [hcond] at hc
  · simp only [hcond, Bool.false_eq_true, if_false, Option.some.injEq] at hc
    subst hc
    refine ⟨rfl, rfl, ?_⟩
    cases hv : visibleMessage r h
    · right; simp [hv] at hcond; omega
    · left; rfl

/-- **Unread is exact**: every returned conversation carries
    `committed ∸ max(join−1, deletedTo, retention, readSeq, ownLastSend)`;
    truncated subtraction, so it is never negative. -/
theorem c34_unread_formula (r : Row) (h : Head) (it : Item) (hc : conversationOf r h = some it) :
    it.unread = specUnread r h := by
  rw [(conversationOf_some r h it hc).1, unreadOf_eq]

example : conversationOf ⟨3, 4, 0, 0, false⟩ ⟨.ok, 10, 0, 6, some 10⟩ = some ⟨4, some 10, 3, 4, 0, 0⟩ := by decide

theorem shownLast_some (r : Row) (h : Head) (s : Nat) :
    shownLast r h = some s ↔ (h.last = some s ∧ visibleMessage r h = true ∧ s > specFloor r h) := by
  unfold shownLast
  rw [c34_floor]
  cases h.last with
  | none => simp
  | some s' =>
    simp only [Option.some.injEq]
    by_cases hc : (visibleMessage r h && decide (s' > specFloor r h)) = true
    · simp only [hc, if_true, Option.some.injEq]
      simp only [Bool.and_eq_true, decide_eq_true_eq] at hc
      constructor
      · rintro rfl; exact ⟨rfl, hc.1, hc.2⟩
      · rintro ⟨rfl, _, _⟩; rfl
    · simp only [hc, Bool.false_eq_true, if_false]
      simp only [Bool.and_eq_true, decide_eq_true_eq, not_and] at hc
      constructor
      · intro hx; exact absurd hx (by simp)
      · rintro ⟨rfl, hv, hs⟩; exact absurd hs (hc hv)

/-- **Nothing before the join point, the delete-to boundary or the retention
    boundary is ever shown as the last message**; what is shown is the head's last message. -/
theorem c34_last_visible (r : Row) (h : Head) (it : Item) (s : Nat)
    (hc : conversationOf r h = some it) (hl : it.last = some s) :
    h.last = some s ∧ s > r.del ∧ s > h.retention ∧ (r.join > 0 → s ≥ r.join) ∧ s > specFloor r h := by
  rw [(conversationOf_some r h it hc).2.1] at hl
  obtain ⟨a, _, c⟩ := (shownLast_some r h s).mp hl
  unfold specFloor at c ⊢
  refine ⟨a, ?_, ?_, ?_, ?_⟩ <;> omega

example : (conversationOf ⟨5, 0, 0, 1, false⟩ ⟨.ok, 10, 0, 0, some 4⟩).map (·.last) = some none := by decide

/-- and conversely the head's last message IS shown whenever it is above the floor
    and a post-join, post-delete message exists -/
theorem c34_last_shown (r : Row) (h : Head) (it : Item) (s : Nat)
    (hc : conversationOf r h = some it) (hh : h.last = some s) (hs : s > specFloor r h)
    (hv : visibleMessage r h = true) : it.last = some s := by
  rw [(conversationOf_some r h it hc).2.1]
  exact (shownLast_some r h s).mpr ⟨hh, hv, hs⟩

/-! ### commands -/

theorem mutationHead_cases (row : Option Row) (h : Head) :
    (∃ r, row = some r ∧ r.tomb = false ∧ mutationHead row h = .ok (r, h)) ∨
    (∃ e, e ≠ Status.ok ∧ mutationHead row h = .error e) := by
  unfold mutationHead
  cases row with
  | none => right; exact ⟨.notFound, by decide, rfl⟩
  | some r =>
    simp only
    cases ht : r.tomb
    · simp only [Bool.false_eq_true, if_false]
      cases h.outcome
      · left; exact ⟨r, rfl, ht, rfl⟩
      · left; exact ⟨r, rfl, ht, rfl⟩
      · right; exact ⟨.notFound, by decide, rfl⟩
      · right; exact ⟨.notReady, by decide, rfl⟩
      · right; exact ⟨.other, by decide, rfl⟩
    · right; exact ⟨.notFound, by decide, by simp⟩

/-- a successful ClearUnread: live row, and the new row is the old one advanced to the tail (if needed) -/
theorem clearStep_ok (row : Option Row) (h : Head) (r' : Row) (hs : clearStep row h = (.ok, some r')) :
    ∃ r, row = some r ∧ r.tomb = false ∧
      r' = (if h.committed ≤ r.read then r else advanceRead r h.committed) := by
  unfold clearStep at hs
  rcases mutationHead_cases row h with ⟨r, hr, ht, hm⟩ | ⟨e, he, hm⟩
  · rw [hm] at hs
    refine ⟨r, hr, ht, ?_⟩
    unfold clearTarget at hs
    by_cases hle : h.committed ≤ r.read
    · simp only [hle, if_true, Prod.mk.injEq, Option.some.injEq, true_and] at hs ⊢; exact hs.symm
    · simp only [hle, if_false, Prod.mk.injEq, Option.some.injEq, true_and] at hs ⊢; exact hs.symm
  · rw [hm] at hs; simp only [Prod.mk.injEq] at hs; exact absurd hs.1 he

theorem setStep_ok (row : Option Row) (h : Head) (n : Int) (r' : Row) (hs : setStep row h n = (.ok, some r')) :
    0 ≤ n ∧ ∃ r, row = some r ∧ r.tomb = false ∧
      r' = (match setTarget r h n.toNat with | none => r | some t => advanceRead r t) := by
  unfold setStep at hs
  by_cases hn : n < 0
  · simp [hn] at hs
  · simp only [hn, if_false] at hs
    refine ⟨by omega, ?_⟩
    rcases mutationHead_cases row h with ⟨r, hr, ht, hm⟩ | ⟨e, he, hm⟩
    · rw [hm] at hs
      refine ⟨r, hr, ht, ?_⟩
      simp only at hs
      cases hst : setTarget r h n.toNat <;> rw [hst] at hs <;>
        simp only [Prod.mk.injEq, Option.some.injEq, true_and] at hs <;> exact hs.symm
    · rw [hm] at hs; simp only [Prod.mk.injEq] at hs; exact absurd hs.1 he

theorem deleteStep_ok (row : Option Row) (h : Head) (r' : Row) (hs : deleteStep row h = (.ok, some r')) :
    ∃ r, row = some r ∧ r.tomb = false ∧ r' = hide r h.committed := by
  unfold deleteStep at hs
  rcases mutationHead_cases row h with ⟨r, hr, ht, hm⟩ | ⟨e, he, hm⟩
  · rw [hm] at hs
    simp only [Prod.mk.injEq, Option.some.injEq, true_and] at hs
    exact ⟨r, hr, ht, hs.symm⟩
  · rw [hm] at hs; simp only [Prod.mk.injEq] at hs; exact absurd hs.1 he

theorem advanceRead_live (r : Row) (t : Nat) (ht : r.tomb = false) :
    advanceRead r t = { r with read := max r.read t } := by
  unfold advanceRead
  obtain ⟨j, rd, d, a, tb⟩ := r
  simp only at ht
  subst ht
  simp only [Bool.false_eq_true, if_false]
  by_cases hg : t > rd
  · simp only [hg, if_true]; congr 1; omega
  · simp only [hg, if_false]; congr 1; omega

/-- **Clearing unread makes it zero** (for the head the command saw). -/
theorem c34_clear_zero (row : Option Row) (h : Head) (r' : Row)
    (hs : clearStep row h = (.ok, some r')) : specUnread r' h = 0 := by
  obtain ⟨r, _, ht, hr'⟩ := clearStep_ok row h r' hs
  subst hr'
  unfold specUnread specEffectiveRead
  split
  · omega
  · rw [advanceRead_live r _ ht]; simp only; omega

example : clearStep (some ⟨1, 2, 0, 0, false⟩) ⟨.ok, 9, 0, 0, some 9⟩ = (.ok, some ⟨1, 9, 0, 0, false⟩) := by decide

/-- SetUnread's target: when it moves the cursor it moves it exactly to
    max(floor, committed − N), and only forward -/
theorem c34_set_exact (r : Row) (h : Head) (n : Nat) :
    setTarget r h n = (if max (specFloor r h) (h.committed - n) ≤ r.read then none
                       else some (max (specFloor r h) (h.committed - n))) := by
  unfold setTarget
  simp only
  rw [c34_floor]
  by_cases hlt : n < h.committed
  · simp only [hlt, if_true]; rw [maxFloor2]
  · simp only [hlt, if_false]
    have : max (specFloor r h) (h.committed - n) = specFloor r h := by omega
    rw [this]

/-- **Setting unread to N leaves at most N unread.** -/
theorem c34_set_at_most_n (row : Option Row) (h : Head) (n : Int) (r' : Row)
    (hs : setStep row h n = (.ok, some r')) : specUnread r' h ≤ n.toNat ∧ 0 ≤ n := by
  obtain ⟨hn, r, _, ht, hr'⟩ := setStep_ok row h n r' hs
  refine ⟨?_, hn⟩
  subst hr'
  rw [c34_set_exact]
  by_cases hle : max (specFloor r h) (h.committed - n.toNat) ≤ r.read
  · simp only [hle, if_true]
    unfold specUnread specEffectiveRead
    unfold specFloor at hle
    omega
  · simp only [hle, if_false]
    rw [advanceRead_live r _ ht]
    unfold specUnread specEffectiveRead specFloor
    simp only
    omega

example : setStep (some ⟨1, 2, 0, 0, false⟩) ⟨.ok, 9, 0, 0, some 9⟩ 3 = (.ok, some ⟨1, 6, 0, 0, false⟩) := by decide

/-- **Delete hides everything committed**: afterwards nothing is unread, no last
    message is shown, activation is cleared, the read cursor is untouched. -/
theorem c34_delete_zero (row : Option Row) (h : Head) (r' : Row)
    (hs : deleteStep row h = (.ok, some r')) :
    specUnread r' h = 0 ∧ shownLast r' h = none ∧ r'.act = 0 ∧ conversationOf r' h = none := by
  obtain ⟨r, _, ht, hr'⟩ := deleteStep_ok row h r' hs
  subst hr'
  have hd : (hide r h.committed).del ≥ h.committed := by
    unfold hide; simp only [ht, Bool.false_eq_true, if_false]; split <;> omega
  have ha : (hide r h.committed).act = 0 := by unfold hide; simp [ht]
  have hv : visibleMessage (hide r h.committed) h = false := by
    unfold visibleMessage; simp; omega
  refine ⟨?_, ?_, ha, ?_⟩
  · unfold specUnread specEffectiveRead; omega
  · cases hl : shownLast (hide r h.committed) h with
    | none => rfl
    | some s => have := ((shownLast_some _ _ s).mp hl).2.1; rw [hv] at this; simp at this
  · unfold conversationOf; simp [hv, ha]

example : deleteStep (some ⟨1, 2, 0, 7, false⟩) ⟨.ok, 9, 0, 0, some 9⟩ = (.ok, some ⟨1, 2, 9, 0, false⟩) := by decide

/-! ### monotonicity (single step and whole histories) -/

def Mono (r r' : Row) : Prop := r'.read ≥ r.read ∧ r'.del ≥ r.del ∧ r'.join = r.join ∧ r'.tomb = r.tomb

theorem mono_refl (r : Row) : Mono r r := ⟨Nat.le_refl _, Nat.le_refl _, rfl, rfl⟩

theorem mono_advance (r : Row) (t : Nat) : Mono r (advanceRead r t) := by
  unfold advanceRead Mono
  by_cases ht : r.tomb = true
  · simp [ht]
  · by_cases hg : t > r.read
    · refine ⟨?_, ?_, ?_, ?_⟩ <;> simp [ht, hg] <;> omega
    · simp [ht, hg]

theorem mono_hide (r : Row) (t : Nat) : Mono r (hide r t) := by
  unfold hide Mono
  by_cases ht : r.tomb = true
  · simp [ht]
  · by_cases hg : t > r.del
    · refine ⟨?_, ?_, ?_, ?_⟩ <;> simp [ht, hg] <;> omega
    · refine ⟨?_, ?_, ?_, ?_⟩ <;> simp [ht, hg]

theorem mono_activate (r : Row) (t : Int) : Mono r (activate r t) := by
  unfold activate Mono; repeat' split
  all_goals simp

theorem clear_mono (r : Row) (h : Head) : ∃ r', (clearStep (some r) h).2 = some r' ∧ Mono r r' := by
  unfold clearStep
  rcases mutationHead_cases (some r) h with ⟨r0, hr, _, hm⟩ | ⟨e, _, hm⟩
  · simp only [Option.some.injEq] at hr; subst hr
    rw [hm]; simp only
    cases clearTarget r h with
    | none => exact ⟨r, rfl, mono_refl r⟩
    | some t => exact ⟨_, rfl, mono_advance r t⟩
  · rw [hm]; exact ⟨r, rfl, mono_refl r⟩

theorem set_mono (r : Row) (h : Head) (n : Int) : ∃ r', (setStep (some r) h n).2 = some r' ∧ Mono r r' := by
  unfold setStep
  by_cases hn : n < 0
  · simp only [hn, if_true]; exact ⟨r, rfl, mono_refl r⟩
  · simp only [hn, if_false]
    rcases mutationHead_cases (some r) h with ⟨r0, hr, _, hm⟩ | ⟨e, _, hm⟩
    · simp only [Option.some.injEq] at hr; subst hr
      rw [hm]; simp only
      cases setTarget r h n.toNat with
      | none => exact ⟨r, rfl, mono_refl r⟩
      | some t => exact ⟨_, rfl, mono_advance r t⟩
    · rw [hm]; exact ⟨r, rfl, mono_refl r⟩

theorem delete_mono (r : Row) (h : Head) : ∃ r', (deleteStep (some r) h).2 = some r' ∧ Mono r r' := by
  unfold deleteStep
  rcases mutationHead_cases (some r) h with ⟨r0, hr, _, hm⟩ | ⟨e, _, hm⟩
  · simp only [Option.some.injEq] at hr; subst hr
    rw [hm]; exact ⟨_, rfl, mono_hide r _⟩
  · rw [hm]; exact ⟨r, rfl, mono_refl r⟩

theorem activate_mono (r : Row) (t : Int) : ∃ r', (activateStep (some r) t).2 = some r' ∧ Mono r r' := by
  unfold activateStep
  by_cases ht : t ≤ 0
  · simp only [ht, if_true]; exact ⟨r, rfl, mono_refl r⟩
  · simp only [ht, if_false]; exact ⟨_, rfl, mono_activate r t⟩

/-- **Cursors are monotone under every command**: read and deleted-to never move
    backwards, the join point and tombstone flag never change (the commands only
    call the monotone mutators — C16), whatever the status returned. -/
theorem c34_monotone (r : Row) (h : Head) (n t : Int) :
    (∃ r', (clearStep (some r) h).2 = some r' ∧ Mono r r') ∧
    (∃ r', (setStep (some r) h n).2 = some r' ∧ Mono r r') ∧
    (∃ r', (deleteStep (some r) h).2 = some r' ∧ Mono r r') ∧
    (∃ r', (activateStep (some r) t).2 = some r' ∧ Mono r r') :=
  ⟨clear_mono r h, set_mono r h n, delete_mono r h, activate_mono r t⟩

example : Mono ⟨1, 2, 0, 0, false⟩ ⟨1, 9, 0, 0, false⟩ := by unfold Mono; decide

/-- one step of a single-channel history: a user command, or the environment
    replacing the head (sends, retention, leader changes — arbitrary) -/
inductive Ev | clear | set (n : Int) | del | act (t : Int) | head (h : Head)

def evStep (st : Row × Head) : Ev → Row × Head
  | .clear => (((clearStep (some st.1) st.2).2).getD st.1, st.2)
  | .set n => (((setStep (some st.1) st.2 n).2).getD st.1, st.2)
  | .del => (((deleteStep (some st.1) st.2).2).getD st.1, st.2)
  | .act t => (((activateStep (some st.1) t).2).getD st.1, st.2)
  | .head h => (st.1, h)

theorem evStep_mono (r : Row) (h : Head) (e : Ev) : Mono r (evStep (r, h) e).1 := by
  cases e with
  | clear => obtain ⟨r', h1, h2⟩ := clear_mono r h; simp only [evStep, h1, Option.getD_some]; exact h2
  | set n => obtain ⟨r', h1, h2⟩ := set_mono r h n; simp only [evStep, h1, Option.getD_some]; exact h2
  | del => obtain ⟨r', h1, h2⟩ := delete_mono r h; simp only [evStep, h1, Option.getD_some]; exact h2
  | act t => obtain ⟨r', h1, h2⟩ := activate_mono r t; simp only [evStep, h1, Option.getD_some]; exact h2
  | head h' => exact mono_refl r

/-- **Over ANY sequence of clear / set / delete / activate commands interleaved with
    arbitrary head changes, the read and deleted-to cursors never move backwards.** -/
theorem c34_history_monotone (evs : List Ev) (r : Row) (h : Head) :
    Mono r (evs.foldl evStep (r, h)).1 := by
  induction evs generalizing r h with
  | nil => exact mono_refl r
  | cons e es ih =>
    simp only [List.foldl_cons]
    have a := evStep_mono r h e
    have b := ih (evStep (r, h) e).1 (evStep (r, h) e).2
    unfold Mono at a b ⊢
    obtain ⟨a1, a2, a3, a4⟩ := a
    obtain ⟨b1, b2, b3, b4⟩ := b
    exact ⟨Nat.le_trans a1 b1, Nat.le_trans a2 b2, b3.trans a3, b4.trans a4⟩

example : ([Ev.clear, Ev.head ⟨.ok, 12, 0, 0, some 12⟩, Ev.set 1].foldl evStep
    (⟨1, 0, 0, 0, false⟩, ⟨.ok, 9, 0, 0, some 9⟩)).1.read = 11 := by decide

/-- **Unread counts exactly the messages that arrive after the read point**: clear at
    tail `L` (cursors not above the tail), then `k` messages from other users commit and
    retention stays behind `L` ⇒ unread = `k`. -/
theorem c34_unread_counts_new_messages (r r' : Row) (h : Head) (k : Nat)
    (hs : clearStep (some r) h = (.ok, some r'))
    (h1 : r.read ≤ h.committed) (h2 : r.del ≤ h.committed) (h3 : r.join - 1 ≤ h.committed)
    (h4 : h.retention ≤ h.committed) (h5 : h.ownSend ≤ h.committed) :
    specUnread r' { h with committed := h.committed + k } = k := by
  obtain ⟨r0, hr, ht, hr'⟩ := clearStep_ok _ h r' hs
  simp only [Option.some.injEq] at hr; subst hr
  subst hr'
  unfold specUnread specEffectiveRead
  split
  · simp only; omega
  · rw [advanceRead_live r _ ht]; simp only; omega

example : specUnread ⟨1, 9, 0, 0, false⟩ ⟨.ok, 9 + 4, 0, 0, some 13⟩ = 4 := by decide

/-! ### the judge accepts the model's items -/

theorem c34_judge_item_model (r : Row) (h : Head) (it : Item) (hc : conversationOf r h = some it) :
    judgeItem r h it.unread it.last = "ok" := by
  have hu := c34_unread_formula r h it hc
  unfold judgeItem
  simp only [hu, bne_self_eq_false, Bool.false_eq_true, if_false]
  cases hl : it.last with
  | some s =>
    obtain ⟨a, b, c, d, _⟩ := c34_last_visible r h it s hc hl
    simp only
    have e1 : (decide (s ≤ r.join - 1) && decide (r.join > 0)) = false := by
      by_cases hj : r.join > 0
      · have := d hj; simp; omega
      · simp [hj]
    have e2 : ¬ s ≤ r.del := by omega
    have e3 : ¬ s ≤ h.retention := by omega
    simp [e1, e2, e3, a]
  | none =>
    simp only
    cases hh : h.last with
    | none => rfl
    | some s =>
      simp only
      by_cases hcond : (decide (s > specFloor r h) && decide (h.committed ≥ r.join) && decide (h.committed > r.del)) = true
      · exfalso
        simp only [Bool.and_eq_true, decide_eq_true_eq] at hcond
        have := c34_last_shown r h it s hc hh hcond.1.1 (by unfold visibleMessage; simp; omega)
        rw [hl] at this; simp at this
      · simp [hcond]


/-! ## T tie: expressions regenerated from app.go / unread.go evaluate to the model -/

open WK.Gen.C34 (floorOperands effectiveReadOperands unreadGuard unreadValue lastCond itemFields omitCond
  joinFloorCond joinFloorThen joinFloorElse joinFloorParam maxStepCond maxStepValue maxStepVar
  clearStoreMethod clearStoreSeq clearSkipCond setStoreMethod setStoreSeq setSkipCond setFloorOperands
  setTargetGuard setTargetOperands setRejectsNegative deleteStoreMethod deleteStoreSeq)

/-- the Go variables of conversationFromMembership / SetUnread as facts about a model row and head;
    `target`, `cmd.Unread` are the extra locals of SetUnread -/
def goEnv (r : Row) (h : Head) (target : Nat) (n : Int) : GoEnv where
  num name :=
    if name = "head.LastCommittedSeq" then some h.committed
    else if name = "row.JoinSeq" then some r.join
    else if name = "row.DeletedToSeq" then some r.del
    else if name = "row.ReadSeq" then some r.read
    else if name = "row.ActivatedAt" then some r.act
    else if name = "head.RetentionThroughSeq" then some h.retention
    else if name = "head.CurrentUserLastSendSeq" then some h.ownSend
    else if name = "head.LastMessage.MessageSeq" then h.last.map Int.ofNat
    else if name = "visibilityFloor" then some (visibilityFloor r h)
    else if name = "effectiveRead" then some (effectiveRead r h)
    else if name = "target" then some target
    else if name = "cmd.Unread" then some n
    else none
  bool name :=
    if name = "visibleMessage" then some (visibleMessage r h)
    else if name = "head.LastMessage!=nil" then some h.last.isSome
    else none


section lookups
variable (r : Row) (h : Head) (t : Nat) (n : Int)
@[simp] theorem ge_committed : (goEnv r h t n).num "head.LastCommittedSeq" = some (h.committed : Int) := by simp [goEnv]
@[simp] theorem ge_join : (goEnv r h t n).num "row.JoinSeq" = some (r.join : Int) := by simp [goEnv]
@[simp] theorem ge_del : (goEnv r h t n).num "row.DeletedToSeq" = some (r.del : Int) := by simp [goEnv]
@[simp] theorem ge_read : (goEnv r h t n).num "row.ReadSeq" = some (r.read : Int) := by simp [goEnv]
@[simp] theorem ge_act : (goEnv r h t n).num "row.ActivatedAt" = some r.act := by simp [goEnv]
@[simp] theorem ge_ret : (goEnv r h t n).num "head.RetentionThroughSeq" = some (h.retention : Int) := by simp [goEnv]
@[simp] theorem ge_own : (goEnv r h t n).num "head.CurrentUserLastSendSeq" = some (h.ownSend : Int) := by simp [goEnv]
@[simp] theorem ge_last : (goEnv r h t n).num "head.LastMessage.MessageSeq" = h.last.map Int.ofNat := by simp [goEnv]
@[simp] theorem ge_floor : (goEnv r h t n).num "visibilityFloor" = some (visibilityFloor r h : Int) := by simp [goEnv]
@[simp] theorem ge_eff : (goEnv r h t n).num "effectiveRead" = some (effectiveRead r h : Int) := by simp [goEnv]
@[simp] theorem ge_target : (goEnv r h t n).num "target" = some (t : Int) := by simp [goEnv]
@[simp] theorem ge_unread : (goEnv r h t n).num "cmd.Unread" = some n := by simp [goEnv]
@[simp] theorem ge_vis : (goEnv r h t n).bool "visibleMessage" = some (visibleMessage r h) := by simp [goEnv]
@[simp] theorem ge_haslast : (goEnv r h t n).bool "head.LastMessage!=nil" = some h.last.isSome := by simp [goEnv]
end lookups

theorem c34_gen_visible (r : Row) (h : Head) (t : Nat) (n : Int) :
    evalB (goEnv r h t n) Gen.C34.visibleMessage = some (visibleMessage r h) := by
  simp [Gen.C34.visibleMessage, evalB, evalN, visibleMessage]
  by_cases h1 : r.join ≤ h.committed <;> simp [h1]

theorem c34_gen_omit (r : Row) (h : Head) (t : Nat) (n : Int) :
    evalB (goEnv r h t n) omitCond = some (!visibleMessage r h && decide (r.act ≤ 0)) := by
  simp [omitCond, evalB, evalN]
  cases visibleMessage r h <;> simp

theorem c34_gen_floor (r : Row) (h : Head) (t : Nat) (n : Int) :
    evalMax (goEnv r h t n) floorOperands = some (visibilityFloor r h) := by
  simp [floorOperands, evalMax, evalN, visibilityFloor]

theorem c34_gen_effective_read (r : Row) (h : Head) (t : Nat) (n : Int) :
    evalMax (goEnv r h t n) effectiveReadOperands = some (effectiveRead r h) := by
  simp [effectiveReadOperands, evalMax, evalN, effectiveRead]

/-- the guarded subtraction of the source IS `unreadOf` (and never wraps) -/
theorem c34_gen_unread (r : Row) (h : Head) (t : Nat) (n : Int) :
    (match evalB (goEnv r h t n) unreadGuard with
      | some true => (evalN (goEnv r h t n) unreadValue).map Int.toNat
      | some false => some 0
      | none => none) = some (unreadOf r h) := by
  simp [unreadGuard, unreadValue, evalB, evalN, unreadOf]
  by_cases hg : effectiveRead r h < h.committed
  · have : (effectiveRead r h : Int) ≤ h.committed := by omega
    simp [hg, this]; omega
  · simp [hg]

theorem c34_gen_last (r : Row) (h : Head) (t : Nat) (n : Int) :
    evalB (goEnv r h t n) lastCond = some ((shownLast r h).isSome) := by
  simp [lastCond, evalB, evalN, shownLast]
  cases hv : visibleMessage r h <;> cases hl : h.last <;> simp
  rename_i s
  by_cases hs : visibilityFloor r h < s <;> simp [hs]

def envJ (j : Nat) : GoEnv := ⟨fun s => if s = joinFloorParam then some (j : Int) else none, fun _ => none⟩

theorem c34_gen_join_floor (j : Nat) :
    (match evalB (envJ j) joinFloorCond with
      | some true => evalN (envJ j) joinFloorThen
      | some false => evalN (envJ j) joinFloorElse
      | none => none) = some ((joinFloor j : Nat) : Int) := by
  have hl : (envJ j).num "joinSeq" = some (j : Int) := by simp [envJ, joinFloorParam]
  simp [joinFloorCond, joinFloorThen, joinFloorElse, evalB, evalN, joinFloor, hl]
  by_cases hj : j = 0
  · simp [hj]
  · have : (1 : Int) ≤ j := by omega
    simp [hj, this]; omega

def envM (out v : Nat) : GoEnv :=
  ⟨fun s => if s = maxStepVar then some (v : Int) else if s = "out" then some (out : Int) else none, fun _ => none⟩

/-- the loop body of maxMembershipFloor is the fold step of `maxFloor` -/
theorem c34_gen_max_step (out v : Nat) :
    (match evalB (envM out v) maxStepCond with
      | some true => evalN (envM out v) maxStepValue
      | some false => some (out : Int)
      | none => none) = some ((if v > out then v else out : Nat) : Int) := by
  have h1 : (envM out v).num "value" = some (v : Int) := by simp [envM, maxStepVar]
  have h2 : (envM out v).num "out" = some (out : Int) := by simp [envM, maxStepVar]
  simp [maxStepCond, maxStepValue, evalB, evalN, h1, h2]
  by_cases hv : out < v <;> simp [hv]

theorem c34_gen_clear (r : Row) (h : Head) (t : Nat) (n : Int) :
    clearStoreMethod = "AdvanceUserChannelMembershipReadSeq" ∧
    (match evalB (goEnv r h t n) clearSkipCond with
      | some true => some none
      | some false => (evalN (goEnv r h t n) clearStoreSeq).map (fun x => some x.toNat)
      | none => none) = some (clearTarget r h) := by
  refine ⟨rfl, ?_⟩
  simp [clearSkipCond, clearStoreSeq, evalB, evalN, clearTarget]
  by_cases hc : h.committed ≤ r.read <;> simp [hc]

/-- SetUnread's target, assembled from the extracted pieces, is the model's `setTarget` -/
theorem c34_gen_set (r : Row) (h : Head) (n : Nat) :
    setStoreMethod = "AdvanceUserChannelMembershipReadSeq" ∧ setRejectsNegative = true ∧
    setFloorOperands = floorOperands ∧
    (let floor := visibilityFloor r h
     let target : Option Nat :=
       match evalB (goEnv r h floor n) setTargetGuard with
       | some true => evalMax (goEnv r h floor n) setTargetOperands
       | some false => some floor
       | none => none
     target.bind (fun tg =>
       match evalB (goEnv r h tg n) setSkipCond with
       | some true => some none
       | some false => (evalN (goEnv r h tg n) setStoreSeq).map (fun x => some x.toNat)
       | none => none)) = some (setTarget r h n) := by
  refine ⟨rfl, rfl, rfl, ?_⟩
  simp only [setTargetGuard, setTargetOperands, setSkipCond, setStoreSeq, setTarget]
  by_cases hn : n < h.committed
  · have h1 : (n : Int) ≤ h.committed := by omega
    have h2 : ((h.committed : Int) - (n : Int)).toNat = h.committed - n := by omega
    simp [evalB, evalN, evalMax, hn, h1, h2]
    by_cases hs : maxFloor [visibilityFloor r h, h.committed - n] ≤ r.read <;> simp [hs]
  · simp [evalB, evalN, evalMax, hn]
    by_cases hs : visibilityFloor r h ≤ r.read <;> simp [hs]

theorem c34_gen_delete (r : Row) (h : Head) (t : Nat) (n : Int) :
    deleteStoreMethod = "HideUserChannelMembership" ∧
    evalN (goEnv r h t n) deleteStoreSeq = some (h.committed : Int) := by
  refine ⟨rfl, ?_⟩
  simp [deleteStoreSeq, evalN]

/-- the returned Conversation takes Unread / LastMessage from the computed locals and
    the cursors from the row -/
theorem c34_gen_item_fields :
    itemFields.lookup "Unread" = some "unread" ∧ itemFields.lookup "LastMessage" = some "last" ∧
    itemFields.lookup "JoinSeq" = some "row.JoinSeq" ∧ itemFields.lookup "ReadSeq" = some "row.ReadSeq" ∧
    itemFields.lookup "DeletedToSeq" = some "row.DeletedToSeq" ∧ itemFields.lookup "ActiveAt" = some "row.ActivatedAt" := by
  decide


-- non-vacuity: the regenerated expressions evaluate on a concrete row and head
example : evalB (goEnv ⟨3, 4, 0, 0, false⟩ ⟨.ok, 10, 0, 6, some 10⟩ 0 0) Gen.C34.visibleMessage = some true := by
  rw [c34_gen_visible]; decide
example : evalMax (goEnv ⟨3, 4, 0, 0, false⟩ ⟨.ok, 10, 0, 6, some 10⟩ 0 0) floorOperands = some 2 := by
  rw [c34_gen_floor]; decide
example : evalMax (goEnv ⟨3, 4, 0, 0, false⟩ ⟨.ok, 10, 0, 6, some 10⟩ 0 0) effectiveReadOperands = some 6 := by
  rw [c34_gen_effective_read]; decide
example : unreadOf ⟨3, 4, 0, 0, false⟩ ⟨.ok, 10, 0, 6, some 10⟩ = 4 := by decide
example : setTarget ⟨1, 2, 0, 0, false⟩ ⟨.ok, 9, 0, 0, some 9⟩ 3 = some 6 := by decide
example : clearTarget ⟨1, 2, 0, 0, false⟩ ⟨.ok, 9, 0, 0, some 9⟩ = some 9 := by decide
example : joinFloor 5 = 4 ∧ joinFloor 0 = 0 := by decide


/-! ## command status (previously only judged: `viol:failed-command-mutated-row`) -/

/-- what `membershipMutationHead` answers, as a function of the row and the head outcome -/
def mutationStatus (row : Option Row) (h : Head) : Status :=
  match row with
  | none => .notFound
  | some r =>
    if r.tomb then .notFound
    else match h.outcome with
      | .ok | .noVisible => .ok
      | .delete => .notFound
      | .retry => .notReady
      | .bad => .other

theorem mutationHead_status (row : Option Row) (h : Head) :
    (mutationStatus row h = .ok → ∃ r, row = some r ∧ r.tomb = false ∧ mutationHead row h = .ok (r, h)) ∧
    (mutationStatus row h ≠ .ok → mutationHead row h = .error (mutationStatus row h)) := by
  unfold mutationStatus mutationHead
  cases row with
  | none => simp
  | some r =>
    cases ht : r.tomb
    · cases ho : h.outcome <;> simp [ht]
    · simp [ht]

/-- **Command status is exact and a refused command changes nothing** (the path the
    judge covers with `viol:failed-command-mutated-row`): ClearUnread, SetUnread and
    DeleteConversation answer NotFound for a missing / tombstoned membership or a
    terminally deleted channel, RouteNotReady for an unavailable leader, an error for an
    invalid hydration outcome (SetUnread also for a negative count) — and in every such
    case the stored row is left exactly as it was; they succeed in all other cases. -/
theorem c34_command_status_exact (row : Option Row) (h : Head) (n : Int) :
    (clearStep row h).1 = mutationStatus row h ∧
    (deleteStep row h).1 = mutationStatus row h ∧
    (setStep row h n).1 = (if n < 0 then .other else mutationStatus row h) ∧
    ((clearStep row h).1 ≠ .ok → (clearStep row h).2 = row) ∧
    ((deleteStep row h).1 ≠ .ok → (deleteStep row h).2 = row) ∧
    ((setStep row h n).1 ≠ .ok → (setStep row h n).2 = row) := by
  obtain ⟨hok, herr⟩ := mutationHead_status row h
  by_cases hs : mutationStatus row h = .ok
  · obtain ⟨r, hr, ht, hm⟩ := hok hs
    have hc : (clearStep row h).1 = .ok := by
      unfold clearStep; rw [hm]; simp only; cases clearTarget r h <;> rfl
    have hd : (deleteStep row h).1 = .ok := by unfold deleteStep; rw [hm]
    refine ⟨by rw [hc, hs], by rw [hd, hs], ?_, fun hne => absurd hc hne, fun hne => absurd hd hne, ?_⟩
    · unfold setStep
      by_cases hn : n < 0
      · simp [hn]
      · simp only [hn, if_false]; rw [hm, hs]; simp only; cases setTarget r h n.toNat <;> rfl
    · unfold setStep
      by_cases hn : n < 0
      · simp [hn]
      · simp only [hn, if_false]; rw [hm]; simp only
        cases setTarget r h n.toNat <;> simp
  · have hm := herr hs
    have hc : clearStep row h = (mutationStatus row h, row) := by unfold clearStep; rw [hm]
    have hd : deleteStep row h = (mutationStatus row h, row) := by unfold deleteStep; rw [hm]
    refine ⟨by rw [hc], by rw [hd], ?_, fun _ => by rw [hc], fun _ => by rw [hd], ?_⟩
    · unfold setStep
      by_cases hn : n < 0
      · simp [hn]
      · simp only [hn, if_false]; rw [hm]
    · intro _
      unfold setStep
      by_cases hn : n < 0
      · simp [hn]
      · simp only [hn, if_false]; rw [hm]

-- non-vacuity: each status is reachable
example : (clearStep none Head.zero).1 = .notFound := by decide
example : clearStep (some ⟨1, 2, 0, 0, false⟩) ⟨.retry, 9, 0, 0, none⟩ = (.notReady, some ⟨1, 2, 0, 0, false⟩) := by decide
example : deleteStep (some ⟨1, 2, 0, 0, false⟩) ⟨.delete, 9, 0, 0, none⟩ = (.notFound, some ⟨1, 2, 0, 0, false⟩) := by decide
example : setStep (some ⟨1, 2, 0, 0, false⟩) ⟨.ok, 9, 0, 0, none⟩ (-1) = (.other, some ⟨1, 2, 0, 0, false⟩) := by decide
example : (setStep (some ⟨1, 2, 0, 0, false⟩) ⟨.ok, 9, 0, 0, none⟩ 3).1 = .ok := by decide


end WK.C34

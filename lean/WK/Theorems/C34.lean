import WK.Spec.C34
/-
  C34 — Conversation unread counts and visibility are exact.

  About `WK.C34.conversationOf` (conversationFromMembership), `clearStep`,
  `setStep`, `deleteStep`, `activateStep` — the definitions `Driver/C34.lean`
  runs against internal/usecase/conversation.  Quantifier: ALL membership rows
  and channel heads (arbitrary naturals, incl. cursors above the committed tail,
  join = 0, retention above the tail), ALL command sequences.
-/
namespace WK.C34

theorem maxFloor3 (a b c : Nat) : maxFloor [a, b, c] = max (max a b) c := by
  unfold maxFloor
  simp only [List.foldl_cons, List.foldl_nil]
  repeat' split
  all_goals omega

theorem maxFloor2 (a b : Nat) : maxFloor [a, b] = max a b := by
  unfold maxFloor
  simp only [List.foldl_cons, List.foldl_nil]
  repeat' split
  all_goals omega

theorem joinFloor_eq (j : Nat) : joinFloor j = j - 1 := by
  unfold joinFloor; split <;> omega

/-- the code's visibility floor is max(join−1, deletedTo, retention) -/
theorem c34_floor (r : Row) (h : Head) : visibilityFloor r h = specFloor r h := by
  unfold visibilityFloor specFloor; rw [maxFloor3, joinFloor_eq]

/-- the code's effective read point is the maximum of the join point, delete-to
    boundary, retention boundary, read cursor and the user's own last send -/
theorem c34_effective_read (r : Row) (h : Head) : effectiveRead r h = specEffectiveRead r h := by
  unfold effectiveRead specEffectiveRead
  rw [maxFloor3, c34_floor]; unfold specFloor; rfl

theorem unreadOf_eq (r : Row) (h : Head) : unreadOf r h = specUnread r h := by
  unfold unreadOf specUnread; rw [c34_effective_read]; split <;> omega

theorem conversationOf_some (r : Row) (h : Head) (it : Item) (hc : conversationOf r h = some it) :
    it.unread = unreadOf r h ∧ it.last = shownLast r h ∧ (visibleMessage r h = true ∨ r.act > 0) := by
  unfold conversationOf at hc
  by_cases hcond : (!visibleMessage r h && decide (r.act ≤ 0)) = true
  · simp [hcond] at hc
  · simp only [hcond, Bool.false_eq_true, if_false, Option.some.injEq] at hc
    subst hc
    refine ⟨rfl, rfl, ?_⟩
    cases hv : visibleMessage r h
    · right; simp [hv] at hcond; omega
    · left; rfl

/-- **Unread is exact**: every returned conversation carries
    `committed ∸ max(join−1, deletedTo, retention, readSeq, ownLastSend)`;
    truncated subtraction, so it is never negative. -/
theorem c34_unread_formula (r : Row) (h : Head) (it : Item) (hc : conversationOf r h = some it) :
    it.unread = specUnread r h := by
  rw [(conversationOf_some r h it hc).1, unreadOf_eq]

example : conversationOf ⟨3, 4, 0, 0, false⟩ ⟨.ok, 10, 0, 6, some 10⟩ = some ⟨4, some 10, 3, 4, 0, 0⟩ := by decide

theorem shownLast_some (r : Row) (h : Head) (s : Nat) :
    shownLast r h = some s ↔ (h.last = some s ∧ visibleMessage r h = true ∧ s > specFloor r h) := by
  unfold shownLast
  rw [c34_floor]
  cases h.last with
  | none => simp
  | some s' =>
    simp only [Option.some.injEq]
    by_cases hc : (visibleMessage r h && decide (s' > specFloor r h)) = true
    · simp only [hc, if_true, Option.some.injEq]
      simp only [Bool.and_eq_true, decide_eq_true_eq] at hc
      constructor
      · rintro rfl; exact ⟨rfl, hc.1, hc.2⟩
      · rintro ⟨rfl, _, _⟩; rfl
    · simp only [hc, Bool.false_eq_true, if_false]
      simp only [Bool.and_eq_true, decide_eq_true_eq, not_and] at hc
      constructor
      · intro hx; exact absurd hx (by simp)
      · rintro ⟨rfl, hv, hs⟩; exact absurd hs (hc hv)

/-- **Nothing before the join point, the delete-to boundary or the retention
    boundary is ever shown as the last message**; what is shown is the head's last message. -/
theorem c34_last_visible (r : Row) (h : Head) (it : Item) (s : Nat)
    (hc : conversationOf r h = some it) (hl : it.last = some s) :
    h.last = some s ∧ s > r.del ∧ s > h.retention ∧ (r.join > 0 → s ≥ r.join) ∧ s > specFloor r h := by
  rw [(conversationOf_some r h it hc).2.1] at hl
  obtain ⟨a, _, c⟩ := (shownLast_some r h s).mp hl
  unfold specFloor at c ⊢
  refine ⟨a, ?_, ?_, ?_, ?_⟩ <;> omega

example : (conversationOf ⟨5, 0, 0, 1, false⟩ ⟨.ok, 10, 0, 0, some 4⟩).map (·.last) = some none := by decide

/-- and conversely the head's last message IS shown whenever it is above the floor
    and a post-join, post-delete message exists -/
theorem c34_last_shown (r : Row) (h : Head) (it : Item) (s : Nat)
    (hc : conversationOf r h = some it) (hh : h.last = some s) (hs : s > specFloor r h)
    (hv : visibleMessage r h = true) : it.last = some s := by
  rw [(conversationOf_some r h it hc).2.1]
  exact (shownLast_some r h s).mpr ⟨hh, hv, hs⟩

/-! ### commands -/

theorem mutationHead_cases (row : Option Row) (h : Head) :
    (∃ r, row = some r ∧ r.tomb = false ∧ mutationHead row h = .ok (r, h)) ∨
    (∃ e, e ≠ Status.ok ∧ mutationHead row h = .error e) := by
  unfold mutationHead
  cases row with
  | none => right; exact ⟨.notFound, by decide, rfl⟩
  | some r =>
    simp only
    cases ht : r.tomb
    · simp only [Bool.false_eq_true, if_false]
      cases h.outcome
      · left; exact ⟨r, rfl, ht, rfl⟩
      · left; exact ⟨r, rfl, ht, rfl⟩
      · right; exact ⟨.notFound, by decide, rfl⟩
      · right; exact ⟨.notReady, by decide, rfl⟩
      · right; exact ⟨.other, by decide, rfl⟩
    · right; exact ⟨.notFound, by decide, by simp⟩

/-- a successful ClearUnread: live row, and the new row is the old one advanced to the tail (if needed) -/
theorem clearStep_ok (row : Option Row) (h : Head) (r' : Row) (hs : clearStep row h = (.ok, some r')) :
    ∃ r, row = some r ∧ r.tomb = false ∧
      r' = (if h.committed ≤ r.read then r else advanceRead r h.committed) := by
  unfold clearStep at hs
  rcases mutationHead_cases row h with ⟨r, hr, ht, hm⟩ | ⟨e, he, hm⟩
  · rw [hm] at hs
    refine ⟨r, hr, ht, ?_⟩
    unfold clearTarget at hs
    by_cases hle : h.committed ≤ r.read
    · simp only [hle, if_true, Prod.mk.injEq, Option.some.injEq, true_and] at hs ⊢; exact hs.symm
    · simp only [hle, if_false, Prod.mk.injEq, Option.some.injEq, true_and] at hs ⊢; exact hs.symm
  · rw [hm] at hs; simp only [Prod.mk.injEq] at hs; exact absurd hs.1 he

theorem setStep_ok (row : Option Row) (h : Head) (n : Int) (r' : Row) (hs : setStep row h n = (.ok, some r')) :
    0 ≤ n ∧ ∃ r, row = some r ∧ r.tomb = false ∧
      r' = (match setTarget r h n.toNat with | none => r | some t => advanceRead r t) := by
  unfold setStep at hs
  by_cases hn : n < 0
  · simp [hn] at hs
  · simp only [hn, if_false] at hs
    refine ⟨by omega, ?_⟩
    rcases mutationHead_cases row h with ⟨r, hr, ht, hm⟩ | ⟨e, he, hm⟩
    · rw [hm] at hs
      refine ⟨r, hr, ht, ?_⟩
      simp only at hs
      cases hst : setTarget r h n.toNat <;> rw [hst] at hs <;>
        simp only [Prod.mk.injEq, Option.some.injEq, true_and] at hs <;> exact hs.symm
    · rw [hm] at hs; simp only [Prod.mk.injEq] at hs; exact absurd hs.1 he

theorem deleteStep_ok (row : Option Row) (h : Head) (r' : Row) (hs : deleteStep row h = (.ok, some r')) :
    ∃ r, row = some r ∧ r.tomb = false ∧ r' = hide r h.committed := by
  unfold deleteStep at hs
  rcases mutationHead_cases row h with ⟨r, hr, ht, hm⟩ | ⟨e, he, hm⟩
  · rw [hm] at hs
    simp only [Prod.mk.injEq, Option.some.injEq, true_and] at hs
    exact ⟨r, hr, ht, hs.symm⟩
  · rw [hm] at hs; simp only [Prod.mk.injEq] at hs; exact absurd hs.1 he

theorem advanceRead_live (r : Row) (t : Nat) (ht : r.tomb = false) :
    advanceRead r t = { r with read := max r.read t } := by
  unfold advanceRead
  obtain ⟨j, rd, d, a, tb⟩ := r
  simp only at ht
  subst ht
  simp only [Bool.false_eq_true, if_false]
  by_cases hg : t > rd
  · simp only [hg, if_true]; congr 1; omega
  · simp only [hg, if_false]; congr 1; omega

/-- **Clearing unread makes it zero** (for the head the command saw). -/
theorem c34_clear_zero (row : Option Row) (h : Head) (r' : Row)
    (hs : clearStep row h = (.ok, some r')) : specUnread r' h = 0 := by
  obtain ⟨r, _, ht, hr'⟩ := clearStep_ok row h r' hs
  subst hr'
  unfold specUnread specEffectiveRead
  split
  · omega
  · rw [advanceRead_live r _ ht]; simp only; omega

example : clearStep (some ⟨1, 2, 0, 0, false⟩) ⟨.ok, 9, 0, 0, some 9⟩ = (.ok, some ⟨1, 9, 0, 0, false⟩) := by decide

/-- SetUnread's target: when it moves the cursor it moves it exactly to
    max(floor, committed − N), and only forward -/
theorem c34_set_exact (r : Row) (h : Head) (n : Nat) :
    setTarget r h n = (if max (specFloor r h) (h.committed - n) ≤ r.read then none
                       else some (max (specFloor r h) (h.committed - n))) := by
  unfold setTarget
  simp only
  rw [c34_floor]
  by_cases hlt : n < h.committed
  · simp only [hlt, if_true]; rw [maxFloor2]
  · simp only [hlt, if_false]
    have : max (specFloor r h) (h.committed - n) = specFloor r h := by omega
    rw [this]

/-- **Setting unread to N leaves at most N unread.** -/
theorem c34_set_at_most_n (row : Option Row) (h : Head) (n : Int) (r' : Row)
    (hs : setStep row h n = (.ok, some r')) : specUnread r' h ≤ n.toNat ∧ 0 ≤ n := by
  obtain ⟨hn, r, _, ht, hr'⟩ := setStep_ok row h n r' hs
  refine ⟨?_, hn⟩
  subst hr'
  rw [c34_set_exact]
  by_cases hle : max (specFloor r h) (h.committed - n.toNat) ≤ r.read
  · simp only [hle, if_true]
    unfold specUnread specEffectiveRead
    unfold specFloor at hle
    omega
  · simp only [hle, if_false]
    rw [advanceRead_live r _ ht]
    unfold specUnread specEffectiveRead specFloor
    simp only
    omega

example : setStep (some ⟨1, 2, 0, 0, false⟩) ⟨.ok, 9, 0, 0, some 9⟩ 3 = (.ok, some ⟨1, 6, 0, 0, false⟩) := by decide

/-- **Delete hides everything committed**: afterwards nothing is unread, no last
    message is shown, activation is cleared, the read cursor is untouched. -/
theorem c34_delete_zero (row : Option Row) (h : Head) (r' : Row)
    (hs : deleteStep row h = (.ok, some r')) :
    specUnread r' h = 0 ∧ shownLast r' h = none ∧ r'.act = 0 ∧ conversationOf r' h = none := by
  obtain ⟨r, _, ht, hr'⟩ := deleteStep_ok row h r' hs
  subst hr'
  have hd : (hide r h.committed).del ≥ h.committed := by
    unfold hide; simp only [ht, Bool.false_eq_true, if_false]; split <;> omega
  have ha : (hide r h.committed).act = 0 := by unfold hide; simp [ht]
  have hv : visibleMessage (hide r h.committed) h = false := by
    unfold visibleMessage; simp; omega
  refine ⟨?_, ?_, ha, ?_⟩
  · unfold specUnread specEffectiveRead; omega
  · cases hl : shownLast (hide r h.committed) h with
    | none => rfl
    | some s => have := ((shownLast_some _ _ s).mp hl).2.1; rw [hv] at this; simp at this
  · unfold conversationOf; simp [hv, ha]

example : deleteStep (some ⟨1, 2, 0, 7, false⟩) ⟨.ok, 9, 0, 0, some 9⟩ = (.ok, some ⟨1, 2, 9, 0, false⟩) := by decide

/-! ### monotonicity (single step and whole histories) -/

def Mono (r r' : Row) : Prop := r'.read ≥ r.read ∧ r'.del ≥ r.del ∧ r'.join = r.join ∧ r'.tomb = r.tomb

theorem mono_refl (r : Row) : Mono r r := ⟨Nat.le_refl _, Nat.le_refl _, rfl, rfl⟩

theorem mono_advance (r : Row) (t : Nat) : Mono r (advanceRead r t) := by
  unfold advanceRead Mono
  by_cases ht : r.tomb = true
  · simp [ht]
  · by_cases hg : t > r.read
    · refine ⟨?_, ?_, ?_, ?_⟩ <;> simp [ht, hg] <;> omega
    · simp [ht, hg]

theorem mono_hide (r : Row) (t : Nat) : Mono r (hide r t) := by
  unfold hide Mono
  by_cases ht : r.tomb = true
  · simp [ht]
  · by_cases hg : t > r.del
    · refine ⟨?_, ?_, ?_, ?_⟩ <;> simp [ht, hg] <;> omega
    · refine ⟨?_, ?_, ?_, ?_⟩ <;> simp [ht, hg]

theorem mono_activate (r : Row) (t : Int) : Mono r (activate r t) := by
  unfold activate Mono; repeat' split
  all_goals simp

theorem clear_mono (r : Row) (h : Head) : ∃ r', (clearStep (some r) h).2 = some r' ∧ Mono r r' := by
  unfold clearStep
  rcases mutationHead_cases (some r) h with ⟨r0, hr, _, hm⟩ | ⟨e, _, hm⟩
  · simp only [Option.some.injEq] at hr; subst hr
    rw [hm]; simp only
    cases clearTarget r h with
    | none => exact ⟨r, rfl, mono_refl r⟩
    | some t => exact ⟨_, rfl, mono_advance r t⟩
  · rw [hm]; exact ⟨r, rfl, mono_refl r⟩

theorem set_mono (r : Row) (h : Head) (n : Int) : ∃ r', (setStep (some r) h n).2 = some r' ∧ Mono r r' := by
  unfold setStep
  by_cases hn : n < 0
  · simp only [hn, if_true]; exact ⟨r, rfl, mono_refl r⟩
  · simp only [hn, if_false]
    rcases mutationHead_cases (some r) h with ⟨r0, hr, _, hm⟩ | ⟨e, _, hm⟩
    · simp only [Option.some.injEq] at hr; subst hr
      rw [hm]; simp only
      cases setTarget r h n.toNat with
      | none => exact ⟨r, rfl, mono_refl r⟩
      | some t => exact ⟨_, rfl, mono_advance r t⟩
    · rw [hm]; exact ⟨r, rfl, mono_refl r⟩

theorem delete_mono (r : Row) (h : Head) : ∃ r', (deleteStep (some r) h).2 = some r' ∧ Mono r r' := by
  unfold deleteStep
  rcases mutationHead_cases (some r) h with ⟨r0, hr, _, hm⟩ | ⟨e, _, hm⟩
  · simp only [Option.some.injEq] at hr; subst hr
    rw [hm]; exact ⟨_, rfl, mono_hide r _⟩
  · rw [hm]; exact ⟨r, rfl, mono_refl r⟩

theorem activate_mono (r : Row) (t : Int) : ∃ r', (activateStep (some r) t).2 = some r' ∧ Mono r r' := by
  unfold activateStep
  by_cases ht : t ≤ 0
  · simp only [ht, if_true]; exact ⟨r, rfl, mono_refl r⟩
  · simp only [ht, if_false]; exact ⟨_, rfl, mono_activate r t⟩

/-- **Cursors are monotone under every command**: read and deleted-to never move
    backwards, the join point and tombstone flag never change (the commands only
    call the monotone mutators — C16), whatever the status returned. -/
theorem c34_monotone (r : Row) (h : Head) (n t : Int) :
    (∃ r', (clearStep (some r) h).2 = some r' ∧ Mono r r') ∧
    (∃ r', (setStep (some r) h n).2 = some r' ∧ Mono r r') ∧
    (∃ r', (deleteStep (some r) h).2 = some r' ∧ Mono r r') ∧
    (∃ r', (activateStep (some r) t).2 = some r' ∧ Mono r r') :=
  ⟨clear_mono r h, set_mono r h n, delete_mono r h, activate_mono r t⟩

example : Mono ⟨1, 2, 0, 0, false⟩ ⟨1, 9, 0, 0, false⟩ := by unfold Mono; decide

/-- one step of a single-channel history: a user command, or the environment
    replacing the head (sends, retention, leader changes — arbitrary) -/
inductive Ev | clear | set (n : Int) | del | act (t : Int) | head (h : Head)

def evStep (st : Row × Head) : Ev → Row × Head
  | .clear => (((clearStep (some st.1) st.2).2).getD st.1, st.2)
  | .set n => (((setStep (some st.1) st.2 n).2).getD st.1, st.2)
  | .del => (((deleteStep (some st.1) st.2).2).getD st.1, st.2)
  | .act t => (((activateStep (some st.1) t).2).getD st.1, st.2)
  | .head h => (st.1, h)

theorem evStep_mono (r : Row) (h : Head) (e : Ev) : Mono r (evStep (r, h) e).1 := by
  cases e with
  | clear => obtain ⟨r', h1, h2⟩ := clear_mono r h; simp only [evStep, h1, Option.getD_some]; exact h2
  | set n => obtain ⟨r', h1, h2⟩ := set_mono r h n; simp only [evStep, h1, Option.getD_some]; exact h2
  | del => obtain ⟨r', h1, h2⟩ := delete_mono r h; simp only [evStep, h1, Option.getD_some]; exact h2
  | act t => obtain ⟨r', h1, h2⟩ := activate_mono r t; simp only [evStep, h1, Option.getD_some]; exact h2
  | head h' => exact mono_refl r

/-- **Over ANY sequence of clear / set / delete / activate commands interleaved with
    arbitrary head changes, the read and deleted-to cursors never move backwards.** -/
theorem c34_history_monotone (evs : List Ev) (r : Row) (h : Head) :
    Mono r (evs.foldl evStep (r, h)).1 := by
  induction evs generalizing r h with
  | nil => exact mono_refl r
  | cons e es ih =>
    simp only [List.foldl_cons]
    have a := evStep_mono r h e
    have b := ih (evStep (r, h) e).1 (evStep (r, h) e).2
    unfold Mono at a b ⊢
    obtain ⟨a1, a2, a3, a4⟩ := a
    obtain ⟨b1, b2, b3, b4⟩ := b
    exact ⟨Nat.le_trans a1 b1, Nat.le_trans a2 b2, b3.trans a3, b4.trans a4⟩

example : ([Ev.clear, Ev.head ⟨.ok, 12, 0, 0, some 12⟩, Ev.set 1].foldl evStep
    (⟨1, 0, 0, 0, false⟩, ⟨.ok, 9, 0, 0, some 9⟩)).1.read = 11 := by decide

/-- **Unread counts exactly the messages that arrive after the read point**: clear at
    tail `L` (cursors not above the tail), then `k` messages from other users commit and
    retention stays behind `L` ⇒ unread = `k`. -/
theorem c34_unread_counts_new_messages (r r' : Row) (h : Head) (k : Nat)
    (hs : clearStep (some r) h = (.ok, some r'))
    (h1 : r.read ≤ h.committed) (h2 : r.del ≤ h.committed) (h3 : r.join - 1 ≤ h.committed)
    (h4 : h.retention ≤ h.committed) (h5 : h.ownSend ≤ h.committed) :
    specUnread r' { h with committed := h.committed + k } = k := by
  obtain ⟨r0, hr, ht, hr'⟩ := clearStep_ok _ h r' hs
  simp only [Option.some.injEq] at hr; subst hr
  subst hr'
  unfold specUnread specEffectiveRead
  split
  · simp only; omega
  · rw [advanceRead_live r _ ht]; simp only; omega

example : specUnread ⟨1, 9, 0, 0, false⟩ ⟨.ok, 9 + 4, 0, 0, some 13⟩ = 4 := by decide

/-! ### the judge accepts the model's items -/

theorem c34_judge_item_model (r : Row) (h : Head) (it : Item) (hc : conversationOf r h = some it) :
    judgeItem r h it.unread it.last = "ok" := by
  have hu := c34_unread_formula r h it hc
  unfold judgeItem
  simp only [hu, bne_self_eq_false, Bool.false_eq_true, if_false]
  cases hl : it.last with
  | some s =>
    obtain ⟨a, b, c, d, _⟩ := c34_last_visible r h it s hc hl
    simp only
    have e1 : (decide (s ≤ r.join - 1) && decide (r.join > 0)) = false := by
      by_cases hj : r.join > 0
      · have := d hj; simp; omega
      · simp [hj]
    have e2 : ¬ s ≤ r.del := by omega
    have e3 : ¬ s ≤ h.retention := by omega
    simp [e1, e2, e3, a]
  | none =>
    simp only
    cases hh : h.last with
    | none => rfl
    | some s =>
      simp only
      by_cases hcond : (decide (s > specFloor r h) && decide (h.committed ≥ r.join) && decide (h.committed > r.del)) = true
      · exfalso
        simp only [Bool.and_eq_true, decide_eq_true_eq] at hcond
        have := c34_last_shown r h it s hc hh hcond.1.1 (by unfold visibleMessage; simp; omega)
        rw [hl] at this; simp at this
      · simp [hcond]

end WK.C34

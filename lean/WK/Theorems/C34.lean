import WK.Spec.C34
/-
  C34 — Conversation unread counts and visibility are exact.

  About `WK.C34.conversationOf` (conversationFromMembership), `clearStep`,
  `setStep`, `deleteStep`, `activateStep` — the definitions `Driver/C34.lean`
  runs against internal/usecase/conversation.  Quantifier: ALL membership rows
  and channel heads (arbitrary naturals, incl. cursors above the committed tail,
  join = 0, retention above the tail), ALL command sequences.
-/
namespace WK.C34

theorem maxFloor3 (a b c : Nat) : maxFloor [a, b, c] = max (max a b) c := by
  unfold maxFloor
  simp only [List.foldl_cons, List.foldl_nil]
  repeat' split
  all_goals omega

theorem maxFloor2 (a b : Nat) : maxFloor [a, b] = max a b := by
  unfold maxFloor
  simp only [List.foldl_cons, List.foldl_nil]
  repeat' split
  all_goals omega

theorem joinFloor_eq (j : Nat) : joinFloor j = j - 1 := by
  unfold joinFloor; split <;> omega

/-- the code's visibility floor is max(join−1, deletedTo, retention) -/
theorem c34_floor (r : Row) (h : Head) : visibilityFloor r h = specFloor r h := by
  unfold visibilityFloor specFloor; rw [maxFloor3, joinFloor_eq]

/-- the code's effective read point is the maximum of the join point, delete-to
    boundary, retention boundary, read cursor and the user's own last send -/
theorem c34_effective_read (r : Row) (h : Head) : effectiveRead r h = specEffectiveRead r h := by
  unfold effectiveRead specEffectiveRead
  rw [maxFloor3, c34_floor]; unfold specFloor; rfl

/-- **Unread is exact**: every returned conversation carries
    `committed ∸ max(join−1, deletedTo, retention, readSeq, ownLastSend)`;
    truncated subtraction, so it is never negative. -/
theorem c34_unread_formula (r : Row) (h : Head) (it : Item) (hc : conversationOf r h = some it) :
    it.unread = specUnread r h ∧ it.unread = h.committed - effectiveRead r h := by
  unfold conversationOf at hc
  split at hc
  · exact absurd hc (by simp)
  · simp only [Option.some.injEq] at hc
    subst hc
    simp only
    have := c34_effective_read r h
    unfold specUnread
    constructor <;> split <;> omega

example : conversationOf ⟨3, 4, 0, 0, false⟩ ⟨.ok, 10, 0, 6, some 10⟩ = some ⟨4, some 10, 3, 4, 0, 0⟩ := by decide

/-- **Nothing before the join point, the delete-to boundary or the retention
    boundary is ever shown as the last message**; what is shown is the head's last message. -/
theorem c34_last_visible (r : Row) (h : Head) (it : Item) (s : Nat)
    (hc : conversationOf r h = some it) (hl : it.last = some s) :
    h.last = some s ∧ s > r.del ∧ s > h.retention ∧ (r.join > 0 → s ≥ r.join) ∧ s > specFloor r h := by
  unfold conversationOf at hc
  split at hc
  · exact absurd hc (by simp)
  · simp only [Option.some.injEq] at hc
    subst hc
    simp only at hl
    cases hh : h.last with
    | none => rw [hh] at hl; simp at hl
    | some s' =>
      rw [hh] at hl
      simp only at hl
      split at hl
      · rename_i hv
        simp only [Option.some.injEq] at hl
        subst hl
        simp only [Bool.and_eq_true, decide_eq_true_eq] at hv
        have hf := c34_floor r h
        unfold specFloor at hf ⊢
        refine ⟨rfl, ?_, ?_, ?_, ?_⟩ <;> omega
      · exact absurd hl (by simp)

example : (conversationOf ⟨5, 0, 0, 1, false⟩ ⟨.ok, 10, 0, 0, some 4⟩).map (·.last) = some none := by decide

/-- and conversely the head's last message IS shown whenever it is above the floor
    and a post-join, post-delete message exists -/
theorem c34_last_shown (r : Row) (h : Head) (it : Item) (s : Nat)
    (hc : conversationOf r h = some it) (hh : h.last = some s) (hs : s > specFloor r h)
    (hv : visibleMessage r h = true) : it.last = some s := by
  unfold conversationOf at hc
  split at hc
  · exact absurd hc (by simp)
  · simp only [Option.some.injEq] at hc
    subst hc
    simp only [hh, hv, Bool.true_and]
    rw [c34_floor]; simp [hs]

/-! ### commands -/

theorem mutationHead_ok (row : Option Row) (h : Head) (r : Row) (h' : Head)
    (hm : mutationHead row h = .ok (r, h')) : row = some r ∧ h' = h ∧ r.tomb = false := by
  unfold mutationHead at hm
  cases row with
  | none => simp at hm
  | some r0 =>
    simp only at hm
    split at hm
    · exact absurd hm (by simp)
    · rename_i ht
      cases ho : h.outcome <;> rw [ho] at hm <;> simp at hm
      all_goals exact ⟨by rw [hm.1], hm.2.symm, by rw [← hm.1]; simpa using ht⟩

/-- **Clearing unread makes it zero** (for the head the command saw). -/
theorem c34_clear_zero (row : Option Row) (h : Head) (r' : Row)
    (hs : clearStep row h = (.ok, some r')) : specUnread r' h = 0 := by
  unfold clearStep at hs
  cases hm : mutationHead row h with
  | error e => rw [hm] at hs; simp only [Prod.mk.injEq] at hs; subst hs.1; simp [mutationHead] at hm
              <;> (cases row <;> simp at hm)
  | ok p =>
    obtain ⟨r, h'⟩ := p
    obtain ⟨_, rfl, ht⟩ := mutationHead_ok row h r h' hm
    rw [hm] at hs
    simp only at hs
    unfold clearTarget at hs
    unfold specUnread specEffectiveRead
    split at hs
    · simp only [Prod.mk.injEq, Option.some.injEq, true_and] at hs; subst hs; omega
    · simp only [Prod.mk.injEq, Option.some.injEq, true_and] at hs
      subst hs
      unfold advanceRead
      simp only [ht, Bool.false_eq_true, if_false]
      split <;> simp only <;> omega

example : clearStep (some ⟨1, 2, 0, 0, false⟩) ⟨.ok, 9, 0, 0, some 9⟩ = (.ok, some ⟨1, 9, 0, 0, false⟩) := by decide

/-- **Setting unread to N leaves at most N unread.** -/
theorem c34_set_at_most_n (row : Option Row) (h : Head) (n : Int) (r' : Row)
    (hs : setStep row h n = (.ok, some r')) : specUnread r' h ≤ n.toNat ∧ 0 ≤ n := by
  unfold setStep at hs
  split at hs
  · simp at hs
  · rename_i hn
    refine ⟨?_, by omega⟩
    cases hm : mutationHead row h with
    | error e =>
      rw [hm] at hs; simp only [Prod.mk.injEq] at hs
      obtain ⟨he, _⟩ := hs
      subst he
      unfold mutationHead at hm
      cases row with
      | none => simp at hm
      | some r0 =>
        simp only at hm
        split at hm
        · simp at hm
        · cases ho : h.outcome <;> rw [ho] at hm <;> simp at hm
    | ok p =>
      obtain ⟨r, h'⟩ := p
      obtain ⟨_, rfl, ht⟩ := mutationHead_ok row h r h' hm
      rw [hm] at hs
      simp only at hs
      unfold setTarget at hs
      have hf := c34_floor r h'
      unfold specFloor at hf
      unfold specUnread specEffectiveRead
      simp only at hs
      split at hs
      · simp only [Prod.mk.injEq, Option.some.injEq, true_and] at hs
        subst hs
        rename_i hle
        split at hle
        · rw [maxFloor2] at hle; omega
        · omega
      · simp only [Prod.mk.injEq, Option.some.injEq, true_and] at hs
        subst hs
        unfold advanceRead
        simp only [ht, Bool.false_eq_true, if_false]
        split
        · split
          · simp only; rw [maxFloor2]; omega
          · simp only; omega
        · rename_i hgt hng
          split at hng
          · rw [maxFloor2] at hng; omega
          · omega

example : setStep (some ⟨1, 2, 0, 0, false⟩) ⟨.ok, 9, 0, 0, some 9⟩ 3 = (.ok, some ⟨1, 6, 0, 0, false⟩) := by decide

/-- SetUnread marks *only* enough: when it moves the cursor it moves it exactly to
    max(floor, committed − N) -/
theorem c34_set_exact (r : Row) (h : Head) (n t : Nat) (ht : setTarget r h n = some t) :
    t = max (specFloor r h) (h.committed - n) ∧ t > r.read := by
  unfold setTarget at ht
  simp only at ht
  split at ht
  · simp at ht
  · rename_i hgt
    simp only [Option.some.injEq] at ht
    subst ht
    rw [c34_floor] at hgt ⊢
    split
    · rename_i hlt
      simp only [hlt, if_true] at hgt
      rw [maxFloor2] at hgt ⊢; omega
    · rename_i hlt
      simp only [hlt, if_false] at hgt
      omega

/-- **Delete hides everything committed**: afterwards nothing is unread and no last message is shown. -/
theorem c34_delete_zero (row : Option Row) (h : Head) (r' : Row)
    (hs : deleteStep row h = (.ok, some r')) :
    specUnread r' h = 0 ∧ (∀ it, conversationOf r' h = some it → it.last = none) ∧ r'.act = 0 := by
  unfold deleteStep at hs
  cases hm : mutationHead row h with
  | error e =>
    rw [hm] at hs; simp only [Prod.mk.injEq] at hs
    obtain ⟨he, _⟩ := hs
    subst he
    unfold mutationHead at hm
    cases row with
    | none => simp at hm
    | some r0 =>
      simp only at hm
      split at hm
      · simp at hm
      · cases ho : h.outcome <;> rw [ho] at hm <;> simp at hm
  | ok p =>
    obtain ⟨r, h'⟩ := p
    obtain ⟨_, rfl, ht⟩ := mutationHead_ok row h r h' hm
    rw [hm] at hs
    simp only [Prod.mk.injEq, Option.some.injEq, true_and] at hs
    subst hs
    unfold hide
    simp only [ht, Bool.false_eq_true, if_false]
    refine ⟨?_, ?_, rfl⟩
    · unfold specUnread specEffectiveRead; simp only; split <;> omega
    · intro it hc
      cases hl : it.last with
      | none => rfl
      | some s =>
        have := c34_last_visible _ _ it s hc hl
        unfold conversationOf visibleMessage at hc
        simp only at hc
        split at hc
        · simp at hc
        · rename_i hv
          exfalso
          simp only [Bool.and_eq_true, decide_eq_true_eq, Int.le_refl, decide_true, Bool.and_true,
            Bool.not_eq_true', Bool.and_eq_false_iff, decide_eq_false_iff_not] at hv
          -- not visible and act = 0 is the omitted case, so hv says visible; but committed ≤ del'
          split at hv <;> omega

example : deleteStep (some ⟨1, 2, 0, 7, false⟩) ⟨.ok, 9, 0, 0, some 9⟩ = (.ok, some ⟨1, 2, 9, 0, false⟩) := by decide

/-- **Cursors are monotone under every command**: read and deleted-to never move
    backwards, the join point and tombstone flag never change (the commands only
    call the monotone mutators — C16). -/
theorem c34_monotone (r r' : Row) (h : Head) (n t : Int) (s : Status) :
    (clearStep (some r) h = (s, some r') ∨ setStep (some r) h n = (s, some r') ∨
     deleteStep (some r) h = (s, some r') ∨ activateStep (some r) t = (s, some r')) →
    r'.read ≥ r.read ∧ r'.del ≥ r.del ∧ r'.join = r.join ∧ r'.tomb = r.tomb := by
  have hadv : ∀ x, (advanceRead r x).read ≥ r.read ∧ (advanceRead r x).del = r.del ∧
      (advanceRead r x).join = r.join ∧ (advanceRead r x).tomb = r.tomb := by
    intro x; unfold advanceRead; repeat' split
    all_goals simp only
    all_goals omega
  have hmh : ∀ p, mutationHead (some r) h = .ok p → p.1 = r := by
    intro p hp; obtain ⟨a, b⟩ := p
    have := (mutationHead_ok _ _ _ _ hp).1; simp at this; exact this.symm
  rintro (hs | hs | hs | hs)
  · unfold clearStep at hs
    cases hm : mutationHead (some r) h with
    | error e => rw [hm] at hs; simp at hs; rw [← hs.2]; simp
    | ok p =>
      have := hmh p hm
      rw [hm] at hs; simp only at hs
      split at hs <;> simp only [Prod.mk.injEq, Option.some.injEq] at hs
      · rw [← hs.2, this]; simp
      · rw [← hs.2, this]; have := hadv ‹_›; omega
  · unfold setStep at hs
    split at hs
    · simp at hs; rw [← hs.2]; simp
    · cases hm : mutationHead (some r) h with
      | error e => rw [hm] at hs; simp at hs; rw [← hs.2]; simp
      | ok p =>
        have := hmh p hm
        rw [hm] at hs; simp only at hs
        split at hs <;> simp only [Prod.mk.injEq, Option.some.injEq] at hs
        · rw [← hs.2, this]; simp
        · rw [← hs.2, this]; have := hadv ‹_›; omega
  · unfold deleteStep at hs
    cases hm : mutationHead (some r) h with
    | error e => rw [hm] at hs; simp at hs; rw [← hs.2]; simp
    | ok p =>
      have := hmh p hm
      rw [hm] at hs; simp only [Prod.mk.injEq, Option.some.injEq] at hs
      rw [← hs.2, this]
      unfold hide; repeat' split
      all_goals simp only
      all_goals omega
  · unfold activateStep at hs
    split at hs
    · simp at hs; rw [← hs.2]; simp
    · simp only [Prod.mk.injEq, Option.some.injEq] at hs
      rw [← hs.2]; unfold activate; repeat' split
      all_goals simp

/-! ### histories -/

/-- one step of a single-channel history: a user command, or the environment
    replacing the head (sends, retention, leader changes — arbitrary) -/
inductive Ev | clear | set (n : Int) | del | act (t : Int) | head (h : Head)

def evStep (st : Row × Head) : Ev → Row × Head
  | .clear => (((clearStep (some st.1) st.2).2).getD st.1, st.2)
  | .set n => (((setStep (some st.1) st.2 n).2).getD st.1, st.2)
  | .del => (((deleteStep (some st.1) st.2).2).getD st.1, st.2)
  | .act t => (((activateStep (some st.1) t).2).getD st.1, st.2)
  | .head h => (st.1, h)

theorem some_of_some (p : Status × Option Row) (r0 : Row) (h : p.2.isSome = true) :
    p = (p.1, some (p.2.getD r0)) := by
  obtain ⟨a, b⟩ := p; cases b <;> simp_all

theorem step_isSome (r : Row) (h : Head) (n t : Int) :
    (clearStep (some r) h).2.isSome ∧ (setStep (some r) h n).2.isSome ∧
    (deleteStep (some r) h).2.isSome ∧ (activateStep (some r) t).2.isSome := by
  refine ⟨?_, ?_, ?_, ?_⟩
  · unfold clearStep; cases mutationHead (some r) h <;> simp only <;> (try split) <;> rfl
  · unfold setStep; split
    · rfl
    · cases mutationHead (some r) h <;> simp only <;> (try split) <;> rfl
  · unfold deleteStep; cases mutationHead (some r) h <;> rfl
  · unfold activateStep; split <;> rfl

/-- **Over ANY sequence of clear / set / delete / activate commands interleaved with
    arbitrary head changes, the read and deleted-to cursors never move backwards.** -/
theorem c34_history_monotone (evs : List Ev) (r : Row) (h : Head) :
    (evs.foldl evStep (r, h)).1.read ≥ r.read ∧ (evs.foldl evStep (r, h)).1.del ≥ r.del ∧
    (evs.foldl evStep (r, h)).1.join = r.join := by
  induction evs generalizing r h with
  | nil => simp
  | cons e es ih =>
    simp only [List.foldl_cons]
    have key : (evStep (r, h) e).1.read ≥ r.read ∧ (evStep (r, h) e).1.del ≥ r.del ∧ (evStep (r, h) e).1.join = r.join := by
      obtain ⟨h1, h2, h3, h4⟩ := step_isSome r h (match e with | .set n => n | _ => 0) (match e with | .act t => t | _ => 0)
      cases e with
      | clear =>
        have := c34_monotone r _ h 0 0 _ (Or.inl (some_of_some (clearStep (some r) h) r h1))
        exact ⟨this.1, this.2.1, this.2.2.1⟩
      | set n =>
        have := c34_monotone r _ h n 0 _ (Or.inr (Or.inl (some_of_some (setStep (some r) h n) r h2)))
        exact ⟨this.1, this.2.1, this.2.2.1⟩
      | del =>
        have := c34_monotone r _ h 0 0 _ (Or.inr (Or.inr (Or.inl (some_of_some (deleteStep (some r) h) r h3))))
        exact ⟨this.1, this.2.1, this.2.2.1⟩
      | act t =>
        have := c34_monotone r _ h 0 t _ (Or.inr (Or.inr (Or.inr (some_of_some (activateStep (some r) t) r h4))))
        exact ⟨this.1, this.2.1, this.2.2.1⟩
      | head h' => exact ⟨Nat.le_refl _, Nat.le_refl _, rfl⟩
    have := ih (evStep (r, h) e).1 (evStep (r, h) e).2
    obtain ⟨a1, a2, a3⟩ := key
    obtain ⟨b1, b2, b3⟩ := this
    exact ⟨Nat.le_trans a1 b1, Nat.le_trans a2 b2, b3.trans a3⟩

example : ([Ev.clear, Ev.head ⟨.ok, 12, 0, 0, some 12⟩, Ev.set 1].foldl evStep
    (⟨1, 0, 0, 0, false⟩, ⟨.ok, 9, 0, 0, some 9⟩)).1.read = 11 := by decide

/-- **Unread counts exactly the messages that arrive after the read point**: clear at
    tail `L` (cursors not above the tail), then `k` messages from other users commit and
    retention stays behind `L` ⇒ unread = `k`. -/
theorem c34_unread_counts_new_messages (r r' : Row) (h : Head) (k : Nat)
    (hs : clearStep (some r) h = (.ok, some r'))
    (h1 : r.read ≤ h.committed) (h2 : r.del ≤ h.committed) (h3 : r.join - 1 ≤ h.committed)
    (h4 : h.retention ≤ h.committed) (h5 : h.ownSend ≤ h.committed) :
    specUnread r' { h with committed := h.committed + k } = k := by
  have hm := c34_monotone r r' h 0 0 .ok (Or.inl hs)
  have hz := c34_clear_zero (some r) h r' hs
  unfold clearStep at hs
  cases hmh : mutationHead (some r) h with
  | error e => rw [hmh] at hs; simp at hs; subst hs.1; unfold mutationHead at hmh; simp at hmh
               split at hmh
               · simp at hmh
               · cases ho : h.outcome <;> rw [ho] at hmh <;> simp at hmh
  | ok p =>
    obtain ⟨r0, h0⟩ := p
    obtain ⟨hr, rfl, ht⟩ := mutationHead_ok _ _ _ _ hmh
    simp only [Option.some.injEq] at hr; subst hr
    rw [hmh] at hs; simp only at hs
    unfold clearTarget at hs
    unfold specUnread specEffectiveRead at hz ⊢
    simp only
    split at hs
    · simp only [Prod.mk.injEq, Option.some.injEq, true_and] at hs; subst hs; omega
    · simp only [Prod.mk.injEq, Option.some.injEq, true_and] at hs
      subst hs
      unfold advanceRead at hz ⊢
      simp only [ht, Bool.false_eq_true, if_false] at hz ⊢
      split at hz <;> split <;> simp only at hz ⊢ <;> omega

example : specUnread ⟨1, 9, 0, 0, false⟩ ⟨.ok, 9 + 4, 0, 0, some 13⟩ = 4 := by decide

/-! ### the judge accepts the model's items -/

theorem c34_judge_item_model (r : Row) (h : Head) (it : Item) (hc : conversationOf r h = some it) :
    judgeItem r h it.unread it.last = "ok" := by
  have hu := (c34_unread_formula r h it hc).1
  unfold judgeItem
  simp only [hu, bne_self_eq_false, Bool.false_eq_true, if_false]
  cases hl : it.last with
  | some s =>
    obtain ⟨a, b, c, d, _⟩ := c34_last_visible r h it s hc hl
    simp only
    have e1 : (decide (s ≤ r.join - 1) && decide (r.join > 0)) = false := by
      by_cases hj : r.join > 0
      · have := d hj; simp; omega
      · simp [hj]
    have e2 : decide (s ≤ r.del) = false := by simp; omega
    have e3 : decide (s ≤ h.retention) = false := by simp; omega
    simp [e1, e2, e3, a]
  | none =>
    simp only
    cases hh : h.last with
    | none => rfl
    | some s =>
      simp only
      by_cases hcond : (decide (s > specFloor r h) && decide (h.committed ≥ r.join) && decide (h.committed > r.del)) = true
      · exfalso
        simp only [Bool.and_eq_true, decide_eq_true_eq] at hcond
        have := c34_last_shown r h it s hc hh hcond.1.1 (by unfold visibleMessage; simp; omega)
        rw [hl] at this; simp at this
      · simp [hcond]

end WK.C34

import WK.Model.C08
import WK.Spec.C08
import WK.Proofs.C08_Hist
/-
  C08 — theorems.

  Part 1: the two-layer membership filter has no false negatives, for ALL hash
          pairs and any order of adds (bits are only ever set; `add` returns
          early only when `mayContain` already holds; the overflow layer takes
          over after 384 primary adds).
  Part 2: the rebuild (`ensureIdempotencyMembershipLoaded`) covers every durable key.
  Part 3: for ANY filter state that covers the durable idempotency keys,
          `validateAppendRow` with the filter decides exactly what it decides
          with an unconditional point read (saturation only adds point reads).
  Part 4: what an accepted validation implies for the stored rows (uniqueness).
-/
namespace WK.C08
open WK.C07

/-! ### Part 1 — bloom layers -/

theorem testBit_or_bit (b k j : Nat) : (b ||| (1 <<< k)).testBit j = (b.testBit j || decide (j = k)) := by
  rw [Nat.testBit_or, Nat.one_shiftLeft, Nat.testBit_two_pow]
  cases b.testBit j <;> simp [eq_comm]

theorem fold_set_mono (idx : Nat → Nat) (l : List Nat) (b j : Nat) (h : b.testBit j = true) :
    (l.foldl (fun b i => b ||| (1 <<< idx i)) b).testBit j = true := by
  induction l generalizing b with
  | nil => simpa using h
  | cons a t ih =>
    simp only [List.foldl_cons]
    apply ih
    rw [testBit_or_bit, h]; rfl

theorem fold_set_hits (idx : Nat → Nat) (l : List Nat) (b i : Nat) (hi : i ∈ l) :
    (l.foldl (fun b i => b ||| (1 <<< idx i)) b).testBit (idx i) = true := by
  induction l generalizing b with
  | nil => cases hi
  | cons a t ih =>
    simp only [List.foldl_cons]
    rcases List.mem_cons.mp hi with h | h
    · subst h
      apply fold_set_mono
      rw [testBit_or_bit]; simp
    · exact ih _ h

theorem layerAdd_mono (b size h1 h2 j : Nat) (h : b.testBit j = true) :
    (layerAdd b size h1 h2).testBit j = true :=
  fold_set_mono (bitIdx size h1 h2) _ b j h

/-- after `layerAdd` the layer answers "may contain" for the added hash pair — all pairs, all sizes -/
theorem layerMay_layerAdd (b size h1 h2 : Nat) : layerMay (some (layerAdd b size h1 h2)) size h1 h2 = true := by
  unfold layerMay
  simp only [List.all_eq_true]
  intro i hi
  exact fold_set_hits (bitIdx size h1 h2) _ b i hi

/-- a later add into the same layer never clears an earlier answer -/
theorem layerMay_mono (b size h1 h2 k1 k2 : Nat) (h : layerMay (some b) size k1 k2 = true) :
    layerMay (some (layerAdd b size h1 h2)) size k1 k2 = true := by
  unfold layerMay at *
  simp only [List.all_eq_true] at *
  intro i hi
  exact layerAdd_mono b size h1 h2 _ (h i hi)

theorem layerMay_none (size h1 h2 : Nat) : layerMay none size h1 h2 = false := rfl

/-- shape invariant: a nil primary layer means nothing was ever added -/
def Filter.WF (f : Filter) : Prop := f.prim = none → (f.over = none ∧ f.adds = 0)

theorem Filter.wf_empty : ({} : Filter).WF := fun _ => ⟨rfl, rfl⟩

theorem Filter.wf_add (f : Filter) (h : Nat × Nat) (w : f.WF) : (f.add h).WF := by
  unfold Filter.add
  split
  · exact w
  · split
    · intro hp; simp at hp
    · rename_i hc
      intro hp
      have := w hp
      simp only [primCap] at hc
      omega

/-- **no false negative, one step**: a key that was just added is reported -/
theorem Filter.may_add_self (f : Filter) (h : Nat × Nat) (w : f.WF) : (f.add h).may h = true := by
  unfold Filter.add
  split
  · rename_i hm
    unfold Filter.may
    cases hp : f.prim with
    | none =>
      have := (w hp).1
      rw [hp, this] at hm
      simp [layerMay_none] at hm
    | some p => simpa [hp] using hm
  · split
    · unfold Filter.may
      simp [layerMay_layerAdd]
    · rename_i hc
      unfold Filter.may
      cases hp : f.prim with
      | none =>
        have := (w hp).2
        simp only [primCap] at hc
        omega
      | some p =>
        simp [layerMay_layerAdd]

/-- **no false negative, later adds**: an answer "may contain" is never withdrawn -/
theorem Filter.may_add_mono (f : Filter) (h k : Nat × Nat) (hk : f.may k = true) : (f.add h).may k = true := by
  unfold Filter.may at hk
  cases hp : f.prim with
  | none => simp [hp] at hk
  | some p =>
    simp only [hp, Bool.or_eq_true] at hk
    unfold Filter.add
    split
    · unfold Filter.may; simp only [hp, Bool.or_eq_true]; exact hk
    · split
      · unfold Filter.may
        simp only [hp, Option.getD_some, Bool.or_eq_true]
        rcases hk with hk | hk
        · exact Or.inl (layerMay_mono p _ _ _ _ _ hk)
        · exact Or.inr hk
      · unfold Filter.may
        simp only [hp, Bool.or_eq_true]
        rcases hk with hk | hk
        · exact Or.inl hk
        · right
          cases ho : f.over with
          | none => rw [ho, layerMay_none] at hk; cases hk
          | some o =>
            rw [ho] at hk
            simpa using layerMay_mono o _ _ _ _ _ hk

/-- the filter after adding a list of hash pairs, in any order -/
def addAll (f : Filter) (hs : List (Nat × Nat)) : Filter := hs.foldl Filter.add f

theorem addAll_wf (f : Filter) (hs : List (Nat × Nat)) (w : f.WF) : (addAll f hs).WF := by
  induction hs generalizing f with
  | nil => exact w
  | cons a t ih => exact ih _ (Filter.wf_add f a w)

theorem addAll_mono (f : Filter) (hs : List (Nat × Nat)) (k : Nat × Nat) (hk : f.may k = true) :
    (addAll f hs).may k = true := by
  induction hs generalizing f with
  | nil => exact hk
  | cons a t ih => exact ih _ (Filter.may_add_mono f a k hk)

/-- **c08_filter_no_false_negative**: whatever the hash pairs are (arbitrary
    naturals, hence every `(h1, h2|1)` the code can produce), whatever was added
    before and after, and however saturated the layers are, every added key is
    reported by `mayContain`. -/
theorem c08_filter_no_false_negative (f : Filter) (w : f.WF) (hs : List (Nat × Nat)) (k : Nat × Nat) (hk : k ∈ hs) :
    (addAll f hs).may k = true := by
  induction hs generalizing f with
  | nil => cases hk
  | cons a t ih =>
    rcases List.mem_cons.mp hk with h | h
    · subst h
      exact addAll_mono _ t k (Filter.may_add_self f k w)
    · exact ih _ (Filter.wf_add f a w) h

-- non-vacuity: 500 distinct keys (more than the 384-entry primary capacity) all stay members
example : let hs := (List.range 500).map (fun i => (i * 7919 + 13, 2 * i + 1))
          (hs.all (fun k => (addAll {} hs).may k)) = true ∧ (addAll {} hs).adds = 384 ∧ (addAll {} hs).over.isSome = true := by
  decide +kernel

/-! ### Part 2 — the rebuild covers every durable key -/

theorem mem_insKey (k x : B × B) (l : List (B × B)) : x ∈ insKey k l ↔ x = k ∨ x ∈ l := by
  induction l with
  | nil => simp [insKey]
  | cons y t ih =>
    unfold insKey
    split
    · simp
    · simp only [List.mem_cons, ih]
      constructor
      · rintro (h | h | h)
        · exact Or.inr (Or.inl h)
        · exact Or.inl h
        · exact Or.inr (Or.inr h)
      · rintro (h | h | h)
        · exact Or.inr (Or.inl h)
        · exact Or.inl h
        · exact Or.inr (Or.inr h)

theorem mem_sortKeys_aux (l acc : List (B × B)) (x : B × B) :
    x ∈ l.foldl (fun acc k => insKey k acc) acc ↔ x ∈ l ∨ x ∈ acc := by
  induction l generalizing acc with
  | nil => simp
  | cons a t ih =>
    simp only [List.foldl_cons, ih, mem_insKey, List.mem_cons]
    constructor
    · rintro (h | h | h)
      · exact Or.inl (Or.inr h)
      · exact Or.inl (Or.inl h)
      · exact Or.inr h
    · rintro ((h | h) | h)
      · exact Or.inr (Or.inl h)
      · exact Or.inl h
      · exact Or.inr (Or.inr h)

theorem mem_sortKeys (l : List (B × B)) (x : B × B) : x ∈ sortKeys l ↔ x ∈ l := by
  unfold sortKeys
  rw [mem_sortKeys_aux]; simp

/-- a filter covers a channel when every durable idempotency key is reported -/
def Covers (H : Hash) (ch : Chan) (f : Filter) : Prop :=
  ∀ p ∈ ch.iidx, f.may (H p.1.2 p.1.1) = true

theorem foldl_add_eq (H : Hash) (keys : List (B × B)) (f : Filter) :
    keys.foldl (fun f k => f.add (H k.2 k.1)) f = addAll f (keys.map (fun k => H k.2 k.1)) := by
  induction keys generalizing f with
  | nil => rfl
  | cons a t ih => simp only [List.foldl_cons, List.map_cons, addAll, List.foldl_cons]; exact ih _

/-- **c08_rebuild_covers**: after `ensureIdempotencyMembershipLoaded` the filter
    reports every key that is durable in the idempotency index. -/
theorem c08_rebuild_covers (H : Hash) (ch : Chan) (f : Filter) (w : f.WF) (hc : f.loaded = true → Covers H ch f) :
    Covers H ch (ensureLoaded H ch f) ∧ (ensureLoaded H ch f).loaded = true ∧ (ensureLoaded H ch f).WF := by
  unfold ensureLoaded
  split
  · rename_i hl; exact ⟨hc hl, hl, w⟩
  · refine ⟨?_, rfl, ?_⟩
    · intro p hp
      have hmem : p.1 ∈ sortKeys (ch.iidx.map (fun p => p.1)) := by
        rw [mem_sortKeys]; exact List.mem_map.mpr ⟨p, hp, rfl⟩
      dsimp only
      rw [foldl_add_eq]
      have := c08_filter_no_false_negative f w ((sortKeys (ch.iidx.map (fun p => p.1))).map (fun k => H k.2 k.1))
        (H p.1.2 p.1.1) (List.mem_map.mpr ⟨p.1, hmem, rfl⟩)
      simpa [Filter.may] using this
    · dsimp only
      rw [foldl_add_eq]
      have := addAll_wf f ((sortKeys (ch.iidx.map (fun p => p.1))).map (fun k => H k.2 k.1)) w
      intro hp; exact this hp

/-! ### Part 3 — the filter cannot change a validation result -/

theorem alookup_some_mem {κ ν} [DecidableEq κ] (k : κ) (v : ν) (l : List (κ × ν)) (h : alookup k l = some v) :
    (k, v) ∈ l := by
  induction l with
  | nil => simp [alookup] at h
  | cons a t ih =>
    obtain ⟨k', v'⟩ := a
    unfold alookup at h
    split at h
    · rename_i hk; cases h; subst hk; exact List.mem_cons_self
    · exact List.mem_cons_of_mem _ (ih h)

/-- **c08_filter_transparent**: for an ARBITRARY filter state that covers the
    durable keys whenever it claims to be loaded (in particular a saturated one),
    `validateAppendRow` returns exactly what it returns with an unconditional
    point read.  Strict, server-allocated-id and trusted modes alike. -/
theorem c08_filter_transparent (H : Hash) (st : Store) (c mode : Nat) (f : Filter) (n : Cnt) (seen : Seen) (row : Row)
    (w : f.WF) (hc : f.loaded = true → Covers H (st.chan c) f) :
    (validateRowF H st c mode f n seen row).2.2 = validateRow st c mode seen row := by
  unfold validateRowF validateRow
  dsimp only
  generalize (if mode = 0 then
        match alookup row.id st.gidx with
        | some (c', s') => !decide (c' ≠ c ∨ s' ≠ row.seq)
        | none => true
      else true) = sOk
  by_cases h1 : row.id = 0
  · simp [h1]
  by_cases h2 : row.id ∈ seen.ids
  · simp [h1, h2]
  cases sOk
  · simp [h1, h2]
  by_cases h3 : row.frm = [] ∨ row.cmn = []
  · simp [h1, h2, h3]
  by_cases h4 : (row.frm, row.cmn) ∈ seen.keys
  · simp [h1, h2, h3, h4]
  by_cases h5 : mode = 2
  · simp [h1, h2, h3, h4, h5]
  simp only [h1, h2, h3, h4, h5, if_false, Bool.not_true, Bool.false_eq_true, List.contains_iff_mem]
  obtain ⟨hcov, _, _⟩ := c08_rebuild_covers H (st.chan c) f w hc
  by_cases hmay : (ensureLoaded H (st.chan c) f).may (H row.frm row.cmn) = true
  · simp only [hmay, Bool.not_true, Bool.false_eq_true, if_false]
    cases lookupIdem (st.chan c) row.frm row.cmn with
    | error e => rfl
    | ok o =>
      cases o with
      | none => rfl
      | some v =>
        obtain ⟨s, a, b⟩ := v
        dsimp only
        split <;> rfl
  · -- the filter says "definitely absent": the point read would find nothing
    have hnone : alookup (row.cmn, row.frm) (st.chan c).iidx = none := by
      cases hl : alookup (row.cmn, row.frm) (st.chan c).iidx with
      | none => rfl
      | some v =>
        have := hcov _ (alookup_some_mem _ _ _ hl)
        simp only at this
        exact absurd this hmay
    simp [hmay, lookupIdem, hnone]

-- non-vacuity: a loaded, saturated filter (all bits set) covers anything and the theorem applies
example : (validateRowF (fun _ _ => (5, 7)) Store.init 0 0 { prim := some (2 ^ 4096 - 1), adds := 384, loaded := true } {} {}
            (mkRow 1 ⟨9, [1], [2], [3], 4⟩)).2.2 = validateRow Store.init 0 0 {} (mkRow 1 ⟨9, [1], [2], [3], 4⟩) :=
  c08_filter_transparent _ _ _ _ _ _ _ _ (by intro h; simp at h) (by intro _ p hp; simp [Store.init, Store.chan, numChan] at hp)

/-- the filter a validation leaves behind is still well formed, and still covers the channel -/
theorem c08_validate_keeps_cover (H : Hash) (st : Store) (c mode : Nat) (f : Filter) (n : Cnt) (seen : Seen) (row : Row)
    (w : f.WF) (hc : f.loaded = true → Covers H (st.chan c) f) :
    let f' := (validateRowF H st c mode f n seen row).1
    f'.WF ∧ (f'.loaded = true → Covers H (st.chan c) f') := by
  have key : ∀ g : Filter, g.WF → (g.loaded = true → Covers H (st.chan c) g) → ∀ h,
      (g.add h).WF ∧ ((g.add h).loaded = true → Covers H (st.chan c) (g.add h)) := by
    intro g gw gc h
    refine ⟨Filter.wf_add g h gw, ?_⟩
    intro hl p hp
    have hl' : g.loaded = true := by
      unfold Filter.add at hl; split at hl
      · exact hl
      · split at hl <;> exact hl
    exact Filter.may_add_mono g h _ (gc hl' p hp)
  obtain ⟨hcov, hld, hwf⟩ := c08_rebuild_covers H (st.chan c) f w hc
  unfold validateRowF
  dsimp only
  generalize (if mode = 0 then
        match alookup row.id st.gidx with
        | some (c', s') => !decide (c' ≠ c ∨ s' ≠ row.seq)
        | none => true
      else true) = sOk
  by_cases h1 : row.id = 0
  · simp only [h1, if_true]; exact ⟨w, hc⟩
  by_cases h2 : seen.ids.contains row.id = true
  · simp only [h1, h2, if_true, if_false]; exact ⟨w, hc⟩
  cases sOk
  · simp only [h1, h2, if_false, Bool.not_false, if_true]; exact ⟨w, hc⟩
  by_cases h3 : row.frm = [] ∨ row.cmn = []
  · simp only [h1, h2, h3, if_false, Bool.not_true, Bool.false_eq_true, if_true]; exact ⟨w, hc⟩
  by_cases h4 : seen.keys.contains (row.frm, row.cmn) = true
  · simp only [h1, h2, h3, h4, if_false, Bool.not_true, Bool.false_eq_true, if_true]; exact ⟨w, hc⟩
  by_cases h5 : mode = 2
  · simp only [h1, h2, h3, h4, h5, if_false, Bool.not_true, Bool.false_eq_true, if_true]
    by_cases hl : f.loaded = true
    · simp only [hl, if_true]; exact key f w hc _
    · simp only [hl]; exact ⟨w, hc⟩
  simp only [h1, h2, h3, h4, h5, if_false, Bool.not_true, Bool.false_eq_true]
  by_cases hmay : (ensureLoaded H (st.chan c) f).may (H row.frm row.cmn) = true
  · simp only [hmay, Bool.not_true, Bool.false_eq_true, if_false]
    cases lookupIdem (st.chan c) row.frm row.cmn with
    | error e => exact ⟨hwf, fun _ => hcov⟩
    | ok o =>
      cases o with
      | none => exact key _ hwf (fun _ => hcov) _
      | some v =>
        obtain ⟨s, a, b⟩ := v
        dsimp only
        by_cases hs : s ≠ row.seq
        · rw [if_pos hs]; exact ⟨hwf, fun _ => hcov⟩
        · rw [if_neg hs]; exact key _ hwf (fun _ => hcov) _
  · have : (ensureLoaded H (st.chan c) f).may (H row.frm row.cmn) = false := by
      cases h : (ensureLoaded H (st.chan c) f).may (H row.frm row.cmn) <;> simp_all
    simp only [this, Bool.not_false, if_true]
    exact key _ hwf (fun _ => hcov) _

/-! ### uniqueness over whole histories (phase 3; from the C07 store invariant) -/

/-- **c08_unique_idem**: after ANY operation sequence that respects the caller contracts
    (`SafeRun`: allocator-fresh ids outside strict mode, leader-validated keys in trusted
    mode, no raw truncate below RetainedMaxSeq) — appends in all three modes, same batch or
    later batches, truncations, trims, lease closes, whole-DB reopens — two live rows of a
    channel with the same non-empty (sender, clientMsgNo) have the same sequence. -/
theorem c08_unique_idem (ops : List Op) (hs : SafeRun Store.init ops) (c : Nat) :
    UniqueIdem ((run Store.init ops).chan c).rows :=
  unique_idem_of_inv _ (inv_run Store.init ops inv_init hs) c

/-- **c08_msgid_unique**: … and a message id is stored at most once across all channels of the node
    (strict mode unconditionally; server-allocated / trusted modes given the allocator's freshness, which is `Safe`). -/
theorem c08_msgid_unique (ops : List Op) (hs : SafeRun Store.init ops) : UniqueIds (run Store.init ops) :=
  unique_ids_of_inv _ (inv_run Store.init ops inv_init hs)

example : SafeRun Store.init [.app 0 0 0 [⟨5, [1], [2], [3], 4⟩], .reopen, .app 0 1 0 [⟨6, [1], [2], [3], 4⟩]] :=
  ⟨⟨by decide, fun h => absurd rfl h, fun h => by cases h⟩, trivial,
   ⟨by decide, fun _ => by decide +kernel, fun h => by cases h⟩, trivial⟩

/-- **c08_dup_key_rejected**: in every reachable store a validating append (strict or
    server-allocated-id mode) of a row whose (sender, clientMsgNo) is live in the channel is
    rejected, whatever else is in the batch — the server-allocated fast path included. -/
theorem c08_dup_key_rejected (st : Store) (hi : Inv st) (c mode : Nat) (seen seen' : Seen) (row : Row)
    (hm : mode ≠ 2) (hk : Keyed row) (hlive : ∃ r ∈ (st.chan c).rows, r.frm = row.frm ∧ r.cmn = row.cmn)
    (hseq : ∀ r ∈ (st.chan c).rows, r.seq ≠ row.seq) : validateRow st c mode seen row ≠ .ok seen' :=
  dup_key_rejected st hi c mode seen seen' row hm hk hlive hseq

/-- **c08_dup_id_rejected**: in every reachable store a strict append of a message id that is live
    in any channel of the node is rejected. -/
theorem c08_dup_id_rejected (st : Store) (hi : Inv st) (c : Nat) (seen seen' : Seen) (row : Row)
    (hlive : ∃ c' r, r ∈ (st.chan c').rows ∧ r.id = row.id) (hseq : ∀ r ∈ (st.chan c).rows, r.seq ≠ row.seq) :
    validateRow st c 0 seen row ≠ .ok seen' :=
  dup_id_rejected st hi c seen seen' row hlive hseq

-- non-vacuity: the second append of the same key after a reopen is rejected by the model
example : (step (run Store.init [.app 0 0 0 [⟨5, [1], [2], [3], 4⟩], .reopen]) (.app 0 1 0 [⟨6, [1], [2], [3], 4⟩])).2 = .err .conflict := by
  decide +kernel

/-! ### last round: the filter is transparent over a whole batch -/

/-- **c08_batch_filter_transparent**: over a WHOLE batch (any number of records, any mode), validating with an
    arbitrary well-formed filter that covers the durable keys whenever it claims to be loaded gives exactly the
    rows / the error that validation with an unconditional point read gives; the filter left behind is still
    well formed and still covering (so the next batch is transparent too). -/
theorem c08_batch_filter_transparent (H : Hash) (st : Store) (c mode : Nat) (recs : List Rec) (seq : Nat) (f : Filter)
    (n : Cnt) (seen : Seen) (acc : List Row) (w : f.WF) (hc : f.loaded = true → Covers H (st.chan c) f) :
    (walkRowsF H st c mode seq recs f n seen acc).2.2 = walkRows st c mode seq recs seen acc ∧
    (walkRowsF H st c mode seq recs f n seen acc).1.WF ∧
    ((walkRowsF H st c mode seq recs f n seen acc).1.loaded = true →
      Covers H (st.chan c) (walkRowsF H st c mode seq recs f n seen acc).1) := by
  induction recs generalizing seq f n seen acc with
  | nil => exact ⟨rfl, w, hc⟩
  | cons r rest ih =>
    unfold walkRowsF walkRows
    dsimp only
    have ht := c08_filter_transparent H st c mode f n seen (mkRow seq r) w hc
    have hk := c08_validate_keeps_cover H st c mode f n seen (mkRow seq r) w hc
    dsimp only at hk
    rcases hv : validateRowF H st c mode f n seen (mkRow seq r) with ⟨f', n', res⟩
    rw [hv] at ht hk
    dsimp only at ht hk
    rw [← ht]
    cases res with
    | error e => exact ⟨rfl, hk.1, hk.2⟩
    | ok seen' => exact ih (seq + 1) f' n' seen' (mkRow seq r :: acc) hk.1 hk.2

-- non-vacuity: a saturated loaded filter over a two-record batch
example : (walkRowsF (fun _ _ => (5, 7)) Store.init 0 0 1 [⟨9, [1], [2], [3], 4⟩, ⟨10, [1], [3], [3], 4⟩]
            { prim := some (2 ^ 4096 - 1), adds := 384, loaded := true } {} {} []).2.2 =
          walkRows Store.init 0 0 1 [⟨9, [1], [2], [3], 4⟩, ⟨10, [1], [3], [3], 4⟩] {} [] :=
  (c08_batch_filter_transparent _ _ _ _ _ _ _ _ _ _ (by intro h; simp at h)
    (by intro _ p hp; simp [Store.init, Store.chan, numChan] at hp)).1

end WK.C08

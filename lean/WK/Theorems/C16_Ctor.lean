import WK.Gen.C16
/-
  C16 — T tie (fact mode).  `WK.Gen.C16` is regenerated from /repo on every run; the facts
  say that the three row constructors still build rows of the shape `WK.C16.shaped` assumes
  (c16_command_level): live join rows carry ReadSeq = DeletedToSeq = committed tail.
-/
namespace WK.C16

/-- **c16_ctor_shape.**  The constructors in pkg/cluster/node_meta.go,
    internal/runtime/persondirectory/projector.go and internal/usecase/cmdsync/app.go have the
    shape under which `c16_command_level` proves the full statement. -/
theorem c16_ctor_shape :
    WK.Gen.C16.nodeCtorShaped = true ∧ WK.Gen.C16.projCtorShaped = true ∧ WK.Gen.C16.bindCtorShaped = true := by
  decide

end WK.C16

import WK.Spec.C21
import WK.Gen.C21
/-
  C21 — Every component routes a key to the same hash slot.

  The definitions in `WK.Gen.C21` are regenerated from /repo on every run, so
  these theorems are re-proved against what the code says now.
-/
namespace WK.C21
open WK.Gen.C21

theorem xor_cancel_left (p q : BitVec 32) : p ^^^ (p ^^^ q) = q := by
  rw [← BitVec.xor_assoc, BitVec.xor_self, BitVec.zero_xor]

theorem round1_xor (a b : BitVec 32) : round1 (a ^^^ b) = round1 a ^^^ round1 b := by
  unfold round1
  rw [BitVec.ushiftRight_xor_distrib, BitVec.getLsbD_xor]
  cases a.getLsbD 0 <;> cases b.getLsbD 0 <;> simp
  · ac_rfl
  · ac_rfl
  · have : a >>> 1 ^^^ poly ^^^ (b >>> 1 ^^^ poly) = poly ^^^ (poly ^^^ (a >>> 1 ^^^ b >>> 1)) := by ac_rfl
    rw [this, xor_cancel_left]

theorem rounds_xor (n : Nat) (a b : BitVec 32) : rounds n (a ^^^ b) = rounds n a ^^^ rounds n b := by
  induction n generalizing a b with
  | zero => rfl
  | succ n ih => simp [rounds, round1_xor, ih]

theorem rounds_hi (x : BitVec 32) (k : Nat) (h : ∀ i, i < k → x.getLsbD i = false) :
    rounds k x = x >>> k := by
  induction k generalizing x with
  | zero => simp [rounds]
  | succ k ih =>
    have h0 : x.getLsbD 0 = false := h 0 (by omega)
    have : round1 x = x >>> 1 := by
      unfold round1; rw [h0]; simp
    rw [rounds, this, ih]
    · rw [← BitVec.shiftRight_add, Nat.add_comm]
    · intro i hi
      rw [BitVec.getLsbD_ushiftRight]
      exact h (1+i) (by omega)

/-- The 256-entry table the Go toolchain ships is the CRC-32 table: entry `i` is
    eight shift/xor rounds of `i`.  A complete finite table, decided by the kernel. -/
theorem c21_table_ok : ∀ i : Fin 256, ieeeTable.getD i.val 0#32 = rounds 8 (BitVec.ofNat 32 i.val) := by
  decide +kernel

theorem c21_table_ok' (n : Nat) (h : n < 256) : ieeeTable.getD n 0#32 = rounds 8 (BitVec.ofNat 32 n) :=
  c21_table_ok ⟨n, h⟩

theorem mask_bit_fin : ∀ i : Fin 32, (0xFFFFFF00#32).getLsbD i.val = decide (8 ≤ i.val) := by
  decide

theorem mask_bit (i : Nat) : (0xFFFFFF00#32).getLsbD i = decide (8 ≤ i ∧ i < 32) := by
  by_cases h : i < 32
  · have := mask_bit_fin ⟨i, h⟩
    simp only at this
    rw [this]; simp [h]
  · have : (0xFFFFFF00#32).getLsbD i = false := BitVec.getLsbD_of_ge _ _ (by omega)
    rw [this]; simp [h]

theorem split_lo_hi (x : BitVec 32) :
    x = BitVec.setWidth 32 (BitVec.setWidth 8 x) ^^^ (x &&& 0xFFFFFF00#32) := by
  apply BitVec.eq_of_getLsbD_eq
  intro i hi
  simp only [BitVec.getLsbD_xor, BitVec.getLsbD_setWidth, BitVec.getLsbD_and, mask_bit]
  by_cases h : i < 8
  · have h2 : ¬ (8 ≤ i) := by omega
    simp [h, hi, h2]
  · have h2 : 8 ≤ i := by omega
    simp [h, hi, h2]

theorem hi_low_zero (x : BitVec 32) (i : Nat) (h : i < 8) : (x &&& 0xFFFFFF00#32).getLsbD i = false := by
  rw [BitVec.getLsbD_and, mask_bit]
  simp; omega

theorem hi_shift (x : BitVec 32) : (x &&& 0xFFFFFF00#32) >>> 8 = x >>> 8 := by
  apply BitVec.eq_of_getLsbD_eq
  intro i hi
  simp only [BitVec.getLsbD_ushiftRight, BitVec.getLsbD_and, mask_bit]
  by_cases h : 8 + i < 32
  · simp [h]
  · have : x.getLsbD (8 + i) = false := BitVec.getLsbD_of_ge _ _ (by omega)
    simp [this]

/-- the table-driven byte step of router.go equals eight bit-serial rounds -/
theorem c21_step_eq_spec (crc : BitVec 32) (b : BitVec 8) : crcStep crc b = specStep crc b := by
  unfold crcStep specStep
  have hx := split_lo_hi (crc ^^^ BitVec.setWidth 32 b)
  rw [hx, rounds_xor, rounds_hi _ 8 (hi_low_zero _), hi_shift]
  have hlo : BitVec.setWidth 8 (crc ^^^ BitVec.setWidth 32 b) = BitVec.setWidth 8 crc ^^^ b := by
    apply BitVec.eq_of_getLsbD_eq
    intro i hi
    simp only [BitVec.getLsbD_setWidth, BitVec.getLsbD_xor]
    have : i < 32 := by omega
    simp [hi, this]
  rw [hlo]
  have hshift : (crc ^^^ BitVec.setWidth 32 b) >>> 8 = crc >>> 8 := by
    apply BitVec.eq_of_getLsbD_eq
    intro i hi
    simp only [BitVec.getLsbD_ushiftRight, BitVec.getLsbD_xor, BitVec.getLsbD_setWidth]
    have : b.getLsbD (8 + i) = false := BitVec.getLsbD_of_ge _ _ (by omega)
    simp [this]
  rw [hshift]
  have ht : ieeeTable.getD (BitVec.setWidth 8 crc ^^^ b).toNat 0#32
      = rounds 8 (BitVec.ofNat 32 (BitVec.setWidth 8 crc ^^^ b).toNat) :=
    c21_table_ok' _ (BitVec.setWidth 8 crc ^^^ b).isLt
  have hw : BitVec.ofNat 32 (BitVec.setWidth 8 crc ^^^ b).toNat = BitVec.setWidth 32 (BitVec.setWidth 8 crc ^^^ b) := by
    apply BitVec.eq_of_toNat_eq
    simp
  rw [ht, hw]

theorem foldl_congr {α β} (f g : β → α → β) (h : ∀ a b, f a b = g a b) (l : List α) (i : β) :
    l.foldl f i = l.foldl g i := by
  induction l generalizing i with
  | nil => rfl
  | cons x xs ih => simp [List.foldl, h, ih]

/-- **router's hand-rolled CRC = the CRC-32/IEEE spec, for every byte string** -/
theorem c21_router_eq_spec (s : List (BitVec 8)) : checksumIEEEString s = specCrc32 s := by
  unfold checksumIEEEString specCrc32 crcFinal crcInit
  rw [foldl_congr crcStep specStep c21_step_eq_spec]

/-- The checksum a call site uses, given the trusted stdlib CRC `std`. -/
def crcOf (std : List (BitVec 8) → BitVec 32) : Crc → List (BitVec 8) → BitVec 32
  | .router => checksumIEEEString
  | .stdlib => std

/-- **All mappings agree**: with `std = specCrc32` (Go's ChecksumIEEE computes CRC-32/IEEE —
    the one trusted primitive), the router's, the hash-slot table's and the bench
    workload's mappings all equal `specHashSlot`, for every key and count. -/
theorem c21_all_agree (std : List (BitVec 8) → BitVec 32) (hstd : ∀ s, std s = specCrc32 s)
    (key : List (BitVec 8)) (count : BitVec 16) :
    routerHashSlot (crcOf std routerHashSlotCrc key) count = specHashSlot key count ∧
    tableHashSlot (crcOf std tableHashSlotCrc key) count = specHashSlot key count ∧
    benchHashSlot (crcOf std benchHashSlotCrc key) count = specHashSlot key count := by
  refine ⟨?_, ?_, ?_⟩ <;>
    simp [routerHashSlot, tableHashSlot, benchHashSlot, routerHashSlotCrc, tableHashSlotCrc, benchHashSlotCrc,
      crcOf, specHashSlot, c21_router_eq_spec, hstd]

/-- the cluster node's mapping is the router's (extracted fact: every return delegates) -/
theorem c21_node_delegates : nodeDelegatesToRouter = true := by decide

/-- **below the count** for all counts 1..65535 -/
theorem c21_lt (key : List (BitVec 8)) (count : BitVec 16) (h : count ≠ 0#16) :
    (specHashSlot key count).toNat < count.toNat := by
  unfold specHashSlot
  simp only [h, if_false]
  have hc : 0 < count.toNat := by
    rcases Nat.eq_zero_or_pos count.toNat with h0 | h0
    · exact absurd (BitVec.eq_of_toNat_eq (by simpa using h0)) h
    · exact h0
  simp only [BitVec.toNat_setWidth, BitVec.toNat_umod]
  have h1 : count.toNat % 2^32 = count.toNat := Nat.mod_eq_of_lt (by have := count.isLt; omega)
  rw [h1]
  have h2 : (specCrc32 key).toNat % count.toNat < count.toNat := Nat.mod_lt _ hc
  have : (specCrc32 key).toNat % count.toNat % 2^16 = (specCrc32 key).toNat % count.toNat :=
    Nat.mod_eq_of_lt (by have := count.isLt; omega)
  omega

/-- zero count maps to slot 0 at every site (the guard the code has) -/
theorem c21_zero_count (key : List (BitVec 8)) : specHashSlot key 0#16 = 0#16 := by
  simp [specHashSlot]

/-- purity: the mapping is a function of (key, count) only — definitional in the
    model; stated so the audit lists it. -/
theorem c21_pure (k₁ k₂ : List (BitVec 8)) (c₁ c₂ : BitVec 16) (hk : k₁ = k₂) (hc : c₁ = c₂) :
    specHashSlot k₁ c₁ = specHashSlot k₂ c₂ := by subst hk; subst hc; rfl

/-- every batch/single routing entry point of pkg/cluster/routing derives the hash slot of EACH key by
    `HashSlotForKey(key, <table>.HashSlotCount)` (directly or through `routeKey`) and nowhere else
    (extracted definition sites; a shortcut that reuses a neighbour's slot changes this list) -/
theorem c21_routing_sites : routingHashSlotSites =
    [("RouteKey", "routeKey(table,key)"), ("RouteKeys", "routeKey(table,key)"),
     ("RouteKeysPartial", "routeKey(table,key)"), ("routeKey", "HashSlotForKey(key,table.HashSlotCount)"),
     ("RouteAuthorities", "HashSlotForKey(key,t.HashSlotCount)"),
     ("RouteAuthoritiesPartial", "HashSlotForKey(key,t.HashSlotCount)"), ("BuildTable", "r.From")] := by
  decide

/-- the chat-lifecycle bench's private copy of the mapping (`lifecycleHashSlotForKey`, used to validate
    physical hash-slot ownership of cohort candidates) is the same spec function, for every key and count -/
theorem c21_lifecycle_agree (std : List (BitVec 8) → BitVec 32) (hstd : ∀ s, std s = specCrc32 s)
    (key : List (BitVec 8)) (count : BitVec 16) :
    lifecycleHashSlot (crcOf std lifecycleHashSlotCrc key) count = specHashSlot key count := by
  simp [lifecycleHashSlot, lifecycleHashSlotCrc, crcOf, specHashSlot, hstd]

/-- **completeness of the site table**: the functions of the whole repository (non-test Go files) that reduce
    an IEEE CRC-32 with `%` are exactly the four translated mappings proved equal to the spec above
    (`c21_all_agree`, `c21_lifecycle_agree`); a fifth, untranslated mapping function changes this list -/
theorem c21_crc_mod_sites : crcModFuncs =
    [("internal/bench/chatlifecycle/lifecycle_proof.go", "lifecycleHashSlotForKey"),
     ("internal/bench/workload/group.go", "physicalHashSlotForKey"),
     ("pkg/cluster/routing/router.go", "HashSlotForKey"),
     ("pkg/hashslot/hashslottable.go", "HashSlotForKey")] := by
  decide

/-- the slot proxy's `hashSlotForKey(cluster, key)` computes nothing itself: it returns
    `cluster.(hashSlotKeyer).HashSlotForKey(key)` (= Node.HashSlotForKey = the router's mapping,
    `c21_node_delegates`) or 0 when the cluster has no such method (extracted fact) -/
theorem c21_proxy_delegates : proxyDelegatesToKeyer = true := by decide

-- non-vacuity of the new site: the lifecycle mapping is not constant
example : lifecycleHashSlot 0x0000012C#32 256#16 = 0x2C#16 := by decide
example : crcModFuncs.length = 4 := by decide

-- non-vacuity: "123456789" has the well-known check value 0xCBF43926
set_option maxRecDepth 100000 in
example : specCrc32 [0x31#8,0x32#8,0x33#8,0x34#8,0x35#8,0x36#8,0x37#8,0x38#8,0x39#8] = 0xCBF43926#32 := by decide
set_option maxRecDepth 100000 in
example : checksumIEEEString [0x31#8,0x32#8,0x33#8,0x34#8,0x35#8,0x36#8,0x37#8,0x38#8,0x39#8] = 0xCBF43926#32 := by decide
example : (specHashSlot [0x61#8] 256#16).toNat < 256 := c21_lt _ _ (by decide)

end WK.C21

import WK.Proofs.C09_WF
import WK.Proofs.C09_Idx
import WK.Proofs.C09_Strict
import WK.Proofs.C09_RetFloor
import WK.Proofs.C09_Rows
import WK.Gen.C09
/-
  C09 — storage mutations are crash-atomic.  Class PR.

  ASSUMPTION (trusted, stated as the definitions `applyBatch` / `CrashState` in
  WK/Spec/C09.lean, exercised by the fault-injection runs): Pebble applies a
  committed batch atomically and a batch committed with `pebble.Sync` is durable
  once Commit returns; an unsynced commit may be lost together with everything
  after it.

  What is proved here, for ALL histories of the modelled ChannelStore mutations
  (app / fetch / xapp / trunc / adopt / trim / ckpt with arbitrary arguments)
  from ANY start store and for ALL crash points of that semantics:
    * T facts about the current Go source (`c09_code_one_synced_batch`);
    * a crash state is the state after a clean prefix of the history
      (`c09_crash_is_clean_prefix`) — hence every invariant of clean histories
      holds in every crash state (`c09_each_prefix_inv`), instantiated for the
      entry-local well-formedness `WF` (`c09_each_prefix_wf`: retention ordering
      Physical ≤ Local ≤ RetainedMax, logStart ≤ HW, key/value agreement of
      proposal pairs, entry identities, index values — no load fails closed);
    * acknowledged ⇒ durable: with one op in flight the crash state is the store
      before it or after it, and contains every returned mutation
      (`c09_acked_durable`), which is exactly what the judge checks on the
      implementation's post-crash dumps;
    * bounded trims make progress and keep the retention state ordered
      (`c09_multi_batch_trim`);
    * necessity: a mutation split into two batches has a crash state that
      violates the store invariant (`c09_split_not_atomic`), and an unsynced
      commit can be lost after it was acknowledged (`c09_unsynced_can_be_lost`).
  Cross-entry clauses of `StoreInv`: key uniqueness (`c09_each_prefix_nodup`) and rows ⇔ index
  entries (`c09_each_prefix_idx`, `c09_each_prefix_rows_complete`, for histories with fresh records)
  are proved at every crash point.  Still only judged on the implementation's dumps: HW ≤ recovered
  LEO, retention floor vs rows, proposal pairs / entry identities and the frontier of the exact channel.
-/
namespace WK.C09
open WK.Gen.C09

/-! ## T — facts about the current source -/

/-- functions that page through several synced batches by design (restore cleanup, backup import);
    every intermediate state is resumable, they are not single mutations -/
def multiBatchAllowed : List String :=
  ["ChannelStore.DiscardForRestore", "MessageDB.importBackupChannel", "MessageDB.importMessageBackupChannelStream"]

/-- commits that are unsynced by design: the non-durable dispatch cursor (its `…Durable` variants
    pass sync=true) and the read-path garbage collection of stale global-index entries -/
def unsyncedAllowed : List String :=
  ["MessageDB.deleteLatestMessageIndexes", "ChannelStore.storeCommittedDispatchCursor"]

def fnOk (f : BatchFn) : Bool :=
  (multiBatchAllowed.contains f.name ||
    (f.newBatch ≤ 1 && f.commits == f.newBatch && !f.inLoop && (f.commits == 0 || f.commitTop))) &&
  (unsyncedAllowed.contains f.name || (f.syncFalse == 0 && f.syncOther == 0)) &&
  f.syncTrue + f.syncFalse + f.syncOther == f.commits &&
  f.viaCoordinator ≤ 1

/-- functions whose body contains two commit SITES that are alternatives, not a sequence: the
    coordinator submission and the synchronous fallback used when no coordinator is configured -/
def coordinatorOrFallback : List String := ["commitPreparedRowsBatchResult", "commitPreparedCheckpointHWBatch"]

def allowedDBMethods : List String := ["Close", "Get", "MetricsSnapshot", "NewBatch", "NewIter", "NewSnapshot"]

/-- every batch-creating function of pkg/db/message issues exactly one batch, commits it once, at
    the top level of its body, with the literal `true`; the allow-listed exceptions are the only
    multi-batch / unsynced ones; no other function reaches two commit sites, counting calls of same-package
    helpers that commit (transitively); the engine turns sync=true into pebble.Sync and exposes no write
    outside a batch; the coordinator commits each group once with `Commit(true)` and nothing
    outside tests replaces its commit function. -/
def codeOneSyncedBatch : Bool :=
  batchFns.all fnOk &&
  -- no function commits its own batch AND calls a same-package helper that commits (transitively)
  multiCommitFns.all (fun e => multiBatchAllowed.contains e.1 || coordinatorOrFallback.contains e.1) &&
  multiBatchAllowed.all (fun n => batchFns.any (·.name == n)) &&
  unsyncedAllowed.all (fun n => batchFns.any (·.name == n)) &&
  cursorStoreCalls == ["AdvanceCommittedDispatchCursorDurable:true", "ConfirmCommittedDispatchCursorDurable:true",
                       "StoreCommittedDispatchCursor:false"] &&
  engineCommitMapsSync &&
  engineDBMethods.all (allowedDBMethods.contains ·) &&
  engineDirectWrites.isEmpty &&
  coordinatorDefaultCommit == "return batch.Commit(true)" &&
  coordinatorNewBatch == 1 && coordinatorCommitCalls == 1 && !coordinatorCommitInLoop &&
  setCommitFuncUsers.isEmpty

theorem c09_code_one_synced_batch : codeOneSyncedBatch = true := by decide

/-- the mutations the model covers are among the single-batch functions (non-vacuity of the table) -/
example : (["ChannelStore.truncateLocked", "ChannelStore.AdoptRetentionBoundary", "ChannelLog.trimPrefixThroughLimit",
            "ChannelLog.storeCheckpointLocked", "commitPreparedRowsBatchResult"].all
            (fun n => batchFns.any (fun f => f.name == n && f.newBatch == 1 && f.syncTrue == 1))) = true := by decide

/-! ## crash semantics -/

/-- ATOMICITY: every crash state of a history (any crash point, nothing in flight beyond the issued
    commits) is the state after a CLEAN prefix of the history. -/
theorem c09_crash_is_clean_prefix (s0 : Store) (ops : List Op) (s : Store)
    (h : CrashState s0 (commitsOf s0 ops) [] s) : ∃ j, j ≤ ops.length ∧ s = run s0 (ops.take j) := by
  obtain ⟨k, _, _, hs⟩ := h
  rw [List.append_nil] at hs
  obtain ⟨j, hj, he⟩ := commit_prefix_is_clean_prefix s0 ops k
  exact ⟨j, hj, hs.trans he⟩

/-- non-vacuity: a two-op history has the three crash states ∅, after op 1, after op 2 -/
example : CrashState [] (commitsOf [] [.ckpt 1 0, .app 1 0 [⟨7, 1, 2, 0, 3⟩]]) []
    (run [] [.ckpt 1 0, .app 1 0 [⟨7, 1, 2, 0, 3⟩]]) :=
  ⟨2, by decide, by decide, by decide⟩

theorem run_inv (Inv : Store → Prop) (hstep : ∀ s op, Inv s → Inv (stepG s op)) :
    ∀ (l : List Op) (s : Store), Inv s → Inv (run s l)
  | [], _, h => h
  | op :: rest, s, h => by rw [run_cons]; exact run_inv Inv hstep rest _ (hstep _ _ h)

/-- every invariant of clean histories holds at EVERY prefix of the commit list -/
theorem c09_each_prefix_inv (Inv : Store → Prop) (s0 : Store) (h0 : Inv s0)
    (hstep : ∀ s op, Inv s → Inv (stepG s op)) (ops : List Op) (k : Nat) :
    Inv (applyCommits s0 ((commitsOf s0 ops).take k)) := by
  obtain ⟨j, _, he⟩ := commit_prefix_is_clean_prefix s0 ops k
  rw [he]
  exact run_inv Inv hstep _ _ h0

/-- instance: every stored value stays well-formed (retention ordering, logStart ≤ HW, key/value
    agreement) at every crash point of every history -/
theorem c09_each_prefix_wf (ops : List Op) (k : Nat) :
    AllEntries WF (applyCommits [] ((commitsOf [] ops).take k)) :=
  c09_each_prefix_inv (AllEntries WF) [] (by intro e he; cases he) (fun s op h => wf_stepG s op h) ops k

/-- non-vacuity: a history that writes checkpoint, retention state and cursor -/
example : get (run [] [.fetch 1 (some 1) [⟨7, 1, 2, 0, 3⟩], .adopt 1 1, .trim 1 1 1]) (.ret 1) = some (.ret 1 1 1) := by
  decide

/-! ### cross-entry clauses at every crash point -/

/-- keys stay unique at every crash point of every history -/
theorem c09_each_prefix_nodup (ops : List Op) (k : Nat) : NoDup (applyCommits [] ((commitsOf [] ops).take k)) :=
  c09_each_prefix_inv NoDup [] (by simp [NoDup]) (fun s op h => noDup_stepG s op h) ops k

/-- ROWS ⇔ INDEXES at every crash point: for every history whose appends carry fresh records at the
    point where they are issued (`HistFresh`: non-zero pairwise distinct message ids absent from the
    global id index, pairwise distinct idempotency keys absent from the channel's index — what
    `validateAppendRow` checks in strict mode and what the allocator / leader guarantee in the other
    modes), every prefix of the committed batches satisfies `IdxInv`: each index entry names a stored
    row with the same fields and each stored row has all of its index entries. -/
theorem c09_each_prefix_idx (ops : List Op) (k : Nat) (hf : HistFresh [] ops) :
    IdxInv (applyCommits [] ((commitsOf [] ops).take k)) := by
  obtain ⟨j, _, he⟩ := commit_prefix_is_clean_prefix [] ops k
  rw [he]
  exact idxInv_run _ [] idxInv_empty (histFresh_take ops [] j hf)

/-- ROWS ⇔ INDEXES for STRICT histories, no freshness hypothesis: when every append / exact append runs in
    strict mode with non-zero ids (record-carrying follower applies are the trusted mode and excluded), the
    model's `validateRows` itself guarantees fresh, pairwise distinct ids and idempotency keys, so `IdxInv`
    holds at every crash point. -/
theorem c09_each_prefix_idx_strict (ops : List Op) (k : Nat) (hs : ∀ op ∈ ops, StrictOp op) :
    IdxInv (applyCommits [] ((commitsOf [] ops).take k)) := by
  obtain ⟨j, _, he⟩ := commit_prefix_is_clean_prefix [] ops k
  rw [he]
  exact idxInv_run_strict _ [] idxInv_empty (fun o ho => hs o (List.mem_of_mem_take ho))

/-- non-vacuity: a strict history with a rejected duplicate, a truncation and a re-append -/
example : ∀ op ∈ [Op.app 1 0 [⟨7, 1, 2, 0, 3⟩], .app 2 0 [⟨7, 0, 0, 0, 1⟩], .trunc 1 0, .app 1 0 [⟨7, 1, 2, 0, 3⟩]],
    StrictOp op := by
  intro op h
  simp only [List.mem_cons, List.mem_nil_iff, or_false] at h
  rcases h with rfl | rfl | rfl | rfl <;> simp [StrictOp]

/-- …so the Bool judge's row-completeness clause holds there (tie between the lookup invariant and
    the predicate the driver evaluates on the implementation's dumps) -/
theorem c09_each_prefix_rows_complete (ops : List Op) (k : Nat) (hf : HistFresh [] ops) :
    (applyCommits [] ((commitsOf [] ops).take k)).all (rowComplete (applyCommits [] ((commitsOf [] ops).take k))) = true :=
  rowComplete_of_idxInv _ (c09_each_prefix_nodup ops k) (c09_each_prefix_idx ops k hf)

/-- non-vacuity: an append of two records followed by a truncation is a fresh history -/
example : HistFresh [] [.app 1 0 [⟨7, 1, 2, 0, 3⟩, ⟨8, 0, 4, 4, 0⟩], .trunc 1 1] := by
  refine ⟨?_, trivial, trivial⟩
  constructor <;> simp [get, List.lookup]

/-- necessity of freshness: a trusted append that reuses a stored message id overwrites the global id
    entry, and the older row loses its index entry -/
example : ¬ StoreInv (run [] [.app 1 2 [⟨7, 0, 0, 0, 1⟩], .app 2 2 [⟨7, 0, 0, 0, 2⟩]]) := by
  unfold StoreInv; decide

/-- `_partial` — RETENTION FLOOR against rows (Physical ≤ Local ≤ RetainedMax, Local > 0, no stored row at or
    below the physical floor) is preserved by the batch of every append-shaped mutation (append, apply-fetch,
    exact append: new rows land above the recovered log end ≥ RetainedMaxSeq) and of a checkpoint write.
    Missing: truncate, retention adoption and the bounded trim (the trim needs sortedness of the row
    iteration order); those stay judged on the implementation's dumps. -/
theorem c09_ret_floor_appends_partial (s : Store) (op : Op) (h : RetFloor s)
    (hop : match op with | .app .. => True | .fetch .. => True | .xapp .. => True | .ckpt .. => True | _ => False) :
    RetFloor (applyBatch s (plan s op).2) := retFloor_plan_appends s op h hop

/-- non-vacuity: the empty store satisfies the floor, and an apply-fetch after a trim appends above it -/
example : RetFloor [] := by intro ch l p m hg; simp [get, List.lookup] at hg
example : (plan (run [] [.fetch 1 (some 2) [⟨7, 0, 0, 0, 1⟩, ⟨8, 0, 0, 0, 2⟩], .adopt 1 1, .trim 1 1 0])
    (.app 1 0 [⟨9, 0, 0, 0, 3⟩])).1 = .ok [2] := by decide

/-- NO OVERWRITE: after the batch of ANY mutation, a stored row either was stored before with the same value or
    its sequence lies strictly above the old recovered log end (⊔ RetainedMaxSeq): appends never overwrite a
    row and never write into the retained (adopted / trimmed) range; the other mutations never put a row. -/
theorem c09_rows_only_above_leo (s : Store) (op : Op) (ch q : Nat) (v : Val)
    (hv : get (applyBatch s (plan s op).2) (.row ch q) = some v) : leo s ch < q ∨ get s (.row ch q) = some v :=
  rows_after_plan s op ch q v hv

/-- row sequences are positive at every crash point of every history -/
theorem c09_each_prefix_rows_pos (ops : List Op) (k : Nat) : RowsPos (applyCommits [] ((commitsOf [] ops).take k)) :=
  c09_each_prefix_inv RowsPos [] (by intro ch q v hv; simp [get, List.lookup] at hv) (fun s op h => rowsPos_stepG s op h) ops k

/-- non-vacuity: after adopting a boundary beyond the log end the next append lands above it -/
example : (plan (run [] [.app 1 0 [⟨7, 0, 0, 0, 1⟩], .adopt 1 5]) (.app 1 0 [⟨8, 0, 0, 0, 2⟩])).1 = .ok [5] := by decide

/-- ACKNOWLEDGED ⇒ DURABLE, with at most one mutation in flight: after the mutations `acked`
    returned and while `op` is executing, the crash state is the store after `acked` or the store
    after `acked ++ [op]` — never less, never a part of `op`. -/
theorem c09_acked_durable (s0 : Store) (acked : List Op) (op : Op) (s : Store)
    (h : CrashState s0 (commitsOf s0 acked) (commitsOf (run s0 acked) [op]) s) :
    s = run s0 acked ∨ s = run s0 (acked ++ [op]) := by
  obtain ⟨k, hlo, hhi, hs⟩ := h
  have hsync := lastSynced_of_all_sync _ (commitsOf_sync s0 acked)
  rw [hsync] at hlo
  have hlen := commitsOf_single_le (run s0 acked) op
  rw [List.length_append] at hhi
  have hA := applyCommits_commitsOf s0 acked
  by_cases hk : k = (commitsOf s0 acked).length
  · left
    rw [hs, hk, List.take_left']
    · exact hA
    · rfl
  · right
    have hk' : k = (commitsOf s0 acked).length + (commitsOf (run s0 acked) [op]).length := by omega
    rw [hs, hk', ← List.length_append, List.take_length, applyCommits_append, hA,
      applyCommits_commitsOf, run_append]

/-- non-vacuity: both outcomes occur -/
example : CrashState [] (commitsOf [] [.ckpt 1 0]) (commitsOf (run [] [.ckpt 1 0]) [.app 1 0 [⟨7, 0, 0, 0, 1⟩]])
    (run [] [.ckpt 1 0]) := ⟨1, by decide, by decide, by decide⟩
example : CrashState [] (commitsOf [] [.ckpt 1 0]) (commitsOf (run [] [.ckpt 1 0]) [.app 1 0 [⟨7, 0, 0, 0, 1⟩]])
    (run [] [.ckpt 1 0, .app 1 0 [⟨7, 0, 0, 0, 1⟩]]) := ⟨2, by decide, by decide, by decide⟩

/-- one bounded trim (`TrimMessagesThroughLimit`): the retention state stays ordered
    (Physical ≤ Local ≤ RetainedMax, the requested boundary was adopted), physical retention never
    goes back, a trim that reports `More` strictly advances it (so the caller's loop terminates),
    and a trim that does not report `More` has erased everything through the boundary.  Every
    intermediate state of the loop is therefore a state from which the loop can simply be re-run. -/
theorem c09_multi_batch_trim (s : Store) (ch th mx n d more : Nat)
    (hok : (plan s (.trim ch th mx)).1 = .ok [n, d, more]) :
    ∃ rl np nm, get (step s (.trim ch th mx)).2 (.ret ch) = some (.ret rl np nm) ∧
      (curRet s ch).2.1 ≤ np ∧ np ≤ rl ∧ rl ≤ nm ∧ th ≤ rl ∧
      (more = 1 → (curRet s ch).2.1 < np) ∧ (more = 0 → th ≤ np) := by
  rw [step_snd]
  unfold plan at hok ⊢
  simp only at hok ⊢
  rcases hcr : curRet s ch with ⟨rl, rp, rm, pres⟩
  rw [hcr] at hok
  simp only at hok ⊢
  split at hok
  · simp at hok
  split at hok
  · simp at hok
  split at hok
  · simp at hok
  rename_i h0 h1 h2
  rw [if_neg h0, if_neg h1, if_neg h2]
  simp only
  refine ⟨rl, _, _, get_applyBatch_tail _ _ _ _ _ _ (by simp), ?_⟩
  simp only [Res.ok.injEq, List.cons.injEq, and_true] at hok
  obtain ⟨_, _, hmore⟩ := hok
  cases hm : trimMore (trimCand s ch rp th) mx
  · simp only [hm] at hmore h2 ⊢
    simp at hmore
    unfold trimNp at h2 ⊢
    simp only [Bool.not_false, true_and] at h2 ⊢
    by_cases hdt : (trimDels (trimCand s ch rp th) mx).getLast?.getD 0 > rp
    · simp only [hdt, if_true] at h2 ⊢
      split <;> (split at h2 <;> omega)
    · simp only [hdt, if_false] at h2 ⊢
      split <;> (split at h2 <;> omega)
  · have hl := trimDels_last_gt (sortedSeqs s ch) rp th mx hm
    simp only [hm, if_true] at hmore h2 ⊢
    unfold trimNp at h2 ⊢
    simp only [Bool.not_true, Bool.false_eq_true, false_and, if_false] at h2 ⊢
    unfold trimCand at h2 ⊢
    rw [if_pos hl] at h2 ⊢
    omega


/-- non-vacuity: a bounded trim that deletes one row and reports More, then one that finishes -/
example : (plan (run [] [.fetch 1 (some 2) [⟨7, 1, 2, 0, 3⟩, ⟨8, 0, 0, 0, 4⟩], .adopt 1 2]) (.trim 1 2 1)).1 = .ok [1, 1, 1] := by
  decide
example : (plan (run [] [.fetch 1 (some 2) [⟨7, 1, 2, 0, 3⟩, ⟨8, 0, 0, 0, 4⟩], .adopt 1 2, .trim 1 2 1]) (.trim 1 2 1)).1
    = .ok [1, 2, 0] := by decide

/-- necessity of the sync flag: an acknowledged but UNSYNCED commit may be absent after a crash -/
theorem c09_unsynced_can_be_lost :
    CrashState [] [⟨[.put (.cur 1) (.nat 5)], false⟩] [] [] := ⟨0, by decide, by decide, rfl⟩

/-- necessity of the single batch: an append split into "rows" then "indexes" has a crash state
    that violates the store invariant (a row without its index entries) -/
theorem c09_split_not_atomic :
    ∃ s, CrashState [] [] [⟨[.put (.row 1 1) (.row 7 1 2 0 3)], true⟩,
                           ⟨[.put (.gid 7) (.gid 1 1), .put (.idem 1 1 2) (.idem 1 7), .put (.sseq 1 1 1) (.nat 7)], true⟩] s
      ∧ ¬ StoreInv s :=
  ⟨[(.row 1 1, .row 7 1 2 0 3)], ⟨1, by decide, by decide, by decide⟩, by unfold StoreInv; decide⟩

/-- …whereas the single batch the code issues keeps it -/
example : StoreInv (run [] [.app 1 0 [⟨7, 1, 2, 0, 3⟩]]) := by unfold StoreInv; decide

end WK.C09

import WK.Spec.C22
namespace WK.C22
end WK.C22

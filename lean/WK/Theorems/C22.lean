import WK.Proofs.C22_Frames
/-
  C22 — WKProto frames round-trip exactly.

  All theorems are about `WK.C22.encodeFrame / decodeFrame / encodedSize`
  (lean/WK/Model/C22.lean), the definitions the drivers of C22 and C23 execute
  against the real codec on every run.  They hold for EVERY protocol version
  (any `v : Nat`, so in particular 0..LatestVersion and every uint8), every one
  of the 12 frame types and every flag combination.
-/
namespace WK.C22

/-! ## varint -/

/-- Remaining-length varint round-trip for every length 1 … 2^28-1 (MaxRemaingLength
    = 2^20 is far inside), with arbitrary trailing bytes; the decoder reports exactly
    the number of bytes the encoder wrote. -/
theorem c22_varint_roundtrip (n : Nat) (rest : Bytes) (h0 : 0 < n) (h : n < 268435456) :
    decLen (encVar n ++ rest) = some (n, (encVar n).length) := by
  rw [encVar_length]; exact decLen_encVar n rest h0 h

example : decLen (encVar 1048576 ++ [0xAA]) = some (1048576, 3) := by decide

/-- `encodedVariableSize` is exact for every uint32 (indeed every Nat). -/
theorem c22_varint_size (n : Nat) : varSize n = (encVar n).length := (encVar_length n).symm

example : varSize 16384 = 3 ∧ (encVar 16384).length = 3 := by decide

/-- §8.6: length 0 is encoded as NO byte at all — a zero-length body would not round-trip … -/
theorem c22_varint_zero : encVar 0 = [] ∧ decLen (encVar 0 ++ [5]) = some (5, 1) := by decide

/-- … but no frame type has an empty body, at any version. -/
theorem c22_body_nonempty (v : Nat) (f : Frame) (h : f.typeNo ≠ 7 ∧ f.typeNo ≠ 8) : 0 < bodySize v f := by
  cases f <;> simp [Frame.typeNo] at h <;>
    simp [bodySize, sizeConnect, sizeConnack, sizeSend, sizeSendack, sizeRecv, sizeRecvack, sizeDisconnect,
      sizeSub, sizeSuback, sizeEvent] <;> omega

example : bodySize 0 (.disconnect {} { reasonCode := 0, reason := [] }) = 3 := by decide

/-! ## header byte -/

/-- The fixed header byte carries the type and, for every one of the 64 flag
    combinations, exactly the normalised flags: the four low bits for ordinary
    frames; for CONNACK only HasServerVersion, which the decoder mirrors into
    NoPersist (the overload). -/
theorem c22_header_flags (ft : Nat) (h : Flags) (hft : ft < 16) :
    typeOfByte (hdrByte ft h) = ft ∧
    flagsOfByte (hdrByte ft h) = if ft = 2 then normConnackFlags h else normFlags h := by
  refine ⟨typeOfByte_hdr ft h hft, ?_⟩
  by_cases h2 : ft = 2
  · subst h2; simp [flags_hdr_connack]
  · simp [h2, flags_hdr ft h hft h2]

example : flagsOfByte (hdrByte 2 { dup := true, hsv := true }) = { noPersist := true, hsv := true } := by decide

/-! ## size exactness -/

theorem body_size_exact (v : Nat) (f : Frame) (body : Bytes) (h : encodeBody v f = .ok body) :
    body.length = bodySize v f := by
  cases f with
  | connect hh p => exact connect_size p body h
  | connack hh p => exact connack_size v hh p body h
  | send hh p => exact send_size v p body h
  | sendack hh p => exact sendack_size v p body h
  | recv hh p => exact recv_size v p body h
  | recvack hh p => exact recvack_size v p body h
  | ping hh => simp [encodeBody] at h; subst h; rfl
  | pong hh => simp [encodeBody] at h; subst h; rfl
  | disconnect hh p => exact disconnect_size p body h
  | sub hh p => exact sub_size p body h
  | suback hh p => exact suback_size p body h
  | event hh p => exact event_size p body h

/-- Whenever `EncodeFrame` produces bytes — no limits assumed — the precomputed
    `encodedFrameSize` equals the number of bytes produced. -/
theorem c22_size_exact (v : Nat) (f : Frame) (bs : Bytes) (h : encodeFrame v f = .ok bs) :
    encodedSize v f = bs.length := by
  cases f with
  | ping hh => simp [encodeFrame] at h; subst h; rfl
  | pong hh => simp [encodeFrame] at h; subst h; rfl
  | connect hh p | connack hh p | send hh p | sendack hh p | recv hh p | recvack hh p
  | disconnect hh p | sub hh p | suback hh p | event hh p =>
    simp only [encodeFrame] at h
    simp only [encodedSize]
    split at h
    · cases h
    · rename_i hl
      split at h
      · cases h
      · rename_i body hb
        simp only [Except.ok.injEq] at h
        subst h
        have := body_size_exact v _ body hb
        simp [hl, encVar_length, this]
        omega

example : encodeFrame 6 (.recvack { dup := true } { messageID := 1, messageSeq := 2 }) =
    .ok [0x68, 16, 0,0,0,0,0,0,0,1, 0,0,0,0,0,0,0,2] ∧
    encodedSize 6 (.recvack { dup := true } { messageID := 1, messageSeq := 2 }) = 18 := by decide

/-! ## round trip -/

/-- the flags the wire carries for a frame -/
def wireFlags (f : Frame) : Flags :=
  if f.typeNo = 2 then normConnackFlags f.flags else normFlags f.flags

theorem body_roundtrip (v : Nat) (f : Frame) (hf : FieldsOk v f) (hp : f.typeNo ≠ 7 ∧ f.typeNo ≠ 8) :
    ∃ body, encodeBody v f = .ok body ∧ body.length = bodySize v f ∧
      decodeBody f.typeNo v (wireFlags f) body = some (some (norm v f)) := by
  cases f with
  | connect hh p =>
    simpa [encodeBody, bodySize, decodeBody, Frame.typeNo, norm, wireFlags, Frame.flags]
      using connect_body (normFlags hh) p hf
  | connack hh p =>
    obtain ⟨b, h1, h2, _⟩ := connack_body v hh p hf
    refine ⟨b, h1, h2, ?_⟩
    -- the decoder sees the wire flags, whose hsv equals the frame's
    obtain ⟨b', h1', _, h3'⟩ := connack_body v (normConnackFlags hh) p hf
    have e : encConnack v (normConnackFlags hh) p = encConnack v hh p := by
      simp [encConnack, normConnackFlags]
    rw [e, h1] at h1'
    cases h1'
    simp only [decodeBody, wireFlags, Frame.typeNo, Frame.flags, norm, if_true]
    rw [h3']
    simp [normConnackFlags]
    rfl
  | send hh p =>
    simpa [encodeBody, bodySize, decodeBody, Frame.typeNo, norm, wireFlags, Frame.flags]
      using send_body v (normFlags hh) p hf
  | sendack hh p =>
    simpa [encodeBody, bodySize, decodeBody, Frame.typeNo, norm, wireFlags, Frame.flags]
      using sendack_body v (normFlags hh) p hf
  | recv hh p =>
    simpa [encodeBody, bodySize, decodeBody, Frame.typeNo, norm, wireFlags, Frame.flags]
      using recv_body v (normFlags hh) p hf
  | recvack hh p =>
    simpa [encodeBody, bodySize, decodeBody, Frame.typeNo, norm, wireFlags, Frame.flags]
      using recvack_body v (normFlags hh) p hf
  | ping hh => simp [Frame.typeNo] at hp
  | pong hh => simp [Frame.typeNo] at hp
  | disconnect hh p =>
    simpa [encodeBody, bodySize, decodeBody, Frame.typeNo, norm, wireFlags, Frame.flags]
      using disconnect_body (normFlags hh) p hf
  | sub hh p =>
    simpa [encodeBody, bodySize, decodeBody, Frame.typeNo, norm, wireFlags, Frame.flags]
      using sub_body (normFlags hh) p hf
  | suback hh p =>
    simpa [encodeBody, bodySize, decodeBody, Frame.typeNo, norm, wireFlags, Frame.flags]
      using suback_body (normFlags hh) p hf
  | event hh p =>
    simpa [encodeBody, bodySize, decodeBody, Frame.typeNo, norm, wireFlags, Frame.flags]
      using event_body (normFlags hh) p hf

theorem typeNo_lt (f : Frame) : f.typeNo < 16 ∧ f.typeNo ≠ 0 := by cases f <;> simp [Frame.typeNo]

/-- shape of a successful encoding of a non-PING/PONG frame: header byte, varint of
    the body size, body of exactly that size -/
theorem c22_encode_shape (v : Nat) (f : Frame) (h : WithinLimits v f) (hp : f.typeNo ≠ 7 ∧ f.typeNo ≠ 8) :
    ∃ body, encodeFrame v f = .ok (hdrByte f.typeNo f.flags :: (encVar (bodySize v f) ++ body)) ∧
      body.length = bodySize v f := by
  obtain ⟨hf, _⟩ := h
  obtain ⟨body, he, hl, _⟩ := body_roundtrip v f hf hp
  have hnl : sendTooLarge f = false := by
    cases f with
    | send hh p =>
      have := hf.2.2.2.2.2.2.2.2.2
      simp [sendTooLarge, payloadMaxSize] at this ⊢
      omega
    | _ => rfl
  refine ⟨body, ?_, hl⟩
  cases f <;> simp [Frame.typeNo] at hp <;> simp [encodeFrame, hnl, he]

/-- **Round trip.**  For every version, frame type, flag combination and field
    values within the protocol limits: encoding succeeds, and decoding the bytes
    (followed by ANY further bytes) yields the normalised frame and consumes
    exactly the encoded length. -/
theorem c22_roundtrip (v : Nat) (f : Frame) (rest : Bytes) (h : WithinLimits v f) :
    ∃ bs, encodeFrame v f = .ok bs ∧ decodeFrame v (bs ++ rest) = .ok (norm v f) bs.length := by
  obtain ⟨hf, hmax⟩ := h
  by_cases hp : f.typeNo ≠ 7 ∧ f.typeNo ≠ 8
  · obtain ⟨body, he, hl, hd⟩ := body_roundtrip v f hf hp
    have hnl : sendTooLarge f = false := by
      cases f with
      | send hh p =>
        have := hf.2.2.2.2.2.2.2.2.2
        simp [sendTooLarge, payloadMaxSize] at this ⊢
        omega
      | _ => rfl
    have hpos := c22_body_nonempty v f hp
    have hlt : bodySize v f < 268435456 := by simp [maxRemainingLength] at hmax; omega
    have henc : encodeFrame v f = .ok (hdrByte f.typeNo f.flags :: (encVar (bodySize v f) ++ body)) := by
      cases f <;> simp [Frame.typeNo] at hp <;> simp [encodeFrame, hnl, he]
    refine ⟨_, henc, ?_⟩
    obtain ⟨hty, hty0⟩ := typeNo_lt f
    have hhdr := c22_header_flags f.typeNo f.flags hty
    have hlen := decLen_encVar (bodySize v f) (body ++ rest) hpos hlt
    have hwf : wireFlags f = flagsOfByte (hdrByte f.typeNo f.flags) := by
      rw [hhdr.2]; rfl
    simp only [decodeFrame, List.cons_append, List.append_assoc, decodeHeader, hhdr.1, hlen]
    have c1 : (f.typeNo ≠ 7 ∧ f.typeNo ≠ 8) := hp
    rw [if_pos c1]
    simp only [if_neg hty0, if_neg hp.1, if_neg hp.2]
    have c2 : ¬ bodySize v f > maxRemainingLength := by omega
    rw [if_neg c2]
    have c3 : ¬ (List.length (hdrByte f.typeNo f.flags :: (encVar (bodySize v f) ++ (body ++ rest)))
        < bodySize v f + 1 + varSize (bodySize v f)) := by
      simp [encVar_length, hl]; omega
    rw [if_neg c3]
    have c4 : (List.drop (1 + varSize (bodySize v f))
        (hdrByte f.typeNo f.flags :: (encVar (bodySize v f) ++ (body ++ rest)))).take (bodySize v f) = body := by
      rw [Nat.add_comm 1, List.drop_succ_cons, ← encVar_length, List.drop_left, ← hl, List.take_left]
    rw [c4, ← hwf, hd]
    simp [encVar_length, hl]
    omega
  · have : f.typeNo = 7 ∨ f.typeNo = 8 := by omega
    cases f <;> simp [Frame.typeNo] at this
    · exact ⟨_, rfl, by simp [decodeFrame, decodeHeader, typeOfByte, flagsOfByte, norm]⟩
    · exact ⟨_, rfl, by simp [decodeFrame, decodeHeader, typeOfByte, flagsOfByte, norm]⟩

/-- non-vacuity: a SEND with stream + topic settings at version 4, all four flags, trailing bytes -/
def exSend : Frame := .send { noPersist := true, redDot := true, syncOnce := true, dup := true }
  { setting := 10, clientSeq := 7, clientMsgNo := [1], streamNo := [2], channelID := [3], channelType := 2,
    expire := 9, msgKey := [], topic := [4, 5], payload := [6, 7, 8] }

example : WithinLimits 4 exSend ∧ norm 4 exSend = exSend := by decide
example : ∃ bs, encodeFrame 4 exSend = .ok bs ∧ decodeFrame 4 (bs ++ [0xFF, 0x00]) = .ok exSend bs.length := by
  refine ⟨_, rfl, ?_⟩
  decide

/-- `norm` only forgets what the wire format of that version does not carry: it is idempotent … -/
theorem c22_norm_idem (v : Nat) (f : Frame) : norm v (norm v f) = norm v f := by
  cases f with
  | connack hh p => cases h : hh.hsv <;> by_cases hv : v ≥ 4 <;> simp [norm, normConnackFlags, h, hv]
  | send hh p =>
    cases hs : streamOn v p.setting <;> cases ht : topicOn p.setting <;> by_cases hv : v ≥ 3 <;>
      simp [norm, normFlags, hs, ht, hv]
  | recv hh p =>
    cases hs : streamOn v p.setting <;> cases ht : topicOn p.setting <;> by_cases hv : v ≥ 3 <;>
      simp [norm, normFlags, hs, ht, hv]
  | _ => simp [norm, normFlags]

/-- … so for a canonical frame (one that uses only what its version carries)
    decode ∘ encode is literally the identity. -/
theorem c22_roundtrip_canonical (v : Nat) (f : Frame) (rest : Bytes) (h : WithinLimits v f) (hc : Canonical v f) :
    ∃ bs, encodeFrame v f = .ok bs ∧ decodeFrame v (bs ++ rest) = .ok f bs.length := by
  have := c22_roundtrip v f rest h
  rwa [hc] at this

example : Canonical 6 (.recvack { dup := true } { messageID := 5, messageSeq := 18446744073709551615 }) ∧
    WithinLimits 6 (.recvack { dup := true } { messageID := 5, messageSeq := 18446744073709551615 }) := by decide

/-! ## what the decoder can return at all (used by C23) -/

/-- A decoded frame always consumed at least one and at most all of the given bytes. -/
theorem c22_decode_bounds (v : Nat) (data : Bytes) (f : Frame) (n : Nat) (h : decodeFrame v data = .ok f n) :
    1 ≤ n ∧ n ≤ data.length := by
  unfold decodeFrame at h
  split at h
  · cases h
  · rename_i b0 rest
    split at h
    · cases h
    · rename_i ft hh rl rll hhdr
      split at h
      · cases h
      · split at h
        · simp only [DecRes.ok.injEq] at h; simp [← h.2]
        · split at h
          · simp only [DecRes.ok.injEq] at h; simp [← h.2]
          · split at h
            · cases h
            · split at h
              · cases h
              · rename_i hlen
                dsimp only at h
                split at h
                · cases h
                · cases h
                · simp only [DecRes.ok.injEq] at h
                  rw [← h.2]
                  omega

/-- The decoder panics (index out of range) exactly on the empty input. -/
theorem c22_decode_panic_iff (v : Nat) (data : Bytes) : decodeFrame v data = .panic ↔ data = [] := by
  constructor
  · intro h
    cases data with
    | nil => rfl
    | cons b0 rest =>
      exfalso
      simp only [decodeFrame] at h
      repeat' split at h
      all_goals cases h
  · rintro rfl; rfl

example : decodeFrame 6 [] = .panic := rfl

/-! ## what `decodeLength` can return on arbitrary bytes -/

theorem decLenF_bounds : ∀ (k m off acc : Nat) (data : Bytes) (val cnt : Nat),
    decLenF k m off acc data = some (val, cnt) →
    off + 1 ≤ cnt ∧ cnt ≤ off + k + 1 ∧ cnt ≤ off + data.length + 1 := by
  intro k
  induction k with
  | zero =>
    intro m off acc data val cnt h
    simp only [decLenF, Option.some.injEq, Prod.mk.injEq] at h
    omega
  | succ k ih =>
    intro m off acc data val cnt h
    cases data with
    | nil => simp [decLenF] at h
    | cons d rest =>
      simp only [decLenF] at h
      split at h
      · simp only [Option.some.injEq, Prod.mk.injEq] at h
        simp only [List.length_cons]; omega
      · have := ih _ _ _ rest val cnt h
        simp only [List.length_cons]; omega

/-- **`decodeLength` never over-reads** (the `dlen` judge clause `viol:varint-overread` as a
    theorem): for ARBITRARY bytes, a decoded remaining-length claims between 1 and 5
    bytes, and at most one byte more than it was given — the one case being four
    continuation bytes, where the code reports 5 without reading a fifth (§8.6); the
    `len(data) < msgLen` check of `DecodeFrame` then keeps that from becoming an over-read
    (`c22_decode_bounds`). -/
theorem c22_varint_decode_bounds (data : Bytes) (rl c : Nat) (h : decLen data = some (rl, c)) :
    1 ≤ c ∧ c ≤ 5 ∧ c ≤ data.length + 1 := by
  have := decLenF_bounds 4 0 0 0 data rl c h
  omega

example : decLen [0x80, 0x80, 0x80, 0x80] = some (0, 5) := by decide

end WK.C22

import WK.Proofs.C05_Enc
/-
  C05 — An entry identity binds every field of its message.

  `WK.Gen.C05.digestItems` (the ordered hash writes of `digestProposalEntry`)
  is regenerated from /repo on every run and `preimage` is defined from it, so
  these theorems are re-proved against what the code hashes now.  SHA-256 is the
  parameter `H`; the escape of every binding theorem is an EXPLICIT colliding pair
  (`CollideOn H x y` with x, y the two preimages involved), which implies `Collision H`.
-/
namespace WK.C05
open WK.Gen.C05

/-! ### the tie facts -/

/-- the v1 preimage layout (pinned): tag ‖ 6×u64 ‖ cmd[32] ‖ prevDigest[32] ‖ id u64 ‖ setting u8 ‖
    syncOnce u8 ‖ ts u64 ‖ 3×(len u64 ‖ bytes).  A reordered / dropped / added write fails here. -/
theorem c05_layout_v1 : digestItems =
    [ .tag [119, 117, 107, 111, 110, 103, 105, 109, 47, 99, 104, 97, 110, 110, 101, 108, 45, 101, 110, 116, 114, 121, 47, 118, 49, 0],
      .u64 .eEpoch, .u64 .eTerm, .u64 .eFence, .u64 .eIndex, .u64 .ePrevTerm, .u64 .ePrevIndex,
      .arr32 .eCommand, .arr32 .ePrevDigest,
      .u64 .rID, .u8 .rSetting, .flag .rSyncOnce 1 0, .u64 .rTimestamp,
      .lenBytes .rFromUID, .lenBytes .rClientMsgNo, .lenBytes .rPayload ] := by decide

/-- helper closures, result, and call shape as the model assumes them -/
theorem c05_shape : u64BigEndian8 = true ∧ lenPrefixU64 = true ∧ digestIsSum = true ∧
    verifyComparesDigest = true ∧ deriveAssignsDigest = true ∧ digestCallSites = 2 ∧ sealUsesDerive = true := by decide

/-- the channel wrapper copies every quorumlog.Record field from the same-named channel.Record field -/
theorem c05_channel_map : channelRecordMap =
    [(.rID, "ID"), (.rIndex, "Index"), (.rEpoch, "Epoch"), (.rSetting, "Setting"), (.rFromUID, "FromUID"),
     (.rClientMsgNo, "ClientMsgNo"), (.rTimestamp, "ServerTimestampMS"), (.rSyncOnce, "SyncOnce"), (.rPayload, "Payload")] := by
  decide

/-- the fifteen semantic fields: authority×3, index, predecessor×3, command, seven message fields -/
def hashedFlds : List Fld :=
  [.eEpoch, .eTerm, .eFence, .eIndex, .ePrevTerm, .ePrevIndex, .eCommand, .ePrevDigest,
   .rID, .rSetting, .rSyncOnce, .rTimestamp, .rFromUID, .rClientMsgNo, .rPayload]

/-- every write is of the kind of its field -/
theorem items_ok : ∀ it ∈ digestItems, itemOK it = true := by decide

/-- every semantic field is written -/
theorem items_cover : ∀ f ∈ hashedFlds, ∃ it ∈ digestItems, itemFld it = some f := by decide

/-! ### injectivity -/

/-- **single-field sensitivity**: two (identity, record) pairs that differ in ANY of the fifteen
    semantic fields have different preimages — whatever the other fields are. -/
theorem c05_single_field {e : Entry} {r : Rec} {e' : Entry} {r' : Rec} (hw : WF e r) (hw' : WF e' r')
    (f : Fld) (hf : f ∈ hashedFlds) (hne : ¬ ValEq e r e' r' f) : preimage e r ≠ preimage e' r' :=
  fun h => hne (preimageOf_field hw hw' digestItems items_ok h f (items_cover f hf))

theorem semEq_of_valEq {e : Entry} {r : Rec} {e' : Entry} {r' : Rec} (hw : WF e r) (hw' : WF e' r')
    (h : ∀ f ∈ hashedFlds, ValEq e r e' r' f) : SemEq e r e' r' := by
  have g := fun f (hf : f ∈ hashedFlds) => h f hf
  refine ⟨(g .eEpoch (by decide)).1, (g .eTerm (by decide)).1, (g .eFence (by decide)).1,
    (g .eIndex (by decide)).1, (g .ePrevTerm (by decide)).1, (g .ePrevIndex (by decide)).1,
    (g .eCommand (by decide)).2.1, (g .ePrevDigest (by decide)).2.1, (g .rID (by decide)).1,
    (g .rSetting (by decide)).1, (g .rSyncOnce (by decide)).2.2, ?_, (g .rFromUID (by decide)).2.1,
    (g .rClientMsgNo (by decide)).2.1, (g .rPayload (by decide)).2.1⟩
  have := (g .rTimestamp (by decide)).1
  simp only [natOf] at this
  have := hw.tsLo; have := hw.tsHi; have := hw'.tsLo; have := hw'.tsHi
  omega

/-- **the preimage is injective up to the hashed fields** -/
theorem c05_preimage_injective {e : Entry} {r : Rec} {e' : Entry} {r' : Rec} (hw : WF e r) (hw' : WF e' r')
    (h : preimage e r = preimage e' r') : SemEq e r e' r' :=
  semEq_of_valEq hw hw' (fun f hf => preimageOf_field hw hw' digestItems items_ok h f (items_cover f hf))

/-- … and depends on nothing else (version, digest, record index/epoch are not hashed) -/
theorem c05_preimage_congr {e : Entry} {r : Rec} {e' : Entry} {r' : Rec} (h : SemEq e r e' r') :
    preimage e r = preimage e' r' :=
  preimageOf_congr h digestItems items_ok

/-- **digest binds or collision** -/
theorem c05_digest_binds (H : Bytes → Dig) {e : Entry} {r : Rec} {e' : Entry} {r' : Rec}
    (hw : WF e r) (hw' : WF e' r') (h : digest H e r = digest H e' r') :
    SemEq e r e' r' ∨ CollideOn H (preimage e r) (preimage e' r') := by
  by_cases hp : preimage e r = preimage e' r'
  · exact Or.inl (c05_preimage_injective hw hw' hp)
  · exact Or.inr ⟨hp, h⟩

/-- single-field sensitivity at digest level -/
theorem c05_single_field_digest (H : Bytes → Dig) {e : Entry} {r : Rec} {e' : Entry} {r' : Rec}
    (hw : WF e r) (hw' : WF e' r') (f : Fld) (hf : f ∈ hashedFlds) (hne : ¬ ValEq e r e' r' f) :
    digest H e r ≠ digest H e' r' ∨ CollideOn H (preimage e r) (preimage e' r') := by
  by_cases hd : digest H e r = digest H e' r'
  · exact Or.inr ⟨c05_single_field hw hw' f hf hne, hd⟩
  · exact Or.inl hd

/-! ### any admissible layout is injective; every construction site of a Record -/

/-- a digest layout is admissible when every write has the kind of its field (fixed-width integers,
    fixed 32-byte arrays, one-byte setting/flag with distinct flag bytes, u64-length-prefixed byte
    strings) and every one of the fifteen semantic fields is written -/
def LayoutOK (items : List Item) : Prop :=
  (∀ it ∈ items, itemOK it = true) ∧ (∀ f ∈ hashedFlds, ∃ it ∈ items, itemFld it = some f)

/-- ANY admissible layout — whatever the order, whatever extra tags — is injective exactly up to the
    hashed fields -/
theorem c05_layout_injective (items : List Item) (h : LayoutOK items)
    {e : Entry} {r : Rec} {e' : Entry} {r' : Rec} (hw : WF e r) (hw' : WF e' r') :
    preimageOf items e r = preimageOf items e' r' ↔ SemEq e r e' r' :=
  ⟨fun hp => semEq_of_valEq hw hw' (fun f hf => preimageOf_field hw hw' items h.1 hp f (h.2 f hf)),
   fun hs => preimageOf_congr hs items h.1⟩

theorem c05_extracted_layout_ok : LayoutOK digestItems := ⟨items_ok, items_cover⟩

def recFlds : List Fld := [.rID, .rIndex, .rEpoch, .rSetting, .rFromUID, .rClientMsgNo, .rTimestamp, .rSyncOnce, .rPayload]

/-- a construction site sets each of the nine record fields exactly once -/
def siteComplete (m : List (Fld × String)) : Bool :=
  recFlds.all (fun f => (m.filter (fun p => p.1 == f)).length == 1) && m.length == 9

theorem c05_record_sites :
    recordSites.map (fun s => (s.1, s.2.1)) =
      [("pkg/channel/proposal.go", "DeriveProposalEntries"),
       ("pkg/db/message/proposal_manifest.go", "deriveDurableProposalEntries"),
       ("pkg/db/message/proposal_manifest.go", "verifyBackupRowIdentity")] ∧
    (∀ s ∈ recordSites, siteComplete s.2.2 = true) ∧
    recordSites.map (fun s => s.2.2) =
      [[(.rID, "record.ID"), (.rIndex, "record.Index"), (.rEpoch, "record.Epoch"), (.rSetting, "record.Setting"),
        (.rFromUID, "record.FromUID"), (.rClientMsgNo, "record.ClientMsgNo"), (.rTimestamp, "record.ServerTimestampMS"),
        (.rSyncOnce, "record.SyncOnce"), (.rPayload, "record.Payload")],
       [(.rID, "row.MessageID"), (.rIndex, "row.MessageSeq"), (.rEpoch, "records[index].Epoch"), (.rSetting, "row.Setting"),
        (.rFromUID, "row.FromUID"), (.rClientMsgNo, "row.ClientMsgNo"), (.rTimestamp, "row.ServerTimestampMS"),
        (.rSyncOnce, "row.FramerFlags&4 != 0"), (.rPayload, "row.Payload")],
       [(.rID, "row.MessageID"), (.rIndex, "row.MessageSeq"), (.rEpoch, "entry.ChannelEpoch"), (.rSetting, "row.Setting"),
        (.rFromUID, "row.FromUID"), (.rClientMsgNo, "row.ClientMsgNo"), (.rTimestamp, "row.ServerTimestampMS"),
        (.rSyncOnce, "row.FramerFlags&4 != 0"), (.rPayload, "row.Payload")]] ∧
    entryLiteralsOutside = 0 := by decide

/-! ### VerifyEntry -/

/-- **verify iff**: exactly the structural guards and the digest comparison -/
theorem c05_verify_iff (H : Bytes → Dig) (e : Entry) (r : Rec) :
    verify H e r = true ↔ verifyGuards e r = true ∧ e.dig = digest H e r := by
  simp only [verify, Bool.and_eq_true, beq_iff_eq]
  constructor
  · rintro ⟨a, b⟩; exact ⟨a, b.symm⟩
  · rintro ⟨a, b⟩; exact ⟨a, b.symm⟩

/-- the guards force the two unhashed record fields -/
theorem c05_guards_force (e : Entry) (r : Rec) (h : verifyGuards e r = true) :
    (r.index = 0 ∨ r.index = e.index) ∧ r.epoch = e.epoch ∧ e.version = 1 ∧ r.id ≠ 0 ∧ 0 < r.ts := by
  unfold verifyGuards at h
  split at h
  · cases h
  · rename_i hc
    simp only [Bool.or_eq_true, Bool.and_eq_true, bne_iff_ne, ne_eq, beq_iff_eq, decide_eq_true_eq, not_or, not_and,
      Decidable.not_not] at hc
    obtain ⟨⟨⟨⟨⟨⟨⟨⟨⟨⟨⟨c1, _⟩, _⟩, _⟩, _⟩, _⟩, _⟩, _⟩, c9⟩, c10⟩, c11⟩, c12⟩ := hc
    refine ⟨?_, c11, c1, c9, by omega⟩
    by_cases h0 : r.index = 0
    · exact Or.inl h0
    · exact Or.inr (c10 h0)

/-- **accepting two contents under one identity is a collision** -/
theorem c05_verify_rejects_other (H : Bytes → Dig) {e : Entry} {r r' : Rec} (hw : WF e r) (hw' : WF e r')
    (h : verify H e r = true) (h' : verify H e r' = true) :
    RecSemEq r r' ∨ CollideOn H (preimage e r) (preimage e r') := by
  have a := ((c05_verify_iff H e r).mp h).2
  have b := ((c05_verify_iff H e r').mp h').2
  rcases c05_digest_binds H hw hw' (a.symm.trans b) with s | c
  · exact Or.inl ⟨s.id, s.setting, s.sync, s.ts, s.frm, s.cmn, s.payload⟩
  · exact Or.inr c

/-! ### Derive: sealed content verifies, and the chain binds the prefix -/

theorem preimage_dig (e : Entry) (d : Dig) (r : Rec) : preimage { e with dig := d } r = preimage e r :=
  c05_preimage_congr ⟨rfl, rfl, rfl, rfl, rfl, rfl, rfl, rfl, rfl, rfl, rfl, rfl, rfl, rfl, rfl⟩

/-- pointwise relation between the derived entries and their records -/
inductive All2 (P : Entry → Rec → Prop) : List Entry → List Rec → Prop
  | nil : All2 P [] []
  | cons {e r es rs} : P e r → All2 P es rs → All2 P (e :: es) (r :: rs)

theorem All2.get {P : Entry → Rec → Prop} : ∀ {es : List Entry} {rs : List Rec}, All2 P es rs →
    es.length = rs.length ∧ ∀ (i : Nat) (h : i < es.length) (h' : i < rs.length), P es[i] rs[i]
  | _, _, .nil => ⟨rfl, fun _ h => absurd h (Nat.not_lt_zero _)⟩
  | _, _, .cons p t => by
    obtain ⟨a, b⟩ := t.get
    refine ⟨by simp [a], ?_⟩
    intro i h h'
    cases i with
    | zero => exact p
    | succ i => exact b i (by simpa using h) (by simpa using h')

/-- the guards of `VerifyEntry`, introduction form -/
theorem guards_intro (e : Entry) (r : Rec)
    (hv : e.version = 1) (he : e.epoch ≠ 0) (ht : e.term ≠ 0) (hf : e.fence ≠ 0) (hi : e.index ≠ 0)
    (hc : e.cmd ≠ zero32) (hd : e.dig ≠ zero32) (hp : (e.pidx + 1) % two64 = e.index) (hid : r.id ≠ 0)
    (hri : r.index = 0 ∨ r.index = e.index) (hre : r.epoch = e.epoch) (hts : 0 < r.ts)
    (h0 : e.pidx = 0 → e.pterm = 0 ∧ e.pdig = zero32) (h1 : e.pidx ≠ 0 → e.pterm ≠ 0 ∧ e.pdig ≠ zero32) :
    verifyGuards e r = true := by
  unfold verifyGuards
  have hts' : ¬ (r.ts ≤ 0) := by omega
  have hri' : (r.index != 0 && r.index != e.index) = false := by
    rcases hri with a | a <;> simp [a]
  by_cases hpz : e.pidx = 0
  · obtain ⟨a, b⟩ := h0 hpz
    have hp2 : 1 % two64 = e.index := by simpa [hpz] using hp
    simp [hv, he, ht, hf, hi, hc, hd, hp2, hid, hri', hre, hts', hpz, a, b]
  · obtain ⟨a, b⟩ := h1 hpz
    simp [hv, he, ht, hf, hi, hc, hd, hp, hid, hri', hre, hts', hpz, a, b]

/-- header facts `DeriveProposalEntries` checks once -/
structure HdrOK (m : Manifest) : Prop where
  epoch : m.epoch ≠ 0
  term : m.term ≠ 0
  fence : m.fence ≠ 0
  cmd : m.cmd ≠ zero32

theorem chain_verify (H : Bytes → Dig) (hnz : ∀ x, H x ≠ zero32) (m : Manifest) (hm : HdrOK m) :
    ∀ (recs : List Rec) (index pt pi : Nat) (pd : Dig) (es : List Entry),
      chain H m index pt pi pd recs = some es →
      index = pi + 1 → index + recs.length ≤ 18446744073709551616 →
      (pi = 0 → pt = 0 ∧ pd = zero32) → (pi ≠ 0 → pt ≠ 0 ∧ pd ≠ zero32) →
      All2 (fun e r => verify H e r = true) es recs := by
  intro recs
  induction recs with
  | nil =>
    intro index pt pi pd es h _ _ _ _
    simp only [chain, Option.some.injEq] at h
    subst h; exact All2.nil
  | cons r rs ih =>
    intro index pt pi pd es h hidx hlen h0 h1
    simp only [chain] at h
    split at h
    · rename_i hrec
      split at h
      · rename_i es' hch
        simp only [Option.some.injEq] at h
        subst h
        refine All2.cons ?_ ?_
        · -- the head entry verifies
          rw [c05_verify_iff]
          simp only [recordOK, Bool.not_eq_true', Bool.or_eq_false_iff, Bool.and_eq_false_iff, beq_eq_false_iff_ne,
            bne_eq_false_iff_eq, ne_eq, decide_eq_false_iff_not, Int.not_le] at hrec
          obtain ⟨⟨⟨r1, r2⟩, r3⟩, r4⟩ := hrec
          have hlen' : index < 18446744073709551616 := by simp at hlen; omega
          have hmod : (pi + 1) % two64 = index := by
            unfold two64; omega
          have hi0 : index ≠ 0 := by omega
          constructor
          · exact guards_intro _ r rfl hm.epoch hm.term hm.fence hi0 hm.cmd (hnz _) hmod r1 r2 r3 (by omega) h0 h1
          · simp only [digest]
            congr 1
        · -- the tail, with this entry as predecessor
          refine ih (index + 1) m.term index _ es' hch rfl (by simp at hlen ⊢; omega) (fun h => ?_) (fun _ => ?_)
          · omega
          · exact ⟨hm.term, hnz _⟩
      · cases h
    · cases h

/-- **sealed content verifies**: every entry `DeriveProposalEntries` produces is accepted by
    `VerifyEntry` together with the record it was derived from (given the hash never outputs the
    all-zero digest, which `VerifyEntry` rejects). -/
theorem c05_verify_sealed (H : Bytes → Dig) (hnz : ∀ x, H x ≠ zero32) (m : Manifest) (recs : List Rec)
    (es : List Entry) (h : derive H m recs = some es) :
    All2 (fun e r => verify H e r = true) es recs := by
  unfold derive at h
  split at h
  · rename_i hg
    unfold deriveGuards at hg
    split at hg
    · cases hg
    · rename_i hc
      simp only [Bool.or_eq_true, bne_iff_ne, ne_eq, beq_iff_eq, decide_eq_true_eq, not_or, Decidable.not_not,
        Nat.not_lt] at hc
      obtain ⟨⟨⟨⟨⟨⟨⟨⟨c1, c2⟩, _⟩, c4⟩, c5⟩, c6⟩, c7⟩, _⟩, c9⟩ := hc
      have hm : HdrOK m := ⟨c4, c5, c6, c7⟩
      unfold two64 at c2
      refine chain_verify H hnz m hm recs (m.base + 1) m.pterm m.pidx m.pdig es h (by rw [c9]) (by omega) ?_ ?_
      · intro hp
        rw [c9] at hp
        simp only [hp, beq_self_eq_true, ↓reduceIte] at hg
        split at hg
        · cases hg
        · rename_i hq
          simp only [Bool.or_eq_true, bne_iff_ne, ne_eq, not_or, Decidable.not_not] at hq
          exact hq
      · intro hp
        rw [c9] at hp
        have : (m.base == 0) = false := by simp [hp]
        simp only [this, Bool.false_eq_true, ↓reduceIte] at hg
        split at hg
        · cases hg
        · rename_i hq
          simp only [Bool.or_eq_true, beq_iff_eq, not_or] at hq
          exact hq
  · cases h

/-- **verification is exact on sealed content**: whatever `VerifyEntry` accepts under a sealed
    identity is the sealed record's seven message fields — or a collision. -/
theorem c05_verify_exact (H : Bytes → Dig) {e : Entry} {r r' : Rec} (hw : WF e r) (hw' : WF e r')
    (hsealed : verify H e r = true) :
    verify H e r' = true → (RecSemEq r r' ∧ (r'.index = 0 ∨ r'.index = e.index) ∧ r'.epoch = e.epoch) ∨
      CollideOn H (preimage e r) (preimage e r') := by
  intro h'
  rcases c05_verify_rejects_other H hw hw' hsealed h' with s | c
  · have g := c05_guards_force e r' ((c05_verify_iff H e r').mp h').1
    exact Or.inl ⟨s, g.1, g.2.1⟩
  · exact Or.inr c

/-- what `chain` produces is linked: each entry's predecessor fields are the previous entry's
    (term, index, digest), indices are consecutive, the header is the manifest's. -/
def Linked (m : Manifest) : Nat → Nat → Nat → Dig → List Entry → Prop
  | _, _, _, _, [] => True
  | index, pt, pi, pd, e :: es =>
    e.version = 1 ∧ e.epoch = m.epoch ∧ e.term = m.term ∧ e.fence = m.fence ∧ e.cmd = m.cmd ∧
    e.index = index ∧ e.pterm = pt ∧ e.pidx = pi ∧ e.pdig = pd ∧ Linked m (index + 1) e.term e.index e.dig es

/-- **chain**: `DeriveProposalEntries` threads (term, index, digest) of each entry into the next -/
theorem c05_chain (H : Bytes → Dig) (m : Manifest) :
    ∀ (recs : List Rec) (index pt pi : Nat) (pd : Dig) (es : List Entry),
      chain H m index pt pi pd recs = some es →
      Linked m index pt pi pd es ∧ es.length = recs.length := by
  intro recs
  induction recs with
  | nil =>
    intro index pt pi pd es h
    simp only [chain, Option.some.injEq] at h
    subst h; exact ⟨trivial, rfl⟩
  | cons r rs ih =>
    intro index pt pi pd es h
    simp only [chain] at h
    split at h
    · split at h
      · rename_i es' hch
        simp only [Option.some.injEq] at h
        subst h
        obtain ⟨a, b⟩ := ih _ _ _ _ _ hch
        exact ⟨⟨rfl, rfl, rfl, rfl, rfl, rfl, rfl, rfl, rfl, a⟩, by simp [b]⟩
      · cases h
    · cases h

/-! ### the tail digest binds the whole proposal -/

/-- field domains of a manifest header -/
structure MWF (m : Manifest) : Prop where
  epoch : m.epoch < 18446744073709551616
  term : m.term < 18446744073709551616
  fence : m.fence < 18446744073709551616
  cmd : m.cmd.length = 32

/-- field domains of a record -/
structure RWF (r : Rec) : Prop where
  id : r.id < 18446744073709551616
  setting : r.setting < 256
  tsLo : -9223372036854775808 ≤ r.ts
  tsHi : r.ts < 9223372036854775808
  frm : r.frm.length < 18446744073709551616
  cmn : r.cmn.length < 18446744073709551616
  payload : r.payload.length < 18446744073709551616

inductive AllR (P : Rec → Rec → Prop) : List Rec → List Rec → Prop
  | nil : AllR P [] []
  | cons {r r' rs rs'} : P r r' → AllR P rs rs' → AllR P (r :: rs) (r' :: rs')

/-- the entry `chain` builds before hashing -/
def mkEntry (m : Manifest) (index pt pi : Nat) (pd : Dig) : Entry :=
  { version := 1, epoch := m.epoch, term := m.term, fence := m.fence, index := index,
    pterm := pt, pidx := pi, cmd := m.cmd, pdig := pd, dig := [] }

/-- a collision between the preimages of an entry of one derivation and an entry of the other -/
def ChainCollision (H : Bytes → Dig) (es : List Entry) (recs : List Rec) (es' : List Entry) (recs' : List Rec) : Prop :=
  ∃ e r e' r', (e, r) ∈ es.zip recs ∧ (e', r') ∈ es'.zip recs' ∧ CollideOn H (preimage e r) (preimage e' r')

theorem ChainCollision.cons {H : Bytes → Dig} {es : List Entry} {recs : List Rec} {es' : List Entry} {recs' : List Rec}
    (h : ChainCollision H es recs es' recs') (e : Entry) (r : Rec) (e' : Entry) (r' : Rec) :
    ChainCollision H (e :: es) (r :: recs) (e' :: es') (r' :: recs') := by
  obtain ⟨a, b, c, d, h1, h2, h3⟩ := h
  exact ⟨a, b, c, d, by simp [h1], by simp [h2], h3⟩

def lastDig (es : List Entry) : Option Dig := es.getLast?.map (·.dig)

theorem lastDig_cons (e : Entry) (e2 : Entry) (es : List Entry) : lastDig (e :: e2 :: es) = lastDig (e2 :: es) := by
  simp [lastDig, List.getLast?_cons_cons]

/-- **the tail digest binds the whole proposal**: two derivations of equal length whose LAST entry
    digests agree have the same header, the same start position and predecessor, and pointwise the
    same seven message fields — unless the hash collides. -/
theorem c05_chain_binds (H : Bytes → Dig) (hlen : ∀ x, (H x).length = 32)
    (m m' : Manifest) (hm : MWF m) (hm' : MWF m') :
    ∀ (recs recs' : List Rec), recs.length = recs'.length → recs ≠ [] →
    ∀ (index pt pi : Nat) (pd : Dig) (index' pt' pi' : Nat) (pd' : Dig) (es es' : List Entry),
      chain H m index pt pi pd recs = some es → chain H m' index' pt' pi' pd' recs' = some es' →
      (∀ r ∈ recs, RWF r) → (∀ r ∈ recs', RWF r) →
      index + recs.length ≤ 18446744073709551616 → index' + recs'.length ≤ 18446744073709551616 →
      pt < 18446744073709551616 → pi < 18446744073709551616 → pd.length = 32 →
      pt' < 18446744073709551616 → pi' < 18446744073709551616 → pd'.length = 32 →
      lastDig es = lastDig es' →
      ((m.epoch = m'.epoch ∧ m.term = m'.term ∧ m.fence = m'.fence ∧ m.cmd = m'.cmd) ∧
        index = index' ∧ pt = pt' ∧ pi = pi' ∧ pd = pd' ∧ AllR RecSemEq recs recs') ∨
      ChainCollision H es recs es' recs' := by
  intro recs
  induction recs with
  | nil => intro recs' _ hne; exact absurd rfl hne
  | cons r rs ih =>
    intro recs' hl _ index pt pi pd index' pt' pi' pd' es es' hc hc' hr hr' hb hb' h1 h2 h3 h1' h2' h3' hlast
    cases recs' with
    | nil => simp at hl
    | cons r' rs' =>
      simp only [chain] at hc hc'
      split at hc
      · split at hc
        · rename_i tl htl
          split at hc'
          · split at hc'
            · rename_i tl' htl'
              simp only [Option.some.injEq] at hc hc'
              subst hc; subst hc'
              simp only [List.length_cons] at hl hb hb'
              have wf : WF (mkEntry m index pt pi pd) r := by
                have q := hr r (by simp)
                exact ⟨hm.epoch, hm.term, hm.fence, (by show index < 18446744073709551616; omega), h1, h2, hm.cmd, h3, q.id, q.setting, q.tsLo, q.tsHi, q.frm, q.cmn, q.payload⟩
              have wf' : WF (mkEntry m' index' pt' pi' pd') r' := by
                have q := hr' r' (by simp)
                exact ⟨hm'.epoch, hm'.term, hm'.fence, (by show index' < 18446744073709551616; omega), h1', h2', hm'.cmd, h3', q.id, q.setting, q.tsLo, q.tsHi, q.frm, q.cmn, q.payload⟩
              -- from equal digests of the two head entries: all hashed fields agree
              have head : ∀ (hd : digest H (mkEntry m index pt pi pd) r = digest H (mkEntry m' index' pt' pi' pd') r'),
                  ((m.epoch = m'.epoch ∧ m.term = m'.term ∧ m.fence = m'.fence ∧ m.cmd = m'.cmd) ∧
                  index = index' ∧ pt = pt' ∧ pi = pi' ∧ pd = pd' ∧ RecSemEq r r') ∨
                  CollideOn H (preimage (mkEntry m index pt pi pd) r) (preimage (mkEntry m' index' pt' pi' pd') r') := by
                intro hd
                by_cases hp : preimage (mkEntry m index pt pi pd) r = preimage (mkEntry m' index' pt' pi' pd') r'
                · have s := c05_preimage_injective wf wf' hp
                  exact Or.inl ⟨⟨s.epoch, s.term, s.fence, s.cmd⟩, s.index, s.pterm, s.pidx, s.pdig,
                    ⟨s.id, s.setting, s.sync, s.ts, s.frm, s.cmn, s.payload⟩⟩
                · exact Or.inr ⟨hp, hd⟩
              -- a collision of the two head entries is a collision of the chains
              have lift : ∀ {tl tl' : List Entry} {rs rs' : List Rec},
                  CollideOn H (preimage (mkEntry m index pt pi pd) r) (preimage (mkEntry m' index' pt' pi' pd') r') →
                  ChainCollision H ({ mkEntry m index pt pi pd with dig := digest H (mkEntry m index pt pi pd) r } :: tl) (r :: rs)
                    ({ mkEntry m' index' pt' pi' pd' with dig := digest H (mkEntry m' index' pt' pi' pd') r' } :: tl') (r' :: rs') := by
                intro tl tl' rs rs' hc
                refine ⟨{ mkEntry m index pt pi pd with dig := digest H (mkEntry m index pt pi pd) r }, r,
                  { mkEntry m' index' pt' pi' pd' with dig := digest H (mkEntry m' index' pt' pi' pd') r' }, r',
                  by simp, by simp, ?_⟩
                rw [preimage_dig, preimage_dig]; exact hc
              cases rs with
              | nil =>
                cases rs' with
                | cons _ _ => simp at hl
                | nil =>
                  simp only [chain, Option.some.injEq] at htl htl'
                  subst htl; subst htl'
                  simp only [lastDig, List.getLast?_singleton, Option.map_some, Option.some.injEq] at hlast
                  rcases head hlast with ⟨a, b, c, d, e, f⟩ | hcol
                  · exact Or.inl ⟨a, b, c, d, e, AllR.cons f AllR.nil⟩
                  · exact Or.inr (lift hcol)
              | cons r2 rs2 =>
                cases rs' with
                | nil => simp at hl
                | cons r2' rs2' =>
                  -- tails are non-empty, so the last digests are those of the tails
                  have tlne : ∃ x xs, tl = x :: xs := by
                    have := (c05_chain H m _ _ _ _ _ _ htl).2
                    cases tl with
                    | nil => simp at this
                    | cons x xs => exact ⟨x, xs, rfl⟩
                  have tlne' : ∃ x xs, tl' = x :: xs := by
                    have := (c05_chain H m' _ _ _ _ _ _ htl').2
                    cases tl' with
                    | nil => simp at this
                    | cons x xs => exact ⟨x, xs, rfl⟩
                  obtain ⟨x, xs, rfl⟩ := tlne
                  obtain ⟨x', xs', rfl⟩ := tlne'
                  rw [lastDig_cons, lastDig_cons] at hlast
                  have ihh := ih (r2' :: rs2') (by simpa using hl) (by simp) _ _ _ _ _ _ _ _ _ _ htl htl'
                    (fun q hq => hr q (List.mem_cons_of_mem _ hq)) (fun q hq => hr' q (List.mem_cons_of_mem _ hq))
                    (by simp only [List.length_cons] at hb ⊢; omega) (by simp only [List.length_cons] at hb' ⊢; omega)
                    hm.term (by omega) (hlen _) hm'.term (by omega) (hlen _) hlast
                  rcases ihh with ⟨_, _, _, _, hdig, htail⟩ | hcol
                  · rcases head hdig with ⟨a, b, c, d, e, f⟩ | hcol
                    · exact Or.inl ⟨a, b, c, d, e, AllR.cons f htail⟩
                    · exact Or.inr (lift hcol)
                  · exact Or.inr (hcol.cons _ _ _ _)
            · cases hc'
          · cases hc'
        · cases hc
      · cases hc

/-! ### non-vacuity -/

def exEntry : Entry :=
  { version := 1, epoch := 7, term := 3, fence := 2, index := 1, pterm := 0, pidx := 0,
    cmd := List.replicate 32 9, pdig := zero32, dig := List.replicate 32 5 }
def exRec : Rec :=
  { id := 42, index := 0, epoch := 7, setting := 1, frm := [97], cmn := [98, 99], ts := 1700000000000, sync := false, payload := [1, 2, 3] }
def exMan : Manifest :=
  { version := 1, epoch := 7, term := 3, fence := 2, cmd := List.replicate 32 9, base := 0, last := 1, pterm := 0, pidx := 0,
    pdig := zero32, dig := [] }
/-- a toy "hash" with 32-byte non-zero outputs, to exhibit the hypotheses -/
def exH (x : Bytes) : Dig := List.replicate 31 1 ++ [UInt8.ofNat x.length]

theorem exWF : WF exEntry exRec := by
  constructor <;> simp [exEntry, exRec, zero32]

example : WF exEntry exRec := exWF
-- c05_single_field / c05_single_field_digest: a pair differing in exactly one semantic field exists
example : ¬ ValEq exEntry exRec exEntry { exRec with payload := [1, 2, 4] } .rPayload := by
  simp [ValEq, bytesOf, exRec]
example : preimage exEntry exRec ≠ preimage exEntry { exRec with payload := [1, 2, 4] } :=
  c05_single_field exWF (by constructor <;> simp [exEntry, exRec, zero32]) .rPayload (by decide)
    (by simp [ValEq, bytesOf, exRec])
-- the length prefix at work: moving a byte across the from|cmn boundary changes the preimage
example : preimage exEntry exRec ≠ preimage exEntry { exRec with frm := [97, 98], cmn := [99] } :=
  c05_single_field exWF (by constructor <;> simp [exEntry, exRec, zero32]) .rFromUID (by decide)
    (by simp [ValEq, bytesOf, exRec])
-- c05_preimage_injective / c05_preimage_congr / c05_digest_binds: equal preimages exist (unhashed fields differ)
example : preimage exEntry exRec = preimage { exEntry with version := 9 } { exRec with index := 1 } :=
  c05_preimage_congr ⟨rfl, rfl, rfl, rfl, rfl, rfl, rfl, rfl, rfl, rfl, rfl, rfl, rfl, rfl, rfl⟩
-- c05_layout_injective / c05_extracted_layout_ok
-- a reordered (still admissible) layout is injective too: the theorem does not depend on the order
example : LayoutOK digestItems.reverse := by
  refine ⟨fun it h => items_ok it (List.mem_reverse.mp h), fun f hf => ?_⟩
  obtain ⟨it, h1, h2⟩ := items_cover f hf
  exact ⟨it, List.mem_reverse.mpr h1, h2⟩
-- a layout that drops a field, or the length prefix of a byte string, is NOT admissible
example : ¬ LayoutOK (digestItems.filter (· ≠ .u64 .eFence)) := by
  intro h; obtain ⟨it, h1, h2⟩ := h.2 .eFence (by decide); revert it; decide
example : ¬ LayoutOK (digestItems.map (fun it => if it = .lenBytes .rFromUID then .arr32 .rFromUID else it)) := by
  intro h; have := h.1 (.arr32 .rFromUID) (by decide); revert this; decide
-- c05_verify_iff / c05_guards_force: the guards are satisfiable
example : verifyGuards exEntry exRec = true := by decide
-- c05_verify_sealed / c05_chain / c05_verify_exact: derive succeeds on the example and its entry verifies
example : (derive exH exMan [exRec]).isSome = true := by decide
theorem exH_nz : ∀ x, exH x ≠ zero32 := by
  intro x h
  have := congrArg (fun l => l.head?) h
  simp [exH, zero32, List.replicate] at this
example : ∃ es, derive exH exMan [exRec] = some es ∧ All2 (fun e r => verify exH e r = true) es [exRec] := by
  have h : (derive exH exMan [exRec]).isSome = true := by decide
  obtain ⟨es, hes⟩ := Option.isSome_iff_exists.mp h
  exact ⟨es, hes, c05_verify_sealed exH exH_nz exMan [exRec] es hes⟩
-- c05_chain_binds: its hypotheses are met by the example derivation (against itself)
theorem exH_len : ∀ x, (exH x).length = 32 := by intro x; simp [exH]
example : ∃ es, chain exH exMan 1 0 0 zero32 [exRec] = some es ∧
    (((exMan.epoch = exMan.epoch ∧ exMan.term = exMan.term ∧ exMan.fence = exMan.fence ∧ exMan.cmd = exMan.cmd) ∧
      1 = 1 ∧ 0 = 0 ∧ 0 = 0 ∧ zero32 = zero32 ∧ AllR RecSemEq [exRec] [exRec]) ∨ ChainCollision exH es [exRec] es [exRec]) := by
  have h : (chain exH exMan 1 0 0 zero32 [exRec]).isSome = true := by decide
  obtain ⟨es, hes⟩ := Option.isSome_iff_exists.mp h
  have rw : ∀ r ∈ [exRec], RWF r := by
    intro r hr; simp at hr; subst hr; constructor <;> simp [exRec]
  exact ⟨es, hes, c05_chain_binds exH exH_len exMan exMan (by constructor <;> simp [exMan]) (by constructor <;> simp [exMan])
    [exRec] [exRec] rfl (by simp) 1 0 0 zero32 1 0 0 zero32 es es hes hes rw rw (by simp) (by simp)
    (by omega) (by omega) (by simp [zero32]) (by omega) (by omega) (by simp [zero32]) rfl⟩
-- c05_verify_rejects_other: a hash WITH collisions really lets a different record through (the escape is needed)
example : verify (fun _ => List.replicate 32 5) exEntry exRec = true ∧
    verify (fun _ => List.replicate 32 5) exEntry { exRec with payload := [] } = true := by decide

/-! ### the judge's clauses as model theorems -/

/-- the judge's comparable tuple is exactly semantic equality -/
theorem semOf_eq_iff (e : Entry) (r : Rec) (e' : Entry) (r' : Rec) : semOf e r = semOf e' r' ↔ SemEq e r e' r' := by
  constructor
  · intro h
    simp only [semOf, Sem.mk.injEq] at h
    obtain ⟨a1, a2, a3, a4, a5, a6, a7, a8, a9, a10, a11, a12, a13, a14, a15⟩ := h
    exact ⟨a1, a2, a3, a4, a5, a6, a7, a8, a9, a10, a11, a12, a13, a14, a15⟩
  · intro h
    obtain ⟨a1, a2, a3, a4, a5, a6, a7, a8, a9, a10, a11, a12, a13, a14, a15⟩ := h
    simp only [semOf, Sem.mk.injEq]
    exact ⟨a1, a2, a3, a4, a5, a6, a7, a8, a9, a10, a11, a12, a13, a14, a15⟩

/-- judge clauses `viol:equal-digest-different-content` / `viol:same-content-different-digest` as model
    theorems: over the digest table of a history, equal digests of different tuples are an explicit
    collision, and equal tuples always have equal digests -/
theorem c05_judge_digest_table (H : Bytes → Dig) {e : Entry} {r : Rec} {e' : Entry} {r' : Rec}
    (hw : WF e r) (hw' : WF e' r') :
    (digest H e r = digest H e' r' → semOf e r ≠ semOf e' r' → CollideOn H (preimage e r) (preimage e' r')) ∧
    (semOf e r = semOf e' r' → digest H e r = digest H e' r') := by
  constructor
  · intro hd hne
    rcases c05_digest_binds H hw hw' hd with s | c
    · exact absurd ((semOf_eq_iff e r e' r').mpr s) hne
    · exact c
  · intro hs
    simp only [digest]
    rw [c05_preimage_congr ((semOf_eq_iff e r e' r').mp hs)]

/-- the guards look at the record only through id, index-vs-entry, epoch and timestamp -/
theorem guards_same_content {e : Entry} {r r' : Rec} (hg : verifyGuards e r = true)
    (hid : r'.id = r.id) (hts : r'.ts = r.ts) (hix : r'.index = 0 ∨ r'.index = e.index) (hep : r'.epoch = e.epoch) :
    verifyGuards e r' = true := by
  have f := c05_guards_force e r hg
  have i1 : (r.index != 0 && r.index != e.index) = false := by
    rcases f.1 with a | a <;> simp [a]
  have i2 : (r'.index != 0 && r'.index != e.index) = false := by
    rcases hix with a | a <;> simp [a]
  have e1 : (r.epoch != e.epoch) = false := by simp [f.2.1]
  have e2 : (r'.epoch != e.epoch) = false := by simp [hep]
  unfold verifyGuards at hg ⊢
  rw [i1, e1] at hg
  rw [i2, e2, hid, hts]
  exact hg

/-- judge clause `viol:sealed-content-rejected` as a model theorem: whatever the judge calls
    "the sealed content" (`sameSealedContent`, same identity) is accepted by verify -/
theorem c05_accepts_same_content (H : Bytes → Dig) {e : Entry} {r r' : Rec}
    (hv : verify H e r = true) (hs : sameSealedContent e r e r' = true) : verify H e r' = true := by
  simp only [sameSealedContent, Bool.and_eq_true, decide_eq_true_eq, Bool.or_eq_true, beq_iff_eq] at hs
  obtain ⟨⟨⟨_, hsem⟩, hix⟩, hep⟩ := hs
  have s := (semOf_eq_iff e r e r').mp hsem
  obtain ⟨hg, hd⟩ := (c05_verify_iff H e r).mp hv
  rw [c05_verify_iff]
  refine ⟨guards_same_content hg s.id.symm s.ts.symm hix hep, ?_⟩
  rw [hd]; simp only [digest]; rw [c05_preimage_congr s]

/-- judge clauses `viol:perturbed-content-accepted` + `viol:sealed-content-rejected` together: under a
    sealed identity verify accepts EXACTLY the judge's `sameSealedContent` — or the two preimages collide -/
theorem c05_judge_exact (H : Bytes → Dig) {e : Entry} {r r' : Rec} (hw : WF e r) (hw' : WF e r')
    (hv : verify H e r = true) :
    (verify H e r' = true ↔ sameSealedContent e r e r' = true) ∨ CollideOn H (preimage e r) (preimage e r') := by
  by_cases hc : CollideOn H (preimage e r) (preimage e r')
  · exact Or.inr hc
  · refine Or.inl ⟨fun h' => ?_, c05_accepts_same_content H hv⟩
    rcases c05_verify_exact H hw hw' hv h' with ⟨s, hix, hep⟩ | c
    · have hsem : SemEq e r e r' := ⟨rfl, rfl, rfl, rfl, rfl, rfl, rfl, rfl, s.id, s.setting, s.sync, s.ts, s.frm, s.cmn, s.payload⟩
      simp only [sameSealedContent, Bool.and_eq_true, decide_eq_true_eq, Bool.or_eq_true, beq_iff_eq]
      exact ⟨⟨⟨trivial, (semOf_eq_iff e r e r').mpr hsem⟩, hix⟩, hep⟩
    · exact absurd c hc

-- non-vacuity: a no-op perturbation (record index written explicitly) is "the sealed content" and is accepted
example : sameSealedContent exEntry exRec exEntry { exRec with index := 1 } = true := by decide
example : verify (fun _ => List.replicate 32 5) exEntry { exRec with index := 1 } = true :=
  c05_accepts_same_content (r := exRec) _ (by decide) (by decide)
example : semOf exEntry exRec = semOf { exEntry with version := 9 } { exRec with index := 1 } := by decide
example : semOf exEntry exRec ≠ semOf exEntry { exRec with payload := [] } := by decide
-- c05_judge_exact: its hypotheses hold for the example identity; a changed payload is not the sealed content
example : sameSealedContent exEntry exRec exEntry { exRec with payload := [] } = false := by decide

end WK.C05

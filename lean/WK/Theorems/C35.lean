import WK.Spec.C35
import WK.Proofs.C35_Split
import WK.Gen.C35
/-
  C35 — Person and command channel ids are canonical.

  All theorems are about `WK.C35.encodePerson / decodePerson / normalizePerson /
  isCmd / toCmd / fromCmd`, the very definitions `Driver/C35.lean` executes
  against pkg/protocol/channelid on every run.  Quantifier: ALL byte strings
  (equal UIDs, CRC collisions, separator/suffix inside, empty, non-UTF-8).
  `crc` is never unfolded: the statements hold for any hash function.
-/
namespace WK.C35

/-- `ValidUID` — non-empty and separator-free (what `internal/usecase/user` admits) -/
def ValidUID (a : Bytes) : Prop := a ≠ [] ∧ sep ∉ a

instance (a : Bytes) : Decidable (ValidUID a) := by unfold ValidUID; infer_instance

theorem validUID_iff (a : Bytes) : validUID a = true ↔ ValidUID a := by
  simp [validUID, ValidUID]

/-- encode returns one of the two joins -/
theorem encode_cases (a b : Bytes) : encodePerson a b = join a b ∨ encodePerson a b = join b a := by
  unfold encodePerson
  simp only
  split
  · left; rfl
  · split
    · left; rfl
    · right; rfl

/-- **The person-channel id is the same whichever user sends** — all byte strings,
    including equal UIDs and CRC-32 collisions (the byte-wise tie-break is total). -/
theorem c35_symmetric (a b : Bytes) : encodePerson a b = encodePerson b a := by
  unfold encodePerson
  simp only
  rcases Nat.lt_trichotomy (crc a) (crc b) with h | h | h
  · have h1 : ¬ crc a > crc b := by omega
    have h2 : ¬ crc a = crc b := by omega
    have h3 : crc b > crc a := h
    simp [h1, h2, h3]
  · rcases bytesLt_total a b with hab | hab | hab
    · subst hab; rfl
    · have := bytesLt_asymm a b hab
      simp [h, hab, this]
    · have := bytesLt_asymm b a hab
      simp [h, hab, this]
  · have h1 : ¬ crc b > crc a := by omega
    have h2 : ¬ crc b = crc a := by omega
    have h3 : crc a > crc b := h
    simp [h1, h2, h3]

example : encodePerson [1, 2] [1, 2] = encodePerson [1, 2] [1, 2] := c35_symmetric _ _

/-- **Decoding the canonical id yields the two users** (for UIDs the user
    use-case admits): the result is the ordered pair encode chose. -/
theorem c35_decode_encode (a b : Bytes) (ha : ValidUID a) (hb : ValidUID b) :
    (encodePerson a b = join a b ∧ decodePerson (encodePerson a b) = some (a, b)) ∨
    (encodePerson a b = join b a ∧ decodePerson (encodePerson a b) = some (b, a)) := by
  rcases encode_cases a b with h | h
  · left; refine ⟨h, ?_⟩; rw [h]
    exact (decodePerson_some _ _ _).mpr ⟨rfl, ha.2, hb.2, ha.1, hb.1⟩
  · right; refine ⟨h, ?_⟩; rw [h]
    exact (decodePerson_some _ _ _).mpr ⟨rfl, hb.2, ha.2, hb.1, ha.1⟩

example : ValidUID [0x61] ∧ ValidUID [0x62] := by decide

/-- **Fail closed** (DESIGN §8.5): whenever decoding an encoded id succeeds at all,
    both UIDs were valid and the pair is exactly the two users.  Hence for a UID
    that is empty or contains `'@'` decode returns the error, never a wrong pair. -/
theorem c35_at_fails_closed (a b x y : Bytes) (h : decodePerson (encodePerson a b) = some (x, y)) :
    ValidUID a ∧ ValidUID b ∧ ((x = a ∧ y = b) ∨ (x = b ∧ y = a)) := by
  obtain ⟨hj, hx, hy, hxe, hye⟩ := (decodePerson_some _ _ _).mp h
  rcases encode_cases a b with he | he
  · rw [he] at hj
    obtain ⟨rfl, rfl⟩ := join_inj a b x y hx hy hj
    exact ⟨⟨hxe, hx⟩, ⟨hye, hy⟩, Or.inl ⟨rfl, rfl⟩⟩
  · rw [he] at hj
    obtain ⟨rfl, rfl⟩ := join_inj b a x y hx hy hj
    exact ⟨⟨hye, hy⟩, ⟨hxe, hx⟩, Or.inr ⟨rfl, rfl⟩⟩

theorem c35_invalid_uid_rejected (a b : Bytes) (h : ¬ (ValidUID a ∧ ValidUID b)) :
    decodePerson (encodePerson a b) = none := by
  cases hd : decodePerson (encodePerson a b) with
  | none => rfl
  | some p =>
    obtain ⟨x, y⟩ := p
    have := c35_at_fails_closed a b x y hd
    exact absurd ⟨this.1, this.2.1⟩ h

example : decodePerson (encodePerson [0x61, 0x40, 0x62] [0x63]) = none :=
  c35_invalid_uid_rejected _ _ (by decide)

/-- **Canonical = injective on unordered pairs**: two valid pairs with the same id
    are the same two users. -/
theorem c35_canonical_inj (a b c d : Bytes) (ha : ValidUID a) (hb : ValidUID b)
    (h : encodePerson a b = encodePerson c d) : (a = c ∧ b = d) ∨ (a = d ∧ b = c) := by
  rcases c35_decode_encode a b ha hb with ⟨_, h1⟩ | ⟨_, h1⟩
  · rw [h] at h1
    obtain ⟨_, _, h3⟩ := c35_at_fails_closed c d a b h1
    rcases h3 with ⟨rfl, rfl⟩ | ⟨rfl, rfl⟩
    · left; exact ⟨rfl, rfl⟩
    · right; exact ⟨rfl, rfl⟩
  · rw [h] at h1
    obtain ⟨_, _, h3⟩ := c35_at_fails_closed c d b a h1
    rcases h3 with ⟨rfl, rfl⟩ | ⟨rfl, rfl⟩
    · right; exact ⟨rfl, rfl⟩
    · left; exact ⟨rfl, rfl⟩

example : encodePerson [0x61] [0x62] = encodePerson [0x62] [0x61] := c35_symmetric _ _

theorem contains_sep_join (a b : Bytes) : (join a b).contains sep = true := by
  simp [join]

/-- **Normalizing an already canonical id changes nothing**, for either member as sender. -/
theorem c35_normalize_idem (a b s : Bytes) (ha : ValidUID a) (hb : ValidUID b) (hs : s = a ∨ s = b) :
    normalizePerson s (encodePerson a b) = some (encodePerson a b) := by
  have hsne : s ≠ [] := by rcases hs with rfl | rfl; exact ha.1; exact hb.1
  have hene : encodePerson a b ≠ [] := by
    rcases encode_cases a b with h | h <;> rw [h] <;> simp [join]
  have hcont : (encodePerson a b).contains sep = true := by
    rcases encode_cases a b with h | h <;> rw [h] <;> exact contains_sep_join _ _
  have h1e : s.isEmpty = false := by
    cases s with
    | nil => exact absurd rfl hsne
    | cons _ _ => rfl
  have h2e : (encodePerson a b).isEmpty = false := by
    generalize encodePerson a b = e at hene
    cases e with
    | nil => exact absurd rfl hene
    | cons _ _ => rfl
  unfold normalizePerson
  simp only [h1e, h2e, Bool.or_self, Bool.false_eq_true, if_false, hcont, Bool.not_true]
  rcases c35_decode_encode a b ha hb with ⟨_, h1⟩ | ⟨_, h1⟩
  · rw [h1]
    rcases hs with rfl | rfl <;> simp
  · rw [h1]
    simp only
    rw [c35_symmetric b a]
    rcases hs with rfl | rfl <;> simp

example : normalizePerson [0x61] (encodePerson [0x61] [0x62]) = some (encodePerson [0x61] [0x62]) :=
  c35_normalize_idem _ _ _ (by decide) (by decide) (Or.inl rfl)

/-- What a successful normalize means: either the raw peer form (`c` has no
    separator) or `c = l@r` with valid sides and the sender one of them; the
    result is the canonical id of that pair. -/
theorem normalize_some (s c c' : Bytes) (h : normalizePerson s c = some c') :
    s ≠ [] ∧ c ≠ [] ∧
    ((sep ∉ c ∧ c' = encodePerson s c) ∨
     (∃ l r, c = join l r ∧ ValidUID l ∧ ValidUID r ∧ (s = l ∨ s = r) ∧ c' = encodePerson l r)) := by
  unfold normalizePerson at h
  split at h
  · exact absurd h (by simp)
  · rename_i hemp
    simp only [Bool.or_eq_true, List.isEmpty_iff, not_or] at hemp
    refine ⟨hemp.1, hemp.2, ?_⟩
    split at h
    · rename_i hc
      left
      simp only [Bool.not_eq_true', List.contains_eq_mem, decide_eq_false_iff_not] at hc
      exact ⟨hc, by simpa using h.symm⟩
    · right
      split at h
      · exact absurd h (by simp)
      · rename_i l r hd
        obtain ⟨hj, hl, hr, hle, hre⟩ := (decodePerson_some _ _ _).mp hd
        split at h
        · exact absurd h (by simp)
        · rename_i hmem
          simp only [Bool.and_eq_true, bne_iff_ne, ne_eq, not_and, Decidable.not_not] at hmem
          refine ⟨l, r, hj, ⟨hle, hl⟩, ⟨hre, hr⟩, ?_, by simpa using h.symm⟩
          by_cases hls : l = s
          · left; exact hls.symm
          · right; exact (hmem hls).symm

/-- **A sender can only address a person channel that contains them**: every id
    normalize returns is `encode sender other` for some `other` (so it is
    `sender@other` or `other@sender`), and when the sender is a valid UID it
    decodes to a pair containing the sender. -/
theorem c35_sender_must_be_member (s c c' : Bytes) (h : normalizePerson s c = some c') :
    (∃ o, c' = encodePerson s o ∧ (c' = join s o ∨ c' = join o s)) ∧
    (sep ∉ s → ∃ x y, decodePerson c' = some (x, y) ∧ (s = x ∨ s = y)) := by
  obtain ⟨hs, hc, hcase⟩ := normalize_some s c c' h
  have key : ∃ o, ValidUID o ∧ c' = encodePerson s o := by
    rcases hcase with ⟨hn, he⟩ | ⟨l, r, _, hl, hr, hm, he⟩
    · exact ⟨c, ⟨hc, hn⟩, he⟩
    · rcases hm with rfl | rfl
      · exact ⟨r, hr, he⟩
      · exact ⟨l, hl, by rw [he, c35_symmetric]⟩
  obtain ⟨o, ho, he⟩ := key
  refine ⟨⟨o, he, ?_⟩, ?_⟩
  · rw [he]; exact encode_cases s o
  · intro hsn
    rcases c35_decode_encode s o ⟨hs, hsn⟩ ho with ⟨_, hd⟩ | ⟨_, hd⟩
    · exact ⟨s, o, by rw [he]; exact hd, Or.inl rfl⟩
    · exact ⟨o, s, by rw [he]; exact hd, Or.inr rfl⟩

/-- …and a third party is refused: for a well-formed `l@r` and a sender that is
    neither `l` nor `r`, normalize returns the error. -/
theorem c35_third_party_rejected (s l r : Bytes) (hl : ValidUID l) (hr : ValidUID r)
    (h1 : s ≠ l) (h2 : s ≠ r) : normalizePerson s (join l r) = none := by
  cases hn : normalizePerson s (join l r) with
  | none => rfl
  | some c' =>
    obtain ⟨_, _, hcase⟩ := normalize_some s _ c' hn
    rcases hcase with ⟨hns, _⟩ | ⟨l', r', hj, hl', hr', hm, _⟩
    · exact absurd (by simp [join]) hns
    · obtain ⟨rfl, rfl⟩ := join_inj l r l' r' hl'.2 hr'.2 hj
      rcases hm with rfl | rfl
      · exact absurd rfl h1
      · exact absurd rfl h2

example : normalizePerson [0x63] (join [0x61] [0x62]) = none :=
  c35_third_party_rejected _ _ _ (by decide) (by decide) (by decide) (by decide)

/-- **Normalize is idempotent on its own output** for every sender without a
    separator (senders with `'@'` fail closed on the second call). -/
theorem c35_normalize_normalize (s c c' : Bytes) (hsn : sep ∉ s) (h : normalizePerson s c = some c') :
    normalizePerson s c' = some c' := by
  obtain ⟨hs, hc, hcase⟩ := normalize_some s c c' h
  rcases hcase with ⟨hn, rfl⟩ | ⟨l, r, _, hl, hr, hm, rfl⟩
  · exact c35_normalize_idem s c s ⟨hs, hsn⟩ ⟨hc, hn⟩ (Or.inl rfl)
  · exact c35_normalize_idem l r s hl hr hm

example : normalizePerson [0x61] [0x62] = some (encodePerson [0x61] [0x62]) := by
  simp [normalizePerson, sep]

/-! ### command channels -/

theorem isCmd_iff (c : Bytes) : isCmd c = true ↔ cmdSuffix <:+ c := by
  unfold isCmd; exact List.isSuffixOf_iff_suffix

theorem isCmd_append (x : Bytes) : isCmd (x ++ cmdSuffix) = true :=
  (isCmd_iff _).mpr (List.suffix_append _ _)

/-- the result of `To` is always a command channel -/
theorem c35_cmd_is (x : Bytes) : isCmd (toCmd x) = true := by
  unfold toCmd
  by_cases h : isCmd x = true
  · simp [h]
  · simp [h, isCmd_append]

/-- **idempotent** -/
theorem c35_cmd_idem (x : Bytes) : toCmd (toCmd x) = toCmd x := by
  have := c35_cmd_is x
  rw [show toCmd (toCmd x) = if isCmd (toCmd x) then toCmd x else toCmd x ++ cmdSuffix from rfl, this]
  simp

/-- **reversible**: for an id that is not already a command channel, `From (To x) = (x, true)` -/
theorem c35_cmd_inverse (x : Bytes) (h : isCmd x = false) : fromCmd (toCmd x) = (x, true) := by
  have ht : toCmd x = x ++ cmdSuffix := by simp [toCmd, h]
  rw [ht]
  unfold fromCmd
  simp [isCmd_append]

example : fromCmd (toCmd [0x61]) = ([0x61], true) := c35_cmd_inverse _ (by decide)

/-- the stated exception: an id that already ends in the suffix is not re-suffixed,
    and `From` strips exactly one suffix — so `From (To x)` is `x` minus its suffix. -/
theorem c35_cmd_exception (x : Bytes) (h : isCmd x = true) :
    toCmd x = x ∧ ∃ y, x = y ++ cmdSuffix ∧ fromCmd (toCmd x) = (y, true) := by
  have ht : toCmd x = x := by simp [toCmd, h]
  refine ⟨ht, ?_⟩
  obtain ⟨y, hy⟩ := (isCmd_iff x).mp h
  refine ⟨y, hy.symm, ?_⟩
  rw [ht]
  unfold fromCmd
  simp only [h, Bool.not_true, Bool.false_eq_true, if_false]
  subst hy
  simp

example : fromCmd (toCmd cmdSuffix) = ([], true) := by decide

/-- `From` is the inverse of appending the suffix, and reports whether it did anything -/
theorem c35_cmd_from (x : Bytes) :
    (isCmd x = false ∧ fromCmd x = (x, false)) ∨
    (isCmd x = true ∧ (fromCmd x).2 = true ∧ (fromCmd x).1 ++ cmdSuffix = x) := by
  by_cases h : isCmd x = true
  · right
    obtain ⟨y, hy⟩ := (isCmd_iff x).mp h
    refine ⟨h, by simp [fromCmd, h], ?_⟩
    subst hy
    simp [fromCmd, h]
  · left
    have h' : isCmd x = false := by simpa using h
    exact ⟨h', by simp [fromCmd, h']⟩

/-! ### agent channels -/

theorem c35_agent_roundtrip (u a : Bytes) (hu : ValidUID u) (ha : ValidUID a) :
    decodeAgent (encodeAgent u a) = some (u, a) :=
  (decodePerson_some _ _ _).mpr ⟨rfl, hu.2, ha.2, hu.1, ha.1⟩

theorem c35_agent_fails_closed (u a x y : Bytes) (h : decodeAgent (encodeAgent u a) = some (x, y)) :
    ValidUID u ∧ ValidUID a ∧ x = u ∧ y = a := by
  obtain ⟨hj, hx, hy, hxe, hye⟩ := (decodePerson_some _ _ _).mp h
  obtain ⟨rfl, rfl⟩ := join_inj u a x y hx hy hj
  exact ⟨⟨hxe, hx⟩, ⟨hye, hy⟩, rfl, rfl⟩

example : decodeAgent (encodeAgent [0x75] [0x61]) = some ([0x75], [0x61]) :=
  c35_agent_roundtrip _ _ (by decide) (by decide)

/-! ### the judges accept everything the model produces (the judge is the theorems, executable) -/

theorem samePair_of (x y a b : Bytes) (h : (x = a ∧ y = b) ∨ (x = b ∧ y = a)) : samePair x y a b = true := by
  rcases h with ⟨rfl, rfl⟩ | ⟨rfl, rfl⟩ <;> simp [samePair]

theorem c35_judge_enc_model (a b : Bytes) :
    judgeEnc a b (encodePerson a b) (encodePerson b a) (decodePerson (encodePerson a b)) = "ok" := by
  unfold judgeEnc
  rw [c35_symmetric b a]
  simp only [bne_self_eq_false, Bool.false_eq_true, if_false]
  have hj : (encodePerson a b != join a b && encodePerson a b != join b a) = false := by
    rcases encode_cases a b with h | h <;> simp [h]
  simp only [hj, Bool.false_eq_true, if_false]
  cases hd : decodePerson (encodePerson a b) with
  | none =>
    simp only
    by_cases hv : (validUID a && validUID b) = true
    · exfalso
      simp only [Bool.and_eq_true, validUID_iff] at hv
      rcases c35_decode_encode a b hv.1 hv.2 with ⟨_, h⟩ | ⟨_, h⟩ <;> rw [hd] at h <;> exact absurd h (by simp)
    · simp [hv]
  | some p =>
    obtain ⟨x, y⟩ := p
    obtain ⟨ha, hb, hp⟩ := c35_at_fails_closed a b x y hd
    simp [samePair_of x y a b hp, (validUID_iff a).mpr ha, (validUID_iff b).mpr hb]

theorem c35_judge_cmd_model (x : Bytes) :
    judgeCmd x (isCmd x) (toCmd x) (toCmd (toCmd x)) (fromCmd (toCmd x)) (fromCmd x) = "ok" := by
  unfold judgeCmd
  rw [c35_cmd_idem]
  have hi : (isCmd x != cmdSuffix.isSuffixOf x) = false := by simp [isCmd]
  simp only [bne_self_eq_false, Bool.false_eq_true, if_false, hi]
  by_cases h : isCmd x = true
  · obtain ⟨ht, y, hy, hf⟩ := c35_cmd_exception x h
    rcases c35_cmd_from x with ⟨h0, _⟩ | ⟨_, h2, h3⟩
    · rw [h] at h0; exact absurd h0 (by simp)
    · simp [h, ht, h2, h3]
  · have h' : isCmd x = false := by simpa using h
    have hinv := c35_cmd_inverse x h'
    have ht : toCmd x = x ++ cmdSuffix := by simp [toCmd, h']
    rw [ht] at hinv
    rcases c35_cmd_from x with ⟨_, h1⟩ | ⟨h0, _⟩
    · simp [hinv, h', ht, h1]
    · rw [h'] at h0; exact absurd h0 (by simp)


/-! ## T tie: the functions regenerated from the Go source equal the model -/

open WK.Gen.C35

theorem splitByAux_sep (s : Bytes) : splitByAux sep s = splitAux s := by
  induction s with
  | nil => rfl
  | cons c cs ih => simp [splitByAux, splitAux, ih]

theorem splitBy_sep (s : Bytes) : splitBy sep s = split s := by
  simp [splitBy, split, splitByAux_sep]

theorem c35_gen_suffix : commandChannelSuffix = cmdSuffix := rfl

theorem c35_gen_encode (l r : Bytes) : encodePersonChannel crc l r = encodePerson l r := by
  unfold encodePersonChannel encodePerson join bytesGt
  simp only [sep, List.append_assoc, List.cons_append, List.nil_append]
  by_cases h1 : crc l > crc r
  · simp [h1]
  · by_cases h2 : crc l = crc r
    · simp [h2]
    · simp [h1, h2]

theorem c35_gen_decode (c : Bytes) : decodePersonChannel crc c = decodePerson c := by
  unfold decodePersonChannel decodePerson
  have : (0x40 : UInt8) = sep := rfl
  rw [this, splitBy_sep]
  generalize split c = parts
  match parts with
  | [] => simp
  | [a] => simp
  | [a, b] => simp [List.isEmpty_iff]
  | a :: b :: c :: rest => simp

theorem c35_gen_normalize (s c : Bytes) : normalizePersonChannel crc s c = normalizePerson s c := by
  unfold normalizePersonChannel normalizePerson
  have : (0x40 : UInt8) = sep := rfl
  rw [this, c35_gen_decode]
  simp only [c35_gen_encode]
  cases s <;> cases c <;> simp
  all_goals (split <;> rfl)

theorem c35_gen_is (c : Bytes) : isCommandChannel crc c = isCmd c := rfl

theorem c35_gen_to (c : Bytes) : toCommandChannel crc c = toCmd c := by
  unfold toCommandChannel toCmd; rw [c35_gen_is]; rfl

theorem c35_gen_from (c : Bytes) : fromCommandChannel crc c = fromCmd c := by
  unfold fromCommandChannel fromCmd goTrimSuffix
  rw [c35_gen_is, c35_gen_suffix]
  unfold isCmd
  cases h : cmdSuffix.isSuffixOf c <;> simp [h]

theorem c35_gen_agent_encode (u a : Bytes) : encodeAgentChannel crc u a = encodeAgent u a := by
  unfold encodeAgentChannel encodeAgent join
  simp [sep]

theorem c35_gen_agent_decode (c : Bytes) : decodeAgentChannel crc c = decodeAgent c := by
  unfold decodeAgent; rw [← c35_gen_decode]; rfl


/-! ### the property, stated about the REGENERATED definitions -/

theorem c35_gen_symmetric (a b : Bytes) : encodePersonChannel crc a b = encodePersonChannel crc b a := by
  rw [c35_gen_encode, c35_gen_encode]; exact c35_symmetric a b

theorem c35_gen_decode_encode (a b : Bytes) (ha : ValidUID a) (hb : ValidUID b) :
    decodePersonChannel crc (encodePersonChannel crc a b) = some (a, b) ∨
    decodePersonChannel crc (encodePersonChannel crc a b) = some (b, a) := by
  rw [c35_gen_encode, c35_gen_decode]
  rcases c35_decode_encode a b ha hb with ⟨_, h⟩ | ⟨_, h⟩
  · left; exact h
  · right; exact h

theorem c35_gen_fails_closed (a b x y : Bytes)
    (h : decodePersonChannel crc (encodePersonChannel crc a b) = some (x, y)) :
    ValidUID a ∧ ValidUID b ∧ ((x = a ∧ y = b) ∨ (x = b ∧ y = a)) := by
  rw [c35_gen_encode, c35_gen_decode] at h; exact c35_at_fails_closed a b x y h

theorem c35_gen_normalize_idem (a b s : Bytes) (ha : ValidUID a) (hb : ValidUID b) (hs : s = a ∨ s = b) :
    normalizePersonChannel crc s (encodePersonChannel crc a b) = some (encodePersonChannel crc a b) := by
  rw [c35_gen_encode, c35_gen_normalize]; exact c35_normalize_idem a b s ha hb hs

theorem c35_gen_sender_member (s c c' : Bytes) (h : normalizePersonChannel crc s c = some c') :
    ∃ o, c' = encodePersonChannel crc s o := by
  rw [c35_gen_normalize] at h
  obtain ⟨⟨o, ho, _⟩, _⟩ := c35_sender_must_be_member s c c' h
  exact ⟨o, by rw [c35_gen_encode]; exact ho⟩

theorem c35_gen_cmd_idem (x : Bytes) : toCommandChannel crc (toCommandChannel crc x) = toCommandChannel crc x := by
  simp only [c35_gen_to]; exact c35_cmd_idem x

theorem c35_gen_cmd_inverse (x : Bytes) (h : isCommandChannel crc x = false) :
    fromCommandChannel crc (toCommandChannel crc x) = (x, true) := by
  rw [c35_gen_is] at h; rw [c35_gen_to, c35_gen_from]; exact c35_cmd_inverse x h

-- non-vacuity: the generated definitions compute
example : decodePersonChannel crc [0x61, 0x40, 0x62] = some ([0x61], [0x62]) := by decide
example : decodePersonChannel crc [0x61, 0x40] = none := by decide
example : toCommandChannel crc [0x61] = [0x61, 0x5f, 0x5f, 0x5f, 0x5f, 0x63, 0x6d, 0x64] := by decide
example : fromCommandChannel crc (toCommandChannel crc [0x61]) = ([0x61], true) := c35_gen_cmd_inverse _ (by decide)
example : isCommandChannel crc commandChannelSuffix = true := by decide
example : encodeAgentChannel crc [0x75] [0x61] = [0x75, 0x40, 0x61] := by decide
example : normalizePersonChannel crc [] [0x61] = none := by decide
example : encodePersonChannel crc [0x61] [0x62] = encodePersonChannel crc [0x62] [0x61] := c35_gen_symmetric _ _
example : ValidUID [0x61] ∧ ValidUID [0x62] := by decide

end WK.C35

import WK.Proofs.C17_meta
import WK.Proofs.C17_step
/-
  C17 — Channel migration cutover is fenced and irreversible.

  All theorems are about `WK.C17.applySingle / applyBatch / stepLine / run`,
  the definitions the driver executes against the real slot FSM.
  "single line" = an environment metadata write or one ApplyBatch of ONE command.

  Three parts of the property are FALSE of the unchanged code (reproduced on the
  real FSM, see corpus/C17/findings.ops); each is kept visible as a decided
  counterexample next to the `_partial` theorem that names the missing hypothesis:
    * one_active      fails for a multi-command ApplyBatch        (c17_one_active_batch_counterexample)
    * no_abort_after  fails after a free-form Advance/Claim or a
                      ResetChannelWriteFenceToPreCutover           (c17_no_abort_after_commit_counterexample_*)
    * foreign_fence   fails when Guard.ChannelID ≠ RuntimeGuard.ChannelID (c17_foreign_fence_cross_channel_counterexample)
-/
namespace WK.C17

theorem applyBatch_single (db : State) (c : Cmd) : (applyBatch db [c]).1 = (applySingle db c).1 := by
  unfold applyBatch
  split
  · rename_i c' heq
    simp at heq
    subst heq
    split <;> (rename_i h; rw [h])
  · rename_i hne
    exact absurd rfl (hne c)

theorem inv_stepLine (s : State) (l : Line) (hl : l.single = true) (h : Inv s) : Inv (stepLine s l) := by
  cases l with
  | setmeta c m => exact inv_setMeta s c m h
  | batch cs =>
    match cs, hl with
    | [c], _ =>
      simp only [stepLine]
      rw [applyBatch_single]
      exact inv_applySingle s c h

theorem inv_run (ls : List Line) (hs : ∀ l ∈ ls, l.single = true) (s : State) (h : Inv s) : Inv (run s ls) := by
  induction ls generalizing s with
  | nil => exact h
  | cons l rest ih =>
    simp only [run, List.foldl]
    exact ih (fun l hl => hs l (List.mem_cons_of_mem _ hl)) _ (inv_stepLine s l (hs l List.mem_cons_self) h)

/-! ## 1. at most one active task per channel -/

/-- After ANY history of single-command applies and metadata writes, every channel has at most one
    active (non-terminal) migration task, and the active one is the one the active index names. -/
theorem c17_one_active (ls : List Line) (hs : ∀ l ∈ ls, l.single = true) :
    (run State.empty ls).oneActive = true ∧ Covers (run State.empty ls) :=
  ⟨oneActive_of_inv _ (inv_run ls hs _ inv_empty), (inv_run ls hs _ inv_empty).2⟩

def exTask (c i kind status phase : Nat) : Task :=
  { chan := c, id := i, kind, status, phase, src := 1, tgt := 2, des := 2, ftok := 0, fver := 0, funtil := 0, emb := false,
    embdes := 0, owner := 0, olease := 0, leo := 0, hw := 0, dnode := 0, drgen := 0, dcep := 0, dlep := 0, dfv := 0, upd := 10,
    comp := if status ≥ 4 then 5 else 0 }

def exCreate (t : Task) : Cmd := { kind := .create, task := t, g := { (default : Guard) with chan := t.chan, id := t.id } }

/-- non-vacuity: a second active create on the same channel is refused, the first stays active -/
example : ((run State.empty [.batch [exCreate (exTask 1 1 1 1 1)], .batch [exCreate (exTask 1 2 1 1 1)]]).activeOn 1).length = 1 := by
  decide

/-- free-form advance of task (1,1) from Aborted back to Running -/
def exReactivate : Cmd :=
  { kind := .advance, g := { chan := 1, id := 1, est := 6, eph := 1, eown := 0, eolease := 0, eupd := 10 }, st := 2, ph := 1, upd := 11 }

/-- ONE ApplyBatch holding "create t2" and "advance t1: Aborted → Running" activates two tasks on
    channel 1: the second closure checks the active index in the COMMITTED store, which does not
    yet contain the first closure's index write.  (Reproduced on the real FSM.) -/
theorem c17_one_active_batch_counterexample :
    (run State.empty [.batch [exCreate (exTask 1 1 1 6 1)],
                      .batch [exCreate (exTask 1 2 1 1 1), exReactivate]]).oneActive = false := by
  decide

/-! ## 2. a cutover commits only with a matching drain proof -/

/-- If a CommitChannelLeaderTransfer / PromoteLearnerAndRemoveReplica changes the store at all,
    then the task row it names carried a complete drain proof equal to the CURRENT metadata of the
    channel it changes (fence version, channel epoch, leader epoch, leader), the fence on that
    channel is held under this task's id, and the request's runtime guard matched that metadata. -/
theorem c17_commit_needs_proof (db : State) (c : Cmd) (hk : c.kind = .commit ∨ c.kind = .promote)
    (hacc : (applySingle db c).1 ≠ db) :
    ∃ t m, db.task? c.g.chan c.g.id = some t ∧ db.meta? c.rg.chan = some m ∧
      proofMatches t m = true ∧ c.rg.efver = m.fver ∧ c.rg.matches m = true ∧ c.g.matches t = true := by
  rcases applySingle_state db c with h | ⟨ws, ho, h⟩
  · exact absurd h hacc
  · cases ho with
    | nothing => exact absurd h hacc
    | create ws hk' _ _ => rcases hk with hk | hk <;> rcases hk' with hk' | hk' <;> (rw [hk] at hk'; cases hk')
    | taskOnly t nt ws hk' _ _ _ _ => rcases hk with hk | hk <;> rcases hk' with hk' | hk' <;> (rw [hk] at hk'; cases hk')
    | gc hk' => rcases hk with hk | hk <;> (rw [hk] at hk'; cases hk')
    | taskMeta t nt m nm0 ws' _ ht hm hmut hg hrg _ _ _ _ =>
      refine ⟨t, m, ht, hm, ?_, ?_, hrg, hg⟩
      · rcases hk with hk | hk
        · simp only [mutate, hk] at hmut; exact (mutCommit_ok c t nt m nm0 hmut).1
        · simp only [mutate, hk] at hmut; exact (mutPromote_ok c t nt m nm0 hmut).1
      · rcases hk with hk | hk
        · simp only [mutate, hk] at hmut; exact (mutCommit_ok c t nt m nm0 hmut).2.1
        · simp only [mutate, hk] at hmut; exact (mutPromote_ok c t nt m nm0 hmut).2.1

/-! ## 5. stored metadata stays valid -/

/-- After ANY history (including multi-command batches) every stored runtime-meta row satisfies
    validateChannelRuntimeMeta: replicas ≠ ∅, 1 ≤ minISR ≤ |replicas|, ISR ⊆ replicas,
    leader ≠ 0 → leader ∈ ISR ∩ replicas, fence fields consistent. -/
theorem c17_meta_valid (ls : List Line) : (run State.empty ls).metasValid = true := by
  suffices h : ∀ s : State, s.metasValid = true → (run s ls).metasValid = true from h _ rfl
  induction ls with
  | nil => intro s h; exact h
  | cons l rest ih =>
    intro s h
    simp only [run, List.foldl]
    exact ih _ (metasValid_stepLine s l h)

end WK.C17

import WK.Proofs.C17_meta
import WK.Proofs.C17_step
import WK.Proofs.C17_safe
/-
  C17 — Channel migration cutover is fenced and irreversible.

  All theorems are about `WK.C17.applySingle / applyBatch / stepLine / run`,
  the definitions the driver executes against the real slot FSM.
  "single line" = an environment metadata write or one ApplyBatch of ONE command.

  Three parts of the property are FALSE of the unchanged code (reproduced on the
  real FSM, see corpus/C17/findings.ops); each is kept visible as a decided
  counterexample next to the `_partial` theorem that names the missing hypothesis:
    * one_active      fails for a multi-command ApplyBatch        (c17_one_active_batch_counterexample)
    * no_abort_after  fails after a free-form Advance/Claim or a
                      ResetChannelWriteFenceToPreCutover           (c17_no_abort_after_commit_counterexample_*)
    * foreign_fence   fails when Guard.ChannelID ≠ RuntimeGuard.ChannelID (c17_foreign_fence_cross_channel_counterexample)
-/
namespace WK.C17

theorem applyBatch_single (db : State) (c : Cmd) : (applyBatch db [c]).1 = (applySingle db c).1 := by
  unfold applyBatch
  split
  · rename_i c' heq
    simp at heq
    subst heq
    split <;> (rename_i h; rw [h])
  · rename_i hne
    exact absurd rfl (hne c)

theorem inv_stepLine (s : State) (l : Line) (hl : l.single = true) (h : Inv s) : Inv (stepLine s l) := by
  cases l with
  | setmeta c m => exact inv_setMeta s c m h
  | batch cs =>
    match cs, hl with
    | [c], _ =>
      simp only [stepLine]
      rw [applyBatch_single]
      exact inv_applySingle s c h

theorem inv_run (ls : List Line) (hs : ∀ l ∈ ls, l.single = true) (s : State) (h : Inv s) : Inv (run s ls) := by
  induction ls generalizing s with
  | nil => exact h
  | cons l rest ih =>
    simp only [run, List.foldl]
    exact ih (fun l hl => hs l (List.mem_cons_of_mem _ hl)) _ (inv_stepLine s l (hs l List.mem_cons_self) h)

/-! ## 1. at most one active task per channel -/

/-- After ANY history of single-command applies and metadata writes, every channel has at most one
    active (non-terminal) migration task, and the active one is the one the active index names. -/
theorem c17_one_active (ls : List Line) (hs : ∀ l ∈ ls, l.single = true) :
    (run State.empty ls).oneActive = true ∧ Covers (run State.empty ls) :=
  ⟨oneActive_of_inv _ (inv_run ls hs _ inv_empty), (inv_run ls hs _ inv_empty).2⟩

def exTask (c i kind status phase : Nat) : Task :=
  { chan := c, id := i, kind, status, phase, src := 1, tgt := 2, des := 2, ftok := 0, fver := 0, funtil := 0, emb := false,
    embdes := 0, owner := 0, olease := 0, leo := 0, hw := 0, dnode := 0, drgen := 0, dcep := 0, dlep := 0, dfv := 0, upd := 10,
    comp := if status ≥ 4 then 5 else 0 }

def exCreate (t : Task) : Cmd := { kind := .create, task := t, g := { (default : Guard) with chan := t.chan, id := t.id } }

/-- non-vacuity: a second active create on the same channel is refused, the first stays active -/
example : ((run State.empty [.batch [exCreate (exTask 1 1 1 1 1)], .batch [exCreate (exTask 1 2 1 1 1)]]).activeOn 1).length = 1 := by
  decide

/-- free-form advance of task (1,1) from Aborted back to Running -/
def exReactivate : Cmd :=
  { kind := .advance, g := { chan := 1, id := 1, est := 6, eph := 1, eown := 0, eolease := 0, eupd := 10 }, st := 2, ph := 1, upd := 11 }

/-- ONE ApplyBatch holding "create t2" and "advance t1: Aborted → Running" activates two tasks on
    channel 1: the second closure checks the active index in the COMMITTED store, which does not
    yet contain the first closure's index write.  (Reproduced on the real FSM.) -/
theorem c17_one_active_batch_counterexample :
    (run State.empty [.batch [exCreate (exTask 1 1 1 6 1)],
                      .batch [exCreate (exTask 1 2 1 1 1), exReactivate]]).oneActive = false := by
  decide

/-! ## 2. a cutover commits only with a matching drain proof -/

/-- If a CommitChannelLeaderTransfer / PromoteLearnerAndRemoveReplica changes the store at all,
    then the task row it names carried a complete drain proof equal to the CURRENT metadata of the
    channel it changes (fence version, channel epoch, leader epoch, leader), the fence on that
    channel is held under this task's id, and the request's runtime guard matched that metadata. -/
theorem c17_commit_needs_proof (db : State) (c : Cmd) (hk : c.kind = .commit ∨ c.kind = .promote)
    (hacc : (applySingle db c).1 ≠ db) :
    ∃ t m, db.task? c.g.chan c.g.id = some t ∧ db.meta? c.rg.chan = some m ∧
      proofMatches t m = true ∧ c.rg.efver = m.fver ∧ c.rg.matches m = true ∧ c.g.matches t = true := by
  rcases applySingle_state db c with h | ⟨ws, ho, h⟩
  · exact absurd h hacc
  · cases ho with
    | nothing => exact absurd h hacc
    | create ws hk' _ _ => rcases hk with hk | hk <;> rcases hk' with hk' | hk' <;> (rw [hk] at hk'; cases hk')
    | taskOnly t nt ws hk' _ _ _ _ => rcases hk with hk | hk <;> rcases hk' with hk' | hk' <;> (rw [hk] at hk'; cases hk')
    | gc hk' => rcases hk with hk | hk <;> (rw [hk] at hk'; cases hk')
    | taskMeta t nt m nm0 ws' _ ht hm hmut hg hrg _ _ _ _ =>
      refine ⟨t, m, ht, hm, ?_, ?_, hrg, hg⟩
      · rcases hk with hk | hk
        · simp only [mutate, hk] at hmut; exact (mutCommit_ok c t nt m nm0 hmut).1
        · simp only [mutate, hk] at hmut; exact (mutPromote_ok c t nt m nm0 hmut).1
      · rcases hk with hk | hk
        · simp only [mutate, hk] at hmut; exact (mutCommit_ok c t nt m nm0 hmut).2.1
        · simp only [mutate, hk] at hmut; exact (mutPromote_ok c t nt m nm0 hmut).2.1

/-- non-vacuity and concrete shape: a leader transfer at CommitLeaderMeta holding the fence with a
    matching proof commits (leader 1 → 2, leader epoch 1 → 2) -/
def exFencedMeta : Meta :=
  { cep := 1, lep := 1, rgen := 0, leader := 1, minisr := 2, lease := 100, replicas := [1, 2, 3], isr := [1, 2, 3],
    ftok := 1, fver := 1, freason := 1, funtil := 200 }

def exDrained : Task :=
  { exTask 1 1 1 2 6 with ftok := 1, fver := 1, funtil := 200, leo := 10, hw := 10, dnode := 1, drgen := 1, dcep := 1, dlep := 1, dfv := 1 }

def exCommit : Cmd :=
  { kind := .commit, g := { chan := 1, id := 1, est := 2, eph := 6, eown := 0, eolease := 0, eupd := 10 },
    rg := { chan := 1, ecep := 1, elep := 1, eld := 1, etok := 1, efver := 1, ergen := 0 },
    st := 2, ph := 7, desired := 2, nle := 2, lease := 300, now := 50, upd := 11 }

def exCommitted : State := run State.empty [.setmeta 1 exFencedMeta, .batch [exCreate exDrained], .batch [exCommit]]

example : (exCommitted.meta? 1).map Meta.authority = some (2, 2, [1, 2, 3]) ∧
          (exCommitted.task? 1 1).map (·.phase) = some 7 := by decide

/-- the same commit with a proof drained under another leader epoch is refused -/
example : (run State.empty [.setmeta 1 exFencedMeta, .batch [exCreate { exDrained with dlep := 2 }], .batch [exCommit]]).meta? 1
            = (run State.empty [.setmeta 1 exFencedMeta]).meta? 1 := by decide

/-! ## 3. a committed / promoted task can no longer be aborted -/

/-- the abort command's preconditions fail on the task row `(ch,i)` (or the row is gone) -/
def Safe (s : State) (ch i : Nat) : Prop := ∀ t, s.task? ch i = some t → t.abortable = false

/-- commands that can move a protected row back into an abortable state: a (re-)create of the id,
    the free-form Claim / Advance, ResetChannelWriteFenceToPreCutover, and the designed hand-off
    ClearChannelWriteFence → Running/AddLearner that closes an EMBEDDED transfer -/
def Rewinds (c : Cmd) (ch i : Nat) : Prop :=
  ((c.kind = .create ∨ c.kind = .createg) ∧ c.task.chan = ch ∧ c.task.id = i) ∨
  (c.g.chan = ch ∧ c.g.id = i ∧
    (c.kind = .claim ∨ c.kind = .advance ∨ c.kind = .resetfence ∨ (c.kind = .clearfence ∧ c.st = 2)))

def LineRewinds (l : Line) (ch i : Nat) : Prop :=
  match l with
  | .setmeta _ _ => False
  | .batch cs => ∃ c ∈ cs, Rewinds c ch i

theorem gc_dels (db : State) (b l : Nat) : ∀ w ∈ gcWrites db b l, ∃ c i, w = W.delTask c i := by
  unfold gcWrites
  exact gcGo_dels b l _ 0

theorem task?_after_taskMeta (db : State) (nt : Task) (ws : List W) (rc : Nat) (nm : Meta)
    (hw : upsertWrites db nt = .ok ws) (ch i : Nat) :
    (applyWs db (ws ++ [W.putMeta rc nm])).task? ch i = if nt.chan = ch ∧ nt.id = i then some nt else db.task? ch i := by
  rw [applyWs_append, applyWs_cons, applyWs_nil, task?_putMeta]
  exact (upsert_lookup db nt ws hw).1 ch i

theorem safe_applySingle (db : State) (c : Cmd) (ch i : Nat) (hs : Safe db ch i) (hr : ¬ Rewinds c ch i) :
    Safe (applySingle db c).1 ch i := by
  rcases applySingle_state db c with h | ⟨ws, ho, h⟩
  · rw [h]; exact hs
  · rw [h]
    cases ho with
    | nothing => exact hs
    | create ws hk _ hw =>
      intro t ht
      rw [(upsert_lookup db c.task ws hw).1 ch i] at ht
      split at ht
      · rename_i hkey; exact absurd (Or.inl ⟨hk, hkey.1, hkey.2⟩) hr
      · exact hs t ht
    | taskOnly t0 nt ws hk ht0 hg hmut hw =>
      intro t ht
      rw [(upsert_lookup db nt ws hw).1 ch i] at ht
      split at ht
      · rename_i hkey
        have k1 := mutTaskOnly_key c t0 nt hmut
        have k2 := guard_key c.g t0 hg
        exfalso; apply hr; right
        refine ⟨by omega, by omega, ?_⟩
        rcases hk with hk | hk
        · exact Or.inl hk
        · exact Or.inr (Or.inl hk)
      · exact hs t ht
    | gc _ =>
      intro t ht
      rcases (dels_lookup db _ (gc_dels db c.before c.limit)).2 ch i with h' | h'
      · rw [h'] at ht; exact hs t ht
      · rw [h'] at ht; cases ht
    | taskMeta t0 nt m nm0 ws' hk ht0 hm hmut hg hrg hterm _ _ hw =>
      intro t ht
      rw [task?_after_taskMeta db nt ws' _ _ hw ch i] at ht
      split at ht
      · rename_i hkey
        simp at ht; rw [← ht]
        have k1 := mutate_key c t0 nt m nm0 hmut
        have k2 := guard_key c.g t0 hg
        have hg1 : c.g.chan = ch := by omega
        have hg2 : c.g.id = i := by omega
        have hs0 : t0.abortable = false := hs t0 (by rw [← hg1, ← hg2]; exact ht0)
        apply mutate_safe c t0 nt m nm0 hmut hs0 hterm
        · intro hk'; exact hr (Or.inr ⟨hg1, hg2, Or.inr (Or.inr (Or.inl hk'))⟩)
        · intro hk'; exact hr (Or.inr ⟨hg1, hg2, Or.inr (Or.inr (Or.inr hk'))⟩)
      · exact hs t ht

theorem safe_stepLine (s : State) (l : Line) (hl : l.single = true) (ch i : Nat) (hs : Safe s ch i)
    (hr : ¬ LineRewinds l ch i) : Safe (stepLine s l) ch i := by
  cases l with
  | setmeta c m =>
    intro t ht
    apply hs t
    simp only [stepLine, setMeta] at ht
    split at ht <;> exact ht
  | batch cs =>
    match cs, hl with
    | [c], _ =>
      simp only [stepLine]
      rw [applyBatch_single]
      apply safe_applySingle s c ch i hs
      intro hrw
      exact hr ⟨c, List.mem_cons_self, hrw⟩

theorem safe_run (ls : List Line) (ch i : Nat) (hsingle : ∀ l ∈ ls, l.single = true)
    (hr : ∀ l ∈ ls, ¬ LineRewinds l ch i) (s : State) (hs : Safe s ch i) : Safe (run s ls) ch i := by
  induction ls generalizing s with
  | nil => exact hs
  | cons l rest ih =>
    simp only [run, List.foldl]
    exact ih (fun l hl => hsingle l (List.mem_cons_of_mem _ hl)) (fun l hl => hr l (List.mem_cons_of_mem _ hl)) _
      (safe_stepLine s l (hsingle l List.mem_cons_self) ch i hs (hr l List.mem_cons_self))

/-- an accepted cutover makes the task row safe -/
theorem cutover_establishes_safe (db : State) (c : Cmd) (hk : c.kind = .commit ∨ c.kind = .promote)
    (hacc : (applySingle db c).1 ≠ db) : Safe (applySingle db c).1 c.g.chan c.g.id := by
  rcases applySingle_state db c with h | ⟨ws, ho, h⟩
  · exact absurd h hacc
  · cases ho with
    | nothing => exact absurd h hacc
    | create ws hk' _ _ => rcases hk with hk | hk <;> rcases hk' with hk' | hk' <;> (rw [hk] at hk'; cases hk')
    | taskOnly t nt ws hk' _ _ _ _ => rcases hk with hk | hk <;> rcases hk' with hk' | hk' <;> (rw [hk] at hk'; cases hk')
    | gc hk' => rcases hk with hk | hk <;> (rw [hk] at hk'; cases hk')
    | taskMeta t0 nt m nm0 ws' _ ht0 hm hmut hg hrg _ _ _ hw =>
      rw [h]
      intro t ht
      rw [task?_after_taskMeta db nt ws' _ _ hw] at ht
      have k1 := mutate_key c t0 nt m nm0 hmut
      have k2 := guard_key c.g t0 hg
      rw [if_pos ⟨by omega, by omega⟩] at ht
      simp at ht; rw [← ht]
      exact cutover_safe c hk t0 nt m nm0 hmut

/-- an abort aimed at a safe row changes nothing -/
theorem abort_refused (db : State) (a : Cmd) (hk : a.kind = .abort) (hs : Safe db a.g.chan a.g.id) :
    (applySingle db a).1 = db := by
  rcases applySingle_state db a with h | ⟨ws, ho, h⟩
  · exact h
  · cases ho with
    | nothing => exact h
    | create ws hk' _ _ => rcases hk' with hk' | hk' <;> (rw [hk] at hk'; cases hk')
    | taskOnly t nt ws hk' _ _ _ _ => rcases hk' with hk' | hk' <;> (rw [hk] at hk'; cases hk')
    | gc hk' => rw [hk] at hk'; cases hk'
    | taskMeta t0 nt m nm0 ws' _ ht0 hm hmut _ _ _ _ _ _ =>
      exfalso
      simp only [mutate, hk] at hmut
      have := mutAbort_needs_abortable a t0 nt m nm0 hmut
      rw [hs t0 ht0] at this; cases this

/-- **No abort after commit (partial).**  Once a CommitChannelLeaderTransfer or
    PromoteLearnerAndRemoveReplica on task `(ch,i)` was accepted, then after EVERY later history of
    single-command applies and metadata writes that contains no rewinding command for that task
    (hypothesis `NoRewind`: no re-create of the id, no Claim/Advance, no
    ResetChannelWriteFenceToPreCutover, no embedded hand-off), an AbortChannelMigration aimed at
    the task is refused: it leaves the whole store unchanged. -/
theorem c17_no_abort_after_commit_partial (db : State) (c0 : Cmd) (hk : c0.kind = .commit ∨ c0.kind = .promote)
    (hacc : (applySingle db c0).1 ≠ db)
    (ls : List Line) (hsingle : ∀ l ∈ ls, l.single = true)
    (NoRewind : ∀ l ∈ ls, ¬ LineRewinds l c0.g.chan c0.g.id)
    (a : Cmd) (ha : a.kind = .abort) (hat : a.g.chan = c0.g.chan ∧ a.g.id = c0.g.id) :
    (applySingle (run (applySingle db c0).1 ls) a).1 = run (applySingle db c0).1 ls := by
  apply abort_refused _ a ha
  rw [hat.1, hat.2]
  exact safe_run ls _ _ hsingle NoRewind _ (cutover_establishes_safe db c0 hk hacc)

def exAbort (upd : Nat) (eph elep eld : Nat) (etok efver : Nat) : Cmd :=
  { kind := .abort, g := { chan := 1, id := 1, est := 2, eph := eph, eown := 0, eolease := 0, eupd := upd },
    rg := { chan := 1, ecep := 1, elep := elep, eld := eld, etok := etok, efver := efver, ergen := 0 },
    st := 6, ph := eph, upd := upd + 1, comp := 99 }

/-- non-vacuity of the partial theorem: right after the commit the abort is refused -/
example : (applySingle exCommitted (exAbort 11 7 2 2 1 1)).1 = exCommitted := by decide

def exRewind : Cmd :=
  { kind := .advance, g := { chan := 1, id := 1, est := 2, eph := 7, eown := 0, eolease := 0, eupd := 11 }, st := 2, ph := 1, upd := 12 }

/-- The full statement is false of the code: a free-form Advance moves the committed task back to
    phase Validate, after which AbortChannelMigration is accepted (status Aborted = 6) although the
    leader change stays committed.  (Reproduced on the real FSM.) -/
theorem c17_no_abort_after_commit_counterexample_advance :
    ((run exCommitted [.batch [exRewind], .batch [exAbort 12 1 2 2 1 1]]).task? 1 1).map (·.status) = some 6 ∧
    ((run exCommitted [.batch [exRewind], .batch [exAbort 12 1 2 2 1 1]]).meta? 1).map (·.leader) = some 2 := by
  decide

def exReset : Cmd :=
  { kind := .resetfence, g := { chan := 1, id := 1, est := 2, eph := 7, eown := 0, eolease := 0, eupd := 11 },
    rg := { chan := 1, ecep := 1, elep := 2, eld := 2, etok := 1, efver := 1, ergen := 0 }, st := 2, ph := 2, now := 900, upd := 12 }

/-- ... and without any free-form command: once the fence lease has expired,
    ResetChannelWriteFenceToPreCutover takes the committed task (phase VerifyNewLeader) back to
    ProbeTarget, and the abort is then accepted.  (Reproduced on the real FSM.) -/
theorem c17_no_abort_after_commit_counterexample_resetfence :
    ((run exCommitted [.batch [exReset], .batch [exAbort 12 2 2 2 0 2]]).task? 1 1).map (·.status) = some 6 ∧
    ((run exCommitted [.batch [exReset], .batch [exAbort 12 2 2 2 0 2]]).meta? 1).map (·.leader) = some 2 := by
  decide

/-! ## 4. no command changes or clears another task's fence -/

/-- **Foreign fence safety (partial).**  Let channel `x` carry a fence with token `k ≠ ""`, so its
    owner is task `(x,k)`.  A single command whose task guard and runtime guard name the SAME channel
    (hypothesis `SameChannel`) and whose task is not the owner leaves the four fence fields of `x`
    exactly as they were. -/
theorem c17_foreign_fence_safe_partial (db : State) (c : Cmd) (SameChannel : c.kind.isTaskMeta = true → c.g.chan = c.rg.chan)
    (x : Nat) (m : Meta) (hm : db.meta? x = some m) (hf : m.ftok ≠ 0)
    (hforeign : ¬ (c.g.chan = x ∧ c.g.id = m.ftok)) :
    ((applySingle db c).1.meta? x).map Meta.fence = some m.fence := by
  rcases applySingle_state db c with h | ⟨ws, ho, h⟩
  · rw [h, hm]; rfl
  · rw [h]
    cases ho with
    | nothing => rw [applyWs_nil, hm]; rfl
    | create ws _ _ hw => rw [meta?_of_metas _ _ (upsert_lookup db _ ws hw).2, hm]; rfl
    | taskOnly t nt ws _ _ _ _ hw => rw [meta?_of_metas _ _ (upsert_lookup db _ ws hw).2, hm]; rfl
    | gc _ => rw [meta?_of_metas _ _ (dels_lookup db _ (gc_dels db c.before c.limit)).1, hm]; rfl
    | taskMeta t0 nt m0 nm0 ws' hkTM ht0 hm0 hmut hg _ _ _ _ hw =>
      have SameChannel := SameChannel hkTM
      rw [applyWs_append, applyWs_cons, applyWs_nil, meta?_putMeta]
      split
      · rename_i hx
        rw [hx, hm0] at hm
        simp at hm
        subst hm
        simp only [Option.map]
        rw [fence_norm_bump]
        have k2 := guard_key c.g t0 hg
        congr 1
        apply mutate_foreign c t0 nt m0 nm0 hmut hf
        intro he
        exact hforeign ⟨by omega, by omega⟩
      · rw [meta?_of_metas _ _ (upsert_lookup db _ ws' hw).2, hm]; rfl

def exMeta (ftok fver : Nat) : Meta :=
  { cep := 1, lep := 1, rgen := 0, leader := 1, minisr := 2, lease := 100, replicas := [1, 2, 3], isr := [1, 2, 3],
    ftok := ftok, fver := fver, freason := if ftok = 0 then 0 else 1, funtil := if ftok = 0 then 0 else 200 }

def exHolder (c : Nat) (phase : Nat) : Task := { exTask c 1 1 2 phase with ftok := 1, fver := 1, funtil := 200 }

def exForeignState : State :=
  run State.empty [.setmeta 1 (exMeta 1 1), .setmeta 2 (exMeta 1 1), .batch [exCreate (exHolder 1 7)], .batch [exCreate (exHolder 2 4)]]

/-- task ("ca","t1") clears the fence of channel "cb" -/
def exCrossClear : Cmd :=
  { kind := .clearfence, g := { chan := 1, id := 1, est := 2, eph := 7, eown := 0, eolease := 0, eupd := 10 },
    rg := { chan := 2, ecep := 1, elep := 1, eld := 1, etok := 1, efver := 1, ergen := 0 }, st := 4, ph := 27, upd := 11, comp := 99 }

/-- non-vacuity of the partial theorem: the same command aimed at its own channel is the owner's
    command (allowed); a different task id on channel 2 is foreign and refused -/
example : ((applySingle exForeignState { exCrossClear with g := { exCrossClear.g with id := 2 }, rg := { exCrossClear.rg with chan := 1 } }).1.meta? 1).map Meta.fence
    = some (1, 1, 1, 200) := by decide

/-- The full statement is false of the code: task ids are unique only per channel, the guards
    compare tokens with task ids but never the two channel ids of a request, so task ("ca","t1")
    clears the fence that ("cb","t1") holds on channel "cb" (and completes while the fence on its
    own channel stays set).  (Reproduced on the real FSM.) -/
theorem c17_foreign_fence_cross_channel_counterexample :
    WK.Gen.C17.transitionChecksGuardChannel = false →
    (exForeignState.meta? 2).map Meta.fence = some (1, 1, 1, 200) ∧
    ((applySingle exForeignState exCrossClear).1.meta? 2).map Meta.fence = some (0, 2, 0, 0) ∧
    ((applySingle exForeignState exCrossClear).1.task? 2 1).map (·.ftok) = some 1 := by
  decide

/-- a request whose two guards name different channels is rejected by request validation, if the
    current source has that check (`WK.Gen.C17`, regenerated from the Go source on every run) -/
theorem cross_channel_rejected (h1 : WK.Gen.C17.transitionChecksGuardChannel = true)
    (h2 : WK.Gen.C17.fenceRequestChecksGuardChannel = true) (db : State) (c : Cmd)
    (hk : c.kind.isTaskMeta = true) (hne : c.g.chan ≠ c.rg.chan) : (applySingle db c).1 = db := by
  have hb : (c.g.chan != c.rg.chan) = true := by simp; exact hne
  unfold applySingle stageCmd
  cases hkk : c.kind <;> simp [hkk, Kind.isTaskMeta] at hk <;> simp [validTransition, h1, h2, hb, staleAtStaging]

/-- **Foreign fence safety (full)** — holds of the code once both request validators compare the
    guard channels (vacuous on a tree where `WK.Gen.C17` says they do not). -/
theorem c17_foreign_fence_safe_full (h1 : WK.Gen.C17.transitionChecksGuardChannel = true)
    (h2 : WK.Gen.C17.fenceRequestChecksGuardChannel = true) (db : State) (c : Cmd)
    (x : Nat) (m : Meta) (hm : db.meta? x = some m) (hf : m.ftok ≠ 0)
    (hforeign : ¬ (c.g.chan = x ∧ c.g.id = m.ftok)) :
    ((applySingle db c).1.meta? x).map Meta.fence = some m.fence := by
  by_cases hs : c.kind.isTaskMeta = true → c.g.chan = c.rg.chan
  · exact c17_foreign_fence_safe_partial db c hs x m hm hf hforeign
  · have hk : c.kind.isTaskMeta = true := by
      cases hx : c.kind.isTaskMeta with
      | true => rfl
      | false => exact absurd (fun h => by rw [hx] at h; cases h) hs
    have hne : c.g.chan ≠ c.rg.chan := fun e => hs (fun _ => e)
    rw [cross_channel_rejected h1 h2 db c hk hne, hm]; rfl

/-! ## 5. stored metadata stays valid -/

/-- After ANY history (including multi-command batches) every stored runtime-meta row satisfies
    validateChannelRuntimeMeta: replicas ≠ ∅, 1 ≤ minISR ≤ |replicas|, ISR ⊆ replicas,
    leader ≠ 0 → leader ∈ ISR ∩ replicas, fence fields consistent. -/
theorem c17_meta_valid (ls : List Line) : (run State.empty ls).metasValid = true := by
  suffices h : ∀ s : State, s.metasValid = true → (run s ls).metasValid = true from h _ rfl
  induction ls with
  | nil => intro s h; exact h
  | cons l rest ih =>
    intro s h
    simp only [run, List.foldl]
    exact ih _ (metasValid_stepLine s l h)

end WK.C17

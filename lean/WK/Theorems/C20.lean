import WK.Proofs.C20_Planners
import WK.Proofs.C20_Table
import WK.Proofs.C20_Codec
import WK.Proofs.C20_Facts
/-
  C20 — The hash-slot table assigns every hash slot to exactly one slot.

  All statements are about the definitions of `WK.Model.C20` that the driver
  (`Driver/C20.lean`) executes against the real pkg/hashslot code, and about the
  judge predicates of `WK.Spec.C20`.
-/
namespace WK.C20

/-! ## bridge: the judge's participants vs the planner's slot lists -/

theorem mem_distinct (l : List Nat) (x : Nat) : x ∈ distinct l ↔ x ∈ l := by
  induction l with
  | nil => simp [distinct]
  | cons y ys ih =>
    simp only [distinct]
    split
    · rename_i h
      have hy : y ∈ ys := by simpa using h
      rw [ih]
      constructor
      · exact fun h => List.mem_cons_of_mem _ h
      · intro h
        rcases List.mem_cons.mp h with e | e
        · subst e; exact hy
        · exact e
    · simp [ih]

theorem nodup_distinct (l : List Nat) : (distinct l).Nodup := by
  induction l with
  | nil => simp [distinct]
  | cons y ys ih =>
    simp only [distinct]
    split
    · exact ih
    · rename_i h
      have hy : y ∉ ys := by simpa using h
      exact List.nodup_cons.mpr ⟨by rw [mem_distinct]; exact hy, ih⟩

theorem mem_specActive (t : Table) (s : Nat) : s ∈ specActive t.asg ↔ s ∈ activeSlots t := by
  rw [mem_activeSlots]
  simp [specActive, mem_distinct]
  exact And.comm

theorem nodup_specActive (a : List Nat) : (specActive a).Nodup := nodup_distinct _

theorem length_eq_of_same_members {l1 l2 : List Nat} (h1 : l1.Nodup) (h2 : l2.Nodup)
    (h : ∀ x, x ∈ l1 ↔ x ∈ l2) : l1.length = l2.length :=
  ((List.perm_ext_iff_of_nodup h1 h2).mpr h).length_eq

theorem length_specActive (t : Table) : (specActive t.asg).length = (activeSlots t).length :=
  length_eq_of_same_members (nodup_specActive _) (nodup_activeSlots t) (mem_specActive t)

/-- `balanced` (the judge's notion) in terms of the planner's slot list -/
theorem balanced_iff (t : Table) :
    balanced t.asg = true ↔
      ∀ s ∈ activeSlots t, level t.asg.length (activeSlots t).length (t.asg.count s) = true := by
  simp only [balanced, levelTable, List.all_eq_true, length_specActive]
  constructor
  · intro h s hs; exact h s ((mem_specActive t s).mpr hs)
  · intro h s hs; exact h s ((mem_specActive t s).mp hs)

/-! ## the table is a total function -/

/-- Lookup is a function of the hash slot alone: one owner per hash slot, 0 outside the table. -/
theorem c20_lookup_def (t : Table) (hs : Nat) :
    lookup t hs = if h : hs < t.asg.length then t.asg[hs] else 0 := by
  unfold lookup
  by_cases h : hs < t.asg.length
  · have : ¬ hs ≥ t.asg.length := by omega
    simp [h, this, List.getD_eq_getElem?_getD]
  · have : hs ≥ t.asg.length := by omega
    simp [h, this]

/-- Along every history that starts at `NewHashSlotTable(h, p)` with `p ≥ 1` and in which no caller
    reassigns a hash slot to slot id 0, the table keeps exactly `h` hash slots and every one of them
    has a non-zero owner. -/
theorem c20_total_function (h : Nat) (p : Int) (hp : 1 ≤ p) (ops : List TOp) (hg : ∀ op ∈ ops, op.good) :
    (ops.foldl applyOp (newTable h p)).asg.length = h ∧
    ∀ hs, hs < h → lookup (ops.foldl applyOp (newTable h p)) hs ≠ 0 := by
  have key : ∀ (ops : List TOp) (t : Table), (∀ op ∈ ops, op.good) → Total t →
      Total (ops.foldl applyOp t) ∧ (ops.foldl applyOp t).asg.length = t.asg.length := by
    intro ops
    induction ops with
    | nil => intro t _ ht; exact ⟨ht, rfl⟩
    | cons op rest ih =>
      intro t hg ht
      have h1 := op_total t op (hg op (by simp)) ht
      have := ih (applyOp t op) (fun o ho => hg o (List.mem_cons_of_mem _ ho)) h1
      simp only [List.foldl_cons]
      exact ⟨this.1, by rw [this.2, op_length]⟩
  obtain ⟨n1, n2, _⟩ := newTable_total h p hp
  obtain ⟨k1, k2⟩ := key ops (newTable h p) hg n1
  refine ⟨by rw [k2, n2], ?_⟩
  intro hs hlt
  have hl : hs < (ops.foldl applyOp (newTable h p)).asg.length := by rw [k2, n2]; exact hlt
  rw [c20_lookup_def]
  simp only [hl, ↓reduceDIte]
  exact k1.1 _ (List.getElem_mem hl)

example : lookup (newTable 5 2) 4 = 2 := by decide
example : (TOp.reassign 0 7).good := by simp [TOp.good]

/-! ## codec -/

/-- Decode (Encode t) = t, active migrations included, for every table whose fields fit the wire
    format (≤ 65535 hash slots, uint64 ids/version, migrations keyed by distinct uint16 hash slots). -/
theorem c20_decode_encode (t : Table) (h : CodecWF t) : decode (encode t) = some t := decode_encode t h

example : CodecWF ⟨3, [1, 2, 2], [⟨1, 2, 5, 1⟩, ⟨2, 2, 1, 0⟩]⟩ :=
  ⟨by decide, by decide, by decide,
   by intro m hm; simp at hm; rcases hm with rfl | rfl <;> simp [MigWF],
   by decide, by decide⟩
example : decode (encode ⟨3, [1, 2, 2], [⟨1, 2, 5, 1⟩, ⟨2, 2, 1, 0⟩]⟩) = some ⟨3, [1, 2, 2], [⟨1, 2, 5, 1⟩, ⟨2, 2, 1, 0⟩]⟩ := by
  decide

/-! ## version -/

/-- Every call (Reassign / Start / Advance / Finalize / AbortMigration) either leaves the whole table,
    version included, unchanged, or changes the assignment or the migration set and then the version
    is incremented — strictly larger unless the uint64 is at its maximum. -/
theorem c20_version_strict (t : Table) (op : TOp) :
    (applyOp t op = t) ∨
    (Changed t (applyOp t op) ∧ (applyOp t op).version = bump t.version ∧
      (t.version < 2 ^ 64 - 1 → t.version < (applyOp t op).version)) := by
  rcases op_effect t op with h | ⟨h1, h2⟩
  · exact Or.inl h
  · exact Or.inr ⟨h1, h2, fun hv => by rw [h2]; exact bump_gt _ hv⟩

example : Changed ⟨1, [1, 1], []⟩ (applyOp ⟨1, [1, 1], []⟩ (.reassign 0 2)) := by
  left; decide
example : applyOp ⟨1, [1, 1], []⟩ (.reassign 0 1) = ⟨1, [1, 1], []⟩ := by decide

/-! ## plans -/

/-- the plan the planner of kind `k` computes -/
def computePlan (k : PlanKind) (t : Table) (s : Nat) : List Move :=
  match k with
  | .add => computeAdd t s
  | .remove => computeRemove t s
  | .rebalance => computeRebalance t

/-- Every plan (add, remove, rebalance; any table, any argument) moves each hash slot at most once,
    only hash slots of the table, and only away from the current owner (`From = Lookup(hs) ≠ To`). -/
theorem c20_plan_moves_once (k : PlanKind) (t : Table) (s : Nat) :
    planValid t.asg (computePlan k t s) = true := by
  cases k with
  | add => exact add_valid t s
  | remove => exact remove_valid t s
  | rebalance => exact rebalance_valid t

example : computePlan .rebalance ⟨1, [1, 1, 1, 2], []⟩ 0 = [⟨2, 1, 2⟩] := by decide

/-- After a rebalance plan on a fully assigned table every active slot owns exactly its ideal count
    (⌊H/n⌋, +1 for the first H mod n ids), hence ⌊H/n⌋ or ⌈H/n⌉, hence within one of H/n. -/
theorem c20_rebalance_balanced (t : Table) (hfa : fullyAssigned t.asg = true) :
    (∀ s ∈ activeSlots t, (specApply t.asg (computeRebalance t)).count s
        = cget (idealCounts t.asg.length (activeSlots t)) s) ∧
    levelTable (specApply t.asg (computeRebalance t)) (participants .rebalance t.asg 0) = true ∧
    withinOneTable (specApply t.asg (computeRebalance t)) (participants .rebalance t.asg 0) = true := by
  have hex := rebalance_exact t hfa
  have hlev : ∀ s ∈ specActive t.asg, level (specApply t.asg (computeRebalance t)).length (specActive t.asg).length
      ((specApply t.asg (computeRebalance t)).count s) = true := by
    intro s hs
    have hs' := (mem_specActive t s).mp hs
    have hpos : 0 < (activeSlots t).length := List.length_pos_of_mem hs'
    rw [specApply_length, length_specActive, hex s hs', level_iff _ _ _ hpos]
    exact (idealCounts_spec _ _ (nodup_activeSlots t) (by omega)).2.1 s hs'
  refine ⟨hex, ?_, ?_⟩
  · simp only [levelTable, participants, List.all_eq_true]
    exact hlev
  · simp only [withinOneTable, participants, List.all_eq_true]
    intro s hs
    have hpos : 0 < (specActive t.asg).length := List.length_pos_of_mem hs
    exact level_withinOne _ _ _ hpos (hlev s hs)

example : fullyAssigned [1, 1, 1, 2] = true := by decide

/-- An add plan on a fully assigned table leaves the new slot exactly on its ideal count. -/
theorem c20_add_new_slot_exact (t : Table) (new : Nat) (hfa : fullyAssigned t.asg = true) (h0 : new ≠ 0)
    (hnew : new ∉ activeSlots t) :
    (specApply t.asg (computeAdd t new)).count new = cget (idealCounts t.asg.length (addSlots t new)) new :=
  (add_core t new hfa h0 hnew _ _ rfl rfl).1

/-- … and every participant moves monotonically towards its ideal count without crossing it:
    a slot above its ideal count ends between the two, a slot below it likewise (so no donor is
    drawn below its share). -/
theorem c20_add_bounded (t : Table) (new : Nat) (hfa : fullyAssigned t.asg = true) (h0 : new ≠ 0)
    (hnew : new ∉ activeSlots t) :
    ∀ s ∈ addSlots t new,
      min (t.asg.count s) (cget (idealCounts t.asg.length (addSlots t new)) s)
        ≤ (specApply t.asg (computeAdd t new)).count s ∧
      (specApply t.asg (computeAdd t new)).count s
        ≤ max (t.asg.count s) (cget (idealCounts t.asg.length (addSlots t new)) s) := by
  intro s hs
  have := (add_core t new hfa h0 hnew _ _ rfl rfl).2.1 s hs
  rcases Nat.le_total (cget (idealCounts t.asg.length (addSlots t new)) s) (t.asg.count s) with h | h
  · have := this.1 h; omega
  · have := this.2 h; omega

example : (specApply [1, 1, 1, 1, 2, 2] (computeAdd ⟨1, [1, 1, 1, 1, 2, 2], []⟩ 3)).count 3 = 2 := by decide

/-- A remove plan on a fully assigned table (with another slot left) empties the removed slot. -/
theorem c20_remove_empties (t : Table) (rm : Nat) (hfa : fullyAssigned t.asg = true) (h0 : rm ≠ 0)
    (hin : rm ∈ activeSlots t) (hrem : (rmRemaining t rm).length ≠ 0) :
    (specApply t.asg (computeRemove t rm)).count rm = 0 :=
  (remove_core t rm hfa h0 hin hrem _ _ rfl rfl).1

example : (specApply [1, 1, 2, 3] (computeRemove ⟨1, [1, 1, 2, 3], []⟩ 1)).count 1 = 0 := by decide

/-- … and every remaining slot moves monotonically towards its ideal count without crossing it
    (no receiver is filled above its share). -/
theorem c20_remove_bounded (t : Table) (rm : Nat) (hfa : fullyAssigned t.asg = true) (h0 : rm ≠ 0)
    (hin : rm ∈ activeSlots t) (hrem : (rmRemaining t rm).length ≠ 0) :
    ∀ s ∈ rmRemaining t rm,
      min (t.asg.count s) (cget (idealCounts t.asg.length (rmRemaining t rm)) s)
        ≤ (specApply t.asg (computeRemove t rm)).count s ∧
      (specApply t.asg (computeRemove t rm)).count s
        ≤ max (t.asg.count s) (cget (idealCounts t.asg.length (rmRemaining t rm)) s) := by
  intro s hs
  have := (remove_core t rm hfa h0 hin hrem _ _ rfl rfl).2.1 s hs
  rcases Nat.le_total (cget (idealCounts t.asg.length (rmRemaining t rm)) s) (t.asg.count s) with h | h
  · have := this.1 h; omega
  · have := this.2 h; omega

/-- Balanced in ⇒ balanced out, for add and remove plans: if every active slot of a fully assigned
    table owns ⌊H/n⌋ or ⌈H/n⌉ hash slots, then after the plan every participant owns ⌊H/n'⌋ or
    ⌈H/n'⌉ (n' = n+1 resp. n-1) and is therefore within one of its ideal share.  Stated with the
    judge's own predicates (`balanced`, `participants`, `levelTable`, `withinOneTable`). -/
theorem c20_add_remove_balanced_from_balanced (t : Table) (s : Nat) (hfa : fullyAssigned t.asg = true)
    (hbal : balanced t.asg = true) :
    (planApplicable .add t.asg s = true →
      levelTable (specApply t.asg (computeAdd t s)) (participants .add t.asg s) = true ∧
      withinOneTable (specApply t.asg (computeAdd t s)) (participants .add t.asg s) = true) ∧
    (planApplicable .remove t.asg s = true →
      levelTable (specApply t.asg (computeRemove t s)) (participants .remove t.asg s) = true ∧
      withinOneTable (specApply t.asg (computeRemove t s)) (participants .remove t.asg s) = true) := by
  have hlev := (balanced_iff t).mp hbal
  constructor
  · intro happ
    simp only [planApplicable, decide_eq_true_eq] at happ
    have h0 : s ≠ 0 := happ.1
    have hnew : s ∉ activeSlots t := by
      intro h; exact happ.2 (by simpa using (mem_specActive t s).mpr h)
    have hmain := add_level t s hfa h0 hnew hlev
    have hplen : (participants .add t.asg s).length = (addSlots t s).length := by
      simp [participants, length_specActive, length_addSlots]
    have hmem : ∀ x ∈ participants .add t.asg s, x ∈ addSlots t s := by
      intro x hx
      simp only [participants, List.mem_append, List.mem_singleton] at hx
      rw [mem_addSlots]
      rcases hx with h | h
      · exact Or.inl ((mem_specActive t x).mp h)
      · exact Or.inr h
    have hl : ∀ x ∈ participants .add t.asg s, level (specApply t.asg (computeAdd t s)).length
        (participants .add t.asg s).length ((specApply t.asg (computeAdd t s)).count x) = true := by
      intro x hx
      rw [specApply_length, hplen]
      exact hmain x (hmem x hx)
    refine ⟨by simpa [levelTable, List.all_eq_true] using hl, ?_⟩
    simp only [withinOneTable, List.all_eq_true]
    intro x hx
    exact level_withinOne _ _ _ (List.length_pos_of_mem hx) (hl x hx)
  · intro happ
    simp only [planApplicable, decide_eq_true_eq] at happ
    obtain ⟨h0, hin', hrem'⟩ := happ
    have hin : s ∈ activeSlots t := (mem_specActive t s).mp (by simpa using hin')
    have hmemr : ∀ x, x ∈ participants .remove t.asg s ↔ x ∈ rmRemaining t s := by
      intro x
      simp only [participants, mem_rmRemaining, List.mem_filter, mem_specActive]
      simp
    have hndp : (participants .remove t.asg s).Nodup := List.Pairwise.filter _ (nodup_specActive _)
    have hndr : (rmRemaining t s).Nodup := List.Pairwise.filter _ (nodup_activeSlots t)
    have hplen : (participants .remove t.asg s).length = (rmRemaining t s).length :=
      length_eq_of_same_members hndp hndr hmemr
    have hrem : (rmRemaining t s).length ≠ 0 := by
      rw [← hplen]; simp only [participants]; omega
    have hmain := remove_level t s hfa h0 hin hrem hlev
    have hl : ∀ x ∈ participants .remove t.asg s, level (specApply t.asg (computeRemove t s)).length
        (participants .remove t.asg s).length ((specApply t.asg (computeRemove t s)).count x) = true := by
      intro x hx
      rw [specApply_length, hplen]
      exact hmain x ((hmemr x).mp hx)
    refine ⟨by simpa [levelTable, List.all_eq_true] using hl, ?_⟩
    simp only [withinOneTable, List.all_eq_true]
    intro x hx
    exact level_withinOne _ _ _ (List.length_pos_of_mem hx) (hl x hx)

example : balanced [1, 1, 2, 2, 3] = true ∧ planApplicable .add [1, 1, 2, 2, 3] 4 = true
    ∧ planApplicable .remove [1, 1, 2, 2, 3] 2 = true := by decide

/-! ## the full statement, its counterexample (DESIGN §8.4) and the partial theorem -/

/-- the property's last clause as written: applying ANY plan leaves every participating slot within
    one hash slot of its ideal share -/
def PlanBalancedFull : Prop :=
  ∀ (k : PlanKind) (t : Table) (s : Nat), fullyAssigned t.asg = true → planApplicable k t.asg s = true →
    withinOneTable (specApply t.asg (computePlan k t s)) (participants k t.asg s) = true

/-- 12 hash slots, slot 1 owns ten and slot 2 owns two -/
def cexAdd : Table := ⟨1, [1, 1, 1, 1, 1, 1, 1, 1, 1, 1, 2, 2], []⟩
/-- 12 hash slots, slot 1 owns eight, slots 2 and 3 two each -/
def cexRemove : Table := ⟨1, [1, 1, 1, 1, 1, 1, 1, 1, 2, 2, 3, 3], []⟩

/-- The add plan for slot 3 on {1:10, 2:2} is four moves 1→3 and leaves {1:6, 2:2, 3:4} against an
    ideal 4/4/4: donor slot 1 ends two above its share. -/
theorem c20_add_unbalanced_counterexample :
    computeAdd cexAdd 3 = [⟨9, 1, 3⟩, ⟨8, 1, 3⟩, ⟨7, 1, 3⟩, ⟨6, 1, 3⟩] ∧
    (specApply cexAdd.asg (computeAdd cexAdd 3)).count 1 = 6 ∧
    withinOne 12 3 6 = false ∧
    withinOneTable (specApply cexAdd.asg (computeAdd cexAdd 3)) (participants .add cexAdd.asg 3) = false ∧
    judgePlan .add cexAdd.asg 3 (computeAdd cexAdd 3) = "viol:plan-unbalanced-from-unbalanced-input:add" := by
  decide

/-- Removing slot 3 from {1:8, 2:2, 3:2} gives {1:8, 2:4} against an ideal 6/6. -/
theorem c20_remove_unbalanced_counterexample :
    computeRemove cexRemove 3 = [⟨11, 3, 2⟩, ⟨10, 3, 2⟩] ∧
    withinOneTable (specApply cexRemove.asg (computeRemove cexRemove 3)) (participants .remove cexRemove.asg 3) = false ∧
    judgePlan .remove cexRemove.asg 3 (computeRemove cexRemove 3) = "viol:plan-unbalanced-from-unbalanced-input:remove" := by
  decide

/-- the full statement is false of the planners (known finding §8.4) -/
theorem c20_plan_balanced_full_false : ¬ PlanBalancedFull := by
  intro h
  have := h .add cexAdd 3 (by decide) (by decide)
  have hc := c20_add_unbalanced_counterexample.2.2.2.1
  simp only [computePlan] at this
  rw [hc] at this
  cases this

/-- What does hold of the last clause (missing hypothesis for add/remove: `balanced` input):
    rebalance always; add/remove from a balanced table. -/
theorem c20_plan_balanced_partial (k : PlanKind) (t : Table) (s : Nat) (hfa : fullyAssigned t.asg = true)
    (happ : planApplicable k t.asg s = true) (hbal : k ≠ .rebalance → balanced t.asg = true) :
    withinOneTable (specApply t.asg (computePlan k t s)) (participants k t.asg s) = true := by
  cases k with
  | add => exact ((c20_add_remove_balanced_from_balanced t s hfa (hbal (by decide))).1 happ).2
  | remove => exact ((c20_add_remove_balanced_from_balanced t s hfa (hbal (by decide))).2 happ).2
  | rebalance => exact (c20_rebalance_balanced t hfa).2.2

example : planApplicable .rebalance [1, 1, 1, 2] 0 = true := by decide

end WK.C20

import WK.Spec.C18
import WK.Gen.C18
/-
  C18 — Controller state machine applies commands deterministically.

  All theorems are about `applyBatch WK.Gen.C18.loopFacts handler valid`, i.e. the
  batch loop with the guard/bump comparisons the extractor read out of fsm.go on
  this run, for EVERY handler function and EVERY validation predicate
  (parameters, never axioms; the handlers' contract before init, `PreInitStrong`,
  and `ValidIgnoresApplied` are named hypotheses exercised by the differential run).
-/
namespace WK.C18
open WK.Gen.C18

variable {β κ : Type} (handler : State β → Nat → κ → Proposal β) (valid : State β → Bool)

/-- the source still has the shape the model mirrors (regenerated facts) -/
theorem c18_shape : resultShape = true ∧ saveBeforePublish = true ∧ validateChangedShape = true := by decide

theorem mutate_cases (s : State β) (idx : Nat) (c : κ) :
    ((mutate handler valid s idx c).1 = s ∧
      ((∃ r, (mutate handler valid s idx c).2 = .rejected r) ∨ (∃ r, (mutate handler valid s idx c).2 = .noop r))) ∨
    (∃ cand, mutate handler valid s idx c = (⟨s.rev + 1, s.applied, cand⟩, .changed) ∧ valid ⟨s.rev + 1, s.applied, cand⟩ = true ∧
      handler s idx c = .change cand) ∨
    (∃ cand, mutate handler valid s idx c = (⟨s.rev, s.applied, cand⟩, .updated) ∧ valid ⟨s.rev, s.applied, cand⟩ = true ∧
      handler s idx c = .update cand) ∨
    (∃ body, s.rev = 0 ∧ mutate handler valid s idx c = (⟨1, idx, body⟩, .changed) ∧ valid ⟨1, idx, body⟩ = true) := by
  cases h : handler s idx c with
  | reject r =>
    have hm : mutate handler valid s idx c = (s, .rejected r) := by simp [mutate, h]
    rw [hm]; exact Or.inl ⟨rfl, Or.inl ⟨r, rfl⟩⟩
  | noop r =>
    have hm : mutate handler valid s idx c = (s, .noop r) := by simp [mutate, h]
    rw [hm]; exact Or.inl ⟨rfl, Or.inr ⟨r, rfl⟩⟩
  | change cand =>
    by_cases hv : valid ⟨s.rev + 1, s.applied, cand⟩ = true
    · have hm : mutate handler valid s idx c = (⟨s.rev + 1, s.applied, cand⟩, .changed) := by simp [mutate, h, validateChanged, hv]
      exact Or.inr (Or.inl ⟨cand, hm, hv, rfl⟩)
    · have hm : mutate handler valid s idx c = (s, .rejected reasonInvalidState) := by simp [mutate, h, validateChanged, hv]
      rw [hm]; exact Or.inl ⟨rfl, Or.inl ⟨_, rfl⟩⟩
  | update cand =>
    by_cases hv : valid ⟨s.rev, s.applied, cand⟩ = true
    · have hm : mutate handler valid s idx c = (⟨s.rev, s.applied, cand⟩, .updated) := by simp [mutate, h, hv]
      exact Or.inr (Or.inr (Or.inl ⟨cand, hm, hv, rfl⟩))
    · have hm : mutate handler valid s idx c = (s, .rejected reasonInvalidState) := by simp [mutate, h, hv]
      rw [hm]; exact Or.inl ⟨rfl, Or.inl ⟨_, rfl⟩⟩
  | init body =>
    by_cases hv : valid ⟨1, idx, body⟩ = true
    · by_cases hr : s.rev = 0
      · have hm : mutate handler valid s idx c = (⟨1, idx, body⟩, .changed) := by simp [mutate, h, hv, hr]
        exact Or.inr (Or.inr (Or.inr ⟨body, hr, hm, hv⟩))
      · have hm : mutate handler valid s idx c = (s, .rejected reasonInitConflict) := by simp [mutate, h, hv, hr]
        rw [hm]; exact Or.inl ⟨rfl, Or.inl ⟨_, rfl⟩⟩
    · have hm : mutate handler valid s idx c = (s, .rejected reasonInvalidState) := by simp [mutate, h, hv]
      rw [hm]; exact Or.inl ⟨rfl, Or.inl ⟨_, rfl⟩⟩

/-- **Revision discipline** of one command: `Changed` ⇒ revision + 1 and the new
    state passed `Validate`; `Updated` ⇒ revision and applied index unchanged and the
    new state passed `Validate`; `Noop`/`Rejected` ⇒ the state is untouched. -/
theorem c18_revision_step (s : State β) (idx : Nat) (c : κ) :
    ((mutate handler valid s idx c).2 = .changed →
        (mutate handler valid s idx c).1.rev = s.rev + 1 ∧ valid (mutate handler valid s idx c).1 = true) ∧
    ((mutate handler valid s idx c).2 = .updated →
        (mutate handler valid s idx c).1.rev = s.rev ∧ (mutate handler valid s idx c).1.applied = s.applied ∧
        valid (mutate handler valid s idx c).1 = true) ∧
    (∀ r, (mutate handler valid s idx c).2 = .noop r ∨ (mutate handler valid s idx c).2 = .rejected r →
        (mutate handler valid s idx c).1 = s) := by
  rcases mutate_cases handler valid s idx c with ⟨h1, h2⟩ | ⟨cand, h, hv, _⟩ | ⟨cand, h, hv, _⟩ | ⟨body, hr, h, hv⟩
  · refine ⟨?_, ?_, fun _ _ => h1⟩
    · intro hc; rcases h2 with ⟨r, hr⟩ | ⟨r, hr⟩ <;> rw [hr] at hc <;> cases hc
    · intro hc; rcases h2 with ⟨r, hr⟩ | ⟨r, hr⟩ <;> rw [hr] at hc <;> cases hc
  · rw [h]; refine ⟨fun _ => ⟨rfl, hv⟩, fun hc => by simp at hc, ?_⟩
    intro r hc; simp at hc
  · rw [h]; refine ⟨fun hc => by simp at hc, fun _ => ⟨rfl, rfl, hv⟩, ?_⟩
    intro r hc; simp at hc
  · rw [h]; refine ⟨fun _ => ⟨by simp [hr], hv⟩, fun hc => by simp at hc, ?_⟩
    intro r hc; simp at hc

/-- `if next.Revision != 0 && entry.Index > next.AppliedRaftIndex { next.AppliedRaftIndex = entry.Index }` -/
def bump (n : State β) (idx : Nat) : State β := if n.rev ≠ 0 ∧ idx > n.applied then { n with applied := idx } else n

/-- the loop iteration with the regenerated comparisons, in Prop form -/
theorem step_eq (current : State β) (acc : State β × List Result) (e : Entry κ) :
    stepEntry loopFacts handler valid current acc e =
      if current.rev ≠ 0 ∧ e.idx ≤ acc.1.applied then
        (acc.1, acc.2 ++ [⟨.noop reasonAlreadyApplied, acc.1.rev, acc.1.applied⟩])
      else
        (bump (mutate handler valid acc.1 e.idx e.cmd).1 e.idx,
         acc.2 ++ [⟨(mutate handler valid acc.1 e.idx e.cmd).2, (bump (mutate handler valid acc.1 e.idx e.cmd).1 e.idx).rev,
           if (bump (mutate handler valid acc.1 e.idx e.cmd).1 e.idx).rev = 0 ∧ (mutate handler valid acc.1 e.idx e.cmd).2.isRejected
             then e.idx else (bump (mutate handler valid acc.1 e.idx e.cmd).1 e.idx).applied⟩]) := by
  simp only [stepEntry, guardFires, raises, loopFacts, bump]
  by_cases hg : current.rev ≠ 0 ∧ e.idx ≤ acc.1.applied
  · simp [hg.1, hg.2]
  · by_cases h1 : current.rev = 0
    · simp [h1]
    · have h3 : ¬ e.idx ≤ acc.1.applied := fun hh => hg ⟨h1, hh⟩
      simp [h1, h3]

theorem step_acc (F : LoopFacts) (cur s : State β) (acc : List Result) (e : Entry κ) :
    stepEntry F handler valid cur (s, acc) e =
      ((stepEntry F handler valid cur (s, []) e).1, acc ++ (stepEntry F handler valid cur (s, []) e).2) := by
  simp only [stepEntry]
  split <;> simp

theorem bump_rev (n : State β) (i : Nat) : (bump n i).rev = n.rev := by
  unfold bump; split <;> rfl

theorem bump_zero (n : State β) (i : Nat) (h : n.rev = 0) : bump n i = n := by
  unfold bump; simp [h]

theorem bump_applied (n : State β) (i : Nat) (h : n.rev ≠ 0) :
    n.applied ≤ (bump n i).applied ∧ i ≤ (bump n i).applied ∧ ((bump n i).applied = n.applied ∨ (bump n i).applied = i) := by
  unfold bump
  by_cases hb : i > n.applied
  · simp [h, hb]; omega
  · simp [hb]; omega

theorem mutate_init (s : State β) (idx : Nat) (c : κ) (h : s.rev ≠ 0) :
    (mutate handler valid s idx c).1.rev ≠ 0 ∧ (mutate handler valid s idx c).1.applied = s.applied := by
  rcases mutate_cases handler valid s idx c with ⟨h1, _⟩ | ⟨cand, hh, _, _⟩ | ⟨cand, hh, _, _⟩ | ⟨body, hr, _, _⟩
  · rw [h1]; exact ⟨h, rfl⟩
  · rw [hh]; exact ⟨by simp, rfl⟩
  · rw [hh]; exact ⟨h, rfl⟩
  · exact absurd hr h

theorem run_acc (F : LoopFacts) (cur : State β) (es : List (Entry κ)) : ∀ (s : State β) (acc : List Result),
    runEntries F handler valid cur es (s, acc) =
      ((runEntries F handler valid cur es (s, [])).1, acc ++ (runEntries F handler valid cur es (s, [])).2) := by
  induction es with
  | nil => intro s acc; simp [runEntries]
  | cons e rest ih =>
    intro s acc
    simp only [runEntries, List.foldl_cons] at ih ⊢
    rw [step_acc handler valid F cur s acc e]
    rw [ih (stepEntry F handler valid cur (s, []) e).1 (acc ++ (stepEntry F handler valid cur (s, []) e).2)]
    have h2 : stepEntry F handler valid cur (s, []) e =
        ((stepEntry F handler valid cur (s, []) e).1, (stepEntry F handler valid cur (s, []) e).2) := rfl
    rw [h2, ih (stepEntry F handler valid cur (s, []) e).1 (stepEntry F handler valid cur (s, []) e).2]
    simp [List.append_assoc]

theorem run_append (F : LoopFacts) (cur : State β) (b1 b2 : List (Entry κ)) (a : State β × List Result) :
    runEntries F handler valid cur (b1 ++ b2) a = runEntries F handler valid cur b2 (runEntries F handler valid cur b1 a) := by
  simp [runEntries, List.foldl_append]

/-- the state after one iteration -/
theorem step_fst (cur s : State β) (acc : List Result) (e : Entry κ) :
    (stepEntry loopFacts handler valid cur (s, acc) e).1 =
      if cur.rev ≠ 0 ∧ e.idx ≤ s.applied then s else bump (mutate handler valid s e.idx e.cmd).1 e.idx := by
  rw [step_eq]; split <;> rfl

theorem step_state (cur s : State β) (acc : List Result) (e : Entry κ) :
    (s.rev ≠ 0 → (stepEntry loopFacts handler valid cur (s, acc) e).1.rev ≠ 0 ∧
        s.applied ≤ (stepEntry loopFacts handler valid cur (s, acc) e).1.applied ∧
        ((stepEntry loopFacts handler valid cur (s, acc) e).1.applied = s.applied ∨
         (stepEntry loopFacts handler valid cur (s, acc) e).1.applied = e.idx)) ∧
    ((stepEntry loopFacts handler valid cur (s, acc) e).1.rev ≠ 0 → e.idx ≤ (stepEntry loopFacts handler valid cur (s, acc) e).1.applied) := by
  rw [step_fst]
  by_cases hg : cur.rev ≠ 0 ∧ e.idx ≤ s.applied
  · rw [if_pos hg]
    exact ⟨fun h => ⟨h, Nat.le_refl _, Or.inl rfl⟩, fun _ => hg.2⟩
  · rw [if_neg hg]
    refine ⟨fun h => ?_, fun h => ?_⟩
    · have hm := mutate_init handler valid s e.idx e.cmd h
      have hb := bump_applied (mutate handler valid s e.idx e.cmd).1 e.idx hm.1
      rw [bump_rev]
      refine ⟨hm.1, ?_, ?_⟩
      · rw [← hm.2]; exact hb.1
      · rw [← hm.2]; exact hb.2.2
    · rw [bump_rev] at h
      exact (bump_applied _ e.idx h).2.1

theorem run_rev_ne_zero (cur : State β) (es : List (Entry κ)) : ∀ (s : State β) (acc : List Result), s.rev ≠ 0 →
    (runEntries loopFacts handler valid cur es (s, acc)).1.rev ≠ 0 := by
  induction es with
  | nil => intro s acc h; exact h
  | cons e rest ih =>
    intro s acc h
    simp only [runEntries, List.foldl_cons] at ih ⊢
    have := ((step_state handler valid cur s acc e).1 h).1
    exact ih _ _ this

theorem step_cur_irrel (cur cur' : State β) (h : cur.rev ≠ 0) (h' : cur'.rev ≠ 0) (a : State β × List Result) (e : Entry κ) :
    stepEntry loopFacts handler valid cur a e = stepEntry loopFacts handler valid cur' a e := by
  rw [step_eq, step_eq]; simp [h, h']

theorem run_cur_irrel (cur cur' : State β) (h : cur.rev ≠ 0) (h' : cur'.rev ≠ 0) (es : List (Entry κ)) (a : State β × List Result) :
    runEntries loopFacts handler valid cur es a = runEntries loopFacts handler valid cur' es a := by
  simp only [runEntries]
  congr 1
  funext a e
  exact step_cur_irrel handler valid cur cur' h h' a e

/-- the handlers' contract before init: on an uninitialised state a handler
    rejects, no-ops, or is `applyInit` (every handler starts with
    `if next.Revision == 0 ... return reject(...)`) -/
def PreInitStrong (handler : State β → Nat → κ → Proposal β) : Prop :=
  ∀ s idx c, s.rev = 0 → (∃ r, handler s idx c = .reject r) ∨ (∃ r, handler s idx c = .noop r) ∨ (∃ b, handler s idx c = .init b)

theorem mutate_uninit (hpre : PreInitStrong handler) (s : State β) (idx : Nat) (c : κ) (hs : s.rev = 0) :
    (mutate handler valid s idx c).1 = s ∨ ((mutate handler valid s idx c).1.rev ≠ 0 ∧ (mutate handler valid s idx c).1.applied = idx) := by
  rcases mutate_cases handler valid s idx c with ⟨h1, _⟩ | ⟨cand, _, _, hh⟩ | ⟨cand, _, _, hh⟩ | ⟨body, _, h, _⟩
  · exact Or.inl h1
  · rcases hpre s idx c hs with ⟨r, h⟩ | ⟨r, h⟩ | ⟨b, h⟩ <;> rw [h] at hh <;> cases hh
  · rcases hpre s idx c hs with ⟨r, h⟩ | ⟨r, h⟩ | ⟨b, h⟩ <;> rw [h] at hh <;> cases hh
  · rw [h]; exact Or.inr ⟨by simp, rfl⟩

theorem step_uninit (hpre : PreInitStrong handler) (cur s : State β) (hc : cur.rev = 0) (hs : s.rev = 0) (acc : List Result) (e : Entry κ) :
    ((stepEntry loopFacts handler valid cur (s, acc) e).1.rev = 0 → (stepEntry loopFacts handler valid cur (s, acc) e).1 = s) ∧
    ((stepEntry loopFacts handler valid cur (s, acc) e).1.rev ≠ 0 → (stepEntry loopFacts handler valid cur (s, acc) e).1.applied = e.idx) := by
  rw [step_fst]
  have hg : ¬ (cur.rev ≠ 0 ∧ e.idx ≤ s.applied) := fun h => h.1 hc
  rw [if_neg hg]
  rcases mutate_uninit handler valid hpre s e.idx e.cmd hs with h | ⟨h1, h2⟩
  · rw [h, bump_zero s e.idx hs]
    exact ⟨fun _ => rfl, fun h => absurd hs h⟩
  · refine ⟨fun h => ?_, fun _ => ?_⟩
    · rw [bump_rev] at h; exact absurd h h1
    · rcases (bump_applied _ e.idx h1).2.2 with hb | hb
      · rw [hb, h2]
      · exact hb

theorem run_uninit (hpre : PreInitStrong handler) (cur : State β) (hc : cur.rev = 0) (N : Nat) (es : List (Entry κ)) :
    ∀ (s : State β) (acc : List Result), (s.rev ≠ 0 → s.applied < N) → (∀ e ∈ es, e.idx < N) →
      ((runEntries loopFacts handler valid cur es (s, acc)).1.rev = 0 → (runEntries loopFacts handler valid cur es (s, acc)).1 = s) ∧
      ((runEntries loopFacts handler valid cur es (s, acc)).1.rev ≠ 0 → (runEntries loopFacts handler valid cur es (s, acc)).1.applied < N) := by
  induction es with
  | nil => intro s acc hb _; exact ⟨fun _ => rfl, hb⟩
  | cons e rest ih =>
    intro s acc hb hN
    simp only [runEntries, List.foldl_cons] at ih ⊢
    have hrest : ∀ x ∈ rest, x.idx < N := fun x hx => hN x (by simp [hx])
    have he : e.idx < N := hN e (by simp)
    have h2 : stepEntry loopFacts handler valid cur (s, acc) e =
        ((stepEntry loopFacts handler valid cur (s, acc) e).1, (stepEntry loopFacts handler valid cur (s, acc) e).2) := rfl
    rw [h2]
    by_cases hs : s.rev = 0
    · have hu := step_uninit handler valid hpre cur s hc hs acc e
      have hb1 : (stepEntry loopFacts handler valid cur (s, acc) e).1.rev ≠ 0 →
          (stepEntry loopFacts handler valid cur (s, acc) e).1.applied < N := fun h => by rw [hu.2 h]; exact he
      have := ih (stepEntry loopFacts handler valid cur (s, acc) e).1 (stepEntry loopFacts handler valid cur (s, acc) e).2 hb1 hrest
      refine ⟨fun hf => ?_, this.2⟩
      have h1 := this.1 hf
      rw [h1] at hf ⊢
      exact hu.1 hf
    · have hst := (step_state handler valid cur s acc e).1 hs
      have hb1 : (stepEntry loopFacts handler valid cur (s, acc) e).1.rev ≠ 0 →
          (stepEntry loopFacts handler valid cur (s, acc) e).1.applied < N := fun _ => by
        rcases hst.2.2 with h | h
        · rw [h]; exact hb hs
        · rw [h]; exact he
      have := ih (stepEntry loopFacts handler valid cur (s, acc) e).1 (stepEntry loopFacts handler valid cur (s, acc) e).2 hb1 hrest
      refine ⟨fun hf => ?_, this.2⟩
      exact absurd hf (run_rev_ne_zero handler valid cur rest _ _ hst.1)

theorem run_guard_irrel (cur cur' : State β) (hc : cur.rev = 0) (es : List (Entry κ)) :
    ∀ (s : State β) (acc : List Result), s.rev ≠ 0 → StrictIdx es → (∀ e ∈ es, s.applied < e.idx) →
      runEntries loopFacts handler valid cur es (s, acc) = runEntries loopFacts handler valid cur' es (s, acc) := by
  induction es with
  | nil => intro s acc _ _ _; rfl
  | cons e rest ih =>
    intro s acc hs hst hlt
    simp only [runEntries, List.foldl_cons] at ih ⊢
    have he : s.applied < e.idx := hlt e (by simp)
    have hstep : stepEntry loopFacts handler valid cur (s, acc) e = stepEntry loopFacts handler valid cur' (s, acc) e := by
      have hng : ¬ e.idx ≤ s.applied := by omega
      rw [step_eq, step_eq]; simp [hc, hng]
    rw [← hstep]
    have hss := (step_state handler valid cur s acc e).1 hs
    have hp := List.pairwise_cons.mp hst
    have h2 : stepEntry loopFacts handler valid cur (s, acc) e =
        ((stepEntry loopFacts handler valid cur (s, acc) e).1, (stepEntry loopFacts handler valid cur (s, acc) e).2) := rfl
    rw [h2]
    apply ih _ _ hss.1 hp.2
    intro x hx
    have hex : e.idx < x.idx := hp.1 x hx
    rcases hss.2.2 with h | h
    · rw [h]; omega
    · rw [h]; exact hex

theorem idx_lt_bound (e : Entry κ) : ∀ (l : List (Entry κ)) (m : Nat), e ∈ l → e.idx < l.foldl (fun m e => max m (e.idx + 1)) m := by
  have mono : ∀ (l : List (Entry κ)) (m : Nat), m ≤ l.foldl (fun m e => max m (e.idx + 1)) m := by
    intro l; induction l with
    | nil => intro m; exact Nat.le_refl _
    | cons y ys ih2 => intro m; simp only [List.foldl_cons]; exact Nat.le_trans (Nat.le_max_left _ _) (ih2 _)
  intro l
  induction l with
  | nil => intro m h; cases h
  | cons x xs ih =>
    intro m h
    simp only [List.foldl_cons]
    rcases List.mem_cons.mp h with h | h
    · subst h
      have := mono xs (max m (e.idx + 1))
      have h3 : e.idx + 1 ≤ max m (e.idx + 1) := Nat.le_max_right _ _
      omega
    · exact ih _ h

/-- **Batch-partition transparency**: if the machine is initialised, or the
    indices are strictly increasing (a committed Raft log), applying `b₁` and then
    `b₂` gives the same state machine (published state and state file) and the same
    per-entry results as applying `b₁ ++ b₂` in one batch.  (The replay guard reads
    the batch-START revision but the RUNNING applied index; this is harmless exactly
    under that hypothesis — see the decided example below.) -/
theorem c18_batch_append (hpre : PreInitStrong handler) (sm : SM β) (b1 b2 : List (Entry κ))
    (h : sm.published.rev ≠ 0 ∨ StrictIdx (b1 ++ b2)) :
    (applyBatch loopFacts handler valid (applyBatch loopFacts handler valid sm b1).1 b2).1 =
      (applyBatch loopFacts handler valid sm (b1 ++ b2)).1 ∧
    (applyBatch loopFacts handler valid sm b1).2 ++
      (applyBatch loopFacts handler valid (applyBatch loopFacts handler valid sm b1).1 b2).2 =
      (applyBatch loopFacts handler valid sm (b1 ++ b2)).2 := by
  have hsplit : runEntries loopFacts handler valid sm.published (b1 ++ b2) (sm.published, []) =
      runEntries loopFacts handler valid sm.published b2 (runEntries loopFacts handler valid sm.published b1 (sm.published, [])) :=
    run_append handler valid _ _ b1 b2 _
  generalize hr1 : runEntries loopFacts handler valid sm.published b1 (sm.published, []) = r1 at hsplit
  obtain ⟨q, res1⟩ := r1
  by_cases hq : q.rev = 0
  · have hp0 : sm.published.rev = 0 := by
      by_cases hp : sm.published.rev = 0
      · exact hp
      · have := run_rev_ne_zero handler valid sm.published b1 sm.published [] hp
        rw [hr1] at this; exact absurd hq this
    have hqp : q = sm.published := by
      have := (run_uninit handler valid hpre sm.published hp0 (b1.foldl (fun m e => max m (e.idx + 1)) 0) b1 sm.published []
        (fun h => absurd hp0 h) (fun e he => idx_lt_bound e b1 0 he)).1
      rw [hr1] at this
      exact this hq
    have h1 : applyBatch loopFacts handler valid sm b1 = (sm, res1) := by
      simp [applyBatch, hr1, hq]
    rw [h1]
    simp only [applyBatch]
    rw [hsplit, hqp, run_acc handler valid loopFacts sm.published b2 sm.published res1]
    split <;> simp
  · have h1 : applyBatch loopFacts handler valid sm b1 = ({ published := q, file := some q }, res1) := by
      simp [applyBatch, hr1, hq]
    rw [h1]
    have hsame : runEntries loopFacts handler valid q b2 (q, []) = runEntries loopFacts handler valid sm.published b2 (q, []) := by
      by_cases hp : sm.published.rev = 0
      · have hst : StrictIdx (b1 ++ b2) := by
          rcases h with h | h
          · exact absurd hp h
          · exact h
        have hpa := List.pairwise_append.mp hst
        symm
        apply run_guard_irrel handler valid sm.published q hp b2 q [] hq hpa.2.1
        intro e he
        have := (run_uninit handler valid hpre sm.published hp e.idx b1 sm.published [] (fun h => absurd hp h)
          (fun x hx => hpa.2.2 x hx e he)).2
        rw [hr1] at this
        exact this hq
      · exact run_cur_irrel handler valid q sm.published hq hp b2 _
    have hne : (runEntries loopFacts handler valid sm.published b2 (q, [])).1.rev ≠ 0 :=
      run_rev_ne_zero handler valid _ b2 q [] hq
    simp only [applyBatch]
    rw [hsplit, run_acc handler valid loopFacts sm.published b2 q res1, hsame]
    simp [hne]

/-- the hypothesis of `c18_batch_append` is needed: from an uninitialised machine
    the log `[init@5, x@3]` (not increasing) ends differently in one batch (`x` is
    applied: the guard reads the batch-start revision 0) and in two batches (`x` is
    `already_applied`). -/
example :
    let handler : State Nat → Nat → Nat → Proposal Nat := fun s _ c => if c = 0 then (if s.rev = 0 then .init 7 else .noop "no_change") else (if s.rev = 0 then .reject "invalid_command" else .change (s.body + c))
    let valid : State Nat → Bool := fun _ => true
    let sm : SM Nat := { published := ⟨0, 0, 0⟩, file := none }
    (applyBatch loopFacts handler valid sm [⟨5, 0⟩, ⟨3, 1⟩]).1.published = ⟨2, 5, 8⟩ ∧
    (applyBatch loopFacts handler valid (applyBatch loopFacts handler valid sm [⟨5, 0⟩]).1 [⟨3, 1⟩]).1.published = ⟨1, 5, 7⟩ := by
  decide

example :
    let handler : State Nat → Nat → Nat → Proposal Nat := fun s _ c => if c = 0 then (if s.rev = 0 then .init 7 else .noop "no_change") else (if s.rev = 0 then .reject "invalid_command" else .change (s.body + c))
    let valid : State Nat → Bool := fun s => s.body < 100
    let sm : SM Nat := { published := ⟨0, 0, 0⟩, file := none }
    StrictIdx ([⟨2, 1⟩, ⟨5, 0⟩] ++ [⟨6, 1⟩, ⟨9, 200⟩] : List (Entry Nat)) ∧
    (applyBatch loopFacts handler valid (applyBatch loopFacts handler valid sm [⟨2, 1⟩, ⟨5, 0⟩]).1 [⟨6, 1⟩, ⟨9, 200⟩]).1.published = ⟨2, 9, 8⟩ ∧
    (applyBatch loopFacts handler valid sm [⟨2, 1⟩, ⟨5, 0⟩, ⟨6, 1⟩, ⟨9, 200⟩]).1.published = ⟨2, 9, 8⟩ := by
  refine ⟨by simp [StrictIdx], by decide, by decide⟩

/-- **Replay is a no-op**: on an initialised machine every entry at or below the
    applied index is answered `Noop already_applied` with the current revision and
    applied index, and the state (published and saved) is exactly the old one. -/
theorem c18_replay_noop (sm : SM β) (es : List (Entry κ)) (hrev : sm.published.rev ≠ 0)
    (hidx : ∀ e ∈ es, e.idx ≤ sm.published.applied) :
    applyBatch loopFacts handler valid sm es =
      ({ published := sm.published, file := some sm.published },
       es.map (fun _ => ⟨.noop reasonAlreadyApplied, sm.published.rev, sm.published.applied⟩)) := by
  have : ∀ (l : List (Entry κ)) (acc : List Result), (∀ e ∈ l, e.idx ≤ sm.published.applied) →
      runEntries loopFacts handler valid sm.published l (sm.published, acc) =
        (sm.published, acc ++ l.map (fun _ => ⟨.noop reasonAlreadyApplied, sm.published.rev, sm.published.applied⟩)) := by
    intro l
    induction l with
    | nil => intro acc _; simp [runEntries]
    | cons e rest ih =>
      intro acc hl
      simp only [runEntries, List.foldl_cons] at ih ⊢
      have he : e.idx ≤ sm.published.applied := hl e (by simp)
      rw [step_eq, if_pos ⟨hrev, he⟩]
      rw [ih _ (fun x hx => hl x (by simp [hx]))]
      simp [List.append_assoc]
  simp [applyBatch, this es [] hidx, hrev]

example : applyBatch loopFacts (fun (s : State Nat) _ (c : Nat) => Proposal.change (s.body + c)) (fun _ => true)
    { published := ⟨3, 10, 0⟩, file := some ⟨3, 10, 0⟩ } [⟨9, 1⟩, ⟨10, 1⟩] =
    ({ published := ⟨3, 10, 0⟩, file := some ⟨3, 10, 0⟩ },
     [⟨.noop reasonAlreadyApplied, 3, 10⟩, ⟨.noop reasonAlreadyApplied, 3, 10⟩]) := by decide

theorem run_applied_covers (cur : State β) (es : List (Entry κ)) : ∀ (s : State β) (acc : List Result), StrictIdx es →
    (runEntries loopFacts handler valid cur es (s, acc)).1.rev ≠ 0 →
      (∀ e ∈ es, e.idx ≤ (runEntries loopFacts handler valid cur es (s, acc)).1.applied) ∧
      (s.rev ≠ 0 → s.applied ≤ (runEntries loopFacts handler valid cur es (s, acc)).1.applied) := by
  induction es with
  | nil => intro s acc _ _; exact ⟨fun e he => by simp at he, fun _ => Nat.le_refl _⟩
  | cons e rest ih =>
    intro s acc hst
    simp only [runEntries, List.foldl_cons] at ih ⊢
    have h2 : stepEntry loopFacts handler valid cur (s, acc) e =
        ((stepEntry loopFacts handler valid cur (s, acc) e).1, (stepEntry loopFacts handler valid cur (s, acc) e).2) := rfl
    rw [h2]
    intro hf
    have hp := List.pairwise_cons.mp hst
    have hss := step_state handler valid cur s acc e
    have hi := ih (stepEntry loopFacts handler valid cur (s, acc) e).1 (stepEntry loopFacts handler valid cur (s, acc) e).2 hp.2 hf
    refine ⟨?_, ?_⟩
    · intro x hx
      rcases List.mem_cons.mp hx with hx | hx
      · subst hx
        by_cases h1 : (stepEntry loopFacts handler valid cur (s, acc) x).1.rev = 0
        · cases rest with
          | nil => simp only [List.foldl_nil] at hf; exact absurd h1 hf
          | cons y ys =>
            have := hi.1 y (by simp)
            have hxy : x.idx < y.idx := hp.1 y (by simp)
            omega
        · exact Nat.le_trans (hss.2 h1) (hi.2 h1)
      · exact hi.1 x hx
    · intro hs
      have := (hss.1 hs)
      exact Nat.le_trans this.2.1 (hi.2 this.1)

/-- **Restart + replay**: apply a committed (strictly increasing) log in one
    batch, restart from the state file, re-apply any already-applied entries of that
    log: the machine is exactly as before and every answer is `Noop already_applied`. -/
theorem c18_restart_replay (empty : State β) (sm : SM β) (es es' : List (Entry κ))
    (hst : StrictIdx es) (hsub : ∀ e ∈ es', e ∈ es)
    (hinit : (applyBatch loopFacts handler valid sm es).1.published.rev ≠ 0) :
    applyBatch loopFacts handler valid (restart empty (applyBatch loopFacts handler valid sm es).1) es' =
      ((applyBatch loopFacts handler valid sm es).1,
       es'.map (fun _ => ⟨.noop reasonAlreadyApplied, (applyBatch loopFacts handler valid sm es).1.published.rev,
                          (applyBatch loopFacts handler valid sm es).1.published.applied⟩)) := by
  generalize hsm : (applyBatch loopFacts handler valid sm es).1 = sm' at hinit ⊢
  have hfile : sm'.file = some sm'.published ∧ (∀ e ∈ es, e.idx ≤ sm'.published.applied) := by
    simp only [applyBatch] at hsm
    by_cases h0 : (runEntries loopFacts handler valid sm.published es (sm.published, [])).1.rev = 0
    · rw [if_pos h0] at hsm
      simp only at hsm
      subst hsm
      have := run_rev_ne_zero handler valid sm.published es sm.published [] hinit
      exact absurd h0 this
    · rw [if_neg h0] at hsm
      simp only at hsm
      subst hsm
      exact ⟨rfl, (run_applied_covers handler valid sm.published es sm.published [] hst h0).1⟩
  obtain ⟨p, f⟩ := sm'
  simp only at hfile hinit
  have hre : restart empty ({ published := p, file := f } : SM β) = { published := p, file := f } := by
    simp [restart, hfile.1]
  rw [hre]
  have := c18_replay_noop handler valid ({ published := p, file := f } : SM β) es' hinit (fun e he => hfile.2 e (hsub e he))
  rw [this]
  simp [hfile.1]

/-- **Everything published or saved is valid**: if `Validate` does not look at the
    applied index, `ApplyBatch` keeps "the published state, when initialised, passed
    `Validate`" (so it holds after any sequence of batches), and either nothing was
    published or what is saved is exactly what is published. -/
theorem c18_published_valid (hva : ValidIgnoresApplied valid) (sm : SM β) (es : List (Entry κ))
    (h : PublishedValid valid sm) :
    PublishedValid valid (applyBatch loopFacts handler valid sm es).1 ∧
    ((applyBatch loopFacts handler valid sm es).1 = sm ∨
     (applyBatch loopFacts handler valid sm es).1.file = some (applyBatch loopFacts handler valid sm es).1.published) := by
  have key : ∀ (l : List (Entry κ)) (s : State β) (acc : List Result), (s.rev ≠ 0 → valid s = true) →
      ((runEntries loopFacts handler valid sm.published l (s, acc)).1.rev ≠ 0 →
        valid (runEntries loopFacts handler valid sm.published l (s, acc)).1 = true) := by
    intro l
    induction l with
    | nil => intro s acc hs; exact hs
    | cons e rest ih =>
      intro s acc hs
      simp only [runEntries, List.foldl_cons] at ih ⊢
      have h2 : stepEntry loopFacts handler valid sm.published (s, acc) e =
        ((stepEntry loopFacts handler valid sm.published (s, acc) e).1, (stepEntry loopFacts handler valid sm.published (s, acc) e).2) := rfl
      rw [h2]
      apply ih
      rw [step_fst]
      by_cases hg : sm.published.rev ≠ 0 ∧ e.idx ≤ s.applied
      · rw [if_pos hg]; exact hs
      · rw [if_neg hg]
        have hv1 : (mutate handler valid s e.idx e.cmd).1.rev ≠ 0 → valid (mutate handler valid s e.idx e.cmd).1 = true := by
          rcases mutate_cases handler valid s e.idx e.cmd with ⟨h1, _⟩ | ⟨cand, hh, hv, _⟩ | ⟨cand, hh, hv, _⟩ | ⟨body, _, hh, hv⟩
          · rw [h1]; exact hs
          · rw [hh]; exact fun _ => hv
          · rw [hh]; exact fun _ => hv
          · rw [hh]; exact fun _ => hv
        intro hr
        rw [bump_rev] at hr
        unfold bump
        split
        · rw [hva]; exact hv1 hr
        · exact hv1 hr
  simp only [applyBatch]
  split
  · exact ⟨h, Or.inl rfl⟩
  · rename_i hne
    exact ⟨fun _ => key es sm.published [] h hne, Or.inr rfl⟩

example : PublishedValid (fun (s : State Nat) => decide (s.body < 10)) { published := ⟨2, 5, 3⟩, file := none } := by
  intro _; decide
example : ValidIgnoresApplied (fun (s : State Nat) => decide (s.body < 10)) := fun _ _ => rfl
example : PreInitStrong (fun (s : State Nat) (_ : Nat) (c : Nat) =>
    if s.rev = 0 then (if c = 0 then Proposal.init 1 else .reject "invalid_command") else .change c) := by
  intro s idx c hs
  by_cases hc : c = 0
  · exact Or.inr (Or.inr ⟨1, by simp [hs, hc]⟩)
  · exact Or.inl ⟨"invalid_command", by simp [hs, hc]⟩
example : Coherent (⟨0, 0, 0⟩ : State Nat) { published := ⟨0, 0, 0⟩, file := none } := Or.inr ⟨rfl, rfl⟩
end WK.C18

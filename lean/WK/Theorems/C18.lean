import WK.Spec.C18
import WK.Gen.C18
import WK.Theorems.C18_Mutate
import WK.Proofs.C18_Loop
/-
  C18 — Controller state machine applies commands deterministically: the batch
  loop.

  `WK.Proofs.C18_Loop` proves the loop theory for an ARBITRARY function `mutate`
  that satisfies `MutateContract` (Noop/Rejected ⇒ candidate unchanged, …) with the
  guard/bump comparisons the extractor read out of fsm.go on this run
  (`WK.Gen.C18.loopFacts`).  Here:
  * the `_contract` theorems restate that theory — they are what the batch
    property needs from the real `applyMutation`, and the harness checks exactly that
    contract per command on the real handlers (`contract` op, verdict names the kind);
  * the theorems without suffix are the corollaries for the modelled commit
    discipline `mutate handler valid`, for EVERY handler and validation function —
    these are about `applyBatch`, the function the driver executes.
-/
namespace WK.C18
open WK.Gen.C18

variable {β κ : Type} (handler : State β → Nat → κ → Proposal β) (valid : State β → Bool)

/-- the handler-level loop is the `mutate`-level loop at `mutate handler valid` -/
theorem applyBatch_eq (F : LoopFacts) (sm : SM β) (es : List (Entry κ)) :
    applyBatch F handler valid sm es = applyBatchM F (mutate handler valid) sm es := rfl

section contract
variable (mutate : State β → Nat → κ → State β × Outcome)

/-- **Batch-partition transparency from the contract alone.** -/
theorem c18_batch_append_contract (hmc : MutateContract mutate) (hpre : UninitContract mutate) (sm : SM β) (b1 b2 : List (Entry κ))
    (h : sm.published.rev ≠ 0 ∨ StrictIdx (b1 ++ b2)) :
    (applyBatchM loopFacts mutate (applyBatchM loopFacts mutate sm b1).1 b2).1 = (applyBatchM loopFacts mutate sm (b1 ++ b2)).1 ∧
    (applyBatchM loopFacts mutate sm b1).2 ++ (applyBatchM loopFacts mutate (applyBatchM loopFacts mutate sm b1).1 b2).2 =
      (applyBatchM loopFacts mutate sm (b1 ++ b2)).2 :=
  M.c18_batch_append mutate hmc hpre sm b1 b2 h

/-- **Restart + replay from the contract alone.** -/
theorem c18_restart_replay_contract (hmc : MutateContract mutate) (empty : State β) (sm : SM β) (es es' : List (Entry κ))
    (hst : StrictIdx es) (hsub : ∀ e ∈ es', e ∈ es)
    (hinit : (applyBatchM loopFacts mutate sm es).1.published.rev ≠ 0) :
    applyBatchM loopFacts mutate (restart empty (applyBatchM loopFacts mutate sm es).1) es' =
      ((applyBatchM loopFacts mutate sm es).1,
       es'.map (fun _ => ⟨.noop reasonAlreadyApplied, (applyBatchM loopFacts mutate sm es).1.published.rev,
                          (applyBatchM loopFacts mutate sm es).1.published.applied⟩)) :=
  M.c18_restart_replay mutate hmc empty sm es es' hst hsub hinit

/-- **Published states are valid from the contract alone** (`ValidContract`: what a
    command produces passed `Validate`). -/
theorem c18_published_valid_contract (valid : State β → Bool) (hvc : ValidContract valid mutate) (hva : ValidIgnoresApplied valid)
    (sm : SM β) (es : List (Entry κ)) (h : PublishedValid valid sm) :
    PublishedValid valid (applyBatchM loopFacts mutate sm es).1 ∧
    ((applyBatchM loopFacts mutate sm es).1 = sm ∨
     (applyBatchM loopFacts mutate sm es).1.file = some (applyBatchM loopFacts mutate sm es).1.published) :=
  M.c18_published_valid mutate valid hvc hva sm es h

/-- non-vacuity of the contract theorems: a `mutate` that is not of the modelled
    handler form (it counts commands in the body) meets both contracts -/
example : MutateContract (fun (s : State Nat) (i : Nat) (c : Nat) =>
      if s.rev = 0 then (if c = 0 then ((⟨1, i, 0⟩ : State Nat), Outcome.changed) else (s, .rejected "invalid_command"))
      else if c = 0 then (s, .noop "no_change") else (⟨s.rev + 1, s.applied, s.body + c⟩, .changed)) ∧
    UninitContract (fun (s : State Nat) (i : Nat) (c : Nat) =>
      if s.rev = 0 then (if c = 0 then ((⟨1, i, 0⟩ : State Nat), Outcome.changed) else (s, .rejected "invalid_command"))
      else if c = 0 then (s, .noop "no_change") else (⟨s.rev + 1, s.applied, s.body + c⟩, .changed)) := by
  refine ⟨?_, ?_⟩
  · intro s i c
    by_cases h0 : s.rev = 0 <;> by_cases hc : c = 0 <;> simp [h0, hc]
  · intro s i c h0
    by_cases hc : c = 0 <;> simp [h0, hc]

end contract

/-- **Batch-partition transparency**: if the machine is initialised, or the
    indices are strictly increasing (a committed Raft log), applying `b₁` and then
    `b₂` gives the same state machine (published state and state file) and the same
    per-entry results as applying `b₁ ++ b₂` in one batch.  (The replay guard reads
    the batch-START revision but the RUNNING applied index; this is harmless exactly
    under that hypothesis — see the decided example below.) -/
theorem c18_batch_append (hpre : PreInitStrong handler) (sm : SM β) (b1 b2 : List (Entry κ))
    (h : sm.published.rev ≠ 0 ∨ StrictIdx (b1 ++ b2)) :
    (applyBatch loopFacts handler valid (applyBatch loopFacts handler valid sm b1).1 b2).1 =
      (applyBatch loopFacts handler valid sm (b1 ++ b2)).1 ∧
    (applyBatch loopFacts handler valid sm b1).2 ++
      (applyBatch loopFacts handler valid (applyBatch loopFacts handler valid sm b1).1 b2).2 =
      (applyBatch loopFacts handler valid sm (b1 ++ b2)).2 :=
  M.c18_batch_append (mutate handler valid) (c18_mutate_contract handler valid) (c18_mutate_uninit handler valid hpre) sm b1 b2 h

/-- the hypothesis of `c18_batch_append` is needed: from an uninitialised machine
    the log `[init@5, x@3]` (not increasing) ends differently in one batch (`x` is
    applied: the guard reads the batch-start revision 0) and in two batches (`x` is
    `already_applied`). -/
example :
    let handler : State Nat → Nat → Nat → Proposal Nat := fun s _ c => if c = 0 then (if s.rev = 0 then .init 7 else .noop "no_change") else (if s.rev = 0 then .reject "invalid_command" else .change (s.body + c))
    let valid : State Nat → Bool := fun _ => true
    let sm : SM Nat := { published := ⟨0, 0, 0⟩, file := none }
    (applyBatch loopFacts handler valid sm [⟨5, 0⟩, ⟨3, 1⟩]).1.published = ⟨2, 5, 8⟩ ∧
    (applyBatch loopFacts handler valid (applyBatch loopFacts handler valid sm [⟨5, 0⟩]).1 [⟨3, 1⟩]).1.published = ⟨1, 5, 7⟩ := by
  decide

example :
    let handler : State Nat → Nat → Nat → Proposal Nat := fun s _ c => if c = 0 then (if s.rev = 0 then .init 7 else .noop "no_change") else (if s.rev = 0 then .reject "invalid_command" else .change (s.body + c))
    let valid : State Nat → Bool := fun s => s.body < 100
    let sm : SM Nat := { published := ⟨0, 0, 0⟩, file := none }
    StrictIdx ([⟨2, 1⟩, ⟨5, 0⟩] ++ [⟨6, 1⟩, ⟨9, 200⟩] : List (Entry Nat)) ∧
    (applyBatch loopFacts handler valid (applyBatch loopFacts handler valid sm [⟨2, 1⟩, ⟨5, 0⟩]).1 [⟨6, 1⟩, ⟨9, 200⟩]).1.published = ⟨2, 9, 8⟩ ∧
    (applyBatch loopFacts handler valid sm [⟨2, 1⟩, ⟨5, 0⟩, ⟨6, 1⟩, ⟨9, 200⟩]).1.published = ⟨2, 9, 8⟩ := by
  refine ⟨by simp [StrictIdx], by decide, by decide⟩

/-- **Replay is a no-op**: on an initialised machine every entry at or below the
    applied index is answered `Noop already_applied` with the current revision and
    applied index, and the state (published and saved) is exactly the old one. -/
theorem c18_replay_noop (sm : SM β) (es : List (Entry κ)) (hrev : sm.published.rev ≠ 0)
    (hidx : ∀ e ∈ es, e.idx ≤ sm.published.applied) :
    applyBatch loopFacts handler valid sm es =
      ({ published := sm.published, file := some sm.published },
       es.map (fun _ => ⟨.noop reasonAlreadyApplied, sm.published.rev, sm.published.applied⟩)) :=
  M.c18_replay_noop (mutate handler valid) (c18_mutate_contract handler valid) sm es hrev hidx

example : applyBatch loopFacts (fun (s : State Nat) _ (c : Nat) => Proposal.change (s.body + c)) (fun _ => true)
    { published := ⟨3, 10, 0⟩, file := some ⟨3, 10, 0⟩ } [⟨9, 1⟩, ⟨10, 1⟩] =
    ({ published := ⟨3, 10, 0⟩, file := some ⟨3, 10, 0⟩ },
     [⟨.noop reasonAlreadyApplied, 3, 10⟩, ⟨.noop reasonAlreadyApplied, 3, 10⟩]) := by decide

/-- **Restart + replay**: apply a committed (strictly increasing) log in one
    batch, restart from the state file, re-apply any already-applied entries of that
    log: the machine is exactly as before and every answer is `Noop already_applied`. -/
theorem c18_restart_replay (empty : State β) (sm : SM β) (es es' : List (Entry κ))
    (hst : StrictIdx es) (hsub : ∀ e ∈ es', e ∈ es)
    (hinit : (applyBatch loopFacts handler valid sm es).1.published.rev ≠ 0) :
    applyBatch loopFacts handler valid (restart empty (applyBatch loopFacts handler valid sm es).1) es' =
      ((applyBatch loopFacts handler valid sm es).1,
       es'.map (fun _ => ⟨.noop reasonAlreadyApplied, (applyBatch loopFacts handler valid sm es).1.published.rev,
                          (applyBatch loopFacts handler valid sm es).1.published.applied⟩)) :=
  M.c18_restart_replay (mutate handler valid) (c18_mutate_contract handler valid) empty sm es es' hst hsub hinit

/-- **Everything published or saved is valid**: if `Validate` does not look at the
    applied index, `ApplyBatch` keeps "the published state, when initialised, passed
    `Validate`" (so it holds after any sequence of batches), and either nothing was
    published or what is saved is exactly what is published. -/
theorem c18_published_valid (hva : ValidIgnoresApplied valid) (sm : SM β) (es : List (Entry κ))
    (h : PublishedValid valid sm) :
    PublishedValid valid (applyBatch loopFacts handler valid sm es).1 ∧
    ((applyBatch loopFacts handler valid sm es).1 = sm ∨
     (applyBatch loopFacts handler valid sm es).1.file = some (applyBatch loopFacts handler valid sm es).1.published) :=
  M.c18_published_valid (mutate handler valid) valid (c18_mutate_valid handler valid) hva sm es h

example : PublishedValid (fun (s : State Nat) => decide (s.body < 10)) { published := ⟨2, 5, 3⟩, file := none } := by
  intro _; decide
example : ValidIgnoresApplied (fun (s : State Nat) => decide (s.body < 10)) := fun _ _ => rfl
example : Coherent (⟨0, 0, 0⟩ : State Nat) { published := ⟨0, 0, 0⟩, file := none } := Or.inr ⟨rfl, rfl⟩

end WK.C18

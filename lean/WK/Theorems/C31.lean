import WK.Spec.C31
import WK.Model.C31
import WK.Proofs.C31_judge
import WK.Proofs.C31_retry
import WK.Proofs.C31_packing
import WK.Gen.C31
/-
  C31 — Online delivery preserves per-channel order and recipient coverage.
-/
namespace WK.C31

/-! ## channel order: FIFO shards, one worker per shard, any interleaving -/

@[simp] theorem updF_same {α : Type} (f : Nat → α) (k : Nat) (v : α) : updF f k v k = v := by simp [updF]
theorem updF_ne {α : Type} (f : Nat → α) {k x : Nat} (v : α) (h : x ≠ k) : updF f k v x = f x := by simp [updF, h]

structure QInv (shardOf : Nat → Nat) (st : QSt) : Prop where
  qsorted : ∀ sh, ((st.queue sh).map (·.1)).Pairwise (· < ·)
  qbound : ∀ sh x, x ∈ st.queue sh → x.1 < st.next ∧ shardOf x.2 = sh
  curOk : ∀ sh p c n, st.cur sh = some (p, c, n) → p < st.next ∧ shardOf c = sh ∧ ∀ x ∈ st.queue sh, p < x.1
  outOk : ∀ sh c p, (sh, c, p) ∈ st.out → shardOf c = sh ∧ p < st.next ∧ (∀ x ∈ st.queue sh, p < x.1) ∧
      (∀ p' c' n, st.cur sh = some (p', c', n) → p ≤ p')
  outSorted : ∀ sh, ((st.out.filter (fun e => e.1 == sh)).map (·.2.2)).Pairwise (· ≤ ·)

theorem qinv_init (shardOf : Nat → Nat) : QInv shardOf {} := by
  constructor <;> intros <;> simp_all

theorem qinv_step {shardOf : Nat → Nat} {st st' : QSt} (l : QL) (hI : QInv shardOf st)
    (h : qstep shardOf st l = some st') : QInv shardOf st' := by
  cases l with
  | enq c =>
    simp only [qstep] at h
    cases h
    constructor
    · intro sh
      by_cases hs : sh = shardOf c
      · subst hs
        simp only [updF_same, List.map_append, List.map_cons, List.map_nil]
        refine List.pairwise_append.mpr ⟨hI.qsorted _, by simp, ?_⟩
        intro a ha b hb
        simp at hb; subst hb
        obtain ⟨x, hx, rfl⟩ := List.mem_map.mp ha
        exact (hI.qbound _ x hx).1
      · simpa [updF_ne _ _ hs] using hI.qsorted sh
    · intro sh x hx
      by_cases hs : sh = shardOf c
      · subst hs
        simp only [updF_same, List.mem_append, List.mem_singleton] at hx
        rcases hx with hx | hx
        · have := hI.qbound _ x hx; exact ⟨by simp; omega, this.2⟩
        · subst hx; exact ⟨by simp, rfl⟩
      · simp only [updF_ne _ _ hs] at hx
        have := hI.qbound _ x hx; exact ⟨by simp; omega, this.2⟩
    · intro sh p c' n hc
      have := hI.curOk sh p c' n hc
      refine ⟨by simp; omega, this.2.1, ?_⟩
      intro x hx
      by_cases hs : sh = shardOf c
      · subst hs
        simp only [updF_same, List.mem_append, List.mem_singleton] at hx
        rcases hx with hx | hx
        · exact this.2.2 x hx
        · subst hx; exact this.1
      · simp only [updF_ne _ _ hs] at hx; exact this.2.2 x hx
    · intro sh c' p hm
      have := hI.outOk sh c' p hm
      refine ⟨this.1, by simp; omega, ?_, this.2.2.2⟩
      intro x hx
      by_cases hs : sh = shardOf c
      · subst hs
        simp only [updF_same, List.mem_append, List.mem_singleton] at hx
        rcases hx with hx | hx
        · exact this.2.2.1 x hx
        · subst hx; exact this.2.1
      · simp only [updF_ne _ _ hs] at hx; exact this.2.2.1 x hx
    · exact hI.outSorted
  | pop sh n =>
    simp only [qstep] at h
    split at h
    · rename_i hcur hq
      cases h
      rename_i p c rest
      have hsorted := hI.qsorted sh
      rw [hq] at hsorted
      simp only [List.map_cons, List.pairwise_cons] at hsorted
      constructor
      · intro s2
        by_cases hs : s2 = sh
        · subst hs; simpa using hsorted.2
        · simpa [updF_ne _ _ hs] using hI.qsorted s2
      · intro s2 x hx
        by_cases hs : s2 = sh
        · subst hs
          simp only [updF_same] at hx
          exact hI.qbound _ x (by rw [hq]; exact List.mem_cons_of_mem _ hx)
        · simp only [updF_ne _ _ hs] at hx; exact hI.qbound _ x hx
      · intro s2 p' c' n' hc
        by_cases hs : s2 = sh
        · subst hs
          simp only [updF_same, Option.some.injEq, Prod.mk.injEq] at hc
          obtain ⟨rfl, rfl, rfl⟩ := hc
          have hb := hI.qbound s2 (p, c) (by rw [hq]; exact List.mem_cons_self)
          refine ⟨hb.1, hb.2, ?_⟩
          intro x hx
          simp only [updF_same] at hx
          exact hsorted.1 x.1 (List.mem_map.mpr ⟨x, hx, rfl⟩)
        · simp only [updF_ne _ _ hs] at hc ⊢
          exact hI.curOk s2 p' c' n' hc
      · intro s2 c' p' hm
        have := hI.outOk s2 c' p' hm
        by_cases hs : s2 = sh
        · subst hs
          refine ⟨this.1, this.2.1, ?_, ?_⟩
          · intro x hx
            simp only [updF_same] at hx
            exact this.2.2.1 x (by rw [hq]; exact List.mem_cons_of_mem _ hx)
          · intro p2 c2 n2 hc
            simp only [updF_same, Option.some.injEq, Prod.mk.injEq] at hc
            obtain ⟨rfl, rfl, rfl⟩ := hc
            exact Nat.le_of_lt (this.2.2.1 (p, c) (by rw [hq]; exact List.mem_cons_self))
        · simpa [updF_ne _ _ hs] using this
      · exact hI.outSorted
    · cases h
  | emit sh =>
    simp only [qstep] at h
    split at h
    · rename_i p c n hcur
      cases h
      have hc := hI.curOk sh p c (n+1) hcur
      constructor
      · exact hI.qsorted
      · exact hI.qbound
      · intro s2 p' c' n' hc'
        by_cases hs : s2 = sh
        · subst hs
          simp only [updF_same, Option.some.injEq, Prod.mk.injEq] at hc'
          obtain ⟨rfl, rfl, rfl⟩ := hc'
          exact hc
        · simp only [updF_ne _ _ hs] at hc'; exact hI.curOk s2 p' c' n' hc'
      · intro s2 c' p' hm
        rcases List.mem_append.mp hm with hm | hm
        · have := hI.outOk s2 c' p' hm
          refine ⟨this.1, this.2.1, this.2.2.1, ?_⟩
          intro p2 c2 n2 hc2
          by_cases hs : s2 = sh
          · subst hs
            simp only [updF_same, Option.some.injEq, Prod.mk.injEq] at hc2
            obtain ⟨rfl, rfl, rfl⟩ := hc2
            exact this.2.2.2 _ _ _ hcur
          · simp only [updF_ne _ _ hs] at hc2; exact this.2.2.2 _ _ _ hc2
        · simp only [List.mem_singleton, Prod.mk.injEq] at hm
          obtain ⟨rfl, rfl, rfl⟩ := hm
          refine ⟨hc.2.1, hc.1, hc.2.2, ?_⟩
          intro p2 c2 n2 hc2
          simp only [updF_same, Option.some.injEq, Prod.mk.injEq] at hc2
          omega
      · intro s2
        by_cases hs : s2 = sh
        · subst hs
          simp only [List.filter_append, List.map_append]
          have : List.filter (fun e : Nat × Nat × Nat => e.1 == s2) [(s2, c, p)] = [(s2, c, p)] := by simp
          rw [this]
          refine List.pairwise_append.mpr ⟨hI.outSorted s2, by simp, ?_⟩
          intro a ha b hb
          simp at hb; subst hb
          obtain ⟨e, he, rfl⟩ := List.mem_map.mp ha
          have hem := (List.mem_filter.mp he)
          have h1 : e.1 = s2 := by simpa using hem.2
          obtain ⟨e1, e2, e3⟩ := e
          simp only at h1; subst h1
          exact (hI.outOk _ _ _ hem.1).2.2.2 _ _ _ hcur
        · have : List.filter (fun e : Nat × Nat × Nat => e.1 == s2) [(sh, c, p)] = [] := by
            simp [Ne.symm hs]
          simp only [List.filter_append, this, List.append_nil]
          exact hI.outSorted s2
    · cases h
  | finish sh =>
    simp only [qstep] at h
    split at h
    · rename_i p c hcur
      cases h
      constructor
      · exact hI.qsorted
      · exact hI.qbound
      · intro s2 p' c' n' hc'
        by_cases hs : s2 = sh
        · subst hs; simp at hc'
        · simp only [updF_ne _ _ hs] at hc'; exact hI.curOk s2 p' c' n' hc'
      · intro s2 c' p' hm
        have := hI.outOk s2 c' p' hm
        refine ⟨this.1, this.2.1, this.2.2.1, ?_⟩
        intro p2 c2 n2 hc2
        by_cases hs : s2 = sh
        · subst hs; simp at hc2
        · simp only [updF_ne _ _ hs] at hc2; exact this.2.2.2 _ _ _ hc2
      · exact hI.outSorted
    · cases h

theorem qinv_reach {shardOf : Nat → Nat} {st : QSt} (h : QReach shardOf st) : QInv shardOf st := by
  induction h with
  | init => exact qinv_init shardOf
  | step l _ hs ih => exact qinv_step l ih hs

/-- For every interleaving of admissions and shard workers: the push attempts
    made for one channel appear in the order in which that channel's plans were
    admitted (serial = admission order; a channel's plans are admitted in
    message-sequence order by its single writer). -/
theorem c31_channel_order {shardOf : Nat → Nat} {st : QSt} (h : QReach shardOf st) (c : Nat) :
    (chanSerials c st.out).Pairwise (· ≤ ·) := by
  have hI := qinv_reach h
  have hs := hI.outSorted (shardOf c)
  have hsub : List.Sublist (chanSerials c st.out)
      ((st.out.filter (fun e => e.1 == shardOf c)).map (·.2.2)) := by
    unfold chanSerials
    apply List.Sublist.map
    have : st.out.filter (fun e => e.2.1 == c) =
        (st.out.filter (fun e => e.1 == shardOf c)).filter (fun e => e.2.1 == c) := by
      rw [List.filter_filter]
      apply List.filter_congr
      intro e he
      obtain ⟨sh, c', p⟩ := e
      by_cases hc : c' = c
      · subst hc
        have := (hI.outOk sh c' p he).1
        simp [this]
      · simp [hc]
    rw [this]
    exact List.filter_sublist
  exact hs.sublist hsub

example : ∃ st, qrun (fun c => c % 2) {} [.enq 4, .enq 6, .enq 5, .pop 0 2, .pop 1 1, .emit 0, .emit 1, .emit 0, .finish 0, .pop 0 1, .emit 0] = some st ∧
    st.out = [(0, 4, 0), (1, 5, 2), (0, 4, 0), (0, 6, 1)] ∧ chanSerials 4 st.out = [0, 0] := ⟨_, rfl, rfl, rfl⟩

/-! ## retry narrowing -/

theorem retryableOf_subset : ∀ (rs : List Route) (ds : List Disp), ∀ r ∈ retryableOf rs ds, r ∈ rs
  | [], _, r, h => by simp [retryableOf] at h
  | _ :: _, [], r, h => by simp [retryableOf] at h
  | x :: rs, d :: ds, r, h => by
    unfold retryableOf at h
    split at h
    · rcases List.mem_cons.mp h with h | h
      · subst h; exact List.mem_cons_self
      · exact List.mem_cons_of_mem _ (retryableOf_subset rs ds r h)
    · exact List.mem_cons_of_mem _ (retryableOf_subset rs ds r h)

/-- Whatever the owners answer (any oracle, including transport errors): every
    attempt of `pushWithRetry` addresses only routes of the original push, there
    are at most `fuel` = RetryMaxAttempts attempts, and after an answered attempt
    every later attempt addresses only routes that answer classified retryable —
    a route that was accepted or dropped, and any other session, is never
    addressed again. -/
theorem c31_retry_exact_target (orc : Oracle) : ∀ (fuel k : Nat) (routes : List Route),
    (∀ att ∈ retryLoop orc fuel k routes, ∀ r ∈ att, r ∈ routes) ∧
    (retryLoop orc fuel k routes).length ≤ fuel ∧
    (∀ ds, orc k routes = some ds → ∀ att ∈ (retryLoop orc fuel k routes).drop 1, ∀ r ∈ att, r ∈ retryableOf routes ds)
  | 0, _, _ => by simp [retryLoop]
  | fuel+1, k, routes => by
    unfold retryLoop
    cases horc : orc k routes with
    | none =>
      obtain ⟨ih1, ih2, _⟩ := c31_retry_exact_target orc fuel (k+1) routes
      refine ⟨?_, by simp; omega, by intro ds hd; cases hd⟩
      intro att hatt r hr
      rcases List.mem_cons.mp hatt with h | h
      · subst h; exact hr
      · exact ih1 att h r hr
    | some ds =>
      by_cases hre : retryableOf routes ds = []
      · simp only [hre, if_true]
        refine ⟨by intro att hatt r hr; simp at hatt; subst hatt; exact hr, by simp, by intro ds' _; simp⟩
      · simp only [hre, if_false]
        obtain ⟨ih1, ih2, _⟩ := c31_retry_exact_target orc fuel (k+1) (retryableOf routes ds)
        refine ⟨?_, by simp; omega, ?_⟩
        · intro att hatt r hr
          rcases List.mem_cons.mp hatt with h | h
          · subst h; exact hr
          · exact retryableOf_subset routes ds r (ih1 att h r hr)
        · intro ds' hds' att hatt r hr
          cases hds'
          simp only [List.drop_succ_cons, List.drop_zero] at hatt
          exact ih1 att hatt r hr

example : retryLoop (fun k _ => if k = 0 then some [.accepted, .retryable, .dropped] else if k = 1 then none else some [.accepted])
    4 0 [⟨1, 1, 11⟩, ⟨2, 1, 21⟩, ⟨3, 1, 31⟩] = [[⟨1, 1, 11⟩, ⟨2, 1, 21⟩, ⟨3, 1, 31⟩], [⟨2, 1, 21⟩], [⟨2, 1, 21⟩]] := by decide

/-! ## recipient coverage of one plan -/

theorem appendOffline_spec (routes : List Route) : ∀ (recips out : List Nat), out.Nodup →
    (appendOffline out recips routes).Nodup ∧
    (∀ u, u ∈ appendOffline out recips routes ↔ u ∈ out ∨ (u ∈ recips ∧ ∀ r ∈ routes, r.uid ≠ u))
  | [], out, hnd => by simp [appendOffline, hnd]
  | x :: xs, out, hnd => by
    have hstep : appendOffline out (x :: xs) routes =
        appendOffline (if routes.any (fun r => r.uid == x) || out.contains x then out else out ++ [x]) xs routes := by
      simp [appendOffline]
    rw [hstep]
    by_cases hc : (routes.any (fun r => r.uid == x) || out.contains x) = true
    · simp only [hc, if_true]
      obtain ⟨ih1, ih2⟩ := appendOffline_spec routes xs out hnd
      refine ⟨ih1, ?_⟩
      intro u
      rw [ih2 u]
      constructor
      · rintro (h | ⟨h1, h2⟩)
        · exact Or.inl h
        · exact Or.inr ⟨List.mem_cons_of_mem _ h1, h2⟩
      · rintro (h | ⟨h1, h2⟩)
        · exact Or.inl h
        · rcases List.mem_cons.mp h1 with h | h
          · subst h
            simp only [Bool.or_eq_true, List.any_eq_true, beq_iff_eq, List.contains_eq_mem, decide_eq_true_eq] at hc
            rcases hc with ⟨r, hr, hru⟩ | hc
            · exact absurd hru (h2 r hr)
            · exact Or.inl hc
          · exact Or.inr ⟨h, h2⟩
    · simp only [hc, Bool.false_eq_true, if_false]
      simp only [Bool.or_eq_true, List.any_eq_true, beq_iff_eq, List.contains_eq_mem, decide_eq_true_eq, not_or, not_exists, not_and] at hc
      have hnd' : (out ++ [x]).Nodup := List.nodup_append.mpr ⟨hnd, by simp, by
        intro a ha b hb; simp at hb; subst hb; exact fun hab => hc.2 (hab ▸ ha)⟩
      obtain ⟨ih1, ih2⟩ := appendOffline_spec routes xs (out ++ [x]) hnd'
      refine ⟨ih1, ?_⟩
      intro u
      rw [ih2 u]
      constructor
      · rintro (h | ⟨h1, h2⟩)
        · rcases List.mem_append.mp h with h | h
          · exact Or.inl h
          · simp at h; subst h; exact Or.inr ⟨List.mem_cons_self, fun r hr => hc.1 r hr⟩
        · exact Or.inr ⟨List.mem_cons_of_mem _ h1, h2⟩
      · rintro (h | ⟨h1, h2⟩)
        · exact Or.inl (List.mem_append_left _ h)
        · rcases List.mem_cons.mp h1 with h | h
          · subst h; exact Or.inl (List.mem_append_right _ (by simp))
          · exact Or.inr ⟨h, h2⟩

theorem planOffline_spec : ∀ (ts : List TargetAns) (out : List Nat), out.Nodup →
    (planOffline out ts).Nodup ∧
    (∀ u, u ∈ planOffline out ts ↔ u ∈ out ∨ ∃ t ∈ ts, ∃ rs, t.routes = some rs ∧ u ∈ t.recips ∧ ∀ r ∈ rs, r.uid ≠ u)
  | [], out, hnd => by simp [planOffline, hnd]
  | t :: ts, out, hnd => by
    unfold planOffline
    cases hr : t.routes with
    | none =>
      simp only
      obtain ⟨ih1, ih2⟩ := planOffline_spec ts out hnd
      refine ⟨ih1, fun u => ?_⟩
      rw [ih2 u]
      constructor
      · rintro (h | ⟨t', ht', rs, h1, h2, h3⟩)
        · exact Or.inl h
        · exact Or.inr ⟨t', List.mem_cons_of_mem _ ht', rs, h1, h2, h3⟩
      · rintro (h | ⟨t', ht', rs, h1, h2, h3⟩)
        · exact Or.inl h
        · rcases List.mem_cons.mp ht' with h | h
          · subst h; rw [hr] at h1; cases h1
          · exact Or.inr ⟨t', h, rs, h1, h2, h3⟩
    | some rs =>
      simp only
      obtain ⟨a1, a2⟩ := appendOffline_spec rs t.recips out hnd
      obtain ⟨ih1, ih2⟩ := planOffline_spec ts _ a1
      refine ⟨ih1, fun u => ?_⟩
      rw [ih2 u, a2 u]
      constructor
      · rintro ((h | ⟨h1, h2⟩) | ⟨t', ht', rs', h1, h2, h3⟩)
        · exact Or.inl h
        · exact Or.inr ⟨t, List.mem_cons_self, rs, hr, h1, h2⟩
        · exact Or.inr ⟨t', List.mem_cons_of_mem _ ht', rs', h1, h2, h3⟩
      · rintro (h | ⟨t', ht', rs', h1, h2, h3⟩)
        · exact Or.inl (Or.inl h)
        · rcases List.mem_cons.mp ht' with h | h
          · subst h; rw [hr] at h1; cases h1; exact Or.inl (Or.inr ⟨h2, h3⟩)
          · exact Or.inr ⟨t', h, rs', h1, h2, h3⟩

theorem planPushes_mem (s : Sender) : ∀ (ts : List TargetAns) (r : Route),
    r ∈ planPushes s ts ↔ ∃ t ∈ ts, ∃ rs, t.routes = some rs ∧ r ∈ rs ∧ r.node ≠ 0 ∧ suppressedR s r = false
  | [], r => by simp [planPushes]
  | t :: ts, r => by
    unfold planPushes
    cases hr : t.routes with
    | none =>
      simp only
      rw [planPushes_mem s ts r]
      constructor
      · rintro ⟨t', ht', rs, h1, h2⟩; exact ⟨t', List.mem_cons_of_mem _ ht', rs, h1, h2⟩
      · rintro ⟨t', ht', rs, h1, h2⟩
        rcases List.mem_cons.mp ht' with h | h
        · subst h; rw [hr] at h1; cases h1
        · exact ⟨t', h, rs, h1, h2⟩
    | some rs =>
      simp only [List.mem_append, List.mem_filter]
      rw [planPushes_mem s ts r]
      constructor
      · rintro (⟨h1, h2⟩ | ⟨t', ht', rs', h1, h2⟩)
        · refine ⟨t, List.mem_cons_self, rs, hr, h1, ?_⟩
          simpa using h2
        · exact ⟨t', List.mem_cons_of_mem _ ht', rs', h1, h2⟩
      · rintro ⟨t', ht', rs', h1, h2, h3⟩
        rcases List.mem_cons.mp ht' with h | h
        · subst h; rw [hr] at h1; cases h1
          left; exact ⟨h2, by simpa using h3⟩
        · exact Or.inr ⟨t', h, rs', h1, h2, h3⟩

/-- Recipient coverage of one plan, for every presence answer: the offline batch
    has no duplicates; a recipient is in it exactly when some presence-resolved
    target lists it without any route; and every route of a presence-resolved
    target that has an owner and is not the sender's own session is pushed.  So a
    recipient of a resolved target is either pushed on all its online routes or
    reported offline once — never both for the same target, never neither. -/
theorem c31_cover_once (s : Sender) (ts : List TargetAns) :
    (planOffline [] ts).Nodup ∧
    (∀ u, u ∈ planOffline [] ts ↔ ∃ t ∈ ts, ∃ rs, t.routes = some rs ∧ u ∈ t.recips ∧ ∀ r ∈ rs, r.uid ≠ u) ∧
    (∀ t ∈ ts, ∀ rs, t.routes = some rs → ∀ r ∈ rs, r.node ≠ 0 → suppressedR s r = false → r ∈ planPushes s ts) ∧
    (∀ r ∈ planPushes s ts, ∃ t ∈ ts, ∃ rs, t.routes = some rs ∧ r ∈ rs) := by
  obtain ⟨h1, h2⟩ := planOffline_spec ts [] (by simp)
  refine ⟨h1, ?_, ?_, ?_⟩
  · intro u; rw [h2 u]; simp
  · intro t ht rs hr r hrm hn hs
    exact (planPushes_mem s ts r).mpr ⟨t, ht, rs, hr, hrm, hn, hs⟩
  · intro r hr
    obtain ⟨t, ht, rs, h1, h2, _⟩ := (planPushes_mem s ts r).mp hr
    exact ⟨t, ht, rs, h1, h2⟩

example : planOffline [] [⟨[1, 2, 3], some [⟨2, 1, 21⟩]⟩, ⟨[4], none⟩, ⟨[3, 5], some [⟨5, 0, 51⟩, ⟨5, 2, 52⟩]⟩] = [1, 3] ∧
    planPushes ⟨2, 1, 21⟩ [⟨[1, 2, 3], some [⟨2, 1, 21⟩, ⟨2, 1, 22⟩]⟩, ⟨[3, 5], some [⟨5, 0, 51⟩, ⟨5, 2, 52⟩]⟩] = [⟨2, 1, 22⟩, ⟨5, 2, 52⟩] := by
  decide

/-! ## the judge the driver runs -/

/-- An attempt the judge accepts respects all three per-attempt rules. -/
theorem c31_judge_attempt_sound (j j' : J) (m uid node sess : Nat) (term : Bool)
    (h : attempt j m uid node sess term = .ok j') :
    ∃ i, lookup j.msgs m = some i ∧
      j.expected.contains (m, uid, node, sess) = true ∧
      ((lookup j.att (m, node, sess)).getD (0, false)).2 = false ∧
      ((lookup j.att (m, node, sess)).getD (0, false)).1 + 1 ≤ j.retryMax ∧
      (lookup j.last (node, sess, i.ch)).getD 0 ≤ i.seq := by
  unfold attempt at h
  cases hm : lookup j.msgs m with
  | none => simp [hm] at h
  | some i =>
    simp only [hm] at h
    refine ⟨i, rfl, ?_⟩
    split at h
    · cases h
    · rename_i hexp
      split at h
      · cases h
      · rename_i hterm
        split at h
        · cases h
        · rename_i hcnt
          split at h
          · cases h
          · rename_i hseq
            refine ⟨by simpa using hexp, by simpa using hterm, by omega, by omega⟩

example : (runJ { world := [(1, [(1, 11)])], retryMax := 2 }
    [.msg 1001 1 1 1 0 0 0 [1], .msg 1002 1 2 1 0 0 0 [1], .pres 1002 0 true [1], .pres 1001 0 true [1], .write 1002 1 1 11 1, .write 1001 1 1 11 1]).toBool = false := by
  decide
example : (runJ { world := [(1, [(1, 11)])], retryMax := 2 }
    [.msg 1001 1 1 1 0 0 0 [1], .pres 1001 0 true [1], .write 1001 1 1 11 2, .write 1001 1 1 11 1]).toBool = true := by decide
example : (runJ { world := [(1, [(1, 11)])], retryMax := 2 }
    [.msg 1001 1 1 1 0 0 0 [1], .pres 1001 0 true [1], .write 1001 1 1 11 1, .write 1001 1 1 11 1]).toBool = false := by decide

/-! ## stop / quiesce -/

/-- every admitted plan is finished, queued or running -/
def Acct (st : SSt) : Prop :=
  ∀ p, p < st.q.next → p ∈ st.finished ∨ (∃ sh c, (p, c) ∈ st.q.queue sh) ∨ (∃ sh c n, st.q.cur sh = some (p, c, n))

theorem acct_step {shardOf : Nat → Nat} {st st' : SSt} (l : SL) (hA : Acct st)
    (h : sstep shardOf st l = some st') : Acct st' := by
  cases l with
  | stop => simp only [sstep] at h; cases h; exact hA
  | q l =>
    cases l with
    | enq c =>
      simp only [sstep] at h
      split at h
      · cases h
      · simp only [qstep, Option.map_some, Option.some.injEq] at h
        subst h
        intro p hp
        simp only at hp
        by_cases hpn : p = st.q.next
        · subst hpn
          right; left
          exact ⟨shardOf c, c, by simp⟩
        · rcases hA p (by omega) with h1 | ⟨sh, c', h1⟩ | h1
          · exact Or.inl h1
          · right; left
            refine ⟨sh, c', ?_⟩
            by_cases hs : sh = shardOf c
            · subst hs; simp [h1]
            · simpa [updF_ne _ _ hs] using h1
          · exact Or.inr (Or.inr h1)
    | pop sh n =>
      simp only [sstep, qstep] at h
      split at h
      · rename_i hcur hq
        rename_i p0 c0 rest
        simp only [Option.map_some, Option.some.injEq] at h
        subst h
        intro p hp
        rcases hA p hp with h1 | ⟨s2, c', h1⟩ | ⟨s2, c', n', h1⟩
        · exact Or.inl h1
        · by_cases hs : s2 = sh
          · subst hs
            rw [hq] at h1
            rcases List.mem_cons.mp h1 with h2 | h2
            · right; right
              refine ⟨s2, c0, n, ?_⟩
              simp only [Prod.mk.injEq] at h2
              simp [h2.1]
            · right; left; exact ⟨s2, c', by simpa using h2⟩
          · right; left; exact ⟨s2, c', by simpa [updF_ne _ _ hs] using h1⟩
        · right; right
          have hs : s2 ≠ sh := by intro hs; subst hs; rw [hcur] at h1; cases h1
          exact ⟨s2, c', n', by simpa [updF_ne _ _ hs] using h1⟩
      · simp at h
    | emit sh =>
      simp only [sstep, qstep] at h
      split at h
      · rename_i p0 c0 n0 hcur
        simp only [Option.map_some, Option.some.injEq] at h
        subst h
        intro p hp
        rcases hA p hp with h1 | h1 | ⟨s2, c', n', h1⟩
        · exact Or.inl h1
        · exact Or.inr (Or.inl h1)
        · right; right
          by_cases hs : s2 = sh
          · subst hs
            rw [hcur] at h1
            simp only [Option.some.injEq, Prod.mk.injEq] at h1
            exact ⟨s2, c0, n0, by simp [h1.1]⟩
          · exact ⟨s2, c', n', by simpa [updF_ne _ _ hs] using h1⟩
      · simp at h
    | finish sh =>
      simp only [sstep] at h
      split at h
      · rename_i p0 c0 n0 hcur
        simp only [qstep, hcur] at h
        split at h
        · rename_i hz
          simp only [Option.map_some, Option.some.injEq] at h
          subst h
          intro p hp
          rcases hA p hp with h1 | h1 | ⟨s2, c', n', h1⟩
          · exact Or.inl (List.mem_append_left _ h1)
          · exact Or.inr (Or.inl h1)
          · by_cases hs : s2 = sh
            · subst hs
              rw [hcur] at h1
              simp only [Option.some.injEq, Prod.mk.injEq] at h1
              left; simp [h1.1]
            · right; right; exact ⟨s2, c', n', by simpa [updF_ne _ _ hs] using h1⟩
        · simp at h
      · cases h

theorem acct_reach {shardOf : Nat → Nat} {st : SSt} (h : SReach shardOf st) : Acct st := by
  induction h with
  | init => intro p hp; simp at hp
  | step l _ hs ih => exact acct_step l ih hs

/-- Stop / quiesce: once `Stop` has closed admission, no further plan is admitted;
    and a state in which no worker has anything left to do (no pop, no push attempt,
    no plan to finish — the state in which the workers exit and `Stop` returns) is a
    state in which EVERY admitted plan has been processed to its end. -/
theorem c31_stop_quiescent {shardOf : Nat → Nat} {st : SSt} (h : SReach shardOf st) (hs : st.stopping = true)
    (hq : ∀ sh, sstep shardOf st (.q (.pop sh 0)) = none ∧ sstep shardOf st (.q (.emit sh)) = none ∧
                sstep shardOf st (.q (.finish sh)) = none) :
    (∀ c, sstep shardOf st (.q (.enq c)) = none) ∧ (∀ p, p < st.q.next → p ∈ st.finished) := by
  refine ⟨fun c => by simp [sstep, hs], ?_⟩
  have hcur : ∀ sh, st.q.cur sh = none := by
    intro sh
    cases hc : st.q.cur sh with
    | none => rfl
    | some v =>
      obtain ⟨p, c, n⟩ := v
      cases n with
      | zero => have := (hq sh).2.2; simp [sstep, qstep, hc] at this
      | succ n => have := (hq sh).2.1; simp [sstep, qstep, hc] at this
  have hqueue : ∀ sh, st.q.queue sh = [] := by
    intro sh
    cases hqe : st.q.queue sh with
    | nil => rfl
    | cons x rest =>
      obtain ⟨p, c⟩ := x
      have := (hq sh).1; simp [sstep, qstep, hcur sh, hqe] at this
  intro p hp
  rcases acct_reach h p hp with h1 | ⟨sh, c, h1⟩ | ⟨sh, c, n, h1⟩
  · exact h1
  · rw [hqueue sh] at h1; cases h1
  · rw [hcur sh] at h1; cases h1

example : ∃ st, srun (fun c => c % 2) {} [.q (.enq 4), .q (.enq 5), .q (.pop 0 1), .stop, .q (.emit 0), .q (.finish 0), .q (.pop 1 0), .q (.finish 1)] = some st ∧
    st.stopping = true ∧ st.finished = [0, 1] ∧ st.q.next = 2 ∧ sstep (fun c => c % 2) st (.q (.enq 7)) = none := ⟨_, rfl, rfl, rfl, rfl, rfl⟩

/-! ## coverage, on every accepted trace -/

/-- Coverage, judged: on every trace the judge accepts up to and including its
    end-of-run check after a clean Stop, each recipient `u` of each presence-resolved
    target batch of message `m` is EITHER without any online route — and then, for a
    durable message, reported offline exactly as many times as batches list it (once
    per plan) — OR online — and then never reported offline, while every route the
    plan must push (owned, not the sender's own session) has a push attempt in the
    trace. -/
theorem c31_accept_cover_once (w : World) (rm : Nat) (tr : List Ev) (j : J)
    (hr : runJ { world := w, retryMax := rm } tr = .ok j) (hs : j.stopOk = true) (hf : finalJ j = .ok ()) :
    ∀ m u, (m, u) ∈ presPairs tr → ∃ i, lookup j.msgs m = some i ∧
      (((w.routes u).isEmpty = true ∧ (i.mode = 1 → (offPairs tr).count (m, u) = (presPairs tr).count (m, u))) ∨
       ((w.routes u).isEmpty = false ∧ (m, u) ∉ offPairs tr ∧ ∀ r ∈ pushRoutes w i u, (m, r.1, r.2) ∈ attKeys tr)) := by
  have hI := runJ_inv tr [] _ j (jinv_init w rm) hr
  simp only [List.nil_append] at hI
  intro m u hmu
  have hmem : (m, u) ∈ j.presOk := by
    rw [← List.count_pos_iff, hI.hpres]; exact List.count_pos_iff.mpr hmu
  unfold finalJ at hf
  simp only [hs, Bool.not_true, Bool.false_eq_true, if_false] at hf
  split at hf
  · cases hf
  · split at hf
    · cases hf
    · split at hf
      · cases hf
      · rename_i hnone
        have hall := (List.findSome?_eq_none_iff.mp hnone) (m, u) hmem
        simp only at hall
        cases hl : lookup j.msgs m with
        | none => simp [hl] at hall
        | some i =>
          simp only [hl] at hall
          refine ⟨i, rfl, ?_⟩
          rw [hI.hworld] at hall
          cases he : (w.routes u).isEmpty with
          | true =>
            left
            simp only [he, if_true] at hall
            refine ⟨rfl, fun hmode => ?_⟩
            rw [← hI.hoff, ← hI.hpres]
            by_cases hne : j.offl.count (m, u) = j.presOk.count (m, u)
            · exact hne
            · exfalso; simp [hmode, hne] at hall
          | false =>
            right
            simp only [he, Bool.false_eq_true, if_false] at hall
            refine ⟨rfl, ?_, ?_⟩
            · intro hin
              have : (m, u) ∈ j.offl := by
                rw [← List.count_pos_iff, hI.hoff]; exact List.count_pos_iff.mpr hin
              have := (hI.hoffOk m u this).1
              rw [he] at this; cases this
            · intro r hr
              have hany : ((pushRoutes w i u).any fun r => (lookup j.att (m, r.1, r.2)).isNone) = false := by
                cases hb : ((pushRoutes w i u).any fun r => (lookup j.att (m, r.1, r.2)).isNone) with
                | false => rfl
                | true => simp [hb] at hall
              have := (List.any_eq_false.mp hany) r hr
              apply (hI.hatt _).mp
              cases hlk : lookup j.att (m, r.1, r.2) with
              | none => simp [hlk] at this
              | some v => rfl

example : ∃ j, runJ { world := [(1, [(1, 11)]), (2, [])], retryMax := 2 }
    [.msg 1001 1 1 1 0 0 0 [1, 2], .enq 1001 true [(0, [1, 2])], .pres 1001 0 true [1, 2], .offline 1001 [2],
     .write 1001 1 1 11 1, .stopRet true] = .ok j ∧ j.stopOk = true ∧ finalJ j = .ok () := ⟨_, rfl, rfl, rfl⟩

/-! ## T tie (regenerated from plan_queue.go / runtime.go on every run) -/

/-- The source still has the two facts the model rests on: `shardIndex` reads nothing of a
    plan but its channel key (so `shardOf` is a function of the channel — the hypothesis of
    `c31_channel_order`), and the only assignment to `push.Routes` in `pushWithRetry` is
    `push.Routes = result.Retryable` on the answered path, the loop handing `push` to nothing
    but `routeOwnerPush` (the shape of `retryLoop`). -/
theorem c31_src_shard_key_and_retry :
    WK.Gen.C31.shardKeyFields = ["plan.Event.ChannelID", "plan.Event.ChannelType"] ∧
    WK.Gen.C31.routesAssigns = [("result.Retryable", ["err==nil"])] ∧
    WK.Gen.C31.pushConsumers = ["r.routeOwnerPush"] := by decide

/-! ## completeness direction: runs of the model are accepted -/

/-- Completeness of the judge for the retry model: the owner-push events ANY run of
    `retryLoop` produces (any oracle, transport errors included) are accepted by the judge —
    no `push-to-unknown-route`, `retry-after-terminal`, `retry-exceeds-max` or
    `channel-order` — provided the routes were announced by presence, are distinct sessions,
    were attempted `k` times so far and the budget `k + fuel` fits RetryMaxAttempts. -/
theorem c31_retry_run_accepted (orc : Oracle) (m owner : Nat) (i : MsgInfo) : ∀ (fuel k : Nat) (routes : List Route) (j : J),
    lookup j.msgs m = some i →
    (∀ r ∈ routes, j.expected.contains (m, r.uid, r.node, r.sess) = true) →
    (∀ r ∈ routes, (lookup j.att (rkey m r)).getD (0, false) = (k, false)) →
    k + fuel ≤ j.retryMax →
    (∀ n s, (lookup j.last (n, s, i.ch)).getD 0 ≤ i.seq) →
    (routes.map (rkey m)).Nodup →
    ∃ j', runJ j (retryEvents orc m owner fuel k routes) = .ok j'
  | 0, _, _, j, _, _, _, _, _, _ => ⟨j, rfl⟩
  | fuel+1, k, routes, j, hm, he, ha, hk, hl, hnd => by
    unfold retryEvents
    cases horc : orc k routes with
    | none =>
      obtain ⟨j1, h1, e1, e2, e3, e4, _, _, e7⟩ := attemptAll_ok (i := i) (m := m) (k := k) false routes [] j hm he ha (by omega) hl hnd
      obtain ⟨j2, h2⟩ := c31_retry_run_accepted orc m owner i fuel (k+1) routes j1 (e1 ▸ hm)
        (fun r hr => e2 ▸ he r hr) (e7 rfl) (by rw [e3]; omega) e4 hnd
      exact ⟨j2, by simp only [runJ, stepJ, h1]; exact h2⟩
    | some ds =>
      obtain ⟨j1, h1, e1, e2, e3, e4, _, e6, _⟩ := attemptAll_ok (i := i) (m := m) (k := k) true routes ds j hm he ha (by omega) hl hnd
      by_cases hre : retryableOf routes ds = []
      · exact ⟨j1, by simp only [hre, if_true, runJ, stepJ, h1]⟩
      · have hsub := retryableOf_sublist routes ds
        obtain ⟨j2, h2⟩ := c31_retry_run_accepted orc m owner i fuel (k+1) (retryableOf routes ds) j1 (e1 ▸ hm)
          (fun r hr => e2 ▸ he r (hsub.subset hr)) e6 (by rw [e3]; omega) e4 ((hsub.map _).nodup hnd)
        exact ⟨j2, by simp only [hre, if_false, runJ, stepJ, h1]; exact h2⟩

def retryExampleJ : J :=
  { world := [(1, [(1, 11)]), (2, [(1, 21)])]
    retryMax := 3
    msgs := [(1001, { ch := 1, seq := 1, mode := 1, frm := 0, snode := 0, ssess := 0 })]
    expected := [(1001, 1, 1, 11), (1001, 2, 1, 21)] }

example : (runJ retryExampleJ
    (retryEvents (fun k _ => if k = 0 then some [.accepted, .retryable] else if k = 1 then none else some [.dropped]) 1001 1 3 0
      [⟨1, 1, 11⟩, ⟨2, 1, 21⟩])).toBool = true := by decide

/-- Channel order in message sequences: if a channel's plans are admitted in sequence order
    (`seqOf` monotone along the serials of that channel — its single writer), then in every
    reachable state the sequence numbers of the push attempts made for that channel never go
    back.  Every (session, channel) sub-trace is a sub-list of this one, so the judge's
    `channel-order` rule can never fire on a run of the LTS. -/
theorem c31_channel_order_seq {shardOf : Nat → Nat} {st : QSt} (h : QReach shardOf st) (c : Nat) (seqOf : Nat → Nat)
    (hmono : ∀ p q, p ≤ q → seqOf p ≤ seqOf q) :
    ((chanSerials c st.out).map seqOf).Pairwise (· ≤ ·) ∧
    ∀ sub, List.Sublist sub ((chanSerials c st.out).map seqOf) → sub.Pairwise (· ≤ ·) := by
  have h1 : ((chanSerials c st.out).map seqOf).Pairwise (· ≤ ·) :=
    List.Pairwise.map seqOf (fun a b hab => hmono a b hab) (c31_channel_order h c)
  exact ⟨h1, fun sub hs => h1.sublist hs⟩

/-! ## plan packing and processing, on every accepted trace -/

/-- Plan packing and processing, judged.  On every trace the judge accepts:
    (1) the plans handed to Online Delivery for a message never contain a recipient more
        often than the message lists it (no invented, no duplicated recipient) — at any time;
    and, once the end-of-run check after a clean Stop has passed,
    (2) unless a plan of the message was rejected (runtime closing), every recipient is
        packed exactly as often as the message lists it — each recipient is in exactly one
        plan when the list has no duplicates;
    (3) every admitted target batch of the message got its presence answer, i.e. every
        admitted plan was processed before Stop returned — the trace-level counterpart of
        the model's `c31_stop_quiescent`, and the premise under which `c31_accept_cover_once`
        speaks about ALL recipients of the message. -/
theorem c31_accept_packing (w : World) (rm : Nat) (tr : List Ev) (j : J)
    (hr : runJ { world := w, retryMax := rm } tr = .ok j) :
    (∀ m ch seq mode frm sn ss recips, Ev.msg m ch seq mode frm sn ss recips ∈ tr →
      ∀ u, (packedPairs tr).count (m, u) ≤ recips.count u) ∧
    (j.stopOk = true → finalJ j = .ok () →
      ∀ m ch seq mode frm sn ss recips, Ev.msg m ch seq mode frm sn ss recips ∈ tr →
        (m ∉ rejectedMsgs tr → ∀ u, (packedPairs tr).count (m, u) = recips.count u) ∧
        (presAnswers tr).count m = (acceptedBatches tr).count m) := by
  have hI := runJ_pinv tr [] _ j (pinv_init w rm) hr
  simp only [List.nil_append] at hI
  refine ⟨?_, ?_⟩
  · intro m ch seq mode frm sn ss recips hm u
    obtain ⟨i, hi, hrc⟩ := hI.hmsg _ _ _ _ _ _ _ _ hm
    rw [← hI.hpk, ← hrc]; exact hI.hbound m i u hi
  · intro hs hf m ch seq mode frm sn ss recips hm
    obtain ⟨i, hi, hrc⟩ := hI.hmsg _ _ _ _ _ _ _ _ hm
    have hmem := lookup_mem _ _ _ hi
    unfold finalJ at hf
    simp only [hs, Bool.not_true, Bool.false_eq_true, if_false] at hf
    split at hf
    · cases hf
    · rename_i hpack
      split at hf
      · cases hf
      · rename_i hproc
        refine ⟨?_, ?_⟩
        · intro hrej u
          have h1 := hpack
          simp only [List.any_eq_true, not_exists, not_and, Bool.and_eq_true, Bool.not_eq_true'] at h1
          have h2 := h1 (m, i) hmem
          have hnr : j.rejected.contains m = false := by
            simp only [List.contains_eq_mem, decide_eq_false_iff_not]
            exact fun hin => hrej ((hI.hrej m).mp hin)
          rw [← hI.hpk, ← hrc]
          by_cases hu : u ∈ i.recips
          · have h3 := h2 hnr
            simp only [not_exists, not_and] at h3
            have := h3 u hu
            simpa using this
          · have := hI.hbound m i u hi
            rw [List.count_eq_zero.mpr hu] at this ⊢
            omega
        · have h1 := hproc
          simp only [List.any_eq_true, not_exists, not_and] at h1
          have := h1 (m, i) hmem
          rw [← hI.hprs, ← hI.henq]
          simpa using this

example : ∃ j, runJ { world := [(1, [(1, 11)]), (2, [])], retryMax := 2 }
    [.msg 1001 1 1 1 0 0 0 [1, 2], .enq 1001 true [(0, [1])], .enq 1001 true [(0, [2])], .pres 1001 0 true [1], .pres 1001 0 true [2],
     .offline 1001 [2], .write 1001 1 1 11 1, .stopRet true] = .ok j ∧ j.stopOk = true ∧ finalJ j = .ok () := ⟨_, rfl, rfl, rfl⟩
example : (runJ {} [.msg 1001 1 1 1 0 0 0 [1], .enq 1001 true [(0, [1, 1])]]).toBool = false := by decide

/-! ## completeness direction: the model's offline batch is accepted -/


theorem nodup_count_le_one : ∀ l : List Nat, l.Nodup → ∀ u, l.count u ≤ 1
  | [], _, u => by simp
  | x :: xs, h, u => by
    have hc := List.nodup_cons.mp h
    have ih := nodup_count_le_one xs hc.2 u
    by_cases hx : x = u
    · subst hx; simp [List.count_cons, List.count_eq_zero.mpr hc.1]
    · simp [List.count_cons, hx]; exact ih

/-- Completeness of the judge's offline clauses for the recipient-resolution model: the offline
    batch `planOffline [] ts` that `processPlan` computes for a DURABLE plan (any presence answers
    `ts`) is accepted by the judge — none of `offline-report-for-transient`,
    `offline-wrong-recipient`, `offline-duplicate` fires — provided the judge has recorded the
    presence answers of the plan's resolved targets, those answers agree with the presence world
    (a recipient without a route in its answer has no route in the world), and nothing was
    reported offline for these recipients of the message before. -/
theorem c31_offline_report_accepted (j : J) (m : Nat) (i : MsgInfo) (ts : List TargetAns)
    (hm : lookup j.msgs m = some i) (hmode : i.mode = 1)
    (hrec : ∀ t ∈ ts, ∀ rs, t.routes = some rs → ∀ u ∈ t.recips, (m, u) ∈ j.presOk)
    (hworld : ∀ t ∈ ts, ∀ rs, t.routes = some rs → ∀ u ∈ t.recips, (∀ r ∈ rs, r.uid ≠ u) → (j.world.routes u).isEmpty = true)
    (hfirst : ∀ u, j.offl.count (m, u) = 0) :
    stepJ j (.offline m (planOffline [] ts)) =
      .ok { j with offl := (planOffline [] ts).map (fun u => (m, u)) ++ j.offl } := by
  obtain ⟨hnd, hmem, _, _⟩ := c31_cover_once ⟨0, 0, 0⟩ ts
  simp only [stepJ, hm]
  have h1 : (i.mode != 1) = false := by simp [hmode]
  have h3 : ((planOffline [] ts).any fun u => decide (j.offl.count (m, u) + (planOffline [] ts).count u > j.presOk.count (m, u))) = false := by
    rw [List.any_eq_false]
    intro u hu
    obtain ⟨t, ht, rs, hr, hur, _⟩ := (hmem u).mp hu
    have a1 := List.count_pos_iff.mpr (hrec t ht rs hr u hur)
    have a2 := nodup_count_le_one _ hnd u
    have a3 := hfirst u
    simp only [decide_eq_true_eq, Nat.not_lt, gt_iff_lt]
    omega
  simp [h1, h3]
  intro u hu
  obtain ⟨t, ht, rs, hr, hur, hno⟩ := (hmem u).mp hu
  exact ⟨hrec t ht rs hr u hur, by simpa using hworld t ht rs hr u hur hno⟩

def offlineExampleJ : J :=
  { world := [(1, [(1, 11)]), (2, [])]
    msgs := [(7, { ch := 1, seq := 1, mode := 1, frm := 0, snode := 0, ssess := 0 })]
    presOk := [(7, 1), (7, 2)] }

example : (stepJ offlineExampleJ (.offline 7 (planOffline [] [⟨[1, 2], some [⟨1, 1, 11⟩]⟩]))).toBool = true := by decide

end WK.C31

import WK.Spec.C31
import WK.Model.C31
/-
  C31 — Online delivery preserves per-channel order and recipient coverage.
-/
namespace WK.C31

/-! ## channel order: FIFO shards, one worker per shard, any interleaving -/

@[simp] theorem updF_same {α : Type} (f : Nat → α) (k : Nat) (v : α) : updF f k v k = v := by simp [updF]
theorem updF_ne {α : Type} (f : Nat → α) {k x : Nat} (v : α) (h : x ≠ k) : updF f k v x = f x := by simp [updF, h]

structure QInv (shardOf : Nat → Nat) (st : QSt) : Prop where
  qsorted : ∀ sh, ((st.queue sh).map (·.1)).Pairwise (· < ·)
  qbound : ∀ sh x, x ∈ st.queue sh → x.1 < st.next ∧ shardOf x.2 = sh
  curOk : ∀ sh p c n, st.cur sh = some (p, c, n) → p < st.next ∧ shardOf c = sh ∧ ∀ x ∈ st.queue sh, p < x.1
  outOk : ∀ sh c p, (sh, c, p) ∈ st.out → shardOf c = sh ∧ p < st.next ∧ (∀ x ∈ st.queue sh, p < x.1) ∧
      (∀ p' c' n, st.cur sh = some (p', c', n) → p ≤ p')
  outSorted : ∀ sh, ((st.out.filter (fun e => e.1 == sh)).map (·.2.2)).Pairwise (· ≤ ·)

theorem qinv_init (shardOf : Nat → Nat) : QInv shardOf {} := by
  constructor <;> intros <;> simp_all

theorem qinv_step {shardOf : Nat → Nat} {st st' : QSt} (l : QL) (hI : QInv shardOf st)
    (h : qstep shardOf st l = some st') : QInv shardOf st' := by
  cases l with
  | enq c =>
    simp only [qstep] at h
    cases h
    constructor
    · intro sh
      by_cases hs : sh = shardOf c
      · subst hs
        simp only [updF_same, List.map_append, List.map_cons, List.map_nil]
        refine List.pairwise_append.mpr ⟨hI.qsorted _, by simp, ?_⟩
        intro a ha b hb
        simp at hb; subst hb
        obtain ⟨x, hx, rfl⟩ := List.mem_map.mp ha
        exact (hI.qbound _ x hx).1
      · simpa [updF_ne _ _ hs] using hI.qsorted sh
    · intro sh x hx
      by_cases hs : sh = shardOf c
      · subst hs
        simp only [updF_same, List.mem_append, List.mem_singleton] at hx
        rcases hx with hx | hx
        · have := hI.qbound _ x hx; exact ⟨by simp; omega, this.2⟩
        · subst hx; exact ⟨by simp, rfl⟩
      · simp only [updF_ne _ _ hs] at hx
        have := hI.qbound _ x hx; exact ⟨by simp; omega, this.2⟩
    · intro sh p c' n hc
      have := hI.curOk sh p c' n hc
      refine ⟨by simp; omega, this.2.1, ?_⟩
      intro x hx
      by_cases hs : sh = shardOf c
      · subst hs
        simp only [updF_same, List.mem_append, List.mem_singleton] at hx
        rcases hx with hx | hx
        · exact this.2.2 x hx
        · subst hx; exact this.1
      · simp only [updF_ne _ _ hs] at hx; exact this.2.2 x hx
    · intro sh c' p hm
      have := hI.outOk sh c' p hm
      refine ⟨this.1, by simp; omega, ?_, this.2.2.2⟩
      intro x hx
      by_cases hs : sh = shardOf c
      · subst hs
        simp only [updF_same, List.mem_append, List.mem_singleton] at hx
        rcases hx with hx | hx
        · exact this.2.2.1 x hx
        · subst hx; exact this.2.1
      · simp only [updF_ne _ _ hs] at hx; exact this.2.2.1 x hx
    · exact hI.outSorted
  | pop sh n =>
    simp only [qstep] at h
    split at h
    · rename_i hcur hq
      cases h
      rename_i p c rest
      have hsorted := hI.qsorted sh
      rw [hq] at hsorted
      simp only [List.map_cons, List.pairwise_cons] at hsorted
      constructor
      · intro s2
        by_cases hs : s2 = sh
        · subst hs; simpa using hsorted.2
        · simpa [updF_ne _ _ hs] using hI.qsorted s2
      · intro s2 x hx
        by_cases hs : s2 = sh
        · subst hs
          simp only [updF_same] at hx
          exact hI.qbound _ x (by rw [hq]; exact List.mem_cons_of_mem _ hx)
        · simp only [updF_ne _ _ hs] at hx; exact hI.qbound _ x hx
      · intro s2 p' c' n' hc
        by_cases hs : s2 = sh
        · subst hs
          simp only [updF_same, Option.some.injEq, Prod.mk.injEq] at hc
          obtain ⟨rfl, rfl, rfl⟩ := hc
          have hb := hI.qbound s2 (p, c) (by rw [hq]; exact List.mem_cons_self)
          refine ⟨hb.1, hb.2, ?_⟩
          intro x hx
          simp only [updF_same] at hx
          exact hsorted.1 x.1 (List.mem_map.mpr ⟨x, hx, rfl⟩)
        · simp only [updF_ne _ _ hs] at hc ⊢
          exact hI.curOk s2 p' c' n' hc
      · intro s2 c' p' hm
        have := hI.outOk s2 c' p' hm
        by_cases hs : s2 = sh
        · subst hs
          refine ⟨this.1, this.2.1, ?_, ?_⟩
          · intro x hx
            simp only [updF_same] at hx
            exact this.2.2.1 x (by rw [hq]; exact List.mem_cons_of_mem _ hx)
          · intro p2 c2 n2 hc
            simp only [updF_same, Option.some.injEq, Prod.mk.injEq] at hc
            obtain ⟨rfl, rfl, rfl⟩ := hc
            exact Nat.le_of_lt (this.2.2.1 (p, c) (by rw [hq]; exact List.mem_cons_self))
        · simpa [updF_ne _ _ hs] using this
      · exact hI.outSorted
    · cases h
  | emit sh =>
    simp only [qstep] at h
    split at h
    · rename_i p c n hcur
      cases h
      have hc := hI.curOk sh p c (n+1) hcur
      constructor
      · exact hI.qsorted
      · exact hI.qbound
      · intro s2 p' c' n' hc'
        by_cases hs : s2 = sh
        · subst hs
          simp only [updF_same, Option.some.injEq, Prod.mk.injEq] at hc'
          obtain ⟨rfl, rfl, rfl⟩ := hc'
          exact hc
        · simp only [updF_ne _ _ hs] at hc'; exact hI.curOk s2 p' c' n' hc'
      · intro s2 c' p' hm
        rcases List.mem_append.mp hm with hm | hm
        · have := hI.outOk s2 c' p' hm
          refine ⟨this.1, this.2.1, this.2.2.1, ?_⟩
          intro p2 c2 n2 hc2
          by_cases hs : s2 = sh
          · subst hs
            simp only [updF_same, Option.some.injEq, Prod.mk.injEq] at hc2
            obtain ⟨rfl, rfl, rfl⟩ := hc2
            exact this.2.2.2 _ _ _ hcur
          · simp only [updF_ne _ _ hs] at hc2; exact this.2.2.2 _ _ _ hc2
        · simp only [List.mem_singleton, Prod.mk.injEq] at hm
          obtain ⟨rfl, rfl, rfl⟩ := hm
          refine ⟨hc.2.1, hc.1, hc.2.2, ?_⟩
          intro p2 c2 n2 hc2
          simp only [updF_same, Option.some.injEq, Prod.mk.injEq] at hc2
          omega
      · intro s2
        by_cases hs : s2 = sh
        · subst hs
          simp only [List.filter_append, List.map_append]
          have : List.filter (fun e : Nat × Nat × Nat => e.1 == s2) [(s2, c, p)] = [(s2, c, p)] := by simp
          rw [this]
          refine List.pairwise_append.mpr ⟨hI.outSorted s2, by simp, ?_⟩
          intro a ha b hb
          simp at hb; subst hb
          obtain ⟨e, he, rfl⟩ := List.mem_map.mp ha
          have hem := (List.mem_filter.mp he)
          have h1 : e.1 = s2 := by simpa using hem.2
          obtain ⟨e1, e2, e3⟩ := e
          simp only at h1; subst h1
          exact (hI.outOk _ _ _ hem.1).2.2.2 _ _ _ hcur
        · have : List.filter (fun e : Nat × Nat × Nat => e.1 == s2) [(sh, c, p)] = [] := by
            simp [Ne.symm hs]
          simp only [List.filter_append, this, List.append_nil]
          exact hI.outSorted s2
    · cases h
  | finish sh =>
    simp only [qstep] at h
    split at h
    · rename_i p c hcur
      cases h
      constructor
      · exact hI.qsorted
      · exact hI.qbound
      · intro s2 p' c' n' hc'
        by_cases hs : s2 = sh
        · subst hs; simp at hc'
        · simp only [updF_ne _ _ hs] at hc'; exact hI.curOk s2 p' c' n' hc'
      · intro s2 c' p' hm
        have := hI.outOk s2 c' p' hm
        refine ⟨this.1, this.2.1, this.2.2.1, ?_⟩
        intro p2 c2 n2 hc2
        by_cases hs : s2 = sh
        · subst hs; simp at hc2
        · simp only [updF_ne _ _ hs] at hc2; exact this.2.2.2 _ _ _ hc2
      · exact hI.outSorted
    · cases h

theorem qinv_reach {shardOf : Nat → Nat} {st : QSt} (h : QReach shardOf st) : QInv shardOf st := by
  induction h with
  | init => exact qinv_init shardOf
  | step l _ hs ih => exact qinv_step l ih hs

/-- For every interleaving of admissions and shard workers: the push attempts
    made for one channel appear in the order in which that channel's plans were
    admitted (serial = admission order; a channel's plans are admitted in
    message-sequence order by its single writer). -/
theorem c31_channel_order {shardOf : Nat → Nat} {st : QSt} (h : QReach shardOf st) (c : Nat) :
    (chanSerials c st.out).Pairwise (· ≤ ·) := by
  have hI := qinv_reach h
  have hs := hI.outSorted (shardOf c)
  have hsub : List.Sublist (chanSerials c st.out)
      ((st.out.filter (fun e => e.1 == shardOf c)).map (·.2.2)) := by
    unfold chanSerials
    apply List.Sublist.map
    have : st.out.filter (fun e => e.2.1 == c) =
        (st.out.filter (fun e => e.1 == shardOf c)).filter (fun e => e.2.1 == c) := by
      rw [List.filter_filter]
      apply List.filter_congr
      intro e he
      obtain ⟨sh, c', p⟩ := e
      by_cases hc : c' = c
      · subst hc
        have := (hI.outOk sh c' p he).1
        simp [this]
      · simp [hc]
    rw [this]
    exact List.filter_sublist
  exact hs.sublist hsub

example : ∃ st, qrun (fun c => c % 2) {} [.enq 4, .enq 6, .enq 5, .pop 0 2, .pop 1 1, .emit 0, .emit 1, .emit 0, .finish 0, .pop 0 1, .emit 0] = some st ∧
    st.out = [(0, 4, 0), (1, 5, 2), (0, 4, 0), (0, 6, 1)] ∧ chanSerials 4 st.out = [0, 0] := ⟨_, rfl, rfl, rfl⟩

/-! ## retry narrowing -/

theorem retryableOf_subset : ∀ (rs : List Route) (ds : List Disp), ∀ r ∈ retryableOf rs ds, r ∈ rs
  | [], _, r, h => by simp [retryableOf] at h
  | _ :: _, [], r, h => by simp [retryableOf] at h
  | x :: rs, d :: ds, r, h => by
    unfold retryableOf at h
    split at h
    · rcases List.mem_cons.mp h with h | h
      · subst h; exact List.mem_cons_self
      · exact List.mem_cons_of_mem _ (retryableOf_subset rs ds r h)
    · exact List.mem_cons_of_mem _ (retryableOf_subset rs ds r h)

/-- Whatever the owners answer (any oracle, including transport errors): every
    attempt of `pushWithRetry` addresses only routes of the original push, there
    are at most `fuel` = RetryMaxAttempts attempts, and after an answered attempt
    every later attempt addresses only routes that answer classified retryable —
    a route that was accepted or dropped, and any other session, is never
    addressed again. -/
theorem c31_retry_exact_target (orc : Oracle) : ∀ (fuel k : Nat) (routes : List Route),
    (∀ att ∈ retryLoop orc fuel k routes, ∀ r ∈ att, r ∈ routes) ∧
    (retryLoop orc fuel k routes).length ≤ fuel ∧
    (∀ ds, orc k routes = some ds → ∀ att ∈ (retryLoop orc fuel k routes).drop 1, ∀ r ∈ att, r ∈ retryableOf routes ds)
  | 0, _, _ => by simp [retryLoop]
  | fuel+1, k, routes => by
    unfold retryLoop
    cases horc : orc k routes with
    | none =>
      obtain ⟨ih1, ih2, _⟩ := c31_retry_exact_target orc fuel (k+1) routes
      refine ⟨?_, by simp; omega, by intro ds hd; cases hd⟩
      intro att hatt r hr
      rcases List.mem_cons.mp hatt with h | h
      · subst h; exact hr
      · exact ih1 att h r hr
    | some ds =>
      by_cases hre : retryableOf routes ds = []
      · simp only [hre, if_true]
        refine ⟨by intro att hatt r hr; simp at hatt; subst hatt; exact hr, by simp, by intro ds' _; simp⟩
      · simp only [hre, if_false]
        obtain ⟨ih1, ih2, _⟩ := c31_retry_exact_target orc fuel (k+1) (retryableOf routes ds)
        refine ⟨?_, by simp; omega, ?_⟩
        · intro att hatt r hr
          rcases List.mem_cons.mp hatt with h | h
          · subst h; exact hr
          · exact retryableOf_subset routes ds r (ih1 att h r hr)
        · intro ds' hds' att hatt r hr
          cases hds'
          simp only [List.drop_succ_cons, List.drop_zero] at hatt
          exact ih1 att hatt r hr

example : retryLoop (fun k _ => if k = 0 then some [.accepted, .retryable, .dropped] else if k = 1 then none else some [.accepted])
    4 0 [⟨1, 1, 11⟩, ⟨2, 1, 21⟩, ⟨3, 1, 31⟩] = [[⟨1, 1, 11⟩, ⟨2, 1, 21⟩, ⟨3, 1, 31⟩], [⟨2, 1, 21⟩], [⟨2, 1, 21⟩]] := by decide

/-! ## recipient coverage of one plan -/

theorem appendOffline_spec (routes : List Route) : ∀ (recips out : List Nat), out.Nodup →
    (appendOffline out recips routes).Nodup ∧
    (∀ u, u ∈ appendOffline out recips routes ↔ u ∈ out ∨ (u ∈ recips ∧ ∀ r ∈ routes, r.uid ≠ u))
  | [], out, hnd => by simp [appendOffline, hnd]
  | x :: xs, out, hnd => by
    have hstep : appendOffline out (x :: xs) routes =
        appendOffline (if routes.any (fun r => r.uid == x) || out.contains x then out else out ++ [x]) xs routes := by
      simp [appendOffline]
    rw [hstep]
    by_cases hc : (routes.any (fun r => r.uid == x) || out.contains x) = true
    · simp only [hc, if_true]
      obtain ⟨ih1, ih2⟩ := appendOffline_spec routes xs out hnd
      refine ⟨ih1, ?_⟩
      intro u
      rw [ih2 u]
      constructor
      · rintro (h | ⟨h1, h2⟩)
        · exact Or.inl h
        · exact Or.inr ⟨List.mem_cons_of_mem _ h1, h2⟩
      · rintro (h | ⟨h1, h2⟩)
        · exact Or.inl h
        · rcases List.mem_cons.mp h1 with h | h
          · subst h
            simp only [Bool.or_eq_true, List.any_eq_true, beq_iff_eq, List.contains_eq_mem, decide_eq_true_eq] at hc
            rcases hc with ⟨r, hr, hru⟩ | hc
            · exact absurd hru (h2 r hr)
            · exact Or.inl hc
          · exact Or.inr ⟨h, h2⟩
    · simp only [hc, Bool.false_eq_true, if_false]
      simp only [Bool.or_eq_true, List.any_eq_true, beq_iff_eq, List.contains_eq_mem, decide_eq_true_eq, not_or, not_exists, not_and] at hc
      have hnd' : (out ++ [x]).Nodup := List.nodup_append.mpr ⟨hnd, by simp, by
        intro a ha b hb; simp at hb; subst hb; exact fun hab => hc.2 (hab ▸ ha)⟩
      obtain ⟨ih1, ih2⟩ := appendOffline_spec routes xs (out ++ [x]) hnd'
      refine ⟨ih1, ?_⟩
      intro u
      rw [ih2 u]
      constructor
      · rintro (h | ⟨h1, h2⟩)
        · rcases List.mem_append.mp h with h | h
          · exact Or.inl h
          · simp at h; subst h; exact Or.inr ⟨List.mem_cons_self, fun r hr => hc.1 r hr⟩
        · exact Or.inr ⟨List.mem_cons_of_mem _ h1, h2⟩
      · rintro (h | ⟨h1, h2⟩)
        · exact Or.inl (List.mem_append_left _ h)
        · rcases List.mem_cons.mp h1 with h | h
          · subst h; exact Or.inl (List.mem_append_right _ (by simp))
          · exact Or.inr ⟨h, h2⟩

theorem planOffline_spec : ∀ (ts : List TargetAns) (out : List Nat), out.Nodup →
    (planOffline out ts).Nodup ∧
    (∀ u, u ∈ planOffline out ts ↔ u ∈ out ∨ ∃ t ∈ ts, ∃ rs, t.routes = some rs ∧ u ∈ t.recips ∧ ∀ r ∈ rs, r.uid ≠ u)
  | [], out, hnd => by simp [planOffline, hnd]
  | t :: ts, out, hnd => by
    unfold planOffline
    cases hr : t.routes with
    | none =>
      simp only
      obtain ⟨ih1, ih2⟩ := planOffline_spec ts out hnd
      refine ⟨ih1, fun u => ?_⟩
      rw [ih2 u]
      constructor
      · rintro (h | ⟨t', ht', rs, h1, h2, h3⟩)
        · exact Or.inl h
        · exact Or.inr ⟨t', List.mem_cons_of_mem _ ht', rs, h1, h2, h3⟩
      · rintro (h | ⟨t', ht', rs, h1, h2, h3⟩)
        · exact Or.inl h
        · rcases List.mem_cons.mp ht' with h | h
          · subst h; rw [hr] at h1; cases h1
          · exact Or.inr ⟨t', h, rs, h1, h2, h3⟩
    | some rs =>
      simp only
      obtain ⟨a1, a2⟩ := appendOffline_spec rs t.recips out hnd
      obtain ⟨ih1, ih2⟩ := planOffline_spec ts _ a1
      refine ⟨ih1, fun u => ?_⟩
      rw [ih2 u, a2 u]
      constructor
      · rintro ((h | ⟨h1, h2⟩) | ⟨t', ht', rs', h1, h2, h3⟩)
        · exact Or.inl h
        · exact Or.inr ⟨t, List.mem_cons_self, rs, hr, h1, h2⟩
        · exact Or.inr ⟨t', List.mem_cons_of_mem _ ht', rs', h1, h2, h3⟩
      · rintro (h | ⟨t', ht', rs', h1, h2, h3⟩)
        · exact Or.inl (Or.inl h)
        · rcases List.mem_cons.mp ht' with h | h
          · subst h; rw [hr] at h1; cases h1; exact Or.inl (Or.inr ⟨h2, h3⟩)
          · exact Or.inr ⟨t', h, rs', h1, h2, h3⟩

theorem planPushes_mem (s : Sender) : ∀ (ts : List TargetAns) (r : Route),
    r ∈ planPushes s ts ↔ ∃ t ∈ ts, ∃ rs, t.routes = some rs ∧ r ∈ rs ∧ r.node ≠ 0 ∧ suppressedR s r = false
  | [], r => by simp [planPushes]
  | t :: ts, r => by
    unfold planPushes
    cases hr : t.routes with
    | none =>
      simp only
      rw [planPushes_mem s ts r]
      constructor
      · rintro ⟨t', ht', rs, h1, h2⟩; exact ⟨t', List.mem_cons_of_mem _ ht', rs, h1, h2⟩
      · rintro ⟨t', ht', rs, h1, h2⟩
        rcases List.mem_cons.mp ht' with h | h
        · subst h; rw [hr] at h1; cases h1
        · exact ⟨t', h, rs, h1, h2⟩
    | some rs =>
      simp only [List.mem_append, List.mem_filter]
      rw [planPushes_mem s ts r]
      constructor
      · rintro (⟨h1, h2⟩ | ⟨t', ht', rs', h1, h2⟩)
        · refine ⟨t, List.mem_cons_self, rs, hr, h1, ?_⟩
          simpa using h2
        · exact ⟨t', List.mem_cons_of_mem _ ht', rs', h1, h2⟩
      · rintro ⟨t', ht', rs', h1, h2, h3⟩
        rcases List.mem_cons.mp ht' with h | h
        · subst h; rw [hr] at h1; cases h1
          left; exact ⟨h2, by simpa using h3⟩
        · exact Or.inr ⟨t', h, rs', h1, h2, h3⟩

/-- Recipient coverage of one plan, for every presence answer: the offline batch
    has no duplicates; a recipient is in it exactly when some presence-resolved
    target lists it without any route; and every route of a presence-resolved
    target that has an owner and is not the sender's own session is pushed.  So a
    recipient of a resolved target is either pushed on all its online routes or
    reported offline once — never both for the same target, never neither. -/
theorem c31_cover_once (s : Sender) (ts : List TargetAns) :
    (planOffline [] ts).Nodup ∧
    (∀ u, u ∈ planOffline [] ts ↔ ∃ t ∈ ts, ∃ rs, t.routes = some rs ∧ u ∈ t.recips ∧ ∀ r ∈ rs, r.uid ≠ u) ∧
    (∀ t ∈ ts, ∀ rs, t.routes = some rs → ∀ r ∈ rs, r.node ≠ 0 → suppressedR s r = false → r ∈ planPushes s ts) ∧
    (∀ r ∈ planPushes s ts, ∃ t ∈ ts, ∃ rs, t.routes = some rs ∧ r ∈ rs) := by
  obtain ⟨h1, h2⟩ := planOffline_spec ts [] (by simp)
  refine ⟨h1, ?_, ?_, ?_⟩
  · intro u; rw [h2 u]; simp
  · intro t ht rs hr r hrm hn hs
    exact (planPushes_mem s ts r).mpr ⟨t, ht, rs, hr, hrm, hn, hs⟩
  · intro r hr
    obtain ⟨t, ht, rs, h1, h2, _⟩ := (planPushes_mem s ts r).mp hr
    exact ⟨t, ht, rs, h1, h2⟩

example : planOffline [] [⟨[1, 2, 3], some [⟨2, 1, 21⟩]⟩, ⟨[4], none⟩, ⟨[3, 5], some [⟨5, 0, 51⟩, ⟨5, 2, 52⟩]⟩] = [1, 3] ∧
    planPushes ⟨2, 1, 21⟩ [⟨[1, 2, 3], some [⟨2, 1, 21⟩, ⟨2, 1, 22⟩]⟩, ⟨[3, 5], some [⟨5, 0, 51⟩, ⟨5, 2, 52⟩]⟩] = [⟨2, 1, 22⟩, ⟨5, 2, 52⟩] := by
  decide

/-! ## the judge the driver runs -/

/-- An attempt the judge accepts respects all three per-attempt rules. -/
theorem c31_judge_attempt_sound (j j' : J) (m uid node sess : Nat) (term : Bool)
    (h : attempt j m uid node sess term = .ok j') :
    ∃ i, lookup j.msgs m = some i ∧
      j.expected.contains (m, uid, node, sess) = true ∧
      ((lookup j.att (m, node, sess)).getD (0, false)).2 = false ∧
      ((lookup j.att (m, node, sess)).getD (0, false)).1 + 1 ≤ j.retryMax ∧
      (lookup j.last (node, sess, i.ch)).getD 0 ≤ i.seq := by
  unfold attempt at h
  cases hm : lookup j.msgs m with
  | none => simp [hm] at h
  | some i =>
    simp only [hm] at h
    refine ⟨i, rfl, ?_⟩
    split at h
    · cases h
    · rename_i hexp
      split at h
      · cases h
      · rename_i hterm
        split at h
        · cases h
        · rename_i hcnt
          split at h
          · cases h
          · rename_i hseq
            refine ⟨by simpa using hexp, by simpa using hterm, by omega, by omega⟩

example : (runJ { world := [(1, [(1, 11)])], retryMax := 2 }
    [.msg 1001 1 1 1 0 0 0 [1], .msg 1002 1 2 1 0 0 0 [1], .pres 1002 0 true [1], .pres 1001 0 true [1], .write 1002 1 1 11 1, .write 1001 1 1 11 1]).toBool = false := by
  decide
example : (runJ { world := [(1, [(1, 11)])], retryMax := 2 }
    [.msg 1001 1 1 1 0 0 0 [1], .pres 1001 0 true [1], .write 1001 1 1 11 2, .write 1001 1 1 11 1]).toBool = true := by decide
example : (runJ { world := [(1, [(1, 11)])], retryMax := 2 }
    [.msg 1001 1 1 1 0 0 0 [1], .pres 1001 0 true [1], .write 1001 1 1 11 1, .write 1001 1 1 11 1]).toBool = false := by decide

end WK.C31

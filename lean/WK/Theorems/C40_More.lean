import WK.Theorems.C40
import WK.Gen.C40
/-
  C40 — sharper obligations: the clauses of c40_seq_mono / c40_finish_fail_closed as separate
  theorems, cache loss through real route-table changes, and the T tie (fact table
  `WK.Gen.C40`, regenerated from /repo on every run) pinned to the model's guards.
-/
namespace WK.C40

theorem aget_filter_none {κ α : Type} [DecidableEq κ] (k : κ) (l : List (κ × α)) (p : κ × α → Bool)
    (h : ∀ v, p (k, v) = false) : aget k (l.filter p) = none := by
  induction l with
  | nil => rfl
  | cons hd t ih =>
    obtain ⟨k', v'⟩ := hd
    by_cases hk : k' = k
    · subst hk; simp [List.filter, h, ih]
    · cases hp : p (k', v') <;> simp [List.filter, hp, aget, hk, ih]

theorem aget_filter_of_none {κ α : Type} [DecidableEq κ] (k : κ) (l : List (κ × α)) (p : κ × α → Bool)
    (h : aget k l = none) : aget k (l.filter p) = none := by
  induction l with
  | nil => rfl
  | cons hd t ih =>
    obtain ⟨k', v'⟩ := hd
    by_cases hk : k' = k
    · subst hk; simp [aget] at h
    · simp only [aget, hk, if_false] at h
      cases hp : p (k', v') <;> simp [List.filter, hp, aget, hk, ih h]

theorem setRoute_keeps_none (n : Node) (r : Route) (m : MsgKey) (h : aget m n.cache = none) :
    aget m (setRoute n r).cache = none := aget_filter_of_none _ _ _ h

theorem foldl_setRoute_keeps_none (rs : List Route) (n : Node) (m : MsgKey) (h : aget m n.cache = none) :
    aget m (rs.foldl setRoute n).cache = none := by
  induction rs generalizing n with
  | nil => exact h
  | cons r t ih => exact ih (setRoute n r) (setRoute_keeps_none n r m h)

/-- **c40_route_loss_fail_closed.**  If a route-table change takes local authority over a
    channel's hash slot away from the leader (its Slot gets another leader, or the hash slot
    migrates to a Slot led by another node), then after ANY further route changes — including
    the hash slot coming back — a finish without a snapshot for a message of that channel is not
    acknowledged and changes nothing: the sessions cached before the loss are gone for good. -/
theorem c40_route_loss_fail_closed (n : Node) (r1 : Route) (rs : List Route) (raw : RawEvent) (ev : Event)
    (hn : normalize raw = some ev) (hty : ev.ty = .finish) (hs : hasSnapshot ev.pl = false)
    (hlost : (lostSlots n.route r1).contains (hashSlotOf ev.msg.ch n.route.own.length) = true) :
    let n' := rs.foldl setRoute (setRoute n r1)
    (nstep n' raw).1 = n' ∧ (nstep n' raw).2.1 ≠ .ok ∧ (nstep n' raw).2.2 = none := by
  intro n'
  have h1 : aget ev.msg (setRoute n r1).cache = none := by
    apply aget_filter_none
    intro v
    have hm : hashSlotOf ev.msg.ch n.route.own.length ∈ lostSlots n.route r1 := by simpa using hlost
    simp [hm]
  have h2 : aget ev.msg n'.cache = none := foldl_setRoute_keeps_none rs _ _ h1
  have ho : openStates n'.cache ev.msg = [] := by simp [openStates, h2]
  cases hl : n'.leads ev.msg.ch with
  | false => simp [nstep, hn, hl]
  | true => simp [nstep, hn, hty, hl, ho, hs]

example :
    let d : RawEvent := ⟨[103], 2, [109], [101, 49], [97], tyDelta, [], 1,
      { delta := some [104], view := .text [], term := some (.none, 0, []), empty := false }, 2⟩
    let f : RawEvent := ⟨[103], 2, [109], [101, 50], [], tyFinish, [], 3, {}, 4⟩
    let n1 := (nstep {} d).1
    let away : Route := ⟨1, 2, [2, 2, 2, 2]⟩
    (lostSlots n1.route away).contains (hashSlotOf [103] 4) = true ∧
    (nstep (setRoute (setRoute n1 away) {}) f).2.1 = .cachemiss ∧ (nstep n1 f).2.1 = .ok := by decide


/-! ### clauses of c40_seq_mono -/

/-- **c40_append_applies.**  A new event id on a lane that is neither terminal nor already at
    this id raises the message's sequence by exactly one; the lane and the result get that number. -/
theorem c40_append_applies (db : DB) (ev : Event)
    (ha : aget (ev.msg, ev.id) db.applied = none) (hf : fresh (aget (ev.msg, ev.key) db.lanes) ev) :
    cur (append db ev).1 ev.msg = cur db ev.msg + 1 ∧ (append db ev).2.seq = cur db ev.msg + 1 ∧
    ∃ l, aget (ev.msg, ev.key) (append db ev).1.lanes = some l ∧ l.seq = cur db ev.msg + 1 ∧ l.lastId = ev.id :=
  (c40_seq_mono.1 db ev).1 ⟨ha, hf⟩

/-- **c40_append_refused_noop.**  A known event id, a terminal lane, or a lane already at this id:
    the three tables are left exactly as they were. -/
theorem c40_append_refused_noop (db : DB) (ev : Event)
    (h : ¬ (aget (ev.msg, ev.id) db.applied = none ∧ fresh (aget (ev.msg, ev.key) db.lanes) ev)) :
    (append db ev).1 = db := (c40_seq_mono.1 db ev).2 h

/-- **c40_seq_never_decreases.**  Along every node-level history no message's durable sequence decreases. -/
theorem c40_seq_never_decreases (h : List NOp) (n : Node) (hb : Bounded n.db) (m : MsgKey) :
    cur n.db m ≤ cur (nrun n h).db m := (c40_seq_mono.2 h n hb).1 m

/-- **c40_lane_seq_never_decreases.**  … and no lane's sequence decreases (a lane is never removed). -/
theorem c40_lane_seq_never_decreases (h : List NOp) (n : Node) (hb : Bounded n.db) (m : MsgKey) (k : Bytes) (l : Lane)
    (hl : aget (m, k) n.db.lanes = some l) :
    ∃ l', aget (m, k) (nrun n h).db.lanes = some l' ∧ l.seq ≤ l'.seq := (c40_seq_mono.2 h n hb).2.1 m k l hl

/-- **c40_lanes_bounded_by_cursor.**  In every state reachable from the empty store each lane's
    sequence is at most its message's cursor. -/
theorem c40_lanes_bounded_by_cursor (h : List NOp) : Bounded (nrun {} h).db :=
  (c40_seq_mono.2 h {} bounded_empty).2.2

/-- **c40_applied_rows_permanent.**  An applied-event row, once written, is never changed or removed. -/
theorem c40_applied_rows_permanent (h : List NOp) (n : Node) (hb : Bounded n.db) (x : MsgKey × Bytes) (ap : Applied)
    (hx : aget x n.db.applied = some ap) : aget x (nrun n h).db.applied = some ap :=
  (nrun_ext h n hb).1.applied x ap hx

example :
    let ev : Event := ⟨⟨[103], 2, [109]⟩, [101, 49], [97], .delta, visPublic, 1, {}, 2⟩
    aget (ev.msg, ev.id) ({} : DB).applied = none ∧ fresh (aget (ev.msg, ev.key) ({} : DB).lanes) ev ∧
    ¬ (aget (ev.msg, ev.id) (append {} ev).1.applied = none ∧ fresh (aget (ev.msg, ev.key) (append {} ev).1.lanes) ev) ∧
    aget (ev.msg, ev.id) (nrun { db := (append {} ev).1 } [.lose, .rt ⟨2, 2, [1, 1, 1, 1]⟩]).db.applied
      = some ⟨[97], 1, .open_, 2⟩ := by decide

/-! ### clauses of c40_finish_fail_closed -/

/-- **c40_finish_cachemiss.** -/
theorem c40_finish_cachemiss (n : Node) (r : RawEvent) (ev : Event) (hn : normalize r = some ev) (hty : ev.ty = .finish)
    (hl : n.leads ev.msg.ch = true) (ho : openStates n.cache ev.msg = []) (hs : hasSnapshot ev.pl = false) :
    nstep n r = (n, .cachemiss, none) := c40_finish_fail_closed.1 n r ev hn hty hl ho hs

/-- **c40_finish_after_restart.** -/
theorem c40_finish_after_restart (n : Node) (r : RawEvent) (ev : Event) (hn : normalize r = some ev) (hty : ev.ty = .finish)
    (hl : n.leads ev.msg.ch = true) (hs : hasSnapshot ev.pl = false) :
    nstep (loseCache n) r = (loseCache n, .cachemiss, none) := c40_finish_fail_closed.2.1 n r ev hn hty hl hs

/-- **c40_finish_batch_shape.**  An accepted finish writes exactly: one close per open cached lane
    (in lane-key order, each carrying the cached snapshot) followed by the finish event. -/
theorem c40_finish_batch_shape (n : Node) (r : RawEvent) (ev : Event) (hn : normalize r = some ev) (hty : ev.ty = .finish)
    (hl : n.leads ev.msg.ch = true) (h : ¬ (openStates n.cache ev.msg = [] ∧ hasSnapshot ev.pl = false)) :
    (nstep n r).1.db = (appendAll n.db ((openStates n.cache ev.msg).map (flushEvent ev) ++ [ev])).1 ∧ (nstep n r).2.1 = .ok :=
  c40_finish_fail_closed.2.2.1 n r ev hn hty hl h

/-- **c40_flush_closes_lane.** -/
theorem c40_flush_closes_lane (db : DB) (fin : Event) (kl : Bytes × Lane)
    (ha : aget (fin.msg, (flushEvent fin kl).id) db.applied = none)
    (hf : fresh (aget (fin.msg, kl.1) db.lanes) (flushEvent fin kl)) :
    ∃ l, aget (fin.msg, kl.1) (append db (flushEvent fin kl)).1.lanes = some l ∧ l.status = .closed ∧
      (kl.2.snap ≠ .none → (termOf fin.pl).1 = .none → snapIsJSON kl.2.snap = true → l.snap = kl.2.snap) :=
  c40_finish_fail_closed.2.2.2 db fin kl ha hf

/-- **c40_cache_only_events_not_durable.**  open / delta / snapshot events on the leader never
    touch the durable tables (they live in the cache until a terminal event or a finish). -/
theorem c40_cache_only_events_not_durable (n : Node) (r : RawEvent) (ev : Event) (hn : normalize r = some ev)
    (hty : ev.ty = .open_ ∨ ev.ty = .delta ∨ ev.ty = .snapshot) : (nstep n r).1.db = n.db := by
  unfold nstep
  simp only [hn]
  cases hl : n.leads ev.msg.ch with
  | false => simp
  | true => rcases hty with h | h | h <;> simp only [h] <;> cases admitSession n.cache n.cap ev.msg <;> simp

example :
    let d : RawEvent := ⟨[103], 2, [109], [101, 49], [97], tyDelta, [], 1,
      { delta := some [104], view := .text [], term := some (.none, 0, []), empty := false }, 2⟩
    (nstep {} d).1.db.lanes = [] ∧ (nstep {} d).2.1 = .ok := by decide

/-! ### T tie: the guards in the source are the guards of the model -/

/-- **c40_reducer_guards_pinned.**  The facts re-read from the Go source on this run —
    refusal guard of `reduceMessageEventAppend` (replayed id ∨ terminal lane, returning the
    inputs with didApply = false), sequence increment (cursor + 1 to lane and cursor), the three
    terminal statuses, the applied-event short-circuit before the reducer in both entry points,
    the finish cache-miss guard before any proposal, and the lost-authority test on the NEW route
    table — all hold, and the model's guards are exactly those: `fresh`, `Status.terminal`,
    the `+ 1` of `reduce`, `append`'s applied lookup first, `nstep`'s finish guard, `lostSlots`. -/
theorem c40_reducer_guards_pinned :
    (WK.Gen.C40.guardReplayOrTerminal = true ∧ WK.Gen.C40.seqIncrement = true ∧ WK.Gen.C40.terminalStatuses = true ∧
     WK.Gen.C40.appliedShortCircuitShard = true ∧ WK.Gen.C40.appliedShortCircuitBatch = true ∧
     WK.Gen.C40.finishCacheMissGuard = true ∧ WK.Gen.C40.lostAuthorityUsesNewTable = true) ∧
    (∀ (l : Lane) (ev : Event), fresh (some l) ev ↔ ¬ (l.lastId = ev.id ∨ l.status.terminal = true)) ∧
    (∀ s : Status, s.terminal = true ↔ (s = .closed ∨ s = .error ∨ s = .cancelled)) ∧
    (∀ (lane : Option Lane) (c : Option (Nat × Int)) (ev : Event), fresh lane ev →
        (reduce lane c ev).1.seq = (c.getD (0, 0)).1 + 1 ∧ (reduce lane c ev).2.1.1 = (c.getD (0, 0)).1 + 1) ∧
    (∀ (db : DB) (ev : Event) (ap : Applied), aget (ev.msg, ev.id) db.applied = some ap → (append db ev).1 = db) ∧
    (∀ (before after : Route) (h : Nat), h ∈ lostSlots before after ↔
        (h < before.own.length ∧ before.leaderOf h = 1 ∧ after.leaderOf h ≠ 1)) := by
  refine ⟨by decide, fun l ev => Iff.rfl, ?_, ?_, ?_, ?_⟩
  · intro s; cases s <;> simp [Status.terminal]
  · intro lane c ev hf
    have := reduce_fresh lane c ev hf
    exact ⟨this.2.1, this.2.2.1⟩
  · intro db ev ap h
    simp [append, h]
  · intro before after h
    simp [lostSlots]

end WK.C40

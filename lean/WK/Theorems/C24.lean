import WK.Proofs.C24_Lemmas
/-
  C24 — JSON-RPC protocol is a faithful frame bridge.

  The repository contains two HALF bridges: `ToFrame` (client → server: CONNECT, SEND, PING, DISCONNECT, RECVACK)
  and `FromFrame` (server → client: CONNACK, SENDACK, RECV, EVENT, DISCONNECT, PONG).  They are never inverse to
  each other (`c24_halves_do_not_compose`); "to its JSON-RPC message and back" therefore goes through the peer's half,
  `peerFromFrame` / `peerToFrame` of the spec.  The theorems say exactly which fields survive (`normIn`, `normOut`)
  and when the request id does (`ridIn`, `ridOut`).  The JSON text layer is abstract: `reDecode`.
-/
namespace WK.C24
open WK

/-! ## determineMessageType -/

/-- **determine_total**: for every probe the result is a definite type without error, or an error — never
    "unknown" without an error, and never request/response together with an error. -/
theorem c24_determine_total (p : Probe) :
    ((determine p).2 = none → (determine p).1 ≠ .unknown) ∧
    (((determine p).1 = .request ∨ (determine p).1 = .response) → (determine p).2 = none) := by
  unfold determine
  cases p.jv <;> simp only [] <;> (repeat' split) <;> simp_all

example : determine { jv := .absent, idRaw := none, method := [], result := true, error := false } = (.unknown, some .undetermined) := by decide

def idPresent (p : Probe) : Bool := p.idRaw.isSome && p.idRaw != some []
def versionOk (p : Probe) : Bool := p.jv == .absent || p.jv == .str v20

/-- the three accepted shapes, exactly -/
theorem c24_determine_request (p : Probe) :
    determine p = (.request, none) ↔ (versionOk p = true ∧ p.method ≠ [] ∧ idPresent p = true) := by
  rcases p with ⟨jv, idRaw, method, result, error⟩
  unfold determine versionOk idPresent
  cases jv with
  | nonString => simp
  | absent =>
    cases idRaw with
    | none => by_cases hm : method = [] <;> simp [hm] <;> (try split) <;> simp
    | some v => by_cases hv : v = [] <;> by_cases hm : method = [] <;> cases result <;> cases error <;> simp [hv, hm] <;> (try split) <;> simp
  | str s =>
    by_cases hs : s = v20
    · cases idRaw with
      | none => by_cases hm : method = [] <;> simp [hs, hm] <;> (try split) <;> simp
      | some v => by_cases hv : v = [] <;> by_cases hm : method = [] <;> cases result <;> cases error <;> simp [hs, hv, hm] <;> (try split) <;> simp
    · simp [hs]

example : determine { jv := .str v20, idRaw := some [49], method := [112], result := false, error := false } = (.request, none) := by decide

theorem c24_determine_response (p : Probe) :
    determine p = (.response, none) ↔
      (versionOk p = true ∧ p.method = [] ∧ idPresent p = true ∧ (p.result ≠ p.error)) := by
  rcases p with ⟨jv, idRaw, method, result, error⟩
  unfold determine versionOk idPresent
  cases jv with
  | nonString => simp
  | absent =>
    cases idRaw with
    | none => by_cases hm : method = [] <;> simp [hm] <;> (try split) <;> simp
    | some v => by_cases hv : v = [] <;> by_cases hm : method = [] <;> cases result <;> cases error <;> simp [hv, hm] <;> (try split) <;> simp
  | str s =>
    by_cases hs : s = v20
    · cases idRaw with
      | none => by_cases hm : method = [] <;> simp [hs, hm] <;> (try split) <;> simp
      | some v => by_cases hv : v = [] <;> by_cases hm : method = [] <;> cases result <;> cases error <;> simp [hs, hv, hm] <;> (try split) <;> simp
    · simp [hs]

example : determine { jv := .absent, idRaw := some [49], method := [], result := true, error := false } = (.response, none) := by decide

/-! ## ToFrame: client → server -/

def IsInbound : Frame → Prop
  | .connect _ | .send _ | .recvack _ | .disconnect _ | .ping _ => True
  | _ => False

/-- **bridge_roundtrip (inbound)**: the message a client builds for an inbound frame is turned back by `ToFrame` into
    `normIn f` — every field except: CONNECT.Version 0 becomes LatestVersion; SEND.ClientSeq is dropped (0) and only the
    Setting bits Receipt/Signal/Stream/Topic survive; DISCONNECT and PING lose their header flags — with the same request id
    (RECVACK is a notification and has none). -/
theorem c24_bridge_roundtrip_in (rid : Str) (f : Frame) (hf : IsInbound f) (hr : InRange f) :
    ∃ m, peerFromFrame rid f = some m ∧ toFrame m = .ok (normIn f, ridIn rid f) := by
  cases f with
  | connect c =>
    refine ⟨_, rfl, ?_⟩
    obtain ⟨h1, h2⟩ := hr
    simp only [toFrame, normIn, ridIn, toU8_nat _ h1, toU8_nat _ h2]
    congr 3
    by_cases h0 : c.version = 0 <;> simp [h0]
  | send s =>
    refine ⟨_, rfl, ?_⟩
    obtain ⟨_, h2⟩ := hr
    simp only [toFrame, normIn, ridIn, toU8_nat _ h2, mask_flags]
  | recvack r =>
    refine ⟨_, rfl, ?_⟩
    simp only [toFrame, normIn, ridIn, parseInt64_fmtInt _ hr]
  | disconnect d =>
    refine ⟨_, rfl, ?_⟩
    simp only [toFrame, normIn, ridIn, toU8_nat _ hr]
  | ping fl => exact ⟨_, rfl, rfl⟩
  | pong _ => exact absurd hf (by simp [IsInbound])
  | connack _ => exact absurd hf (by simp [IsInbound])
  | sendack _ => exact absurd hf (by simp [IsInbound])
  | recv _ => exact absurd hf (by simp [IsInbound])
  | event _ => exact absurd hf (by simp [IsInbound])

example : ∃ m, peerFromFrame [114] (.ping {}) = some m ∧ toFrame m = .ok (.ping {}, [114]) :=
  c24_bridge_roundtrip_in [114] (.ping {}) trivial trivial

/-- out-of-range message integers are truncated, not rejected (what `uint8(p.ChannelType)` does) -/
theorem c24_inbound_truncates (id : Str) (p : SendParams) :
    ∃ s, toFrame (.sendReq id p) = .ok (.send s, id) ∧ s.channelType = (p.channelType % 256).toNat ∧ s.clientSeq = 0 :=
  ⟨_, rfl, rfl, rfl⟩

/-- a RECVACK whose messageId is not a decimal int64 is bridged to MessageID 0 (syntax) or ±2^63 (range): the
    ParseInt error is dropped -/
theorem c24_recvack_bad_id (p : RecvAckParams) (h : p.messageID = [120]) :
    toFrame (.recvAckNotif p) = .ok (.recvack { fl := p.header, messageID := 0, messageSeq := p.messageSeq }, []) := by
  simp only [toFrame, h]; rfl

/-! ## FromFrame: server → client -/

def IsOutbound : Frame → Prop
  | .connack _ | .sendack _ | .recv _ | .event _ | .disconnect _ | .pong _ => True
  | _ => False

/-- **bridge_roundtrip (outbound)**: `FromFrame` produces a message from which the client recovers `normOut f` — every field
    except: CONNACK.HasServerVersion; SENDACK.ClientSeq and ClientMsgNo; RECV.ClientSeq and the Setting bits other than
    Receipt/Signal/Stream/Topic; the header flags of DISCONNECT and PONG — and the request id for the three responses
    (CONNACK, SENDACK, PONG); RECV, EVENT and DISCONNECT are notifications. -/
theorem c24_bridge_roundtrip_out (rid : Str) (f : Frame) (hf : IsOutbound f) (hr : InRange f) :
    ∃ m, fromFrame rid f = .ok m ∧ peerToFrame m = some (normOut f, ridOut rid f) := by
  cases f with
  | connack a =>
    refine ⟨_, rfl, ?_⟩
    simp only [peerToFrame, normOut, ridOut, hdr_getD, Int.toNat_natCast]
  | sendack a =>
    refine ⟨_, rfl, ?_⟩
    simp only [peerToFrame, normOut, ridOut, hdr_getD, Int.toNat_natCast, parseInt64_fmtInt _ hr]
  | recv r =>
    refine ⟨_, rfl, ?_⟩
    simp only [peerToFrame, normOut, ridOut, hdr_getD, Int.toNat_natCast, parseInt64_fmtInt _ hr.2, mask_eq, decVal_decBytes]
  | event e =>
    refine ⟨_, rfl, ?_⟩
    simp only [peerToFrame, normOut, ridOut, hdr_getD]
  | disconnect d =>
    refine ⟨_, rfl, ?_⟩
    simp only [peerToFrame, normOut, ridOut, Int.toNat_natCast]
  | pong fl => exact ⟨_, rfl, rfl⟩
  | connect _ => exact absurd hf (by simp [IsOutbound])
  | send _ => exact absurd hf (by simp [IsOutbound])
  | recvack _ => exact absurd hf (by simp [IsOutbound])
  | ping _ => exact absurd hf (by simp [IsOutbound])

example : ∃ m, fromFrame [114] (.pong {}) = .ok m ∧ peerToFrame m = some (.pong {}, [114]) :=
  c24_bridge_roundtrip_out [114] (.pong {}) trivial trivial

/-- frames of the other direction are refused -/
theorem c24_fromFrame_refuses_inbound (rid : Str) (f : Frame) (hf : IsInbound f) (hd : ∀ d, f ≠ .disconnect d) :
    fromFrame rid f = .error .unknownframe := by
  cases f <;> first | rfl | exact (hd _ rfl).elim | exact absurd hf (by simp [IsInbound])

example : fromFrame [] (.ping {}) = .error .unknownframe := rfl

/-- **the two halves never compose**: whatever `FromFrame` produces (and the JSON layer returns) is rejected by `ToFrame`.
    The literal "frame → FromFrame → Encode → Decode → ToFrame" of the property does not exist for any frame type. -/
theorem c24_halves_do_not_compose (rid : Str) (f : Frame) (m m' : Msg) (h1 : fromFrame rid f = .ok m) (h2 : reDecode m = .ok m') :
    toFrame m' = .error .unknownpacket := by
  cases f <;> simp only [fromFrame] at h1 <;> first
    | (injection h1 with h1; subst h1; simp only [reDecode] at h2
       (try split at h2) <;> first | (injection h2 with h2; subst h2; rfl) | cases h2)
    | cases h1

example : ∃ m', reDecode (.disconnectNotif { reasonCode := 1, reason := [] }) = .ok m' ∧ toFrame m' = .error .unknownpacket :=
  ⟨_, rfl, rfl⟩

/-! ## the JSON text layer -/

theorem utf8Len_ascii (a : UInt8) (rest : Bytes) (h : a.toNat < 0x80) : utf8Len (a :: rest) = 1 := by
  unfold utf8Len; simp [h]

theorem sanitizeAux_ascii (s : Bytes) : ∀ fuel, s.length < fuel → (∀ b ∈ s, b.toNat < 0x80) → sanitizeAux fuel s = s := by
  induction s with
  | nil => intro fuel h _; cases fuel with
    | zero => simp at h
    | succ n => rfl
  | cons a rest ih =>
    intro fuel h hall
    cases fuel with
    | zero => simp at h
    | succ n =>
      have ha : a.toNat < 0x80 := hall a (by simp)
      simp only [sanitizeAux, utf8Len_ascii a rest ha]
      simp only [List.take_succ_cons, List.take_zero, List.drop_succ_cons, List.drop_zero, List.cons_append, List.nil_append]
      rw [ih n (by simp at h; omega) (fun b hb => hall b (by simp [hb]))]

/-- ASCII strings pass the JSON layer unchanged -/
theorem validUtf8_ascii (s : Str) (h : ∀ b ∈ s, b.toNat < 0x80) : ValidUtf8 s :=
  sanitizeAux_ascii s _ (Nat.lt_succ_self _) h

theorem isDigit_ascii (s : Str) (h : s.all isDigit = true) : ∀ b ∈ s, b.toNat < 0x80 := by
  intro b hb
  have := List.all_eq_true.mp h b hb
  unfold isDigit at this
  simp at this; omega

theorem validUtf8_decBytes (n : Nat) : ValidUtf8 (decBytes n) := validUtf8_ascii _ (isDigit_ascii _ (decBytes_digits n).1)

theorem validUtf8_fmtInt (x : Int) : ValidUtf8 (fmtInt x) := by
  apply validUtf8_ascii
  unfold fmtInt
  split
  · intro b hb
    rcases List.mem_cons.mp hb with hb | hb
    · subst hb; decide
    · exact isDigit_ascii _ (decBytes_digits _).1 b hb
  · exact isDigit_ascii _ (decBytes_digits _).1

/-- outbound frames the JSON layer can carry: strings are valid UTF-8 (JSON text cannot hold anything else) -/
def TextOK : Frame → Prop
  | .connack a => ValidUtf8 a.serverKey ∧ ValidUtf8 a.salt
  | .sendack _ => True
  | .recv r => ValidUtf8 r.msgKey ∧ ValidUtf8 r.clientMsgNo ∧ ValidUtf8 r.streamNo ∧ ValidUtf8 r.channelID ∧ ValidUtf8 r.topic ∧ ValidUtf8 r.fromUID
  | .event e => ValidUtf8 e.id ∧ ValidUtf8 e.type ∧ ValidUtf8 e.data
  | .disconnect d => ValidUtf8 d.reason
  | _ => True

/-- **the bridge is faithful, server → client, through the JSON layer**: for every outbound frame, with
    valid-UTF-8 strings, in-range integers and (for the responses) a non-empty valid request id, what the client decodes
    determines `normOut f` and the request id. -/
theorem c24_bridge_faithful_out (rid : Str) (f : Frame) (hf : IsOutbound f) (hr : InRange f)
    (ht : TextOK f) (hid : rid ≠ [] ∧ ValidUtf8 rid) :
    ∃ m m', fromFrame rid f = .ok m ∧ reDecode m = .ok m' ∧ peerToFrame m' = some (normOut f, ridOut rid f) := by
  obtain ⟨m, hm, hpeer⟩ := c24_bridge_roundtrip_out rid f hf hr
  refine ⟨m, m, hm, ?_, hpeer⟩
  unfold ValidUtf8 at hid
  cases f with
  | connack a =>
    injection hm with hm; subst hm
    obtain ⟨h1, h2⟩ := ht
    unfold ValidUtf8 at h1 h2
    simp only [reDecode, hid.1, if_false, hid.2, h1, h2]
  | sendack a =>
    injection hm with hm; subst hm
    have := validUtf8_fmtInt a.messageID
    unfold ValidUtf8 at this
    simp only [reDecode, hid.1, if_false, hid.2, this]
  | recv r =>
    injection hm with hm; subst hm
    obtain ⟨h1, h2, h3, h4, h5, h6⟩ := ht
    have h7 := validUtf8_fmtInt r.messageID
    have h8 := validUtf8_decBytes r.streamId
    unfold ValidUtf8 at h1 h2 h3 h4 h5 h6 h7 h8
    simp only [reDecode, h1, h2, h3, h4, h5, h6, h7, h8]
  | event e =>
    injection hm with hm; subst hm
    obtain ⟨h1, h2, h3⟩ := ht
    unfold ValidUtf8 at h1 h2 h3
    simp only [reDecode, h1, h2, h3]
  | disconnect d =>
    injection hm with hm; subst hm
    unfold TextOK ValidUtf8 at ht
    simp only [reDecode, ht]
  | pong fl =>
    injection hm with hm; subst hm
    simp only [reDecode, hid.1, if_false, hid.2]
  | connect _ => exact absurd hf (by simp [IsOutbound])
  | send _ => exact absurd hf (by simp [IsOutbound])
  | recvack _ => exact absurd hf (by simp [IsOutbound])
  | ping _ => exact absurd hf (by simp [IsOutbound])

example : ∃ m m', fromFrame [114] (.disconnect { fl := {}, reasonCode := 3, reason := [98] }) = .ok m ∧ reDecode m = .ok m' ∧
    peerToFrame m' = some (.disconnect { fl := {}, reasonCode := 3, reason := [98] }, []) :=
  c24_bridge_faithful_out [114] _ trivial (by simp [InRange]) (by unfold TextOK ValidUtf8; decide) ⟨by decide, by unfold ValidUtf8; decide⟩

/-- **PONG round trip** (a finding on the original tree, repaired in /repo 0daf3a1ff): the response `FromFrame` builds for
    a PONG now carries `result: {}`, so `determineMessageType` classifies it as a response and the client gets the
    request id back.  (Before the fix the probe had `result := false` and the outcome was `(unknown, undetermined)`.) -/
theorem c24_pong_roundtrip (rid : Str) (fl : Flags) (hid : rid ≠ [] ∧ ValidUtf8 rid) :
    ∃ m m', fromFrame rid (.pong fl) = .ok m ∧ reDecode m = .ok m' ∧ peerToFrame m' = some (.pong Flags.none, rid) ∧
      determine { jv := .str v20, idRaw := some (34 :: rid ++ [34]), method := [], result := true, error := false }
        = (.response, none) := by
  unfold ValidUtf8 at hid
  refine ⟨_, .pongResp rid, rfl, ?_, rfl, ?_⟩
  · simp only [reDecode, hid.1, if_false, hid.2]
  · unfold determine
    simp [v20]

example : ∃ m m', fromFrame [114] (.pong {}) = .ok m ∧ reDecode m = .ok m' ∧ peerToFrame m' = some (.pong Flags.none, [114]) := by
  obtain ⟨m, m', h1, h2, h3, _⟩ := c24_pong_roundtrip [114] {} ⟨by decide, by unfold ValidUtf8; decide⟩
  exact ⟨m, m', h1, h2, h3⟩

/-- what the unrepaired shape looked like to `determineMessageType`: id, no method, neither result nor error -/
theorem c24_response_needs_result_or_error (rid : Str) :
    determine { jv := .str v20, idRaw := some (34 :: rid ++ [34]), method := [], result := false, error := false }
      = (.unknown, some .undetermined) := by
  unfold determine
  simp [v20]

/-- invalid UTF-8 cannot cross the bridge: it is replaced, so such a frame does NOT round-trip (stated, outside `TextOK`) -/
theorem c24_invalid_utf8_is_lossy : sanitize [0xff] = [0xEF, 0xBF, 0xBD] ∧ ¬ ValidUtf8 [0xff] := by
  constructor
  · decide
  · unfold ValidUtf8; decide

/-! ## client → server through the JSON layer -/

/-- inbound frames the JSON layer can carry: strings are valid UTF-8 -/
def TextOKIn : Frame → Prop
  | .connect c => ValidUtf8 c.clientKey ∧ ValidUtf8 c.deviceID ∧ ValidUtf8 c.uid ∧ ValidUtf8 c.token
  | .send s => ValidUtf8 s.msgKey ∧ ValidUtf8 s.clientMsgNo ∧ ValidUtf8 s.streamNo ∧ ValidUtf8 s.channelID ∧ ValidUtf8 s.topic
  | .disconnect d => ValidUtf8 d.reason
  | _ => True

/-- **the bridge is faithful, client → server, through the JSON layer**: for every inbound frame (CONNECT, SEND, PING,
    DISCONNECT, RECVACK) with valid-UTF-8 strings, in-range integers and a non-empty valid request id, the message the client
    builds survives Encode/Decode (`reDecode`) and `ToFrame` returns `normIn f` with the request id (none for RECVACK). -/
theorem c24_bridge_faithful_in (rid : Str) (f : Frame) (hf : IsInbound f) (hr : InRange f) (ht : TextOKIn f)
    (hid : rid ≠ [] ∧ ValidUtf8 rid) :
    ∃ m m', peerFromFrame rid f = some m ∧ reDecode m = .ok m' ∧ toFrame m' = .ok (normIn f, ridIn rid f) := by
  obtain ⟨m, hm, hto⟩ := c24_bridge_roundtrip_in rid f hf hr
  refine ⟨m, m, hm, ?_, hto⟩
  unfold ValidUtf8 at hid
  cases f with
  | connect c =>
    injection hm with hm; subst hm
    obtain ⟨h1, h2, h3, h4⟩ := ht
    unfold ValidUtf8 at h1 h2 h3 h4
    simp only [reDecode, hid.1, if_false, hid.2, h1, h2, h3, h4]
  | send s =>
    injection hm with hm; subst hm
    obtain ⟨h1, h2, h3, h4, h5⟩ := ht
    unfold ValidUtf8 at h1 h2 h3 h4 h5
    simp only [reDecode, hid.1, if_false, hid.2, h1, h2, h3, h4, h5]
  | recvack r =>
    injection hm with hm; subst hm
    have := validUtf8_fmtInt r.messageID
    unfold ValidUtf8 at this
    simp only [reDecode, this]
  | disconnect d =>
    injection hm with hm; subst hm
    unfold TextOKIn ValidUtf8 at ht
    simp only [reDecode, hid.1, if_false, hid.2, ht]
  | ping fl =>
    injection hm with hm; subst hm
    simp only [reDecode, hid.1, if_false, hid.2]
  | pong _ => exact absurd hf (by simp [IsInbound])
  | connack _ => exact absurd hf (by simp [IsInbound])
  | sendack _ => exact absurd hf (by simp [IsInbound])
  | recv _ => exact absurd hf (by simp [IsInbound])
  | event _ => exact absurd hf (by simp [IsInbound])

example : ∃ m m', peerFromFrame [114] (.recvack { fl := {}, messageID := -5, messageSeq := 2 ^ 40 }) = some m ∧ reDecode m = .ok m' ∧
    toFrame m' = .ok (.recvack { fl := {}, messageID := -5, messageSeq := 2 ^ 40 }, []) :=
  c24_bridge_faithful_in [114] _ trivial (by show int64 (-5); unfold int64; omega) trivial ⟨by decide, by unfold ValidUtf8; decide⟩

/-- a request without an id never reaches `ToFrame` as a request: the JSON layer drops the empty id and `Decode` then
    refuses it (CONNECT/SEND/PING) or takes it for a notification that `ToFrame` rejects (DISCONNECT) -/
theorem c24_request_needs_id (f : Frame) (hf : IsInbound f) (hra : ∀ r, f ≠ .recvack r) (m : Msg) (hm : peerFromFrame [] f = some m) :
    reDecode m = .error .unknownnotif ∨ ∃ m', reDecode m = .ok m' ∧ toFrame m' = .error .unknownpacket := by
  cases f with
  | connect c => injection hm with hm; subst hm; exact Or.inl rfl
  | send s => injection hm with hm; subst hm; exact Or.inl rfl
  | ping fl => injection hm with hm; subst hm; exact Or.inl rfl
  | disconnect d => injection hm with hm; subst hm; exact Or.inr ⟨_, rfl, rfl⟩
  | recvack r => exact absurd rfl (hra r)
  | pong _ => exact absurd hf (by simp [IsInbound])
  | connack _ => exact absurd hf (by simp [IsInbound])
  | sendack _ => exact absurd hf (by simp [IsInbound])
  | recv _ => exact absurd hf (by simp [IsInbound])
  | event _ => exact absurd hf (by simp [IsInbound])

example : reDecode (.pingReq []) = .error .unknownnotif := rfl

end WK.C24

import WK.Proofs.C26_Pending
import WK.Gen.C26
/-
  C26 part 2 — RPC correlation: theorems about the PendingTable labelled transition system
  (WK/Model/C26.lean, invariant in WK/Proofs/C26_Pending.lean) and the extracted facts about
  conn.Call / handleRPCResponse.  Kept in its own module so that a broken header proof
  (WK/Theorems/C26.lean) does not take these down and vice versa.
-/
namespace WK.C26
open WK.Gen.C26

/-! ## Part 2 — RPC correlation: the PendingTable LTS (pending.go), any number of callers,
     any interleaving of the atomic regions (`Reachable S`, `S` = shard count > 0) -/

/-- extracted facts the model relies on: conn.Call takes the id from the connection's atomic
    counter and puts that id on the wire, uses a private buffered(1) channel, stores it before
    the request can leave; the read loop completes by the response frame's own request id. -/
theorem c26_call_facts : callIdFromAtomicCounter = true ∧ callChannelBuffered1 = true ∧
    callStoreBeforeSend = true ∧ completeKeyedByFrameRequestID = true := by decide

/-- round 6 — the lock regions of pending.go from which the LTS takes its atomic steps, pinned to
    the statement lists regenerated from the source (WK/Gen/C26.lean: pending*Prog):
    * `.store c`: the closed test and the insert `shard.entries[id]=ch` both lie inside
      `p.closeMu.RLock() … RUnlock()` (so no insert can fall between FailAll's begin and end), the
      closed branch releases the lock and then only try-sends the close error;
    * `.completeRemove`/`.deliver`: lookup + delete of `id` in one `shard.mu` region, the send
      `trySend(ch,resp)` after `shard.mu.Unlock()` and only if the entry existed;
    * `.delete`: one `shard.mu` region; `.failBegin`/`.failShard`/`.failEnd`: `closeMu.Lock()`
      first, `closed/closeErr` set once before the sweep, each shard's map swapped inside its
      `shard.mu` region and its channels try-sent the error, `closeMu.Unlock()` last;
    * every send is `select { case ch<-resp: default: }` (never blocks), shards by `id&p.mask`.
    Any edit of these bodies (send moved under a lock, RUnlock before the insert, a missing
    `default:`, FailAll not resetting a shard …) changes a generated list and breaks this theorem. -/
theorem c26_pending_regions_src :
    pendingStoreProg = ["if ch==nil||cap(ch)<1 {", "panic(invalidPendingChannelPanic)", "}",
      "p.closeMu.RLock()", "if p.closed {", "err:=p.closeErr", "p.closeMu.RUnlock()",
      "trySend(ch,Response{Err:err})", "return", "}", "shard:=p.shardFor(id)", "shard.mu.Lock()",
      "shard.entries[id]=ch", "shard.mu.Unlock()", "p.closeMu.RUnlock()"] ∧
    pendingDeleteProg = ["shard:=p.shardFor(id)", "shard.mu.Lock()", "delete(shard.entries,id)",
      "shard.mu.Unlock()"] ∧
    pendingCompleteProg = ["shard:=p.shardFor(id)", "shard.mu.Lock()", "ch,ok:=shard.entries[id]",
      "if ok {", "delete(shard.entries,id)", "}", "shard.mu.Unlock()", "if !ok {", "return false", "}",
      "trySend(ch,resp)", "return true"] ∧
    pendingFailAllProg = ["p.closeMu.Lock()", "if !p.closed {", "p.closed=true", "p.closeErr=err", "}",
      "for i,_ range p.shards {", "shard:=&p.shards[i]", "shard.mu.Lock()", "entries:=shard.entries",
      "shard.entries=make(map[uint64]chanResponse)", "shard.mu.Unlock()", "for _,ch range entries {",
      "trySend(ch,Response{Err:err})", "}", "}", "p.closeMu.Unlock()"] ∧
    pendingShardForProg = ["return &p.shards[id&p.mask]"] ∧
    pendingTrySendProg = ["select {", "case ch<-resp:", "default:", "}"] := by decide

/-- non-vacuity / reading of the pinned lists: in Store the insert sits strictly between the
    read-lock and its release, in Complete the send comes after the shard unlock. -/
example : pendingStoreProg.idxOf "p.closeMu.RLock()" < pendingStoreProg.idxOf "shard.entries[id]=ch" ∧
    pendingStoreProg.idxOf "shard.entries[id]=ch" < pendingStoreProg.length - 1 ∧
    pendingStoreProg.getLast? = some "p.closeMu.RUnlock()" ∧
    pendingCompleteProg.idxOf "shard.mu.Unlock()" < pendingCompleteProg.idxOf "trySend(ch,resp)" := by decide

/-- **own_response**: whatever a caller receives is a response to its own request id
    (or a terminal error), and the same holds for anything still on its way to it. -/
theorem c26_own_response (S : Nat) (hS : 0 < S) (st : PT) (h : Reachable S st) (c : Nat) :
    (∀ t n, st.pc c = .got (.ok t n) → t = c) ∧
    (∀ t n, st.chan c = some (.ok t n) → t = c) ∧
    (∀ t n, Resp.ok t n ∈ st.inflight c → t = c) := by
  have hp := (inv_reachable S hS st h).per c
  refine ⟨fun t n hg => (hp.got _ hg).2, fun t n hc => hp.tagChan _ hc, fun t n hi => hp.tagInflight _ hi⟩

/-- responses a caller has taken out of its channel (0 or 1) -/
def PT.received (st : PT) (c : Nat) : Nat :=
  match st.pc c with
  | .got _ => 1
  | _ => 0

/-- **at_most_one**: over the whole life of a call at most one response exists for it — counting
    its table entry (a response still to come), sends in flight, its channel and what it already
    received; consequently no non-blocking send to a caller is ever dropped. -/
theorem c26_at_most_one (S : Nat) (hS : 0 < S) (st : PT) (h : Reachable S st) (c : Nat) :
    st.cnt c + st.received c ≤ 1 ∧ st.dropped c = 0 := by
  have hp := (inv_reachable S hS st h).per c
  refine ⟨?_, hp.noDrop⟩
  unfold PT.received
  cases hpc : st.pc c with
  | idle => have := hp.idle hpc; simp; omega
  | waiting => have := hp.waiting hpc; simp; omega
  | got r => have := (hp.got r hpc).1; simp; omega
  | gaveUp => have := (hp.gaveUp hpc).1; simp; omega

/-- closeErr never changes once set (first FailAll wins) -/
theorem closed_stable (S : Nat) (st st' : PT) (l : Label) (e : Nat) (hc : st.closed = some e)
    (hs : st.step S l = some st') : st'.closed = some e := by
  cases l <;> simp only [PT.step] at hs
  case store c =>
    split at hs; · cases hs
    rw [hc] at hs; simp only at hs; cases hs; first | exact hc | rfl
  case completeRemove i n => split at hs <;> cases hs <;> exact hc
  case deliver c =>
    split at hs; · cases hs
    split at hs <;> cases hs <;> exact hc
  case delete c => split at hs; · cases hs
                   cases hs; exact hc
  case recv c =>
    split at hs; · cases hs
    split at hs; · cases hs
    cases hs; exact hc
  case failBegin e' => split at hs; · cases hs
                       cases hs; simp [hc]
  case failShard =>
    split at hs; · cases hs
    split at hs; · cases hs
    cases hs; exact hc
  case failEnd =>
    split at hs
    · split at hs
      · cases hs; exact hc
      · cases hs
    · cases hs

/-- **fail_all_terminal**: once FailAll has closed the table with error `e`
    (1) the close error never changes, (2) a later Store adds no entry and owes the caller
    exactly that error, (3) when the sweep is over the table is empty, and (4) at quiescence
    (no sweep, no send in flight) every caller still waiting has something in its channel —
    its own response or a terminal error — so nobody waits forever on a dead connection. -/
theorem c26_fail_all_terminal (S : Nat) (hS : 0 < S) (st : PT) (h : Reachable S st) (e : Nat)
    (hc : st.closed = some e) :
    (∀ l st', st.step S l = some st' → st'.closed = some e) ∧
    (∀ c st', st.step S (.store c) = some st' → st'.inflight c = [.err e] ∧ st'.inTable c = false) ∧
    (st.sweep = none → ∀ c, st.inTable c = false) ∧
    (st.sweep = none → (∀ c, st.inflight c = []) → ∀ c, st.pc c = .waiting → ∃ r, st.chan c = some r) := by
  have hinv := inv_reachable S hS st h
  refine ⟨fun l st' hs => closed_stable S st st' l e hc hs, ?_, ?_, ?_⟩
  · intro c st' hs
    simp only [PT.step] at hs
    split at hs; · cases hs
    rename_i hen
    have hidle : st.pc c = .idle := Classical.not_not.mp (fun x => hen (Or.inl x))
    have h0 := (hinv.per c).idle hidle
    rw [hc] at hs; simp only at hs; cases hs
    have hfl : st.inflight c = [] := by
      cases hh : st.inflight c with
      | nil => rfl
      | cons a b => simp [PT.cnt, hh] at h0
    have htab : st.inTable c = false := by
      cases hh : st.inTable c with
      | false => rfl
      | true => simp [PT.cnt, hh] at h0
    exact ⟨by simp [upd, hfl], htab⟩
  · intro hsw c
    cases hh : st.inTable c with
    | false => rfl
    | true =>
      rcases hinv.tableOpen c hh with hcl | ⟨e', s, hs', _⟩
      · rw [hc] at hcl; cases hcl
      · rw [hsw] at hs'; cases hs'
  · intro hsw hfl c hw
    have h1 := (hinv.per c).waiting hw
    have htab : st.inTable c = false := by
      cases hh : st.inTable c with
      | false => rfl
      | true =>
        rcases hinv.tableOpen c hh with hcl | ⟨e', s, hs', _⟩
        · rw [hc] at hcl; cases hcl
        · rw [hsw] at hs'; cases hs'
    cases hch : st.chan c with
    | some r => exact ⟨r, rfl⟩
    | none => simp [PT.cnt, htab, hfl c, hch] at h1

/-- a concrete interleaving (non-vacuity): caller 5 stores, the reader completes id 5, the send is
    executed, FailAll closes the table meanwhile, the caller receives its own response -/
def demoTrace : List Label :=
  [.store 5, .store 6, .completeRemove 5 77, .failBegin 9, .deliver 5, .failShard, .failShard, .deliver 6, .failEnd, .recv 5, .recv 6, .store 7, .deliver 7, .recv 7]

def runTrace (S : Nat) : PT → List Label → Option PT
  | st, [] => some st
  | st, l :: ls => match st.step S l with
    | some st' => runTrace S st' ls
    | none => none

theorem reachable_run (S : Nat) (st : PT) (h : Reachable S st) : ∀ (ls : List Label) (st' : PT),
    runTrace S st ls = some st' → Reachable S st' := by
  intro ls
  induction ls generalizing st with
  | nil => intro st' hr; simp [runTrace] at hr; subst hr; exact h
  | cons l ls ih =>
    intro st' hr
    simp only [runTrace] at hr
    split at hr
    · rename_i st1 hs; exact ih st1 (Reachable.step l h hs) st' hr
    · cases hr

example : ∃ st, runTrace 2 PT.init demoTrace = some st ∧ st.pc 5 = .got (.ok 5 77) ∧ st.pc 6 = .got (.err 9) ∧
    st.pc 7 = .got (.err 9) ∧ st.closed = some 9 := by
  refine ⟨_, rfl, ?_, ?_, ?_, ?_⟩ <;> decide

end WK.C26

import WK.Proofs.C32_Inv
import WK.Proofs.C32_Tok
import WK.Proofs.C32_Conc
import WK.Proofs.C32_Attempts
/-
  C32 — Receive-acknowledgement tracking is exact.

  Reference specification: the set of outstanding (uid, session, message) deliveries
  `outstanding s`.  All theorems are about `WK.C32.step` / `WK.C32.run`, the definitions the
  driver executes against the real `delivery.AckTracker`.
-/
namespace WK.C32

theorem outstanding_eq_keys (s : St) : outstanding s = keys s.entries := rfl

/-! ### every operation preserves the invariant -/

theorem bind_inv {s : St} (p : Pend) (h : Inv s) : Inv (bind s p).1 := by
  unfold bind
  split
  · exact h
  · exact (bindCore_spec s p h).1

theorem bindBatchLoop_inv : ∀ (items : List (Nat × Pend)) (s : St) (toks : List (Nat × Nat)) (added : Nat),
    Inv s → Inv (bindBatchLoop items s toks added).1
  | [], _, _, _, h => h
  | (_, p) :: rest, s, _, _, h => by
    unfold bindBatchLoop
    exact bindBatchLoop_inv rest _ _ _ (bindCore_spec s p h).1

theorem finishBatchLoop_inv : ∀ (items : List (Pend × Nat)) (s : St) (n : Nat),
    Inv s → Inv (finishBatchLoop items s n).1
  | [], _, _, h => h
  | (p, tok) :: rest, s, _, h => by
    unfold finishBatchLoop
    exact finishBatchLoop_inv rest _ _ (finish_spec s p tok h).1

theorem ack_inv {s : St} (k : MKey) (h : Inv s) : Inv (ack s k).1 := by
  unfold ack
  split
  · exact h
  · split
    · exact h
    · rename_i e he; exact inv_adel_existing h he

theorem sessionClosed_inv {s : St} (u : Str) (ss : Nat) (h : Inv s) : Inv (sessionClosed s u ss).1 := by
  unfold sessionClosed
  split
  · exact h
  · have := inv_filter h (fun ke => !inSession u ss ke.1)
    simpa using this

theorem expire_inv {s : St} (ttl : Int) (h : Inv s) : Inv (expire s ttl).1 := by
  unfold expire
  split
  · exact h
  · have := inv_filter h (fun ke => ke.2.freshAfter (s.now - ttlSeconds ttl))
    simpa using this

theorem inv_step {s : St} (h : Inv s) (op : Op) : Inv (step s op).1 := by
  cases op with
  | setNow n => exact ⟨h.nodup, h.count⟩
  | bind p => exact bind_inv p h
  | bindCompat p =>
    simp only [step, bindCompat]
    split
    · exact bind_inv p h
    · exact (finish_spec _ p _ (bind_inv p h)).1
  | bindBatch ps =>
    simp only [step, bindBatch]
    split
    · exact h
    · exact bindBatchLoop_inv _ s [] 0 h
  | finish p tok => exact (finish_spec s p tok h).1
  | finishBatch ps toks idxs => exact finishBatchLoop_inv _ s 0 h
  | cancel p tok => exact (cancel_spec s p tok h).1
  | ack k => exact ack_inv k h
  | closed u ss => exact sessionClosed_inv u ss h
  | expire ttl => exact expire_inv ttl h
  | count => exact h
  | reset => exact ⟨by simp [step, reset, keys], by simp [step, reset]⟩

theorem inv_run {s : St} (h : Inv s) (ops : List Op) : Inv (run s ops) := by
  induction ops generalizing s with
  | nil => exact h
  | cons op ops ih => exact ih (inv_step h op)

def fresh (shards : Nat) (maxPer now : Int) : St := { shards := shards, maxPer := maxPer, now := now }

theorem inv_fresh (shards : Nat) (maxPer now : Int) : Inv (fresh shards maxPer now) :=
  ⟨by simp [fresh, keys], by simp [fresh]⟩

/-- **The pending count is exact.**  After any sequence of bind / batch bind / finish / cancel /
    ack / session close / expiry / reset (for every configuration), the O(1) counter equals the
    number of distinct outstanding (uid, session, message) deliveries. -/
theorem c32_count_exact (shards : Nat) (maxPer now : Int) (ops : List Op) :
    (run (fresh shards maxPer now) ops).count = ((outstanding (run (fresh shards maxPer now) ops)).length : Int) ∧
    (outstanding (run (fresh shards maxPer now) ops)).Nodup ∧
    (step (run (fresh shards maxPer now) ops) .count).2 = .num (outstanding (run (fresh shards maxPer now) ops)).length := by
  have h := inv_run (inv_fresh shards maxPer now) ops
  refine ⟨?_, h.nodup, ?_⟩
  · rw [h.count]; simp [outstanding]
  · simp [step, h.count, outstanding]

/-! ### exact effect of each operation on the outstanding set -/

/-- **Ack removes only the matching delivery** and returns its metadata. -/
theorem c32_ack_exact (s : St) (k : MKey) (hv : k.uid ≠ [] ∧ k.sess ≠ 0 ∧ k.msg ≠ 0) :
    outstanding (ack s k).1 = (outstanding s).filter (fun x => x ≠ k) ∧
    (∀ k', k' ≠ k → aget k' (ack s k).1.entries = aget k' s.entries) ∧
    (ack s k).2 = (aget k s.entries).map (·.pending) := by
  unfold ack
  have : ¬ (k.uid = [] ∨ k.sess = 0 ∨ k.msg = 0) := by
    rintro (h | h | h)
    · exact hv.1 h
    · exact hv.2.1 h
    · exact hv.2.2 h
  simp only [this, if_false]
  cases he : aget k s.entries with
  | none =>
    refine ⟨?_, fun _ _ => rfl, rfl⟩
    simp only [outstanding_eq_keys]
    rw [List.filter_eq_self.mpr]
    intro x hx
    have := aget_none_iff.mp he
    simp only [ne_eq, decide_eq_true_eq]
    intro e; exact this (e ▸ hx)
  | some e =>
    refine ⟨by simp [outstanding_eq_keys, keys_adel], ?_, rfl⟩
    intro k' hk'; simp [aget_adel, hk']

/-- an ack with an empty uid / zero session / zero message id is ignored -/
theorem c32_ack_invalid (s : St) (k : MKey) (hv : k.uid = [] ∨ k.sess = 0 ∨ k.msg = 0) : ack s k = (s, none) := by
  unfold ack; simp [hv]

/-- **Session close removes exactly that session's deliveries** and returns them. -/
theorem c32_closed_exact (s : St) (u : Str) (ss : Nat) (hv : u ≠ [] ∧ ss ≠ 0) :
    (sessionClosed s u ss).1.entries = s.entries.filter (fun ke => !inSession u ss ke.1) ∧
    outstanding (sessionClosed s u ss).1 = (outstanding s).filter (fun k => !inSession u ss k) ∧
    (sessionClosed s u ss).2 = (s.entries.filter (fun ke => inSession u ss ke.1)).map (·.2.pending) := by
  unfold sessionClosed
  have : ¬ (u = [] ∨ ss = 0) := by rintro (h | h); exact hv.1 h; exact hv.2 h
  simp only [this, if_false]
  refine ⟨trivial, ?_, trivial⟩
  simp [outstanding, List.filter_map]
  rfl

/-- **Expiry removes exactly the deliveries idle past the TTL**: those none of whose delivery
    candidates (committed snapshot / primary attempt, overlapping attempts) is newer than
    `now - ceil(ttl)`; with `ttl ≤ 0` nothing is removed. -/
theorem c32_expire_exact (s : St) (ttl : Int) :
    (expire s ttl).1.entries =
      (if ttl ≤ 0 then s.entries else s.entries.filter (fun ke => ke.2.freshAfter (s.now - ttlSeconds ttl))) ∧
    (expire s ttl).2 =
      (if ttl ≤ 0 then [] else (s.entries.filter (fun ke => !ke.2.freshAfter (s.now - ttlSeconds ttl))).map (·.2.pending)) := by
  unfold expire
  split <;> exact ⟨rfl, rfl⟩

/-- **Reset empties the tracker.** -/
theorem c32_reset_empty (s : St) : outstanding (reset s) = [] ∧ (reset s).count = 0 := ⟨rfl, rfl⟩

/-- **CancelBind of a failed re-delivery restores the earlier committed delivery.**  In a state
    where identity `p.key` has a committed delivery `e` and all stored tokens are below the
    allocator (true of every reachable state), binding a re-delivery and cancelling exactly that
    reservation gives back the previous state (only the token allocator has advanced):
    same outstanding set, same committed metadata, same other reservations, same count. -/
theorem c32_redelivery_rollback (s : St) (p : Pend) (e : Entry) (hp : p.valid = true)
    (he : aget p.key s.entries = some e) (hc : e.committed = true)
    (htok : e.primary ≤ s.nextTok ∧ ∀ a ∈ e.extras, a.1 ≤ s.nextTok) :
    (cancel (bind s p).1 p (bind s p).2.tok).1 = { s with nextTok := s.nextTok + 1 } ∧
    (cancel (bind s p).1 p (bind s p).2.tok).2 = ⟨true, false, s.count⟩ := by
  have hb : bind s p = (({ s with entries := aput p.key (e.addAttempt (stamp s p) (s.nextTok + 1)) s.entries, nextTok := s.nextTok + 1 } : St), (⟨true, false, s.nextTok + 1, s.count⟩ : BindRes)) := by
    unfold bind
    simp only [hp, Bool.not_true, Bool.false_eq_true, if_false, bindCore, stamp_key, he]
    simp
  rw [hb]
  simp only
  have hadd : e.addAttempt (stamp s p) (s.nextTok + 1) = { e with extras := e.extras ++ [(s.nextTok + 1, stamp s p)] } := by
    unfold Entry.addAttempt; simp [hc]
  have hfresh : ∀ a ∈ e.extras, a.1 ≠ s.nextTok + 1 := fun a ha => by have := htok.2 a ha; omega
  have hcan : (e.addAttempt (stamp s p) (s.nextTok + 1)).cancelAttempt (s.nextTok + 1) = (e, true) := by
    rw [hadd]
    unfold Entry.cancelAttempt
    have hpne : e.primary ≠ s.nextTok + 1 := by omega
    simp only [hpne, if_false, findTok_append_fresh hfresh, removeExtra_append_last]
  unfold cancel
  have hz : ¬ (s.nextTok + 1 = 0) := by omega
  simp only [hp, Bool.not_true, Bool.false_eq_true, Bool.false_or, hz, decide_false, if_false,
    aget_aput, if_true, hcan, hc, Bool.true_or, aput_aput, aput_self he]
  trivial

/-- the same for every reachable state (any configuration, any history): the token side
    condition is an invariant, so the rollback is exact unconditionally -/
theorem c32_redelivery_rollback_run (shards : Nat) (maxPer now : Int) (ops : List Op) (p : Pend) (e : Entry)
    (hp : p.valid = true) (he : aget p.key (run (fresh shards maxPer now) ops).entries = some e)
    (hc : e.committed = true) :
    (cancel (bind (run (fresh shards maxPer now) ops) p).1 p (bind (run (fresh shards maxPer now) ops) p).2.tok).1
      = { run (fresh shards maxPer now) ops with nextTok := (run (fresh shards maxPer now) ops).nextTok + 1 } := by
  have ht : TokInv (run (fresh shards maxPer now) ops) :=
    tokInv_run (by intro ke hke; simp [fresh] at hke) ops
  exact (c32_redelivery_rollback _ p e hp he hc (ht _ (aget_mem he))).1

/-- **Rollback never removes an earlier successful delivery** (any token, any reachable state). -/
theorem c32_cancel_keeps_committed (s : St) (p : Pend) (tok : Nat) (e : Entry)
    (he : aget p.key s.entries = some e) (hc : e.committed = true) :
    ∃ e', aget p.key (cancel s p tok).1.entries = some e' ∧ e'.committed = true ∧ e'.pending = e.pending ∧
      (cancel s p tok).2.removed = false ∧ outstanding (cancel s p tok).1 = outstanding s := by
  obtain ⟨e', h1, h2, h3, h4⟩ := cancel_keeps_committed s p tok e he hc
  refine ⟨e', h1, h2, h3, h4, ?_⟩
  -- the key set is unchanged because `removed = false`
  unfold cancel at h4 ⊢
  split
  · rfl
  · simp only [he] at h4 ⊢
    split
    · rfl
    · split
      · simp [outstanding_eq_keys, keys_aput, he]
      · rename_i h5 hh
        exfalso; apply hh
        simp [(cancelAttempt_committed tok hc).1]

/-! ### refinement of the reference specification, for all operation sequences -/

/-- the abstract transition relation on the outstanding set -/
def SpecRel (now : Int) (S : List MKey) (es : List (MKey × Entry)) : Op → List MKey → Prop
  | .setNow _, S' => S' = S
  | .bind p, S' => Eff S S' (fun k => k = p.key)
  | .bindCompat p, S' => Eff S S' (fun k => k = p.key)
  | .bindBatch ps, S' => ∃ extra, S' = S ++ extra ∧ ∀ k ∈ extra, ∃ p ∈ ps, p.key = k
  | .finish _ _, S' => S' = S
  | .finishBatch _ _ _, S' => S' = S
  | .cancel p _, S' => Eff S S' (fun k => k = p.key)
  | .ack k, S' => S' = S ∨ S' = S.filter (fun x => x ≠ k)
  | .closed u ss, S' => S' = S ∨ S' = S.filter (fun k => !inSession u ss k)
  | .expire ttl, S' => S' = S ∨ S' = (es.filter (fun ke => ke.2.freshAfter (now - ttlSeconds ttl))).map (·.1)
  | .count, S' => S' = S
  | .reset, S' => S' = []

theorem bindBatchLoop_keys : ∀ (items : List (Nat × Pend)) (s : St) (toks : List (Nat × Nat)) (added : Nat),
    Inv s → ∃ extra, keys (bindBatchLoop items s toks added).1.entries = keys s.entries ++ extra ∧
      ∀ k ∈ extra, ∃ ip ∈ items, ip.2.key = k
  | [], s, _, _, _ => ⟨[], by simp [bindBatchLoop], by simp⟩
  | (i, p) :: rest, s, toks, added, h => by
    unfold bindBatchLoop
    obtain ⟨h1, h2, _⟩ := bindCore_spec s p h
    obtain ⟨extra, e1, e2⟩ := bindBatchLoop_keys rest (bindCore s p).1
      (if (bindCore s p).2.1 ≠ 0 then toks ++ [(i, (bindCore s p).2.1)] else toks)
      (if (bindCore s p).2.2 then added + 1 else added) h1
    cases h2 with
    | same hs =>
      refine ⟨extra, by rw [e1, hs], ?_⟩
      intro k hk; obtain ⟨ip, hip, hk'⟩ := e2 k hk; exact ⟨ip, List.mem_cons_of_mem _ hip, hk'⟩
    | added k hk hnew hs =>
      refine ⟨k :: extra, by rw [e1, hs]; simp, ?_⟩
      intro k' hk'
      rcases List.mem_cons.mp hk' with rfl | hk'
      · exact ⟨(i, p), by simp, hk.symm⟩
      · obtain ⟨ip, hip, hk''⟩ := e2 k' hk'; exact ⟨ip, List.mem_cons_of_mem _ hip, hk''⟩
    | removed k hk hin hs =>
      -- bindCore never removes: the key list never gets shorter
      exfalso
      have hlen : (keys s.entries).length ≤ (keys (bindCore s p).1.entries).length := by
        unfold bindCore
        simp only [stamp_key]
        split
        · split
          · exact Nat.le_refl _
          · rename_i hex _; rw [keys_aput]; simp [hex]
        · rename_i e hex; rw [keys_aput]; simp [hex]
      rw [hs] at hlen
      have hlt : ((keys s.entries).filter (fun x => x ≠ k)).length < (keys s.entries).length := by
        have := filter_split_length (fun x => decide (x ≠ k)) (keys s.entries)
        have hpos : 0 < ((keys s.entries).filter (fun x => !decide (x ≠ k))).length := by
          apply List.length_pos_of_mem (a := k)
          simp [hin]
        omega
      omega

theorem finishBatchLoop_keys : ∀ (items : List (Pend × Nat)) (s : St) (n : Nat),
    Inv s → keys (finishBatchLoop items s n).1.entries = keys s.entries
  | [], _, _, _ => rfl
  | (p, tok) :: rest, s, n, h => by
    unfold finishBatchLoop
    obtain ⟨h1, h2, _⟩ := finish_spec s p tok h
    rw [finishBatchLoop_keys rest _ _ h1, h2]

/-- **Refinement.**  From any state satisfying the invariant, every operation moves the
    outstanding set according to the reference specification and keeps count = |outstanding|. -/
theorem c32_refines_step (s : St) (h : Inv s) (op : Op) :
    SpecRel s.now (outstanding s) s.entries op (outstanding (step s op).1) ∧ Inv (step s op).1 := by
  refine ⟨?_, inv_step h op⟩
  simp only [outstanding_eq_keys]
  cases op with
  | setNow n => rfl
  | bind p =>
    simp only [SpecRel, step, bind]
    split
    · exact .same rfl
    · exact (bindCore_spec s p h).2.1
  | bindCompat p =>
    simp only [SpecRel, step, bindCompat, bind]
    split
    · split
      · exact .same rfl
      · rename_i hh; simp at hh
    · split
      · exact (bindCore_spec s p h).2.1
      · rw [(finish_spec _ p _ (bindCore_spec s p h).1).2.1]
        exact (bindCore_spec s p h).2.1
  | bindBatch ps =>
    simp only [SpecRel, step, bindBatch]
    split
    · exact ⟨[], by simp, by simp⟩
    · obtain ⟨extra, e1, e2⟩ := bindBatchLoop_keys (batchOrder s ((enumFrom 0 ps).filter (fun ip => ip.2.valid))) s [] 0 h
      refine ⟨extra, e1, ?_⟩
      intro k hk
      obtain ⟨ip, hip, hk'⟩ := e2 k hk
      have hmem : ip ∈ enumFrom 0 ps := by
        unfold batchOrder at hip
        simp only [List.mem_flatMap, List.mem_filter] at hip
        obtain ⟨_, _, h1, _⟩ := hip
        exact h1.1
      have : ∀ (n : Nat) (l : List Pend), ip ∈ enumFrom n l → ip.2 ∈ l := by
        intro n l
        induction l generalizing n with
        | nil => simp [enumFrom]
        | cons x xs ih =>
          simp only [enumFrom, List.mem_cons]
          rintro (rfl | hh)
          · simp
          · exact Or.inr (ih _ hh)
      exact ⟨ip.2, this 0 ps hmem, hk'⟩
  | finish p tok => exact (finish_spec s p tok h).2.1
  | finishBatch ps toks idxs => exact finishBatchLoop_keys _ s 0 h
  | cancel p tok => exact (cancel_spec s p tok h).2.1
  | ack k =>
    simp only [SpecRel, step, ack]
    split
    · exact Or.inl rfl
    · split
      · exact Or.inl rfl
      · exact Or.inr (keys_adel _ _)
  | closed u ss =>
    simp only [SpecRel, step, sessionClosed]
    split
    · exact Or.inl rfl
    · right; simp [keys, List.filter_map]; rfl
  | expire ttl =>
    simp only [SpecRel, step, expire]
    split
    · exact Or.inl rfl
    · exact Or.inr rfl
  | count => rfl
  | reset => rfl

/-- the run of the model projects to a run of the reference specification -/
def SpecRun : St → List Op → Prop
  | _, [] => True
  | s, op :: ops => SpecRel s.now (outstanding s) s.entries op (outstanding (step s op).1) ∧
      (step s op).1.count = ((outstanding (step s op).1).length : Int) ∧ SpecRun (step s op).1 ops

/-- **Refinement for all operation sequences and all configurations.** -/
theorem c32_refines (shards : Nat) (maxPer now : Int) (ops : List Op) : SpecRun (fresh shards maxPer now) ops := by
  have key : ∀ (ops : List Op) (s : St), Inv s → SpecRun s ops := by
    intro ops
    induction ops with
    | nil => intro _ _; trivial
    | cons op ops ih =>
      intro s h
      obtain ⟨h1, h2⟩ := c32_refines_step s h op
      exact ⟨h1, by rw [h2.count]; simp [outstanding], ih _ h2⟩
  exact key ops _ (inv_fresh shards maxPer now)

/-! ### non-vacuity -/

section examples
def exP (msg : Nat) (dat : Int) : Pend := ⟨[97], 1, msg, 5, [99], 1, dat⟩

/-- deliver, commit, re-deliver, roll the re-delivery back: the committed delivery (DeliveredAt 100)
    survives with its metadata and the count stays 1 -/
example : ((run (fresh 32 0 100) [.bind (exP 1 100), .finish (exP 1 0) 1, .bind (exP 1 130), .cancel (exP 1 0) 2]).entries.map
    (fun ke => (ke.2.committed, ke.2.pending.dat, ke.2.extras.length))) = [(true, 100, 0)] := by decide
example : (run (fresh 32 0 100) [.bind (exP 1 100), .finish (exP 1 0) 1, .bind (exP 1 130), .cancel (exP 1 0) 2]).count = 1 := by decide
/-- whereas rolling back the only (uncommitted) attempt removes the delivery -/
example : (run (fresh 32 0 100) [.bind (exP 1 100), .cancel (exP 1 0) 1]).count = 0 := by decide
/-- ack removes only its message; session close only its session -/
example : (outstanding (run (fresh 32 0 100) [.bind (exP 1 0), .bind (exP 2 0), .ack ⟨[97], 1, 1⟩])).map (·.msg) = [2] := by decide
example : (outstanding (run (fresh 32 0 100) [.bind (exP 1 0), .bind ⟨[97], 2, 1, 0, [], 1, 0⟩, .closed [97] 1])).map (·.sess) = [2] := by decide
/-- expiry: ttl 1.5 s rounds up to 2 s; delivered at 98 with now = 100 is not newer than the cutoff 98, 99 is -/
example : (outstanding (run (fresh 32 0 100) [.bind (exP 1 98), .bind (exP 2 99), .expire 1500000000])).map (·.msg) = [2] := by decide
/-- the per-session limit rejects a third distinct message but not a re-delivery of a pending one -/
example : (run (fresh 32 2 100) [.bind (exP 1 0), .bind (exP 2 0), .bind (exP 3 0), .bind (exP 1 0)]).count = 2 := by decide
end examples

/-! ### concurrency: single-identity operations are movers (WK.Proofs.C32_Conc)

  `kop_local`, `c32_disjoint_ops_commute`, `c32_different_shards_commute`,
  `c32_serializations_agree`.  Not proved: a micro-step LTS (lock / entry mutation / counter
  atomic / unlock) with token allocation, for which linearizability holds only up to renaming of
  the opaque bind tokens; that part stays sampled (concurrent windows + race detector). -/

section conc_examples
/-- non-vacuity: a finish on (a,1,1) and an ack on (a,2,1) — different sessions, different shards
    of a 32-shard tracker — commute, and the state really changes -/
def exS : St := run (fresh 32 0 100) [.bind (exP 1 0), .bind ⟨[97], 2, 1, 0, [], 1, 0⟩]
example : shardOf exS (KOp.finish (exP 1 0) 1).key.sess ≠ shardOf exS (KOp.ack ⟨[97], 2, 1⟩).key.sess := by decide
example : runK exS [.finish (exP 1 0) 1, .ack ⟨[97], 2, 1⟩] = runK exS [.ack ⟨[97], 2, 1⟩, .finish (exP 1 0) 1] := by decide
example : (runK exS [.finish (exP 1 0) 1, .ack ⟨[97], 2, 1⟩]).count = 1 ∧ exS.count = 2 := by decide
/-- the side condition matters: on the same identity the order is observable -/
example : runK exS [.cancel (exP 1 0) 1, .finish (exP 1 0) 1] ≠ runK exS [.finish (exP 1 0) 1, .cancel (exP 1 0) 1] := by decide
end conc_examples

/-! ### attempt bookkeeping details (WK.Proofs.C32_Attempts): `c32_cancel_promotes_newest`, `c32_expire_ttl_ceil` -/

section attempt_examples
/-- non-vacuity: three overlapping uncommitted binds (tokens 1,2,3); cancelling the primary (1)
    promotes the newest (3) and keeps 2: nothing is lost, nothing duplicated -/
example : ((run (fresh 32 0 100) [.bind (exP 1 100), .bind (exP 1 101), .bind (exP 1 102), .cancel (exP 1 0) 1]).entries.map
    (fun ke => (ke.2.primary, ke.2.extras.map (·.1), ke.2.pending.dat))) = [(3, [2], 102)] := by decide
/-- non-vacuity: ttl 1.5 s, delivered 1 s ago (idle 1 s < 1.5 s): kept; delivered 2 s ago: expired -/
example : (outstanding (run (fresh 32 0 100) [.bind (exP 1 99), .bind (exP 2 98), .expire 1500000000])).map (·.msg) = [1] := by decide
example : ttlSeconds 1500000000 = 2 ∧ ttlSeconds 1 = 1 ∧ ttlSeconds 2000000000 = 2 := by decide
end attempt_examples

end WK.C32

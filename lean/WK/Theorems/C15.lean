import WK.Proofs.C15_Step
import WK.Gen.C15
/-
  C15 — Channel routing metadata never regresses.

  The theorems are about the functions of `WK.Model.C15` that the driver runs
  against the real meta store; `Fwd` / `judgeFwd` (`WK.Spec.C15`) are the predicate
  the driver's judge evaluates on the implementation's rows (`judgeFwd_ok_iff`).
-/
namespace WK.C15

/-- one write against the row of one channel -/
inductive Op where
  | upsert (c : Meta)
  | create (c : Meta)
  | advance (r : Advance)
  | delete
  | wadvance (r : Advance)   -- compat WriteBatch / slot-FSM advance
  | wdelete                  -- compat WriteBatch / slot-FSM delete (unconditional)

def step (idLen : Nat) (row : Option Meta) : Op → Option Meta × Out
  | .upsert c => upsert idLen row c
  | .create c => create idLen row c
  | .advance r => advance idLen row r
  | .delete => delete idLen row
  | .wadvance r => wadvance row r
  | .wdelete => wdelete idLen row

def Op.isDelete : Op → Bool
  | .delete => true
  | .wdelete => true
  | _ => false

/-- results that report a write which must not have changed anything -/
def Out.rejected : Out → Bool
  | .stale | .conflict | .invalid | .notfound | .exists => true
  | _ => false

theorem advance_some (idLen : Nat) (old : Meta) (r : Advance) (hN : Normal old) :
    (advance idLen (some old) r).1 = some old ∨
    (∃ new, advance idLen (some old) r = (some new, Out.ok) ∧ Fwd old new ∧ Normal new) := by
  unfold advance
  split
  · exact Or.inl rfl
  · simp only []
    split
    · exact Or.inl rfl
    · split
      · exact Or.inl rfl
      · rename_i hgt
        right
        refine ⟨_, rfl, ?_, normalize_normal _⟩
        obtain ⟨n1, n2, n3, n4, n5, n6, n7, n8, n9, n10, n11, n12, n13, n14, n15, n16, n17, n18⟩ :=
          normalize_fields { old with retSeq := r.retSeq, retAt := r.retAt, routeGen := nextRG old.routeGen }
        simp only at n1 n2 n3 n4 n5 n6 n7 n8 n9 n10 n11 n12 n13 n14 n15 n16 n17 n18
        have hg := nextRG_ge old.routeGen
        refine ⟨?_, ?_, ?_, ?_, ?_, ?_, ?_⟩
        · unfold epochLe; rw [n2, n3]; exact Or.inr ⟨rfl, Nat.le_refl _⟩
        · intro _; rw [n4, n7]; exact ⟨rfl, Int.le_refl _⟩
        · rw [n8]; omega
        · rw [n11]; exact Nat.le_refl _
        · exact n17
        · exact Nat.le_trans hg n16
        · intro _ hm
          exact Nat.lt_of_lt_of_le (nextRG_gt _ hm) n16

theorem create_some (idLen : Nat) (old c : Meta) : (create idLen (some old) c).1 = some old := by
  unfold create
  simp only []
  split <;> rfl

/-- **One step.**  Any write other than a delete that finds a (normal) row stored leaves a row
    stored, and that row is `Fwd` of the old one; it is again normal. -/
theorem c15_step (idLen : Nat) (old : Meta) (op : Op) (hN : Normal old) (hd : op.isDelete = false) :
    ∃ new, (step idLen (some old) op).1 = some new ∧ Fwd old new ∧ Normal new := by
  cases op with
  | upsert c =>
    rcases upsert_some idLen old c hN with h | ⟨new, h, hf, hn⟩
    · exact ⟨old, h, Fwd.refl old, hN⟩
    · exact ⟨new, by simp [step, h], hf, hn⟩
  | create c => exact ⟨old, create_some idLen old c, Fwd.refl old, hN⟩
  | advance r =>
    rcases advance_some idLen old r hN with h | ⟨new, h, hf, hn⟩
    · exact ⟨old, h, Fwd.refl old, hN⟩
    · exact ⟨new, by simp [step, h], hf, hn⟩
  | delete => cases hd
  | wadvance r =>
    rcases advance_some 1 old r hN with h | ⟨new, h, hf, hn⟩
    · exact ⟨old, h, Fwd.refl old, hN⟩
    · exact ⟨new, by simp [step, wadvance, h], hf, hn⟩
  | wdelete => cases hd

/-- (channelEpoch, leaderEpoch) never decreases -/
theorem c15_epochs_mono (idLen : Nat) (old : Meta) (op : Op) (hN : Normal old) (hd : op.isDelete = false) :
    ∃ new, (step idLen (some old) op).1 = some new ∧ epochLe old new := by
  obtain ⟨new, h, f, _⟩ := c15_step idLen old op hN hd; exact ⟨new, h, f.epochs⟩

/-- a same-epoch write cannot switch leaders or shorten the lease -/
theorem c15_same_epoch_no_switch (idLen : Nat) (old : Meta) (op : Op) (hN : Normal old) (hd : op.isDelete = false) :
    ∃ new, (step idLen (some old) op).1 = some new ∧
      (sameEpochs old new → new.leader = old.leader ∧ old.lease ≤ new.lease) := by
  obtain ⟨new, h, f, _⟩ := c15_step idLen old op hN hd; exact ⟨new, h, f.noSwitch⟩

/-- retention boundary, write-fence version and directory generation never decrease (also when epochs rise) -/
theorem c15_retention_fence_mono (idLen : Nat) (old : Meta) (op : Op) (hN : Normal old) (hd : op.isDelete = false) :
    ∃ new, (step idLen (some old) op).1 = some new ∧
      old.retSeq ≤ new.retSeq ∧ old.fenceVer ≤ new.fenceVer ∧ old.dirGen ≤ new.dirGen := by
  obtain ⟨new, h, f, _⟩ := c15_step idLen old op hN hd; exact ⟨new, h, f.retention, f.fence, f.directory⟩

/-- every change of epochs, leader, replicas, ISR, status, lease, retention or fence strictly increases the
    route generation — unless it is saturated at 2^64-1 (the code saturates; then it does not decrease) -/
theorem c15_route_gen_strict (idLen : Nat) (old : Meta) (op : Op) (hN : Normal old) (hd : op.isDelete = false) :
    ∃ new, (step idLen (some old) op).1 = some new ∧
      (routeRelevantChange old new → old.routeGen < u64max → old.routeGen < new.routeGen) := by
  obtain ⟨new, h, f, _⟩ := c15_step idLen old op hN hd; exact ⟨new, h, f.routeStrict⟩

theorem c15_route_gen_mono (idLen : Nat) (old : Meta) (op : Op) (hN : Normal old) (hd : op.isDelete = false) :
    ∃ new, (step idLen (some old) op).1 = some new ∧ old.routeGen ≤ new.routeGen := by
  obtain ⟨new, h, f, _⟩ := c15_step idLen old op hN hd; exact ⟨new, h, f.routeMono⟩

/-- a write reported stale / conflict / invalid / not-found / already-exists leaves the row unchanged
    (any row, present or absent; any op) -/
theorem c15_rejected_unchanged (idLen : Nat) (row : Option Meta) (op : Op)
    (h : (step idLen row op).2.rejected = true) : (step idLen row op).1 = row := by
  cases op with
  | upsert c =>
    simp only [step] at h ⊢
    unfold upsert at h ⊢
    split
    · rfl
    · split
      · rfl
      · rfl
      · rename_i hv _ _ hr
        simp only [hv, ↓reduceIte, hr, Out.rejected] at h
        cases h
  | create c =>
    simp only [step] at h ⊢
    unfold create at h ⊢
    simp only [] at h ⊢
    split
    · rfl
    · rename_i hv
      cases row with
      | some _ => rfl
      | none => simp only [hv, ↓reduceIte, Out.rejected] at h; cases h
  | advance r =>
    simp only [step] at h ⊢
    unfold advance at h ⊢
    split
    · rfl
    · rename_i h1
      cases row with
      | none => rfl
      | some ex =>
        simp only [] at h ⊢
        split
        · rfl
        · split
          · rfl
          · rename_i h2 h3
            simp only [h1, h2, h3, ↓reduceIte, Out.rejected] at h
            cases h
  | delete =>
    simp only [step] at h ⊢
    unfold delete at h ⊢
    split
    · rfl
    · rename_i h1
      cases row with
      | none => rfl
      | some ex => simp only [h1, ↓reduceIte, Out.rejected] at h; cases h
  | wadvance r =>
    simp only [step, wadvance] at h ⊢
    unfold advance at h ⊢
    split
    · rfl
    · rename_i h1
      cases row with
      | none => rfl
      | some ex =>
        simp only [] at h ⊢
        split
        · rfl
        · split
          · rfl
          · rename_i h2 h3
            simp only [h1, h2, h3, ↓reduceIte, Out.rejected] at h
            cases h
  | wdelete =>
    simp only [step] at h ⊢
    unfold wdelete at h ⊢
    split
    · rfl
    · rename_i h1
      simp only [h1, ↓reduceIte, Out.rejected] at h; cases h

/-- every row a write creates is normal (so the hypothesis `Normal old` of the step theorems holds for
    every row the store ever holds) -/
theorem c15_created_normal (idLen : Nat) (op : Op) (new : Meta) (h : (step idLen none op).1 = some new) :
    Normal new := by
  cases op with
  | upsert c =>
    simp only [step, upsert, resolve] at h
    split at h
    · cases h
    · simp only at h
      have := Option.some.inj h
      rw [← this]; exact normalize_normal _
  | create c =>
    simp only [step, create] at h
    split at h
    · cases h
    · simp only at h
      have := Option.some.inj h
      rw [← this]; exact normalize_normal _
  | advance r =>
    simp only [step, advance] at h
    split at h <;> cases h
  | delete =>
    simp only [step, delete] at h
    split at h <;> cases h
  | wadvance r =>
    simp only [step, wadvance, advance] at h
    split at h <;> cases h
  | wdelete =>
    simp only [step, wdelete] at h
    split at h <;> cases h

/-- the row after a sequence of writes -/
def run (idLen : Nat) (row : Option Meta) (ops : List Op) : Option Meta :=
  ops.foldl (fun r op => (step idLen r op).1) row

/-- **All histories.**  Across any sequence of upserts, creates and retention advances (no delete:
    one incarnation of the row) the stored row only moves forward. -/
theorem c15_history (idLen : Nat) (old : Meta) (ops : List Op) (hN : Normal old)
    (hd : ∀ op ∈ ops, op.isDelete = false) :
    ∃ new, run idLen (some old) ops = some new ∧ Fwd old new ∧ Normal new := by
  induction ops generalizing old with
  | nil => exact ⟨old, rfl, Fwd.refl old, hN⟩
  | cons op rest ih =>
    obtain ⟨mid, h1, f1, n1⟩ := c15_step idLen old op hN (hd op (by simp))
    obtain ⟨new, h2, f2, n2⟩ := ih mid n1 (fun o ho => hd o (List.mem_cons_of_mem _ ho))
    refine ⟨new, ?_, Fwd.trans f1 f2, n2⟩
    simp only [run, List.foldl_cons] at h2 ⊢
    rw [h1]; exact h2

/-- every row the store ever holds is normal, deletes included -/
theorem c15_rows_normal (idLen : Nat) (row : Option Meta) (ops : List Op)
    (hN : ∀ m, row = some m → Normal m) : ∀ m, run idLen row ops = some m → Normal m := by
  induction ops generalizing row with
  | nil => exact hN
  | cons op rest ih =>
    apply ih
    intro m hm
    simp only [] at hm
    cases row with
    | none => exact c15_created_normal idLen op m hm
    | some old =>
      have hNo := hN old rfl
      cases hd : op.isDelete with
      | false =>
        obtain ⟨new, h1, _, n1⟩ := c15_step idLen old op hNo hd
        rw [h1] at hm; rw [← Option.some.inj hm]; exact n1
      | true =>
        cases op with
        | delete =>
          simp only [step, delete] at hm
          split at hm
          · rw [← Option.some.inj hm]; exact hNo
          · cases hm
        | wdelete =>
          simp only [step, wdelete] at hm
          split at hm
          · rw [← Option.some.inj hm]; exact hNo
          · cases hm
        | upsert c => cases hd
        | create c => cases hd
        | advance r => cases hd
        | wadvance r => cases hd

/-- **All histories, deletes included (the incarnation reading made explicit).**  Take ANY history
    `pre ++ mid ++ post` from any normal or absent initial row; deletes may occur anywhere in `pre` and
    `post`.  Across every delete-free window `mid` — i.e. within one incarnation of the row — a row that
    is stored at the start of the window is still stored at its end and has only moved forward.  A delete
    removes the row; the next write starts a new incarnation, to which the same statement applies. -/
theorem c15_history_incarnations (idLen : Nat) (row0 : Option Meta) (pre mid : List Op)
    (hN : ∀ m, row0 = some m → Normal m) (hmid : ∀ op ∈ mid, op.isDelete = false)
    (a : Meta) (ha : run idLen row0 pre = some a) :
    ∃ b, run idLen row0 (pre ++ mid) = some b ∧ Fwd a b ∧ Normal b := by
  have hNa := c15_rows_normal idLen row0 pre hN a ha
  obtain ⟨b, hb, hf, hn⟩ := c15_history idLen a mid hNa hmid
  refine ⟨b, ?_, hf, hn⟩
  simp only [run, List.foldl_append] at ha hb ⊢
  rw [ha]; exact hb

/-- the judge the driver runs on the implementation's rows decides exactly `Fwd` -/
theorem c15_judge_sound (old new : Meta) : judgeFwd old new = "ok" ↔ Fwd old new := judgeFwd_ok_iff old new

/-! ### T tie: facts regenerated from table_runtime_meta.go on every run (`WK.Gen.C15`) -/

/-- runtimeRouteChanged compares exactly the fields the model's `routeChanged` compares, and these
    include every field the property names (leader, replicas, ISR, status, lease, retention, fence, epochs) -/
theorem c15_gen_route_fields :
    WK.Gen.C15.routeChangedFields = ["ChannelEpoch", "LeaderEpoch", "Leader", "Replicas", "ISR", "MinISR", "Status",
      "LeaseUntilMS", "RetentionThroughSeq", "RetentionUpdatedAtMS", "WriteFenceToken", "WriteFenceVersion",
      "WriteFenceReason", "WriteFenceUntilMS"] ∧
    (["ChannelEpoch", "LeaderEpoch", "Leader", "Replicas", "ISR", "Status", "LeaseUntilMS", "RetentionThroughSeq",
      "WriteFenceToken", "WriteFenceVersion", "WriteFenceReason", "WriteFenceUntilMS"].all
        (fun f => WK.Gen.C15.routeChangedFields.contains f)) = true := by
  decide

/-- preserveRuntimeMetaState has the guards and assignments the model's `preserve` mirrors -/
theorem c15_gen_preserve :
    WK.Gen.C15.preservedFields = ["DirectoryGeneration", "RetentionThroughSeq", "RetentionUpdatedAtMS",
      "WriteFenceToken", "WriteFenceVersion", "WriteFenceReason", "WriteFenceUntilMS"] ∧
    WK.Gen.C15.preserveGuards = ["candidate.DirectoryGeneration<existing.DirectoryGeneration",
      "candidate.RetentionThroughSeq<existing.RetentionThroughSeq||(candidate.RetentionThroughSeq==existing.RetentionThroughSeq&&candidate.RetentionUpdatedAtMS<existing.RetentionUpdatedAtMS)",
      "candidate.WriteFenceVersion<=existing.WriteFenceVersion"] := ⟨rfl, rfl⟩

/-- the switch of resolveMonotonicChannelRuntimeMeta has the cases, in the order, the model's `resolve` has -/
theorem c15_gen_resolve_cases :
    WK.Gen.C15.resolveCases = [
      "candidateHadRouteGeneration&&candidate.RouteGeneration<existing.RouteGeneration => MonotonicIgnoredStale",
      "candidate.ChannelEpoch<existing.ChannelEpoch => MonotonicIgnoredStale",
      "candidate.ChannelEpoch>existing.ChannelEpoch => MonotonicApplied",
      "candidate.LeaderEpoch<existing.LeaderEpoch => MonotonicIgnoredStale",
      "candidate.LeaderEpoch>existing.LeaderEpoch => MonotonicApplied",
      "candidate.Leader!=existing.Leader => MonotonicConflict"] := rfl

/-- nextChannelRouteGeneration (translated from the source to BitVec 64) is the model's saturating `nextRG` -/
theorem c15_gen_nextRG (g : Nat) (h : g < 2 ^ 64) :
    (WK.Gen.C15.nextRG (BitVec.ofNat 64 g)).toNat = nextRG g := by
  unfold WK.Gen.C15.nextRG nextRG u64max
  by_cases hg : g = 2 ^ 64 - 1
  · subst hg; decide
  · have hne : ¬ (BitVec.ofNat 64 g = ~~~(0#64)) := by
      intro e
      have := congrArg BitVec.toNat e
      simp [BitVec.toNat_ofNat, Nat.mod_eq_of_lt h] at this
      omega
    rw [if_neg hne, if_neg hg]
    simp [BitVec.toNat_add, BitVec.toNat_ofNat, Nat.mod_eq_of_lt h]
    omega

/-- the lock is taken (and its release deferred) before the row is first read, it is not re-taken or
    released by hand, and the commit comes after the read -/
def lockBeforeRead (evs : List String) : Bool :=
  match evs with
  | "lock" :: "defer-unlock" :: rest => rest.contains "read" ∧ ¬ rest.contains "lock" ∧ ¬ rest.contains "unlock"
  | _ => false

/-- **Lock discipline (T).**  Every mutating Shard method of table_runtime_meta.go takes the hash-slot
    lock and defers its release BEFORE it first reads the row, and commits after the read — so the
    read-check-write of each method is atomic with respect to the others (the sequential reducer theorems
    then apply to every interleaving of whole methods).  A method that reads before locking breaks this. -/
theorem c15_gen_lock_before_read :
    WK.Gen.C15.lockOrder.map (·.1) = ["UpsertChannelRuntimeMeta", "DeleteChannelRuntimeMeta",
      "AdvanceChannelRetentionThroughSeq"] ∧
    WK.Gen.C15.lockOrder.all (fun e => lockBeforeRead e.2) = true := by
  refine ⟨rfl, ?_⟩
  decide

example : lockBeforeRead ["read", "lock", "defer-unlock", "commit"] = false := by decide
example : lockBeforeRead ["lock", "defer-unlock", "read", "commit"] = true := by decide

/-! ### non-vacuity -/

def exOld : Meta := ⟨2, 3, 4, 9, [1, 2], [1], 1, 1, 0, 0, 100, 5, 7, "", 0, 0, 0, 0⟩
def exCand : Meta := ⟨2, 3, 5, 0, [2, 1, 3], [3], 3, 1, 0, 0, 50, 1, 1, "", 0, 0, 0, 0⟩

example : Normal exOld := ⟨by decide, by decide, by decide, by decide⟩
example : Op.isDelete (.upsert exCand) = false := rfl
example : (step 1 (some exOld) (.upsert exCand)).2 = Out.applied ∧
    ((step 1 (some exOld) (.upsert exCand)).1.map (·.routeGen)) = some 10 ∧
    ((step 1 (some exOld) (.upsert exCand)).1.map (·.retSeq)) = some 5 := by decide
example : (step 1 (some exOld) (.upsert { exCand with leEpoch := 3 })).2 = Out.stale := by decide
example : (step 1 (some exOld) (.upsert { exOld with leader := 2, isr := [2] })).2 = Out.conflict := by decide
example : (step 1 (some exOld) (.advance ⟨3, 4, 1, 100, 8, 0⟩)).2 = Out.ok ∧
    ((step 1 (some exOld) (.advance ⟨3, 4, 1, 100, 8, 0⟩)).1.map (·.routeGen)) = some 10 := by decide
example : judgeFwd exOld { exOld with routeGen := 8 } = "viol:route-generation-regressed" := by decide
example : routeRelevantChange exOld { exOld with leader := 2 } := by decide
example : run 1 (some exOld) [.delete, .upsert exCand, .wadvance ⟨3, 5, 3, 50, 9, 0⟩] ≠ none ∧
    (run 1 (some exOld) [.delete]) = none ∧ (run 1 none [.wdelete, .create exCand]).isSome = true := by decide
example : (step 1 (some exOld) .wdelete) = (none, Out.ok) ∧ (step 1 none .wdelete) = (none, Out.ok) := by decide

end WK.C15

import WK.Gen.C16
import WK.Proofs.C16_Row
/-
  C16 — T tie (translation of every cursor write and reducer return), pinned against the model.
-/
namespace WK.C16

/-- **c16_cursor_writes_pinned.**  (T) The table of ALL assignments to a cursor column in the two
    membership table files and the return statements of the three reducers, re-extracted from the
    Go source on this run, are exactly the following: every mutator and the CMD reducer write a
    cursor only under the guard `new > old` ("max"); the ensure reducer takes the max when the
    stored generation is 0 and ASSIGNS otherwise; the ordinary and CMD reducers return the
    incoming row unchanged (`=> next`) only when the row is absent or at a tombstone→live
    transition.  A dropped guard, a new write site or a changed return breaks this theorem. -/
theorem c16_cursor_writes_pinned :
    WK.Gen.C16.cursorWrites = [
  ("Shard.AdvanceUserChannelMembershipReadSeq", "row.ReadSeq", "readSeq", "max", ""),
  ("Shard.HideUserChannelMembership", "row.DeletedToSeq", "deletedToSeq", "max", ""),
  ("resolveEnsuredUserChannelMembership", "existing.ReadSeq", "incoming.ReadSeq", "max", "existing.SourceVersion==0"),
  ("resolveEnsuredUserChannelMembership", "existing.DeletedToSeq", "incoming.DeletedToSeq", "max", "existing.SourceVersion==0"),
  ("resolveEnsuredUserChannelMembership", "existing.ReadSeq", "incoming.ReadSeq", "assign", "!(existing.SourceVersion==0)"),
  ("resolveEnsuredUserChannelMembership", "existing.DeletedToSeq", "incoming.DeletedToSeq", "assign", "!(existing.SourceVersion==0)"),
  ("Batch.AdvanceUserChannelMembershipReadSeq", "row.ReadSeq", "readSeq", "max", ""),
  ("Batch.HideUserChannelMembership", "row.DeletedToSeq", "deletedToSeq", "max", ""),
  ("Shard.AdvanceUserCMDChannelMembershipAckSeq", "row.AckSeq", "ackSeq", "max", ""),
  ("Batch.AdvanceUserCMDChannelMembershipAckSeq", "row.AckSeq", "membership.AckSeq", "max", ""),
  ("resolveUserCMDChannelMembership", "existing.AckSeq", "next.AckSeq", "max", "")
] ∧
    WK.Gen.C16.reducerReturns = [
  "resolveUserChannelMembership: !exists => next",
  "resolveUserChannelMembership: next.SourceVersion<existing.SourceVersion => existing",
  "resolveUserChannelMembership: next.SourceVersion==existing.SourceVersion & !existing.Tombstone&&next.Tombstone => existing",
  "resolveUserChannelMembership: next.SourceVersion==existing.SourceVersion => existing",
  "resolveUserChannelMembership: next.Tombstone => existing",
  "resolveUserChannelMembership: existing.Tombstone => next",
  "resolveUserChannelMembership:  => existing",
  "resolveEnsuredUserChannelMembership: !exists => incoming",
  "resolveEnsuredUserChannelMembership: incoming.SourceVersion<=existing.SourceVersion => existing",
  "resolveEnsuredUserChannelMembership:  => existing",
  "resolveUserCMDChannelMembership: !exists||existing.Tombstone&&!next.Tombstone => next",
  "resolveUserCMDChannelMembership: existing.Tombstone => existing",
  "resolveUserCMDChannelMembership:  => existing"
] := by
  decide

/-- **c16_model_cursor_writes.**  The model writes the cursors exactly as that table says. -/
theorem c16_model_cursor_writes :
    (∀ v upd r, (mutRead v upd r).read = max r.read v ∧ (mutRead v upd r).del = r.del) ∧
    (∀ v upd r, (mutHide v upd r).del = max r.del v ∧ (mutHide v upd r).read = r.read) ∧
    (∀ a upd r, (mutAct a upd r).read = r.read ∧ (mutAct a upd r).del = r.del) ∧
    (∀ e inc : Row, e.sv < inc.sv → e.sv = 0 →
        (resolveEn (some e) inc).read = max e.read inc.read ∧ (resolveEn (some e) inc).del = max e.del inc.del) ∧
    (∀ e inc : Row, e.sv < inc.sv → e.sv ≠ 0 →
        (resolveEn (some e) inc).read = inc.read ∧ (resolveEn (some e) inc).del = inc.del) ∧
    (∀ e inc : Row, inc.sv ≤ e.sv → resolveEn (some e) inc = e) ∧
    (∀ e nx : Row, resolveUp (some e) nx = nx ∨
        ((resolveUp (some e) nx).read = e.read ∧ (resolveUp (some e) nx).del = e.del)) ∧
    (∀ e nx : Row, ¬ (e.tomb = true ∧ nx.tomb = false ∧ e.sv < nx.sv) →
        (resolveUp (some e) nx).read = e.read ∧ (resolveUp (some e) nx).del = e.del) ∧
    (∀ e nx : CRow, e.tomb = false → (resolveCmd (some e) nx).ack = max e.ack nx.ack) ∧
    (∀ e nx : CRow, e.tomb = true → (resolveCmd (some e) nx = nx ∧ nx.tomb = false) ∨ resolveCmd (some e) nx = e) ∧
    (∀ a upd r, (mutAckS a upd r).ack = max r.ack a) ∧ (∀ a upd r, (mutAckB a upd r).ack = max r.ack a) := by
  refine ⟨?_, ?_, ?_, ?_, ?_, ?_, ?_, ?_, ?_, ?_, ?_, ?_⟩
  · intro v upd r; unfold mutRead; split <;> simp <;> omega
  · intro v upd r; unfold mutHide
    by_cases h1 : v > r.del <;> by_cases h2 : r.act = 0 <;> simp [h1, h2] <;> (try split) <;> (try simp) <;> omega
  · intro a upd r; unfold mutAct; split <;> simp
  · intro e inc h1 h2
    have : ¬ inc.sv ≤ e.sv := by omega
    have h3 : ¬ inc.sv ≤ 0 := by omega
    simp only [resolveEn, h2, h3, if_false, if_true]
    show (if inc.read > e.read then inc.read else e.read) = max e.read inc.read ∧
         (if inc.del > e.del then inc.del else e.del) = max e.del inc.del
    constructor <;> split <;> omega
  · intro e inc h1 h2
    have : ¬ inc.sv ≤ e.sv := by omega
    simp [resolveEn, this, h2]
  · intro e inc h; exact resolveEn_stale e inc h
  · intro e nx
    unfold resolveUp
    simp only
    split
    · right; exact ⟨rfl, rfl⟩
    · split
      · split
        · right; exact ⟨rfl, rfl⟩
        · split <;> (right; exact ⟨rfl, rfl⟩)
      · split
        · right; exact ⟨rfl, rfl⟩
        · split
          · left; rfl
          · right; exact ⟨rfl, rfl⟩
  · intro e nx h
    have := resolveUp_le e nx h
    unfold resolveUp at this ⊢
    simp only at this ⊢
    split
    · exact ⟨rfl, rfl⟩
    · split
      · split
        · exact ⟨rfl, rfl⟩
        · split <;> exact ⟨rfl, rfl⟩
      · split
        · exact ⟨rfl, rfl⟩
        · split
          · next h1 h2 h3 h4 =>
            exfalso; apply h
            have : nx.tomb = false := by simpa using h3
            exact ⟨h4, this, by omega⟩
          · exact ⟨rfl, rfl⟩
  · intro e nx h
    simp only [resolveCmd, h, Bool.false_and, Bool.false_eq_true, if_false]
    split <;> omega
  · intro e nx h
    cases hn : nx.tomb
    · left; simp [resolveCmd, h, hn]
    · right; simp [resolveCmd, h, hn]
  · intro a upd r; simp only [mutAckS]; split <;> omega
  · intro a upd r; unfold mutAckB; split <;> (try simp) <;> omega

example : (mutRead 9 1 ⟨1, 3, 0, 0, false, 0, 1, 0⟩).read = 9 ∧ (mutRead 2 1 ⟨1, 3, 0, 0, false, 0, 1, 0⟩).read = 3 ∧
    (resolveEn (some ⟨1, 10, 0, 0, false, 0, 1, 0⟩) ⟨1, 3, 0, 0, false, 0, 2, 0⟩).read = 3 ∧
    (resolveEn (some ⟨1, 10, 0, 0, false, 0, 0, 0⟩) ⟨1, 3, 0, 0, false, 0, 2, 0⟩).read = 10 := by decide

end WK.C16

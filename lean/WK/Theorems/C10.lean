import WK.Model.C10
import WK.Spec.C10
import WK.Proofs.C07_Inv
/-
  C10 — theorems about the committed read path and the retention gate
  (the very functions the driver executes against the real code).
-/
namespace WK.C10
open WK.C07

/-! ### the trim gate -/

theorem foldl_min_le_init (f : Nat → Nat) (l : List Nat) (m : Nat) :
    l.foldl (fun m n => if f n < m then f n else m) m ≤ m := by
  induction l generalizing m with
  | nil => exact Nat.le_refl _
  | cons a t ih =>
    simp only [List.foldl_cons]
    by_cases h : f a < m
    · rw [if_pos h]; exact Nat.le_trans (ih _) (Nat.le_of_lt h)
    · rw [if_neg h]; exact ih _

theorem foldl_min_le_mem (f : Nat → Nat) (l : List Nat) (m : Nat) (n : Nat) (hn : n ∈ l) :
    l.foldl (fun m n => if f n < m then f n else m) m ≤ f n := by
  induction l generalizing m with
  | nil => cases hn
  | cons a t ih =>
    simp only [List.foldl_cons]
    rcases List.mem_cons.mp hn with h | h
    · subst h
      by_cases h : f n < m
      · rw [if_pos h]; exact foldl_min_le_init f t _
      · rw [if_neg h]; exact Nat.le_trans (foldl_min_le_init f t _) (Nat.le_of_not_lt h)
    · exact ih _ h

/-- `minISRMatchOffset` is a lower bound of every ISR member's match (as the code reads it) -/
theorem minISRMatch_le (st : RState) (n : Nat) (hn : n ∈ st.isr) : minISRMatch st ≤ matchOf st n := by
  unfold minISRMatch
  cases h : st.isr with
  | nil => rw [h] at hn; cases hn
  | cons a t =>
    rw [h] at hn
    simp only
    rcases List.mem_cons.mp hn with e | e
    · subst e; exact foldl_min_le_init (matchOf st) t _
    · exact foldl_min_le_mem (matchOf st) t _ n e

/-- **c10_trim_gate** (as the code reads progress): a physical trim through `t`
    is allowed only when `t` is covered by HW, the checkpointed HW, LEO and — on a
    leader — by `matchOf` of every ISR member. -/
theorem c10_trim_gate (st : RState) (t : Nat) (r : String) (h : trimDecision st t = (true, r)) :
    t ≤ st.hw ∧ t ≤ st.ckhw ∧ t ≤ st.leo ∧ (st.role = 2 → ∀ n ∈ st.isr, t ≤ matchOf st n) := by
  unfold trimDecision at h
  split at h; · simp at h
  split at h; · simp at h
  split at h; · simp at h
  split at h; · simp at h
  split at h; · simp at h
  split at h; · simp at h
  rename_i h1 h2 h3 h4 h5 h6
  refine ⟨by omega, by omega, by omega, ?_⟩
  intro hr n hn
  have := minISRMatch_le st n hn
  have h6' : ¬ t > minISRMatch st := fun hgt => h6 ⟨hr, hgt⟩
  omega

example : trimDecision ⟨2, 1, [1, 2], [(1, 9), (2, 7)], 8, 8, 9, 2, 0⟩ 7 = (true, "") := by decide

/-- every non-local ISR member has a recorded progress entry -/
def AllRecorded (st : RState) : Prop := ∀ n ∈ st.isr, n ≠ st.localNode → (alookup n st.prog).isSome = true

theorem matchOf_eq_strict (st : RState) (n : Nat) (h : n ≠ st.localNode → (alookup n st.prog).isSome = true) :
    matchOf st n = strictMatch st n := by
  unfold matchOf strictMatch
  by_cases hl : n = st.localNode
  · simp [hl]
  · simp only [hl, if_false]
    have := h hl
    cases hp : alookup n st.prog with
    | none => rw [hp] at this; cases this
    | some m => rfl

/-- **c10_trim_gate_partial**: with every ISR member's progress recorded, an
    allowed trim satisfies the property's gate in full (`gateOK`: HW, checkpoint,
    LEO, every ISR member's progress).  Missing hypothesis for the unconditional
    statement: `AllRecorded` (see the counterexample below). -/
theorem c10_trim_gate_partial (st : RState) (t : Nat) (r : String) (hrec : AllRecorded st)
    (h : trimDecision st t = (true, r)) : gateOK st t = true := by
  obtain ⟨h1, h2, h3, h4⟩ := c10_trim_gate st t r h
  unfold gateOK
  simp only [decide_eq_true_eq, Bool.and_eq_true, Bool.or_eq_true, List.all_eq_true, Bool.decide_and, Bool.decide_or]
  refine ⟨h1, h2, h3, ?_⟩
  by_cases hr : st.role = 2
  · right
    intro n hn
    have := h4 hr n hn
    rw [matchOf_eq_strict st n (hrec n hn)] at this
    simpa using this
  · left; simpa using hr

example : AllRecorded ⟨2, 1, [1, 2], [(1, 9), (2, 7)], 8, 8, 9, 2, 0⟩ := by
  intro n hn hne
  simp at hn
  rcases hn with h | h <;> subst h <;> simp [alookup] at *

/-- the unconditional statement is FALSE of the code: a leader whose ISR member 2
    has no progress entry yet is allowed to trim rows that member's progress does not cover -/
theorem c10_trim_gate_unrecorded_counterexample :
    ∃ st t, (trimDecision st t).1 = true ∧ gateOK st t = false ∧ gateOKRecorded st t = true :=
  ⟨⟨2, 1, [1, 2], [(1, 5)], 7, 8, 5, 2, 3⟩, 3, by decide, by decide, by decide⟩

/-! ### reads -/

theorem filterLoop_bounds (req : Req) (l out : List Row) (next : Nat)
    (hout : ∀ m ∈ out, (req.minSeq > 0 → req.minSeq ≤ m.seq) ∧ (req.maxSeq > 0 → m.seq ≤ req.maxSeq)) :
    ∀ m ∈ (filterLoop req l out next).msgs,
      (req.minSeq > 0 → req.minSeq ≤ m.seq) ∧ (req.maxSeq > 0 → m.seq ≤ req.maxSeq) := by
  induction l generalizing out next with
  | nil =>
    intro m hm
    simp only [filterLoop, List.mem_reverse] at hm
    exact hout m hm
  | cons a t ih =>
    unfold filterLoop
    split
    · split
      · intro m hm; simp only [List.mem_reverse] at hm; exact hout m hm
      · exact ih out next hout
    · split
      · split
        · exact ih out next hout
        · intro m hm; simp only [List.mem_reverse] at hm; exact hout m hm
      · rename_i h1 h2
        apply ih
        intro m hm
        rcases List.mem_cons.mp hm with e | e
        · subst e
          constructor
          · intro hp; exact Nat.le_of_not_lt (fun hlt => h1 ⟨hp, hlt⟩)
          · intro hp; exact Nat.le_of_not_lt (fun hlt => h2 ⟨hp, hlt⟩)
        · exact hout m e

/-- what `readLocalCommitted` guarantees about the request it hands to the adapter -/
theorem clampReq_spec (req r' : Req) (committed floor : Nat) (h : clampReq req committed floor = .inl r') :
    r'.minSeq ≥ nextSeq floor ∧ r'.maxSeq ≤ committed ∧
    (r'.maxSeq = 0 → r'.reverse = true ∧ r'.fromSeq = 0) := by
  unfold clampReq at h
  dsimp only at h
  by_cases h1 : req.reverse = false ∧ (if req.reverse = false ∧ req.fromSeq = 0 then 1 else req.fromSeq) > committed
  · rw [if_pos h1] at h; cases h
  · rw [if_neg h1] at h
    cases h
    dsimp only
    have hmax : (if req.maxSeq = 0 ∨ req.maxSeq > committed then committed else req.maxSeq) ≤ committed ∧
        ((if req.maxSeq = 0 ∨ req.maxSeq > committed then committed else req.maxSeq) = 0 → committed = 0) := by
      by_cases hm : req.maxSeq = 0 ∨ req.maxSeq > committed
      · rw [if_pos hm]; exact ⟨Nat.le_refl _, fun h => h⟩
      · rw [if_neg hm]; omega
    refine ⟨Nat.le_max_right _ _, hmax.1, ?_⟩
    intro hz
    have hc0 := hmax.2 hz
    subst hc0
    cases hr : req.reverse with
    | false =>
      exfalso; apply h1
      refine ⟨hr, ?_⟩
      by_cases hf : req.reverse = false ∧ req.fromSeq = 0
      · rw [if_pos hf]; omega
      · rw [if_neg hf]
        have : req.fromSeq ≠ 0 := fun h0 => hf ⟨hr, h0⟩
        omega
    | true =>
      refine ⟨rfl, ?_⟩
      simp only [Bool.true_eq_false, false_and, if_false, true_and]
      by_cases hg : req.fromSeq > 0
      · rw [if_pos hg]
      · rw [if_neg hg]; omega

theorem clampReq_inr (req : Req) (r0 : RRes) (committed floor : Nat) (h : clampReq req committed floor = .inr r0) :
    r0.msgs = [] := by
  unfold clampReq at h
  dsimp only at h
  by_cases h1 : req.reverse = false ∧ (if req.reverse = false ∧ req.fromSeq = 0 then 1 else req.fromSeq) > committed
  · rw [if_pos h1] at h; cases h; rfl
  · rw [if_neg h1] at h; cases h

/-- **c10_read_bounds**: whatever `FromSeq/MaxSeq/MinSeq/Limit/MaxBytes` are
    (0 and 2^64-1 included), forward, reverse or "latest", with HW = 0 or not,
    single-node (`minISR ≤ 1 ⇒ committed = LEO`) or replicated, every message
    `readLocalCommitted` returns lies strictly above the logical retention floor
    and at or below the committed frontier. -/
theorem c10_read_bounds (ch ch' : Chan) (req : Req) (rts minISR : Nat) (r : RRes)
    (hfloor : Nat.max rts (localRet (loadLEO ch).2) < maxU64)
    (h : readLocal ch req rts minISR = (ch', .ok r)) :
    ∀ m ∈ r.msgs, Nat.max rts (localRet (loadLEO ch).2) < m.seq ∧
                  m.seq ≤ committedOf (loadLEO ch).1 (loadLEO ch).2.ck minISR := by
  unfold readLocal at h
  dsimp only at h
  generalize hc : committedOf (loadLEO ch).1 (loadLEO ch).2.ck minISR = committed at *
  generalize hf : Nat.max rts (localRet (loadLEO ch).2) = floor at *
  cases hcl : clampReq req committed floor with
  | inr r0 =>
    rw [hcl] at h
    simp only [Prod.mk.injEq, Except.ok.injEq] at h
    rw [← h.2, clampReq_inr req r0 committed floor hcl]
    intro m hm; cases hm
  | inl r' =>
    rw [hcl] at h
    obtain ⟨hmin, hmax, hmax0⟩ := clampReq_spec req r' committed floor hcl
    have hns : nextSeq floor = floor + 1 := by unfold nextSeq; rw [if_neg (Nat.ne_of_lt hfloor)]
    have hminpos : r'.minSeq > 0 := by omega
    unfold adapterRead at h
    dsimp only at h
    by_cases hA : r'.reverse = true ∧ r'.minSeq > 0 ∧
        (if (!r'.reverse) = true ∧ r'.minSeq > 0 ∧ r'.fromSeq < r'.minSeq then r'.minSeq else r'.fromSeq) < r'.minSeq
    · rw [if_pos hA] at h
      simp only [Prod.mk.injEq, Except.ok.injEq] at h; rw [← h.2]; intro m hm; cases hm
    · rw [if_neg hA] at h
      by_cases hB : (!r'.reverse) = true ∧ r'.maxSeq > 0 ∧ r'.minSeq > 0 ∧ r'.maxSeq < r'.minSeq
      · rw [if_pos hB] at h
        simp only [Prod.mk.injEq, Except.ok.injEq] at h; rw [← h.2]; intro m hm; cases hm
      · rw [if_neg hB] at h
        -- with nothing committed the request is a reverse one starting at 0: the adapter's floor guard fired
        have hmaxpos : r'.maxSeq > 0 := by
          cases Nat.eq_zero_or_pos r'.maxSeq with
          | inr h => exact h
          | inl hz =>
            exfalso
            obtain ⟨hrv, hfz⟩ := hmax0 hz
            apply hA
            refine ⟨hrv, hminpos, ?_⟩
            rw [hrv, hfz]; simpa using hminpos
        generalize listBySeq (loadLEO ch).2
          (if (!r'.reverse) = true ∧ r'.minSeq > 0 ∧ r'.fromSeq < r'.minSeq then r'.minSeq else r'.fromSeq)
          r'.limit r'.maxBytes r'.reverse = lr at h
        obtain ⟨chx, res⟩ := lr
        cases res with
        | error e => simp at h
        | ok msgs =>
          simp only [Prod.mk.injEq, Except.ok.injEq] at h
          rw [← h.2]
          intro m hm
          have hb := filterLoop_bounds r' msgs [] _ (by intro m hm; cases hm) m hm
          have hlo := hb.1 hminpos
          have hhi := hb.2 hmaxpos
          omega

def okSeqs : Except Err RRes → Option (List Nat × Nat)
  | .ok r => some (r.msgs.map (·.seq), r.next)
  | .error _ => none

-- non-vacuity: a reverse "latest" read over a store with an uncommitted tail (5, 6) and a retention floor (2)
example : okSeqs (readLocal { rows := (List.range 6).map (fun i => mkRow (i + 1) ⟨i + 1, [], [], [1], 1⟩),
                              ck := some ⟨0, 0, 4⟩, ret := some ⟨2, 0, 6⟩ }
            ⟨maxU64, maxU64, 0, 10, 0, true⟩ 0 2).2 = some ([4, 3], 2) := by
  decide +kernel

-- the repaired corner: nothing committed, forward read from sequence 0 returns nothing
example : okSeqs (readLocal { rows := [mkRow 1 ⟨7, [], [], [1], 1⟩] } ⟨0, 0, 0, 0, 0, false⟩ 0 2).2 = some ([], 1) := by
  decide +kernel

/-! ### no barrier record in a sync page -/

/-- **c10_no_barrier**: a sync page never contains a SyncOnce (recovery barrier) record -/
theorem c10_no_barrier (q : Query) (limit : Nat) (sync : List Nat) (read : RRes) :
    ∀ m ∈ (syncPage q limit sync read).1, m.seq ∉ sync := by
  intro m hm
  unfold syncPage at hm
  dsimp only at hm
  have base : ∀ x, x ∈ read.msgs.filter (fun m => !sync.contains m.seq) → x.seq ∉ sync := by
    intro x hx
    have := (List.mem_filter.mp hx).2
    simpa using this
  have sub : ∀ x, x ∈ (if q.mode = 0 ∧ q.end_ > 0 then
        (read.msgs.filter (fun m => !sync.contains m.seq)).filter (fun m => !decide (m.seq ≤ q.end_))
      else if q.mode = 1 ∧ q.end_ > 0 then
        (read.msgs.filter (fun m => !sync.contains m.seq)).filter (fun m => !decide (m.seq ≥ q.end_))
      else read.msgs.filter (fun m => !sync.contains m.seq)) → x.seq ∉ sync := by
    intro x hx
    split at hx
    · exact base x (List.mem_filter.mp hx).1
    · split at hx
      · exact base x (List.mem_filter.mp hx).1
      · exact base x hx
  apply sub m
  generalize (if q.mode = 0 ∧ q.end_ > 0 then
        (read.msgs.filter (fun m => !sync.contains m.seq)).filter (fun m => !decide (m.seq ≤ q.end_))
      else if q.mode = 1 ∧ q.end_ > 0 then
        (read.msgs.filter (fun m => !sync.contains m.seq)).filter (fun m => !decide (m.seq ≥ q.end_))
      else read.msgs.filter (fun m => !sync.contains m.seq)) = L at hm ⊢
  have hin : ∀ x, x ∈ (if L.length > limit then L.take limit else L) → x ∈ L := by
    intro x hx
    split at hx
    · exact List.mem_of_mem_take hx
    · exact hx
  by_cases hr : q.reverse = true
  · rw [if_pos hr] at hm
    exact hin m (List.mem_reverse.mp hm)
  · rw [if_neg hr] at hm
    exact hin m hm

example : (syncPage ⟨0, 0, 0, 5, 0⟩ 5 [2] ⟨[mkRow 3 ⟨3, [], [], [1], 1⟩, mkRow 2 ⟨2, [], [], [1], 1⟩, mkRow 1 ⟨1, [], [], [1], 1⟩], 0⟩).1.map (·.seq) = [1, 3] := by
  decide +kernel

/-! ### the retention boundary never moves backwards; physical ≤ logical -/

theorem loadLEO_ret (ch : Chan) : (loadLEO ch).2.ret = ch.ret := by
  unfold loadLEO; cases ch.leoC <;> rfl

theorem bumpLeo_ret (ch : Chan) (m : Nat) : (bumpLeo ch m).ret = ch.ret := by
  unfold bumpLeo
  cases ch.leoC with
  | none => rfl
  | some l => dsimp only; split <;> rfl

/-- **c10_floor_mono** (adopt): adopting ANY boundary — also a smaller one, in any
    order — never lowers the logical or the physical boundary. -/
theorem c10_floor_mono_adopt (ch : Chan) (through : Nat) :
    (retOrZero ch).loc ≤ (retOrZero (adopt ch through).1).loc ∧
    (retOrZero ch).phys ≤ (retOrZero (adopt ch through).1).phys := by
  unfold adopt
  by_cases h0 : through = 0
  · rw [if_pos h0]; exact ⟨Nat.le_refl _, Nat.le_refl _⟩
  · rw [if_neg h0]
    have hz : retOrZero (loadLEO ch).2 = retOrZero ch := by unfold retOrZero; rw [loadLEO_ret]
    have : (retOrZero (bumpLeo { (loadLEO ch).2 with ret := some (adoptRet (retOrZero (loadLEO ch).2) (loadLEO ch).1 through) }
        (adoptRet (retOrZero (loadLEO ch).2) (loadLEO ch).1 through).max)) =
        adoptRet (retOrZero ch) (loadLEO ch).1 through := by
      simp only [retOrZero, bumpLeo_ret, loadLEO_ret]
    dsimp only
    rw [this]
    exact ⟨Nat.le_max_left _ _, Nat.le_refl _⟩

example : (retOrZero (adopt { ret := some ⟨5, 3, 9⟩ } 2).1) = ⟨5, 3, 9⟩ := by decide

theorem ite_ge_of_branches (c1 c2 : Prop) [Decidable c1] [Decidable c2] (sp a b : Nat)
    (h1 : c1 → sp ≤ a) (h2 : c2 → sp ≤ b) :
    sp ≤ (if c1 then a else if c2 then b else sp) := by
  by_cases x : c1
  · rw [if_pos x]; exact h1 x
  · rw [if_neg x]
    by_cases y : c2
    · rw [if_pos y]; exact h2 y
    · rw [if_neg y]; exact Nat.le_refl _

theorem trimPlan_phys_ge (rows : List Row) (sp through mm mb : Nat) : sp ≤ (trimPlan rows sp through mm mb).phys := by
  unfold trimPlan
  dsimp only
  apply ite_ge_of_branches
  · intro hc; omega
  · intro hc; omega

/-- **c10_floor_mono** (trim) and **c10_physical_le_logical**: a physical trim
    never lowers either boundary, never touches the logical one, leaves
    `physical ≤ logical`, and refuses to run past the adopted logical boundary. -/
theorem c10_trim_boundaries (ch ch' : Chan) (through mm mb : Nat) (o : Nat × Nat × Bool)
    (h : trimNoAdopt ch through mm mb = (ch', .ok o)) :
    (retOrZero ch').loc = (retOrZero ch).loc ∧ (retOrZero ch).phys ≤ (retOrZero ch').phys ∧
    (retOrZero ch').phys ≤ (retOrZero ch').loc ∧ through ≤ (retOrZero ch).loc := by
  unfold trimNoAdopt at h
  by_cases h0 : through = 0
  · rw [if_pos h0] at h; simp at h
  rw [if_neg h0] at h
  have hz : retOrZero (loadLEO ch).2 = retOrZero ch := by unfold retOrZero; rw [loadLEO_ret]
  dsimp only at h
  rw [hz] at h
  by_cases hloc : through > (retOrZero ch).loc
  · rw [if_pos hloc] at h; simp at h
  rw [if_neg hloc] at h
  cases hrd : readForward (loadLEO ch).2.rows ((retOrZero ch).phys + 1) through (if mm > 0 then mm + 1 else 0) mb with
  | error e => rw [hrd] at h; simp at h
  | ok rows =>
    rw [hrd] at h
    dsimp only at h
    have hge := trimPlan_phys_ge rows (retOrZero ch).phys through mm mb
    generalize trimPlan rows (retOrZero ch).phys through mm mb = p at h hge
    by_cases hv : retValid ⟨(retOrZero ch).loc, p.phys,
        if (loadLEO ch).1 > (retOrZero ch).max then (loadLEO ch).1 else (retOrZero ch).max⟩ = false
    · rw [if_pos hv] at h; simp at h
    · rw [if_neg hv] at h
      simp only [Prod.mk.injEq, Except.ok.injEq] at h
      obtain ⟨hch, _⟩ := h
      subst hch
      unfold retValid at hv
      simp only [Bool.not_eq_false, Bool.not_eq_true', decide_eq_false_iff_not, not_or, Nat.not_lt] at hv
      exact ⟨rfl, hge, hv.2.1, Nat.le_of_not_lt hloc⟩

def okTrim : Except Err (Nat × Nat × Bool) → Option (Nat × Nat × Bool)
  | .ok r => some r
  | .error _ => none

example : okTrim (trimNoAdopt { rows := (List.range 4).map (fun i => mkRow (i + 1) ⟨i + 1, [], [], [1], 1⟩),
                                ret := some ⟨3, 0, 4⟩ } 3 0 0).2 = some (3, 3, false) := by decide +kernel

/-! ### phase 3: boundary monotonicity over arbitrary sequences; the whole sync path -/

/-- the store-side retention operations, in any order -/
inductive RetOp
  | adopt (t : Nat)
  | trim (t mm mb : Nat)
  | retain (t : Nat) (allowed : Bool) (mm mb : Nat)

def retStep (ch : Chan) : RetOp → Chan
  | .adopt t => (adopt ch t).1
  | .trim t mm mb => (trimNoAdopt ch t mm mb).1
  | .retain t a mm mb => (storeRetention ch t a mm mb).1

def Le2 (a b : Chan) : Prop := (retOrZero a).loc ≤ (retOrZero b).loc ∧ (retOrZero a).phys ≤ (retOrZero b).phys

theorem le2_refl (a : Chan) : Le2 a a := ⟨Nat.le_refl _, Nat.le_refl _⟩
theorem le2_trans {a b c : Chan} (h1 : Le2 a b) (h2 : Le2 b c) : Le2 a c :=
  ⟨Nat.le_trans h1.1 h2.1, Nat.le_trans h1.2 h2.2⟩

theorem le2_loadLEO (ch : Chan) : Le2 ch (loadLEO ch).2 := by
  have : retOrZero (loadLEO ch).2 = retOrZero ch := by unfold retOrZero; rw [loadLEO_ret]
  unfold Le2; rw [this]; exact ⟨Nat.le_refl _, Nat.le_refl _⟩

theorem trim_mono (ch : Chan) (t mm mb : Nat) : Le2 ch (trimNoAdopt ch t mm mb).1 := by
  cases hres : (trimNoAdopt ch t mm mb) with
  | mk ch' res =>
    cases res with
    | ok o =>
      have := c10_trim_boundaries ch ch' t mm mb o hres
      exact ⟨by rw [this.1]; exact Nat.le_refl _, this.2.1⟩
    | error e =>
      -- every error exit returns the channel itself or the channel with its LEO cache loaded
      have : ch' = ch ∨ ch' = (loadLEO ch).2 := by
        unfold trimNoAdopt at hres
        by_cases h0 : t = 0
        · rw [if_pos h0] at hres; left; exact (Prod.mk.inj hres).1.symm
        rw [if_neg h0] at hres
        have hz : retOrZero (loadLEO ch).2 = retOrZero ch := by unfold retOrZero; rw [loadLEO_ret]
        dsimp only at hres
        rw [hz] at hres
        by_cases hl : t > (retOrZero ch).loc
        · rw [if_pos hl] at hres; right; exact (Prod.mk.inj hres).1.symm
        rw [if_neg hl] at hres
        cases hrd : readForward (loadLEO ch).2.rows ((retOrZero ch).phys + 1) t (if mm > 0 then mm + 1 else 0) mb with
        | error e' => rw [hrd] at hres; right; exact (Prod.mk.inj hres).1.symm
        | ok rows =>
          rw [hrd] at hres
          dsimp only at hres
          generalize trimPlan rows (retOrZero ch).phys t mm mb = p at hres
          by_cases hv : retValid ⟨(retOrZero ch).loc, p.phys,
              if (loadLEO ch).1 > (retOrZero ch).max then (loadLEO ch).1 else (retOrZero ch).max⟩ = false
          · rw [if_pos hv] at hres; right; exact (Prod.mk.inj hres).1.symm
          · rw [if_neg hv] at hres; have := (Prod.mk.inj hres).2; cases this
      rcases this with e' | e' <;> rw [e']
      · exact le2_refl _
      · exact le2_loadLEO _

theorem adopt_mono (ch : Chan) (t : Nat) : Le2 ch (adopt ch t).1 := c10_floor_mono_adopt ch t

theorem retain_mono (ch : Chan) (t : Nat) (a : Bool) (mm mb : Nat) : Le2 ch (storeRetention ch t a mm mb).1 := by
  unfold storeRetention
  cases had : adopt ch t with
  | mk ch1 r1 =>
    have h1 : Le2 ch ch1 := by have := adopt_mono ch t; rw [had] at this; exact this
    cases r1 with
    | error e => exact h1
    | ok u =>
      dsimp only
      cases a with
      | false => simp only [Bool.false_eq_true, if_false]; exact h1
      | true =>
        simp only [if_true]
        have h2 := trim_mono ch1 t mm mb
        cases htr : trimNoAdopt ch1 t mm mb with
        | mk ch2 r2 =>
          rw [htr] at h2
          cases r2 with
          | error e => exact le2_trans h1 h2
          | ok o => obtain ⟨x, y, z⟩ := o; exact le2_trans h1 h2

/-- **c10_floor_mono**: for ANY sequence of boundary adoptions, physical trims and worker
    retention tasks — boundaries in any order, regressions included — the logical and the
    physical retention boundary of the store never move backwards. -/
theorem c10_floor_mono (ch : Chan) (ops : List RetOp) : Le2 ch (ops.foldl retStep ch) := by
  induction ops generalizing ch with
  | nil => exact le2_refl _
  | cons op rest ih =>
    simp only [List.foldl_cons]
    refine le2_trans ?_ (ih _)
    cases op with
    | adopt t => exact adopt_mono ch t
    | trim t mm mb => exact trim_mono ch t mm mb
    | retain t a mm mb => exact retain_mono ch t a mm mb

example : (retOrZero ([RetOp.adopt 5, .adopt 2, .retain 3 true 0 0].foldl retStep
    { rows := (List.range 6).map (fun i => mkRow (i + 1) ⟨i + 1, [], [], [1], 1⟩) })) = ⟨5, 3, 6⟩ := by decide +kernel


theorem syncPage_subset (q : Query) (limit : Nat) (sync : List Nat) (read : RRes) :
    ∀ m ∈ (syncPage q limit sync read).1, m ∈ read.msgs := by
  intro m hm
  unfold syncPage at hm
  dsimp only at hm
  have sub : ∀ x, x ∈ (if q.mode = 0 ∧ q.end_ > 0 then
        (read.msgs.filter (fun m => !sync.contains m.seq)).filter (fun m => !decide (m.seq ≤ q.end_))
      else if q.mode = 1 ∧ q.end_ > 0 then
        (read.msgs.filter (fun m => !sync.contains m.seq)).filter (fun m => !decide (m.seq ≥ q.end_))
      else read.msgs.filter (fun m => !sync.contains m.seq)) → x ∈ read.msgs := by
    intro x hx
    split at hx
    · exact (List.mem_filter.mp (List.mem_filter.mp hx).1).1
    · split at hx
      · exact (List.mem_filter.mp (List.mem_filter.mp hx).1).1
      · exact (List.mem_filter.mp hx).1
  apply sub m
  generalize (if q.mode = 0 ∧ q.end_ > 0 then
        (read.msgs.filter (fun m => !sync.contains m.seq)).filter (fun m => !decide (m.seq ≤ q.end_))
      else if q.mode = 1 ∧ q.end_ > 0 then
        (read.msgs.filter (fun m => !sync.contains m.seq)).filter (fun m => !decide (m.seq ≥ q.end_))
      else read.msgs.filter (fun m => !sync.contains m.seq)) = L at hm ⊢
  have hin : ∀ x, x ∈ (if L.length > limit then L.take limit else L) → x ∈ L := by
    intro x hx
    split at hx
    · exact List.mem_of_mem_take hx
    · exact hx
  by_cases hr : q.reverse = true
  · rw [if_pos hr] at hm; exact hin m (List.mem_reverse.mp hm)
  · rw [if_neg hr] at hm; exact hin m hm

/-- **c10_sync_page**: the whole sync path the driver executes
    (`readCommittedRequest` → `readLocalCommitted` → `channelMessagePageFromRead`): every message of a
    sync page is an ordinary message (no SyncOnce barrier record), above the logical retention floor
    and at most the committed frontier — up, down and "latest" queries, any bounds. -/
theorem c10_sync_page (ch ch' : Chan) (q : Query) (lim rts minISR : Nat) (sync : List Nat) (r : RRes)
    (hfloor : Nat.max rts (localRet (loadLEO ch).2) < maxU64)
    (h : readLocal ch (syncReq q lim) rts minISR = (ch', .ok r)) :
    ∀ m ∈ (syncPage q lim sync r).1, m.seq ∉ sync ∧ Nat.max rts (localRet (loadLEO ch).2) < m.seq ∧
      m.seq ≤ committedOf (loadLEO ch).1 (loadLEO ch).2.ck minISR := by
  intro m hm
  exact ⟨c10_no_barrier q lim sync r m hm,
    c10_read_bounds ch ch' (syncReq q lim) rts minISR r hfloor h m (syncPage_subset q lim sync r m hm)⟩

example : ((syncPage ⟨0, 0, 0, 5, 0⟩ 5 [4]
    (match (readLocal { rows := (List.range 6).map (fun i => mkRow (i + 1) ⟨i + 1, [], [], [1], 1⟩),
                        ck := some ⟨0, 0, 5⟩, ret := some ⟨2, 0, 6⟩ } (syncReq ⟨0, 0, 0, 5, 0⟩ 5) 0 2).2 with
     | .ok r => r | .error _ => ⟨[], 0⟩)).1.map (·.seq)) = [3, 5] := by decide +kernel

/-! ### last round: the judge clause `trimmed-above-requested-boundary` as a model theorem -/

theorem trimPlan_del_sub (rows : List Row) (sp t mm mb : Nat) : ∀ d ∈ (trimPlan rows sp t mm mb).del, d ∈ rows := by
  intro d hd
  unfold trimPlan at hd
  dsimp only at hd
  split at hd
  · exact List.mem_of_mem_take hd
  · exact hd

/-- **c10_trim_only_requested_prefix** (the judge clause `viol:trimmed-above-requested-boundary`): a physical trim
    through `t` removes only rows with `physical < seq ≤ t`; every other row is still present afterwards. -/
theorem c10_trim_only_requested_prefix (ch ch' : Chan) (t mm mb : Nat) (o : Nat × Nat × Bool)
    (h : trimNoAdopt ch t mm mb = (ch', .ok o)) :
    ∀ r ∈ ch.rows, r ∉ ch'.rows → (retOrZero ch).phys < r.seq ∧ r.seq ≤ t := by
  unfold trimNoAdopt at h
  by_cases h0 : t = 0
  · rw [if_pos h0] at h; simp at h
  rw [if_neg h0] at h
  have hz : retOrZero (loadLEO ch).2 = retOrZero ch := by unfold retOrZero; rw [loadLEO_ret]
  have hrows : (loadLEO ch).2.rows = ch.rows := by unfold loadLEO; cases ch.leoC <;> rfl
  dsimp only at h
  rw [hz, hrows] at h
  by_cases hloc : t > (retOrZero ch).loc
  · rw [if_pos hloc] at h; simp at h
  rw [if_neg hloc] at h
  cases hrd : readForward ch.rows ((retOrZero ch).phys + 1) t (if mm > 0 then mm + 1 else 0) mb with
  | error e => rw [hrd] at h; simp at h
  | ok rows =>
    rw [hrd] at h
    dsimp only at h
    have hsub := trimPlan_del_sub rows (retOrZero ch).phys t mm mb
    generalize trimPlan rows (retOrZero ch).phys t mm mb = p at h hsub
    by_cases hv : retValid ⟨(retOrZero ch).loc, p.phys,
        if (loadLEO ch).1 > (retOrZero ch).max then (loadLEO ch).1 else (retOrZero ch).max⟩ = false
    · rw [if_pos hv] at h; simp at h
    · rw [if_neg hv] at h
      simp only [Prod.mk.injEq, Except.ok.injEq] at h
      obtain ⟨hch, _⟩ := h
      subst hch
      intro r hr hnot
      dsimp only at hnot
      have : (p.del.any (fun d => decide (d.seq = r.seq))) = true := by
        cases ha : p.del.any (fun d => decide (d.seq = r.seq)) with
        | true => rfl
        | false => exact absurd (List.mem_filter.mpr ⟨hr, by simp [ha]⟩) hnot
      obtain ⟨d, hd, e⟩ := List.any_eq_true.mp this
      simp only [decide_eq_true_eq] at e
      have hdw : d ∈ window ch.rows ((retOrZero ch).phys + 1) t := by
        unfold readForward at hrd
        rcases scanGo_subset _ _ _ _ _ _ hrd d (hsub d hd) with x | x
        · cases x
        · exact x
      have := (mem_window _ _ _ _).mp hdw
      omega

example : (trimNoAdopt { rows := (List.range 4).map (fun i => mkRow (i + 1) ⟨i + 1, [], [], [1], 1⟩),
                         ret := some ⟨3, 0, 4⟩ } 2 0 0).1.rows.map (·.seq) = [3, 4] := by decide +kernel

end WK.C10

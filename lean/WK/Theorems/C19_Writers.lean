import WK.Gen.C19
/-!
  C19 — who writes the state file (T tie, regenerated on every run).

  The crash theorems (`c19_atomic`, `c19_history`, `c19_abort_atomic` …) speak about
  histories in which the file system is changed ONLY by the modelled call list of
  `Save` (success path = `saveOps`, failure path = a prefix of it followed by the
  deferred remove).  The extractor therefore also lists

  * `fsMutators`: every call that can change the file system in every non-test
    file of `pkg/controller/statefile` (any function, closure or package-level
    initialiser), and
  * `errBranchEffects`: every effectful call inside the `if err != nil { … return }`
    abort branches of `Save` other than closing the temp file descriptor.

  `c19_sole_writer` pins them: all mutating calls sit in `(*Store).Save`, there are
  exactly as many as the modelled list accounts for (success-path mutating ops plus
  the deferred remove), and the abort branches do nothing to the file system.
  A second writer (`Reset`, a `Load` that deletes a damaged file, a cleanup of
  stale temp files, an `os.Remove(s.path)` in an error branch …) breaks it.
-/
namespace WK.C19
open WK.Gen.C19

/-- ops of the model that change the file system's name space or file data -/
def Op.mutates : Op → Bool
  | .createTemp | .openFixed _ | .write _ | .rename _ _ | .removeTmp | .other _ => true
  | .fsync | .close | .hook | .setKeep | .fsyncDir => false

/-- the number of mutating calls the modelled `Save` accounts for -/
def modelledMutations (ops : List Op) (deferredRemove : Bool) : Nat :=
  (ops.filter Op.mutates).length + (if deferredRemove then 1 else 0)

/-- `Save` is the only writer of the package and has no unmodelled write. -/
def SoleWriter (muts : List (String × String)) (ops : List Op) (defRm : Bool) (errEff : List String) : Prop :=
  (∀ p ∈ muts, p.1 = "Store.Save") ∧ muts.length = modelledMutations ops defRm ∧ errEff = []

instance (muts : List (String × String)) (ops : List Op) (defRm : Bool) (errEff : List String) :
    Decidable (SoleWriter muts ops defRm errEff) := by unfold SoleWriter; infer_instance

theorem c19_sole_writer : SoleWriter fsMutators saveOps deferredRemove errBranchEffects := by
  decide

/-- non-vacuity / sensitivity: a second writer, an unmodelled write inside `Save`
    and an effect in an abort branch are each refused. -/
example : ¬ SoleWriter [("Store.Save", "os.CreateTemp"), ("Store.Reset", "os.WriteFile")] [.createTemp] false [] := by decide
example : ¬ SoleWriter [("Store.Save", "os.CreateTemp"), ("Store.Save", "os.Remove")] [.createTemp] false [] := by decide
example : ¬ SoleWriter [("Store.Save", "os.CreateTemp")] [.createTemp] false ["os.Remove(s.path)"] := by decide
example : SoleWriter [("Store.Save", "os.CreateTemp"), ("Store.Save", "os.Remove")] [.createTemp, .fsync] true [] := by decide

end WK.C19

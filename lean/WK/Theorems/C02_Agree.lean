import WK.Theorems.C01
/-
  C02 — agreement, the part that is a theorem: agreement of two replica logs is PREFIX-CLOSED.
  (Separate module because it uses the log-matching lemmas of Theorems/C01.lean, which itself
  imports Theorems/C02.lean.)
-/
namespace WK.C02
open WK WK.Repl WK.C01

theorem entryAt_range {s : Store} (h : StoreInv s) {k : Nat} {e : Ident} (he : s.entryAt k = some e) :
    1 ≤ k ∧ k ≤ s.allEntries.length := by
  unfold Store.entryAt at he
  obtain ⟨hei, q, hq, heq⟩ := findEntry_mem s.props k e he
  have hem : e ∈ s.allEntries := mem_allEntries.mpr ⟨q, hq, heq⟩
  obtain ⟨pos, hpos, hpe⟩ := List.getElem_of_mem hem
  have hech : ECh (0, 0, .zero) s.allEntries (chainEnd s.props) := chain_ech h.chain
  have := ech_index s.allEntries _ _ hech pos hpos
  simp only at this
  rw [hpe, hei] at this
  omega

/-- **c02_agree_partial** — in every reachable state, for any two replicas v and w: if they hold the
    same entry identity at offset k (named hypothesis TipAgree — e.g. at the smaller of their two
    committed watermarks), then they hold the same entry at EVERY offset ≤ k.  Agreement can
    therefore only fail at the tip; what is NOT proved is TipAgree itself for committed offsets,
    which is false without FullHolders (c02_agree_counterexample) and needs the C01 installer step
    with it. -/
theorem c02_agree_partial (ops : List Op) (v w k : Nat) (e : Ident)
    (hv : ((runS Sys.default ops).storeOf v).entryAt k = some e)
    (hw : ((runS Sys.default ops).storeOf w).entryAt k = some e) :
    ∀ j, 1 ≤ j → j ≤ k → ((runS Sys.default ops).storeOf v).entryAt j = ((runS Sys.default ops).storeOf w).entryAt j := by
  intro j hj1 hjk
  have iv := c02_store_inv ops v
  have iw := c02_store_inv ops w
  generalize (runS Sys.default ops).storeOf v = a at hv iv ⊢
  generalize (runS Sys.default ops).storeOf w = b at hw iw ⊢
  have rv := entryAt_range iv hv
  have rw' := entryAt_range iw hw
  have ev := c01_entryAt_allEntries a iv k rv.1 rv.2
  have ew := c01_entryAt_allEntries b iw k rw'.1 rw'.2
  rw [hv] at ev
  rw [hw] at ew
  have hd : (a.allEntries[k - 1]'(by omega)).digest = (b.allEntries[k - 1]'(by omega)).digest := by
    rw [← Option.some.inj ev, ← Option.some.inj ew]
  have hm := c01_store_prefix_matching a b iv iw (k - 1) (by omega) (by omega) hd (j - 1) (by omega)
  rw [c01_entryAt_allEntries a iv j hj1 (by omega), c01_entryAt_allEntries b iw j hj1 (by omega), hm]

/-- non-vacuity: in the C02 witness voters 2 and 3 agree at offset 2, hence at offset 1 -/
example : ((runS Sys.default witness).storeOf 2).entryAt 2 = ((runS Sys.default witness).storeOf 3).entryAt 2 ∧
    (((runS Sys.default witness).storeOf 2).entryAt 2).isSome := by decide

end WK.C02

import WK.Theorems.C16
/-
  C16 — final round: a committed batch is its sequential history; an accepted delete always advances the fence.
-/
namespace WK.C16

theorem applyAll_ok_cons (st : St) (o : Op) (r : List Op) (h : (applyAll st (o :: r)).2 = .ok) :
    (applyOp st o).2 = .ok ∧ applyAll st (o :: r) = applyAll (applyOp st o).1 r := by
  cases ha : applyOp st o with
  | mk st' e =>
    simp only [applyAll, ha] at h ⊢
    cases e <;> simp_all

/-- **c16_batch_sequential.**  A committed batch is the sequential history of its sub-ops: for
    every row (ordinary and CMD), the value after the batch is the left fold of the per-row
    transitions of the sub-ops, in order, starting from the committed row — each sub-op sees what
    the previous ones staged (the per-commit overlay), several mutations of one row included. -/
theorem c16_batch_sequential (ops : List Op) (st : St) (k : Key) (hok : (batchStep st ops).2 = .ok) :
    get k (batchStep st ops).1.rows = ops.foldl (fun r o => rowAfter r o k) (get k st.rows) ∧
    get k (batchStep st ops).1.cmd = ops.foldl (fun r o => crowAfter r o k) (get k st.cmd) := by
  have key : ∀ (ops : List Op) (st : St), (applyAll st ops).2 = .ok →
      get k (applyAll st ops).1.rows = ops.foldl (fun r o => rowAfter r o k) (get k st.rows) ∧
      get k (applyAll st ops).1.cmd = ops.foldl (fun r o => crowAfter r o k) (get k st.cmd) := by
    intro ops
    induction ops with
    | nil => intro st _; exact ⟨rfl, rfl⟩
    | cons o r ih =>
      intro st h
      obtain ⟨_, h2⟩ := applyAll_ok_cons st o r h
      rw [h2] at h ⊢
      have := ih (applyOp st o).1 h
      simp only [List.foldl_cons]
      rw [← applyOp_rows, ← applyOp_cmd]
      exact this
  unfold batchStep at hok ⊢
  split at hok
  · next hv =>
    simp only [hv, if_true] at ⊢
    cases ha : applyAll st ops with
    | mk st' e =>
      rw [ha] at hok
      cases e
      · have := key ops st (by rw [ha])
        rw [ha] at this
        simpa using this
      · simp at hok
      · simp at hok
  · simp at hok

/-- non-vacuity (the round-2 overlay shape): ack 9 then ack 7 in one batch ends at 9, read 50 then 20 at 50 -/
example :
    let k : Key := ⟨3, 300, 400, 2⟩
    let st := run {} [.one (.cup k ⟨1, 5, false, 0, 1⟩), .one (.up k ⟨1, 0, 0, 0, false, 0, 1, 1⟩)]
    let ops : List Op := [.cakB k 9 2, .rd k 50 3, .cakB k 7 4, .rd k 20 5]
    (batchStep st ops).2 = .ok ∧ (get k (batchStep st ops).1.cmd).map (·.ack) = some 9 ∧
      (get k (batchStep st ops).1.rows).map (·.read) = some 50 := by decide

/-- **c16_fence_advances_on_accepted_delete.**  A tombstone carrying a strictly newer source
    version always tombstones the row AND raises the stored source version to its own — whatever
    its UpdatedAt (older, equal or newer than the stored one) — so every later upsert whose version
    is below the delete's (a delayed add between the old fence and the delete) is refused and the
    cursors stay where they were. -/
theorem c16_fence_advances_on_accepted_delete (e nx : Row) (ht : nx.tomb = true) (hv : e.sv < nx.sv) :
    (resolveUp (some e) nx).sv = nx.sv ∧ (resolveUp (some e) nx).tomb = true ∧
    (resolveUp (some e) nx).read = e.read ∧ (resolveUp (some e) nx).del = e.del ∧
    (∀ late : Row, late.sv < nx.sv → resolveUp (some (resolveUp (some e) nx)) late = resolveUp (some e) nx) := by
  have h1 : ¬ nx.sv < e.sv := by omega
  have h2 : ¬ nx.sv = e.sv := by omega
  have hr : resolveUp (some e) nx =
      { e with tomb := true, tombAt := nx.tombAt, sv := nx.sv, upd := if nx.upd > e.upd then nx.upd else e.upd } := by
    simp [resolveUp, h1, h2, ht]
  refine ⟨by rw [hr], by rw [hr], by rw [hr], by rw [hr], ?_⟩
  intro late hl
  apply resolveUp_stale
  rw [hr]; exact hl

/-- non-vacuity (round-2 m4 shape): live v1 read 50 stamped 93; delete v3 stamped 92 (not newer);
    late add v2 with read 20 is refused -/
example :
    let e : Row := ⟨1, 50, 0, 0, false, 0, 1, 93⟩
    let d : Row := ⟨1, 0, 0, 0, true, 41, 3, 92⟩
    let late : Row := ⟨26, 20, 14, 0, false, 0, 2, 84⟩
    (resolveUp (some e) d).sv = 3 ∧ (resolveUp (some (resolveUp (some e) d)) late).read = 50 := by decide

end WK.C16

import WK.Proofs.Repl_Owner
import WK.Gen.C04
/-
  C04 — a deposed or fenced authority cannot acknowledge appends.
  Theorems about the very `step` / `install` / `commit` the C04 driver executes
  (WK/Model/Repl.lean, mirror of quorum_log.go).

  One "owner" = one quorumLog = node i between resets (crash / restart / cfg).
-/
namespace WK.C04
open WK WK.Repl

/-- the authority id owner `i` currently holds -/
def ownerAuth (s : Sys) (i : Nat) : Option AuthId :=
  match chanOf s i with
  | some (some ch) => some ch.auth.id
  | _ => none

/-- ops that replace owner `i` by a fresh quorumLog -/
def resets (i : Nat) : Op → Bool
  | .cfg .. => true
  | .crash j => j == i
  | .restart j => j == i
  | _ => false

theorem authGe_zero (a : AuthId) : AuthGe a AuthId.zero := by
  unfold AuthGe; rw [Ne, cmpAuth_lt_iff]; simp [AuthId.zero]

/-- `Install` on owner `i`: the held authority never decreases -/
theorem install_ownerAuth (s : Sys) (i : Nat) (a : Authority) (ps : List PSpec) (acks : List Ack) (b : AuthId)
    (h : ownerAuth s i = some b) : ∃ b', ownerAuth (install s i a ps acks).1 i = some b' ∧ AuthGe b' b := by
  unfold ownerAuth at h
  cases hc : chanOf s i with
  | none => simp [hc] at h
  | some co =>
    cases co with
    | none => simp [hc] at h
    | some ch =>
      simp [hc] at h
      rcases install_chan s i a ps acks (some ch) hc with h1 | ⟨ch', h1, h2, h3⟩
      · exact ⟨b, by unfold ownerAuth; rw [h1]; simp [h], AuthGe.refl b⟩
      · refine ⟨a.id, by unfold ownerAuth; rw [h1]; simp [h2], ?_⟩
        by_cases hz : ch.auth.id = AuthId.zero
        · rw [← h, hz]; exact authGe_zero _
        · rcases h3 ch rfl hz with hgt | heq
          · rw [← h]; exact AuthGe.of_gt hgt
          · rw [← h, heq]; exact AuthGe.refl _

theorem commit_ownerAuth (s : Sys) (i : Nat) (e : AuthId) (c : Nat) (cs : List Nat) (acks : List Ack) (b : AuthId)
    (h : ownerAuth s i = some b) : ownerAuth (commit s i e c cs acks).1 i = some b := by
  unfold ownerAuth at h
  cases hc : chanOf s i with
  | none => simp [hc] at h
  | some co =>
    cases co with
    | none => simp [hc] at h
    | some ch =>
      simp [hc] at h
      have := commit_chan s i e c cs acks (some ch) hc
      simp only at this
      obtain ⟨ch', h1, h2⟩ := this
      unfold ownerAuth; rw [h1]; simp [h2, h]

theorem ownerAuth_congr {s s' : Sys} (i : Nat) (h : chanOf s' i = chanOf s i) : ownerAuth s' i = ownerAuth s i := by
  unfold ownerAuth; rw [h]

theorem chanOf_of_ownerStep {j i : Nat} {s s' : Sys} (h : OwnerStep j s s') (hij : i ≠ j) : chanOf s' i = chanOf s i :=
  h.2.2.2 i hij

theorem chanOf_setNode_other {s : Sys} {j i : Nat} {nd0 : NodeSt} (h : s.node? j = some nd0) (nd : NodeSt) (hij : i ≠ j) :
    chanOf (s.setNode j nd) i = chanOf s i := by
  unfold chanOf; rw [node?_setNode h]; simp [hij]

/-- **c04_install_mono** — per owner, the installed authority id is non-decreasing in
    (epoch, term, fence) across every operation that does not replace the owner. -/
theorem c04_install_mono (s : Sys) (op : Op) (i : Nat) (b : AuthId)
    (h : ownerAuth s i = some b) (hr : resets i op = false) :
    ∃ b', ownerAuth (step s op).1 i = some b' ∧ AuthGe b' b := by
  obtain ⟨n, q, cap, started, nodes, owners⟩ := s
  have keep : ∀ (st : Bool) (ow : List (AuthId × Nat)), ownerAuth ⟨n, q, cap, st, nodes, ow⟩ i = some b := fun _ _ => h
  cases op with
  | cfg n' q' cap' fr' => simp [resets] at hr
  | crash j =>
    simp only [resets, beq_eq_false_iff_ne, ne_eq] at hr
    simp only [step]
    cases hn : Sys.node? ⟨n, q, cap, true, nodes, owners⟩ j with
    | none => exact ⟨b, keep _ _, AuthGe.refl b⟩
    | some nd =>
      simp only
      split
      · exact ⟨b, keep _ _, AuthGe.refl b⟩
      · refine ⟨b, ?_, AuthGe.refl b⟩
        rw [ownerAuth_congr i (chanOf_setNode_other hn _ (fun e => hr e.symm))]; exact keep _ _
  | restart j =>
    simp only [resets, beq_eq_false_iff_ne, ne_eq] at hr
    simp only [step]
    cases hn : Sys.node? ⟨n, q, cap, true, nodes, owners⟩ j with
    | none => exact ⟨b, keep _ _, AuthGe.refl b⟩
    | some nd =>
      simp only
      split
      · exact ⟨b, keep _ _, AuthGe.refl b⟩
      · refine ⟨b, ?_, AuthGe.refl b⟩
        rw [ownerAuth_congr i (chanOf_setNode_other hn _ (fun e => hr e.symm))]; exact keep _ _
  | repair l f nf =>
    simp only [step]
    split
    · split
      · exact ⟨b, keep _ _, AuthGe.refl b⟩
      · refine ⟨b, ?_, AuthGe.refl b⟩
        rw [ownerAuth_congr i ((repairFollower_frame trivRel _ l f nf).1.chanOf i)]; exact keep _ _
    · exact ⟨b, keep _ _, AuthGe.refl b⟩
  | install j a ps acks =>
    simp only [step]
    have inst : ∀ ow, ∃ b', ownerAuth (install ⟨n, q, cap, true, nodes, ow⟩ j a ps acks).1 i = some b' ∧ AuthGe b' b := by
      intro ow
      by_cases hij : i = j
      · subst hij; exact install_ownerAuth _ i a ps acks b (keep _ _)
      · refine ⟨b, ?_, AuthGe.refl b⟩
        rw [ownerAuth_congr i (chanOf_of_ownerStep (install_frame trivRel _ j a ps acks).1 hij)]; exact keep _ _
    cases hn : Sys.node? ⟨n, q, cap, true, nodes, owners⟩ j with
    | none => exact ⟨b, keep _ _, AuthGe.refl b⟩
    | some nd =>
      simp only
      split
      · exact ⟨b, keep _ _, AuthGe.refl b⟩
      · split
        · split
          · exact ⟨b, keep _ _, AuthGe.refl b⟩
          · split
            · exact ⟨b, keep _ _, AuthGe.refl b⟩
            · exact inst _
        · split
          · exact ⟨b, keep _ _, AuthGe.refl b⟩
          · exact inst _
  | commit j e c k p acks =>
    simp only [step]
    cases hn : Sys.node? ⟨n, q, cap, true, nodes, owners⟩ j with
    | none => exact ⟨b, keep _ _, AuthGe.refl b⟩
    | some nd =>
      simp only
      split
      · exact ⟨b, keep _ _, AuthGe.refl b⟩
      · split
        · exact ⟨b, keep _ _, AuthGe.refl b⟩
        · by_cases hij : i = j
          · subst hij; exact ⟨b, commit_ownerAuth _ i e c _ acks b (keep _ _), AuthGe.refl b⟩
          · refine ⟨b, ?_, AuthGe.refl b⟩
            rw [ownerAuth_congr i (chanOf_of_ownerStep (commit_frame trivRel _ j e c _ acks).1 hij)]; exact keep _ _

/-- non-vacuity: an owner that holds (1,1,1) is asked to install (1,2,1) -/
example : ∃ s : Sys, ownerAuth s 1 = some ⟨1, 1, 1⟩ ∧
    ownerAuth (step s (.install 1 ⟨⟨1, 2, 1⟩, 2, false⟩ [.all, .all, .all] [.D, .D, .D])).1 1 = some ⟨1, 2, 1⟩ :=
  ⟨(step Sys.default (.install 1 ⟨⟨1, 1, 1⟩, 2, false⟩ [.all, .all, .all] [.D, .D, .D])).1, by decide, by decide⟩

/-- **c04_install_mono (rejection)** — an authority below the one the owner holds is rejected
    `stale` (or `invalid`) and changes nothing; an equal id with a different quorum or fence is
    rejected `conflict`. -/
theorem c04_older_rejected (s : Sys) (i : Nat) (a : Authority) (ps : List PSpec) (acks : List Ack)
    (nd : NodeSt) (ch : QChan) (hn : s.node? i = some nd) (hc : nd.chan = some ch) (hz : ch.auth.id ≠ AuthId.zero) :
    (cmpAuth a.id ch.auth.id = .lt →
        install s i a ps acks = (s, .err .stale) ∨ install s i a ps acks = (s, .err .invalid)) ∧
    (a.id = ch.auth.id → a ≠ ch.auth →
        install s i a ps acks = (s, .err .conflict) ∨ install s i a ps acks = (s, .err .invalid)) := by
  constructor
  · intro hlt
    unfold install
    simp only [hn]
    split
    · right; rfl
    · left
      simp only [installDecision, hc, hz, ne_eq, not_false_eq_true, if_true, hlt]
  · intro heq hne
    unfold install
    simp only [hn]
    split
    · right; rfl
    · left
      have : cmpAuth a.id ch.auth.id = .eq := (cmpAuth_eq_iff _ _).mpr heq
      simp only [installDecision, hc, hz, ne_eq, not_false_eq_true, if_true, this, hne]

example : install (step Sys.default (.install 1 ⟨⟨1, 2, 1⟩, 2, false⟩ [.all, .all, .all] [.D, .D, .D])).1 1
    ⟨⟨1, 1, 1⟩, 2, false⟩ [.all, .all, .all] [.D, .D, .D] =
    ((step Sys.default (.install 1 ⟨⟨1, 2, 1⟩, 2, false⟩ [.all, .all, .all] [.D, .D, .D])).1, .err .stale) := by decide

/-- a receipt is only returned under the owner's installed, ready, unfenced authority -/
theorem c04_receipt_guard (s : Sys) (i : Nat) (e : AuthId) (c k p : Nat) (acks : List Ack) (r : Receipt)
    (h : (step s (.commit i e c k p acks)).2 = .receipt r) :
    ∃ ch, chanOf s i = some (some ch) ∧ ch.ready = true ∧ ch.auth.id = e ∧ ch.auth.fenced = false := by
  obtain ⟨n, q, cap, started, nodes, owners⟩ := s
  simp only [step] at h
  cases hn : Sys.node? ⟨n, q, cap, true, nodes, owners⟩ i with
  | none => simp [hn] at h
  | some nd =>
    simp only [hn] at h
    split at h
    · cases h
    · split at h
      · cases h
      · obtain ⟨nd', ch, h1, h2, h3, h4, h5⟩ := commit_receipt_guard _ i e c _ acks r h
        refine ⟨ch, ?_, h3, h4, h5⟩
        have : nd' = nd := by rw [hn] at h1; exact (Option.some.inj h1).symm
        subst this
        show (Sys.node? ⟨n, q, cap, true, nodes, owners⟩ i).map (·.chan) = _
        rw [hn]; simp [h2]

def runS (s : Sys) (ops : List Op) : Sys := ops.foldl (fun s o => (step s o).1) s

theorem run_ownerAuth (s : Sys) (ops : List Op) (i : Nat) (b : AuthId)
    (h : ownerAuth s i = some b) (hr : ∀ op ∈ ops, resets i op = false) :
    ∃ b', ownerAuth (runS s ops) i = some b' ∧ AuthGe b' b := by
  induction ops generalizing s b with
  | nil => exact ⟨b, h, AuthGe.refl b⟩
  | cons op ops ih =>
    obtain ⟨b1, h1, g1⟩ := c04_install_mono s op i b h (hr op (by simp))
    obtain ⟨b2, h2, g2⟩ := ih (step s op).1 b1 h1 (fun o ho => hr o (by simp [ho]))
    exact ⟨b2, h2, g2.trans g1⟩

/-- **c04_old_never_acked** — once owner `i` holds authority `b` (its install may have failed
    in recovery or been fenced: `ownerAuth` does not require `ready`), then after ANY further
    operations that do not replace the owner, no commit proposed under an older authority `a < b`
    is ever acknowledged. -/
theorem c04_old_never_acked (s : Sys) (i : Nat) (a b : AuthId) (ops : List Op)
    (h : ownerAuth s i = some b) (hlt : cmpAuth a b = .lt) (hr : ∀ op ∈ ops, resets i op = false)
    (c k p : Nat) (acks : List Ack) (r : Receipt) :
    (step (runS s ops) (.commit i a c k p acks)).2 ≠ .receipt r := by
  intro hrec
  obtain ⟨b', hb', hge⟩ := run_ownerAuth s ops i b h hr
  obtain ⟨ch, hch, _, hid, _⟩ := c04_receipt_guard _ i a c k p acks r hrec
  unfold ownerAuth at hb'
  rw [hch] at hb'
  simp at hb'
  have : cmpAuth a b' = .lt := lt_of_lt_of_ge hlt hge
  exact ne_of_cmp_lt this (by rw [← hb', hid])

/-- non-vacuity: owner 1 holds (1,2,1) after an install whose recovery FAILED (no probe
    responders), and a commit under (1,1,1) is then refused -/
example :
    let s := (step (step Sys.default (.install 1 ⟨⟨1, 1, 1⟩, 2, false⟩ [.all, .all, .all] [.D, .D, .D])).1
                (.install 1 ⟨⟨1, 2, 1⟩, 2, false⟩ [.none, .none, .none] [.D, .D, .D]))
    s.2 = .err .recoveryUnavailable ∧ ownerAuth s.1 1 = some ⟨1, 2, 1⟩ ∧
    (step s.1 (.commit 1 ⟨1, 1, 1⟩ 1 1 0 [.D, .D, .D])).2 = .err .notready := by decide

/-- **c04_fence_blocks** — an install carrying a write fence never makes the owner writable
    and writes nothing to any replica; the owner it leaves behind is either untouched or
    fenced to the new authority and not ready. -/
theorem c04_fence_blocks (s : Sys) (i : Nat) (a : Authority) (ps : List PSpec) (acks : List Ack) (hf : a.fenced = true) :
    (∀ id leo hw, (install s i a ps acks).2 ≠ .installed id leo hw) ∧
    (∀ v, (install s i a ps acks).1.storeOf v = s.storeOf v) ∧
    (∀ ch', chanOf (install s i a ps acks).1 i = some (some ch') →
        chanOf s i = some (some ch') ∨ (ch'.ready = false ∧ ch'.auth = a)) := by
  unfold install
  cases hn : s.node? i with
  | none => exact ⟨fun _ _ _ h => (by cases h), fun _ => rfl, fun ch' h => Or.inl h⟩
  | some nd =>
    simp only
    split
    · exact ⟨fun _ _ _ h => (by cases h), fun _ => rfl, fun ch' h => Or.inl h⟩
    · cases hd : installDecision nd.chan a with
      | error r =>
        simp only
        refine ⟨fun id leo hw h => ?_, fun _ => trivial, fun ch' h => Or.inl h⟩
        -- the only `.installed` answer of the decision needs an unfenced request
        subst h
        unfold installDecision at hd
        repeat' (split at hd)
        all_goals first | (cases hd; done) | simp_all
      | ok ch0 =>
        simp only [installRecover, hf, if_true]
        refine ⟨fun _ _ _ h => (by cases h), fun v => ?_, fun ch' h => ?_⟩
        · rw [storeOf_setNode hn]; by_cases hv : v = i
          · subst hv; simp [Sys.storeOf, hn]
          · simp [hv]
        · rw [chanOf_setChan hn] at h
          have h' : ch0 = ch' := by simpa using h
          subst h'
          unfold installDecision at hd
          repeat' (split at hd)
          all_goals first
            | (cases hd; done)
            | (cases hd; right; exact ⟨rfl, rfl⟩)
            | (cases hd; left; unfold chanOf; rw [hn]; simp_all)

/-- non-vacuity + "while a fence is active no append is admitted": after a fenced install of a
    higher authority, commits under the old and under the new authority are both refused -/
example :
    let s0 := (step Sys.default (.install 1 ⟨⟨1, 1, 1⟩, 2, false⟩ [.all, .all, .all] [.D, .D, .D])).1
    let s := step s0 (.install 1 ⟨⟨1, 2, 2⟩, 2, true⟩ [.all, .all, .all] [.D, .D, .D])
    s.2 = .err .fenced ∧
    (step s.1 (.commit 1 ⟨1, 1, 1⟩ 1 1 0 [.D, .D, .D])).2 = .err .notready ∧
    (step s.1 (.commit 1 ⟨1, 2, 2⟩ 1 1 0 [.D, .D, .D])).2 = .err .notready := by decide

/-- **c04_admitted_terminate** — the vote-counting automaton of `runDurableRound` is total:
    for every list of completions (every completion order, lost replies, conflicts) it returns
    either `nil` with outcome Durable, or an error with a closed outcome class; it returns `nil`
    only with the local vote and at least `q` durable votes among the consumed completions. -/
theorem c04_admitted_terminate (q : Nat) (comps : List (Bool × Comp)) :
    ((countVotes q {} comps).1 = true → (countVotes q {} comps).2 = .durable) ∧
    ((countVotes q {} comps).1 = false → (countVotes q {} comps).2 ≠ .durable) := by
  suffices h : ∀ acc : RoundAcc,
      ((countVotes q acc comps).1 = true → (countVotes q acc comps).2 = .durable) ∧
      ((countVotes q acc comps).1 = false → (countVotes q acc comps).2 ≠ .durable) from h {}
  induction comps with
  | nil =>
    intro acc
    simp only [countVotes]
    constructor
    · intro h; cases h
    · intro _; split <;> (try split) <;> simp
  | cons c cs ih =>
    intro acc
    obtain ⟨l, c⟩ := c
    cases c with
    | durable => simp only [countVotes]; split
                 · simp
                 · exact ih _
    | notWritten => simp only [countVotes]; split
                    · simp
                    · exact ih _
    | conflict => simp only [countVotes]; split
                  · simp
                  · exact ih _
    | unknown => simp only [countVotes]; split
                 · simp
                 · exact ih _

example : countVotes 2 {} [(true, .durable), (false, .unknown), (false, .durable)] = (true, .durable) := by decide

end WK.C04

/-! ## T tie: compareAuthorityID and ValidateMeta regenerated from the source -/
namespace WK.C04
open WK WK.Repl WK.Gen.C04

/-- **c04_cmp_translated** — the model's authority order IS the source's compareAuthorityID: the
    regenerated field list is (ChannelEpoch, LeaderTerm, FenceVersion) in this order and the
    regenerated loop over exactly these pairs equals `cmpAuth`. -/
theorem c04_cmp_translated (l r : AuthId) :
    cmpFields = ["ChannelEpoch", "LeaderTerm", "FenceVersion"] ∧
    cmpAuth l r = lexCmp [(l.epoch, r.epoch), (l.term, r.term), (l.fence, r.fence)] := by
  refine ⟨rfl, ?_⟩
  simp only [cmpAuth, lexCmp]
  repeat' split
  all_goals first | rfl | omega

example : lexCmp [(1, 1), (2, 3), (9, 0)] = .lt := by decide

/-- **c04_machine_meta** — ChannelState.ValidateMeta (regenerated from pkg/channel/machine/meta.go)
    rejects `stale`: an epoch regression, a leader-epoch regression within the epoch, and a leader
    switch within one (epoch, leader epoch); and it accepts only metadata whose (epoch, leaderEpoch)
    is not below the state's, with the same leader when both are equal, a sane MinISR, and matching
    key / id. -/
theorem c04_machine_meta (s : St) (m : Meta) :
    (m.epoch < s.epoch → validateMeta s m = "stale") ∧
    (m.epoch = s.epoch → m.leaderEpoch < s.leaderEpoch → validateMeta s m = "stale") ∧
    (m.epoch = s.epoch → m.leaderEpoch = s.leaderEpoch → m.leader ≠ s.leader → validateMeta s m = "stale") ∧
    (validateMeta s m = "ok" →
      (s.epoch < m.epoch ∨ (s.epoch = m.epoch ∧ (s.leaderEpoch < m.leaderEpoch ∨
        (s.leaderEpoch = m.leaderEpoch ∧ s.leader = m.leader)))) ∧
      0 < m.minISR ∧ m.minISR ≤ m.isrLen ∧ m.keyMismatch = false ∧ m.idMismatch = false) := by
  refine ⟨?_, ?_, ?_, ?_⟩
  · intro h; unfold validateMeta; repeat' split
    all_goals first | rfl | omega
  · intro h1 h2; unfold validateMeta; repeat' split
    all_goals first | rfl | omega
  · intro h1 h2 h3; unfold validateMeta; repeat' split
    all_goals first | rfl | omega
  · intro h
    unfold validateMeta at h
    repeat' (split at h)
    all_goals first | (simp at h; done) | skip
    all_goals
      rename_i hk hi h3 h4 h5
      refine ⟨by omega, by omega, by omega, by simpa using hk, by simpa using hi⟩

example : validateMeta ⟨3, 5, 1⟩ ⟨false, false, 3, 5, 2, 2, 3⟩ = "stale" ∧
    validateMeta ⟨3, 5, 1⟩ ⟨false, false, 3, 6, 2, 2, 3⟩ = "ok" ∧
    validateMeta ⟨3, 5, 1⟩ ⟨false, false, 2, 9, 1, 2, 3⟩ = "stale" := by decide

end WK.C04

/-! ## op-sequence lift: an older authority is never installed again -/
namespace WK.C04
open WK WK.Repl

/-- **c04_older_never_installed** — op-sequence lift of the fencing theorem: once owner `i` holds
    authority `b`, then after ANY further operations that do not replace the owner (installs —
    successful, failed or fenced —, commits, follower repairs, crashes/restarts of other nodes, in
    any order), an `Install` of any older authority `a < b` (lower epoch, or same epoch and lower
    term, or same epoch+term and lower fence) is never accepted: it does not return `installed`, and
    the authority the owner holds afterwards is still not below `b`. -/
theorem c04_older_never_installed (s : Sys) (i : Nat) (a : Authority) (b : AuthId) (ops : List Op)
    (h : ownerAuth s i = some b) (hlt : cmpAuth a.id b = .lt) (hr : ∀ op ∈ ops, resets i op = false)
    (ps : List PSpec) (acks : List Ack) :
    (∀ id leo hw, (step (runS s ops) (.install i a ps acks)).2 ≠ .installed id leo hw) ∧
    ∃ b', ownerAuth (step (runS s ops) (.install i a ps acks)).1 i = some b' ∧ AuthGe b' b := by
  obtain ⟨b1, hb1, hge1⟩ := run_ownerAuth s ops i b h hr
  have hlt1 : cmpAuth a.id b1 = .lt := lt_of_lt_of_ge hlt hge1
  constructor
  · intro id leo hw hres
    generalize runS s ops = t at hb1 hres
    obtain ⟨n, q, cap, started, nodes, owners⟩ := t
    have hbT : ownerAuth ⟨n, q, cap, true, nodes, owners⟩ i = some b1 := hb1
    -- the install itself, on a state whose owner holds b1 > a
    have key : ∀ ow, (install ⟨n, q, cap, true, nodes, ow⟩ i a ps acks).2 ≠ .installed id leo hw := by
      intro ow hinst
      have hbO : ownerAuth ⟨n, q, cap, true, nodes, ow⟩ i = some b1 := hb1
      unfold ownerAuth at hbO
      cases hc : chanOf ⟨n, q, cap, true, nodes, ow⟩ i with
      | none => simp [hc] at hbO
      | some co =>
        cases co with
        | none => simp [hc] at hbO
        | some ch =>
          simp [hc] at hbO
          obtain ⟨nd, hn, hcn⟩ := chanOf_some hc
          by_cases hz : ch.auth.id = AuthId.zero
          · rw [← hbO, hz] at hlt1
            exact absurd hlt1 (authGe_zero a.id)
          · rcases (c04_older_rejected _ i a ps acks nd ch hn hcn hz).1 (by rw [hbO]; exact hlt1) with e | e
            · rw [e] at hinst; cases hinst
            · rw [e] at hinst; cases hinst
    simp only [step] at hres
    cases hn : Sys.node? ⟨n, q, cap, true, nodes, owners⟩ i with
    | none => simp [hn] at hres
    | some nd =>
      simp only [hn] at hres
      split at hres
      · cases hres
      · split at hres
        · split at hres
          · cases hres
          · split at hres
            · cases hres
            · exact key _ hres
        · split at hres
          · cases hres
          · exact key _ hres
  · obtain ⟨b2, hb2, hge2⟩ := c04_install_mono (runS s ops) (.install i a ps acks) i b1 hb1 rfl
    exact ⟨b2, hb2, hge2.trans hge1⟩

/-- non-vacuity: owner 1 holds (2,1,1); after a failed install of (2,2,1) and a commit, an install
    of the lower-EPOCH authority (1,9,9) is refused `stale` -/
example :
    let s := (step Sys.default (.install 1 ⟨⟨2, 1, 1⟩, 2, false⟩ [.all, .all, .all] [.D, .D, .D])).1
    let ops : List Op := [.install 1 ⟨⟨2, 2, 1⟩, 2, false⟩ [.none, .none, .none] [.D, .D, .D],
                          .commit 1 ⟨2, 1, 1⟩ 1 1 0 [.D, .D, .D]]
    ownerAuth s 1 = some ⟨2, 1, 1⟩ ∧ (∀ op ∈ ops, resets 1 op = false) ∧
    (step (runS s ops) (.install 1 ⟨⟨1, 9, 9⟩, 2, false⟩ [.all, .all, .all] [.D, .D, .D])).2 = .err .stale := by decide

end WK.C04

/-! ## T tie: the admission guards of Commit and the authority switch of Install -/
namespace WK.C04
open WK WK.Repl WK.Gen.C04

/-- how the model reads the regenerated Commit guard chain -/
def commitByGuards (s : Sys) (i : Nat) (nd : NodeSt) (ch : QChan) (expected : AuthId) (c : Nat) (cs : List Nat)
    (acks : List Ack) : Sys × Res :=
  let g := commitGuards ch.ready (decide (expected = ch.auth.id)) ch.auth.fenced
  if g = "notready" then (s, .err .notready)
  else if g = "stale" then (s, .err .stale)
  else if g = "fenced" then (s, .err .fenced)
  else if g = "pass" then commitAdmitted s i nd ch (Cmd.biz c) cs acks
  else (s, .bad)

/-- **c04_commit_guards_translated** — the admission guards of the model's `commit` ARE the guard chain
    regenerated from quorumLog.Commit (between `defer state.mu.Unlock()` and the retained lookup):
    for every valid request on an owner with a channel state the model's result is the regenerated
    chain read through `commitByGuards`; and the regenerated chain lets through exactly a ready owner whose
    authority is the expected one and not write-fenced. -/
theorem c04_commit_guards_translated (s : Sys) (i : Nat) (expected : AuthId) (c : Nat) (cs : List Nat) (acks : List Ack)
    (nd : NodeSt) (ch : QChan) (hn : s.node? i = some nd) (hc : nd.chan = some ch)
    (hv : ¬ (expected = AuthId.zero ∨ c = 0 ∨ cs.length = 0 ∨ cs.length > 256)) :
    commit s i expected c cs acks = commitByGuards s i nd ch expected c cs acks ∧
    (∀ ready cur fenceSet, commitGuards ready cur fenceSet = "pass" ↔ (ready = true ∧ cur = true ∧ fenceSet = false)) := by
  constructor
  · simp only [commit, hn, hc, commitByGuards, commitGuards]
    rw [if_neg hv]
    cases hr : ch.ready <;> simp
    by_cases he : expected = ch.auth.id <;> simp [he]
    cases hf : ch.auth.fenced <;> simp
  · intro r c f; cases r <;> cases c <;> cases f <;> decide

/-- how the model reads the regenerated Install switch -/
def decisionBySwitch (ch : QChan) (a : Authority) : Except Res QChan :=
  let g := installSwitch (decide (ch.auth.id ≠ AuthId.zero)) (cmpAuth a.id ch.auth.id) (decide (a = ch.auth)) a.fenced ch.ready
  if g = "stale" then .error (.err .stale)
  else if g = "conflict" then .error (.err .conflict)
  else if g = "fenced" then .error (.err .fenced)
  else if g = "answer" then .error (.installed ch.auth.id ch.frontier.leo ch.hw)
  else if g = "keep" then .ok ch
  else if g = "fence" then .ok (fenceChan a)
  else .error .bad

/-- **c04_install_switch_translated** — the model's `installDecision` IS the authority switch
    regenerated from quorumLog.Install (`if state.authority.ID != (AuthorityID{}) { switch
    compareAuthorityID(authority.ID, state.authority.ID) … } else { fence }`); the regenerated switch
    answers an older id `stale` whatever else holds and never lets a fenced equal authority through. -/
theorem c04_install_switch_translated (ch : QChan) (a : Authority) :
    installDecision (some ch) a = decisionBySwitch ch a ∧
    installDecision none a = .ok (fenceChan a) ∧
    (∀ same fenceSet ready, installSwitch true .lt same fenceSet ready = "stale") ∧
    (∀ cmp same ready, installSwitch true cmp same true ready = "keep" → False) := by
  refine ⟨?_, rfl, ?_, ?_⟩
  · simp only [installDecision, decisionBySwitch, installSwitch]
    by_cases hz : ch.auth.id = AuthId.zero
    · simp [hz]
    · simp only [hz, ne_eq, not_false_eq_true, if_true, decide_true]
      cases cmpAuth a.id ch.auth.id <;> simp
      by_cases hs : a = ch.auth
      · subst hs; simp
        cases ch.auth.fenced <;> simp
        cases ch.ready <;> simp
      · simp [hs]
  · intro s f r; rfl
  · intro c s r; cases c <;> cases s <;> cases r <;> decide

/-- **c04_install_fence_translated** — the regenerated guard between the switch and recovery returns
    `fenced` exactly for a write-fenced authority, where the model's `installRecover` stops before any
    probe; and fenceQuorumChannel's regenerated assignments are the model's `fenceChan` (not ready,
    hw 0, empty frontier, no pending, nothing retained). -/
theorem c04_install_fence_translated (s : Sys) (i : Nat) (ch : QChan) (a : Authority) (ps : List PSpec) (acks : List Ack) :
    (installPreRecovery a.fenced = "fenced" → installRecover s i ch a ps acks = (s, .err .fenced)) ∧
    (installPreRecovery a.fenced = "recover" ↔ a.fenced = false) ∧
    fenceAssigns = [("authority", "cloneAuthority(authority)"), ("frontier", "ReplicaState{}"), ("hw", "0"),
      ("ready", "false"), ("pending", "nil"),
      ("retained", "make(map[ch.CommandID]retainedProposal, retainedCapacity)"), ("order", "state.order[:0]")] ∧
    fenceChan a = ⟨a, RState.zero, 0, false, none, []⟩ := by
  refine ⟨?_, ?_, rfl, rfl⟩
  · intro h
    cases hf : a.fenced
    · rw [hf] at h; exact absurd h (by decide)
    · simp [installRecover, hf]
  · cases a.fenced <;> decide

/-- non-vacuity of the regenerated guards -/
example : commitGuards true false false = "stale" ∧ commitGuards true true true = "fenced" ∧
    installSwitch true .eq true false true = "answer" ∧ installSwitch true .gt false false true = "fence" ∧
    installPreRecovery true = "fenced" := by decide

end WK.C04

import WK.Spec.C18
/-
  C18 — one command: `applyMutation` as modelled (`mutate handler valid`: run the
  handler, then commit its proposal by validateChanged / validate-or-roll-back /
  init) satisfies the contract the batch theorems need, for EVERY handler and
  validation function.  No regenerated definition is used here.
-/
namespace WK.C18

variable {β κ : Type} (handler : State β → Nat → κ → Proposal β) (valid : State β → Bool)

theorem mutate_cases (s : State β) (idx : Nat) (c : κ) :
    ((mutate handler valid s idx c).1 = s ∧
      ((∃ r, (mutate handler valid s idx c).2 = .rejected r) ∨ (∃ r, (mutate handler valid s idx c).2 = .noop r))) ∨
    (∃ cand, mutate handler valid s idx c = (⟨s.rev + 1, s.applied, cand⟩, .changed) ∧ valid ⟨s.rev + 1, s.applied, cand⟩ = true ∧
      handler s idx c = .change cand) ∨
    (∃ cand, mutate handler valid s idx c = (⟨s.rev, s.applied, cand⟩, .updated) ∧ valid ⟨s.rev, s.applied, cand⟩ = true ∧
      handler s idx c = .update cand) ∨
    (∃ body, s.rev = 0 ∧ mutate handler valid s idx c = (⟨1, idx, body⟩, .changed) ∧ valid ⟨1, idx, body⟩ = true) := by
  cases h : handler s idx c with
  | reject r =>
    have hm : mutate handler valid s idx c = (s, .rejected r) := by simp [mutate, h]
    rw [hm]; exact Or.inl ⟨rfl, Or.inl ⟨r, rfl⟩⟩
  | noop r =>
    have hm : mutate handler valid s idx c = (s, .noop r) := by simp [mutate, h]
    rw [hm]; exact Or.inl ⟨rfl, Or.inr ⟨r, rfl⟩⟩
  | change cand =>
    by_cases hv : valid ⟨s.rev + 1, s.applied, cand⟩ = true
    · have hm : mutate handler valid s idx c = (⟨s.rev + 1, s.applied, cand⟩, .changed) := by simp [mutate, h, validateChanged, hv]
      exact Or.inr (Or.inl ⟨cand, hm, hv, rfl⟩)
    · have hm : mutate handler valid s idx c = (s, .rejected reasonInvalidState) := by simp [mutate, h, validateChanged, hv]
      rw [hm]; exact Or.inl ⟨rfl, Or.inl ⟨_, rfl⟩⟩
  | update cand =>
    by_cases hv : valid ⟨s.rev, s.applied, cand⟩ = true
    · have hm : mutate handler valid s idx c = (⟨s.rev, s.applied, cand⟩, .updated) := by simp [mutate, h, hv]
      exact Or.inr (Or.inr (Or.inl ⟨cand, hm, hv, rfl⟩))
    · have hm : mutate handler valid s idx c = (s, .rejected reasonInvalidState) := by simp [mutate, h, hv]
      rw [hm]; exact Or.inl ⟨rfl, Or.inl ⟨_, rfl⟩⟩
  | init body =>
    by_cases hv : valid ⟨1, idx, body⟩ = true
    · by_cases hr : s.rev = 0
      · have hm : mutate handler valid s idx c = (⟨1, idx, body⟩, .changed) := by simp [mutate, h, hv, hr]
        exact Or.inr (Or.inr (Or.inr ⟨body, hr, hm, hv⟩))
      · have hm : mutate handler valid s idx c = (s, .rejected reasonInitConflict) := by simp [mutate, h, hv, hr]
        rw [hm]; exact Or.inl ⟨rfl, Or.inl ⟨_, rfl⟩⟩
    · have hm : mutate handler valid s idx c = (s, .rejected reasonInvalidState) := by simp [mutate, h, hv]
      rw [hm]; exact Or.inl ⟨rfl, Or.inl ⟨_, rfl⟩⟩

/-- **Revision discipline** of one command: `Changed` ⇒ revision + 1 and the new
    state passed `Validate`; `Updated` ⇒ revision and applied index unchanged and the
    new state passed `Validate`; `Noop`/`Rejected` ⇒ the state is untouched. -/
theorem c18_revision_step (s : State β) (idx : Nat) (c : κ) :
    ((mutate handler valid s idx c).2 = .changed →
        (mutate handler valid s idx c).1.rev = s.rev + 1 ∧ valid (mutate handler valid s idx c).1 = true) ∧
    ((mutate handler valid s idx c).2 = .updated →
        (mutate handler valid s idx c).1.rev = s.rev ∧ (mutate handler valid s idx c).1.applied = s.applied ∧
        valid (mutate handler valid s idx c).1 = true) ∧
    (∀ r, (mutate handler valid s idx c).2 = .noop r ∨ (mutate handler valid s idx c).2 = .rejected r →
        (mutate handler valid s idx c).1 = s) := by
  rcases mutate_cases handler valid s idx c with ⟨h1, h2⟩ | ⟨cand, h, hv, _⟩ | ⟨cand, h, hv, _⟩ | ⟨body, hr, h, hv⟩
  · refine ⟨?_, ?_, fun _ _ => h1⟩
    · intro hc; rcases h2 with ⟨r, hr⟩ | ⟨r, hr⟩ <;> rw [hr] at hc <;> cases hc
    · intro hc; rcases h2 with ⟨r, hr⟩ | ⟨r, hr⟩ <;> rw [hr] at hc <;> cases hc
  · rw [h]; refine ⟨fun _ => ⟨rfl, hv⟩, fun hc => by simp at hc, ?_⟩
    intro r hc; simp at hc
  · rw [h]; refine ⟨fun hc => by simp at hc, fun _ => ⟨rfl, rfl, hv⟩, ?_⟩
    intro r hc; simp at hc
  · rw [h]; refine ⟨fun _ => ⟨by simp [hr], hv⟩, fun hc => by simp at hc, ?_⟩
    intro r hc; simp at hc

/-- the handlers' contract before init: on an uninitialised state a handler
    rejects, no-ops, or is `applyInit` (every handler starts with
    `if next.Revision == 0 ... return reject(...)`) -/
def PreInitStrong (handler : State β → Nat → κ → Proposal β) : Prop :=
  ∀ s idx c, s.rev = 0 → (∃ r, handler s idx c = .reject r) ∨ (∃ r, handler s idx c = .noop r) ∨ (∃ b, handler s idx c = .init b)

/-- **The modelled commit discipline meets the contract**: whatever the handler
    proposes, `mutate` returns the candidate unchanged on Noop/Rejected (this is the
    `*next = before` of validateChanged and of the validate-or-roll-back paths),
    bumps the revision by exactly one on Changed, keeps it on Updated. -/
theorem c18_mutate_contract : MutateContract (mutate handler valid) := by
  intro s idx c
  rcases mutate_cases handler valid s idx c with h | ⟨cand, h, _, _⟩ | ⟨cand, h, _, _⟩ | ⟨body, hr, h, _⟩
  · exact Or.inl h
  · exact Or.inr (Or.inl ⟨cand, h⟩)
  · exact Or.inr (Or.inr (Or.inl ⟨cand, h⟩))
  · exact Or.inr (Or.inr (Or.inr ⟨body, hr, h⟩))

/-- every state `mutate` produces passed `Validate` -/
theorem c18_mutate_valid : ValidContract valid (mutate handler valid) := by
  intro s idx c
  rcases mutate_cases handler valid s idx c with ⟨h, _⟩ | ⟨cand, h, hv, _⟩ | ⟨cand, h, hv, _⟩ | ⟨body, _, h, hv⟩
  · exact Or.inl h
  · right; rw [h]; exact hv
  · right; rw [h]; exact hv
  · right; rw [h]; exact hv

theorem c18_mutate_uninit (hpre : PreInitStrong handler) : UninitContract (mutate handler valid) := by
  intro s idx c hs
  rcases mutate_cases handler valid s idx c with ⟨h1, _⟩ | ⟨cand, _, _, hh⟩ | ⟨cand, _, _, hh⟩ | ⟨body, _, h, _⟩
  · exact Or.inl h1
  · rcases hpre s idx c hs with ⟨r, h⟩ | ⟨r, h⟩ | ⟨b, h⟩ <;> rw [h] at hh <;> cases hh
  · rcases hpre s idx c hs with ⟨r, h⟩ | ⟨r, h⟩ | ⟨b, h⟩ <;> rw [h] at hh <;> cases hh
  · rw [h]; exact Or.inr ⟨by simp, rfl⟩

/-- non-vacuity: a function that edits the candidate and then REJECTS (a handler
    that forgets its rollback, or restores a snapshot of some other state) does not
    meet the contract -/
example : ¬ MutateContract (fun (s : State Nat) (_ : Nat) (_ : Nat) => (({ s with body := s.body + 1 } : State Nat), Outcome.rejected "invalid_state")) := by
  intro h
  rcases h ⟨1, 0, 0⟩ 0 0 with ⟨h1, _⟩ | ⟨_, h1⟩ | ⟨_, h1⟩ | ⟨_, h0, _⟩
  · simp at h1
  · simp at h1
  · simp at h1
  · simp at h0
example : MutateContract (mutate (fun (s : State Nat) _ (c : Nat) => if c = 0 then Proposal.reject "x" else .change (s.body + c)) (fun s => decide (s.body < 5))) :=
  c18_mutate_contract _ _
example : PreInitStrong (fun (s : State Nat) (_ : Nat) (c : Nat) =>
    if s.rev = 0 then (if c = 0 then Proposal.init 1 else .reject "invalid_command") else .change c) := by
  intro s idx c hs
  by_cases hc : c = 0
  · exact Or.inr (Or.inr ⟨1, by simp [hs, hc]⟩)
  · exact Or.inl ⟨"invalid_command", by simp [hs, hc]⟩

end WK.C18

import WK.Proofs.Repl_Store
import WK.Model.ReplDrv
import WK.Proofs.C03_Ledger
import WK.Theorems.C02
/-
  C01 — acknowledged channel appends survive failover and crashes.

  The full statement (`c01_statement`) is FALSE of the model, exactly as it is false of the code
  (DESIGN §8.1): `c01_counterexample` decides it on the 5-op history that corpus/C01/witness-8.1.ops
  replays against the real quorumLog.  What IS proved, for all inputs:

    c01_receipt_needs_quorum    a round returns success only with the local vote and ≥ q durable
                                votes among the completions it consumed, and a durable vote means
                                the voter's log covers the proposal's range;
    c01_selection_sound         an identity recovery selects at an index is held by ≥ q of the
                                responders of that install;
    c01_selection_complete      conversely (majority quorum) an identity held by ≥ q responders IS
                                the one selected at its index;
    c01_loss_characterised      (selection level) whenever the identity-page scan ends below an
                                index it was asked about — i.e. recovery truncates there — some
                                index at or below it has NO identity with q copies among the
                                responders.  Together with c01_selection_complete: recovery can only
                                cut below an entry if fewer than q responders hold (a prefix of) it,
                                which is the signature `responder-holders-lt-quorum` of the judge;
    c01_log_matching            equal digests at an index ⇒ equal identities (symbolic SHA-256),
                                the fact that lets "holds entry i" imply "holds its whole prefix".
  NOT proved (too large for this round): `c01_acked_survives_partial` under FullHolders through
  `repairPrefix`/`Store.replace`/`writeBarrier` end to end, and `c01_barrier`.
-/
namespace WK.C01
open WK WK.Repl

/-! ### the statement and its refutation -/

def rangeIdents (s : Store) : Nat → Nat → List Ident
  | _, 0 => []
  | frm, k + 1 =>
    match s.entryAt frm with
    | some e => e :: rangeIdents s (frm + 1) k
    | none => rangeIdents s (frm + 1) k

/-- run `ops`; true iff some install made an owner writable whose log omits or replaces an
    identity that an earlier receipt acknowledged -/
def violates : Sys → List Ident → List Op → Bool
  | _, _, [] => false
  | s, acked, op :: ops =>
    match op, step s op with
    | .commit i _ _ _ _ _, (s', .receipt r) =>
      violates s' (acked ++ rangeIdents (s'.storeOf i) r.first (r.last + 1 - r.first)) ops
    | .install i _ _ _, (s', .installed _ _ _) =>
      acked.any (fun e => decide ((s'.storeOf i).entryAt e.index ≠ some e)) || violates s' acked ops
    | _, (s', _) => violates s' acked ops

/-- C01 as written: no history acknowledges an entry and later lets a leader become writable
    without it -/
def c01_statement : Prop := ∀ ops, violates Sys.default [] ops = false

/-- DESIGN §8.1: N=3, Q=2; install (1,1,1) on 1; commit acked by {1,2}; node 1 down; install
    (1,2,1) on 2 with probe responders {2,3} -/
def witness : List Op :=
  [.install 1 ⟨⟨1, 1, 1⟩, 2, false⟩ [.all, .all, .all] [.D, .D, .D],
   .commit 1 ⟨1, 1, 1⟩ 1 1 0 [.D, .D, .X],
   .crash 1,
   .install 2 ⟨⟨1, 2, 1⟩, 2, false⟩ [.none, .all, .all] [.D, .D, .D]]

theorem c01_counterexample : ¬ c01_statement := by
  intro h
  have := h witness
  revert this
  decide

/-- the same history in numbers: the receipt is First=1, Last=1 and afterwards voter 2 is empty -/
example : (step (step Sys.default witness[0]).1 witness[1]).2 = .receipt ⟨⟨1, 1, 1⟩, .biz 1, 1, 1, 1⟩ ∧
    ((witness.foldl (fun s o => (step s o).1) Sys.default).storeOf 2).leo = 0 := by decide

/-! ### a receipt needs the local vote and a quorum of durable votes -/

def durableVotes (comps : List (Bool × Comp)) : Nat := (comps.filter (fun c => c.2 == .durable)).length

theorem countVotes_ok (q : Nat) : ∀ (comps : List (Bool × Comp)) (acc : RoundAcc),
    (countVotes q acc comps).1 = true →
      acc.votes + durableVotes comps ≥ q ∧ (acc.localDurable = true ∨ (true, Comp.durable) ∈ comps) := by
  intro comps
  induction comps with
  | nil => intro acc h; simp [countVotes] at h
  | cons c cs ih =>
    intro acc h
    obtain ⟨l, c⟩ := c
    cases c with
    | durable =>
      simp only [countVotes] at h
      split at h
      · rename_i hq
        simp only [durableVotes, List.filter_cons, beq_self_eq_true, if_true, List.length_cons]
        refine ⟨by omega, ?_⟩
        cases hl : acc.localDurable
        · right; simp [hl] at hq; simp [hq.1]
        · left; rfl
      · have := ih _ h
        simp only [durableVotes, List.filter_cons, beq_self_eq_true, if_true, List.length_cons] at this ⊢
        refine ⟨by have := this.1; simp [durableVotes] at this; omega, ?_⟩
        rcases this.2 with h1 | h1
        · cases hl : acc.localDurable
          · right; simp [hl] at h1; simp [h1]
          · left; rfl
        · right; exact List.mem_cons_of_mem _ h1
    | notWritten =>
      simp only [countVotes] at h
      split at h
      · rename_i hq; exact ⟨by simp [durableVotes]; omega, Or.inl hq.1⟩
      · have := ih _ h
        exact ⟨by have := this.1; simp [durableVotes] at this ⊢; omega, this.2.imp id (List.mem_cons_of_mem _)⟩
    | conflict =>
      simp only [countVotes] at h
      split at h
      · rename_i hq; exact ⟨by simp [durableVotes]; omega, Or.inl hq.1⟩
      · have := ih _ h
        exact ⟨by have := this.1; simp [durableVotes] at this ⊢; omega, this.2.imp id (List.mem_cons_of_mem _)⟩
    | unknown =>
      simp only [countVotes] at h
      split at h
      · rename_i hq; exact ⟨by simp [durableVotes]; omega, Or.inl hq.1⟩
      · have := ih _ h
        exact ⟨by have := this.1; simp [durableVotes] at this ⊢; omega, this.2.imp id (List.mem_cons_of_mem _)⟩

/-- **c01_receipt_needs_quorum** — `runDurableRound` reports success only if the leader's own
    write is durable and at least `q` of the consumed completions are durable; and a durable
    completion of a voter means that voter's log now covers the whole proposal range. -/
theorem c01_receipt_needs_quorum (q : Nat) (comps : List (Bool × Comp)) (h : (countVotes q {} comps).1 = true) :
    durableVotes comps ≥ q ∧ (true, Comp.durable) ∈ comps := by
  have := countVotes_ok q comps {} h
  simp at this
  exact this

theorem sync_durable_leo (s : Store) (m : Manifest) (cs : List Nat) (c : Nat)
    (h : (s.sync m cs c).2.isDurable = true) : m.last ≤ (s.sync m cs c).1.leo := by
  unfold Store.sync at h ⊢
  split
  · rename_i hv; simp [hv, SOut.isDurable] at h
  · rename_i hv
    simp only [hv, Bool.false_eq_true, if_false] at h
    have hd := appendExact_durable_leo s m cs
    generalize s.appendExact m cs = r at hd h
    obtain ⟨s', out⟩ := r
    simp only at hd h ⊢
    split
    · have := hd (by split at h <;> exact h)
      exact this
    · exact hd (by split at h <;> exact h)

theorem c01_durable_vote_covers (s : Store) (ack : Ack) (l : Bool) (p : Proposal)
    (h : (voteOn s ack l p).2 = .durable) : p.m.last ≤ (voteOn s ack l p).1.leo := by
  unfold voteOn at h ⊢
  cases ack with
  | X => simp only at h; split at h <;> cases h
  | L => simp only at h; cases h
  | D =>
    simp only at h ⊢
    have hs := sync_durable_leo s p.m p.contents p.committed
    generalize s.sync p.m p.contents p.committed = r at hs h
    obtain ⟨s', out⟩ := r
    cases out with
    | durable => exact hs rfl
    | already => exact hs rfl
    | notWritten => simp at h
    | conflict nf => simp only at h; split at h <;> cases h

example : (countVotes 2 {} [(true, .durable), (false, .durable)]).1 = true := by decide

/-! ### what recovery selects, and when it cuts -/

theorem quorumIdentAux_sound (all : List Report) (pos q : Nat) (nc : Option Nat) :
    ∀ (rs : List Report) (id : Ident), quorumIdentAux all pos q nc rs = some id → countIdent id pos nc all ≥ q := by
  intro rs
  induction rs with
  | nil => intro id h; simp [quorumIdentAux] at h
  | cons r rs ih =>
    intro id h
    simp only [quorumIdentAux] at h
    split at h
    · split at h
      · cases h; assumption
      · exact ih id h
    · exact ih id h

/-- **c01_selection_sound** — the identity recovery selects at a page position is reported,
    at that position, by at least `q` of the install's stable responders. -/
theorem c01_selection_sound (reports : List Report) (pos q : Nat) (id : Ident)
    (h : quorumIdentityAt reports pos q = some id) : countIdent id pos none reports ≥ q :=
  quorumIdentAux_sound reports pos q none reports id h

/-- two different identities cannot both be reported by ≥ q of n reports when 2q > n -/
theorem count_two (a b : Ident) (pos : Nat) (hab : a ≠ b) : ∀ rs : List Report,
    countIdent a pos none rs + countIdent b pos none rs ≤ rs.length := by
  intro rs
  induction rs with
  | nil => simp [countIdent]
  | cons r rs ih =>
    simp only [countIdent, List.length_cons, Bool.true_and]
    by_cases h1 : (r.at pos == some a) = true
    · have : (r.at pos == some b) = false := by
        cases hb : (r.at pos == some b) with
        | false => rfl
        | true => simp at h1 hb; rw [h1] at hb; exact absurd (Option.some.inj hb) hab
      simp [h1, this]; omega
    · simp only [Bool.not_eq_true] at h1
      simp [h1]; split <;> omega

theorem quorumIdentAux_complete (all : List Report) (pos q : Nat) (id : Ident)
    (hq : countIdent id pos none all ≥ q) (hmaj : 2 * q > all.length) :
    ∀ rs : List Report, (∃ r ∈ rs, r.at pos = some id) → quorumIdentAux all pos q none rs = some id := by
  intro rs
  induction rs with
  | nil => intro ⟨r, hr, _⟩; cases hr
  | cons r rs ih =>
    intro hex
    simp only [quorumIdentAux]
    cases hr : r.at pos with
    | none =>
      simp only [hr, if_true]
      apply ih
      obtain ⟨r', hr', he⟩ := hex
      cases hr' with
      | head => rw [hr] at he; cases he
      | tail _ hm => exact ⟨r', hm, he⟩
    | some id' =>
      simp only [hr, if_true]
      by_cases hc : countIdent id' pos none all ≥ q
      · simp only [hc, if_true]
        by_cases he : id' = id
        · rw [he]
        · have := count_two id' id pos he all
          omega
      · simp only [hc, if_false]
        apply ih
        obtain ⟨r', hr', he⟩ := hex
        cases hr' with
        | head => rw [hr] at he; cases he; exact absurd hq hc
        | tail _ hm => exact ⟨r', hm, he⟩

theorem exists_of_count_pos (id : Ident) (pos : Nat) : ∀ rs : List Report, countIdent id pos none rs > 0 →
    ∃ r ∈ rs, r.at pos = some id := by
  intro rs
  induction rs with
  | nil => intro h; simp [countIdent] at h
  | cons r rs ih =>
    intro h
    simp only [countIdent, Bool.true_and] at h
    by_cases h1 : (r.at pos == some id) = true
    · exact ⟨r, List.mem_cons_self, by simpa using h1⟩
    · simp only [Bool.not_eq_true] at h1
      simp [h1] at h
      obtain ⟨r', hr', he⟩ := ih h
      exact ⟨r', List.mem_cons_of_mem _ hr', he⟩

/-- **c01_selection_complete** — with a majority quorum, an identity reported at a position by
    ≥ q of the responders is exactly what recovery selects there (no other identity can win). -/
theorem c01_selection_complete (reports : List Report) (pos q : Nat) (id : Ident) (hq0 : 0 < q)
    (hmaj : 2 * q > reports.length) (hq : countIdent id pos none reports ≥ q) :
    quorumIdentityAt reports pos q = some id :=
  quorumIdentAux_complete reports pos q id hq hmaj reports (exists_of_count_pos id pos reports (by omega))

/-- scan stops exactly at the first position without a quorum identity: every index the
    selection moved past had one -/
theorem scanPage_stop (reports : List Report) (q : Nat) :
    ∀ (idxs : List Nat) (pos : Nat) (sel sel' : Selection), scanPage reports q pos idxs sel = .ok sel' →
      (sel' = sel ∧ (idxs = [] ∨ quorumIdentityAt reports pos q = none)) ∨
      (∃ id, quorumIdentityAt reports pos q = some id ∧ ∃ i rest, idxs = i :: rest ∧
         scanPage reports q (pos + 1) rest
           { sel with index := i, identity := id, supporters := supportersFor reports pos id } = .ok sel') := by
  intro idxs pos sel sel' h
  cases idxs with
  | nil => left; simp [scanPage] at h; exact ⟨h.symm, Or.inl rfl⟩
  | cons i rest =>
    simp only [scanPage] at h
    cases hq : quorumIdentityAt reports pos q with
    | none => left; simp [hq] at h; exact ⟨h.symm, Or.inr rfl⟩
    | some id =>
      right
      simp only [hq] at h
      refine ⟨id, rfl, i, rest, rfl, ?_⟩
      split at h
      · split at h
        · cases h
        · exact h
      · split at h
        · cases h
        · exact h

/-- a scan ends where it started or on one of the indexes it was given -/
theorem scanPage_index_mem (reports : List Report) (q : Nat) :
    ∀ (idxs : List Nat) (pos : Nat) (sel sel' : Selection), scanPage reports q pos idxs sel = .ok sel' →
      sel'.index = sel.index ∨ sel'.index ∈ idxs := by
  intro idxs
  induction idxs with
  | nil => intro pos sel sel' h; simp [scanPage] at h; left; rw [h]
  | cons i rest ih =>
    intro pos sel sel' h
    rcases scanPage_stop reports q (i :: rest) pos sel sel' h with ⟨he, _⟩ | ⟨id, _, i', rest', he, hrec⟩
    · left; rw [he]
    · cases he
      rcases ih (pos + 1) _ sel' hrec with h1 | h1
      · right; simp only at h1; rw [h1]; exact List.mem_cons_self
      · right; exact List.mem_cons_of_mem _ h1

/-- **c01_loss_characterised** (selection level) — if a successful identity-page scan ends
    WITHOUT having reached the k-th index it was asked about or any later one — i.e. recovery cuts
    the log below that index — then at some page position j ≤ k NO identity is reported by q of
    the install's responders.  By c01_selection_complete this means: fewer than q responders
    hold the entry at that position (hence, by c01_log_matching, fewer than q hold any entry above
    it with that prefix) — exactly the judge's class `responder-holders-lt-quorum`. -/
theorem c01_loss_characterised (reports : List Report) (q : Nat) :
    ∀ (idxs : List Nat) (pos : Nat) (sel sel' : Selection), scanPage reports q pos idxs sel = .ok sel' →
      ∀ k, k < idxs.length → sel'.index ∉ idxs.drop k →
        ∃ j, j ≤ k ∧ quorumIdentityAt reports (pos + j) q = none := by
  intro idxs
  induction idxs with
  | nil => intro _ _ _ _ k hk; simp at hk
  | cons i rest ih =>
    intro pos sel sel' h k hk hcut
    rcases scanPage_stop reports q (i :: rest) pos sel sel' h with ⟨_, hstop⟩ | ⟨id, _, i', rest', he, hrec⟩
    · rcases hstop with h1 | h1
      · cases h1
      · exact ⟨0, Nat.zero_le _, by simpa using h1⟩
    · cases he
      cases k with
      | zero =>
        exfalso
        rcases scanPage_index_mem reports q rest (pos + 1) _ sel' hrec with h1 | h1
        · apply hcut; simp only [List.drop_zero] ; simp only at h1; rw [h1]; exact List.mem_cons_self
        · apply hcut; simp only [List.drop_zero]; exact List.mem_cons_of_mem _ h1
      | succ k =>
        have hk' : k < rest.length := by simp at hk; omega
        obtain ⟨j, hj, hn⟩ := ih (pos + 1) _ sel' hrec k hk' (by simpa using hcut)
        exact ⟨j + 1, by omega, by rw [← hn]; congr 1; omega⟩

/-- the selection only ever ends on an index of the page or stays where it started -/
theorem scanPage_full (reports : List Report) (q : Nat) :
    ∀ (idxs : List Nat) (pos : Nat) (sel sel' : Selection), scanPage reports q pos idxs sel = .ok sel' →
      (∀ j (hj : j < idxs.length), (quorumIdentityAt reports (pos + j) q).isSome) →
      idxs ≠ [] → sel'.index = idxs.getLast! := by
  intro idxs
  induction idxs with
  | nil => intro _ _ _ _ _ h; exact absurd rfl h
  | cons i rest ih =>
    intro pos sel sel' h hall _
    rcases scanPage_stop reports q (i :: rest) pos sel sel' h with ⟨_, hstop⟩ | ⟨id, hid, i', rest', he, hrec⟩
    · rcases hstop with h1 | h1
      · cases h1
      · have := hall 0 (by simp); simp [h1] at this
    · cases he
      cases rest with
      | nil => simp [scanPage] at hrec; rw [← hrec]; simp
      | cons i2 rest2 =>
        have := ih (pos + 1) _ sel' hrec (fun j hj => by
          have := hall (j + 1) (by simp at hj ⊢; omega)
          rwa [Nat.add_assoc, Nat.add_comm 1 j]) (by simp)
        rw [this]; simp [List.getLast!]

/-- **c01_no_cut_under_full_holders** (the `_partial` content at selection level) — if at EVERY
    position of the identity page some identity is reported by ≥ q responders (which is what
    "≥ q responders hold the acknowledged entry", i.e. FullHolders, gives for the positions up to
    that entry, by c01_log_matching + c01_selection_complete), a successful scan selects the LAST
    index of the page: nothing is cut. -/
theorem c01_no_cut_under_full_holders (reports : List Report) (q : Nat) (idxs : List Nat) (pos : Nat)
    (sel sel' : Selection) (hq0 : 0 < q) (hmaj : 2 * q > reports.length)
    (hfull : ∀ j (hj : j < idxs.length), ∃ id, countIdent id (pos + j) none reports ≥ q)
    (hne : idxs ≠ []) (h : scanPage reports q pos idxs sel = .ok sel') : sel'.index = idxs.getLast! := by
  apply scanPage_full reports q idxs pos sel sel' h _ hne
  intro j hj
  obtain ⟨id, hid⟩ := hfull j hj
  rw [c01_selection_complete reports (pos + j) q id hq0 hmaj hid]; rfl

/-! ### log matching for the symbolic digest -/

/-- an entry identity produced by `deriveFrom` is determined by its digest -/
def Sealed (e : Ident) : Prop := ∃ c, e.digest = Dig.mk e.a e.index e.prevTerm e.prevIndex e.cmd e.prevDigest c

theorem deriveFrom_sealed (a : AuthId) (cmd : Cmd) : ∀ (cs : List Nat) (idx pt pi : Nat) (pd : Dig),
    ∀ e ∈ deriveFrom a cmd idx pt pi pd cs, Sealed e := by
  intro cs
  induction cs with
  | nil => intro _ _ _ _ e he; simp [deriveFrom] at he
  | cons c cs ih =>
    intro idx pt pi pd e he
    simp only [deriveFrom, List.mem_cons] at he
    rcases he with rfl | he
    · exact ⟨c, rfl⟩
    · exact ih _ _ _ _ e he

/-- **c01_log_matching** — two sealed identities with the same digest are the same identity
    (authority, index, predecessor term/index/digest, command): with the predecessor digest inside
    the preimage, holding entry i with a given digest means holding its whole prefix. -/
theorem c01_log_matching (e f : Ident) (he : Sealed e) (hf : Sealed f) (h : e.digest = f.digest) : e = f := by
  obtain ⟨c, hc⟩ := he
  obtain ⟨d, hd⟩ := hf
  rw [hc, hd] at h
  injection h with h1 h2 h3 h4 h5 h6 h7
  cases e; cases f
  simp only at h1 h2 h3 h4 h5 h6 hc hd
  subst h1 h2 h3 h4 h5 h6
  simp only [Ident.mk.injEq, true_and]
  rw [hc, hd, h7]

example : Sealed ⟨⟨1, 1, 1⟩, 1, 0, 0, .biz 1, .zero, Dig.mk ⟨1, 1, 1⟩ 1 0 0 (.biz 1) .zero 0⟩ := ⟨0, rfl⟩

end WK.C01

/-! ## phase 3 additions -/
namespace WK.C01
open WK WK.Repl

/-- **c01_no_loss_without_install** — no operation other than an install (commit with any answers,
    deposed-leader replays, follower repair, crash, restart) ever removes a stored proposal from any
    voter's log: entries can only be lost inside `Install` (recovery's `Replace`). -/
theorem c01_no_loss_without_install (s : Sys) (op : Op) (h : op.noReplace = true) (v : Nat) :
    ∀ p ∈ (s.storeOf v).props, p ∈ ((step s op).1.storeOf v).props :=
  step_stores_sync appendOnly_relS s op h v

example : (Op.commit 1 ⟨1, 1, 1⟩ 1 1 0 [.D, .D, .D]).noReplace = true ∧ (Op.repair 1 2 1).noReplace = true := by decide

theorem sealM_auth {m m' : Manifest} {cs : List Nat} {es : List Ident} (h : sealM m cs = some (m', es)) :
    m'.a = m.a ∧ m'.last = m.last := by
  unfold sealM at h
  split at h
  · cases h
  · cases h; exact ⟨rfl, rfl⟩

theorem writeBarrier_ok {s : Sys} {i : Nat} {a : Authority} {rec : RState} {acks : List Ack} {s' : Sys} {fr : RState}
    (h : writeBarrier s i a rec acks = (s', .ok fr)) :
    fr.leo = rec.leo + 1 ∧ fr.manifest.a = a.id ∧
    ∃ m, (runRound s i a.q acks ⟨m, [0], rec.leo⟩).2.1 = true ∧ fr.manifest = m := by
  unfold writeBarrier at h
  split at h
  · cases h
  · split at h
    · cases h
    · dsimp only at h
      split at h
      · cases h
      · rename_i m es hs
        obtain ⟨ha, hl⟩ := sealM_auth hs
        generalize hr : runRound s i a.q acks ⟨m, [0], rec.leo⟩ = rr at h
        obtain ⟨s2, ok, out⟩ := rr
        simp only at h
        split at h
        · cases h
        · rename_i hok
          simp only [Prod.mk.injEq, Except.ok.injEq] at h
          obtain ⟨_, hfr⟩ := h
          subst hfr
          refine ⟨by simp only; rw [hl], by simp only; rw [ha], m, ?_, rfl⟩
          rw [hr]; simpa using hok

/-- **c01_barrier** — when `Install` makes an owner writable (result `installed`), the frontier it
    publishes is either the empty log or ends in an entry of the NEW authority: a non-empty
    frontier written under another authority never becomes writable without the current-term
    barrier, and that barrier was acknowledged by a durable round (local vote + q durable votes,
    c01_receipt_needs_quorum) on top of the recovered prefix. -/
theorem c01_barrier (s : Sys) (i : Nat) (ch0 : QChan) (a : Authority) (ps : List PSpec) (acks : List Ack)
    (s' : Sys) (id : AuthId) (leo hw : Nat) (hch : chanOf s i = some (some ch0))
    (h : installRecover s i ch0 a ps acks = (s', .installed id leo hw)) :
    ∃ ch', chanOf s' i = some (some ch') ∧ ch'.ready = true ∧ ch'.hw = ch'.frontier.leo ∧
      ch'.retained = [] ∧ ch'.pending = none ∧
      (ch'.frontier = RState.zero ∨ (ch'.frontier.leo > 0 ∧ ch'.frontier.manifest.a = a.id)) := by
  unfold installRecover at h
  split at h
  · cases h
  · cases hrec : recoverPrefix s a.q ps with
    | error e => simp [hrec] at h
    | ok sel =>
      simp only [hrec] at h
      have f1 := (repairPrefix_frame trivRel s ps i sel).1
      generalize repairPrefix s ps i sel = rp at f1 h
      obtain ⟨s1, r1⟩ := rp
      have h1 : chanOf s1 i = some (some ch0) := by rw [f1.chanOf]; exact hch
      cases r1 with
      | error e => simp at h
      | ok recovered =>
        simp only at h
        -- the frontier handed to installFinish
        have key : ∀ (fin : Sys × Except Err RState), chanOf fin.1 i = some (some ch0) →
            (∀ fr, fin.2 = .ok fr → fr = RState.zero ∨ (fr.leo > 0 ∧ fr.manifest.a = a.id)) →
            installFinish i ch0 a fin = (s', .installed id leo hw) →
            ∃ ch', chanOf s' i = some (some ch') ∧ ch'.ready = true ∧ ch'.hw = ch'.frontier.leo ∧
              ch'.retained = [] ∧ ch'.pending = none ∧
              (ch'.frontier = RState.zero ∨ (ch'.frontier.leo > 0 ∧ ch'.frontier.manifest.a = a.id)) := by
          intro fin hc hfr hfin
          obtain ⟨s2, r2⟩ := fin
          cases r2 with
          | error e => simp [installFinish] at hfin
          | ok frontier =>
            obtain ⟨nd, hn, _⟩ := chanOf_some hc
            simp only [installFinish, hn, Prod.mk.injEq] at hfin
            obtain ⟨hs, _⟩ := hfin
            subst hs
            exact ⟨_, chanOf_setChan hn _, rfl, rfl, rfl, rfl, hfr frontier rfl⟩
        split at h
        · rename_i hcond
          refine key _ ?_ ?_ h
          · rw [(writeBarrier_frame trivRel s1 i a recovered acks).1.chanOf]; exact h1
          · intro fr hfr
            right
            have : writeBarrier s1 i a recovered acks = ((writeBarrier s1 i a recovered acks).1, .ok fr) := by
              rw [← hfr]
            obtain ⟨hl, ha, _⟩ := writeBarrier_ok this
            exact ⟨by omega, ha⟩
        · rename_i hcond
          refine key (s1, .ok recovered) h1 ?_ h
          intro fr hfr
          simp only [Except.ok.injEq] at hfr
          subst hfr
          simp only [not_and, Bool.not_eq_true, Bool.not_eq_false'] at hcond
          by_cases hz : recovered = RState.zero
          · left; exact hz
          · right
            have := hcond hz
            unfold frontierUsesAuthority at this
            simp only [Bool.and_eq_true, decide_eq_true_eq] at this
            exact this

/-- non-vacuity: the second install of the §8.1-free history writes a barrier at offset 2 -/
example :
    let s := (step (step Sys.default (.install 1 ⟨⟨1, 1, 1⟩, 2, false⟩ [.all, .all, .all] [.D, .D, .D])).1
                (.commit 1 ⟨1, 1, 1⟩ 1 1 0 [.D, .D, .D])).1
    (step s (.install 2 ⟨⟨1, 2, 1⟩, 2, false⟩ [.all, .all, .all] [.D, .D, .X])).2 = .installed ⟨1, 2, 1⟩ 2 2 := by decide

end WK.C01

/-! ## a receipt means q distinct holders -/
namespace WK.C01
open WK WK.Repl

/-- voter store holds the proposal with exactly this manifest -/
def HoldsM (st : Store) (m : Manifest) : Prop := ∃ pr ∈ st.props, pr.m = m

theorem holdsM_mono {a b : Store} (h : AppendOnly a b) {m : Manifest} (hm : HoldsM a m) : HoldsM b m := by
  obtain ⟨pr, hp, he⟩ := hm; exact ⟨pr, h pr hp, he⟩

/-- the voters whose completion was durable, in consumption order -/
def durableVoters : List Nat → List (Bool × Comp) → List Nat
  | v :: vs, (_, c) :: cs => (if c = .durable then [v] else []) ++ durableVoters vs cs
  | _, _ => []

theorem durableVoters_length : ∀ (vs : List Nat) (cs : List (Bool × Comp)), vs.length = cs.length →
    (durableVoters vs cs).length = durableVotes cs := by
  intro vs
  induction vs with
  | nil => intro cs h; cases cs with
    | nil => rfl
    | cons _ _ => simp at h
  | cons v vs ih =>
    intro cs h
    cases cs with
    | nil => simp at h
    | cons c cs =>
      obtain ⟨l, c⟩ := c
      simp only [List.length_cons, Nat.add_right_cancel_iff] at h
      have := ih cs h
      cases c <;> simp [durableVoters, durableVotes, List.filter_cons] at this ⊢ <;> omega

theorem durableVoters_sublist : ∀ (vs : List Nat) (cs : List (Bool × Comp)), (durableVoters vs cs).Sublist vs := by
  intro vs
  induction vs with
  | nil => intro cs; simp [durableVoters]
  | cons v vs ih =>
    intro cs
    cases cs with
    | nil => simp [durableVoters]
    | cons c cs =>
      obtain ⟨l, c⟩ := c
      simp only [durableVoters]
      split
      · exact List.Sublist.cons₂ _ (ih cs)
      · exact List.Sublist.cons _ (ih cs)

/-- after all votes, every voter whose completion was durable holds the proposal -/
theorem applyVotes_holders (ln : Nat) (acks : List Ack) (p : Proposal) : ∀ (vs : List Nat) (s : Sys),
    (∀ v ∈ vs, (s.node? v).isSome) →
    ((applyVotes s ln acks p vs).2.length = vs.length) ∧
    ∀ v ∈ durableVoters vs (applyVotes s ln acks p vs).2, HoldsM ((applyVotes s ln acks p vs).1.storeOf v) p.m := by
  intro vs
  induction vs with
  | nil => intro s _; exact ⟨rfl, fun v hv => by simp [durableVoters, applyVotes] at hv⟩
  | cons v vs ih =>
    intro s hex
    simp only [applyVotes]
    have hvo := voteOn_durable_mem (s.storeOf v) (ackOf s acks v) (v == ln) p
    generalize voteOn (s.storeOf v) (ackOf s acks v) (v == ln) p = vo at hvo ⊢
    obtain ⟨st1, c1⟩ := vo
    have hex' : ∀ w ∈ vs, ((s.setStore v st1).node? w).isSome := by
      intro w hw
      rw [(SameOwners.setStore s v st1).node_isSome]; exact hex w (List.mem_cons_of_mem _ hw)
    have ih' := ih (s.setStore v st1) hex'
    have fr := applyVotes_frameS appendOnly_relS (s.setStore v st1) ln acks p vs
    generalize applyVotes (s.setStore v st1) ln acks p vs = ar at ih' fr ⊢
    obtain ⟨s', cs⟩ := ar
    simp only at ih' fr hvo ⊢
    refine ⟨by simp [ih'.1], fun w hw => ?_⟩
    simp only [durableVoters, List.mem_append] at hw
    rcases hw with hw | hw
    · split at hw
      · rename_i hc
        simp only [List.mem_singleton] at hw
        subst hw
        have h0 : HoldsM ((s.setStore w st1).storeOf w) p.m := by
          rw [storeOf_setStore]
          simp only [hex w List.mem_cons_self, and_self, if_true]
          exact hvo hc
        exact holdsM_mono (fr.2 w) h0
      · cases hw
    · exact ih'.2 w hw

theorem votersUpTo_mem (n v : Nat) : v ∈ votersUpTo n ↔ 1 ≤ v ∧ v ≤ n := by
  induction n with
  | zero => simp [votersUpTo]; omega
  | succ k ih => simp only [votersUpTo, List.mem_append, ih, List.mem_singleton]; omega

theorem votersUpTo_nodup (n : Nat) : (votersUpTo n).Nodup := by
  induction n with
  | zero => simp [votersUpTo]
  | succ k ih =>
    simp only [votersUpTo]
    rw [List.nodup_append]
    refine ⟨ih, by simp, ?_⟩
    intro a ha b hb
    simp only [List.mem_singleton] at hb
    have := (votersUpTo_mem k a).mp ha
    omega

theorem roundOrder_nodup (n ln : Nat) : (roundOrder n ln).Nodup := by
  obtain ⟨fs, hro, hfs⟩ := roundOrder_tail n ln
  unfold roundOrder at hro ⊢
  simp only [List.cons.injEq, true_and] at hro
  rw [List.nodup_cons]
  refine ⟨by rw [hro]; exact hfs, ?_⟩
  have hf : (List.filter (fun x => decide (x ≠ ln)) (votersUpTo n)).Nodup := (votersUpTo_nodup n).filter _
  have hp : (List.drop (preferredFollowerIndex (List.filter (fun x => decide (x ≠ ln)) (votersUpTo n)).length)
      (List.filter (fun x => decide (x ≠ ln)) (votersUpTo n)) ++
      List.take (preferredFollowerIndex (List.filter (fun x => decide (x ≠ ln)) (votersUpTo n)).length)
      (List.filter (fun x => decide (x ≠ ln)) (votersUpTo n))).Perm (List.filter (fun x => decide (x ≠ ln)) (votersUpTo n)) := by
    refine List.perm_append_comm.trans ?_
    rw [List.take_append_drop]
  exact hp.nodup_iff.mpr hf

theorem roundOrder_subset (n ln : Nat) (hl : 1 ≤ ln ∧ ln ≤ n) : ∀ v ∈ roundOrder n ln, 1 ≤ v ∧ v ≤ n := by
  intro v hv
  unfold roundOrder at hv
  simp only [List.mem_cons, List.mem_append] at hv
  rcases hv with rfl | hv | hv
  · exact hl
  · exact (votersUpTo_mem n v).mp (List.mem_filter.mp (List.mem_of_mem_drop hv)).1
  · exact (votersUpTo_mem n v).mp (List.mem_filter.mp (List.mem_of_mem_take hv)).1

/-- **c01_receipt_has_q_holders** — Sys level: when a durability round succeeds (which is the only way
    `Commit` / the barrier acknowledge), there is a duplicate-free list of at least `q` DISTINCT voters,
    the leader among them, each of whose logs holds the proposal afterwards. -/
theorem c01_receipt_has_q_holders (s : Sys) (i q : Nat) (acks : List Ack) (p : Proposal)
    (hsz : s.nodes.length = s.n) (hi : 1 ≤ i ∧ i ≤ s.n) (h : (runRound s i q acks p).2.1 = true) :
    ∃ hs : List Nat, hs.Nodup ∧ q ≤ hs.length ∧ i ∈ hs ∧ (∀ v ∈ hs, 1 ≤ v ∧ v ≤ s.n) ∧
      ∀ v ∈ hs, HoldsM ((runRound s i q acks p).1.storeOf v) p.m := by
  have hex : ∀ v ∈ roundOrder s.n i, (s.node? v).isSome := by
    intro v hv
    have := roundOrder_subset s.n i hi v hv
    unfold Sys.node?
    have h0 : v ≠ 0 := by omega
    simp only [h0, if_false]
    rw [List.getElem?_eq_getElem (by omega)]; rfl
  unfold runRound at h ⊢
  have ha := applyVotes_holders i acks p (roundOrder s.n i) s hex
  generalize har : applyVotes s i acks p (roundOrder s.n i) = ar at ha h ⊢
  obtain ⟨s', comps⟩ := ar
  simp only at ha h ⊢
  have hq := c01_receipt_needs_quorum q comps h
  refine ⟨durableVoters (roundOrder s.n i) comps, ?_, ?_, ?_, ?_, ha.2⟩
  · exact (roundOrder_nodup s.n i).sublist (durableVoters_sublist _ _)
  · rw [durableVoters_length _ _ ha.1.symm]; exact hq.1
  · -- the local completion is the head of the round order
    obtain ⟨fs, hro, _⟩ := roundOrder_tail s.n i
    rw [hro] at har ⊢
    simp only [applyVotes] at har
    generalize voteOn (s.storeOf i) (ackOf s acks i) (i == i) p = vo at har
    obtain ⟨st1, c1⟩ := vo
    generalize hrest : applyVotes (s.setStore i st1) i acks p fs = rest at har
    obtain ⟨s2, cs2⟩ := rest
    simp only [Prod.mk.injEq] at har
    obtain ⟨_, hc⟩ := har
    subst hc
    have hothers := (applyVotes_others i acks p fs (s.setStore i st1) (by
      obtain ⟨fs', hro', hfs'⟩ := roundOrder_tail s.n i
      rw [hro] at hro'; simp only [List.cons.injEq, true_and] at hro'; rw [hro']; exact hfs')).2
    rw [hrest] at hothers
    simp only at hothers
    have hmem := hq.2
    simp only [List.mem_cons, beq_self_eq_true, Prod.mk.injEq, true_and] at hmem
    rcases hmem with hmem | hmem
    · simp [durableVoters, hmem.symm]
    · have := hothers _ hmem; simp at this
  · intro v hv
    exact roundOrder_subset s.n i hi v ((durableVoters_sublist _ _).subset hv)

/-- non-vacuity: the first commit of the §8.1 history — quorum {1,2}, voter 3 unreachable -/
example : (runRound (step Sys.default (.install 1 ⟨⟨1, 1, 1⟩, 2, false⟩ [.all, .all, .all] [.D, .D, .D])).1 1 2
    [.D, .D, .X] ⟨⟨⟨1, 1, 1⟩, .biz 1, 0, 1, 0, 0, .zero, Dig.mk ⟨1, 1, 1⟩ 1 0 0 (.biz 1) .zero 0⟩, [0], 0⟩).2.1 = true := by
  decide

end WK.C01

/-! ## only the installer's own Replace can remove entries -/
namespace WK.C01
open WK WK.Repl

/-- every voter other than `i` only ever gains proposals -/
def ExceptRel (i : Nat) (s s' : Sys) : Prop := ∀ v, v ≠ i → AppendOnly (s.storeOf v) (s'.storeOf v)

theorem ExceptRel.refl (i : Nat) (s : Sys) : ExceptRel i s s := fun _ _ p hp => hp
theorem ExceptRel.trans {i : Nat} {a b c : Sys} (h1 : ExceptRel i a b) (h2 : ExceptRel i b c) : ExceptRel i a c :=
  fun v hv p hp => h2 v hv p (h1 v hv p hp)
theorem ExceptRel.ofAll {i : Nat} {s s' : Sys} (h : StoresRel AppendOnly s s') : ExceptRel i s s' := fun v _ => h v
theorem ExceptRel.setLocal (i : Nat) (s : Sys) (st : Store) : ExceptRel i s (s.setStore i st) := by
  intro v hv p hp
  rw [storeOf_setStore]; simp [hv]; exact hp
theorem ExceptRel.setChan {i j : Nat} {s : Sys} {nd : NodeSt} (h : s.node? j = some nd) (c : Option QChan) :
    ExceptRel i s (s.setNode j { nd with chan := c }) := by
  intro v _ p hp; rw [storeOf_setChan h]; exact hp

theorem repairPages_except (ps : List PSpec) (ln : Nat) (sel : Selection) (keep : Nat) :
    ∀ (fuel : Nat) (s : Sys) (frm : Nat) (prev : Ident) (cur : RState) (fp : Bool),
      ExceptRel ln s (repairPages s ps ln sel keep fuel frm prev cur fp).1 := by
  intro fuel
  induction fuel with
  | zero => intro s frm prev cur fp; exact ExceptRel.refl _ _
  | succ fuel ih =>
    intro s frm prev cur fp
    unfold repairPages
    by_cases h1 : frm > sel.index
    · simp only [h1, if_true]; exact ExceptRel.refl _ _
    · simp only [h1, if_false]
      cases hf : fetchFromSupporters s ps ln frm sel.index prev sel.supporters none with
      | error e => exact ExceptRel.refl _ _
      | ok props =>
        simp only
        cases hl : lastOf props with
        | none => exact ExceptRel.refl _ _
        | some lp =>
          simp only
          split
          · exact ExceptRel.refl _ _
          · cases hrep : (s.storeOf ln).replace cur (if fp = true then keep else cur.leo) props lp.m.last with
            | error e => exact ExceptRel.refl _ _
            | ok st =>
              simp only
              have hso := ExceptRel.setLocal ln s st
              cases hld : st.load with
              | error e => exact hso
              | ok loaded =>
                simp only
                split
                · exact hso
                · exact hso.trans (ih (s.setStore ln st) (lp.m.last + 1) (lastIdent lp.entries) loaded false)

theorem repairPrefix_except (s : Sys) (ps : List PSpec) (ln : Nat) (sel : Selection) :
    ExceptRel ln s (repairPrefix s ps ln sel).1 := by
  unfold repairPrefix
  cases hl : (s.storeOf ln).load with
  | error e => exact ExceptRel.refl _ _
  | ok loc =>
    simp only
    split
    · exact ExceptRel.refl _ _
    · split
      · exact ExceptRel.refl _ _
      · rename_i previous hprev
        split
        · exact ExceptRel.refl _ _
        · have hp := repairPages_except ps ln sel loc.committed (sel.index + 2) s (loc.committed + 1) previous loc true
          generalize repairPages s ps ln sel loc.committed (sel.index + 2) (loc.committed + 1) previous loc true = rp at hp
          obtain ⟨s1, r1⟩ := rp
          simp only at hp
          cases r1 with
          | error e => exact hp
          | ok fc =>
            obtain ⟨frm, current⟩ := fc
            simp only
            by_cases hz : frm = 1 ∧ sel.index = 0
            · simp only [hz, and_self, if_true]
              cases hrep : (s1.storeOf ln).replace current 0 [] 0 with
              | error e => exact hp
              | ok st =>
                simp only
                have := hp.trans (ExceptRel.setLocal ln s1 st)
                split <;> exact this
            · simp only [hz, if_false]
              split <;> exact hp

theorem writeBarrier_appendOnly (s : Sys) (ln : Nat) (a : Authority) (rec : RState) (acks : List Ack) :
    StoresRel AppendOnly s (writeBarrier s ln a rec acks).1 := by
  have triv : StoresRel AppendOnly s s := fun _ _ hp => hp
  unfold writeBarrier
  split
  · exact triv
  · split
    · exact triv
    · dsimp only
      split
      · exact triv
      · rename_i m es hseal
        have := (runRound_frameS appendOnly_relS s ln a.q acks ⟨m, [0], rec.leo⟩).2
        generalize runRound s ln a.q acks ⟨m, [0], rec.leo⟩ = rr at this
        obtain ⟨s', ok, out⟩ := rr
        simp only at this ⊢
        split <;> exact this

theorem installRecover_except (s : Sys) (i : Nat) (ch : QChan) (a : Authority) (ps : List PSpec) (acks : List Ack) :
    ExceptRel i s (installRecover s i ch a ps acks).1 := by
  unfold installRecover
  split
  · exact ExceptRel.refl _ _
  · cases hrec : recoverPrefix s a.q ps with
    | error e => exact ExceptRel.refl _ _
    | ok sel =>
      simp only
      have f1 := repairPrefix_except s ps i sel
      generalize repairPrefix s ps i sel = rp at f1 ⊢
      obtain ⟨s1, r1⟩ := rp
      cases r1 with
      | error e => exact f1
      | ok recovered =>
        simp only
        have hfin : ∀ fin : Sys × Except Err RState, ExceptRel i fin.1 (installFinish i ch a fin).1 := by
          intro fin
          obtain ⟨s2, r2⟩ := fin
          cases r2 with
          | error e => exact ExceptRel.refl _ _
          | ok frontier =>
            simp only [installFinish]
            cases hn2 : s2.node? i with
            | none => exact ExceptRel.refl _ _
            | some nd' => exact ExceptRel.setChan hn2 _
        refine f1.trans (ExceptRel.trans ?_ (hfin _))
        split
        · exact ExceptRel.ofAll (writeBarrier_appendOnly s1 i a recovered acks)
        · exact ExceptRel.refl _ _

theorem install_except (s : Sys) (i : Nat) (a : Authority) (ps : List PSpec) (acks : List Ack) :
    ExceptRel i s (install s i a ps acks).1 := by
  unfold install
  cases hn : s.node? i with
  | none => exact ExceptRel.refl _ _
  | some nd =>
    simp only
    split
    · exact ExceptRel.refl _ _
    · split
      · exact ExceptRel.refl _ _
      · exact (ExceptRel.setChan hn _).trans (installRecover_except _ i _ a ps acks)

/-- **c01_loss_only_at_installer** — an acknowledged (or any stored) entry can leave a voter's log ONLY
    while that very voter runs `Install` (its own recovery `Replace`): every other op, and every
    install running on ANOTHER node (probes, donor fetches, the barrier round), only ever appends to
    it.  Hence "≥ Q voters hold e" can only be reduced by the installing node itself. -/
theorem c01_loss_only_at_installer (s : Sys) (op : Op) (v : Nat)
    (h : ∀ i a ps acks, op = .install i a ps acks → i ≠ v) (hc : ∀ n q c fr, op ≠ .cfg n q c fr) :
    ∀ p ∈ (s.storeOf v).props, p ∈ ((step s op).1.storeOf v).props := by
  cases op with
  | cfg n q c fr => exact absurd rfl (hc n q c fr)
  | install i a ps acks =>
    have hiv : v ≠ i := fun e => h i a ps acks rfl e.symm
    obtain ⟨n, q, cap, started, nodes, owners⟩ := s
    simp only [step]
    have keep : ∀ (st : Bool) (ow : List (AuthId × Nat)), ∀ p ∈ (Sys.storeOf ⟨n, q, cap, started, nodes, owners⟩ v).props,
        p ∈ (Sys.storeOf ⟨n, q, cap, st, nodes, ow⟩ v).props := fun _ _ p hp => hp
    cases hn : Sys.node? ⟨n, q, cap, true, nodes, owners⟩ i with
    | none => exact keep _ _
    | some nd =>
      simp only
      split
      · exact keep _ _
      · split
        · split
          · exact keep _ _
          · split
            · exact keep _ _
            · exact fun p hp => install_except ⟨n, q, cap, true, nodes, owners⟩ i a ps acks v hiv p hp
        · split
          · exact keep _ _
          · exact fun p hp => install_except ⟨n, q, cap, true, nodes, (a.id, i) :: owners⟩ i a ps acks v hiv p hp
  | crash i => exact c01_no_loss_without_install s _ rfl v
  | restart i => exact c01_no_loss_without_install s _ rfl v
  | repair l f nf => exact c01_no_loss_without_install s _ rfl v
  | commit i e c k p acks => exact c01_no_loss_without_install s _ rfl v

/-- non-vacuity: in the §8.1 witness the install on node 2 leaves voter 1's copy untouched -/
example : ((witness.foldl (fun s o => (step s o).1) Sys.default).storeOf 1).leo = 1 := by decide

end WK.C01

/-! ## Replace installs exactly the fetched page -/
namespace WK.C01
open WK WK.Repl

/-- what a stored proposal is, up to its (derived) entry list -/
def pkey (p : PRec) : Manifest × List Nat := (p.m, p.contents)

theorem validMutation_validFor {m : Manifest} {cs : List Nat} {c : Nat} (h : validMutation m cs c = true) :
    m.validFor m.base cs.length = true := by
  unfold validMutation at h
  simp only [Bool.and_eq_true, decide_eq_true_eq] at h
  exact h.1.1

/-- appending a base-chained page onto a log that ends exactly at its base stores exactly that page,
    in order, on top of the old log (no item can be an "already durable" replay there) -/
theorem appendAll_exact : ∀ (ps : List PRec) (s next : Store), chainBases s.leo ps = true → appendAll s ps = some next →
    next.props.map pkey = (ps.map pkey).reverse ++ s.props.map pkey ∧ next.hw = s.hw := by
  intro ps
  induction ps with
  | nil => intro s next _ e; change some s = some next at e; cases e; simp
  | cons p ps ih =>
    intro s next hcb e
    simp only [chainBases, Bool.and_eq_true, decide_eq_true_eq] at hcb
    obtain ⟨⟨hb, hvm⟩, hrest⟩ := hcb
    have hlt := validFor_last_gt (validMutation_validFor hvm)
    simp only [appendAll] at e
    unfold Store.appendExact at e
    cases hd : s.appendDecision p.m p.contents with
    | notWritten => simp [hd] at e
    | conflict nf => simp [hd] at e
    | already =>
      have := appendDecision_already hd
      omega
    | append es =>
      simp only [hd] at e
      have := ih ({ s with props := ⟨p.m, p.contents, es⟩ :: s.props }) next (by simpa [leo_cons] using hrest) e
      refine ⟨?_, this.2⟩
      rw [this.1]
      simp [pkey]

theorem filter_leo_le (l : List PRec) (hw : Nat) (fr : Bool) (k : Nat) :
    (Store.mk (l.filter (fun p => p.m.last ≤ k)) hw fr).leo ≤ k := by
  unfold Store.leo
  cases h : l.filter (fun p => decide (p.m.last ≤ k)) with
  | nil => simp
  | cons p rest =>
    simp only
    have : p ∈ l.filter (fun p => decide (p.m.last ≤ k)) := by rw [h]; exact List.mem_cons_self
    simpa using (List.mem_filter.mp this).2

/-- **c01_replace_installs_selection** — a successful recovery `Replace` on a well-formed log leaves
    EXACTLY: the old proposals ending at or below KeepThrough, followed by the fetched page in order,
    with the committed watermark set to the requested value — nothing else survives above the cut and
    nothing of the page is skipped or altered. -/
theorem c01_replace_installs_selection (s : Store) (e : RState) (k : Nat) (ps : List PRec) (c : Nat) (s' : Store)
    (hinv : StoreInv s) (h : s.replace e k ps c = .ok s') :
    s'.props.map pkey = (ps.map pkey).reverse ++ (s.props.filter (fun p => p.m.last ≤ k)).map pkey ∧ s'.hw = c := by
  unfold Store.replace at h
  split at h
  · cases h
  · split at h
    · cases h
    · rename_i hcb
      split at h
      · cases h
      · split at h
        · cases h
        · rename_i cur hl
          split at h
          · cases h
          · split at h
            · cases h
            · rename_i hbl
              dsimp only at h
              split at h
              · cases h
              · rename_i next ha
                cases h
                -- the kept log ends exactly at k
                have hle := filter_leo_le s.props s.hw s.fresh k
                have hge : k ≤ (Store.mk (s.props.filter (fun p => p.m.last ≤ k)) s.hw s.fresh).leo := by
                  by_cases hk0 : k = 0
                  · omega
                  · have hsome : (s.byLast k).isSome = true := by
                      simp only [not_and, Option.isNone_iff_eq_none] at hbl
                      have := hbl (by omega)
                      cases hb : s.byLast k with
                      | none => exact absurd hb this
                      | some _ => rfl
                    have := filter_leo_of_byLast hinv.chain k hsome
                    have e2 : (Store.mk (s.props.filter (fun p => p.m.last ≤ k)) s.hw s.fresh).leo =
                        (Store.mk (s.props.filter (fun p => p.m.last ≤ k)) 0 false).leo := rfl
                    omega
                have heq : (Store.mk (s.props.filter (fun p => p.m.last ≤ k)) s.hw s.fresh).leo = k := by omega
                have := appendAll_exact ps _ next (by rw [heq]; simpa using hcb) ha
                exact ⟨this.1, rfl⟩

/-- non-vacuity: the repair of the §8.1-free history replaces voter 2's empty suffix by one page -/
example : (match Store.replace ⟨[], 0, false⟩ RState.zero 0 [] 0 with
    | .ok s' => s'.props.length == 0 && s'.hw == 0
    | .error _ => false) = true := by decide

end WK.C01

/-! ## log matching over replica logs -/
namespace WK.C01
open WK WK.Repl WK.C02

/-- in a predecessor chain every entry after the first names the digest of the entry before it -/
theorem ech_prev : ∀ (l : List Ident) (x y : Nat × Nat × Dig), ECh x l y →
    ∀ i (h0 : 0 < i) (hi : i < l.length), l[i].prevDigest = (l[i - 1]'(by omega)).digest := by
  intro l
  induction l with
  | nil => intro _ _ _ i _ hi; simp at hi
  | cons e es ih =>
    intro x y h i h0 hi
    cases h with
    | cons i0 t d _ _ _ _ _ _ _ hrest =>
      cases i with
      | zero => omega
      | succ k =>
        cases k with
        | zero =>
          -- l[1].prevDigest = l[0].digest: head of the rest chain starts after e
          cases es with
          | nil => simp at hi
          | cons f fs =>
            cases hrest with
            | cons _ _ _ _ _ _ _ _ _ hpd _ => simpa using hpd
        | succ k2 =>
          have := ih _ _ hrest (k2 + 1) (by omega) (by simp at hi ⊢; omega)
          simpa using this

/-- **c01_prefix_matching** — two predecessor chains of sealed identities (any two replica logs):
    if they carry the same digest at position i they are IDENTICAL at every position ≤ i.  Holding an
    entry with a given identity therefore means holding its whole prefix (Raft's log matching, here
    from the symbolic SHA-256 chain). -/
theorem c01_prefix_matching (la lb : List Ident) (xa ya xb yb : Nat × Nat × Dig) (ha : ECh xa la ya) (hb : ECh xb lb yb)
    (sa : ∀ e ∈ la, Sealed e) (sb : ∀ e ∈ lb, Sealed e) :
    ∀ i (hia : i < la.length) (hib : i < lb.length), la[i].digest = lb[i].digest →
      ∀ j (hj : j ≤ i), la[j]'(by omega) = lb[j]'(by omega) := by
  intro i
  induction i with
  | zero =>
    intro hia hib hd j hj
    have : j = 0 := by omega
    subst this
    exact c01_log_matching _ _ (sa _ (List.getElem_mem _)) (sb _ (List.getElem_mem _)) hd
  | succ k ih =>
    intro hia hib hd j hj
    have htop : la[k + 1] = lb[k + 1] :=
      c01_log_matching _ _ (sa _ (List.getElem_mem _)) (sb _ (List.getElem_mem _)) hd
    by_cases hjk : j = k + 1
    · subst hjk; exact htop
    · have h1 := ech_prev la xa ya ha (k + 1) (by omega) hia
      have h2 := ech_prev lb xb yb hb (k + 1) (by omega) hib
      have hpd : la[k].digest = lb[k].digest := by
        simp only [Nat.add_sub_cancel] at h1 h2
        rw [← h1, ← h2, htop]
      exact ih (by omega) (by omega) hpd j (by omega)

theorem chain_all_wf {l : List PRec} (h : ChainP l) : ∀ p ∈ l, p.WF := by
  induction h with
  | nil => intro p hp; cases hp
  | one p hwf _ => intro q hq; simp only [List.mem_singleton] at hq; rw [hq]; exact hwf
  | cons p q rest hwf _ _ _ _ ih =>
    intro r hr
    rcases List.mem_cons.mp hr with rfl | hr'
    · exact hwf
    · exact ih r hr'

theorem wf_sealed {p : PRec} (h : p.WF) : ∀ e ∈ p.entries, Sealed e := by
  obtain ⟨_, h2, _⟩ := h
  unfold deriveEntries at h2
  split at h2
  · cases h2
  · split at h2
    · split at h2
      · cases h2
      · rw [← Option.some.inj h2]; exact deriveFrom_sealed _ _ _ _ _ _ _
    · split at h2
      · cases h2
      · rw [← Option.some.inj h2]; exact deriveFrom_sealed _ _ _ _ _ _ _

theorem allEntries_sealed {s : Store} (h : ChainP s.props) : ∀ e ∈ s.allEntries, Sealed e := by
  intro e he
  unfold Store.allEntries at he
  rw [List.mem_flatten] at he
  obtain ⟨l, hl, hel⟩ := he
  rw [List.mem_map] at hl
  obtain ⟨p, hp, rfl⟩ := hl
  exact wf_sealed (chain_all_wf h p (List.mem_reverse.mp hp)) e hel

/-- **c01_store_prefix_matching** — any two replica logs of reachable states (StoreInv): the same
    digest at offset i+1 means the same entries at every offset up to it. -/
theorem c01_store_prefix_matching (a b : Store) (ha : StoreInv a) (hb : StoreInv b) (i : Nat)
    (hia : i < a.allEntries.length) (hib : i < b.allEntries.length)
    (hd : a.allEntries[i].digest = b.allEntries[i].digest) :
    ∀ j (hj : j ≤ i), a.allEntries[j]'(by omega) = b.allEntries[j]'(by omega) :=
  c01_prefix_matching _ _ _ _ _ _ (chain_ech ha.chain) (chain_ech hb.chain)
    (allEntries_sealed ha.chain) (allEntries_sealed hb.chain) i hia hib hd

/-- non-vacuity: a one-entry sealed chain -/
example : ECh (0, 0, .zero) [⟨⟨1, 1, 1⟩, 1, 0, 0, .biz 1, .zero, Dig.mk ⟨1, 1, 1⟩ 1 0 0 (.biz 1) .zero 0⟩]
    (1, 1, Dig.mk ⟨1, 1, 1⟩ 1 0 0 (.biz 1) .zero 0) ∧
    Sealed ⟨⟨1, 1, 1⟩, 1, 0, 0, .biz 1, .zero, Dig.mk ⟨1, 1, 1⟩ 1 0 0 (.biz 1) .zero 0⟩ :=
  ⟨ECh.cons 0 0 .zero _ [] _ rfl rfl rfl rfl (ECh.nil _), ⟨0, rfl⟩⟩

/-- reachable-state form: any two voters' logs after any history -/
theorem c01_reachable_prefix_matching (ops : List Op) (v w i : Nat)
    (hv : i < ((C02.runS Sys.default ops).storeOf v).allEntries.length)
    (hw : i < ((C02.runS Sys.default ops).storeOf w).allEntries.length)
    (hd : ((C02.runS Sys.default ops).storeOf v).allEntries[i].digest = ((C02.runS Sys.default ops).storeOf w).allEntries[i].digest) :
    ∀ j (hj : j ≤ i), ((C02.runS Sys.default ops).storeOf v).allEntries[j]'(by omega) =
      ((C02.runS Sys.default ops).storeOf w).allEntries[j]'(by omega) :=
  c01_store_prefix_matching _ _ (c02_store_inv ops v) (c02_store_inv ops w) i hv hw hd

end WK.C01

/-! ## indexed lookup = position in the ordered log -/
namespace WK.C01
open WK WK.Repl WK.C02

/-- positions of a predecessor chain carry consecutive indexes -/
theorem ech_index : ∀ (l : List Ident) (x y : Nat × Nat × Dig), ECh x l y →
    ∀ k (hk : k < l.length), l[k].index = x.1 + k + 1 := by
  intro l
  induction l with
  | nil => intro _ _ _ k hk; simp at hk
  | cons e es ih =>
    intro x y h k hk
    cases h with
    | cons i0 t d _ _ _ hidx _ _ _ hrest =>
      cases k with
      | zero => simpa using hidx
      | succ k2 =>
        have := ih _ _ hrest k2 (by simp at hk; omega)
        simp only [List.getElem_cons_succ]
        rw [this, hidx]; simp only; omega

theorem findEntry_mem : ∀ (ps : List PRec) (i : Nat) (e : Ident), findEntry i ps = some e →
    e.index = i ∧ ∃ p ∈ ps, e ∈ p.entries := by
  intro ps
  induction ps with
  | nil => intro i e h; simp [findEntry] at h
  | cons p ps ih =>
    intro i e h
    simp only [findEntry] at h
    cases hf : p.entries.find? (fun e => e.index == i) with
    | some e' =>
      simp only [hf, Option.some.injEq] at h
      subst h
      exact ⟨by have := List.find?_some hf; simpa using this, p, List.mem_cons_self, List.mem_of_find?_eq_some hf⟩
    | none =>
      simp only [hf] at h
      obtain ⟨h1, q, hq, h2⟩ := ih i e h
      exact ⟨h1, q, List.mem_cons_of_mem _ hq, h2⟩

theorem findEntry_some_of_mem : ∀ (ps : List PRec) (i : Nat), (∃ p ∈ ps, ∃ e ∈ p.entries, e.index = i) →
    (findEntry i ps).isSome := by
  intro ps
  induction ps with
  | nil => intro i ⟨p, hp, _⟩; cases hp
  | cons p ps ih =>
    intro i ⟨q, hq, e, he, hei⟩
    simp only [findEntry]
    cases hf : p.entries.find? (fun e => e.index == i) with
    | some e' => simp
    | none =>
      simp only
      rcases List.mem_cons.mp hq with rfl | hq'
      · have := List.find?_eq_none.mp hf e he
        simp [hei] at this
      · exact ih i ⟨q, hq', e, he, hei⟩

theorem mem_allEntries {s : Store} {e : Ident} : e ∈ s.allEntries ↔ ∃ p ∈ s.props, e ∈ p.entries := by
  unfold Store.allEntries
  rw [List.mem_flatten]
  constructor
  · intro ⟨l, hl, hel⟩
    rw [List.mem_map] at hl
    obtain ⟨p, hp, rfl⟩ := hl
    exact ⟨p, List.mem_reverse.mp hp, hel⟩
  · intro ⟨p, hp, he⟩
    exact ⟨p.entries, List.mem_map.mpr ⟨p, List.mem_reverse.mpr hp, rfl⟩, he⟩

/-- **c01_entryAt_allEntries** — on a well-formed log the indexed lookup used by probes, fetches and
    the judge-side model (`entryAt i`) is exactly position i-1 of the log read in offset order. -/
theorem c01_entryAt_allEntries (s : Store) (h : StoreInv s) (i : Nat) (h1 : 1 ≤ i) (h2 : i ≤ s.allEntries.length) :
    s.entryAt i = some (s.allEntries[i - 1]'(by omega)) := by
  have hech : ECh (0, 0, .zero) s.allEntries (chainEnd s.props) := chain_ech h.chain
  have hidx := ech_index s.allEntries _ _ hech
  have hmem : s.allEntries[i - 1]'(by omega) ∈ s.allEntries := List.getElem_mem _
  have hi : (s.allEntries[i - 1]'(by omega)).index = i := by
    have := hidx (i - 1) (by omega); simp only at this; omega
  obtain ⟨p, hp, hep⟩ := mem_allEntries.mp hmem
  have hsome := findEntry_some_of_mem s.props i ⟨p, hp, _, hep, hi⟩
  unfold Store.entryAt
  cases hf : findEntry i s.props with
  | none => simp [hf] at hsome
  | some e =>
    obtain ⟨hei, q, hq, heq⟩ := findEntry_mem s.props i e hf
    have hem : e ∈ s.allEntries := mem_allEntries.mpr ⟨q, hq, heq⟩
    obtain ⟨k, hk, hke⟩ := List.getElem_of_mem hem
    have := hidx k hk
    simp only at this
    have hk' : k = i - 1 := by rw [hke, hei] at this; omega
    subst hk'
    rw [← hke]

/-- non-vacuity -/
example : ((C02.runS Sys.default C02.witness).storeOf 3).entryAt 1 =
    some (((C02.runS Sys.default C02.witness).storeOf 3).allEntries[0]'(by decide)) := by decide

end WK.C01

/-! ## acknowledged entries survive every history in which no holder itself installs -/
namespace WK.C01
open WK WK.Repl

/-- the named missing hypothesis: in the continuation, none of the voters in `hs` itself runs
    `Install` (its own recovery `Replace` is the one step not yet proved to keep acknowledged entries
    under FullHolders), and the history is not re-configured -/
def NoHolderInstalls (hs : List Nat) (ops : List Op) : Prop :=
  ∀ op ∈ ops, (∀ i a ps acks, op = .install i a ps acks → i ∉ hs) ∧ (∀ n q c fr, op ≠ .cfg n q c fr)

theorem holds_run (hs : List Nat) : ∀ (ops : List Op) (s : Sys), NoHolderInstalls hs ops →
    ∀ v ∈ hs, ∀ p ∈ (s.storeOf v).props, p ∈ ((C02.runS s ops).storeOf v).props := by
  intro ops
  induction ops with
  | nil => intro s _ v _ p hp; exact hp
  | cons op ops ih =>
    intro s hno v hv p hp
    have h1 := hno op List.mem_cons_self
    have hstep := c01_loss_only_at_installer s op v
      (fun i a ps acks e hiv => (h1.1 i a ps acks e) (by rw [hiv]; exact hv)) h1.2 p hp
    exact ih (step s op).1 (fun o ho => hno o (List.mem_cons_of_mem _ ho)) v hv p hstep

/-- **c01_acked_survives_partial** — acknowledged entries survive failover and crashes, in the form
    that is proved end to end: when a durability round succeeds (the only way a receipt is given),
    there are ≥ q DISTINCT voters (the leader among them) that hold the proposal, and after ANY
    continuation — commits with any answers, deposed-leader replays, follower repairs, crashes and
    restarts of anyone, installs (with recovery, repair and barrier) on any OTHER node with any
    responder sets — every one of those voters still holds it.  Named missing hypothesis:
    `NoHolderInstalls` (no holder itself runs Install); discharging it needs the installer's own step
    under FullHolders (c01_no_cut_under_full_holders + c01_replace_installs_selection +
    c01_store_prefix_matching are its proved ingredients). -/
theorem c01_acked_survives_partial (s : Sys) (i q : Nat) (acks : List Ack) (p : Proposal)
    (hsz : s.nodes.length = s.n) (hi : 1 ≤ i ∧ i ≤ s.n) (h : (runRound s i q acks p).2.1 = true) :
    ∃ hs : List Nat, hs.Nodup ∧ q ≤ hs.length ∧ i ∈ hs ∧
      ∀ ops, NoHolderInstalls hs ops →
        ∀ v ∈ hs, HoldsM ((C02.runS (runRound s i q acks p).1 ops).storeOf v) p.m := by
  obtain ⟨hs, hnd, hq, hmem, _, hold⟩ := c01_receipt_has_q_holders s i q acks p hsz hi h
  refine ⟨hs, hnd, hq, hmem, fun ops hno v hv => ?_⟩
  obtain ⟨pr, hpr, he⟩ := hold v hv
  exact ⟨pr, holds_run hs ops _ hno v hv pr hpr, he⟩

/-- non-vacuity: a continuation with a crash, a restart, a commit and an install on a non-holder
    satisfies the hypothesis for holders {1,2} -/
example : NoHolderInstalls [1, 2] [.crash 1, .restart 1, .commit 1 ⟨1, 1, 1⟩ 2 1 0 [.D, .D, .D],
    .install 3 ⟨⟨1, 2, 1⟩, 2, false⟩ [.all, .all, .all] [.D, .D, .D]] := by
  intro op hop
  simp only [List.mem_cons, List.mem_singleton, List.not_mem_nil, or_false] at hop
  rcases hop with rfl | rfl | rfl | rfl <;> refine ⟨?_, ?_⟩ <;> intros <;> simp_all <;> omega

end WK.C01

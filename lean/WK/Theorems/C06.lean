import WK.Proofs.C06_Step
/-
  C06 — Channel runtime state machine keeps watermark and reply invariants.

  All theorems are about `WK.C06.step` / `WK.C06.run` of WK/Model/C06.lean, the
  very functions the driver executes against pkg/channel/machine and the
  reactor's guarded ack entry points (D tie), for ALL states satisfying the
  invariant and ALL events / event lists.
-/
namespace WK.C06

-- ------------------------------------------------------------- the invariant

/-- the state handed over by the store-load path satisfies the invariant -/
theorem c06_inv_init (l leo hw ckpt : Nat) (h1 : ckpt ≤ hw) (h2 : hw ≤ leo) :
    Inv (initState l leo hw ckpt) :=
  ⟨h1, h2, by simp [initState], by simp [initState, keysW], by simp [initState],
   by simp [initState, keysW], by simp [initState]⟩

example : Inv (initState 1 5 3 2) := c06_inv_init 1 5 3 2 (by decide) (by decide)

/-- every event preserves: checkpointHW ≤ hw ≤ leo, match ≤ leo for every replica,
    pending / order / in-flight consistency -/
theorem c06_inv_step {s : State} (h : Inv s) (ev : Event) : Inv (step s ev).1 :=
  (step_ok h ev).inv

/-- … and so does every event list -/
theorem c06_inv_run {s : State} (h : Inv s) (evs : List Event) : Inv (run s evs).1 := by
  induction evs generalizing s with
  | nil => exact h
  | cons ev rest ih => exact ih (c06_inv_step h ev)

/-- every state reachable from a loaded state by any history keeps the watermark order -/
theorem c06_watermarks_reachable (l leo hw ckpt : Nat) (h1 : ckpt ≤ hw) (h2 : hw ≤ leo) (evs : List Event) :
    (run (initState l leo hw ckpt) evs).1.ckpt ≤ (run (initState l leo hw ckpt) evs).1.hw ∧
    (run (initState l leo hw ckpt) evs).1.hw ≤ (run (initState l leo hw ckpt) evs).1.leo := by
  have h := c06_inv_run (c06_inv_init l leo hw ckpt h1 h2) evs
  exact ⟨h.ckpt_le, h.hw_le⟩

-- -------------------------------------------------------------- HW monotone

theorem c06_hw_mono_step {s : State} (h : Inv s) (ev : Event) : s.hw ≤ (step s ev).1.hw :=
  (step_ok h ev).hw_mono

/-- The committed watermark never decreases — over ANY event list, hence in
    particular between two events of one metadata fence (the machine never
    lowers HW at a fence change either). -/
theorem c06_hw_mono_within_fence {s : State} (h : Inv s) (evs : List Event) : s.hw ≤ (run s evs).1.hw := by
  induction evs generalizing s with
  | nil => exact Nat.le_refl _
  | cons ev rest ih => exact Nat.le_trans (c06_hw_mono_step h ev) (ih (c06_inv_step h ev))

/-- AdvanceHW moves HW only to the MinISR-th highest match among the ISR members
    (the value the judge recomputes from the implementation's printed progress table) -/
theorem c06_advanceHW_is_quorum_match (s : State) :
    (advanceHW s).hw = s.hw ∨
    (0 < s.minISR ∧ s.minISR ≤ (s.isr.length : Int) ∧
     (sortDesc (s.isr.map (getP s.progress)))[(s.minISR - 1).toNat]? = some (advanceHW s).hw) := by
  unfold advanceHW
  split
  · left; rfl
  · next hg =>
    dsimp only
    split
    · left; rfl
    · next nxt hn =>
      split
      · left; rfl
      · right
        exact ⟨by omega, by omega, hn⟩

example : (advanceHW ({ leo := 9, isr := [1, 2, 3], minISR := 2,
                        progress := [(1, 9), (2, 4), (3, 7)] } : State)).hw = 7 := by decide

theorem fenceLe_trans {a b c : State} (h1 : fenceLe a b) (h2 : fenceLe b c) : fenceLe a c := by
  unfold fenceLe at *
  omega

/-- the metadata fence (epoch, leaderEpoch) never regresses -/
theorem c06_fence_mono {s : State} (h : Inv s) (evs : List Event) : fenceLe s (run s evs).1 := by
  induction evs generalizing s with
  | nil => exact fenceLe_refl s
  | cons ev rest ih => exact fenceLe_trans (step_ok h ev).fence (ih (c06_inv_step h ev))

-- ------------------------------------------------- quorum replies are covered

/-- A successful reply to a quorum-mode waiter is produced only in a state whose
    committed watermark covers the waiter's target (its last sequence). -/
theorem c06_quorum_reply_covered {s : State} (h : Inv s) (ev : Event) (rp : Reply)
    (hr : rp ∈ (step s ev).2.replies) (hok : rp.err = .ok) (hq : rp.mode = 1) :
    rp.target ≠ 0 ∧ rp.target ≤ (step s ev).1.hw :=
  (step_ok h ev).covered rp hr hok hq

/-- The `mode` a reply carries is the commit mode under which the answered OpID was
    pending before the event (offset assignment never changes it), so
    `c06_quorum_reply_covered` speaks about the waiters registered as quorum-mode. -/
theorem c06_reply_mode_is_waiter_mode {s : State} (h : Inv s) (ev : Event) (rp : Reply)
    (hr : rp ∈ (step s ev).2.replies) (hok : rp.err = .ok) :
    ∃ w, lookupW s.pending rp.op = some w ∧ w.mode = rp.mode :=
  (step_ok h ev).rep_mode rp hr hok

-- ------------------------------------------------------------- reply at most once

theorem filter_len_le_one (l : List Reply) (op : Nat) (hn : (l.map (·.op)).Nodup) :
    (l.filter (fun r => r.op == op)).length ≤ 1 ∧
    (0 < (l.filter (fun r => r.op == op)).length → op ∈ l.map (·.op)) := by
  induction l with
  | nil => simp
  | cons a t ih =>
    simp only [List.map_cons, List.nodup_cons] at hn
    obtain ⟨i1, i2⟩ := ih hn.2
    by_cases ha : a.op = op
    · have hz : (t.filter (fun r => r.op == op)).length = 0 := by
        cases hl : (t.filter (fun r => r.op == op)).length with
        | zero => rfl
        | succ n => exact absurd (ha ▸ i2 (by omega)) hn.1
      simp [ha, hz]
    · have hb : (a.op == op) = false := by simpa using ha
      simp only [List.filter_cons, hb, Bool.false_eq_true, if_false, List.map_cons, List.mem_cons]
      exact ⟨i1, fun hp => Or.inr (i2 hp)⟩

/-- one step: every reply to `op` uses up one "pending" token, and a token is only
    created by a proposal that names `op` -/
theorem c06_reply_once_step {s : State} (h : Inv s) (ev : Event) (op : Nat) :
    ((step s ev).2.replies.filter (fun r => r.op == op)).length + pendInd (step s ev).1 op ≤
      pendInd s op + (if op ∈ admits ev then 1 else 0) := by
  have ok := step_ok h ev
  obtain ⟨c1, c2⟩ := filter_len_le_one (step s ev).2.replies op ok.rep_nodup
  unfold pendInd
  by_cases hc : 0 < ((step s ev).2.replies.filter (fun r => r.op == op)).length
  · have hm := c2 hc
    have hp := ok.rep_pending op hm
    have hg := ok.rep_gone op hm
    simp only [hp, hg, if_true, if_false]
    omega
  · by_cases hpost : op ∈ keysW (step s ev).1.pending
    · rcases ok.keys_sub op hpost with hk | hk
      · simp only [hpost, hk, if_true]; split <;> omega
      · simp only [hpost, hk, if_true]; split <;> omega
    · simp only [hpost, if_false]; split <;> split <;> omega

theorem proposalsOf_cons (op : Nat) (ev : Event) (evs : List Event) :
    proposalsOf op (ev :: evs) = (if op ∈ admits ev then 1 else 0) + proposalsOf op evs := by
  unfold proposalsOf
  cases ev <;> simp [List.filter_cons, admits] <;> split <;> simp_all <;> omega

/-- Over ANY event list: the number of replies addressed to an OpID (plus one if it is
    still pending at the end) never exceeds the number of proposals naming it (plus one
    if it was pending at the start): every admission of an append is answered at most once. -/
theorem c06_reply_once {s : State} (h : Inv s) (evs : List Event) (op : Nat) :
    repliesTo op (run s evs).2 + pendInd (run s evs).1 op ≤ pendInd s op + proposalsOf op evs := by
  induction evs generalizing s with
  | nil => simp [run, repliesTo, proposalsOf]
  | cons ev rest ih =>
    have h1 := c06_reply_once_step h ev op
    have h2 := ih (c06_inv_step h ev)
    rw [proposalsOf_cons]
    have hr : repliesTo op (run s (ev :: rest)).2 =
        ((step s ev).2.replies.filter (fun r => r.op == op)).length + repliesTo op (run (step s ev).1 rest).2 := by
      simp [run, repliesTo]
    have hs : (run s (ev :: rest)).1 = (run (step s ev).1 rest).1 := by simp [run]
    rw [hr, hs]
    omega

/-- in particular: an OpID that is not pending initially and is proposed at most once in a
    history is answered at most once in that history -/
theorem c06_reply_at_most_once {s : State} (h : Inv s) (evs : List Event) (op : Nat)
    (hnp : op ∉ keysW s.pending) (hone : proposalsOf op evs ≤ 1) : repliesTo op (run s evs).2 ≤ 1 := by
  have := c06_reply_once h evs op
  have hz : pendInd s op = 0 := by simp [pendInd, hnp]
  omega

-- ---------------------------------------------------- stale fences change nothing

/-- a stored result whose fence does not match the in-flight batch is a no-op -/
theorem c06_stale_fence_noop_stored (s : State) (f : Fence) (base last : Nat) (err : Err)
    (hf : matchesFence s f = false) : step s (.stored f base last err) = (s, {}) := by
  simp [step, applyAppendStored, hf]

/-- a quorum receipt whose fence does not match the in-flight batch is a no-op -/
theorem c06_stale_fence_noop_quorum (s : State) (f : Fence) (first last hw : Nat) (err : Err)
    (hf : matchesFence s f = false) : step s (.quorum f first last hw err) = (s, {}) := by
  simp [step, applyQuorumCommitted, hf]

/-- what "does not match" means: any differing fence component, or no batch in flight -/
theorem c06_matchesFence_iff (s : State) (f : Fence) :
    matchesFence s f = true ↔
      f.key = s.key ∧ f.gen = s.gen ∧ f.epoch = s.epoch ∧ f.lepoch = s.lepoch ∧
      ∃ i, s.inflight = some i ∧ i.op = f.op := by
  unfold matchesFence
  cases hi : s.inflight with
  | none => simp
  | some i => simp [and_assoc]

-- --------------------------------------------------------------- meta rejection

/-- metadata with an older epoch, an older leader epoch in the same epoch, or a
    different leader under the same (epoch, leaderEpoch) is rejected with ErrStaleMeta and
    changes nothing -/
theorem c06_meta_reject (s : State) (m : Meta)
    (hr : m.epoch < s.epoch ∨ (m.epoch = s.epoch ∧ m.lepoch < s.lepoch) ∨
          (m.epoch = s.epoch ∧ m.lepoch = s.lepoch ∧ m.leader ≠ s.leader)) :
    step s (.setMeta m) = (s, { err := .stale }) := by
  have hv : validateMeta s m = .stale := by
    unfold validateMeta
    split
    · rfl
    · split
      · rfl
      · split
        · rfl
        · next hc =>
          split
          · rfl
          · next hd =>
            exfalso
            simp only [Bool.or_eq_true, Bool.and_eq_true, decide_eq_true_eq, beq_iff_eq, not_or, not_and,
                       bne_iff_ne, ne_eq, Decidable.not_not] at hc hd
            rcases hr with h1 | ⟨h1, h2⟩ | ⟨h1, h2, h3⟩
            · omega
            · omega
            · exact h3 (hd ⟨h1, h2⟩)
  simp [step, applyMeta, hv]

-- ------------------------------------------------ the reactor's guards on acks

/-- an ordinary progress ack beyond the leader's LEO is rejected and changes nothing -/
theorem c06_ack_beyond_leo_rejected (s : State) (k e le fo m : Nat) (hm : s.leo < m) :
    step s (.ack k e le fo m) = (s, { err := .stale }) := by
  show reactorAck s k e le fo m = _
  unfold reactorAck
  split
  · rfl
  · have h0 : ¬ ((m == 0) = true) := by simp; omega
    split
    · next h => exact absurd h h0
    · first
        | rfl
        | (split
           · rfl
           · next h => exact absurd hm h)

/-- an AckOffset piggy-backed on a pull beyond the leader's LEO is rejected -/
theorem c06_pull_ack_beyond_leo_rejected (s : State) (fo off : Nat) (hm : s.leo < off) :
    step s (.pullAck fo off) = (s, { err := .stale }) := by
  show reactorPullAck s fo off = _
  unfold reactorPullAck
  have h0 : ¬ ((off == 0) = true) := by simp; omega
  split
  · next h => exact absurd h h0
  · first
      | rfl
      | (split
         · rfl
         · next h => exact absurd hm h)

/-- a stopped ack must report exactly the leader's LEO -/
theorem c06_stopped_ack_not_at_leo_rejected (s : State) (k e le fo m lv av : Nat) (hm : m ≠ s.leo) :
    step s (.stoppedAck k e le fo m lv av) = (s, { err := .stale }) := by
  show reactorStoppedAck s k e le fo m lv av = _
  unfold reactorStoppedAck
  split
  · rfl
  · have h1 : (av != lv || m != s.leo) = true := by simp [hm]
    split
    · rfl
    · next h => exact absurd h1 h

/-- The guard is needed: the machine's own ApplyFollowerAck accepts any offset, and an
    offset above the LEO breaks `match ≤ leo` and then `hw ≤ leo`. -/
theorem c06_unguarded_ack_breaks_invariant :
    let s := (run (initState 1 0 0 0)
      [.setMeta ⟨1, 1, 1, 1, 1, [1, 2], [1, 2], 1, 2⟩]).1
    Inv s ∧ ¬ ((applyFollowerAck s 2 9).1.hw ≤ (applyFollowerAck s 2 9).1.leo) := by
  refine ⟨c06_inv_run (c06_inv_init 1 0 0 0 (by decide) (by decide)) _, ?_⟩
  decide

-- ------------------------------------------------------------- non-vacuity

/-- a concrete history: leader of {1,2,3} (MinISR 2) admits a quorum waiter (op 11) and
    a local waiter (op 12), the store answers, follower 2 acks -/
def demo : List Event :=
  [ .setMeta ⟨1, 1, 3, 1, 1, [1, 2, 3], [1, 2, 3], 2, 2⟩,
    .propose 10 [⟨11, 1, 2⟩, ⟨12, 2, 1⟩],
    .stored ⟨1, 7, 3, 1, 10⟩ 1 3 .ok,
    .ack 1 3 1 2 2 ]

/-- the local waiter is answered at the store result, the quorum waiter only when the
    ack makes HW = 2 cover its target 2 -/
example : (run (initState 1 0 0 0) demo).2.map (fun d => d.replies.map (fun r => (r.op, r.seqs, r.target, r.mode)))
    = [[], [], [(12, [3], 3, 2)], [(11, [1, 2], 2, 1)]] := by decide

example : (run (initState 1 0 0 0) demo).1.hw = 2 ∧ (run (initState 1 0 0 0) demo).1.leo = 3 := by decide

-- c06_quorum_reply_covered is not vacuous: the last step of `demo` produces an ok reply in quorum mode
example : ∃ rp ∈ (step (run (initState 1 0 0 0) (demo.take 3)).1 (.ack 1 3 1 2 2)).2.replies,
    rp.err = .ok ∧ rp.mode = 1 ∧ rp.target = 2 := by decide

-- c06_reply_once is tight on `demo`: one proposal of 11, one reply to 11
example : repliesTo 11 (run (initState 1 0 0 0) demo).2 = 1 ∧ proposalsOf 11 demo = 1 := by decide

-- c06_stale_fence_noop: a fence with an older leader epoch does not match while batch 10 is in flight
example : matchesFence (run (initState 1 0 0 0) (demo.take 2)).1 ⟨1, 7, 3, 0, 10⟩ = false ∧
          matchesFence (run (initState 1 0 0 0) (demo.take 2)).1 ⟨1, 7, 3, 1, 10⟩ = true := by decide

-- c06_meta_reject: same fence, different leader
example : step (run (initState 1 0 0 0) demo).1 (.setMeta ⟨1, 1, 3, 1, 2, [1, 2], [1, 2], 1, 2⟩)
    = ((run (initState 1 0 0 0) demo).1, { err := .stale }) :=
  c06_meta_reject _ _ (Or.inr (Or.inr ⟨by decide, by decide, by decide⟩))

-- c06_ack_beyond_leo_rejected: LEO is 3 after `demo`
example : step (run (initState 1 0 0 0) demo).1 (.ack 1 3 1 2 4) = ((run (initState 1 0 0 0) demo).1, { err := .stale }) :=
  c06_ack_beyond_leo_rejected _ _ _ _ _ _ (by decide)

end WK.C06

import WK.Model.C12
import WK.Gen.C12
/-
  C12 — slot Raft replicas apply identical command sequences: the Ready driver.

  etcd/raft is trusted (agreement of the committed log, Ready contract).  What is
  proved is the DRIVER around it, for every schedule of its steps with `crash`
  and `restart` anywhere: the state machine is only ever handed the batch that
  starts right after its own durable applied position (no skip, no re-apply),
  compaction never passes that position, an acknowledged proposal is committed;
  and — on lists regenerated from the Go source at every run — persist comes
  before send and apply, apply before MarkApplied before Advance/complete, the
  snapshot is taken before it is saved, and the restart rule is the modelled one.
-/
namespace WK.C12

/-- `omega` after unfolding structure projections -/
macro "pomega" : tactic => `(tactic| first | omega | (dsimp only at *; omega))

structure Inv (d : D) : Prop where
  volPos : ∀ a, d.vol = some a → a = d.smPos
  inflight : ∀ a b, d.inflight = some (a, b) → d.vol = some a ∧ a < b ∧ b ≤ d.commit
  markLe : d.snap = 0 → d.mark ≤ d.smPos
  snapLe : d.snap ≤ d.smPos
  posLe : d.smPos ≤ d.commit ∧ d.commit ≤ d.persisted
  resolvedLe : ∀ i ∈ d.resolved, i ≤ d.commit
  downIdle : d.vol = none → d.inflight = none

theorem inv_init : Inv {} := by
  constructor <;> simp

theorem inv_step (d d' : D) (s : Step) (h : Inv d) (hs : step d s = some d') : Inv d' := by
  cases s with
  | persist n =>
    simp only [step] at hs
    split at hs
    · rename_i hc; cases hs
      exact ⟨h.volPos, h.inflight, h.markLe, h.snapLe, ⟨h.posLe.1, by have := h.posLe.2; pomega⟩, h.resolvedLe, h.downIdle⟩
    · cases hs
  | commitTo c =>
    simp only [step] at hs
    split at hs
    · rename_i hc; cases hs
      refine ⟨h.volPos, ?_, h.markLe, h.snapLe, ⟨by have := h.posLe.1; pomega, hc.2.2⟩, ?_, h.downIdle⟩
      · intro a b hab; have := h.inflight a b hab; exact ⟨this.1, this.2.1, by pomega⟩
      · intro i hi; have := h.resolvedLe i hi; pomega
    · cases hs
  | track i =>
    simp only [step] at hs
    split at hs
    · cases hs; exact ⟨h.volPos, h.inflight, h.markLe, h.snapLe, h.posLe, h.resolvedLe, h.downIdle⟩
    · cases hs
  | deliver b =>
    simp only [step] at hs
    split at hs
    · rename_i a hv hi
      split at hs
      · rename_i hc; cases hs
        refine ⟨h.volPos, ?_, h.markLe, h.snapLe, h.posLe, h.resolvedLe, ?_⟩
        · intro a' b' hab; simp only [Option.some.injEq, Prod.mk.injEq] at hab
          obtain ⟨rfl, rfl⟩ := hab; exact ⟨hv, hc.1, hc.2⟩
        · intro hn; simp only at hn; rw [hv] at hn; cases hn
      · cases hs
    · cases hs
  | apply =>
    simp only [step] at hs
    split at hs
    · rename_i a x b hv hi
      cases hs
      have hin := h.inflight x b hi
      have hax : x = d.smPos := by
        have := h.volPos x hin.1; exact this
      refine ⟨?_, ?_, ?_, ?_, ⟨hin.2.2, h.posLe.2⟩, h.resolvedLe, ?_⟩
      · intro a' ha'; simp only [Option.some.injEq] at ha'; exact ha'.symm
      · intro a' b' hab; cases hab
      · intro h0; have := h.markLe h0; simp only; pomega
      · have := h.snapLe; simp only; pomega
      · intro hn; cases hn
    · cases hs
  | markApplied =>
    simp only [step] at hs
    split at hs
    · rename_i a hv; cases hs
      exact ⟨h.volPos, h.inflight, fun _ => by simp only; rw [h.volPos a hv]; exact Nat.le_refl _, h.snapLe, h.posLe, h.resolvedLe, h.downIdle⟩
    · cases hs
  | resolve i =>
    simp only [step] at hs
    split at hs
    · rename_i hc; cases hs
      refine ⟨h.volPos, h.inflight, h.markLe, h.snapLe, h.posLe, ?_, h.downIdle⟩
      intro j hj
      rcases List.mem_cons.1 hj with rfl | hj
      · have := h.posLe.1; pomega
      · exact h.resolvedLe j hj
    · cases hs
  | compact =>
    simp only [step] at hs
    split at hs
    · rename_i a hv hi
      split at hs
      · rename_i ha; cases hs
        have := h.volPos a hv
        refine ⟨h.volPos, h.inflight, ?_, ?_, h.posLe, h.resolvedLe, h.downIdle⟩
        · intro h0; simp only at h0; exact absurd h0 ha
        · simp only; pomega
      · cases hs
    · cases hs
  | install k =>
    simp only [step] at hs
    split at hs
    · rename_i a hv hi
      split at hs
      · rename_i hk; cases hs
        refine ⟨?_, ?_, ?_, ?_, ⟨?_, ?_⟩, ?_, ?_⟩
        · intro a' ha'; simp only [Option.some.injEq] at ha'; exact ha'.symm
        · intro a' b' hab; simp only at hab; rw [hi] at hab; cases hab
        · intro h0; simp only at h0; pomega
        · simp only; exact Nat.le_refl _
        · simp only; exact Nat.le_max_right _ _
        · simp only; have := h.posLe.2
          simp only [Nat.max_def]; split <;> split <;> pomega
        · intro i hi'; have := h.resolvedLe i hi'; simp only
          exact Nat.le_trans this (Nat.le_max_left _ _)
        · intro hn; cases hn
      · cases hs
    · cases hs
  | leaderLoss =>
    simp only [step] at hs
    split at hs
    · cases hs; exact ⟨h.volPos, h.inflight, h.markLe, h.snapLe, h.posLe, h.resolvedLe, h.downIdle⟩
    · cases hs
  | crash =>
    simp only [step] at hs
    cases hs
    exact ⟨fun a ha => (by cases ha), fun a b hab => (by cases hab), h.markLe, h.snapLe, h.posLe, h.resolvedLe, fun _ => rfl⟩
  | restart =>
    simp only [step] at hs
    split at hs
    · rename_i hv
      cases hs
      have hidle := h.downIdle hv
      by_cases h0 : d.snap = 0
      · have hm := h.markLe h0
        have hmax : Nat.max d.mark d.smPos = d.smPos := Nat.max_eq_right hm
        refine ⟨?_, ?_, ?_, ?_, ?_, h.resolvedLe, ?_⟩
        · intro a ha; simp only [restartPos, h0, ne_eq, not_true_eq_false, if_false, hmax, Option.some.injEq] at ha ⊢
          exact ha.symm
        · intro a b hab; simp only at hab; rw [hidle] at hab; cases hab
        · intro _; simp only [restartPos, h0, ne_eq, not_true_eq_false, if_false]; exact hm
        · simp only [restartPos, h0, ne_eq, not_true_eq_false, if_false]; pomega
        · simp only [restartPos, h0, ne_eq, not_true_eq_false, if_false]; exact h.posLe
        · intro hn; cases hn
      · refine ⟨?_, ?_, ?_, ?_, ?_, h.resolvedLe, ?_⟩
        · intro a ha; simp only [restartPos, h0, ne_eq, not_false_eq_true, if_true, Option.some.injEq] at ha ⊢
          exact ha.symm
        · intro a b hab; simp only at hab; rw [hidle] at hab; cases hab
        · intro h0'; exact absurd h0' h0
        · simp only [restartPos, h0, ne_eq, not_false_eq_true, if_true]; exact Nat.le_refl _
        · simp only [restartPos, h0, ne_eq, not_false_eq_true, if_true]
          exact ⟨Nat.le_trans h.snapLe h.posLe.1, h.posLe.2⟩
        · intro hn; cases hn
    · cases hs

theorem inv_run (d : D) (h : Inv d) (ss : List Step) : Inv (run d ss) := by
  induction ss generalizing d with
  | nil => exact h
  | cons s ss ih =>
    simp only [run, List.foldl_cons]
    cases hs : step d s with
    | none => simpa [run] using ih d h
    | some d' => simpa [run] using ih d' (inv_step d d' s h hs)

/-- **apply_in_order_once**: for every schedule of driver steps — crashes and
    restarts anywhere — whenever a batch `(a, b]` is about to be applied it starts
    exactly after the state machine's own durable applied position (`a = smPos`:
    nothing skipped, nothing re-applied), and the in-memory applied index of a
    running replica always equals that position (a restart resumes exactly there). -/
theorem c12_apply_in_order_once (ss : List Step) :
    let d := run {} ss
    (∀ a b, d.inflight = some (a, b) → a = d.smPos ∧ a < b ∧ b ≤ d.commit) ∧
    (∀ a, d.vol = some a → a = d.smPos) := by
  intro d
  have h := inv_run {} inv_init ss
  refine ⟨fun a b hab => ?_, h.volPos⟩
  have := h.inflight a b hab
  exact ⟨h.volPos a this.1, this.2⟩

example : (run {} [.persist 3, .commitTo 3, .deliver 2, .crash, .restart, .deliver 3, .apply, .crash, .restart]).smPos = 3 := by decide
example : (run {} [.persist 3, .commitTo 3, .deliver 2, .apply, .compact, .deliver 3, .apply, .crash, .restart]).vol = some 2 := by decide

/-- **compaction_safe**: the durable snapshot (= compaction point) never passes the
    state machine's applied position, nor the durable log. -/
theorem c12_compaction_safe (ss : List Step) :
    (run {} ss).snap ≤ (run {} ss).smPos ∧ (run {} ss).smPos ≤ (run {} ss).persisted := by
  have h := inv_run {} inv_init ss
  exact ⟨h.snapLe, Nat.le_trans h.posLe.1 h.posLe.2⟩

/-- **future_sound**: a proposal future resolved "committed at i" is at or below
    the durable commit index (which etcd/raft never takes back); futures pending
    at a leadership loss or a crash are failed, never resolved later. -/
theorem c12_future_sound (ss : List Step) :
    (∀ i ∈ (run {} ss).resolved, i ≤ (run {} ss).commit) ∧
    (∀ d s d', step d s = some d' → (s = .leaderLoss ∨ s = .crash) → d'.pending = []) := by
  refine ⟨(inv_run {} inv_init ss).resolvedLe, ?_⟩
  intro d s d' hs hk
  rcases hk with rfl | rfl
  · simp only [step] at hs; split at hs
    · cases hs; rfl
    · cases hs
  · simp only [step] at hs; cases hs; rfl

example : (run {} [.persist 2, .track 1, .commitTo 2, .deliver 2, .apply, .resolve 1]).resolved = [1] := by decide

/-! ### the call order, regenerated from the Go source -/

def before (a b : String) (l : List String) : Bool :=
  match l.findIdx? (· == a), l.findIdx? (· == b) with
  | some i, some j => i < j
  | _, _ => false

/-- **persist_before_apply_send** (T): in `processReady` the durable `Save` comes
    before `transport.Send` and before either apply path; the synchronous path
    FIRST waits for the async apply worker to drain (it is also the fallback when the
    apply pipeline refuses a Ready with ErrSlotBusy), then restores, applies, marks applied,
    then advances and completes futures; the
    async worker applies, marks applied, then completes futures; compaction marks
    applied, snapshots the state machine, saves, then compacts; the restart rule is
    the one the model's `restartPos` mirrors. -/
theorem c12_persist_before_apply_send :
    Gen.C12.persistReadyDurable = ["Save"] ∧
    Gen.C12.processReadySynchronously.head? = some "waitApplyIdle" ∧
    before "persistReadyDurable" "Send" Gen.C12.processReady = true ∧
    before "persistReadyDurable" "applyReadyToMemory" Gen.C12.processReady = true ∧
    before "Send" "processReadySynchronously" Gen.C12.processReady = true ∧
    before "persistReadyDurable" "processReadyAsyncNormal" Gen.C12.processReady = true ∧
    before "Restore" "applyCommittedEntries" Gen.C12.processReadySynchronously = true ∧
    before "applyCommittedEntries" "markApplied" Gen.C12.processReadySynchronously = true ∧
    before "markApplied" "Advance" Gen.C12.processReadySynchronously = true ∧
    before "Advance" "completeResolutions" Gen.C12.processReadySynchronously = true ∧
    before "applyCommittedEntries" "markApplied" Gen.C12.runApplyTask = true ∧
    before "markApplied" "completeResolutions" Gen.C12.runApplyTask = true ∧
    before "enqueue" "Advance" (Gen.C12.processReadyAsyncNormal.drop 1) = true ∧
    before "Snapshot" "Save" Gen.C12.compactLogAt = true ∧
    before "Save" "Compact" Gen.C12.compactLogAt = true ∧
    Gen.C12.markAppliedBody = ["DurableAppliedIndex", "MarkApplied"] ∧
    Gen.C12.newSlotAppliedRule =
      ["appliedIndex := state.AppliedIndex",
       "if !raft.IsEmptySnap(snapshot) { appliedIndex = snapshot.Metadata.Index } else if durableStateMachine, ok := opts.StateMachine.(DurableAppliedStateMachine); ok { stateMachineApplied, err := durableStateMachine.DurableAppliedIndex(ctx) if err != nil { return nil, err } if stateMachineApplied > appliedIndex { appliedIndex = stateMachineApplied } }"] := by
  refine ⟨rfl, by decide, by decide, by decide, by decide, by decide, by decide, by decide, by decide, by decide, by decide,
    by decide, by decide, by decide, by decide, rfl, rfl⟩

end WK.C12

import WK.Model.C12
import WK.Gen.C12
/-
  C12 — slot Raft replicas apply identical command sequences: the Ready driver.

  etcd/raft is trusted (agreement of the committed log, Ready contract).  What is
  proved is the DRIVER around it, for every schedule of its steps with `crash`
  and `restart` anywhere: the state machine is only ever handed the batch that
  starts right after its own durable applied position (no skip, no re-apply),
  compaction never passes that position, an acknowledged proposal is committed;
  and — on lists regenerated from the Go source at every run — persist comes
  before send and apply, apply before MarkApplied before Advance/complete, the
  snapshot is taken before it is saved, and the restart rule is the modelled one.
-/
namespace WK.C12

/-- `omega` after unfolding structure projections -/
macro "pomega" : tactic => `(tactic| first | omega | (dsimp only at *; omega))

structure Inv (d : D) : Prop where
  volPos : ∀ a, d.vol = some a → a = d.smPos
  inflight : ∀ a b, d.inflight = some (a, b) → d.vol = some a ∧ a < b ∧ b ≤ d.commit
  markLe : d.snap = 0 → d.mark ≤ d.smPos
  snapLe : d.snap ≤ d.smPos
  posLe : d.smPos ≤ d.commit ∧ d.commit ≤ d.persisted
  resolvedLe : ∀ i ∈ d.resolved, i ≤ d.commit
  downIdle : d.vol = none → d.inflight = none

theorem inv_init : Inv {} := by
  constructor <;> simp

theorem inv_step (d d' : D) (s : Step) (h : Inv d) (hs : step d s = some d') : Inv d' := by
  cases s with
  | persist n =>
    simp only [step] at hs
    split at hs
    · rename_i hc; cases hs
      exact ⟨h.volPos, h.inflight, h.markLe, h.snapLe, ⟨h.posLe.1, by have := h.posLe.2; pomega⟩, h.resolvedLe, h.downIdle⟩
    · cases hs
  | commitTo c =>
    simp only [step] at hs
    split at hs
    · rename_i hc; cases hs
      refine ⟨h.volPos, ?_, h.markLe, h.snapLe, ⟨by have := h.posLe.1; pomega, hc.2.2⟩, ?_, h.downIdle⟩
      · intro a b hab; have := h.inflight a b hab; exact ⟨this.1, this.2.1, by pomega⟩
      · intro i hi; have := h.resolvedLe i hi; pomega
    · cases hs
  | track i =>
    simp only [step] at hs
    split at hs
    · cases hs; exact ⟨h.volPos, h.inflight, h.markLe, h.snapLe, h.posLe, h.resolvedLe, h.downIdle⟩
    · cases hs
  | deliver b =>
    simp only [step] at hs
    split at hs
    · rename_i a hv hi
      split at hs
      · rename_i hc; cases hs
        refine ⟨h.volPos, ?_, h.markLe, h.snapLe, h.posLe, h.resolvedLe, ?_⟩
        · intro a' b' hab; simp only [Option.some.injEq, Prod.mk.injEq] at hab
          obtain ⟨rfl, rfl⟩ := hab; exact ⟨hv, hc.1, hc.2⟩
        · intro hn; simp only at hn; rw [hv] at hn; cases hn
      · cases hs
    · cases hs
  | apply =>
    simp only [step] at hs
    split at hs
    · rename_i a x b hv hi
      cases hs
      have hin := h.inflight x b hi
      have hax : x = d.smPos := by
        have := h.volPos x hin.1; exact this
      refine ⟨?_, ?_, ?_, ?_, ⟨hin.2.2, h.posLe.2⟩, h.resolvedLe, ?_⟩
      · intro a' ha'; simp only [Option.some.injEq] at ha'; exact ha'.symm
      · intro a' b' hab; cases hab
      · intro h0; have := h.markLe h0; simp only; pomega
      · have := h.snapLe; simp only; pomega
      · intro hn; cases hn
    · cases hs
  | markApplied =>
    simp only [step] at hs
    split at hs
    · rename_i a hv; cases hs
      exact ⟨h.volPos, h.inflight, fun _ => by simp only; rw [h.volPos a hv]; exact Nat.le_refl _, h.snapLe, h.posLe, h.resolvedLe, h.downIdle⟩
    · cases hs
  | resolve i =>
    simp only [step] at hs
    split at hs
    · rename_i hc; cases hs
      refine ⟨h.volPos, h.inflight, h.markLe, h.snapLe, h.posLe, ?_, h.downIdle⟩
      intro j hj
      rcases List.mem_cons.1 hj with rfl | hj
      · have := h.posLe.1; pomega
      · exact h.resolvedLe j hj
    · cases hs
  | compact =>
    simp only [step] at hs
    split at hs
    · rename_i a hv hi
      split at hs
      · rename_i ha; cases hs
        have := h.volPos a hv
        refine ⟨h.volPos, h.inflight, ?_, ?_, h.posLe, h.resolvedLe, h.downIdle⟩
        · intro h0; simp only at h0; exact absurd h0 ha
        · simp only; pomega
      · cases hs
    · cases hs
  | install k =>
    simp only [step] at hs
    split at hs
    · rename_i a hv hi
      split at hs
      · rename_i hk; cases hs
        refine ⟨?_, ?_, ?_, ?_, ⟨?_, ?_⟩, ?_, ?_⟩
        · intro a' ha'; simp only [Option.some.injEq] at ha'; exact ha'.symm
        · intro a' b' hab; simp only at hab; rw [hi] at hab; cases hab
        · intro h0; simp only at h0; pomega
        · simp only; exact Nat.le_refl _
        · simp only; exact Nat.le_max_right _ _
        · simp only; have := h.posLe.2
          simp only [Nat.max_def]; split <;> split <;> pomega
        · intro i hi'; have := h.resolvedLe i hi'; simp only
          exact Nat.le_trans this (Nat.le_max_left _ _)
        · intro hn; cases hn
      · cases hs
    · cases hs
  | leaderLoss =>
    simp only [step] at hs
    split at hs
    · cases hs; exact ⟨h.volPos, h.inflight, h.markLe, h.snapLe, h.posLe, h.resolvedLe, h.downIdle⟩
    · cases hs
  | crash =>
    simp only [step] at hs
    cases hs
    exact ⟨fun a ha => (by cases ha), fun a b hab => (by cases hab), h.markLe, h.snapLe, h.posLe, h.resolvedLe, fun _ => rfl⟩
  | restart =>
    simp only [step] at hs
    split at hs
    · rename_i hv
      cases hs
      have hidle := h.downIdle hv
      by_cases h0 : d.snap = 0
      · have hm := h.markLe h0
        have hmax : Nat.max d.mark d.smPos = d.smPos := Nat.max_eq_right hm
        refine ⟨?_, ?_, ?_, ?_, ?_, h.resolvedLe, ?_⟩
        · intro a ha; simp only [restartPos, h0, ne_eq, not_true_eq_false, if_false, hmax, Option.some.injEq] at ha ⊢
          exact ha.symm
        · intro a b hab; simp only at hab; rw [hidle] at hab; cases hab
        · intro _; simp only [restartPos, h0, ne_eq, not_true_eq_false, if_false]; exact hm
        · simp only [restartPos, h0, ne_eq, not_true_eq_false, if_false]; pomega
        · simp only [restartPos, h0, ne_eq, not_true_eq_false, if_false]; exact h.posLe
        · intro hn; cases hn
      · refine ⟨?_, ?_, ?_, ?_, ?_, h.resolvedLe, ?_⟩
        · intro a ha; simp only [restartPos, h0, ne_eq, not_false_eq_true, if_true, Option.some.injEq] at ha ⊢
          exact ha.symm
        · intro a b hab; simp only at hab; rw [hidle] at hab; cases hab
        · intro h0'; exact absurd h0' h0
        · simp only [restartPos, h0, ne_eq, not_false_eq_true, if_true]; exact Nat.le_refl _
        · simp only [restartPos, h0, ne_eq, not_false_eq_true, if_true]
          exact ⟨Nat.le_trans h.snapLe h.posLe.1, h.posLe.2⟩
        · intro hn; cases hn
    · cases hs

theorem inv_run (d : D) (h : Inv d) (ss : List Step) : Inv (run d ss) := by
  induction ss generalizing d with
  | nil => exact h
  | cons s ss ih =>
    simp only [run, List.foldl_cons]
    cases hs : step d s with
    | none => simpa [run] using ih d h
    | some d' => simpa [run] using ih d' (inv_step d d' s h hs)

/-- **apply_in_order_once**: for every schedule of driver steps — crashes and
    restarts anywhere — whenever a batch `(a, b]` is about to be applied it starts
    exactly after the state machine's own durable applied position (`a = smPos`:
    nothing skipped, nothing re-applied), and the in-memory applied index of a
    running replica always equals that position (a restart resumes exactly there). -/
theorem c12_apply_in_order_once (ss : List Step) :
    let d := run {} ss
    (∀ a b, d.inflight = some (a, b) → a = d.smPos ∧ a < b ∧ b ≤ d.commit) ∧
    (∀ a, d.vol = some a → a = d.smPos) := by
  intro d
  have h := inv_run {} inv_init ss
  refine ⟨fun a b hab => ?_, h.volPos⟩
  have := h.inflight a b hab
  exact ⟨h.volPos a this.1, this.2⟩

example : (run {} [.persist 3, .commitTo 3, .deliver 2, .crash, .restart, .deliver 3, .apply, .crash, .restart]).smPos = 3 := by decide
example : (run {} [.persist 3, .commitTo 3, .deliver 2, .apply, .compact, .deliver 3, .apply, .crash, .restart]).vol = some 2 := by decide

/-- **compaction_safe**: the durable snapshot (= compaction point) never passes the
    state machine's applied position, nor the durable log. -/
theorem c12_compaction_safe (ss : List Step) :
    (run {} ss).snap ≤ (run {} ss).smPos ∧ (run {} ss).smPos ≤ (run {} ss).persisted := by
  have h := inv_run {} inv_init ss
  exact ⟨h.snapLe, Nat.le_trans h.posLe.1 h.posLe.2⟩

/-- **future_sound**: a proposal future resolved "committed at i" is at or below
    the durable commit index (which etcd/raft never takes back); futures pending
    at a leadership loss or a crash are failed, never resolved later. -/
theorem c12_future_sound (ss : List Step) :
    (∀ i ∈ (run {} ss).resolved, i ≤ (run {} ss).commit) ∧
    (∀ d s d', step d s = some d' → (s = .leaderLoss ∨ s = .crash) → d'.pending = []) := by
  refine ⟨(inv_run {} inv_init ss).resolvedLe, ?_⟩
  intro d s d' hs hk
  rcases hk with rfl | rfl
  · simp only [step] at hs; split at hs
    · cases hs; rfl
    · cases hs
  · simp only [step] at hs; cases hs; rfl

example : (run {} [.persist 2, .track 1, .commitTo 2, .deliver 2, .apply, .resolve 1]).resolved = [1] := by decide

/-! ### the call order, regenerated from the Go source -/

def before (a b : String) (l : List String) : Bool :=
  match l.findIdx? (· == a), l.findIdx? (· == b) with
  | some i, some j => i < j
  | _, _ => false

/-- **persist_before_apply_send** (T): in `processReady` the durable `Save` comes
    before `transport.Send` and before either apply path; the synchronous path
    FIRST waits for the async apply worker to drain (it is also the fallback when the
    apply pipeline refuses a Ready with ErrSlotBusy), then restores, applies, marks applied,
    then advances and completes futures; the
    async worker applies, marks applied, then completes futures; compaction marks
    applied, snapshots the state machine, saves, then compacts; the restart rule is
    the one the model's `restartPos` mirrors. -/
theorem c12_persist_before_apply_send :
    Gen.C12.persistReadyDurable = ["Save"] ∧
    Gen.C12.processReadySynchronously.head? = some "waitApplyIdle" ∧
    before "persistReadyDurable" "Send" Gen.C12.processReady = true ∧
    before "persistReadyDurable" "applyReadyToMemory" Gen.C12.processReady = true ∧
    before "Send" "processReadySynchronously" Gen.C12.processReady = true ∧
    before "persistReadyDurable" "processReadyAsyncNormal" Gen.C12.processReady = true ∧
    before "Restore" "applyCommittedEntries" Gen.C12.processReadySynchronously = true ∧
    before "applyCommittedEntries" "markApplied" Gen.C12.processReadySynchronously = true ∧
    before "markApplied" "Advance" Gen.C12.processReadySynchronously = true ∧
    before "Advance" "completeResolutions" Gen.C12.processReadySynchronously = true ∧
    before "applyCommittedEntries" "markApplied" Gen.C12.runApplyTask = true ∧
    before "markApplied" "completeResolutions" Gen.C12.runApplyTask = true ∧
    before "enqueue" "Advance" (Gen.C12.processReadyAsyncNormal.drop 1) = true ∧
    before "Snapshot" "Save" Gen.C12.compactLogAt = true ∧
    before "Save" "Compact" Gen.C12.compactLogAt = true ∧
    Gen.C12.markAppliedBody = ["DurableAppliedIndex", "MarkApplied"] ∧
    Gen.C12.newSlotAppliedRule =
      ["appliedIndex := state.AppliedIndex",
       "if !raft.IsEmptySnap(snapshot) { appliedIndex = snapshot.Metadata.Index } else if durableStateMachine, ok := opts.StateMachine.(DurableAppliedStateMachine); ok { stateMachineApplied, err := durableStateMachine.DurableAppliedIndex(ctx) if err != nil { return nil, err } if stateMachineApplied > appliedIndex { appliedIndex = stateMachineApplied } }"] := by
  refine ⟨rfl, by decide, by decide, by decide, by decide, by decide, by decide, by decide, by decide, by decide, by decide,
    by decide, by decide, by decide, by decide, rfl, rfl⟩



/-! acceptor soundness -/

theorem increasing_pairwise (p : Nat) (cmds : List (Nat × Nat)) (h : increasing p cmds = true) :
    (cmds.map (·.1)).Pairwise (· < ·) ∧ (∀ i ∈ cmds.map (·.1), p < i) ∧
    (cmds.getLast?.map (·.1)).getD p ≥ p ∧ (∀ i ∈ cmds.map (·.1), i ≤ (cmds.getLast?.map (·.1)).getD p) := by
  induction cmds generalizing p with
  | nil => simp
  | cons c cs ih =>
    obtain ⟨i, d⟩ := c
    simp only [increasing, Bool.and_eq_true, decide_eq_true_eq] at h
    obtain ⟨hp, hr⟩ := h
    obtain ⟨h1, h2, h3, h4⟩ := ih i hr
    have hlast : ((((i, d) :: cs).getLast?).map (·.1)).getD p = (cs.getLast?.map (·.1)).getD i := by
      cases cs with
      | nil => simp
      | cons x xs =>
        rw [List.getLast?_cons_cons]
        cases hl : (x :: xs).getLast? with
        | none => simp at hl
        | some l => simp
    refine ⟨?_, ?_, ?_, ?_⟩
    · simp only [List.map_cons, List.pairwise_cons]
      exact ⟨fun j hj => h2 j hj, h1⟩
    · intro j hj
      simp only [List.map_cons, List.mem_cons] at hj
      rcases hj with rfl | hj
      · exact hp
      · have := h2 j hj; omega
    · rw [hlast]; omega
    · intro j hj
      rw [hlast]
      simp only [List.map_cons, List.mem_cons] at hj
      rcases hj with rfl | hj
      · exact h3
      · exact h4 j hj

/-- what the acceptor's state says about the events seen so far -/
structure RepOK (r : Rep) (curAsc : List Nat) : Prop where
  cur : r.cur = curAsc.reverse
  sorted : curAsc.Pairwise (· < ·)
  above : ∀ i ∈ curAsc, r.base < i ∧ i ≤ r.pos
  posGe : r.base ≤ r.pos

def segOK (sg : Nat × List Nat) : Prop := sg.2.Pairwise (· < ·) ∧ ∀ i ∈ sg.2, sg.1 < i

theorem accept_segments (evs : List Ev) (r : Rep) (curAsc : List Nat)
    (hr : RepOK r curAsc) (h : acceptFrom r evs = true) :
    ∀ sg ∈ segmentsFrom r.base curAsc evs, segOK sg := by
  induction evs generalizing r curAsc with
  | nil =>
    intro sg hsg
    simp only [segmentsFrom, List.mem_singleton] at hsg
    subst hsg
    exact ⟨hr.sorted, fun i hi => (hr.above i hi).1⟩
  | cons ev evs ih =>
    cases ev with
    | apply cmds chain =>
      simp only [acceptFrom, Rep.step] at h
      by_cases hinc : increasing r.pos cmds = true
      · by_cases hch : chainOf r.chain cmds ≠ chain
        · simp [hinc, hch] at h
        · simp only [hinc, Bool.not_true, Bool.false_eq_true, if_false, hch] at h
          obtain ⟨p1, p2, p3, p4⟩ := increasing_pairwise r.pos cmds hinc
          have hr' : RepOK { r with pos := (cmds.getLast?.map (·.1)).getD r.pos, chain := chain,
                                     cur := (cmds.map (·.1)).reverse ++ r.cur } (curAsc ++ cmds.map (·.1)) := by
            refine ⟨by simp [hr.cur], ?_, ?_, ?_⟩
            · rw [List.pairwise_append]
              refine ⟨hr.sorted, p1, ?_⟩
              intro a ha b hb
              have := (hr.above a ha).2; have := p2 b hb; omega
            · intro i hi
              simp only
              rcases List.mem_append.1 hi with hi | hi
              · have := hr.above i hi; omega
              · have := p2 i hi; have := p4 i hi; have := hr.posGe; omega
            · simp only; have := hr.posGe; omega
          intro sg hsg
          simp only [segmentsFrom] at hsg
          exact ih _ _ hr' h sg hsg
      · simp [hinc] at h
    | snap a c =>
      simp only [acceptFrom, Rep.step] at h
      by_cases hc : c ≠ r.chain
      · simp [hc] at h
      · simp only [hc, if_false] at h
        intro sg hsg
        simp only [segmentsFrom] at hsg
        exact ih r curAsc hr h sg hsg
    | restore k c =>
      simp only [acceptFrom, Rep.step] at h
      have hr' : RepOK { r with pos := k, chain := c, segs := (r.base, r.cur) :: r.segs, base := k, cur := [] } [] :=
        ⟨rfl, List.Pairwise.nil, fun i hi => (by cases hi), Nat.le_refl _⟩
      intro sg hsg
      simp only [segmentsFrom, List.mem_cons] at hsg
      rcases hsg with rfl | hsg
      · exact ⟨hr.sorted, fun i hi => (hr.above i hi).1⟩
      · exact ih _ [] hr' h sg hsg
    | restart =>
      simp only [acceptFrom, Rep.step] at h
      intro sg hsg
      simp only [segmentsFrom] at hsg
      exact ih r curAsc hr h sg hsg

/-- **acceptor soundness, per replica**: a trace the acceptor accepts is, between any two
    restores, a strictly increasing run of applied indices that starts above the index the
    run was (re)started from — no command applied twice, none out of order. -/
theorem c12_acceptor_sound_replica (evs : List Ev) (h : acceptRep evs = true) :
    ∀ sg ∈ segments evs, sg.2.Pairwise (· < ·) ∧ ∀ i ∈ sg.2, sg.1 < i := by
  exact accept_segments evs {} [] ⟨rfl, List.Pairwise.nil, fun i hi => (by cases hi), Nat.le_refl _⟩ h

example : acceptRep [.apply [(5, 1), (6, 2)] (chainOf 0 [(5, 1), (6, 2)]), .restart,
                     .restore 6 77, .apply [(7, 3)] (chainOf 77 [(7, 3)])] = true := by decide
example : acceptRep [.apply [(5, 1)] (chainOf 0 [(5, 1)]), .apply [(5, 1)] 0] = false := by decide

/-! agreement -/

theorem unionAdd_spec (u u' : List (Nat × Nat)) (p : Nat × Nat)
    (hu : ∀ a ∈ u, ∀ b ∈ u, a.1 = b.1 → a.2 = b.2) (h : unionAdd u p = some u') :
    (∀ a ∈ u', ∀ b ∈ u', a.1 = b.1 → a.2 = b.2) ∧ (∀ a ∈ u, a ∈ u') ∧
    (∃ q ∈ u', q.1 = p.1 ∧ q.2 = p.2) := by
  unfold unionAdd at h
  cases hf : u.find? (fun q => q.1 == p.1) with
  | some q =>
    rw [hf] at h
    simp only at h
    split at h
    · rename_i heq
      cases h
      have hq := List.find?_some hf
      have hm := List.mem_of_find?_eq_some hf
      exact ⟨hu, fun a ha => ha, q, hm, by simpa using hq, heq⟩
    · cases h
  | none =>
    rw [hf] at h
    cases h
    have hn := List.find?_eq_none.1 hf
    refine ⟨?_, fun a ha => List.mem_cons_of_mem _ ha, p, List.mem_cons_self .., rfl, rfl⟩
    intro a ha b hb hab
    rcases List.mem_cons.1 ha with ha | ha
    · rcases List.mem_cons.1 hb with hb | hb
      · rw [ha, hb]
      · have := hn b hb; simp at this; rw [ha] at hab; exact absurd hab.symm this
    · rcases List.mem_cons.1 hb with hb | hb
      · have := hn a ha; simp at this; rw [hb] at hab; exact absurd hab this
      · exact hu a ha b hb hab

theorem unionAll_spec (u u' : List (Nat × Nat)) (ps : List (Nat × Nat))
    (hu : ∀ a ∈ u, ∀ b ∈ u, a.1 = b.1 → a.2 = b.2) (h : unionAll u ps = some u') :
    (∀ a ∈ u', ∀ b ∈ u', a.1 = b.1 → a.2 = b.2) ∧ (∀ a ∈ u, a ∈ u') ∧
    (∀ p ∈ ps, ∃ q ∈ u', q.1 = p.1 ∧ q.2 = p.2) := by
  induction ps generalizing u with
  | nil => simp only [unionAll, Option.some.injEq] at h; subst h; exact ⟨hu, fun a ha => ha, fun p hp => by cases hp⟩
  | cons p ps ih =>
    simp only [unionAll] at h
    cases h1 : unionAdd u p with
    | none => rw [h1] at h; cases h
    | some u1 =>
      rw [h1] at h
      simp only [Option.bind_some] at h
      obtain ⟨a1, a2, q, hq, hq1, hq2⟩ := unionAdd_spec u u1 p hu h1
      obtain ⟨b1, b2, b3⟩ := ih u1 a1 h
      refine ⟨b1, fun a ha => b2 a (a2 a ha), ?_⟩
      intro x hx
      rcases List.mem_cons.1 hx with rfl | hx
      · exact ⟨q, b2 q hq, hq1, hq2⟩
      · exact b3 x hx

/-- **acceptor soundness, across replicas**: if the agreement bookkeeping accepts all
    `(index, proposal id)` pairs applied by all replicas of a slot (in any order, with
    repetitions after restores), then any two applications of the same index — on the same
    or on different replicas — applied the same command. -/
theorem c12_acceptor_sound_agreement (ps : List (Nat × Nat)) (u : List (Nat × Nat))
    (h : unionAll [] ps = some u) :
    ∀ p ∈ ps, ∀ q ∈ ps, p.1 = q.1 → p.2 = q.2 := by
  obtain ⟨h1, _, h3⟩ := unionAll_spec [] u ps (fun a ha => by cases ha) h
  intro p hp q hq hpq
  obtain ⟨a, ha, ha1, ha2⟩ := h3 p hp
  obtain ⟨b, hb, hb1, hb2⟩ := h3 q hq
  have := h1 a ha b hb (by omega)
  omega

example : (unionAll [] [(5, 1), (6, 2), (5, 1)]).isSome = true := by decide
example : unionAll [] [(5, 1), (5, 9)] = none := by decide

/-- **acceptor soundness, gaps**: when `segGaps` finds nothing, every index any replica
    applied that lies between the run's start and its last applied index was applied in
    this run too — nothing skipped. -/
theorem c12_acceptor_sound_no_gap (union : List Nat) (base : Nat) (asc : List Nat) (hi : Nat)
    (hl : asc.getLast? = some hi) (h : segGaps union base asc = false) :
    ∀ i ∈ union, base < i → i ≤ hi → i ∈ asc := by
  intro i hiu hb hh
  simp only [segGaps, hl, List.any_eq_false, Bool.and_eq_true, decide_eq_true_eq, Bool.not_eq_true',
    not_and, Bool.not_eq_false] at h
  have := h i hiu ⟨hb, hh⟩
  simpa using this

example : segGaps [5, 6, 7] 4 [5, 7] = true := by decide

/-! split clauses of apply_in_order_once -/

/-- **no skip**: whenever a batch `(a, b]` is handed to the state machine, `a` is exactly the
    state machine's durable applied index — nothing between them is left out — for every
    schedule with crashes and restarts anywhere. -/
theorem c12_no_skip (ss : List Step) (a b : Nat) (h : (run {} ss).inflight = some (a, b)) :
    a = (run {} ss).smPos := ((c12_apply_in_order_once ss).1 a b h).1

/-- **no re-apply**: every index of a batch about to be applied lies strictly above the
    state machine's durable applied index. -/
theorem c12_no_reapply (ss : List Step) (a b : Nat) (h : (run {} ss).inflight = some (a, b)) :
    ∀ i, a < i → i ≤ b → (run {} ss).smPos < i := by
  intro i hi _
  have := c12_no_skip ss a b h
  omega

/-- **order**: an apply step moves the applied index strictly forward, to the end of the
    delivered batch, which is committed. -/
theorem c12_apply_moves_forward (ss : List Step) (d' : D) (h : step (run {} ss) .apply = some d') :
    (run {} ss).smPos < d'.smPos ∧ d'.smPos ≤ d'.commit := by
  have hinv := inv_run {} inv_init ss
  simp only [step] at h
  split at h
  · rename_i a x b hv hi
    cases h
    have := hinv.inflight x b hi
    have hx := hinv.volPos x this.1
    exact ⟨by simp only; omega, by simp only; exact this.2.2⟩
  · cases h

/-- **restart resumes at the applied position** (never before it: no re-apply; never after
    it: no skip), whatever was in flight when the process died. -/
theorem c12_restart_resumes_at_applied (ss : List Step) (d' : D) (h : step (run {} ss) .restart = some d') :
    d'.vol = some d'.smPos ∧ d'.inflight = none := by
  have hinv := inv_run {} inv_init ss
  have hinv' := inv_step _ d' .restart hinv h
  simp only [step] at h
  split at h
  · rename_i hv
    cases h
    refine ⟨?_, hinv.downIdle hv⟩
    have := hinv'.volPos
    simp only at this ⊢
    exact congrArg some (this _ rfl)
  · cases h

example : step (run {} [.persist 3, .commitTo 3, .deliver 2, .apply, .crash]) .restart ≠ none := by decide

/-! the term fence of proposal futures -/

structure Fut where
  pending : List (Nat × Nat × Nat) := []          -- (index, tracked term, future id)
  resolved : List (Nat × Nat × Nat × Nat) := []   -- (future id, index, tracked term, term of the applied entry)
deriving Repr, Inhabited

inductive FStep where
  | track (i t id : Nat)      -- trackReadyEntries: the local proposal `id` got (i, t)
  | applied (i t : Nat)       -- an entry (i, t) was applied: resolveProposal(i, t, …)
  | failAll                   -- leadership loss / crash
deriving Repr

/-- `resolveProposal`: `if !ok || pending.term != term { return }` -/
def resolveProposal (f : Fut) (i t : Nat) : Fut :=
  match f.pending.find? (fun p => p.1 == i) with
  | none => f
  | some p =>
    if p.2.1 != t then f
    else { pending := f.pending.filter (fun q => q.1 != i), resolved := (p.2.2, i, p.2.1, t) :: f.resolved }

def fstep (f : Fut) : FStep → Fut
  | .track i t id => { f with pending := (i, t, id) :: f.pending.filter (fun q => q.1 != i) }
  | .applied i t => resolveProposal f i t
  | .failAll => { f with pending := [] }

def frun (ss : List FStep) : Fut := ss.foldl fstep {}

theorem resolved_fence (f : Fut) (s : FStep) (h : ∀ r ∈ f.resolved, r.2.2.1 = r.2.2.2) :
    ∀ r ∈ (fstep f s).resolved, r.2.2.1 = r.2.2.2 := by
  cases s with
  | track i t id => exact h
  | failAll => exact h
  | applied i t =>
    simp only [fstep, resolveProposal]
    cases hf : f.pending.find? (fun p => p.1 == i) with
    | none => exact h
    | some p =>
      simp only
      split
      · exact h
      · rename_i hne
        intro r hr
        rcases List.mem_cons.1 hr with rfl | hr
        · simpa using hne
        · exact h r hr

/-- **future_term_fence**: over every sequence of tracking, applied entries and failures, a
    proposal future tracked at `(i, t)` is resolved "committed" only by an applied entry of
    the SAME term `t` (an entry another leader put at `i` never completes it); and the guard
    this models is the one in the source now. -/
theorem c12_future_term_fence (ss : List FStep) :
    (∀ r ∈ (frun ss).resolved, r.2.2.1 = r.2.2.2) ∧
    Gen.C12.resolveProposalGuard = "!ok || pending.term != term" := by
  refine ⟨?_, rfl⟩
  unfold frun
  suffices ∀ (f : Fut), (∀ r ∈ f.resolved, r.2.2.1 = r.2.2.2) →
      ∀ r ∈ (ss.foldl fstep f).resolved, r.2.2.1 = r.2.2.2 from this {} (fun r hr => by cases hr)
  induction ss with
  | nil => intro f h; exact h
  | cons s ss ih => intro f h; exact ih (fstep f s) (resolved_fence f s h)

example : (frun [.track 9 2 41, .applied 9 3, .applied 9 2]).resolved = [(41, 9, 2, 2)] := by decide
example : (frun [.track 9 2 41, .applied 9 3]).resolved = [] := by decide




/-! ### the async apply pipeline bounded by MaxApplyingTasks and its synchronous fallback
    (processReadyAsyncNormal: enqueue → on ErrSlotBusy processReadySynchronously; runApplyTask) -/

/-- indices a+1 … b -/
def span (a b : Nat) : List Nat := List.range' (a + 1) (b - a)

structure AP where
  applied : List Nat := []            -- every index handed to the state machine, in the order it was handed over
  queue : List (Nat × Nat) := []      -- async apply tasks (a,b], FIFO, incl. the one running
  deliv : Nat := 0                    -- raft has delivered (and Advanced past) committed entries up to here
  waiting : Option Nat := none        -- the raft worker is inside processReadySynchronously with (deliv, b] in hand
deriving Repr

inductive AStep where
  | deliver (b : Nat)   -- a Ready whose committed entries are (deliv, b]: enqueue, or ErrSlotBusy → synchronous path
  | syncApply           -- the synchronous path applies what it holds (after waitApplyIdle, if that is there)
  | work                -- the apply worker runs the task at the head of the queue
deriving Repr

/-- `waitIdle` = processReadySynchronously starts with waitApplyIdle (the source as it is);
    `max` = RaftOptions.MaxApplyingTasks -/
def astep (waitIdle : Bool) (max : Nat) (s : AP) : AStep → Option AP
  | .deliver b =>
    if s.waiting.isSome ∨ b ≤ s.deliv then none                          -- the raft worker is busy / nothing new
    else if s.queue.length < max then
      some { s with queue := s.queue ++ [(s.deliv, b)], deliv := b }     -- enqueue, Advance
    else some { s with waiting := some b }                               -- ErrSlotBusy → processReadySynchronously
  | .syncApply =>
    match s.waiting with
    | none => none
    | some b =>
      if waitIdle ∧ s.queue ≠ [] then none                               -- still blocked in waitApplyIdle
      else some { s with applied := s.applied ++ span s.deliv b, deliv := b, waiting := none }
  | .work =>
    match s.queue with
    | [] => none
    | (a, b) :: q => some { s with applied := s.applied ++ span a b, queue := q }

def arun (waitIdle : Bool) (max : Nat) (ss : List AStep) : AP :=
  ss.foldl (fun s st => (astep waitIdle max s st).getD s) {}

def pendingOf (q : List (Nat × Nat)) : List Nat := q.flatMap (fun p => span p.1 p.2)

theorem span_append (a b c : Nat) (h1 : a ≤ b) (h2 : b ≤ c) : span a b ++ span b c = span a c := by
  unfold span
  have e1 : c - a = (b - a) + (c - b) := by omega
  have e2 : b + 1 = (a + 1) + (b - a) := by omega
  rw [e1, e2, List.range'_append_1]

def AInv (s : AP) : Prop :=
  s.applied ++ pendingOf s.queue = span 0 s.deliv ∧ (∀ b, s.waiting = some b → s.deliv < b)

theorem ainv_step (max : Nat) (s s' : AP) (st : AStep) (h : AInv s) (hs : astep true max s st = some s') : AInv s' := by
  obtain ⟨h1, h2⟩ := h
  cases st with
  | deliver b =>
    simp only [astep] at hs
    split at hs
    · cases hs
    · rename_i hb
      have hw : s.waiting = none := by
        cases hw : s.waiting with
        | none => rfl
        | some x => simp [hw] at hb
      have hlt : s.deliv < b := by
        have : ¬ b ≤ s.deliv := fun h' => hb (Or.inr h')
        omega
      split at hs
      · cases hs
        refine ⟨?_, ?_⟩
        · simp only [pendingOf, List.flatMap_append, List.flatMap_cons, List.flatMap_nil, List.append_nil]
          rw [← List.append_assoc]
          have h' : s.applied ++ List.flatMap (fun p => span p.1 p.2) s.queue = span 0 s.deliv := h1
          rw [h', span_append 0 s.deliv b (by omega) (by omega)]
        · intro x hx; simp only at hx; rw [hw] at hx; cases hx
      · cases hs
        refine ⟨h1, ?_⟩
        intro x hx; simp only [Option.some.injEq] at hx; subst hx; exact hlt
  | syncApply =>
    simp only [astep] at hs
    cases hw : s.waiting with
    | none => rw [hw] at hs; cases hs
    | some b =>
      rw [hw] at hs
      simp only at hs
      split at hs
      · cases hs
      · rename_i hq
        cases hs
        have hnil : s.queue = [] := by
          cases hqq : s.queue with
          | nil => rfl
          | cons x xs => simp [hqq] at hq
        have hlt := h2 b hw
        refine ⟨?_, fun x hx => by cases hx⟩
        simp only [hnil, pendingOf, List.flatMap_nil, List.append_nil] at h1 ⊢
        rw [h1, span_append 0 s.deliv b (by omega) (by omega)]
  | work =>
    simp only [astep] at hs
    cases hq : s.queue with
    | nil => rw [hq] at hs; cases hs
    | cons x xs =>
      obtain ⟨a, b⟩ := x
      rw [hq] at hs
      cases hs
      refine ⟨?_, h2⟩
      simp only [hq, pendingOf, List.flatMap_cons] at h1 ⊢
      rw [List.append_assoc]; exact h1

theorem ainv_run (max : Nat) (ss : List AStep) : AInv (arun true max ss) := by
  unfold arun
  suffices ∀ s, AInv s → AInv (ss.foldl (fun s st => (astep true max s st).getD s) s) from
    this {} ⟨by simp [pendingOf, span], fun b hb => by cases hb⟩
  induction ss with
  | nil => intro s h; exact h
  | cons st ss ih =>
    intro s h
    simp only [List.foldl_cons]
    cases hs : astep true max s st with
    | none => simpa using ih s h
    | some s' => simpa using ih s' (ainv_step max s s' st h hs)

theorem prefix_range' (l r : List Nat) (st n : Nat) (h : l ++ r = List.range' st n) : l = List.range' st l.length := by
  induction l generalizing st n with
  | nil => rfl
  | cons x xs ih =>
    cases n with
    | zero => simp at h
    | succ n =>
      rw [List.range'_succ] at h
      simp only [List.cons_append, List.cons.injEq] at h
      obtain ⟨hx, hr⟩ := h
      simp only [List.length_cons, List.range'_succ]
      rw [hx]; congr 1
      exact ih (st + 1) n hr

theorem prefix_range (l r : List Nat) (n : Nat) (h : l ++ r = List.range' 1 n) : l = List.range' 1 l.length :=
  prefix_range' l r 1 n h

/-- **sync_fallback_in_order**: for every MaxApplyingTasks and every interleaving of Readys
    (async enqueue, or the synchronous fallback when the pipeline is full) and apply-worker
    steps, with waitApplyIdle at the head of the synchronous path the indices reach the state
    machine in index order, each once: the applied sequence is always 1, 2, …, k, and together
    with the queued tasks it is exactly what raft delivered. -/
theorem c12_sync_fallback_in_order (max : Nat) (ss : List AStep) :
    (arun true max ss).applied = List.range' 1 (arun true max ss).applied.length ∧
    (arun true max ss).applied ++ pendingOf (arun true max ss).queue = span 0 (arun true max ss).deliv ∧
    Gen.C12.processReadySynchronously.head? = some "waitApplyIdle" := by
  have h := ainv_run max ss
  refine ⟨?_, h.1, by decide⟩
  have h1 := h.1
  unfold span at h1
  simpa using prefix_range _ _ _ h1

example : (arun true 1 [.deliver 3, .deliver 4, .syncApply, .work, .syncApply]).applied = [1, 2, 3, 4] := by decide

/-- the decided counter-schedule: WITHOUT waitApplyIdle at the head of the fallback (the
    first round-1 mutant), MaxApplyingTasks = 1, a Ready (0,3] is queued, the next Ready (3,4]
    is refused by the full pipeline and applied synchronously while (0,3] is still queued:
    index 4 reaches the state machine before 1, 2, 3. -/
theorem c12_sync_fallback_without_wait_reorders :
    (arun false 1 [.deliver 3, .deliver 4, .syncApply, .work]).applied = [4, 1, 2, 3] := by decide




/-! ### every trace the driver LTS can emit is accepted by the trace acceptor -/

/-- the commands of the committed log in (a, b]; `id i` is the command at index i (raft's agreement) -/
def cmdsOf (id : Nat → Nat) (a b : Nat) : List (Nat × Nat) :=
  (List.range' (a + 1) (b - a)).map (fun i => (i, id i))

/-- ghost state next to the driver: the acceptor's state, the state machine's running
    checksum, the checksum stored in the durable snapshot, and whether the acceptor is still happy -/
structure G where
  rep : Rep := {}
  smChain : Nat := 0
  snapChain : Nat := 0
  ok : Bool := true

/-- the event a driver step makes the state machine log (what the harness records), if any -/
def emitEv (id : Nat → Nat) (ic : Nat → Nat) (d : D) (g : G) : Step → Option Ev
  | .apply =>
    match d.inflight with
    | some (a, b) => some (.apply (cmdsOf id a b) (chainOf g.smChain (cmdsOf id a b)))
    | none => none
  | .compact => some (.snap d.smPos g.smChain)
  | .restart => if d.snap ≠ 0 then some (.restore d.snap g.snapChain) else some .restart
  | .install k => some (.restore k (ic k))
  | _ => none

def gstep (id ic : Nat → Nat) (dg : D × G) (s : Step) : D × G :=
  match step dg.1 s with
  | none => dg
  | some d' =>
    let g := dg.2
    match emitEv id ic dg.1 g s with
    | none => (d', g)
    | some ev =>
      let r := g.rep.step ev
      (d', { rep := r.1, ok := g.ok && r.2.isNone,
             smChain := r.1.chain,
             snapChain := match s with
               | .compact => g.smChain
               | .install k => ic k
               | _ => g.snapChain })

def grun (id ic : Nat → Nat) (ss : List Step) : D × G := ss.foldl (gstep id ic) ({}, {})

theorem increasing_cmdsOf (id : Nat → Nat) (p a n : Nat) (h : p ≤ a) :
    increasing p ((List.range' (a + 1) n).map (fun i => (i, id i))) = true := by
  induction n generalizing p a with
  | zero => rfl
  | succ n ih =>
    simp only [List.range'_succ, List.map_cons, increasing, Bool.and_eq_true, decide_eq_true_eq]
    exact ⟨by omega, ih (a + 1) (a + 1) (Nat.le_refl _)⟩

theorem last_cmdsOf (id : Nat → Nat) (a n : Nat) (p : Nat) :
    ((((List.range' (a + 1) (n + 1)).map (fun i => (i, id i))).getLast?).map (·.1)).getD p = a + n + 1 := by
  induction n generalizing a with
  | zero => simp [List.range'_succ]
  | succ n ih =>
    rw [List.range'_succ, List.map_cons]
    have := ih (a + 1)
    rw [List.range'_succ, List.map_cons] at this ⊢
    rw [List.getLast?_cons_cons]
    rw [this]; omega

structure GI (d : D) (g : G) : Prop where
  inv : Inv d
  pos : g.rep.pos = d.smPos
  chain : g.rep.chain = g.smChain
  ok : g.ok = true

theorem gi_step (id ic : Nat → Nat) (d : D) (g : G) (s : Step) (h : GI d g) :
    GI (gstep id ic (d, g) s).1 (gstep id ic (d, g) s).2 := by
  unfold gstep
  cases hs : step d s with
  | none => simpa using h
  | some d' =>
    have hinv' := inv_step d d' s h.inv hs
    simp only
    cases s with
    | apply =>
      simp only [step] at hs
      cases hv : d.vol with
      | none => rw [hv] at hs; cases hs
      | some v =>
        cases hi : d.inflight with
        | none => rw [hv, hi] at hs; cases hs
        | some ab =>
          obtain ⟨a, b⟩ := ab
          rw [hv, hi] at hs
          simp only [Option.some.injEq] at hs
          subst hs
          have hin := h.inv.inflight a b hi
          have ha : a = d.smPos := h.inv.volPos a hin.1
          have hlt := hin.2.1
          obtain ⟨n, hn⟩ : ∃ n, b - a = n + 1 := ⟨b - a - 1, by omega⟩
          have hincr : increasing g.rep.pos (cmdsOf id a b) = true := by
            unfold cmdsOf; exact increasing_cmdsOf id _ a _ (by rw [h.pos]; omega)
          simp only [emitEv, hi, Rep.step, hincr, Bool.not_true, Bool.false_eq_true, if_false, h.chain,
            ne_eq, not_true_eq_false]
          refine ⟨hinv', ?_, rfl, by simp [h.ok]⟩
          simp only
          unfold cmdsOf
          rw [hn, last_cmdsOf]; omega
    | compact =>
      simp only [step] at hs
      cases hv : d.vol with
      | none => rw [hv] at hs; cases hs
      | some v =>
        cases hi : d.inflight with
        | some ab => rw [hv, hi] at hs; cases hs
        | none =>
          rw [hv, hi] at hs
          simp only at hs
          split at hs
          · cases hs
            simp only [emitEv, Rep.step, h.chain, ne_eq, not_true_eq_false, if_false]
            exact ⟨hinv', h.pos, h.chain, by simp [h.ok]⟩
          · cases hs
    | restart =>
      simp only [step] at hs
      cases hv : d.vol with
      | some v => rw [hv] at hs; cases hs
      | none =>
        rw [hv] at hs
        simp only [Option.some.injEq] at hs
        subst hs
        by_cases h0 : d.snap = 0
        · have hm := h.inv.markLe h0
          simp only [emitEv, h0, ne_eq, not_true_eq_false, if_false, Rep.step, restartPos]
          exact ⟨by simpa [restartPos, h0] using hinv', h.pos, rfl, by simp [h.ok]⟩
        · simp only [emitEv, h0, ne_eq, not_false_eq_true, if_true, Rep.step, restartPos]
          exact ⟨by simpa [restartPos, h0] using hinv', rfl, rfl, by simp [h.ok]⟩
    | install k =>
      simp only [step] at hs
      cases hv : d.vol with
      | none => rw [hv] at hs; cases hs
      | some v =>
        cases hi : d.inflight with
        | some ab => rw [hv, hi] at hs; cases hs
        | none =>
          rw [hv, hi] at hs
          simp only at hs
          split at hs
          · cases hs
            simp only [emitEv, Rep.step]
            exact ⟨hinv', rfl, rfl, by simp [h.ok]⟩
          · cases hs
    | persist n =>
      simp only [step] at hs; split at hs
      · cases hs; exact ⟨hinv', h.pos, h.chain, h.ok⟩
      · cases hs
    | commitTo c =>
      simp only [step] at hs; split at hs
      · cases hs; exact ⟨hinv', h.pos, h.chain, h.ok⟩
      · cases hs
    | track i =>
      simp only [step] at hs; split at hs
      · cases hs; exact ⟨hinv', h.pos, h.chain, h.ok⟩
      · cases hs
    | deliver b =>
      simp only [step] at hs
      split at hs
      · split at hs
        · cases hs; exact ⟨hinv', h.pos, h.chain, h.ok⟩
        · cases hs
      · cases hs
    | markApplied =>
      simp only [step] at hs; split at hs
      · cases hs; exact ⟨hinv', h.pos, h.chain, h.ok⟩
      · cases hs
    | resolve i =>
      simp only [step] at hs; split at hs
      · cases hs; exact ⟨hinv', h.pos, h.chain, h.ok⟩
      · cases hs
    | leaderLoss =>
      simp only [step] at hs; split at hs
      · cases hs; exact ⟨hinv', h.pos, h.chain, h.ok⟩
      · cases hs
    | crash =>
      simp only [step] at hs; cases hs; exact ⟨hinv', h.pos, h.chain, h.ok⟩

/-- **driver_traces_accepted**: run the Ready-driver LTS on ANY schedule (crashes, restarts,
    compactions, snapshot installs anywhere), let every apply / snapshot / restore / restart it
    performs be logged the way the harness logs them (commands `id i` of the agreed log, the
    running checksum): the trace acceptor (`Rep.step`, the judge of the differential run)
    accepts every event — the acceptor rejects nothing the modelled driver can do. -/
theorem c12_driver_traces_accepted (id ic : Nat → Nat) (ss : List Step) :
    (grun id ic ss).2.ok = true ∧ (grun id ic ss).2.rep.pos = (grun id ic ss).1.smPos := by
  suffices ∀ (dg : D × G), GI dg.1 dg.2 → GI (ss.foldl (gstep id ic) dg).1 (ss.foldl (gstep id ic) dg).2 by
    have := this ({}, {}) ⟨inv_init, rfl, rfl, rfl⟩
    exact ⟨this.ok, this.pos⟩
  induction ss with
  | nil => intro dg h; exact h
  | cons s ss ih =>
    intro dg h
    simp only [List.foldl_cons]
    exact ih _ (gi_step id ic dg.1 dg.2 s h)

example : (grun (fun i => i + 100) (fun _ => 0) [.persist 3, .commitTo 3, .deliver 2, .apply, .compact, .crash, .restart,
    .deliver 3, .apply]).2.rep.pos = 3 := by decide


end WK.C12

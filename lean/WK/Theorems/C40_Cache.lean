import WK.Theorems.C40_More
/-
  C40 — final round: the stream cache evicts only all-terminal sessions; a terminal event keeps the other applied ids.
-/
namespace WK.C40

theorem oldestTerminal_mem (cache : List (MsgKey × Session)) (k : MsgKey) (u : Nat)
    (h : oldestTerminal cache = some (k, u)) : ∃ s, (k, s) ∈ cache ∧ s.allTerminal = true := by
  induction cache generalizing k u with
  | nil => simp [oldestTerminal] at h
  | cons hd t ih =>
    obtain ⟨k0, s0⟩ := hd
    simp only [oldestTerminal] at h
    cases ht : oldestTerminal t with
    | none =>
      rw [ht] at h
      by_cases ha : s0.allTerminal = true
      · simp [ha] at h
        exact ⟨s0, by rw [← h.1]; simp, ha⟩
      · simp [ha] at h
    | some p =>
      obtain ⟨k', u'⟩ := p
      rw [ht] at h
      simp only at h
      split at h
      · next hc =>
        simp at h
        have ha : s0.allTerminal = true := by
          simp only [Bool.and_eq_true] at hc; exact hc.1
        exact ⟨s0, by rw [← h.1]; simp, ha⟩
      · simp at h
        obtain ⟨s, hs, hat⟩ := ih k' u' ht
        exact ⟨s, by rw [← h.1]; simp [hs], hat⟩

theorem oldestTerminal_none (cache : List (MsgKey × Session))
    (h : ∀ p, p ∈ cache → p.2.allTerminal = false) : oldestTerminal cache = none := by
  induction cache with
  | nil => rfl
  | cons hd t ih =>
    obtain ⟨k0, s0⟩ := hd
    have h0 : s0.allTerminal = false := h (k0, s0) (by simp)
    have ht := ih (fun p hp => h p (by simp [hp]))
    simp [oldestTerminal, ht, h0]

/-- **c40_eviction_only_all_terminal.**  Admission of a session into the stream cache either
    leaves the cache as it is (the session exists, or there is room), or evicts exactly one
    cached message, and that message has a session whose lanes are ALL terminal; when the cache
    is full and every cached session still has an open lane, the newcomer is refused
    (backpressure) and nothing is evicted. -/
theorem c40_eviction_only_all_terminal (cache : List (MsgKey × Session)) (cap : Nat) (mk : MsgKey) :
    (∀ c', admitSession cache cap mk = some c' →
      c' = cache ∨ ∃ k s, (k, s) ∈ cache ∧ s.allTerminal = true ∧ c' = adel k cache) ∧
    (aget mk cache = none → cap ≤ cache.length → (∀ p, p ∈ cache → p.2.allTerminal = false) →
      admitSession cache cap mk = none) := by
  constructor
  · intro c' h
    unfold admitSession at h
    cases hg : aget mk cache with
    | some s => rw [hg] at h; simp at h; exact Or.inl h.symm
    | none =>
      rw [hg] at h
      simp only at h
      split at h
      · simp at h; exact Or.inl h.symm
      · cases ho : oldestTerminal cache with
        | none => rw [ho] at h; simp at h
        | some p =>
          obtain ⟨k, u⟩ := p
          rw [ho] at h
          simp at h
          obtain ⟨s, hs, hat⟩ := oldestTerminal_mem cache k u ho
          exact Or.inr ⟨k, s, hs, hat, h.symm⟩
  · intro hg hcap hall
    have hn : ¬ cache.length < cap := by omega
    simp [admitSession, hg, hn, oldestTerminal_none cache hall]

/-- non-vacuity: capacity 1; a session with one lane closed and one open is NOT evictable, a
    session with all lanes closed is -/
example :
    let m1 : MsgKey := ⟨[103], 2, [49]⟩
    let m2 : MsgKey := ⟨[103], 2, [50]⟩
    let mixed : Session := { states := [([97], { status := .open_ }), ([98], { status := .closed })] }
    let done : Session := { states := [([97], { status := .closed })] }
    (admitSession [(m1, mixed)] 1 m2).isNone = true ∧ (admitSession [(m1, done)] 1 m2).map (·.length) = some 0 := by decide

/-- **c40_terminal_keeps_applied_ids.**  When a terminal event of one lane has been persisted
    (`markPersisted`), the session still remembers every other event id it had acknowledged, with
    the same stored result; so a retried cache-only event with such an id is answered from that
    memory — the stored result, no lane changed — also after the terminal event. -/
theorem c40_terminal_keeps_applied_ids (cache : List (MsgKey × Session)) (clock : Nat) (tev : Event) (tr : Result)
    (s : Session) (hs : aget tev.msg cache = some s) (id : Bytes) (res : Result)
    (hid : aget id s.applied = some res) (hne : id ≠ tev.id) :
    (∃ s', aget tev.msg (markPersisted cache clock tev tr) = some s' ∧ aget id s'.applied = some res) ∧
    (∀ (ev : Event) (c2 : Nat), ev.msg = tev.msg → ev.id = id →
      (appendCached (markPersisted cache clock tev tr) c2 ev).2 = res ∧
      ∀ s' s'', aget tev.msg (markPersisted cache clock tev tr) = some s' →
        aget tev.msg (appendCached (markPersisted cache clock tev tr) c2 ev).1 = some s'' →
        s''.states = s'.states ∧ s''.applied = s'.applied) := by
  have hmp : markPersisted cache clock tev tr =
      aput tev.msg { states := aput tr.key tr.state s.states, applied := aput tev.id tr s.applied, upd := clock } cache := by
    simp [markPersisted, hs]
  have hget : aget tev.msg (markPersisted cache clock tev tr) =
      some { states := aput tr.key tr.state s.states, applied := aput tev.id tr s.applied, upd := clock } := by
    rw [hmp]; exact aget_aput_same _ _ _
  have happ : aget id (aput tev.id tr s.applied) = some res := by
    rw [aget_aput_other _ _ _ _ hne]; exact hid
  refine ⟨⟨_, hget, happ⟩, ?_⟩
  intro ev c2 hm hi
  have hg2 : aget ev.msg (markPersisted cache clock tev tr) =
      some { states := aput tr.key tr.state s.states, applied := aput tev.id tr s.applied, upd := clock } := by
    rw [hm]; exact hget
  have hres : appendCached (markPersisted cache clock tev tr) c2 ev =
      (aput ev.msg { states := aput tr.key tr.state s.states, applied := aput tev.id tr s.applied, upd := c2 }
        (markPersisted cache clock tev tr), res) := by
    simp [appendCached, hg2, hi, happ]
  rw [hres]
  refine ⟨rfl, ?_⟩
  intro s' s'' h1 h2
  rw [hget] at h1
  rw [← hm, aget_aput_same] at h2
  cases h1; cases h2
  exact ⟨rfl, rfl⟩

/-- non-vacuity (round-2 m4 shape): delta e1 on lane a, delta e2 on lane b, close of lane a
    persisted; the retried e2 returns its first result and the text of lane b is unchanged -/
example :
    let d1 : RawEvent := ⟨[103], 2, [109], [101, 49], [97], tyDelta, [], 1,
      { delta := some [120], view := .text [], term := some (.none, 0, []), empty := false }, 2⟩
    let d2 : RawEvent := ⟨[103], 2, [109], [101, 50], [98], tyDelta, [], 1,
      { delta := some [121], view := .text [], term := some (.none, 0, []), empty := false }, 2⟩
    let c : RawEvent := ⟨[103], 2, [109], [101, 51], [97], tyClose, [], 1, {}, 2⟩
    let n3 := (nstep (nstep (nstep {} d1).1 d2).1 c).1
    ((nstep n3 d2).2.2.map fun r => r.state.snap) = some (.text [121]) ∧
    ((aget ⟨[103], 2, [109]⟩ (nstep n3 d2).1.cache).bind fun s => (aget [98] s.states).map (·.snap)) = some (.text [121]) := by
  decide

end WK.C40

import WK.Proofs.C11_Retry
import WK.Proofs.C09_WF
/-
  C11 — backup and restore reproduce committed data exactly.  Class PA
  (checksum and byte layout abstract; the store is C09's typed KV model).

  Proved for ALL stores, cuts and streams of the record-level model:
    * `c11_export_committed_only` / `c11_export_complete`: the exported rows of a cut are exactly the
      stored rows with 1 ≤ seq ≤ hw;
    * `c11_committed_only`: every row of a store restored from an accepted stream is a row of the
      stream, at or below its section's hw; `c11_roundtrip_rows`: restored from an export, it is a
      committed row of the source with the same value;
    * `c11_retry_idempotent`: a restore that crashed after any number of writes, followed by a full
      retry, equals (key by key) one uninterrupted restore;
    * `c11_reject_*`: a body that differs from the honest one under the same trailer is accepted only
      on a checksum collision; a count mismatch or a row above hw is rejected whatever the checksum;
      a rejected stream leaves the target untouched (validate-then-apply);
    * `c11_restored_leo_le_hw`: nothing above the exported watermark — the restored store recovers
      LEO ≤ hw whenever the cut is not below the channel's adopted retention boundary (the exporter
      clamps RetainedMaxSeq, fix d22c43ed1; before it the statement was false, witness
      `c11_restored_leo_witness_fixed`); `c11_cut_below_retention_boundary` shows the hypothesis is needed.
  D (real code, byte level): re-export equality, restored dump = model, every single-byte flip /
  truncation rejected, CRC-fixed corruptions never partially applied on the reader path.
-/
namespace WK.C11
open WK.C09

/-! ### export -/

theorem mem_insertNat (x a : Nat) (l : List Nat) : a ∈ insertNat x l ↔ a = x ∨ a ∈ l := by
  induction l with
  | nil => simp [insertNat]
  | cons y ys ih =>
    unfold insertNat
    split
    · simp
    · simp [ih]; constructor <;> (intro h; rcases h with h | h | h <;> simp [h])

theorem mem_sortedSeqs (s : Store) (ch q : Nat) : q ∈ sortedSeqs s ch ↔ q ∈ rowSeqs s ch := by
  unfold sortedSeqs
  induction rowSeqs s ch with
  | nil => simp
  | cons x xs ih => simp [List.foldr, mem_insertNat, ih]

/-- exported rows are stored rows at or below the cut -/
theorem c11_export_committed_only (s : Store) (c : Cut) (r : ChanRec) (h : exportCh s c = some r) :
    r.ch = c.ch ∧ r.hw = c.hw ∧ ∀ e ∈ r.rows, 1 ≤ e.1 ∧ e.1 ≤ c.hw ∧ get s (.row c.ch e.1) = some e.2 := by
  unfold exportCh at h
  split at h; · simp at h
  split at h; · simp at h
  split at h; · simp at h
  simp only [Option.some.injEq] at h
  subst h
  refine ⟨rfl, rfl, ?_⟩
  intro e he
  unfold rowsUpTo at he
  simp only [List.mem_filterMap] at he
  obtain ⟨q, _, hq⟩ := he
  split at hq
  · next hb =>
    cases hg : get s (.row c.ch q) with
    | none => simp [hg] at hq
    | some v => simp [hg] at hq; subst hq; exact ⟨hb.1, hb.2, hg⟩
  · simp at hq

/-- …and every stored row at or below the cut is exported -/
theorem c11_export_complete (s : Store) (c : Cut) (r : ChanRec) (h : exportCh s c = some r)
    (q : Nat) (v : Val) (hq : 1 ≤ q ∧ q ≤ c.hw) (hm : q ∈ rowSeqs s c.ch) (hg : get s (.row c.ch q) = some v) :
    (q, v) ∈ r.rows := by
  unfold exportCh at h
  split at h; · simp at h
  split at h; · simp at h
  split at h; · simp at h
  simp only [Option.some.injEq] at h
  subst h
  unfold rowsUpTo
  simp only [List.mem_filterMap]
  exact ⟨q, (mem_sortedSeqs s c.ch q).2 hm, by simp [hq, hg]⟩

example : exportCh [(.row 1 1, .row 7 0 0 0 1), (.row 1 2, .row 8 0 0 0 2)] ⟨1, 0, 0, 1⟩ =
    some ⟨1, 0, 0, 1, [], 1, [(1, .row 7 0 0 0 1)]⟩ := by decide

theorem mem_exportAll (s : Store) (cuts : List Cut) (recs : List ChanRec) (h : exportAll s cuts = some recs)
    (r : ChanRec) (hr : r ∈ recs) : ∃ c ∈ cuts, exportCh s c = some r := by
  induction cuts generalizing recs with
  | nil => simp [exportAll] at h; subst h; cases hr
  | cons c cs ih =>
    unfold exportAll at h
    split at h
    · next r0 rs h0 hs =>
      simp only [Option.some.injEq] at h; subst h
      rcases List.mem_cons.1 hr with hr | hr
      · subst hr; exact ⟨c, List.mem_cons_self, h0⟩
      · obtain ⟨c', hc', he⟩ := ih rs hs hr
        exact ⟨c', List.mem_cons_of_mem _ hc', he⟩
    · simp at h

/-! ### restore -/

/-- COMMITTED ONLY: every row of a store restored (into an empty target) from an accepted stream
    is a row of one of the stream's sections, with 1 ≤ seq ≤ that section's hw -/
theorem c11_committed_only (recs : List ChanRec) (t : Store) (h : importStream [] recs = some t)
    (c q : Nat) (v : Val) (hm : (Key.row c q, v) ∈ t) :
    ∃ r ∈ recs, r.ch = c ∧ (q, v) ∈ r.rows ∧ 1 ≤ q ∧ q ≤ r.hw := by
  unfold importStream at h
  split at h; · simp at h
  next hvalid =>
  split at h; · simp at h
  simp only [Option.some.injEq] at h
  subst h
  have hput := mem_applyBatch_nil _ _ hm
  unfold importWrites at hput
  simp only [List.mem_flatten, List.mem_map] at hput
  obtain ⟨l, ⟨r, hr, rfl⟩, hw⟩ := hput
  have hv : streamValid recs = true := by simpa using hvalid
  unfold streamValid at hv
  simp only [Bool.and_eq_true, List.all_eq_true] at hv
  have hcv := hv.1 r hr
  obtain ⟨hc, hrow⟩ := row_of_chanWrites r hcv c q v hw
  have hseq : seqsOk r.hw 0 r.rows = true := by
    unfold chanValid at hcv; simp only [Bool.and_eq_true] at hcv; exact hcv.1.2
  have := seqsOk_le r.hw r.rows 0 hseq (q, v) hrow
  exact ⟨r, hr, hc.symm, hrow, this.1, this.2⟩

/-- ROUND TRIP (rows): a store restored from an export of `s` contains only committed rows of `s`,
    byte-identical (same value), each at or below the hw of its cut -/
theorem c11_roundtrip_rows (s : Store) (cuts : List Cut) (recs : List ChanRec) (t : Store)
    (he : exportAll s cuts = some recs) (hi : importStream [] recs = some t)
    (c q : Nat) (v : Val) (hm : (Key.row c q, v) ∈ t) :
    ∃ cut ∈ cuts, cut.ch = c ∧ 1 ≤ q ∧ q ≤ cut.hw ∧ get s (.row c q) = some v := by
  obtain ⟨r, hr, hc, hrow, _, _⟩ := c11_committed_only recs t hi c q v hm
  obtain ⟨cut, hcut, hex⟩ := mem_exportAll s cuts recs he r hr
  obtain ⟨h1, _, h3⟩ := c11_export_committed_only s cut r hex
  have := h3 (q, v) hrow
  refine ⟨cut, hcut, by rw [← h1]; exact hc, this.1, this.2.1, ?_⟩
  rw [← hc, h1]; exact this.2.2

/-- non-vacuity: a two-row channel cut at hw 1 restores exactly row 1 with its index entries -/
example : (exportAll [(.row 1 1, .row 7 1 2 0 1), (.row 1 2, .row 8 0 0 0 2)] [⟨1, 0, 0, 1⟩]).bind (importStream []) =
    some [(.sseq 1 1 1, .nat 7), (.idem 1 1 2, .idem 1 7), (.gid 7, .gid 1 1), (.row 1 1, .row 7 1 2 0 1),
          (.ckpt 1, .ckpt 0 0 1), (.cat 1, .nat 1)] := by decide

/-- RETRY IDEMPOTENCE incl. crash: a restore interrupted after `j` of its writes (any j — the real
    importer commits them in several synced batches), retried in full, yields key by key the store of
    one uninterrupted restore; `j = length` is the plain retry. -/
theorem c11_retry_idempotent (recs : List ChanRec) (t : Store) (j : Nat) (k : Key) :
    get (applyBatch (applyBatch t ((importWrites recs).take j)) (importWrites recs)) k =
      get (applyBatch t (importWrites recs)) k :=
  retry_get _ (putsOnly_importWrites recs) t j k

/-- …and the retry is admitted: after the first import the checkpoint equals the section's, so the
    idempotent-replay check passes (shown on a concrete stream; D exercises it on the code) -/
example : (importStream [] [⟨1, 0, 0, 1, [], 1, [(1, .row 7 1 2 0 1)]⟩]).bind
      (fun t => importStream t [⟨1, 0, 0, 1, [], 1, [(1, .row 7 1 2 0 1)]⟩]) ≠ none := by decide

/-! ### rejection -/

structure Stream where
  body : List ChanRec
  trailer : Nat

/-- the importer: checksum first, then whole-stream validation, only then any write -/
def accept (C : List ChanRec → Nat) (st : Stream) : Bool := C st.body == st.trailer && streamValid st.body

def restore (C : List ChanRec → Nat) (t : Store) (st : Stream) : Option Store :=
  if accept C st then importStream t st.body else none

/-- a corrupted body under the honest trailer is accepted only on a checksum collision -/
theorem c11_reject_corruption (C : List ChanRec → Nat) (honest forged : Stream)
    (hh : C honest.body = honest.trailer) (ht : forged.trailer = honest.trailer)
    (hb : forged.body ≠ honest.body) (ha : accept C forged = true) :
    C forged.body = C honest.body ∧ forged.body ≠ honest.body := by
  unfold accept at ha
  simp only [Bool.and_eq_true, beq_iff_eq] at ha
  exact ⟨by rw [ha.1, ht, hh], hb⟩

/-- a declared count that differs from the rows present is rejected whatever the checksum says -/
theorem c11_reject_count_mismatch (C : List ChanRec → Nat) (st : Stream)
    (h : ∃ r ∈ st.body, r.count ≠ r.rows.length) : accept C st = false := by
  obtain ⟨r, hr, hne⟩ := h
  unfold accept streamValid
  have : chanValid r = false := by
    unfold chanValid
    have : (r.count == r.rows.length) = false := by simpa using hne
    simp [this]
  have h2 : st.body.all chanValid = false := by
    rw [List.all_eq_false]; exact ⟨r, hr, by simp [this]⟩
  simp [h2]

/-- a row above the section's hw is rejected whatever the checksum says -/
theorem c11_reject_row_above_hw (C : List ChanRec → Nat) (st : Stream)
    (h : ∃ r ∈ st.body, ∃ e ∈ r.rows, e.1 > r.hw) : accept C st = false := by
  obtain ⟨r, hr, e, he, hgt⟩ := h
  cases hacc : accept C st with
  | false => rfl
  | true =>
    exfalso
    unfold accept streamValid at hacc
    simp only [Bool.and_eq_true, List.all_eq_true] at hacc
    have hcv := hacc.2.1 r hr
    unfold chanValid at hcv
    simp only [Bool.and_eq_true] at hcv
    have := seqsOk_le r.hw r.rows 0 hcv.1.2 e he
    omega

/-- a rejected stream is not applied at all -/
theorem c11_no_partial_apply (C : List ChanRec → Nat) (t : Store) (st : Stream) (h : accept C st = false) :
    restore C t st = none := by
  unfold restore; simp [h]

example : accept (fun _ => 0) ⟨[⟨1, 0, 0, 1, [], 1, [(1, .row 7 1 2 0 1)]⟩], 0⟩ = true := by decide
example : accept (fun _ => 0) ⟨[⟨1, 0, 0, 1, [], 2, [(1, .row 7 1 2 0 1)]⟩], 0⟩ = false := by decide

/-! ### recovered LEO of the restored store (former finding, repaired by d22c43ed1) -/

/-- the witness of the former finding: rows 1..3, HW 2, retention adopted through 1 and trimmed
    (RetainedMaxSeq = LEO = 3).  With the clamp in the exporter the restored store recovers LEO 2 = hw. -/
def findingSrc : Store :=
  run [] [.fetch 1 (some 2) [⟨200, 1, 11, 0, 5⟩, ⟨201, 1, 12, 0, 6⟩, ⟨202, 0, 0, 0, 7⟩], .adopt 1 1, .trim 1 1 0]

theorem c11_restored_leo_witness_fixed :
    ∃ t, (exportAll findingSrc [⟨1, 0, 0, 2⟩]).bind (importStream []) = some t ∧ leo t 1 = 2 ∧ hwOf t 1 = 2 ∧
      rowSeqs t 1 = [2] ∧ retMax findingSrc 1 = 3 := by
  refine ⟨_, rfl, ?_⟩
  decide

/-- what remains: a cut BELOW the adopted retention boundary (hw 2 < LocalRetentionThroughSeq 3) still
    restores LEO = LocalRetentionThroughSeq > hw — the hypothesis of `c11_restored_leo_le_hw` is needed -/
theorem c11_cut_below_retention_boundary :
    ∃ t, (exportAll (run [] [.fetch 1 (some 3) [⟨200, 0, 0, 0, 5⟩, ⟨201, 0, 0, 0, 6⟩, ⟨202, 0, 0, 0, 7⟩], .adopt 1 3])
            [⟨1, 0, 0, 2⟩]).bind (importStream []) = some t ∧ leo t 1 = 3 := by
  refine ⟨_, rfl, ?_⟩
  decide

theorem foldl_max_le (xs : List Nat) (a b : Nat) (ha : a ≤ b) (h : ∀ x ∈ xs, x ≤ b) : xs.foldl max a ≤ b := by
  induction xs generalizing a with
  | nil => exact ha
  | cons x rest ih =>
    exact ih (max a x) (Nat.max_le.2 ⟨ha, h x List.mem_cons_self⟩) (fun y hy => h y (List.mem_cons_of_mem _ hy))

theorem ret_not_in_rowWrites (ch q : Nat) (x : Rec) (c : Nat) (v : Val) : W.put (.ret c) v ∉ rowWrites ch q x := by
  unfold rowWrites
  simp only [List.mem_append, List.mem_cons, List.mem_nil_iff, or_false, W.put.injEq, not_or]
  refine ⟨⟨⟨⟨by simp, by simp⟩, ?_⟩, ?_⟩, ?_⟩ <;> (split <;> simp)

theorem clampRet_ret (hw : Nat) (e : Key × Val) (c l p m : Nat) (h : clampRet hw e = (.ret c, .ret l p m))
    (hl : ∀ l0 p0 m0, e = (.ret c, .ret l0 p0 m0) → l0 ≤ hw) : m ≤ hw := by
  obtain ⟨k, v⟩ := e
  cases k <;> cases v <;> simp [clampRet] at h
  next c0 l0 p0 m0 =>
    have hl0 := hl l0 p0 m0
    split at h
    · simp at h
      obtain ⟨h1, h2, h3, h4⟩ := h
      subst h1
      have := hl0 rfl
      omega
    · simp at h
      obtain ⟨h1, h2, h3, h4⟩ := h
      omega

/-- NOTHING ABOVE THE WATERMARK (now a theorem): if the cut is not below the adopted retention boundary
    of the channel (LocalRetentionThroughSeq ≤ hw — retention is only adopted through committed
    messages), the restored store recovers LEO ≤ hw, whatever RetainedMaxSeq the source had. -/
theorem c11_restored_leo_le_hw (s : Store) (c : Cut) (r : ChanRec) (t : Store)
    (he : exportCh s c = some r) (hi : importStream [] [r] = some t)
    (hret : ∀ l p m, (Key.ret c.ch, Val.ret l p m) ∈ s → l ≤ c.hw) : leo t c.ch ≤ c.hw := by
  obtain ⟨hch, hhw, _⟩ := c11_export_committed_only s c r he
  unfold leo
  apply Nat.max_le.2
  constructor
  · unfold maxList
    apply foldl_max_le _ _ _ (Nat.zero_le _)
    intro q hq
    unfold rowSeqs at hq
    simp only [List.mem_filterMap] at hq
    obtain ⟨⟨k, v⟩, hm, hf⟩ := hq
    cases k <;> simp at hf
    next c' q' =>
    obtain ⟨hc, hq'⟩ := hf
    subst hc hq'
    obtain ⟨r', hr', _, _, _, hle⟩ := c11_committed_only [r] t hi _ _ v hm
    simp at hr'; subst hr'
    omega
  · unfold retMax
    split
    · next l p m hg =>
      have hm := mem_of_get _ _ _ hg
      unfold importStream at hi
      split at hi; · simp at hi
      split at hi; · simp at hi
      simp only [Option.some.injEq] at hi
      subst hi
      have hput := mem_applyBatch_nil _ _ hm
      unfold importWrites chanWrites at hput
      simp only [List.map_cons, List.map_nil, List.flatten_cons, List.flatten_nil, List.append_nil, List.mem_append,
        List.mem_cons, List.mem_nil_iff, or_false, List.mem_map, List.mem_flatten, W.put.injEq] at hput
      rcases hput with ((h | h) | ⟨e, hes, h⟩) | ⟨l', ⟨⟨q, v⟩, _, rfl⟩, h⟩
      · exact absurd h.1 (by simp)
      · exact absurd h.1 (by simp)
      · have hsys : r.sys = (s.filter (sysKeep c.ch c.hw)).map (clampRet c.hw) := by
          unfold exportCh at he
          split at he; · simp at he
          split at he; · simp at he
          split at he; · simp at he
          simp only [Option.some.injEq] at he; subst he; rfl
        rw [hsys] at hes
        obtain ⟨e0, he0, hcl⟩ := List.mem_map.1 hes
        have he0s := (List.mem_filter.1 he0).1
        have heq : clampRet c.hw e0 = (Key.ret c.ch, Val.ret l p m) := by
          rw [hcl]; exact Prod.ext h.1 h.2
        apply clampRet_ret c.hw e0 c.ch l p m heq
        intro l0 p0 m0 h0
        rw [h0] at he0s
        exact hret l0 p0 m0 he0s
      · simp only at h
        split at h
        · exact absurd h (ret_not_in_rowWrites _ _ _ _ _)
        · simp at h
    · exact Nat.zero_le _

end WK.C11

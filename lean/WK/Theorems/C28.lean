import WK.Proofs.C28_inv
import WK.Proofs.C28_accept
import WK.Proofs.C28_dispatch
import WK.Gen.C28
/-
  C28 — Every SEND gets exactly one SENDACK, in order.

  Part 1: theorems about the LTS of `WK/Model/C28.lean`, for every reachable
          state = every interleaving, any number of sessions, any shard map.
  Part 2: theorems about the trace acceptor the driver executes
          (`WK.C28.runS` / `verdict`): an accepted trace has the property.
-/
namespace WK.C28

variable {shardOf : Nat → Nat} {st st' : St}

/-! ## Part 1 — the model -/

/-- Per session the SENDACK sequence is a duplicate-free prefix of the admitted
    SEND sequence, which is itself a prefix of the SEND sequence handed over by
    the transport — for every interleaving. -/
theorem c28_ack_once_in_order (h : Reach shardOf st) (s : Nat) :
    (st.sess s).acked <+: (st.sess s).admitted ∧ (st.sess s).admitted <+: (st.sess s).sent ∧
    (st.sess s).acked.Nodup := by
  have hI := inv_reach h
  have h1 := hI.ackPre s
  have h2 : (st.sess s).admitted <+: (st.sess s).sent := (List.prefix_append _ _).trans (hI.admPre s)
  refine ⟨h1, h2, ?_⟩
  have : (st.sess s).sent.Nodup := by rw [hI.sentRange s]; exact List.nodup_range
  exact ((h1.trans h2).sublist).nodup this

example : ∃ st, run (fun s => s % 2) {} [.recv 1, .enq 1 true, .recv 1, .enq 1 true, .take 1 2, .ack 1, .ack 1] = some st ∧
    (st.sess 1).acked = [0, 1] ∧ (st.sess 1).admitted = [0, 1] := ⟨_, rfl, rfl, rfl⟩

/-- An open session's admitted SENDs are exactly: the acknowledged ones, then
    its un-acknowledged items of the running batch, then its queued items —
    nothing is lost, duplicated or reordered inside the pipeline. -/
theorem c28_pipeline_exact (h : Reach shardOf st) (s : Nat) (ho : (st.sess s).closed = false) :
    (st.sess s).admitted = (st.sess s).acked ++ (itemsOf s st.inflight ++ itemsOf s st.queue) := by
  rcases (inv_reach h).pendA s with h1 | h1
  · rw [ho] at h1; cases h1
  · exact h1

/-- Frames of a sequential writer reach the transport in issue order. -/
theorem c28_outbound_order (h : Reach shardOf st) (s : Nat) : (st.sess s).pushed.Pairwise (· < ·) :=
  ((inv_reach h).pushOrd s).1

example : ∃ st, run (fun s => s) {} [.push 3, .push 3, .close 3, .push 3] = some st ∧ (st.sess 3).pushed = [1, 2] :=
  ⟨_, rfl, rfl⟩

/-- Drain fence, safety half: a SEND handed over after the fence was set is never
    admitted (so never dispatched, never acknowledged); and once the drain has
    completed, the pipeline is empty and every session that is still open has an
    acknowledgement for every SEND it was handed. -/
theorem c28_drain_fence (h : Reach shardOf st) :
    (∀ s n, n ∈ (st.sess s).late → n ∉ (st.sess s).admitted ∧ n ∉ (st.sess s).acked) ∧
    (st.drained = true → st.pend = [] ∧ st.queue = [] ∧ st.inflight = [] ∧
      ∀ s, (st.sess s).closed = false → (st.sess s).acked = (st.sess s).sent) := by
  have hI := inv_reach h
  refine ⟨?_, ?_⟩
  · intro s n hn
    have := hI.lateOk s n hn
    exact ⟨this.2.1, fun ha => this.2.1 ((hI.ackPre s).subset ha)⟩
  · intro hd
    have hw := (hI.drainedOk hd).2
    have he := hI.wgEq
    have hp : st.pend = [] := List.eq_nil_of_length_eq_zero (by omega)
    have hq : st.queue = [] := List.eq_nil_of_length_eq_zero (by omega)
    have hi : st.inflight = [] := List.eq_nil_of_length_eq_zero (by omega)
    refine ⟨hp, hq, hi, ?_⟩
    intro s ho
    have h1 := hI.pendA s
    have h2 := hI.admFull s
    rw [ho] at h1 h2
    simp [hp, hq, hi] at h1 h2
    rw [← h2, h1]

example : ∃ st, run (fun s => s) {} [.recv 1, .drainStart, .recv 2, .enq 1 true, .take 1 1, .ack 1, .drainDone] = some st ∧
    st.drained = true ∧ (st.sess 2).late = [0] ∧ (st.sess 2).closed = true ∧ (st.sess 1).acked = [0] :=
  ⟨_, rfl, rfl, rfl, rfl, rfl⟩

/-- Drain fence, quiescence half: with the fence set, a state in which no
    gateway-internal action is enabled any more is a state in which the drain
    has completed (so by `c28_drain_fence` everything admitted earlier completed). -/
theorem c28_drain_quiescent (h : Reach shardOf st) (hf : st.fence = true)
    (hq : ∀ l : Lbl, l.internal = true → step shardOf st l = none) : st.drained = true := by
  have hI := inv_reach h
  have hp : st.pend = [] := by
    cases hpe : st.pend with
    | nil => rfl
    | cons it rest =>
      obtain ⟨t, n⟩ := it
      have := hq (.enq t false) rfl
      simp only [step] at this
      cases hpf : popFirst t st.pend with
      | none =>
        have := popFirst_none t _ hpf
        rw [hpe, itemsOf_cons] at this
        simp at this
      | some pr => simp [hpf] at this
  have hi : st.inflight = [] := by
    cases hie : st.inflight with
    | nil => rfl
    | cons it rest =>
      have := hq (.abort (shardOf it.1)) rfl
      simp only [step, hie] at this
      simp [List.filter_cons] at this
  have hqe : st.queue = [] := by
    cases hqe : st.queue with
    | nil => rfl
    | cons it rest =>
      have := hq (.take (shardOf it.1) 1) rfl
      simp only [step, hqe, hi] at this
      simp [takeP] at this
  have hw : st.wg = 0 := by have := hI.wgEq; simp [hp, hi, hqe] at this; exact this
  have := hq .drainDone rfl
  simp only [step] at this
  cases hd : st.drained with
  | true => rfl
  | false => simp [hf, hw, hd] at this

example : (∀ l : Lbl, l.internal = true →
      (run (fun s => s) {} [.recv 1, .drainStart, .enq 1 true, .take 1 1, .ack 1, .drainDone]).bind (fun st => step (fun s => s) st l) = none) := by
  intro l hl
  cases l <;> simp [Lbl.internal] at hl <;> simp [run, step, popFirst, takeP, upd, itemsOf]

/-- After the drain has completed nothing is admitted, dispatched or acknowledged any more. -/
theorem c28_after_drain_stable (h : Reach shardOf st) (hd : st.drained = true) (l : Lbl)
    (hs : step shardOf st l = some st') :
    st'.drained = true ∧ ∀ s, (st'.sess s).acked = (st.sess s).acked ∧ (st'.sess s).admitted = (st.sess s).admitted := by
  have hI := inv_reach h
  obtain ⟨_, hD⟩ := c28_drain_fence h
  obtain ⟨hp, hq, hi, _⟩ := hD hd
  have hf := (hI.drainedOk hd).1
  cases l with
  | recv s =>
    simp only [step, hp, hf] at hs
    simp at hs
    split at hs <;> cases hs <;> refine ⟨hd, fun x => ?_⟩ <;> by_cases hx : x = s <;>
      first | (subst hx; simp) | simp [upd_ne _ _ hx]
  | enq s ok => simp [step, hp, popFirst] at hs
  | take sh k => simp [step, hq] at hs
  | ack s => simp only [step, hi, popFirst] at hs; split at hs <;> cases hs
  | abort sh => simp [step, hi] at hs
  | close s =>
    simp only [step] at hs; cases hs
    refine ⟨hd, fun x => ?_⟩
    by_cases hx : x = s
    · subst hx; simp
    · simp [upd_ne _ _ hx]
  | push s =>
    simp only [step] at hs
    split at hs <;> cases hs <;> refine ⟨hd, fun x => ?_⟩ <;> by_cases hx : x = s <;>
      first | (subst hx; simp) | simp [upd_ne _ _ hx]
  | drainStart => simp only [step] at hs; cases hs; exact ⟨hd, fun _ => ⟨rfl, rfl⟩⟩
  | drainDone => simp [step, hd] at hs

/-! ## Part 2 — the acceptor the driver runs on real traces -/

/-- An accepted trace has every session's SENDACKs as a duplicate-free prefix of its SENDs. -/
theorem c28_accept_ack_once_in_order (s : Nat) (tr : List Ev) (a : Acc) (h : runS s tr = .ok a) :
    AckOnceInOrder s tr := by
  have hI := runFrom_inv tr [] {} a (ainv_init s) h
  simp only [List.nil_append] at hI
  have hp : acksOf s tr <+: sentOf s tr := by
    rw [hI.hacks, ← hI.hsent]; exact List.take_prefix _ _
  exact ⟨hp, (hp.sublist).nodup (hI.hsent ▸ hI.hnd)⟩

/-- An accepted trace keeps the sequential writer's frames in issue order. -/
theorem c28_accept_outbound_order (s : Nat) (tr : List Ev) (a : Acc) (h : runS s tr = .ok a) :
    OutboundOrder s tr := by
  have hI := runFrom_inv tr [] {} a (ainv_init s) h
  simp only [List.nil_append] at hI
  exact hI.hpush.1

/-- An accepted trace has no dispatch and no SENDACK after `DrainSends` returned
    nil, and a session reported open afterwards has an ack for every SEND. -/
theorem c28_accept_drain_fence (s : Nat) (tr : List Ev) (a : Acc) (h : runS s tr = .ok a) :
    QuietAfterDrain s tr ∧ CompleteAfterDrain s tr := by
  refine ⟨?_, ?_⟩
  · intro pre post htr
    subst htr
    obtain ⟨a1, h1, h2⟩ := runFrom_append pre _ {} a h
    simp only [runFrom] at h2
    cases hs : stepS s a1 (Ev.drainRet 0) with
    | error m => simp [hs] at h2
    | ok a2 =>
      simp only [hs] at h2
      have : a2.drainOk = true := by simp [stepS] at hs; subst hs; rfl
      exact quiet_after post a2 a this h2
  · intro pre post htr hmem
    subst htr
    rw [List.append_assoc] at h
    obtain ⟨a1, h1, h2⟩ := runFrom_append pre _ {} a h
    have hI := runFrom_inv pre [] {} a1 (ainv_init s) h1
    simp only [List.nil_append] at hI
    have hdo := hI.hdr hmem
    simp only [List.singleton_append, runFrom] at h2
    cases hs : stepS s a1 (Ev.snap s true) with
    | error m => simp [hs] at h2
    | ok a2 =>
      simp [stepS, hdo] at hs
      split at hs
      · rename_i heq
        rw [hI.hacks, ← hI.hsent, heq, List.take_length]
      · cases hs

example : runS 1 [.sub 1 1, .sub 1 2, .hand 1 1 0, .hand 1 2 4, .ack 1 1 1 100001 true, .push 1 1, .ack 1 2 15 100002 true,
    .drainRet 0, .snap 1 true] = .ok { sent := [1, 2], kinds := [0, 4], hcnt := 2, acnt := 2, fence := true, drainOk := true, lastPush := 1 } := rfl
example : verdict [.sub 1 1, .sub 1 2, .hand 1 1 0, .hand 1 2 0, .ack 1 2 1 100002 true] = "viol:ack-out-of-order" := by decide
example : verdict [.sub 1 1, .hand 1 1 0, .ack 1 1 1 100001 true, .ack 1 1 1 100001 true] = "viol:ack-duplicate" := by decide
example : verdict [.sub 1 1, .hand 1 1 0, .drainRet 0, .snap 1 true] = "viol:ack-missing" := by decide
example : verdict [.drainRet 1, .sub 1 1, .hand 1 1 0] = "viol:dispatch-after-fence" := by decide

/-! ## Part 3 — collateral close (a failed micro-batch closes every session in it) -/

/-- Collateral close, model side: when the handler batch of shard `sh` fails, every
    session that still has an un-acknowledged item in that batch is closed and its
    items leave the pipeline; every other session is left exactly as it was. -/
theorem c28_abort_closes_batch {sh : Nat} (h : step shardOf st (.abort sh) = some st') :
    (∀ it ∈ st.inflight, shardOf it.1 = sh → (st'.sess it.1).closed = true ∧ it ∉ st'.inflight) ∧
    (∀ x, (∀ it ∈ st.inflight, shardOf it.1 = sh → it.1 ≠ x) → st'.sess x = st.sess x) := by
  simp only [step] at h
  split at h
  · cases h
  · cases h
    refine ⟨?_, ?_⟩
    · intro it hit hs
      refine ⟨?_, ?_⟩
      · have : (st.inflight.filter (fun it => shardOf it.1 == sh)).any (fun j => j.1 == it.1) = true := by
          rw [List.any_eq_true]
          exact ⟨it, List.mem_filter.mpr ⟨hit, by simp [hs]⟩, by simp⟩
        simp [this]
      · intro hm
        have := (List.mem_filter.mp hm).2
        simp [hs] at this
    · intro x hx
      have : (st.inflight.filter (fun it => shardOf it.1 == sh)).any (fun j => j.1 == x) = false := by
        rw [Bool.eq_false_iff]
        intro hany
        rw [List.any_eq_true] at hany
        obtain ⟨it, hit, hix⟩ := hany
        have hm := List.mem_filter.mp hit
        exact hx it hm.1 (by simpa using hm.2) (by simpa using hix)
      simp [this]

example : ∃ st, run (fun _ => 0) {} [.recv 1, .enq 1 true, .recv 2, .enq 2 true, .take 0 2, .close 1, .abort 0] = some st ∧
    (st.sess 2).closed = true ∧ (st.sess 2).admitted = [0] ∧ (st.sess 2).acked = [] ∧ st.inflight = [] := ⟨_, rfl, rfl, rfl, rfl, rfl⟩

/-- What the property allows: an admitted SEND can be neither acknowledged nor still in
    the pipeline only if its session is closed ("… unless the session closes first"). -/
theorem c28_unacked_gone_only_if_closed (h : Reach shardOf st) (s n : Nat)
    (ha : n ∈ (st.sess s).admitted) (h1 : n ∉ (st.sess s).acked)
    (h2 : n ∉ itemsOf s st.inflight) (h3 : n ∉ itemsOf s st.queue) : (st.sess s).closed = true := by
  cases hc : (st.sess s).closed with
  | true => rfl
  | false =>
    have := c28_pipeline_exact h s hc
    rw [this] at ha
    simp only [List.mem_append] at ha
    rcases ha with ha | ha | ha
    · exact absurd ha h1
    · exact absurd ha h2
    · exact absurd ha h3

/-- once the acceptor has seen `closed s` it accepts no further write to that session -/
theorem closed_after {s : Nat} : ∀ (post : List Ev) (a a' : Acc), a.closed = true → runFrom s a post = .ok a' →
    a'.closed = true ∧ acksOf s post = [] ∧ pushesOf s post = []
  | [], a, a', hd, h => by simp [runFrom] at h; subst h; simp [hd, acksOf, pushesOf]
  | e :: es, a, a', hd, h => by
    simp only [runFrom] at h
    cases hs : stepS s a e with
    | error m => simp [hs] at h
    | ok a1 =>
      simp only [hs] at h
      have hd1 : a1.closed = true ∧ acksOf s [e] = [] ∧ pushesOf s [e] = [] := by
        cases e <;> simp only [stepS] at hs
        case ack t n r m noOk =>
          by_cases hts : t = s
          · subst hts; simp [hd] at hs
          · simp [hts] at hs; subst hs; simp [hd, acksOf, pushesOf, hts]
        case push t k =>
          by_cases hts : t = s
          · subst hts; simp [hd] at hs
          · simp [hts] at hs; subst hs; simp [hd, acksOf, pushesOf, hts]
        all_goals (repeat' split at hs) <;> first
          | (cases hs; simp [hd, acksOf, pushesOf]; done)
          | cases hs
      obtain ⟨ih0, ih1, ih2⟩ := closed_after es a1 a' hd1.1 h
      have e0 : e :: es = [e] ++ es := rfl
      have e1 : acksOf s (e :: es) = acksOf s [e] ++ acksOf s es := by
        rw [e0]; simp only [acksOf, List.filterMap_append]
      have e2 : pushesOf s (e :: es) = pushesOf s [e] ++ pushesOf s es := by
        rw [e0]; simp only [pushesOf, List.filterMap_append]
      rw [e1, e2, hd1.2.1, hd1.2.2, ih1, ih2]; exact ⟨ih0, by simp⟩

/-- Collateral close, acceptor side: a session the gateway closed (for whatever reason,
    including a failed micro-batch it merely shared) is *treated as closed* by the judge:
    no SENDACK and no other frame of that session is accepted afterwards, and its
    un-acknowledged SENDs are excused — the completeness clause (`ack-missing`) applies
    only to sessions the final snapshot reports open. -/
theorem c28_accept_closed_session (s : Nat) (pre post : List Ev) (a : Acc)
    (h : runS s (pre ++ Ev.closed s :: post) = .ok a) :
    a.closed = true ∧ acksOf s post = [] ∧ pushesOf s post = [] ∧
    (∀ b : Acc, stepS s b (Ev.snap s false) = .ok b) := by
  obtain ⟨a1, _, h2⟩ := runFrom_append pre _ {} a h
  simp only [runFrom] at h2
  have hs : stepS s a1 (Ev.closed s) = .ok { a1 with closed := true } := by simp [stepS]
  rw [hs] at h2
  obtain ⟨c1, c2, c3⟩ := closed_after post _ a rfl h2
  exact ⟨c1, c2, c3, fun b => by simp [stepS]⟩

example : verdict [.sub 1 1, .sub 2 1, .hand 1 1 0, .hand 2 1 0, .closed 1, .closed 2, .drainRet 0, .snap 1 false, .snap 2 false] = "ok" := by decide
example : verdict [.sub 2 1, .hand 2 1 0, .closed 2, .ack 2 1 1 200001 true] = "viol:ack-after-close" := by decide

/-! ## Part 4 — T tie: the synchronisation order of async_send.go (regenerated on every run) -/

/-- The source still has the admission protocol the LTS assumes: `closed` is read and
    `admitted.Add(1)` done in one admissionMu critical section before anything else
    (transition `recv`), every later failure exit gives the admission back (`enq s false`),
    `drain` sets `closed` under the same mutex before it waits for `admitted`
    (`drainStart`/`drainDone`), `completeAdmission` is `admitted.Done`, and the batch handler
    gives admissions back only after dispatch. -/
theorem c28_src_admission_protocol :
    admissionAtomic WK.Gen.C28.submitCalls = true ∧
    failureExitsGiveBack WK.Gen.C28.submitCalls = true ∧
    drainOrder WK.Gen.C28.drainCalls = true ∧
    WK.Gen.C28.completeAdmissionCalls = [(0, "e.admitted.Done")] ∧
    batchGivesBackAfterDispatch WK.Gen.C28.handleMailboxBatchCalls = true := by decide

-- non-vacuity: the checkers reject the protocol of the missed-then-caught mutant (Add after the reservations)
example : admissionAtomic [(0, "e.admissionMu.Lock"), (0, "e.closed.Load"), (1, "e.admissionMu.Unlock"), (0, "e.admissionMu.Unlock"),
    (0, "asyncSendShardIndex"), (0, "e.reserve"), (0, "e.reserveShard"), (1, "e.consume"), (0, "e.admitted.Add")] = false := by decide
example : failureExitsGiveBack [(0, "e.reserve"), (0, "e.reserveShard"), (1, "e.consume"), (1, "e.completeAdmission")] = false := by decide

/-! ## Part 5 — completeness direction (partial) -/

/-- the part of the model/acceptor simulation relation that the ack clauses need -/
structure SimAck (s : Nat) (st : St) (a : Acc) : Prop where
  hsent : a.sent = (st.sess s).sent
  hacnt : a.acnt = (st.sess s).acked.length
  hclosed : a.closed = (st.sess s).closed
  hdrain : a.drainOk = true → st.drained = true

/-- Completeness, ack clauses (partial: the simulation relation `SimAck` is a hypothesis, and
    the dispatch bookkeeping `hcnt`/`kinds` is assumed to be ahead — what is still missing for
    the full "every LTS trace is accepted" statement): whenever the LTS writes a SENDACK, the
    acknowledged client seq is exactly the next un-acknowledged SEND of that session, the
    session is open and the drain has not completed — so the acceptor's `ack-after-close`,
    `ack-after-drain-returned`, `ack-duplicate`, `ack-out-of-order` and `ack-unknown-seq`
    clauses cannot fire on a run of the model, and the relation is re-established. -/
theorem c28_lts_ack_accepted_partial (h : Reach shardOf st) {s : Nat} (hs : step shardOf st (.ack s) = some st')
    (a : Acc) (hsim : SimAck s st a) :
    ∃ n, (st'.sess s).acked = (st.sess s).acked ++ [n] ∧ a.sent[a.acnt]? = some n ∧ a.closed = false ∧ a.drainOk = false ∧
      SimAck s st' { a with acnt := a.acnt + 1 } := by
  have hreach' : Reach shardOf st' := Reach.step _ h hs
  have hpre := (c28_ack_once_in_order hreach' s)
  simp only [step] at hs
  by_cases hc : (st.sess s).closed = true
  · simp [hc] at hs
  · simp only [hc, Bool.false_eq_true, if_false] at hs
    cases hpf : popFirst s st.inflight with
    | none => simp [hpf] at hs
    | some pr =>
      obtain ⟨n, rest⟩ := pr
      simp only [hpf] at hs
      cases hs
      have hspec := popFirst_spec s _ _ _ hpf
      refine ⟨n, by simp, ?_, ?_, ?_, ?_⟩
      · have hp : ((st.sess s).acked ++ [n]) <+: (st.sess s).sent := by
          have := hpre.1.trans hpre.2.1
          simpa using this
        obtain ⟨t, ht⟩ := hp
        rw [hsim.hsent, hsim.hacnt, ← ht]
        simp
      · rw [hsim.hclosed]; simpa using hc
      · cases hd : a.drainOk with
        | false => rfl
        | true =>
          have := (c28_drain_fence h).2 (hsim.hdrain hd)
          rw [this.2.2.1] at hpf
          simp [popFirst] at hpf
      · constructor
        · simpa using hsim.hsent
        · simp [hsim.hacnt]
        · simp only [upd_same]; first | exact hsim.hclosed | (rw [hsim.hclosed]; simpa using hc)
        · intro hd; exact hsim.hdrain hd

example : SimAck 1 {} {} := ⟨rfl, rfl, rfl, fun h => by cases h⟩

/-! ## Part 6 — completeness direction, dispatch bookkeeping (partial) -/

/-- Dispatch order, model side: a `take` hands the usecase, for every session, exactly the next
    admitted-but-not-yet-dispatched SENDs of that session, in order — nothing skipped, nothing
    twice, nothing that was not admitted. -/
theorem c28_lts_take_in_order (h : Reach shardOf st) {sh k : Nat} (hs : step shardOf st (.take sh k) = some st') (s : Nat) :
    ∃ X taken, st'.inflight = st.inflight ++ taken ∧ (st.sess s).admitted = X ++ itemsOf s st.queue ∧
      (st'.sess s).admitted = X ++ itemsOf s taken ++ itemsOf s st'.queue := by
  obtain ⟨X, hX⟩ := qsuffix_reach h s
  simp only [step] at hs
  split at hs
  · cases hs
  · cases hs
    refine ⟨X, (takeP (fun it => shardOf it.1 == sh) k st.queue).1, rfl, hX.symm, ?_⟩
    have key : itemsOf s (takeP (fun it => shardOf it.1 == sh) k st.queue).1 ++
        itemsOf s (takeP (fun it => shardOf it.1 == sh) k st.queue).2 = itemsOf s st.queue := by
      by_cases hsx : shardOf s = sh
      · exact (takeP_in _ s (by intro it hit; simp [hit, hsx]) k st.queue).symm
      · obtain ⟨a, b⟩ := takeP_out (fun it => shardOf it.1 == sh) s (by intro it hit; simp [hit, hsx]) k st.queue
        rw [a, b]; simp
    simp only [List.append_assoc, key]
    exact hX.symm

/-- Completeness, dispatch clauses (partial: the relation between acceptor and model state is a
    hypothesis): the `hand` events of a `take` are accepted for session `s` — none of
    `dispatch-after-drain-returned`, `dispatch-out-of-order`, `dispatch-after-fence` fires —
    whenever the acceptor has dispatched exactly the prefix before the taken items
    (`itemsOf s taken` is the next stretch of `sent` after `hcnt`, which
    `c28_lts_take_in_order` provides), the drain has not completed, and no SEND handed over
    after the fence is among them; the dispatch bookkeeping (`hcnt`, `kinds`) advances by
    exactly the taken items of `s`. -/
theorem c28_lts_hand_accepted_partial (kindOf : Nat → Nat → Nat) (s : Nat) : ∀ (taken : List Item) (a : Acc),
    a.drainOk = false →
    itemsOf s taken <+: a.sent.drop a.hcnt →
    (∀ i, a.lateFrom = some i → a.hcnt + (itemsOf s taken).length ≤ i) →
    ∃ a', runFrom s a (handEvents kindOf taken) = .ok a' ∧
      a'.hcnt = a.hcnt + (itemsOf s taken).length ∧
      a'.kinds = a.kinds ++ (itemsOf s taken).map (kindOf s) ∧
      a'.sent = a.sent ∧ a'.acnt = a.acnt ∧ a'.closed = a.closed ∧ a'.drainOk = a.drainOk ∧
      a'.lateFrom = a.lateFrom ∧ a'.fence = a.fence ∧ a'.lastPush = a.lastPush
  | [], a, _, _, _ => ⟨a, by simp [handEvents, runFrom]⟩
  | (t, n) :: xs, a, hd, hp, hl => by
    by_cases hts : t = s
    · subst hts
      rw [itemsOf_cons] at hp hl
      simp only [if_true] at hp hl
      obtain ⟨hget, hrest⟩ := prefix_drop_head hp
      have hlate : a.nextIsLate = false := by
        unfold Acc.nextIsLate
        cases hlf : a.lateFrom with
        | none => rfl
        | some i =>
          have := hl i hlf
          simp only [List.length_cons] at this
          simp; omega
      have hstep : stepS t a (Ev.hand t n (kindOf t n)) = .ok { a with hcnt := a.hcnt + 1, kinds := a.kinds ++ [kindOf t n] } := by
        simp [stepS, hd, hget, hlate]
      obtain ⟨a', h1, h2, h3, h4, h5, h6, h7, h8, h9, h10⟩ := c28_lts_hand_accepted_partial kindOf t xs
        { a with hcnt := a.hcnt + 1, kinds := a.kinds ++ [kindOf t n] } hd hrest
        (by intro i hi; have := hl i hi; simp only [List.length_cons] at this; simp; omega)
      refine ⟨a', ?_, ?_, ?_, h4, h5, h6, h7, h8, h9, h10⟩
      · simp only [handEvents, List.map_cons, runFrom, hstep]; exact h1
      · rw [h2, itemsOf_cons]; simp; omega
      · rw [h3, itemsOf_cons]; simp
    · have hi : itemsOf s ((t, n) :: xs) = itemsOf s xs := by rw [itemsOf_cons]; simp [hts]
      rw [hi] at hp hl ⊢
      have hstep : stepS s a (Ev.hand t n (kindOf t n)) = .ok a := by simp [stepS, hts]
      obtain ⟨a', h1, rest⟩ := c28_lts_hand_accepted_partial kindOf s xs a hd hp hl
      exact ⟨a', by simp only [handEvents, List.map_cons, runFrom, hstep]; exact h1, rest⟩

example : ∃ st, run (fun _ => 0) {} [.recv 1, .enq 1 true, .recv 2, .enq 2 true, .recv 1, .enq 1 true, .take 0 3] = some st ∧
    st.inflight = [(1, 0), (2, 0), (1, 1)] ∧
    runFrom 1 { sent := [0, 1] } (handEvents (fun _ _ => 0) st.inflight) = .ok { sent := [0, 1], hcnt := 2, kinds := [0, 0] } :=
  ⟨_, rfl, rfl, rfl⟩

/-! ## Part 7 — dispatch clauses: hypotheses derived, relation preserved -/

/-- the part of the model/acceptor simulation relation the dispatch clauses need -/
structure SimD (kindOf : Nat → Nat → Nat) (s : Nat) (st : St) (a : Acc) : Prop where
  hsent : a.sent = (st.sess s).sent
  hhcnt : a.hcnt + (itemsOf s st.queue).length = (st.sess s).admitted.length
  hkinds : a.kinds = (a.sent.take a.hcnt).map (kindOf s)
  hdrain : a.drainOk = true → st.drained = true
  hlate : ∀ i, a.lateFrom = some i → ∀ n, n ∈ (st.sess s).sent → i ≤ n → n ∈ (st.sess s).late

/-- Completeness, dispatch clauses, with the hypotheses of `c28_lts_hand_accepted_partial` DERIVED from
    the model's invariants: for every reachable state and every `take`, if acceptor and model are
    related by `SimD` (same SEND list, `hcnt` = admitted minus still-queued, `kinds` = outcomes of the
    dispatched prefix, `drainOk` only after the model's drain completed, everything from `lateFrom` on
    is a post-fence SEND), then all `hand` events of that take are accepted for session `s` — no
    `dispatch-after-drain-returned` (a completed drain leaves no queue), no `dispatch-out-of-order`
    (queued SENDs are the tail of the admitted ones, which are a prefix of the SEND list), no
    `dispatch-after-fence` (post-fence SENDs are never admitted) — and `SimD` holds again afterwards. -/
theorem c28_lts_take_accepted (kindOf : Nat → Nat → Nat) (h : Reach shardOf st) {sh k : Nat}
    (hs : step shardOf st (.take sh k) = some st') (s : Nat) (a : Acc) (hsim : SimD kindOf s st a) :
    ∃ a', runFrom s a (handEvents kindOf (takeP (fun it => shardOf it.1 == sh) k st.queue).1) = .ok a' ∧
      SimD kindOf s st' a' ∧ a'.acnt = a.acnt ∧ a'.closed = a.closed ∧ a'.lastPush = a.lastPush := by
  have hI := inv_reach h
  obtain ⟨X, hX⟩ := qsuffix_reach h s
  have hord := c28_ack_once_in_order h s
  obtain ⟨t, ht⟩ := hord.2.1
  -- the step
  have hstep := hs
  simp only [step] at hs
  split at hs
  · cases hs
  · rename_i hguard
    cases hs
    have key : itemsOf s (takeP (fun it => shardOf it.1 == sh) k st.queue).1 ++
        itemsOf s (takeP (fun it => shardOf it.1 == sh) k st.queue).2 = itemsOf s st.queue := by
      by_cases hsx : shardOf s = sh
      · exact (takeP_in _ s (by intro it hit; simp [hit, hsx]) k st.queue).symm
      · obtain ⟨a1, b1⟩ := takeP_out (fun it => shardOf it.1 == sh) s (by intro it hit; simp [hit, hsx]) k st.queue
        rw [a1, b1]; simp
    generalize hT : itemsOf s (takeP (fun it => shardOf it.1 == sh) k st.queue).1 = T at key
    generalize hR : itemsOf s (takeP (fun it => shardOf it.1 == sh) k st.queue).2 = R at key
    have hadm : (st.sess s).admitted = X ++ (T ++ R) := by rw [key]; exact hX.symm
    have hsentE : a.sent = X ++ (T ++ (R ++ t)) := by rw [hsim.hsent, ← ht, hadm]; simp
    have hhc : a.hcnt = X.length := by
      have := hsim.hhcnt; rw [hadm, ← key] at this; simp at this; omega
    have hd : a.drainOk = false := by
      cases hdo : a.drainOk with
      | false => rfl
      | true =>
        have := (c28_drain_fence h).2 (hsim.hdrain hdo)
        exfalso; apply hguard
        right; left; rw [this.2.1]; simp
    have hp : T <+: a.sent.drop a.hcnt := by
      rw [hhc, hsentE, List.drop_left]; exact List.prefix_append _ _
    have hl : ∀ i, a.lateFrom = some i → a.hcnt + T.length ≤ i := by
      intro i hi
      have hle : (st.sess s).admitted.length ≤ i := by
        rcases Nat.lt_or_ge i (st.sess s).admitted.length with hlt | hge
        · exfalso
          have hsr := hI.sentRange s
          have hlen : i < (st.sess s).sent.length := by rw [← ht]; simp; omega
          have h1 : (st.sess s).sent[i]? = some i := by
            rw [hsr, List.getElem?_range (by simpa using hlen)]
          have h2 : (st.sess s).admitted[i]? = some i := by
            rw [← ht, List.getElem?_append_left hlt] at h1; exact h1
          have hmemA : i ∈ (st.sess s).admitted := List.mem_of_getElem? h2
          have hmemS : i ∈ (st.sess s).sent := List.mem_of_getElem? h1
          exact (hI.lateOk s i (hsim.hlate i hi i hmemS (Nat.le_refl i))).2.1 hmemA
        · exact hge
      rw [hadm] at hle; simp at hle; omega
    have hpart := c28_lts_hand_accepted_partial kindOf s (takeP (fun it => shardOf it.1 == sh) k st.queue).1 a hd
      (by rw [hT]; exact hp) (by rw [hT]; exact hl)
    rw [hT] at hpart
    obtain ⟨a', h1, h2, h3, h4, h5, h6, h7, h8, _, h10⟩ := hpart
    refine ⟨a', h1, ?_, h5, h6, h10⟩
    constructor
    · rw [h4]; exact hsim.hsent
    · show a'.hcnt + (itemsOf s (takeP (fun it => shardOf it.1 == sh) k st.queue).2).length = (st.sess s).admitted.length
      rw [hR, h2, hhc, hadm]; simp; omega
    · rw [h3, h4, h2, hsim.hkinds, hhc, hsentE]
      have e1 : (X ++ (T ++ (R ++ t))).take X.length = X := by simp
      have e2 : (X ++ (T ++ (R ++ t))).take (X.length + T.length) = X ++ T := by
        have : X ++ (T ++ (R ++ t)) = (X ++ T) ++ (R ++ t) := by simp
        rw [this, ← List.length_append, List.take_left]
      rw [e1, e2]; simp
    · intro hdo; rw [h7] at hdo; exact hsim.hdrain hdo
    · intro i hi; rw [h8] at hi; exact hsim.hlate i hi

example : SimD (fun _ _ => 0) 1 {} {} := ⟨rfl, rfl, rfl, (fun h => by cases h), (fun i h => by cases h)⟩

end WK.C28
